(* C14 — Interpolating and fitting factories reproduce their data.
   Model: Model/Interp.v (collocation by the basis evaluation model of C01, exact self-checked linear algebra of
   Model/Solve.v: a candidate inverse/solution is accepted only if it is well shaped and verifies the equations). *)
From Coq Require Import List Arith Reals Lra Lia Bool ZArith QArith Qreals.
From SplipyModel Require Import Spec.BSpline Model.Num Model.BasisDef Model.BasisEval Model.Tensor Model.Obj Model.Solve Model.Interp
  Proofs.TensorLemmas Proofs.TensorApply Proofs.ObjEval Proofs.LinAlg Proofs.InterpProofs Extract.Exec.
Import ListNotations.
Open Scope R_scope.

(* 1. curve interpolation: the collocation system N cp = x holds, hence the defining sum at t_i is x_i *)
Theorem C14_interpolate_system tol (b : basis R) ts x o :
  @curve_interpolate R NumR tol b ts x = Ok o -> length ts = @b_nfun R b -> (0 < @b_nfun R b)%nat ->
  mat (@b_nfun R b) (length (hd [] x)) x ->
  @matmul R NumR (@colloc R NumR tol b 0 ts) (o_cps o) = x /\ o_bases o = [b] /\ o_dim o = length (hd [] x) /\ o_rat o = false
  /\ mat (@b_nfun R b) (length (hd [] x)) (o_cps o).
Proof. exact (interp_system tol b ts x o). Qed.
Print Assumptions C14_interpolate_system.

(* 2. evaluate() of the interpolant at t_i returns x_i (any basis on which the collocation is non-singular) *)
Theorem C14_interpolate_passes_through tol (b : basis R) ts x o i v :
  @curve_interpolate R NumR tol b ts x = Ok o -> length ts = @b_nfun R b -> (0 < @b_nfun R b)%nat ->
  mat (@b_nfun R b) (length (hd [] x)) x ->
  sorted (kn (b_knots b)) -> 0 < tol -> (i < @b_nfun R b)%nat ->
  @obj_eval R NumR tol o [nth i ts 0] = Ok v -> forall c, (c < length (hd [] x))%nat -> coord c v = nth c (nth i x []) 0.
Proof. intros H1 H2 H3 H4. exact (interp_eval tol b ts x o H1 H2 H3 H4 i v). Qed.
Print Assumptions C14_interpolate_passes_through.

(* 3. interpolation is a projection: samples of a spline of the space return its control points *)
Theorem C14_interpolate_projection tol (b : basis R) ts x o c0 :
  @curve_interpolate R NumR tol b ts x = Ok o -> length ts = @b_nfun R b -> (0 < @b_nfun R b)%nat ->
  mat (@b_nfun R b) (length (hd [] x)) x -> mat (@b_nfun R b) (length (hd [] x)) c0 ->
  x = @matmul R NumR (@colloc R NumR tol b 0 ts) c0 -> o_cps o = c0.
Proof. intros H1 H2 H3 H4. exact (interp_projection tol b ts x o H1 H2 H3 c0). Qed.
Print Assumptions C14_interpolate_projection.

(* 4. least squares: normal equations (residual orthogonal to the spline space) and projection *)
Theorem C14_lsq_normal_equations tol (b : basis R) ts x o :
  @curve_lsq R NumR tol b ts x = Ok o -> (0 < @b_nfun R b)%nat -> (0 < length ts)%nat -> mat (length ts) (length (hd [] x)) x ->
  let N := @colloc R NumR tol b 0 ts in let Nt := @transpose R NumR (@b_nfun R b) N in
  @matmul R NumR (@matmul R NumR Nt N) (o_cps o) = @matmul R NumR Nt x.
Proof. exact (lsq_normal_equations tol b ts x o). Qed.
Print Assumptions C14_lsq_normal_equations.
Theorem C14_lsq_projection tol (b : basis R) ts x o c0 :
  @curve_lsq R NumR tol b ts x = Ok o -> (0 < @b_nfun R b)%nat -> (0 < length ts)%nat -> mat (length ts) (length (hd [] x)) x ->
  mat (@b_nfun R b) (length (hd [] x)) c0 -> x = @matmul R NumR (@colloc R NumR tol b 0 ts) c0 -> o_cps o = c0.
Proof. intros H1 H2 H3 H4. exact (lsq_projection tol b ts x o H1 H2 H3 c0). Qed.
Print Assumptions C14_lsq_projection.

(* 5. cubic_curve: every row of the stacked system holds for the returned control points; the rows are the
      collocation rows at t (curve(t_i) = x_i) followed by first-derivative rows (TANGENT, HERMITE,
      TANGENTNATURAL) and second-derivative rows (NATURAL, TANGENTNATURAL) at the end parameters *)
Theorem C14_cubic_rows tol bt t x tang o i c :
  @cubic_curve R NumR tol bt t x tang = Ok o ->
  let sys := @cubic_system R NumR tol bt t x tang in
  let n := @b_nfun R (fst (fst sys)) in
  mat n n (snd (fst sys)) -> (0 < n)%nat -> (i < n)%nat -> (c < length (hd [] (snd sys)))%nat ->
  lc c (nth i (snd (fst sys)) []) (o_cps o) = nth c (nth i (snd sys) []) 0.
Proof. intros H. cbv zeta. intros HA Hn. exact (cubic_rows tol bt t x tang o H HA Hn i c). Qed.
Print Assumptions C14_cubic_rows.
Theorem C14_cubic_system_rows tol bt t x tang :
  let b := mkBasis 4 (@cubic_knots R NumR bt t) 0 in
  let sys := @cubic_system R NumR tol bt t x tang in
  fst (fst sys) = b /\
  (forall i, (i < length t)%nat -> nth i (snd (fst sys)) [] = nth i (@colloc R NumR tol b 0 t) [] /\ (length x = length t -> nth i (snd sys) [] = nth i x [])) /\
  (bt = 4%nat -> length x = length t -> nth (length t) (snd (fst sys)) [] = nth 0 (@colloc R NumR tol b 1 [hd 0 t; last t 0]) [] /\
                 nth (length t + 1) (snd (fst sys)) [] = nth 1 (@colloc R NumR tol b 1 [hd 0 t; last t 0]) [] /\
                 nth (length t) (snd sys) [] = nth 0 tang [] /\ nth (length t + 1) (snd sys) [] = nth 1 tang []) /\
  (bt = 1%nat -> length x = length t -> nth (length t) (snd (fst sys)) [] = nth 0 (@colloc R NumR tol b 2 [hd 0 t; last t 0]) [] /\
                 nth (length t + 1) (snd (fst sys)) [] = nth 1 (@colloc R NumR tol b 2 [hd 0 t; last t 0]) [] /\
                 nth (length t) (snd sys) [] = repeat 0 (length (hd [] x)) /\ nth (length t + 1) (snd sys) [] = repeat 0 (length (hd [] x))).
Proof. exact (cubic_system_rows tol bt t x tang). Qed.
Print Assumptions C14_cubic_system_rows.

(* 6. surface interpolation (tensor product, via the lifting lemma of C04): the double sum at (u_i, v_j) is x_ij *)
Theorem C14_surface_interpolate_passes tol (bu bv : basis R) us vs x o i j c :
  @surface_interpolate R NumR tol bu bv us vs x = Ok o ->
  length us = @b_nfun R bu -> length vs = @b_nfun R bv -> (0 < @b_nfun R bu)%nat -> (0 < @b_nfun R bv)%nat ->
  mat (@b_nfun R bu * @b_nfun R bv) (length (hd [] x)) x ->
  (i < @b_nfun R bu)%nat -> (j < @b_nfun R bv)%nat -> (c < length (hd [] x))%nat ->
  coord c (@teval R NumR (length (hd [] x)) [nth i (@colloc R NumR tol bu 0 us) []; nth j (@colloc R NumR tol bv 0 vs) []] (o_cps o))
  = coord c (nth (i * @b_nfun R bv + j) x []) /\ o_bases o = [bu; bv].
Proof. intros H1 H2 H3 H4 H5 H6. exact (surface_interp_passes tol bu bv us vs x o H1 H2 H3 H4 H5 H6 i j c). Qed.
Print Assumptions C14_surface_interpolate_passes.

(* non-vacuity: interpolate three points on a quadratic basis at its Greville points and evaluate in the middle *)
Example C14_example :
  let b := q_mkBasis 3 [0; 0; 0; 1; 1; 1]%Q 0 in
  match q_curve_interpolate (1#10000000000) b [0; 1#2; 1]%Q [[0; 0]; [1; 2]; [2; 0]]%Q with
  | Ok o => map (map Qred) (o_cps o) = [[0; 0]; [1; 4]; [2; 0]]%Q /\
            (match q_obj_eval (1#10000000000) o [(1#2)%Q] with Ok v => map Qred v | Err _ => [] end) = [1; 2]%Q
  | Err _ => False
  end.
Proof. vm_compute. split; reflexivity. Qed.

(* ------------------------------------------------------------------------------------------------------
   Added in build session 4 (statements re-stated from the proof files by harness tooling; each is closed by
   exact). *)
From SplipyModel Require Import Transfer.ParamObj Transfer.ParamOps Transfer.ParamOps2 Spec.Deriv Model.Loft Model.InterpMore Proofs.ObjEval Proofs.LoftProofs Proofs.InterpMoreProofs Transfer.ParamLoft Model.Rebuild Proofs.RebuildProofs.
Open Scope R_scope.
Theorem C14_executed_is_proved_interpolate :
  forall (tol : Q) (b : basis Q) (ts : list Q) (x : list (list Q)),
         resmap objQ2R (curve_interpolate tol b ts x) =
         curve_interpolate (Q2R tol) (basisQ2R b) (map Q2R ts) (map (map Q2R) x).
Proof. exact @curve_interpolate_transfer. Qed.
Print Assumptions C14_executed_is_proved_interpolate.

Theorem C14_executed_is_proved_lsq :
  forall (tol : Q) (b : basis Q) (ts : list Q) (x : list (list Q)),
         resmap objQ2R (curve_lsq tol b ts x) = curve_lsq (Q2R tol) (basisQ2R b) (map Q2R ts) (map (map Q2R) x).
Proof. exact @curve_lsq_transfer. Qed.
Print Assumptions C14_executed_is_proved_lsq.

Theorem C14_executed_is_proved_cubic_curve :
  forall (tol : Q) (bt : nat) (t : list Q) (x tang : list (list Q)),
         resmap objQ2R (cubic_curve tol bt t x tang) =
         cubic_curve (Q2R tol) bt (map Q2R t) (map (map Q2R) x) (map (map Q2R) tang).
Proof. exact @cubic_curve_transfer. Qed.
Print Assumptions C14_executed_is_proved_cubic_curve.

Theorem C14_executed_is_proved_surface_interpolate :
  forall (tol : Q) (bu bv : basis Q) (us vs : list Q) (x : list (list Q)),
         resmap objQ2R (surface_interpolate tol bu bv us vs x) =
         surface_interpolate (Q2R tol) (basisQ2R bu) (basisQ2R bv) (map Q2R us) (map Q2R vs) (map (map Q2R) x).
Proof. exact @surface_interpolate_transfer. Qed.
Print Assumptions C14_executed_is_proved_surface_interpolate.

Theorem C14_loft_passes_through_sections :
  forall (tol : R) (curves : list (obj R)) (dist : list R) (S0 : obj R),
         loft_core tol curves dist = Ok S0 ->
         forall (b1 : basis R) (rat : bool) (dim : nat),
         (forall c : obj R,
          In c curves ->
          o_bases c = [b1] /\
          o_dim c = dim /\ o_rat c = rat /\ mat (b_nfun b1) (dim + (if rat then 1%nat else 0%nat)) (o_cps c)) ->
         (0 < b_nfun b1)%nat ->
         length dist = length curves ->
         sorted (kn (b_knots (loft_basis (length curves) dist))) ->
         0 < tol ->
         forall (j : nat) (u : R) (vS : list R),
         (j < length curves)%nat ->
         obj_eval tol S0 [u; nth j (loft_params (length curves) dist) 0] = Ok vS ->
         obj_eval tol (nth j curves dflt_obj) [u] = Ok vS.
Proof. exact @loft_passes_through_sections. Qed.
Print Assumptions C14_loft_passes_through_sections.

Theorem C14_loft_set_dimension_passes_through_sections :
  forall (tol : R) (curves : list (obj R)) (dist : list R) (S0 : obj R) (b1 : basis R) 
           (rat : bool) (dim j : nat) (u : R) (vS : list R),
         loft tol curves dist = Ok S0 ->
         (forall c : obj R,
          In c curves ->
          o_bases c = [b1] /\
          o_dim c = dim /\ o_rat c = rat /\ mat (b_nfun b1) (dim + (if rat then 1%nat else 0%nat)) (o_cps c)) ->
         (0 < b_nfun b1)%nat ->
         length dist = length curves ->
         sorted (kn (b_knots (loft_basis (length curves) dist))) ->
         0 < tol ->
         (j < length curves)%nat ->
         obj_eval tol S0 [u; nth j (loft_params (length curves) dist) 0] = Ok vS ->
         obj_eval tol (Affine.obj_set_dimension (nth j curves dflt_obj) 3) [u] = Ok vS.
Proof. exact @loft_set_dimension_passes_through_sections. Qed.
Print Assumptions C14_loft_set_dimension_passes_through_sections.

Theorem C14_vloft_passes_through_sections :
  forall (tol : R) (surfs : list (obj R)) (dist : list R) (S0 : obj R),
         vloft_core tol surfs dist = Ok S0 ->
         forall (b1 b2 : basis R) (rat : bool) (dim : nat),
         (forall s : obj R,
          In s surfs ->
          o_bases s = [b1; b2] /\
          o_dim s = dim /\
          o_rat s = rat /\ mat (b_nfun b1 * b_nfun b2) (dim + (if rat then 1%nat else 0%nat)) (o_cps s)) ->
         (0 < b_nfun b1)%nat ->
         (0 < b_nfun b2)%nat ->
         length dist = length surfs ->
         sorted (kn (b_knots (loft_basis (length surfs) dist))) ->
         0 < tol ->
         forall (j : nat) (u v : R) (vS : list R),
         (j < length surfs)%nat ->
         obj_eval tol S0 [u; v; nth j (loft_params (length surfs) dist) 0] = Ok vS ->
         obj_eval tol (nth j surfs dflt_obj) [u; v] = Ok vS.
Proof. exact @vloft_passes_through_sections. Qed.
Print Assumptions C14_vloft_passes_through_sections.

Theorem C14_cubic_passes_through :
  forall (tol : R) (bt : nat) (t : list R) (x tang : list (list R)) (o : obj R),
         cubic_curve tol bt t x tang = Ok o ->
         In bt [0%nat; 1%nat; 2%nat; 4%nat; 5%nat] ->
         length x = length t ->
         (2 <= length t)%nat ->
         sorted (kn (cubic_knots bt t)) ->
         0 < tol ->
         (bt = 2%nat -> length tang = length t) ->
         forall (i : nat) (v : list R),
         (i < length t)%nat ->
         obj_eval tol o [nth i t 0] = Ok v ->
         forall c : nat, (c < length (hd [] x))%nat -> coord c v = nth c (nth i x []) 0.
Proof. exact @cubic_passes_through. Qed.
Print Assumptions C14_cubic_passes_through.

Theorem C14_cubic_natural_ends :
  forall (tol : R) (bt : nat) (t : list R) (x tang : list (list R)) (o : obj R),
         cubic_curve tol bt t x tang = Ok o ->
         In bt [0%nat; 1%nat; 2%nat; 4%nat; 5%nat] ->
         length x = length t ->
         (2 <= length t)%nat ->
         sorted (kn (cubic_knots bt t)) ->
         0 < tol ->
         (bt = 2%nat -> length tang = length t) ->
         forall v : list R,
         bt = 1%nat ->
         (obj_deriv tol o [2%nat] [true] [hd 0 t] = Ok v -> forall c : nat, (c < length (hd [] x))%nat -> coord c v = 0) /\
         (obj_deriv tol o [2%nat] [true] [last t 0] = Ok v ->
          forall c : nat, (c < length (hd [] x))%nat -> coord c v = 0).
Proof. exact @cubic_natural_ends. Qed.
Print Assumptions C14_cubic_natural_ends.

Theorem C14_cubic_tangent_ends :
  forall (tol : R) (bt : nat) (t : list R) (x tang : list (list R)) (o : obj R),
         cubic_curve tol bt t x tang = Ok o ->
         In bt [0%nat; 1%nat; 2%nat; 4%nat; 5%nat] ->
         length x = length t ->
         (2 <= length t)%nat ->
         sorted (kn (cubic_knots bt t)) ->
         0 < tol ->
         (bt = 2%nat -> length tang = length t) ->
         forall v : list R,
         bt = 4%nat ->
         length tang = 2%nat ->
         (obj_deriv tol o [1%nat] [true] [hd 0 t] = Ok v ->
          forall c : nat, (c < length (hd [] x))%nat -> coord c v = nth c (nth 0 tang []) 0) /\
         (obj_deriv tol o [1%nat] [true] [last t 0] = Ok v ->
          forall c : nat, (c < length (hd [] x))%nat -> coord c v = nth c (nth 1 tang []) 0).
Proof. exact @cubic_tangent_ends. Qed.
Print Assumptions C14_cubic_tangent_ends.

Theorem C14_cubic_hermite_tangents :
  forall (tol : R) (bt : nat) (t : list R) (x tang : list (list R)) (o : obj R),
         cubic_curve tol bt t x tang = Ok o ->
         In bt [0%nat; 1%nat; 2%nat; 4%nat; 5%nat] ->
         length x = length t ->
         (2 <= length t)%nat ->
         sorted (kn (cubic_knots bt t)) ->
         0 < tol ->
         (bt = 2%nat -> length tang = length t) ->
         forall (i : nat) (v : list R),
         bt = 2%nat ->
         (i < length t)%nat ->
         obj_deriv tol o [1%nat] [true] [nth i t 0] = Ok v ->
         forall c : nat, (c < length (hd [] x))%nat -> coord c v = nth c (nth i tang []) 0.
Proof. exact @cubic_hermite_tangents. Qed.
Print Assumptions C14_cubic_hermite_tangents.

Theorem C14_cubic_tangentnatural_ends :
  forall (tol : R) (bt : nat) (t : list R) (x tang : list (list R)) (o : obj R),
         cubic_curve tol bt t x tang = Ok o ->
         In bt [0%nat; 1%nat; 2%nat; 4%nat; 5%nat] ->
         length x = length t ->
         (2 <= length t)%nat ->
         sorted (kn (cubic_knots bt t)) ->
         0 < tol ->
         (bt = 2%nat -> length tang = length t) ->
         forall v : list R,
         bt = 5%nat ->
         length tang = 1%nat ->
         (obj_deriv tol o [1%nat] [true] [hd 0 t] = Ok v ->
          forall c : nat, (c < length (hd [] x))%nat -> coord c v = nth c (nth 0 tang []) 0) /\
         (obj_deriv tol o [2%nat] [true] [last t 0] = Ok v ->
          forall c : nat, (c < length (hd [] x))%nat -> coord c v = 0).
Proof. exact @cubic_tangentnatural_ends. Qed.
Print Assumptions C14_cubic_tangentnatural_ends.

Theorem C14_cubic_natural_spec :
  forall (tol : R) (bt : nat) (t : list R) (x tang : list (list R)) (o : obj R),
         cubic_curve tol bt t x tang = Ok o ->
         In bt [1%nat; 4%nat; 5%nat] ->
         length x = length t ->
         (2 <= length t)%nat ->
         sorted (kn (cubic_knots bt t)) ->
         0 < tol ->
         tol <= last t 0 - hd 0 t ->
         forall c : nat,
         bt = 1%nat ->
         (c < length (hd [] x))%nat ->
         sumf (fun i : nat => dB true (kn (cubic_knots bt t)) 2 3 i (hd 0 t) * coord c (nth i (o_cps o) [])) 0
           (length t + 2) = 0 /\
         sumf (fun i : nat => dB false (kn (cubic_knots bt t)) 2 3 i (last t 0) * coord c (nth i (o_cps o) [])) 0
           (length t + 2) = 0.
Proof. exact @cubic_natural_spec. Qed.
Print Assumptions C14_cubic_natural_spec.

Theorem C14_cubic_tangent_spec :
  forall (tol : R) (bt : nat) (t : list R) (x tang : list (list R)) (o : obj R),
         cubic_curve tol bt t x tang = Ok o ->
         In bt [1%nat; 4%nat; 5%nat] ->
         length x = length t ->
         (2 <= length t)%nat ->
         sorted (kn (cubic_knots bt t)) ->
         0 < tol ->
         tol <= last t 0 - hd 0 t ->
         forall c : nat,
         bt = 4%nat ->
         length tang = 2%nat ->
         (c < length (hd [] x))%nat ->
         sumf (fun i : nat => dB true (kn (cubic_knots bt t)) 1 3 i (hd 0 t) * coord c (nth i (o_cps o) [])) 0
           (length t + 2) = nth c (nth 0 tang []) 0 /\
         sumf (fun i : nat => dB false (kn (cubic_knots bt t)) 1 3 i (last t 0) * coord c (nth i (o_cps o) [])) 0
           (length t + 2) = nth c (nth 1 tang []) 0.
Proof. exact @cubic_tangent_spec. Qed.
Print Assumptions C14_cubic_tangent_spec.

Theorem C14_cubic_tangentnatural_spec :
  forall (tol : R) (bt : nat) (t : list R) (x tang : list (list R)) (o : obj R),
         cubic_curve tol bt t x tang = Ok o ->
         In bt [1%nat; 4%nat; 5%nat] ->
         length x = length t ->
         (2 <= length t)%nat ->
         sorted (kn (cubic_knots bt t)) ->
         0 < tol ->
         tol <= last t 0 - hd 0 t ->
         forall c : nat,
         bt = 5%nat ->
         length tang = 1%nat ->
         (c < length (hd [] x))%nat ->
         sumf (fun i : nat => dB true (kn (cubic_knots bt t)) 1 3 i (hd 0 t) * coord c (nth i (o_cps o) [])) 0
           (length t + 2) = nth c (nth 0 tang []) 0 /\
         sumf (fun i : nat => dB false (kn (cubic_knots bt t)) 2 3 i (last t 0) * coord c (nth i (o_cps o) [])) 0
           (length t + 2) = 0.
Proof. exact @cubic_tangentnatural_spec. Qed.
Print Assumptions C14_cubic_tangentnatural_spec.

Theorem C14_cubic_periodic_passes_through :
  forall (tol : R) (t : list R) (x : list (list R)) (o : obj R),
         cubic_periodic tol t x = Ok o ->
         (4 <= length t)%nat ->
         sorted (kn (cubic_periodic_knots t)) ->
         0 < tol ->
         length x = length t ->
         forall (i : nat) (v : list R),
         (i < length t - 1)%nat ->
         obj_eval tol o [nth i t 0] = Ok v ->
         forall c : nat, (c < length (hd [] x))%nat -> coord c v = nth c (nth i x []) 0.
Proof. exact @cubic_periodic_passes_through. Qed.
Print Assumptions C14_cubic_periodic_passes_through.

Theorem C14_cubic_periodic_closed_C2 :
  forall (tol : R) (t : list R) (x : list (list R)) (o : obj R),
         cubic_periodic tol t x = Ok o ->
         (4 <= length t)%nat ->
         sorted (kn (cubic_periodic_knots t)) ->
         hd 0 t < nth 1 t 0 ->
         nth (length t - 2) t 0 < last t 0 ->
         0 < tol ->
         tol <= last t 0 - hd 0 t ->
         length x = length t ->
         forall r : nat,
         (r <= 2)%nat ->
         exists v : list R, obj_deriv tol o [r] [true] [hd 0 t] = Ok v /\ obj_deriv tol o [r] [false] [last t 0] = Ok v.
Proof. exact @cubic_periodic_closed_C2. Qed.
Print Assumptions C14_cubic_periodic_closed_C2.

Theorem C14_volume_interp_passes :
  forall (tol : R) (bu bv bw : basis R) (us vs ws : list R) (x : list (list R)) (o : obj R),
         volume_interpolate tol bu bv bw us vs ws x = Ok o ->
         length us = b_nfun bu ->
         length vs = b_nfun bv ->
         length ws = b_nfun bw ->
         (0 < b_nfun bu)%nat ->
         (0 < b_nfun bv)%nat ->
         (0 < b_nfun bw)%nat ->
         mat (b_nfun bu * b_nfun bv * b_nfun bw) (length (hd [] x)) x ->
         forall i j k c : nat,
         (i < b_nfun bu)%nat ->
         (j < b_nfun bv)%nat ->
         (k < b_nfun bw)%nat ->
         (c < length (hd [] x))%nat ->
         coord c
           (teval (length (hd [] x))
              [nth i (colloc tol bu 0 us) []; nth j (colloc tol bv 0 vs) []; nth k (colloc tol bw 0 ws) []] 
              (o_cps o)) = coord c (nth ((i * b_nfun bv + j) * b_nfun bw + k) x []) /\ o_bases o = [bu; bv; bw].
Proof. exact @volume_interp_passes. Qed.
Print Assumptions C14_volume_interp_passes.

Theorem C14_volume_interp_eval :
  forall (tol : R) (bu bv bw : basis R) (us vs ws : list R) (x : list (list R)) (o : obj R),
         volume_interpolate tol bu bv bw us vs ws x = Ok o ->
         length us = b_nfun bu ->
         length vs = b_nfun bv ->
         length ws = b_nfun bw ->
         (0 < b_nfun bu)%nat ->
         (0 < b_nfun bv)%nat ->
         (0 < b_nfun bw)%nat ->
         mat (b_nfun bu * b_nfun bv * b_nfun bw) (length (hd [] x)) x ->
         forall (i j k : nat) (v : list R),
         sorted (kn (b_knots bu)) ->
         sorted (kn (b_knots bv)) ->
         sorted (kn (b_knots bw)) ->
         0 < tol ->
         (i < b_nfun bu)%nat ->
         (j < b_nfun bv)%nat ->
         (k < b_nfun bw)%nat ->
         obj_eval tol o [nth i us 0; nth j vs 0; nth k ws 0] = Ok v ->
         forall c : nat,
         (c < length (hd [] x))%nat -> coord c v = coord c (nth ((i * b_nfun bv + j) * b_nfun bw + k) x []).
Proof. exact @volume_interp_eval. Qed.
Print Assumptions C14_volume_interp_eval.

Theorem C14_surface_interp_eval :
  forall (tol : R) (bu bv : basis R) (us vs : list R) (x : list (list R)) (o : obj R) (i j : nat) (v : list R),
         surface_interpolate tol bu bv us vs x = Ok o ->
         length us = b_nfun bu ->
         length vs = b_nfun bv ->
         (0 < b_nfun bu)%nat ->
         (0 < b_nfun bv)%nat ->
         mat (b_nfun bu * b_nfun bv) (length (hd [] x)) x ->
         sorted (kn (b_knots bu)) ->
         sorted (kn (b_knots bv)) ->
         0 < tol ->
         (i < b_nfun bu)%nat ->
         (j < b_nfun bv)%nat ->
         obj_eval tol o [nth i us 0; nth j vs 0] = Ok v ->
         forall c : nat, (c < length (hd [] x))%nat -> coord c v = coord c (nth (i * b_nfun bv + j) x []).
Proof. exact @surface_interp_eval. Qed.
Print Assumptions C14_surface_interp_eval.

Theorem C14_surface_lsq_normal_equations :
  forall (tol : R) (bu bv : basis R) (us vs : list R) (x : list (list R)) (o : obj R),
         surface_lsq tol bu bv us vs x = Ok o ->
         (0 < b_nfun bu)%nat ->
         (0 < b_nfun bv)%nat ->
         (0 < length us)%nat ->
         (0 < length vs)%nat ->
         mat (length us * length vs) (length (hd [] x)) x ->
         forall a b c : nat,
         (a < b_nfun bu)%nat ->
         (b < b_nfun bv)%nat ->
         (c < length (hd [] x))%nat ->
         tsum
           [nth a (matmul (transpose (b_nfun bu) (colloc tol bu 0 us)) (colloc tol bu 0 us)) [];
            nth b (matmul (transpose (b_nfun bv) (colloc tol bv 0 vs)) (colloc tol bv 0 vs)) []]
           (cnet (length (hd [] x)) c (o_cps o)) =
         tsum
           [nth a (transpose (b_nfun bu) (colloc tol bu 0 us)) [];
            nth b (transpose (b_nfun bv) (colloc tol bv 0 vs)) []] (cnet (length (hd [] x)) c x).
Proof. exact @surface_lsq_normal_equations. Qed.
Print Assumptions C14_surface_lsq_normal_equations.

Theorem C14_surface_lsq_projection :
  forall (tol : R) (bu bv : basis R) (us vs : list R) (x : list (list R)) (o : obj R),
         surface_lsq tol bu bv us vs x = Ok o ->
         (0 < b_nfun bu)%nat ->
         (0 < b_nfun bv)%nat ->
         (0 < length us)%nat ->
         (0 < length vs)%nat ->
         mat (length us * length vs) (length (hd [] x)) x ->
         forall c0 : list (list R),
         okn (length (hd [] x)) [b_nfun bu; b_nfun bv] c0 ->
         x =
         apply_dir (length (hd [] x)) [b_nfun bu; length vs] 0 (colloc tol bu 0 us)
           (apply_dir (length (hd [] x)) [b_nfun bu; b_nfun bv] 1 (colloc tol bv 0 vs) c0) -> 
         o_cps o = c0.
Proof. exact @surface_lsq_projection. Qed.
Print Assumptions C14_surface_lsq_projection.

Theorem C14_volume_lsq_normal_equations :
  forall (tol : R) (bu bv bw : basis R) (us vs ws : list R) (x : list (list R)) (o : obj R),
         volume_lsq tol bu bv bw us vs ws x = Ok o ->
         (0 < b_nfun bu)%nat ->
         (0 < b_nfun bv)%nat ->
         (0 < b_nfun bw)%nat ->
         (0 < length us)%nat ->
         (0 < length vs)%nat ->
         (0 < length ws)%nat ->
         mat (length us * length vs * length ws) (length (hd [] x)) x ->
         forall a b c e : nat,
         (a < b_nfun bu)%nat ->
         (b < b_nfun bv)%nat ->
         (c < b_nfun bw)%nat ->
         (e < length (hd [] x))%nat ->
         tsum
           [nth a (matmul (transpose (b_nfun bu) (colloc tol bu 0 us)) (colloc tol bu 0 us)) [];
            nth b (matmul (transpose (b_nfun bv) (colloc tol bv 0 vs)) (colloc tol bv 0 vs)) [];
            nth c (matmul (transpose (b_nfun bw) (colloc tol bw 0 ws)) (colloc tol bw 0 ws)) []]
           (cnet (length (hd [] x)) e (o_cps o)) =
         tsum
           [nth a (transpose (b_nfun bu) (colloc tol bu 0 us)) [];
            nth b (transpose (b_nfun bv) (colloc tol bv 0 vs)) [];
            nth c (transpose (b_nfun bw) (colloc tol bw 0 ws)) []] (cnet (length (hd [] x)) e x).
Proof. exact @volume_lsq_normal_equations. Qed.
Print Assumptions C14_volume_lsq_normal_equations.

Theorem C14_volume_lsq_projection :
  forall (tol : R) (bu bv bw : basis R) (us vs ws : list R) (x : list (list R)) (o : obj R),
         volume_lsq tol bu bv bw us vs ws x = Ok o ->
         (0 < b_nfun bu)%nat ->
         (0 < b_nfun bv)%nat ->
         (0 < b_nfun bw)%nat ->
         (0 < length us)%nat ->
         (0 < length vs)%nat ->
         (0 < length ws)%nat ->
         mat (length us * length vs * length ws) (length (hd [] x)) x ->
         forall c0 : list (list R),
         okn (length (hd [] x)) [b_nfun bu; b_nfun bv; b_nfun bw] c0 ->
         x =
         apply_dir (length (hd [] x)) [b_nfun bu; length vs; length ws] 0 (colloc tol bu 0 us)
           (apply_dir (length (hd [] x)) [b_nfun bu; b_nfun bv; length ws] 1 (colloc tol bv 0 vs)
              (apply_dir (length (hd [] x)) [b_nfun bu; b_nfun bv; b_nfun bw] 2 (colloc tol bw 0 ws) c0)) ->
         o_cps o = c0.
Proof. exact @volume_lsq_projection. Qed.
Print Assumptions C14_volume_lsq_projection.

Theorem C14_manipulate_interpolates :
  forall (tol : R) (crv : obj R) (f : list R -> R -> list R) (d : nat) (o : obj R) (i : nat) (p v : list R),
         manipulate_xt tol crv f = Ok o ->
         let b := hd dflt_bas (o_bases crv) in
         (0 < b_nfun b)%nat ->
         sorted (kn (b_knots b)) ->
         0 < tol ->
         (forall (q : list R) (s : R), length (f q s) = d) ->
         (i < b_nfun b)%nat ->
         let g := nth i (greville_all b) 0 in
         obj_eval tol crv [g] = Ok p ->
         obj_eval tol o [g] = Ok v -> forall c : nat, (c < d)%nat -> coord c v = nth c (f p g) 0.
Proof. exact @manipulate_interpolates. Qed.
Print Assumptions C14_manipulate_interpolates.

Theorem C14_loft_transfer :
  forall (tol : Q) (curves : list (obj Q)) (dist : list Q),
         resmap objQ2R (loft tol curves dist) = loft (Q2R tol) (map objQ2R curves) (map Q2R dist).
Proof. exact @loft_transfer. Qed.
Print Assumptions C14_loft_transfer.

Theorem C14_vloft_transfer :
  forall (tol : Q) (surfs : list (obj Q)) (dist : list Q),
         resmap objQ2R (vloft tol surfs dist) = vloft (Q2R tol) (map objQ2R surfs) (map Q2R dist).
Proof. exact @vloft_transfer. Qed.
Print Assumptions C14_vloft_transfer.

Theorem C14_volume_interpolate_transfer :
  forall (tol : Q) (bu bv bw : basis Q) (us vs ws : list Q) (x : list (list Q)),
         resmap objQ2R (volume_interpolate tol bu bv bw us vs ws x) =
         volume_interpolate (Q2R tol) (basisQ2R bu) (basisQ2R bv) (basisQ2R bw) (map Q2R us) 
           (map Q2R vs) (map Q2R ws) (map (map Q2R) x).
Proof. exact @volume_interpolate_transfer. Qed.
Print Assumptions C14_volume_interpolate_transfer.

Theorem C14_surface_lsq_transfer :
  forall (tol : Q) (bu bv : basis Q) (us vs : list Q) (x : list (list Q)),
         resmap objQ2R (surface_lsq tol bu bv us vs x) =
         surface_lsq (Q2R tol) (basisQ2R bu) (basisQ2R bv) (map Q2R us) (map Q2R vs) (map (map Q2R) x).
Proof. exact @surface_lsq_transfer. Qed.
Print Assumptions C14_surface_lsq_transfer.

Theorem C14_volume_lsq_transfer :
  forall (tol : Q) (bu bv bw : basis Q) (us vs ws : list Q) (x : list (list Q)),
         resmap objQ2R (volume_lsq tol bu bv bw us vs ws x) =
         volume_lsq (Q2R tol) (basisQ2R bu) (basisQ2R bv) (basisQ2R bw) (map Q2R us) (map Q2R vs) 
           (map Q2R ws) (map (map Q2R) x).
Proof. exact @volume_lsq_transfer. Qed.
Print Assumptions C14_volume_lsq_transfer.

Theorem C14_cubic_periodic_transfer :
  forall (tol : Q) (t : list Q) (x : list (list Q)),
         resmap objQ2R (cubic_periodic tol t x) = cubic_periodic (Q2R tol) (map Q2R t) (map (map Q2R) x).
Proof. exact @cubic_periodic_transfer. Qed.
Print Assumptions C14_cubic_periodic_transfer.

Theorem C14_rebuild_knots_list :
  forall (p n : nat) (t0 t1 : R),
         (1 <= p <= n)%nat ->
         b_knots (rebuild_basis p n t0 t1) =
         map (fun i : nat => t0 + (t1 - t0) * (INR (uidx p n i) / INR (n - p + 1))) (seq 0 (n + p)).
Proof. exact @rebuild_knots_list. Qed.
Print Assumptions C14_rebuild_knots_list.

Theorem C14_rebuild_basis_domain :
  forall (p n : nat) (t0 t1 : R),
         (1 <= p <= n)%nat ->
         t0 < t1 ->
         let b := rebuild_basis p n t0 t1 in
         b_order b = p /\
         b_per1 b = 0%nat /\
         length (b_knots b) = (n + p)%nat /\
         b_nfun b = n /\
         sorted (kn (b_knots b)) /\
         b_start b = t0 /\
         b_end b = t1 /\
         (forall i : nat, (i < n + p)%nat -> kn (b_knots b) i = t0 <-> (i < p)%nat) /\
         (forall i : nat, (i < n + p)%nat -> kn (b_knots b) i = t1 <-> (n <= i)%nat) /\
         (forall j : nat,
          (1 <= j <= n - p)%nat -> kn (b_knots b) (p - 1 + j) = t0 + (t1 - t0) * (INR j / INR (n - p + 1))).
Proof. exact @rebuild_basis_domain. Qed.
Print Assumptions C14_rebuild_basis_domain.

Theorem C14_rebuild_start :
  forall (p n : nat) (t0 t1 : R), (1 <= p <= n)%nat -> b_start (rebuild_basis p n t0 t1) = t0.
Proof. exact @rebuild_start. Qed.
Print Assumptions C14_rebuild_start.

Theorem C14_rebuild_end :
  forall (p n : nat) (t0 t1 : R), (1 <= p <= n)%nat -> b_end (rebuild_basis p n t0 t1) = t1.
Proof. exact @rebuild_end. Qed.
Print Assumptions C14_rebuild_end.

Theorem C14_rebuild_knots_in_domain :
  forall (p n : nat) (t0 t1 : R) (i : nat),
         (1 <= p <= n)%nat -> t0 <= t1 -> (i < n + p)%nat -> t0 <= kn (b_knots (rebuild_basis p n t0 t1)) i <= t1.
Proof. exact @rebuild_knots_in_domain. Qed.
Print Assumptions C14_rebuild_knots_in_domain.

Theorem C14_rebuild_shape :
  forall (tol : R) (o : obj R) (p n : nat) (r : obj R),
         curve_rebuild tol o p n = Ok r ->
         0 < tol ->
         wf_obj_R tol o ->
         o_pardim o = 1%nat ->
         (2 <= p <= n)%nat /\
         o_bases r = [rebuild_basis p n (b_start (hd dflt_bas (o_bases o))) (b_end (hd dflt_bas (o_bases o)))] /\
         o_rat r = false /\
         o_dim r = o_dim o /\
         mat n (o_dim o) (o_cps r) /\
         b_order (rebuild_basis p n (b_start (hd dflt_bas (o_bases o))) (b_end (hd dflt_bas (o_bases o)))) = p /\
         b_per1 (rebuild_basis p n (b_start (hd dflt_bas (o_bases o))) (b_end (hd dflt_bas (o_bases o)))) = 0%nat /\
         b_nfun (rebuild_basis p n (b_start (hd dflt_bas (o_bases o))) (b_end (hd dflt_bas (o_bases o)))) = n /\
         b_start (rebuild_basis p n (b_start (hd dflt_bas (o_bases o))) (b_end (hd dflt_bas (o_bases o)))) =
         b_start (hd dflt_bas (o_bases o)) /\
         b_end (rebuild_basis p n (b_start (hd dflt_bas (o_bases o))) (b_end (hd dflt_bas (o_bases o)))) =
         b_end (hd dflt_bas (o_bases o)) /\
         sorted
           (kn (b_knots (rebuild_basis p n (b_start (hd dflt_bas (o_bases o))) (b_end (hd dflt_bas (o_bases o)))))).
Proof. exact @rebuild_shape. Qed.
Print Assumptions C14_rebuild_shape.

Theorem C14_rebuild_interpolates :
  forall (tol : R) (o : obj R) (p n : nat) (r : obj R),
         curve_rebuild tol o p n = Ok r ->
         0 < tol ->
         wf_obj_R tol o ->
         o_pardim o = 1%nat ->
         forall i : nat,
         (i < n)%nat ->
         exists q : list R,
           obj_eval tol o
             [nth i
                (greville_all (rebuild_basis p n (b_start (hd dflt_bas (o_bases o))) (b_end (hd dflt_bas (o_bases o)))))
                0] = Ok q /\
           length q = o_dim o /\
           (forall v : list R,
            obj_eval tol r
              [nth i
                 (greville_all
                    (rebuild_basis p n (b_start (hd dflt_bas (o_bases o))) (b_end (hd dflt_bas (o_bases o))))) 0] =
            Ok v -> forall c : nat, (c < o_dim o)%nat -> coord c v = coord c q).
Proof. exact @rebuild_interpolates. Qed.
Print Assumptions C14_rebuild_interpolates.

Theorem C14_rebuild_reproduces :
  forall (tol : R) (o : obj R) (p n : nat) (r : obj R) (c0 : list (list R)),
         curve_rebuild tol o p n = Ok r ->
         0 < tol ->
         wf_obj_R tol o ->
         o_pardim o = 1%nat ->
         let b0 := hd dflt_bas (o_bases o) in
         let b := rebuild_basis p n (b_start b0) (b_end b0) in
         mat n (o_dim o) c0 ->
         (forall i : nat,
          (i < n)%nat ->
          exists q : list R,
            obj_eval tol o [nth i (greville_all b) 0] = Ok q /\
            obj_eval tol {| o_bases := [b]; o_cps := c0; o_dim := o_dim o; o_rat := false |} [nth i (greville_all b) 0] =
            Ok q) -> o_cps r = c0.
Proof. exact @rebuild_reproduces. Qed.
Print Assumptions C14_rebuild_reproduces.

Theorem C14_rebuild_poly_example :
  rbq_view (curve_rebuild rbq_tol rbq_poly 3 5) =
         Some
           ([(-2)%Q; (-2)%Q; (-2)%Q; (- (5 # 3))%Q; (- (4 # 3))%Q; (-1)%Q; (-1)%Q; (-1)%Q],
            [[0%Q; 0%Q]; [1 # 3; 0%Q]; [7 # 9; 2 # 9]; [1%Q; 2 # 3]; [1%Q; 1%Q]], 2%nat, false).
Proof. exact @rebuild_poly_example. Qed.
Print Assumptions C14_rebuild_poly_example.

