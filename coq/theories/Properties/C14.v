(* C14 — Interpolating and fitting factories reproduce their data.
   Model: Model/Interp.v (collocation by the basis evaluation model of C01, exact self-checked linear algebra of
   Model/Solve.v: a candidate inverse/solution is accepted only if it is well shaped and verifies the equations). *)
From Coq Require Import List Arith Reals Lra Lia Bool ZArith QArith Qreals.
From SplipyModel Require Import Spec.BSpline Model.Num Model.BasisDef Model.BasisEval Model.Tensor Model.Obj Model.Solve Model.Interp
  Proofs.TensorLemmas Proofs.TensorApply Proofs.ObjEval Proofs.LinAlg Proofs.InterpProofs Extract.Exec.
Import ListNotations.
Open Scope R_scope.

(* 1. curve interpolation: the collocation system N cp = x holds, hence the defining sum at t_i is x_i *)
Theorem C14_interpolate_system tol (b : basis R) ts x o :
  @curve_interpolate R NumR tol b ts x = Ok o -> length ts = @b_nfun R b -> (0 < @b_nfun R b)%nat ->
  mat (@b_nfun R b) (length (hd [] x)) x ->
  @matmul R NumR (@colloc R NumR tol b 0 ts) (o_cps o) = x /\ o_bases o = [b] /\ o_dim o = length (hd [] x) /\ o_rat o = false
  /\ mat (@b_nfun R b) (length (hd [] x)) (o_cps o).
Proof. exact (interp_system tol b ts x o). Qed.
Print Assumptions C14_interpolate_system.

(* 2. evaluate() of the interpolant at t_i returns x_i (any basis on which the collocation is non-singular) *)
Theorem C14_interpolate_passes_through tol (b : basis R) ts x o i v :
  @curve_interpolate R NumR tol b ts x = Ok o -> length ts = @b_nfun R b -> (0 < @b_nfun R b)%nat ->
  mat (@b_nfun R b) (length (hd [] x)) x ->
  sorted (kn (b_knots b)) -> 0 < tol -> (i < @b_nfun R b)%nat ->
  @obj_eval R NumR tol o [nth i ts 0] = Ok v -> forall c, (c < length (hd [] x))%nat -> coord c v = nth c (nth i x []) 0.
Proof. intros H1 H2 H3 H4. exact (interp_eval tol b ts x o H1 H2 H3 H4 i v). Qed.
Print Assumptions C14_interpolate_passes_through.

(* 3. interpolation is a projection: samples of a spline of the space return its control points *)
Theorem C14_interpolate_projection tol (b : basis R) ts x o c0 :
  @curve_interpolate R NumR tol b ts x = Ok o -> length ts = @b_nfun R b -> (0 < @b_nfun R b)%nat ->
  mat (@b_nfun R b) (length (hd [] x)) x -> mat (@b_nfun R b) (length (hd [] x)) c0 ->
  x = @matmul R NumR (@colloc R NumR tol b 0 ts) c0 -> o_cps o = c0.
Proof. intros H1 H2 H3 H4. exact (interp_projection tol b ts x o H1 H2 H3 c0). Qed.
Print Assumptions C14_interpolate_projection.

(* 4. least squares: normal equations (residual orthogonal to the spline space) and projection *)
Theorem C14_lsq_normal_equations tol (b : basis R) ts x o :
  @curve_lsq R NumR tol b ts x = Ok o -> (0 < @b_nfun R b)%nat -> (0 < length ts)%nat -> mat (length ts) (length (hd [] x)) x ->
  let N := @colloc R NumR tol b 0 ts in let Nt := @transpose R NumR (@b_nfun R b) N in
  @matmul R NumR (@matmul R NumR Nt N) (o_cps o) = @matmul R NumR Nt x.
Proof. exact (lsq_normal_equations tol b ts x o). Qed.
Print Assumptions C14_lsq_normal_equations.
Theorem C14_lsq_projection tol (b : basis R) ts x o c0 :
  @curve_lsq R NumR tol b ts x = Ok o -> (0 < @b_nfun R b)%nat -> (0 < length ts)%nat -> mat (length ts) (length (hd [] x)) x ->
  mat (@b_nfun R b) (length (hd [] x)) c0 -> x = @matmul R NumR (@colloc R NumR tol b 0 ts) c0 -> o_cps o = c0.
Proof. intros H1 H2 H3 H4. exact (lsq_projection tol b ts x o H1 H2 H3 c0). Qed.
Print Assumptions C14_lsq_projection.

(* 5. cubic_curve: every row of the stacked system holds for the returned control points; the rows are the
      collocation rows at t (curve(t_i) = x_i) followed by first-derivative rows (TANGENT, HERMITE,
      TANGENTNATURAL) and second-derivative rows (NATURAL, TANGENTNATURAL) at the end parameters *)
Theorem C14_cubic_rows tol bt t x tang o i c :
  @cubic_curve R NumR tol bt t x tang = Ok o ->
  let sys := @cubic_system R NumR tol bt t x tang in
  let n := @b_nfun R (fst (fst sys)) in
  mat n n (snd (fst sys)) -> (0 < n)%nat -> (i < n)%nat -> (c < length (hd [] (snd sys)))%nat ->
  lc c (nth i (snd (fst sys)) []) (o_cps o) = nth c (nth i (snd sys) []) 0.
Proof. intros H. cbv zeta. intros HA Hn. exact (cubic_rows tol bt t x tang o H HA Hn i c). Qed.
Print Assumptions C14_cubic_rows.
Theorem C14_cubic_system_rows tol bt t x tang :
  let b := mkBasis 4 (@cubic_knots R NumR bt t) 0 in
  let sys := @cubic_system R NumR tol bt t x tang in
  fst (fst sys) = b /\
  (forall i, (i < length t)%nat -> nth i (snd (fst sys)) [] = nth i (@colloc R NumR tol b 0 t) [] /\ (length x = length t -> nth i (snd sys) [] = nth i x [])) /\
  (bt = 4%nat -> length x = length t -> nth (length t) (snd (fst sys)) [] = nth 0 (@colloc R NumR tol b 1 [hd 0 t; last t 0]) [] /\
                 nth (length t + 1) (snd (fst sys)) [] = nth 1 (@colloc R NumR tol b 1 [hd 0 t; last t 0]) [] /\
                 nth (length t) (snd sys) [] = nth 0 tang [] /\ nth (length t + 1) (snd sys) [] = nth 1 tang []) /\
  (bt = 1%nat -> length x = length t -> nth (length t) (snd (fst sys)) [] = nth 0 (@colloc R NumR tol b 2 [hd 0 t; last t 0]) [] /\
                 nth (length t + 1) (snd (fst sys)) [] = nth 1 (@colloc R NumR tol b 2 [hd 0 t; last t 0]) [] /\
                 nth (length t) (snd sys) [] = repeat 0 (length (hd [] x)) /\ nth (length t + 1) (snd sys) [] = repeat 0 (length (hd [] x))).
Proof. exact (cubic_system_rows tol bt t x tang). Qed.
Print Assumptions C14_cubic_system_rows.

(* 6. surface interpolation (tensor product, via the lifting lemma of C04): the double sum at (u_i, v_j) is x_ij *)
Theorem C14_surface_interpolate_passes tol (bu bv : basis R) us vs x o i j c :
  @surface_interpolate R NumR tol bu bv us vs x = Ok o ->
  length us = @b_nfun R bu -> length vs = @b_nfun R bv -> (0 < @b_nfun R bu)%nat -> (0 < @b_nfun R bv)%nat ->
  mat (@b_nfun R bu * @b_nfun R bv) (length (hd [] x)) x ->
  (i < @b_nfun R bu)%nat -> (j < @b_nfun R bv)%nat -> (c < length (hd [] x))%nat ->
  coord c (@teval R NumR (length (hd [] x)) [nth i (@colloc R NumR tol bu 0 us) []; nth j (@colloc R NumR tol bv 0 vs) []] (o_cps o))
  = coord c (nth (i * @b_nfun R bv + j) x []) /\ o_bases o = [bu; bv].
Proof. intros H1 H2 H3 H4 H5 H6. exact (surface_interp_passes tol bu bv us vs x o H1 H2 H3 H4 H5 H6 i j c). Qed.
Print Assumptions C14_surface_interpolate_passes.

(* non-vacuity: interpolate three points on a quadratic basis at its Greville points and evaluate in the middle *)
Example C14_example :
  let b := q_mkBasis 3 [0; 0; 0; 1; 1; 1]%Q 0 in
  match q_curve_interpolate (1#10000000000) b [0; 1#2; 1]%Q [[0; 0]; [1; 2]; [2; 0]]%Q with
  | Ok o => map (map Qred) (o_cps o) = [[0; 0]; [1; 4]; [2; 0]]%Q /\
            (match q_obj_eval (1#10000000000) o [(1#2)%Q] with Ok v => map Qred v | Err _ => [] end) = [1; 2]%Q
  | Err _ => False
  end.
Proof. vm_compute. split; reflexivity. Qed.

(* ------------------------------------------------------------------------------------------------------
   Added in build session 4 (statements re-stated from the proof files by harness tooling; each is closed by
   exact). *)
From SplipyModel Require Import Transfer.ParamObj Transfer.ParamOps Transfer.ParamOps2.
Open Scope R_scope.
Theorem C14_executed_is_proved_interpolate :
  forall (tol : Q) (b : basis Q) (ts : list Q) (x : list (list Q)),
         resmap objQ2R (curve_interpolate tol b ts x) =
         curve_interpolate (Q2R tol) (basisQ2R b) (map Q2R ts) (map (map Q2R) x).
Proof. exact @curve_interpolate_transfer. Qed.
Print Assumptions C14_executed_is_proved_interpolate.

Theorem C14_executed_is_proved_lsq :
  forall (tol : Q) (b : basis Q) (ts : list Q) (x : list (list Q)),
         resmap objQ2R (curve_lsq tol b ts x) = curve_lsq (Q2R tol) (basisQ2R b) (map Q2R ts) (map (map Q2R) x).
Proof. exact @curve_lsq_transfer. Qed.
Print Assumptions C14_executed_is_proved_lsq.

Theorem C14_executed_is_proved_cubic_curve :
  forall (tol : Q) (bt : nat) (t : list Q) (x tang : list (list Q)),
         resmap objQ2R (cubic_curve tol bt t x tang) =
         cubic_curve (Q2R tol) bt (map Q2R t) (map (map Q2R) x) (map (map Q2R) tang).
Proof. exact @cubic_curve_transfer. Qed.
Print Assumptions C14_executed_is_proved_cubic_curve.

Theorem C14_executed_is_proved_surface_interpolate :
  forall (tol : Q) (bu bv : basis Q) (us vs : list Q) (x : list (list Q)),
         resmap objQ2R (surface_interpolate tol bu bv us vs x) =
         surface_interpolate (Q2R tol) (basisQ2R bu) (basisQ2R bv) (map Q2R us) (map Q2R vs) (map (map Q2R) x).
Proof. exact @surface_interpolate_transfer. Qed.
Print Assumptions C14_executed_is_proved_surface_interpolate.

