(* C19 — File output is a faithful image of the objects and reads back to the same shape.
   Model: Model/G2.v (spline records as lines of numbers; number formatting '%.16g' and text parsing are outside the
   model, as are the analytic primitive records, SPL, STL and SVG, which are checked at the implementation level). *)
From Coq Require Import List Arith Lia Bool ZArith Reals QArith.
From SplipyModel Require Import Model.Num Model.BasisDef Model.Tensor Model.Obj Model.G2 Proofs.G2Proofs Extract.Exec.
Import ListNotations.

(* 1. a G2 file holding any list of well-formed (non-periodic, 1-3 dimensional) objects reads back to exactly that
      list: same number of objects, same kinds (parametric dimension), rationality, dimension, orders, knot vectors
      and control points *)
Theorem C19_g2_roundtrip (os : list (obj R)) : Forall g2_wf os ->
  forall fuel, (length os <= fuel)%nat -> @g2_decode R NumR fuel (@g2_encode R NumR os) = Some os.
Proof. exact (g2_decode_encode os). Qed.
Print Assumptions C19_g2_roundtrip.

(* 2. the first-index-fastest order of the control points in the file and the stored order are inverse re-indexings *)
Theorem C19_point_order_roundtrip (shape : list nat) (cps : list (list R)) : length cps = prodn shape ->
  f2c [] shape (c2f [] shape cps) = cps.
Proof. exact (f2c_c2f [] shape cps). Qed.
Print Assumptions C19_point_order_roundtrip.

(* 3. flat indices and multi-indices are inverse to each other for every shape *)
Theorem C19_ravel_unravel (shape : list nat) (f : nat) : (f < prodn shape)%nat ->
  ravel shape (unravel shape f) = f /\ Forall2 lt (unravel shape f) shape.
Proof. intros H. split; [exact (ravel_unravel shape f H)|exact (unravel_bounds shape f H)]. Qed.
Print Assumptions C19_ravel_unravel.
Theorem C19_unravel_ravel (shape idx : list nat) : Forall2 lt idx shape -> unravel shape (ravel shape idx) = idx.
Proof. exact (unravel_ravel shape idx). Qed.
Print Assumptions C19_unravel_ravel.

(* non-vacuity: a rational surface record, executed *)
Example C19_example :
  let bu := q_mkBasis 3 [0; 0; 0; 1; 1; 1]%Q 0 in
  let bv := q_mkBasis 2 [0; 0; 1; 1]%Q 0 in
  let o := q_mkObj [bu; bv] [[0;0;1]; [0;2;1]; [1;0;2]; [2;4;2]; [3;1;1]; [3;3;1]]%Q 2 true in
  q_g2_encode [o] = [[200; 1; 0; 0]; [2; 1]; [3; 3]; [0; 0; 0; 1; 1; 1]; [2; 2]; [0; 0; 1; 1];
                     [0;0;1]; [1;0;2]; [3;1;1]; [0;2;1]; [2;4;2]; [3;3;1]]%Q /\
  q_g2_decode 1 (q_g2_encode [o]) = Some [o].
Proof. vm_compute. split; reflexivity. Qed.
