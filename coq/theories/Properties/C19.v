(* C19 — File output is a faithful image of the objects and reads back to the same shape.
   Model: Model/G2.v (spline records as lines of numbers; number formatting '%.16g' and text parsing are outside the
   model, as are the analytic primitive records, SPL, STL and SVG, which are checked at the implementation level). *)
From Coq Require Import List Arith Lia Bool ZArith Reals QArith.
From SplipyModel Require Import Model.Num Model.BasisDef Model.Tensor Model.Obj Model.G2 Proofs.G2Proofs Extract.Exec.
Import ListNotations.

(* 1. a G2 file holding any list of well-formed (non-periodic, 1-3 dimensional) objects reads back to exactly that
      list: same number of objects, same kinds (parametric dimension), rationality, dimension, orders, knot vectors
      and control points *)
Theorem C19_g2_roundtrip (os : list (obj R)) : Forall g2_wf os ->
  forall fuel, (length os <= fuel)%nat -> @g2_decode R NumR fuel (@g2_encode R NumR os) = Some os.
Proof. exact (g2_decode_encode os). Qed.
Print Assumptions C19_g2_roundtrip.

(* 2. the first-index-fastest order of the control points in the file and the stored order are inverse re-indexings *)
Theorem C19_point_order_roundtrip (shape : list nat) (cps : list (list R)) : length cps = prodn shape ->
  f2c [] shape (c2f [] shape cps) = cps.
Proof. exact (f2c_c2f [] shape cps). Qed.
Print Assumptions C19_point_order_roundtrip.

(* 3. flat indices and multi-indices are inverse to each other for every shape *)
Theorem C19_ravel_unravel (shape : list nat) (f : nat) : (f < prodn shape)%nat ->
  ravel shape (unravel shape f) = f /\ Forall2 lt (unravel shape f) shape.
Proof. intros H. split; [exact (ravel_unravel shape f H)|exact (unravel_bounds shape f H)]. Qed.
Print Assumptions C19_ravel_unravel.
Theorem C19_unravel_ravel (shape idx : list nat) : Forall2 lt idx shape -> unravel shape (ravel shape idx) = idx.
Proof. exact (unravel_ravel shape idx). Qed.
Print Assumptions C19_unravel_ravel.

(* non-vacuity: a rational surface record, executed *)
Example C19_example :
  let bu := q_mkBasis 3 [0; 0; 0; 1; 1; 1]%Q 0 in
  let bv := q_mkBasis 2 [0; 0; 1; 1]%Q 0 in
  let o := q_mkObj [bu; bv] [[0;0;1]; [0;2;1]; [1;0;2]; [2;4;2]; [3;1;1]; [3;3;1]]%Q 2 true in
  q_g2_encode [o] = [[200; 1; 0; 0]; [2; 1]; [3; 3]; [0; 0; 0; 1; 1; 1]; [2; 2]; [0; 0; 1; 1];
                     [0;0;1]; [1;0;2]; [3;1;1]; [0;2;1]; [2;4;2]; [3;3;1]]%Q /\
  q_g2_decode 1 (q_g2_encode [o]) = Some [o].
Proof. vm_compute. split; reflexivity. Qed.

(* ------------------------------------------------------------------------------------------------------
   Added in build session 4 (statements re-stated from the proof files by harness tooling; each is closed by
   exact). *)
From SplipyModel Require Import Model.Stl Model.Spl Proofs.StlProofs Proofs.SplProofs Transfer.ParamObj Transfer.ParamOps Transfer.ParamOps2.
Theorem C19_spl_roundtrip :
  forall (tol acc : R) (o : obj R),
         @spl_ok R NumR tol o = true ->
         exists lines : list (list R),
           @spl_encode R NumR acc o = @Some (list (list R)) lines /\ @spl_decode R NumR tol lines = @Some (obj R) o.
Proof. exact @spl_roundtrip. Qed.
Print Assumptions C19_spl_roundtrip.

Theorem C19_spl_index_map :
  forall (A : Type) (dflt : A) (physdim : nat) (shape : list nat) (vals : list A) (g c : nat),
         (g < prodn shape)%nat ->
         (c < physdim)%nat ->
         @nth A c (@nth (list A) g (@spl_cps A dflt physdim shape vals) []) dflt =
         @nth A (spl_index shape g c) vals dflt.
Proof. exact @spl_cps_nth. Qed.
Print Assumptions C19_spl_index_map.

Theorem C19_spl_index_bijection :
  forall (shape : list nat) (physdim k : nat),
         (k < physdim * prodn shape)%nat ->
         (spl_point_of shape k < prodn shape)%nat /\
         (spl_comp_of shape k < physdim)%nat /\ spl_index shape (spl_point_of shape k) (spl_comp_of shape k) = k.
Proof. exact @spl_index_surj. Qed.
Print Assumptions C19_spl_index_bijection.

Theorem C19_spl_decode_sound :
  forall (tol : R) (lines : list (list R)) (o : obj R),
         @spl_decode R NumR tol lines = @Some (obj R) o ->
         spl_wf tol o /\
         (exists (pd dm : R) (more : list R) (rest : list (list R)),
            lines = (@nofnat R NumR spl_letter_C :: pd :: dm :: 0 :: more) :: rest /\
            pd = @nofnat R NumR (@length (basis R) (@o_bases R o)) /\ dm = @nofnat R NumR (@o_dim R o)) /\
         (2 + 2 * @length (basis R) (@o_bases R o) +
          @length R (@concat R (@map (basis R) (list R) (@b_knots R) (@o_bases R o))) +
          prodn (@o_shape R o) * @o_dim R o <= @length (list R) lines)%nat.
Proof. exact @spl_decode_sound. Qed.
Print Assumptions C19_spl_decode_sound.

Theorem C19_spl_truncated_rejected :
  forall (tol acc : R) (o : obj R) (k : nat),
         spl_wf tol o ->
         (k < @length (list R) (@spl_lines R NumR acc o))%nat ->
         @spl_decode R NumR tol (@firstn (list R) k (@spl_lines R NumR acc o)) = @None (obj R).
Proof. exact @spl_truncated_rejected. Qed.
Print Assumptions C19_spl_truncated_rejected.

Theorem C19_stl_declared_count :
  forall (F : Type) (H : Num F) (x : @stl_grid F),
         @stl_binary_count F H (@stl_facets F x) = (2 * (@stl_nu F x - 1) * (@stl_nv F x - 1))%nat /\
         @length (@stl_tri F) (@stl_facets F x) = @stl_binary_count F H (@stl_facets F x).
Proof. exact @stl_declared_count. Qed.
Print Assumptions C19_stl_declared_count.

Theorem C19_stl_vertices_on_grid :
  forall (F : Type) (x : @stl_grid F) (t : @stl_tri F) (p : @stl_point F),
         @grid_rect F x ->
         @In (@stl_tri F) t (@stl_facets F x) ->
         @In (@stl_point F) p (@tri_verts F t) ->
         exists (i j : nat) (row : list (@stl_point F)),
           (i < @stl_nu F x)%nat /\
           (j < @stl_nv F x)%nat /\
           @nth_error (list (@stl_point F)) x i = @Some (list (@stl_point F)) row /\
           @nth_error (@stl_point F) row j = @Some (@stl_point F) p.
Proof. exact @stl_vertices_on_grid. Qed.
Print Assumptions C19_stl_vertices_on_grid.

Theorem C19_stl_grid_covered :
  forall (F : Type) (x : @stl_grid F) (i j : nat),
         (2 <= @stl_nu F x)%nat ->
         (2 <= @stl_nv F x)%nat ->
         (i < @stl_nu F x)%nat ->
         (j < @stl_nv F x)%nat ->
         exists t : @stl_tri F,
           @In (@stl_tri F) t (@stl_facets F x) /\ @In (@stl_point F) (@gpt F x i j) (@tri_verts F t).
Proof. exact @stl_grid_covered. Qed.
Print Assumptions C19_stl_grid_covered.

Theorem C19_stl_write_surface_spec :
  forall (F : Type) (H : Num F) (tol : F) (o : obj F) (n : option (nat * nat)) (tris : list (@stl_tri F)),
         @stl_write_surface F H tol o n = @Ok (list (@stl_tri F)) tris ->
         exists us vs : list F,
           @stl_dir_params F H tol (@nth (basis F) 0 (@o_bases F o) {| b_order := 0; b_knots := []; b_per1 := 0 |})
             (@option_map (nat * nat) nat (@fst nat nat) n) = @Ok (list F) us /\
           @stl_dir_params F H tol (@nth (basis F) 1 (@o_bases F o) {| b_order := 0; b_knots := []; b_per1 := 0 |})
             (@option_map (nat * nat) nat (@snd nat nat) n) = @Ok (list F) vs /\
           (@o_dim F o <= 3)%nat /\
           @length (@stl_tri F) tris = (2 * (@length F us - 1) * (@length F vs - 1))%nat /\
           @stl_binary_count F H tris = @length (@stl_tri F) tris /\
           (forall (t : @stl_tri F) (p : @stl_point F),
            @In (@stl_tri F) t tris ->
            @In (@stl_point F) p (@tri_verts F t) ->
            exists (u v : F) (q : list F),
              @In F u us /\
              @In F v vs /\ @obj_eval F H tol o [u; v] = @Ok (list F) q /\ p = @stl_pad_pt F H (@o_dim F o) q).
Proof. exact @stl_write_surface_spec. Qed.
Print Assumptions C19_stl_write_surface_spec.

Theorem C19_stl_split_spec :
  forall (F : Type) (p1 p2 p3 p4 : @stl_point F),
         exists t1 t2 : @stl_tri F,
           @stl_split F [p1; p2; p3; p4] = [t1; t2] /\
           @In (@stl_point F * @stl_point F) (p3, p1) (@tri_edges F t1) /\
           @In (@stl_point F * @stl_point F) (p1, p3) (@tri_edges F t2) /\
           (forall p : @stl_point F,
            @In (@stl_point F) p (@tri_verts F t1 ++ @tri_verts F t2) <-> @In (@stl_point F) p [p1; p2; p3; p4]) /\
           @In (@stl_point F * @stl_point F) (p1, p2) (@tri_edges F t1) /\
           @In (@stl_point F * @stl_point F) (p2, p3) (@tri_edges F t1) /\
           @In (@stl_point F * @stl_point F) (p3, p4) (@tri_edges F t2) /\
           @In (@stl_point F * @stl_point F) (p4, p1) (@tri_edges F t2).
Proof. exact @stl_split_spec. Qed.
Print Assumptions C19_stl_split_spec.

Theorem C19_stl_params_general :
  forall (p : nat) (kn : list R) (a b : R),
         (3 <= p)%nat ->
         kn <> [] ->
         OrderProofs.lsorted kn ->
         exists l : list R,
           @stl_params R NumR p kn a b (@None nat) = @Ok (list R) l /\
           OrderProofs.lsorted l /\
           @Permutation.Permutation R l (stl_span_points p kn ++ kn) /\
           @hd R 0 l = @hd R 0 kn /\
           @last R l 0 = @last R kn 0 /\
           (forall k : R, @In R k kn -> @In R k l) /\
           @length R l = ((@length R kn - 1) * (2 * p - 3) + @length R kn)%nat /\
           (forall t : R, @In R t l -> @hd R 0 kn <= t <= @last R kn 0) /\
           (forall l' : list R,
            OrderProofs.lsorted l' -> @Permutation.Permutation R l' (stl_span_points p kn ++ kn) -> l' = l).
Proof. exact @stl_params_general. Qed.
Print Assumptions C19_stl_params_general.

Theorem C19_stl_pad3 :
  forall (F : Type) (H : Num F) (p : @stl_point F),
         @firstn F (@length F p) (@pad3 F H p) = p /\
         (forall (c : nat) (d : F), (c < @length F p)%nat -> @nth F c (@pad3 F H p) d = @nth F c p d) /\
         (forall c : nat, (@length F p <= c)%nat -> (c < 3)%nat -> @nth F c (@pad3 F H p) (@n0 F H) = @n0 F H) /\
         ((@length F p <= 3)%nat -> @length F (@pad3 F H p) = 3%nat) /\ ((3 <= @length F p)%nat -> @pad3 F H p = p).
Proof. exact @pad3_spec. Qed.
Print Assumptions C19_stl_pad3.

Theorem C19_executed_is_proved_stl :
  forall (tol : Q) (o : obj Q) (n : option (nat * nat)),
         @resmap (list (@stl_tri Q)) (list (@stl_tri R)) (@map (@stl_tri Q) (@stl_tri R) triQ2R)
           (@stl_write_surface Q NumQ tol o n) = @stl_write_surface R NumR (Q2R tol) (objQ2R o) n.
Proof. exact @stl_write_surface_transfer. Qed.
Print Assumptions C19_executed_is_proved_stl.

Theorem C19_executed_is_proved_spl_decode :
  forall (tol : Q) (lines : list (list Q)),
         @option_map (obj Q) (obj R) objQ2R (@spl_decode Q NumQ tol lines) =
         @spl_decode R NumR (Q2R tol) (@map (list Q) (list R) (@map Q R Q2R) lines).
Proof. exact @spl_decode_transfer. Qed.
Print Assumptions C19_executed_is_proved_spl_decode.

Theorem C19_executed_is_proved_spl_lines :
  forall (acc : Q) (o : obj Q),
         @map (list Q) (list R) (@map Q R Q2R) (@spl_lines Q NumQ acc o) = @spl_lines R NumR (Q2R acc) (objQ2R o).
Proof. exact @spl_lines_transfer. Qed.
Print Assumptions C19_executed_is_proved_spl_lines.

