(* C01 — Basis evaluation equals the exact B-spline (Cox-de Boor) definition.
   Property theorems only; each closed by [exact], each followed by Print Assumptions.
   Model: Model/BasisEval.v (transcription of basis_eval.pyx + BSplineBasis.evaluate).
   Reference: Spec/BSpline.v (B), Spec/Deriv.v (dB), Model/BasisDef.v (ref_row). *)
From Coq Require Import List Arith Reals Lra Lia Bool ZArith QArith Qreals.
From Coquelicot Require Import Coquelicot.
From SplipyModel Require Import Spec.BSpline Spec.Deriv Spec.DerivAnalytic Model.Num Model.BasisDef Model.BasisEval Model.Knots
  Proofs.Bridge Proofs.EvalCorrect Proofs.SpanCorrect Proofs.EvaluateSpec Proofs.EvalConsequences Proofs.KnotList
  Transfer.ParamBase Transfer.ParamBasis Transfer.ParamKnots Extract.Exec.
Import ListNotations.
Open Scope R_scope.

(* 1. the span search brackets the parameter on the requested side *)
Theorem C01_span_search_correct (k : list R) (p : nat) :
  sorted (kn k) -> (1 <= p)%nat -> (2 * p <= length k)%nat ->
  forall (side : bool) (t : R),
  kn k (p - 1) <= t <= kn k (length k - p) ->
  (if side then t < kn k (length k - p) else kn k (p - 1) < t) ->
  let mu := span_index k p side t in
  (p <= mu <= length k - p)%nat /\ in_span side (kn k (mu - 1)) (kn k mu) t.
Proof. exact (span_search_correct k p). Qed.
Print Assumptions C01_span_search_correct.

(* 2. the triangular scheme (value loop + derivative loop) computes the Cox-de Boor
      values / derivative recurrence on the bracketing span; no division by zero *)
Theorem C01_recurrence_correct (side : bool) (K : nat -> R) :
  sorted K -> forall (p mu : nat) (t : R), (1 <= p)%nat -> (p <= mu)%nat ->
  in_span side (K (mu - 1)%nat) (K mu) t ->
  forall d, (d < p)%nat -> forall j, (j < p)%nat ->
  nth j (eval_row_fn K p mu t d) 0 = dB side K d (p - 1) (mu + j - p) t.
Proof. exact (recurrence_correct side K). Qed.
Print Assumptions C01_recurrence_correct.

(* 3. main clause: every row of BSplineBasis.evaluate is the sum over all wrapped images
      of the (derivative of the) B-splines at the normalised parameter and side; zero row
      when the point is skipped (outside a non-periodic domain / start from the left) *)
Theorem C01_evaluate_spec (k : list R) (p per1 : nat) :
  sorted (kn k) -> (1 <= p)%nat -> (2 * p <= length k)%nat ->
  forall tol, 0 < tol -> forall d fr ts i, (i < length ts)%nat ->
  let n := (length k - p - per1)%nat in
  let t0 := snap1 k tol (nth i ts 0) in
  nth i (basis_evaluate k p per1 tol d fr ts) [] =
    if (p <=? d)%nat then repeat 0 n
    else match normalise k p per1 tol fr t0 with
         | None => repeat 0 n
         | Some (t, side) => ref_row side k p per1 d t
         end.
Proof. intros HK Hp Hlen tol Htol. exact (basis_evaluate_spec k p per1 HK Hp Hlen tol Htol). Qed.
Print Assumptions C01_evaluate_spec.

(* 3b. what normalise yields is a parameter of the domain with a side on which a span exists *)
Theorem C01_normalise_range (k : list R) (p per1 : nat) (tol : R) :
  0 < tol -> forall fr t0 t side,
  normalise k p per1 tol fr t0 = Some (t, side) ->
  kn k (p - 1) <= t <= kn k (length k - p) /\
  (if side then t < kn k (length k - p) else kn k (p - 1) < t).
Proof. intros Htol. exact (normalise_range k p per1 tol Htol). Qed.
Print Assumptions C01_normalise_range.

(* 4. consequences *)
Theorem C01_nonneg (k : list R) (p per1 : nat) :
  sorted (kn k) -> forall side t c, (c < length k - p - per1)%nat ->
  0 <= nth c (ref_row side k p per1 0 t) 0.
Proof. intros HK. exact (ref_row_nonneg k p per1 HK). Qed.
Print Assumptions C01_nonneg.

Theorem C01_partition_of_unity (k : list R) (p per1 : nat) :
  sorted (kn k) -> (1 <= p)%nat -> forall side t mu,
  (0 < length k - p - per1)%nat -> (p <= mu <= length k - p)%nat ->
  in_span side (kn k (mu - 1)) (kn k mu) t ->
  sumf (fun c => nth c (ref_row side k p per1 0 t) 0) 0 (length k - p - per1) = 1.
Proof. intros HK Hp. exact (ref_row_partition k p per1 HK Hp). Qed.
Print Assumptions C01_partition_of_unity.

Theorem C01_high_derivative_zero (k : list R) (p per1 : nat) :
  (1 <= p)%nat -> forall side d t c, (p <= d)%nat -> (c < length k - p - per1)%nat ->
  nth c (ref_row side k p per1 d t) 0 = 0.
Proof. exact (ref_row_high k p per1). Qed.
Print Assumptions C01_high_derivative_zero.

(* 4b. "derivative" is meant analytically: inside every open knot span, for every order r, the
       (r+1)-st derivative recurrence is the derivative (Coquelicot is_derive) of the r-th; dB 0 = B *)
Theorem C01_recurrence_is_derivative (k : nat -> R) : sorted k -> forall m t, k m < t < k (S m) ->
  forall r q i, is_derive (fun s => dB true k r q i s) t (dB true k (S r) q i t).
Proof. intros Hk m t H. exact (dB_is_derivative k Hk m t H). Qed.
Print Assumptions C01_recurrence_is_derivative.

(* 5. the *executed* (extracted, Q) instance is the R instance the theorems are about *)
Theorem C01_executed_is_proved (k : list Q) p per1 (tol : Q) d fr (ts : list Q) :
  map (map Q2R) (q_basis_evaluate k p per1 tol d fr ts)
  = @basis_evaluate R NumR (map Q2R k) p per1 (Q2R tol) d fr (map Q2R ts).
Proof. exact (basis_evaluate_transfer k p per1 tol d fr ts). Qed.
Print Assumptions C01_executed_is_proved.

Theorem C01_reference_executed_is_proved side (k : list Q) p per1 d (t : Q) :
  map Q2R (q_ref_row side k p per1 d t) = @ref_row R NumR side (map Q2R k) p per1 d (Q2R t).
Proof. exact (ref_row_transfer side k p per1 d t). Qed.
Print Assumptions C01_reference_executed_is_proved.

(* Non-vacuity: a periodic cubic (order 4, continuity 1) with a double interior knot is a
   well-formed basis; the executed evaluator returns rows that sum to one on it. *)
Example C01_example_wf :
  @wf_basis Q NumQ 4 2 [-3#2; -1; 0; 0; 1#2; 1#2; 1; 3#2; 2; 2; 5#2; 5#2]%Q = true.
Proof. vm_compute. reflexivity. Qed.
Example C01_example_rows :
  map (fun r => Qred (fold_right Qplus 0%Q r))
      (q_basis_evaluate [-3#2; -1; 0; 0; 1#2; 1#2; 1; 3#2; 2; 2; 5#2; 5#2]%Q 4 2 (1#10000000000) 0 true
                        [0; 1#4; 1#2; 7#4; 2; 9#2]%Q)
  = [1; 1; 1; 1; 1; 1]%Q.
Proof. vm_compute. reflexivity. Qed.

(* ------------------------------------------------------------------------------------------------------
   Added in build session 4 (statements re-stated from the proof files by harness tooling; each is closed by
   exact). *)
From SplipyModel Require Import Proofs.DenseSparse.
Open Scope R_scope.
Theorem C01_dense_sparse_agree :
  forall (F : Type) (H : Num F) (k : list F) (p per1 : nat) (tol : F) (d : nat) (fr : bool) 
           (ts : list F) (i : nat),
         (d < p)%nat ->
         (i < length ts)%nat ->
         nth i (basis_evaluate k p per1 tol d fr ts) [] =
         scatter_row (length k - p - per1) (nth i (basis_evaluate_sparse k p per1 tol d fr ts) None).
Proof. exact @dense_sparse_agree. Qed.
Print Assumptions C01_dense_sparse_agree.

Theorem C01_dense_sparse_entry :
  forall (F : Type) (H : Num F) (k : list F) (p per1 : nat) (tol : F) (d : nat) (fr : bool) 
           (ts : list F) (i c : nat),
         (d < p)%nat ->
         (i < length ts)%nat ->
         (c < length k - p - per1)%nat ->
         nth c (nth i (basis_evaluate k p per1 tol d fr ts) []) n0 =
         match nth i (basis_evaluate_sparse k p per1 tol d fr ts) None with
         | Some e => scatter c e
         | None => n0
         end.
Proof. exact @dense_sparse_entry. Qed.
Print Assumptions C01_dense_sparse_entry.

Theorem C01_dense_sparse_distinct :
  forall (k : list R) (p per1 : nat) (tol : R),
         sorted (kn k) ->
         (1 <= p)%nat ->
         (2 * p <= length k)%nat ->
         0 < tol ->
         forall (d : nat) (fr : bool) (ts : list R) (i : nat) (idx : list nat) (dat : list R),
         (d < p)%nat ->
         (i < length ts)%nat ->
         (p <= length k - p - per1)%nat ->
         nth i (basis_evaluate_sparse k p per1 tol d fr ts) None = Some (idx, dat) ->
         let row := nth i (basis_evaluate k p per1 tol d fr ts) [] in
         NoDup idx /\
         (forall j : nat,
          (j < p)%nat -> (nth j idx 0 < length k - p - per1)%nat /\ nth (nth j idx 0%nat) row 0 = nth j dat 0) /\
         (forall c : nat, (c < length k - p - per1)%nat -> ~ In c idx -> nth c row 0 = 0).
Proof. exact @dense_sparse_distinct. Qed.
Print Assumptions C01_dense_sparse_distinct.

Theorem C01_dense_sparse_nonperiodic :
  forall (k : list R) (p per1 : nat) (tol : R),
         sorted (kn k) ->
         (1 <= p)%nat ->
         (2 * p <= length k)%nat ->
         0 < tol ->
         forall (d : nat) (fr : bool) (ts : list R) (i : nat) (idx : list nat) (dat : list R),
         per1 = 0%nat ->
         (d < p)%nat ->
         (i < length ts)%nat ->
         nth i (basis_evaluate_sparse k p per1 tol d fr ts) None = Some (idx, dat) ->
         let row := nth i (basis_evaluate k p per1 tol d fr ts) [] in
         exists mu : nat,
           (p <= mu <= length k - p - per1)%nat /\
           idx = seq (mu - p) p /\
           (forall j : nat, (j < p)%nat -> nth (mu - p + j) row 0 = nth j dat 0) /\
           (forall c : nat, (c < length k - p - per1)%nat -> (c < mu - p)%nat \/ (mu <= c)%nat -> nth c row 0 = 0).
Proof. exact @dense_sparse_nonperiodic. Qed.
Print Assumptions C01_dense_sparse_nonperiodic.

Theorem C01_sparse_row_shape :
  forall (F : Type) (H : Num F) (k : list F) (p per1 : nat) (tol : F) (d : nat) (fr : bool) 
           (ts : list F) (i : nat) (idx : list nat) (dat : list F),
         (1 <= p)%nat ->
         (i < length ts)%nat ->
         nth i (basis_evaluate_sparse k p per1 tol d fr ts) None = Some (idx, dat) ->
         length idx = p /\
         length dat = p /\
         ((0 < length k - p - per1)%nat -> List.Forall (fun ix : nat => (ix < length k - p - per1)%nat) idx).
Proof. exact @sparse_row_shape. Qed.
Print Assumptions C01_sparse_row_shape.

