(* C11 — Non-in-place operations neither modify nor alias their operands.
   Model: Model/Alias.v.  The theorems are consequences of the effect signatures of the operations; that the
   implementation HAS these signatures is established by the harness's effects monitor (bit-for-bit operand
   snapshots, np.shares_memory / identity between result and operands, mutation probes), not by proof. *)
From Coq Require Import List Bool Arith.
From SplipyModel Require Import Model.Alias Proofs.AliasProofs.
Import ListNotations.

Theorem C11_frame (V : Type) (e : effect) (s s' : store V) : pure_new V e s -> respects V e s s' ->
  forall c, allocated V s c -> s' c = s c.
Proof. exact (frame V e s s'). Qed.
Print Assumptions C11_frame.

Theorem C11_fresh (V : Type) (e : effect) (s : store V) (fp : list nat) : pure_new V e s ->
  (forall c, In c fp -> allocated V s c) -> forall c, In c (e_result e) -> ~ In c fp.
Proof. exact (fresh V e s fp). Qed.
Print Assumptions C11_fresh.

Theorem C11_no_interference (V : Type) (e : effect) (s s' : store V) (fp : list nat) c v :
  pure_new V e s -> respects V e s s' -> (forall x, In x fp -> allocated V s x) ->
  (In c (e_result e) -> forall x, In x fp -> write V s' c v x = s x) /\
  (In c fp -> forall x, In x (e_result e) -> write V s' c v x = s' x).
Proof. exact (no_interference V e s s' fp c v). Qed.
Print Assumptions C11_no_interference.

Theorem C11_inplace_frame (V : Type) (e : effect) (s s' : store V) (fp : list nat) : in_place e fp -> respects V e s s' ->
  forall c, allocated V s c -> ~ In c fp -> s' c = s c.
Proof. exact (inplace_frame V e s s' fp). Qed.
Print Assumptions C11_inplace_frame.

(* non-vacuity: a two-cell store, an operation allocating cell 2 *)
Example C11_example :
  let s : store nat := fun c => if (c <? 2)%nat then Some c else None in
  let e := {| e_writes := []; e_result := [2] |} in
  pure_new nat e s.
Proof. split; [reflexivity|]. intros c [<-|[]]. unfold allocated. cbn. intro H; apply H; reflexivity. Qed.
