(* C03 — Derivatives are the true partial derivatives of the evaluated map.
   Kernels: Gen/RatDeriv{Generic,Curve,Surface}.v are regenerated from the Python sources on
   every run; the theorems below are re-checked against what the code says now. *)
From Coq Require Import List Arith Reals Lra Lia Bool ZArith QArith Qreals.
From Coquelicot Require Import Coquelicot.
From SplipyModel Require Import Spec.BSpline Spec.Deriv Spec.DerivSpline Spec.DerivAnalytic
  Model.Num Model.BasisDef Model.BasisEval Model.Tensor Model.Obj Model.Deriv
  Gen.RatDerivGeneric Gen.RatDerivCurve Gen.RatDerivSurface
  Proofs.RatDeriv Proofs.ObjDeriv Transfer.ParamBase Transfer.ParamObj Extract.Exec.
Import ListNotations.
Open Scope R_scope.

(* 1. rational curves: what derivative(t, d=a) returns for a = 0..3 is the Taylor jet of n/W:
      n^(a) = sum_i C(a,i) W^(i) Q^(a-i)   (Leibniz), for every value of the homogeneous derivatives *)
Theorem C03_curve_rational_closed_forms (n W : nat -> R) :
  W 0%nat <> 0 -> forall a, (a <= 3)%nat ->
  n a = sum0 (fun i => INR (binomN a i) * W i * Qc n W (a - i)) a.
Proof. exact (curve_leibniz n W). Qed.
Print Assumptions C03_curve_rational_closed_forms.

(* 2. rational surfaces: all ten multi-indices of total order <= 3 *)
Theorem C03_surface_rational_closed_forms (n W : nat -> nat -> R) :
  W 0%nat 0%nat <> 0 -> forall a b, (a + b <= 3)%nat ->
  n a b = sum0 (fun i => sum0 (fun j =>
            INR (binomN a i) * INR (binomN b j) * W i j * Qs n W (a - i) (b - j)) b) a.
Proof. exact (surface_leibniz n W). Qed.
Print Assumptions C03_surface_rational_closed_forms.

(* 3. the generic first-order quotient rule (any pardim) *)
Theorem C03_first_order_quotient nd nn Wd W : W <> 0 ->
  nd = Wd * (nn / W) + W * @quot1 R NumR nd nn Wd W.
Proof. exact (first_order_leibniz nd nn Wd W). Qed.
Print Assumptions C03_first_order_quotient.

(* 4. orders the API does not support raise instead of returning numbers *)
Theorem C03_unsupported_orders_raise (tol : R) (o : obj R) ds ab ts ts' :
  o_rat o = true -> (1 < fold_right Nat.add 0%nat ds)%nat ->
  validate tol (o_bases o) ts = Ok ts' ->
  obj_deriv tol o ds ab ts = Err RuntimeError.
Proof. exact (obj_deriv_unsupported tol o ds ab ts ts'). Qed.
Print Assumptions C03_unsupported_orders_raise.
Theorem C03_unsupported_curve_orders_raise (tol : R) (o : obj R) d ab t ts' :
  o_rat o = true -> (3 < d)%nat -> validate tol (o_bases o) [t] = Ok ts' ->
  curve_deriv tol o d ab t = Err RuntimeError.
Proof. exact (curve_deriv_unsupported tol o d ab t ts'). Qed.
Print Assumptions C03_unsupported_curve_orders_raise.
Theorem C03_unsupported_surface_orders_raise (tol : R) (o : obj R) d1 d2 ab ts ts' :
  o_rat o = true -> (3 < d1 + d2)%nat -> validate tol (o_bases o) ts = Ok ts' ->
  surface_deriv tol o d1 d2 ab ts = Err RuntimeError.
Proof. exact (surface_deriv_unsupported tol o d1 d2 ab ts ts'). Qed.
Print Assumptions C03_unsupported_surface_orders_raise.

(* 5. non-rational objects: derivative(d) is the tensor-product sum with the differentiated rows
      (whose entries are the derivative recurrence dB by C01_evaluate_spec) *)
Theorem C03_derivative_spec (tol : R) (o : obj R) ds ab ts ts' :
  o_rat o = false -> validate tol (o_bases o) ts = Ok ts' ->
  obj_deriv tol o ds ab ts = Ok (teval (o_ncomp o) (rows_at tol (o_bases o) ds ab ts') (o_cps o)).
Proof. exact (obj_deriv_nonrational tol o ds ab ts ts'). Qed.
Print Assumptions C03_derivative_spec.

(* 6. the derivative recurrence IS the derivative: inside every open knot span and for every order r,
      dB (r+1) is the derivative of dB r  (dB 0 = B); Coquelicot's is_derive *)
Theorem C03_recurrence_is_derivative (k : nat -> R) : sorted k -> forall m t, k m < t < k (S m) ->
  forall r q i, is_derive (fun s => dB true k r q i s) t (dB true k (S r) q i t).
Proof. intros Hk m t H. exact (dB_is_derivative k Hk m t H). Qed.
Print Assumptions C03_recurrence_is_derivative.

(* 7. the derivative spline (scaled control-point differences on the knots k[1:-1]) evaluates to the
      first derivative on the domain *)
Theorem C03_derivative_spline_spec (side : bool) (k : nat -> R) : sorted k ->
  forall (q : nat) (c : nat -> R) (n : nat) t,
  outside side (k 0%nat) (k (S q)) t -> outside side (k (S n)) (k (S n + S q)%nat) t ->
  sumf (fun i => c i * dB side k 1 (S q) i t) 0 (S n)
  = sumf (fun i => dcoef k q c i * B side (fun j => k (S j)) q i t) 0 n.
Proof. intros Hk q c n t. exact (derivative_spline_identity side k Hk q c n t). Qed.
Print Assumptions C03_derivative_spline_spec.

(* 8. executed = proved *)
Theorem C03_executed_is_proved (tol : Q) (o : obj Q) ds ab (ts : list Q) :
  resmap (map Q2R) (@obj_deriv Q NumQ tol o ds ab ts) = @obj_deriv R NumR (Q2R tol) (objQ2R o) ds ab (map Q2R ts).
Proof. exact (obj_deriv_transfer tol o ds ab ts). Qed.
Print Assumptions C03_executed_is_proved.

(* non-vacuity: second derivative of a rational quadratic (a quarter circle) through the
   regenerated closed form, executed on Q *)
Example C03_example :
  let b := q_mkBasis 3 [0; 0; 0; 1; 1; 1]%Q 0 in
  let o := q_mkObj [b] [[1;0;1]; [1;1;1]; [0;2;2]]%Q 2 true in
  (match q_curve_deriv (1#10000000000) o 2 true 0%Q with Ok v => map Qred v | Err _ => [] end) = [(-4); 0]%Q /\
  q_curve_deriv (1#10000000000) o 4 true 0%Q = Err RuntimeError.
Proof. vm_compute. split; reflexivity. Qed.

(* ------------------------------------------------------------------------------------------------------
   Added in build session 4 (statements re-stated from the proof files by harness tooling; each is closed by
   exact). *)
From SplipyModel Require Import Proofs.RatDerivAnalytic.
Open Scope R_scope.
Theorem C03_curve_kernels_are_derivatives :
  forall (a b : R) (n W : nat -> R -> R),
         (forall (r : nat) (s : R), (r < 3)%nat -> a < s < b -> is_derive (n r) s (n (S r) s)) ->
         (forall (r : nat) (s : R), (r < 3)%nat -> a < s < b -> is_derive (W r) s (W (S r) s)) ->
         forall (d : nat) (t : R),
         (d <= 3)%nat ->
         a < t < b ->
         W 0%nat t <> 0 ->
         is_derive_n (fun s : R => n 0%nat s / W 0%nat s) d t (Qc (fun r : nat => n r t) (fun r : nat => W r t) d).
Proof. exact @curve_kernels_are_derivatives. Qed.
Print Assumptions C03_curve_kernels_are_derivatives.

Theorem C03_quot1_is_partial_derivative :
  forall (n W : (nat -> R) -> R) (p : nat -> R) (i : nat) (x nd Wd : R),
         is_derive (fun y : R_AbsRing => n (upd p i y)) x nd ->
         is_derive (fun y : R_AbsRing => W (upd p i y)) x Wd ->
         W (upd p i x) <> 0 ->
         is_derive (fun y : R_AbsRing => n (upd p i y) / W (upd p i y)) x (quot1 nd (n (upd p i x)) Wd (W (upd p i x))).
Proof. exact @quot1_is_partial_derivative. Qed.
Print Assumptions C03_quot1_is_partial_derivative.

Theorem C03_surface_kernels_are_partials :
  forall (a1 b1 a2 b2 : R) (n W : nat -> nat -> R -> R -> R),
         (forall (i j : nat) (u v : R),
          (i + j < 3)%nat -> a1 < u < b1 /\ a2 < v < b2 -> is_derive (fun x : R_AbsRing => n i j x v) u (n (S i) j u v)) ->
         (forall (i j : nat) (u v : R),
          (i + j < 3)%nat -> a1 < u < b1 /\ a2 < v < b2 -> is_derive (fun y : R_AbsRing => n i j u y) v (n i (S j) u v)) ->
         (forall (i j : nat) (u v : R),
          (i + j < 3)%nat -> a1 < u < b1 /\ a2 < v < b2 -> is_derive (fun x : R_AbsRing => W i j x v) u (W (S i) j u v)) ->
         (forall (i j : nat) (u v : R),
          (i + j < 3)%nat -> a1 < u < b1 /\ a2 < v < b2 -> is_derive (fun y : R_AbsRing => W i j u y) v (W i (S j) u v)) ->
         forall (i j : nat) (u v : R),
         (i + j <= 3)%nat ->
         a1 < u < b1 /\ a2 < v < b2 ->
         W 0%nat 0%nat u v <> 0 ->
         is_derive_n (fun x : R => Derive_n (fun y : R => n 0%nat 0%nat x y / W 0%nat 0%nat x y) j v) i u
           (Qs (fun a b : nat => n a b u v) (fun a b : nat => W a b u v) i j).
Proof. exact @surface_kernels_are_partials. Qed.
Print Assumptions C03_surface_kernels_are_partials.

Theorem C03_surface_mixed_partial :
  forall (a1 b1 a2 b2 : R) (n W : nat -> nat -> R -> R -> R),
         (forall (i j : nat) (u v : R),
          (i + j < 3)%nat -> a1 < u < b1 /\ a2 < v < b2 -> is_derive (fun x : R_AbsRing => n i j x v) u (n (S i) j u v)) ->
         (forall (i j : nat) (u v : R),
          (i + j < 3)%nat -> a1 < u < b1 /\ a2 < v < b2 -> is_derive (fun y : R_AbsRing => n i j u y) v (n i (S j) u v)) ->
         (forall (i j : nat) (u v : R),
          (i + j < 3)%nat -> a1 < u < b1 /\ a2 < v < b2 -> is_derive (fun x : R_AbsRing => W i j x v) u (W (S i) j u v)) ->
         (forall (i j : nat) (u v : R),
          (i + j < 3)%nat -> a1 < u < b1 /\ a2 < v < b2 -> is_derive (fun y : R_AbsRing => W i j u y) v (W i (S j) u v)) ->
         forall u v : R,
         a1 < u < b1 /\ a2 < v < b2 ->
         W 0%nat 0%nat u v <> 0 ->
         is_derive (fun x : R_AbsRing => Derive (fun y : R => n 0%nat 0%nat x y / W 0%nat 0%nat x y) v) u
           (surf_d11 (fun a b : nat => n a b u v) (fun a b : nat => W a b u v)).
Proof. exact @surf_d11_is_mixed_partial. Qed.
Print Assumptions C03_surface_mixed_partial.

Theorem C03_rational_curve_derivative_is_derivative :
  forall k : nat -> R,
         sorted k ->
         forall (m q cnt : nat) (c w : nat -> R) (d : nat) (t : R),
         (d <= 3)%nat ->
         k m < t < k (S m) ->
         sumf (fun i : nat => w i * B true k q i t) 0 cnt <> 0 ->
         is_derive_n
           (fun s : R =>
            sumf (fun i : nat => c i * B true k q i s) 0 cnt / sumf (fun i : nat => w i * B true k q i s) 0 cnt) d t
           (Qc (fun r : nat => spl k q cnt c r t) (fun r : nat => spl k q cnt w r t) d).
Proof. exact @rational_curve_derivative_is_derivative. Qed.
Print Assumptions C03_rational_curve_derivative_is_derivative.

Theorem C03_rational_surface_derivative_is_partial :
  forall k1 k2 : nat -> R,
         sorted k1 ->
         sorted k2 ->
         forall (m1 m2 q1 q2 c1 c2 : nat) (c w : nat -> nat -> R) (i j : nat) (u v : R),
         (i + j <= 3)%nat ->
         k1 m1 < u < k1 (S m1) ->
         k2 m2 < v < k2 (S m2) ->
         spl2 k1 k2 q1 q2 c1 c2 w 0 0 u v <> 0 ->
         is_derive_n
           (fun x : R =>
            Derive_n (fun y : R => spl2 k1 k2 q1 q2 c1 c2 c 0 0 x y / spl2 k1 k2 q1 q2 c1 c2 w 0 0 x y) j v) i u
           (Qs (fun a b : nat => spl2 k1 k2 q1 q2 c1 c2 c a b u v) (fun a b : nat => spl2 k1 k2 q1 q2 c1 c2 w a b u v)
              i j).
Proof. exact @rational_surface_derivative_is_partial. Qed.
Print Assumptions C03_rational_surface_derivative_is_partial.

Theorem C03_tangent_is_normalised :
  forall v : vec3,
         0 < dot3 v v ->
         dot3 (normalize3 v) (normalize3 v) = 1 /\
         normalize3 v = scal3 (/ norm3 v) v /\ 0 < / norm3 v /\ cross3 v (normalize3 v) = (0, 0, 0).
Proof. exact @normalize3_spec. Qed.
Print Assumptions C03_tangent_is_normalised.

Theorem C03_normal_is_normalised_cross :
  forall du dv : vec3,
         0 < dot3 (cross3 du dv) (cross3 du dv) ->
         let N := normal3 du dv in
         dot3 N N = 1 /\
         dot3 N du = 0 /\
         dot3 N dv = 0 /\ N = scal3 (/ norm3 (cross3 du dv)) (cross3 du dv) /\ 0 < / norm3 (cross3 du dv).
Proof. exact @normal3_spec. Qed.
Print Assumptions C03_normal_is_normalised_cross.

