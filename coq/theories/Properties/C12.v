(* C12 — make_splines_identical: one common discretisation, both geometries unchanged.   (PARTIAL)
   Model: Model/Identical.v, composed from the models of force_rational / set_dimension / reparam /
   lower_periodic / raise_order / insert_knot. *)
From Coq Require Import List Arith Lia Bool ZArith QArith Reals.
From SplipyModel Require Import Model.Num Model.BasisDef Model.Tensor Model.Obj Model.Affine Model.Identical
  Proofs.IdenticalProofs Extract.Exec.
Import ListNotations.

(* 1. make_splines_compatible: same dimension (the larger one) and rationality (rational if either is), bases untouched *)
Theorem C12_compatible_spec (o1 o2 : obj R) :
  let ab := @obj_compatible R NumR o1 o2 in
  o_dim (fst ab) = o_dim (snd ab) /\ o_rat (fst ab) = o_rat (snd ab) /\
  o_dim (fst ab) = Nat.max (o_dim o1) (o_dim o2) /\ o_rat (fst ab) = (o_rat o1 || o_rat o2)%bool /\
  o_bases (fst ab) = o_bases o1 /\ o_bases (snd ab) = o_bases o2.
Proof. exact (compatible_spec o1 o2). Qed.
Print Assumptions C12_compatible_spec.

(* 2. the knot arithmetic: the smoother object receives exactly the missing copies of every knot, so both end
      with the maximum of the two multiplicities *)
Theorem C12_identical_knot_counts (p m1 m2 : nat) : (m2 < m1 <= p)%nat ->
  ins_count p (Some (Z.of_nat p - 1 - Z.of_nat m1)%Z) (Some (Z.of_nat p - 1 - Z.of_nat m2)%Z) = (m1 - m2)%nat /\
  ins_count p (Some (Z.of_nat p - 1 - Z.of_nat m1)%Z) None = m1 /\
  cont_gt (Some (Z.of_nat p - 1 - Z.of_nat m2)%Z) (Some (Z.of_nat p - 1 - Z.of_nat m1)%Z) = true /\
  cont_gt None (Some (Z.of_nat p - 1 - Z.of_nat m1)%Z) = true.
Proof. exact (ins_count_spec p m1 m2). Qed.
Print Assumptions C12_identical_knot_counts.

(* PARTIAL.  "Each object still evaluates to its old map" is the composition of C09 (set_dimension /
   force_rational pad only), C06_reparam_spec (affine reparametrisation), C04_insert_knot_preserves_map (proved,
   non-periodic), C05_raise_order_geometry_partial (conditional on nestedness) and lower_periodic (C08, not
   proved); it inherits their guards and is evaluated on the implementation by the harness. *)

Example C12_example :
  let b1 := q_mkBasis 2 [0; 0; 2; 4; 4]%Q 0 in
  let b2 := q_mkBasis 3 [1; 1; 1; 2; 2; 2]%Q 0 in
  let o1 := q_mkObj [b1] [[0;0]; [1;2]; [3;1]]%Q 2 false in
  let o2 := q_mkObj [b2] [[0;0;1;1]; [1;1;0;1]; [2;0;4;2]]%Q 3 true in
  match q_obj_make_identical (1#10000000000) o1 o2 None with
  | Ok (a, b) => map Qred (b_knots (nth 0 (o_bases a) b1)) = map Qred (b_knots (nth 0 (o_bases b) b1)) /\
                 o_dim a = 3%nat /\ o_rat a = true /\ b_order (nth 0 (o_bases a) b1) = 3%nat
  | Err _ => False
  end.
Proof. vm_compute. repeat split; reflexivity. Qed.
