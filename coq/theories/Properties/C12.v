(* C12 — make_splines_identical: one common discretisation, both geometries unchanged.   (PARTIAL)
   Model: Model/Identical.v, composed from the models of force_rational / set_dimension / reparam /
   lower_periodic / raise_order / insert_knot. *)
From Coq Require Import List Arith Lia Bool ZArith QArith Reals.
From SplipyModel Require Import Model.Num Model.BasisDef Model.Tensor Model.Obj Model.Affine Model.Identical
  Proofs.IdenticalProofs Extract.Exec.
Import ListNotations.

(* 1. make_splines_compatible: same dimension (the larger one) and rationality (rational if either is), bases untouched *)
Theorem C12_compatible_spec (o1 o2 : obj R) :
  let ab := @obj_compatible R NumR o1 o2 in
  o_dim (fst ab) = o_dim (snd ab) /\ o_rat (fst ab) = o_rat (snd ab) /\
  o_dim (fst ab) = Nat.max (o_dim o1) (o_dim o2) /\ o_rat (fst ab) = (o_rat o1 || o_rat o2)%bool /\
  o_bases (fst ab) = o_bases o1 /\ o_bases (snd ab) = o_bases o2.
Proof. exact (compatible_spec o1 o2). Qed.
Print Assumptions C12_compatible_spec.

(* 2. the knot arithmetic: the smoother object receives exactly the missing copies of every knot, so both end
      with the maximum of the two multiplicities *)
Theorem C12_identical_knot_counts (p m1 m2 : nat) : (m2 < m1 <= p)%nat ->
  ins_count p (Some (Z.of_nat p - 1 - Z.of_nat m1)%Z) (Some (Z.of_nat p - 1 - Z.of_nat m2)%Z) = (m1 - m2)%nat /\
  ins_count p (Some (Z.of_nat p - 1 - Z.of_nat m1)%Z) None = m1 /\
  cont_gt (Some (Z.of_nat p - 1 - Z.of_nat m2)%Z) (Some (Z.of_nat p - 1 - Z.of_nat m1)%Z) = true /\
  cont_gt None (Some (Z.of_nat p - 1 - Z.of_nat m1)%Z) = true.
Proof. exact (ins_count_spec p m1 m2). Qed.
Print Assumptions C12_identical_knot_counts.

(* PARTIAL.  "Each object still evaluates to its old map" is the composition of C09 (set_dimension /
   force_rational pad only), C06_reparam_spec (affine reparametrisation), C04_insert_knot_preserves_map (proved,
   non-periodic), C05_raise_order_geometry_partial (conditional on nestedness) and lower_periodic (C08, not
   proved); it inherits their guards and is evaluated on the implementation by the harness. *)

Example C12_example :
  let b1 := q_mkBasis 2 [0; 0; 2; 4; 4]%Q 0 in
  let b2 := q_mkBasis 3 [1; 1; 1; 2; 2; 2]%Q 0 in
  let o1 := q_mkObj [b1] [[0;0]; [1;2]; [3;1]]%Q 2 false in
  let o2 := q_mkObj [b2] [[0;0;1;1]; [1;1;0;1]; [2;0;4;2]]%Q 3 true in
  match q_obj_make_identical (1#10000000000) o1 o2 None with
  | Ok (a, b) => map Qred (b_knots (nth 0 (o_bases a) b1)) = map Qred (b_knots (nth 0 (o_bases b) b1)) /\
                 o_dim a = 3%nat /\ o_rat a = true /\ b_order (nth 0 (o_bases a) b1) = 3%nat
  | Err _ => False
  end.
Proof. vm_compute. repeat split; reflexivity. Qed.

(* ------------------------------------------------------------------------------------------------------
   Added in build session 4 (statements re-stated from the proof files by harness tooling; each is closed by
   exact). *)
From SplipyModel Require Import Proofs.ObjEval Proofs.IdenticalEndToEnd Transfer.ParamObj Transfer.ParamOps Transfer.ParamOps2 Proofs.IdenticalPeriodic Model.IdenticalFix Proofs.IdenticalFixProofs Transfer.ParamIdenticalFix.
Theorem C12_compatible_then_evaluate :
  forall (tol : R) (o1 o2 : obj R) (ts : list R),
         0 < tol ->
         wf_obj_R tol o1 ->
         wf_obj_R tol o2 ->
         let ab := obj_compatible o1 o2 in
         let dim' := Nat.max (o_dim o1) (o_dim o2) in
         obj_eval tol (fst ab) ts = res_map (pad (dim' - o_dim o1)) (obj_eval tol o1 ts) /\
         obj_eval tol (snd ab) ts = res_map (pad (dim' - o_dim o2)) (obj_eval tol o2 ts) /\
         wf_obj_R tol (fst ab) /\
         wf_obj_R tol (snd ab) /\
         o_bases (fst ab) = o_bases o1 /\
         o_bases (snd ab) = o_bases o2 /\
         o_dim (fst ab) = dim' /\
         o_dim (snd ab) = dim' /\ o_rat (fst ab) = o_rat o1 || o_rat o2 /\ o_rat (snd ab) = o_rat o1 || o_rat o2.
Proof. exact @compatible_eval. Qed.
Print Assumptions C12_compatible_then_evaluate.

Theorem C12_identical_dir_knots :
  forall (tol : R) (o1 o2 : obj R) (i : nat),
         identical_hyps tol o1 o2 i ->
         forall a b : obj R,
         identical_dir tol o1 o2 i = Ok (a, b) ->
         let ba := nth i (o_bases a) dflt_basis in
         let bb := nth i (o_bases b) dflt_basis in
         b_order ba = Nat.max (b_order (nth i (o_bases o1) dflt_basis)) (b_order (nth i (o_bases o2) dflt_basis)) /\
         b_order bb = Nat.max (b_order (nth i (o_bases o1) dflt_basis)) (b_order (nth i (o_bases o2) dflt_basis)) /\
         b_per1 ba = 0%nat /\
         b_per1 bb = 0%nat /\
         b_start ba = 0 /\
         b_end ba = 1 /\
         b_start bb = 0 /\
         b_end bb = 1 /\
         b_knots ba = b_knots bb /\
         OrderProofs.lsorted (b_knots ba) /\
         (forall v : R,
          SplitCompose.mult (b_knots ba) v =
          Nat.max
            (rmult (b_knots (ReparamEndToEnd.rp_basis (nth i (o_bases o1) dflt_basis) 0 1))
               (Nat.max (b_order (nth i (o_bases o1) dflt_basis)) (b_order (nth i (o_bases o2) dflt_basis)) -
                b_order (nth i (o_bases o1) dflt_basis)) v)
            (rmult (b_knots (ReparamEndToEnd.rp_basis (nth i (o_bases o2) dflt_basis) 0 1))
               (Nat.max (b_order (nth i (o_bases o1) dflt_basis)) (b_order (nth i (o_bases o2) dflt_basis)) -
                b_order (nth i (o_bases o2) dflt_basis)) v)) /\
         wf_obj_R tol a /\
         wf_obj_R tol b /\
         length (o_bases a) = length (o_bases o1) /\
         length (o_bases b) = length (o_bases o2) /\
         (forall j : nat, j <> i -> nth j (o_bases a) dflt_basis = nth j (o_bases o1) dflt_basis) /\
         (forall j : nat, j <> i -> nth j (o_bases b) dflt_basis = nth j (o_bases o2) dflt_basis) /\
         o_dim a = Nat.max (o_dim o1) (o_dim o2) /\
         o_dim b = Nat.max (o_dim o1) (o_dim o2) /\ o_rat a = o_rat o1 || o_rat o2 /\ o_rat b = o_rat o1 || o_rat o2.
Proof. exact @identical_dir_knots. Qed.
Print Assumptions C12_identical_dir_knots.

Theorem C12_identical_dir_then_evaluate :
  forall (tol : R) (o1 o2 : obj R) (i : nat),
         identical_hyps tol o1 o2 i ->
         forall a b : obj R,
         identical_dir tol o1 o2 i = Ok (a, b) ->
         forall ts : list R,
         SplitCompose.dom_all tol o1 ts ->
         (i < length ts)%nat ->
         param_clear tol (nth i (o_bases o1) dflt_basis) (nth i (o_bases o2) dflt_basis) (nth i ts 0) ->
         obj_eval tol a
           (KnotInsert.upd ts i
              ((nth i ts 0 - b_start (nth i (o_bases o1) dflt_basis)) /
               (b_end (nth i (o_bases o1) dflt_basis) - b_start (nth i (o_bases o1) dflt_basis)))) =
         res_map (pad (Nat.max (o_dim o1) (o_dim o2) - o_dim o1)) (obj_eval tol o1 ts).
Proof. exact @identical_dir_eval. Qed.
Print Assumptions C12_identical_dir_then_evaluate.

Theorem C12_identical_dir_then_evaluate_second :
  forall (tol : R) (o1 o2 : obj R) (i : nat),
         identical_hyps tol o1 o2 i ->
         forall a b : obj R,
         identical_dir tol o1 o2 i = Ok (a, b) ->
         forall ts : list R,
         SplitCompose.dom_all tol o2 ts ->
         (i < length ts)%nat ->
         param_clear tol (nth i (o_bases o2) dflt_basis) (nth i (o_bases o1) dflt_basis) (nth i ts 0) ->
         obj_eval tol b
           (KnotInsert.upd ts i
              ((nth i ts 0 - b_start (nth i (o_bases o2) dflt_basis)) /
               (b_end (nth i (o_bases o2) dflt_basis) - b_start (nth i (o_bases o2) dflt_basis)))) =
         res_map (pad (Nat.max (o_dim o1) (o_dim o2) - o_dim o2)) (obj_eval tol o2 ts).
Proof. exact @identical_dir_eval2. Qed.
Print Assumptions C12_identical_dir_then_evaluate_second.

Theorem C12_identical_same_order_succeeds :
  forall (tol : R) (o1 o2 : obj R) (i : nat),
         identical_hyps tol o1 o2 i ->
         b_order (nth i (o_bases o1) dflt_basis) = b_order (nth i (o_bases o2) dflt_basis) ->
         exists a b : obj R, identical_dir tol o1 o2 i = Ok (a, b).
Proof. exact @identical_dir_same_order_ok. Qed.
Print Assumptions C12_identical_same_order_succeeds.

Theorem C12_make_identical_knots :
  forall (tol : R) (o1 o2 : obj R) (i : nat),
         identical_hyps tol o1 o2 i ->
         forall a b : obj R,
         obj_make_identical tol o1 o2 (Some i) = Ok (a, b) ->
         let ba := nth i (o_bases a) dflt_basis in
         let bb := nth i (o_bases b) dflt_basis in
         b_order ba = Nat.max (b_order (nth i (o_bases o1) dflt_basis)) (b_order (nth i (o_bases o2) dflt_basis)) /\
         b_order bb = Nat.max (b_order (nth i (o_bases o1) dflt_basis)) (b_order (nth i (o_bases o2) dflt_basis)) /\
         b_per1 ba = 0%nat /\
         b_per1 bb = 0%nat /\
         b_start ba = 0 /\
         b_end ba = 1 /\
         b_start bb = 0 /\
         b_end bb = 1 /\
         b_knots ba = b_knots bb /\
         o_dim a = Nat.max (o_dim o1) (o_dim o2) /\ o_dim b = Nat.max (o_dim o1) (o_dim o2) /\ o_rat a = o_rat b.
Proof. exact @make_identical_knots. Qed.
Print Assumptions C12_make_identical_knots.

Theorem C12_make_identical_then_evaluate :
  forall (tol : R) (o1 o2 : obj R) (i : nat),
         identical_hyps tol o1 o2 i ->
         forall a b : obj R,
         obj_make_identical tol o1 o2 (Some i) = Ok (a, b) ->
         forall ts : list R,
         SplitCompose.dom_all tol o1 ts ->
         (i < length ts)%nat ->
         param_clear tol (nth i (o_bases o1) dflt_basis) (nth i (o_bases o2) dflt_basis) (nth i ts 0) ->
         obj_eval tol a
           (KnotInsert.upd ts i
              ((nth i ts 0 - b_start (nth i (o_bases o1) dflt_basis)) /
               (b_end (nth i (o_bases o1) dflt_basis) - b_start (nth i (o_bases o1) dflt_basis)))) =
         res_map (pad (Nat.max (o_dim o1) (o_dim o2) - o_dim o1)) (obj_eval tol o1 ts).
Proof. exact @make_identical_eval. Qed.
Print Assumptions C12_make_identical_then_evaluate.

Theorem C12_hypotheses_satisfiable :
  identical_hyps ex_tol ex_o1 ex_o2 0.
Proof. exact @ex_hyps. Qed.
Print Assumptions C12_hypotheses_satisfiable.

Theorem C12_executed_is_proved_compatible :
  forall o1 o2 : obj Q, pairmap objQ2R objQ2R (obj_compatible o1 o2) = obj_compatible (objQ2R o1) (objQ2R o2).
Proof. exact @obj_compatible_transfer. Qed.
Print Assumptions C12_executed_is_proved_compatible.

Theorem C12_executed_is_proved_identical :
  forall (tol : Q) (o1 o2 : obj Q) (direction : option nat),
         resmap (pairmap objQ2R objQ2R) (obj_make_identical tol o1 o2 direction) =
         obj_make_identical (Q2R tol) (objQ2R o1) (objQ2R o2) direction.
Proof. exact @obj_make_identical_transfer. Qed.
Print Assumptions C12_executed_is_proved_identical.

Theorem C12_identical_dir_per_ok :
  forall (tol : R) (o1 o2 : obj R) (i na nb : nat) (Ta Tb : R),
         identical_per_hyps tol o1 o2 i na nb Ta Tb -> exists a b : obj R, identical_dir tol o1 o2 i = Ok (a, b).
Proof. exact @identical_dir_per_ok. Qed.
Print Assumptions C12_identical_dir_per_ok.

Theorem C12_identical_dir_per_knots :
  forall (tol : R) (o1 o2 : obj R) (i na nb : nat) (Ta Tb : R),
         identical_per_hyps tol o1 o2 i na nb Ta Tb ->
         forall a b : obj R,
         identical_dir tol o1 o2 i = Ok (a, b) ->
         let ba := nth i (o_bases a) dflt_basis in
         let bb := nth i (o_bases b) dflt_basis in
         b_order ba = b_order (nth i (o_bases o1) dflt_basis) /\
         b_order bb = b_order (nth i (o_bases o1) dflt_basis) /\
         b_per1 ba = b_per1 (nth i (o_bases o1) dflt_basis) /\
         b_per1 bb = b_per1 (nth i (o_bases o1) dflt_basis) /\
         b_start ba = 0 /\
         b_end ba = 1 /\
         b_start bb = 0 /\
         b_end bb = 1 /\
         b_knots ba = b_knots bb /\
         (exists nk : nat,
            PeriodicEndToEnd.canon_dir a i nk 1 /\
            PeriodicEndToEnd.canon_dir b i nk 1 /\
            PeriodicSplit.per_strict (b_knots ba) (b_per1 (nth i (o_bases o1) dflt_basis)) /\
            (forall v : R,
             cw (b_knots ba) (b_per1 (nth i (o_bases o1) dflt_basis)) nk v =
             Nat.max
               (cw (b_knots (ReparamEndToEnd.rp_basis (nth i (o_bases o1) dflt_basis) 0 1))
                  (b_per1 (nth i (o_bases o1) dflt_basis)) na v)
               (cw (b_knots (ReparamEndToEnd.rp_basis (nth i (o_bases o2) dflt_basis) 0 1))
                  (b_per1 (nth i (o_bases o1) dflt_basis)) nb v))) /\
         wf_obj_R tol a /\
         wf_obj_R tol b /\
         length (o_bases a) = length (o_bases o1) /\
         length (o_bases b) = length (o_bases o2) /\
         (forall j : nat, j <> i -> nth j (o_bases a) dflt_basis = nth j (o_bases o1) dflt_basis) /\
         (forall j : nat, j <> i -> nth j (o_bases b) dflt_basis = nth j (o_bases o2) dflt_basis) /\
         o_dim a = Nat.max (o_dim o1) (o_dim o2) /\
         o_dim b = Nat.max (o_dim o1) (o_dim o2) /\ o_rat a = o_rat o1 || o_rat o2 /\ o_rat b = o_rat o1 || o_rat o2.
Proof. exact @identical_dir_per_knots. Qed.
Print Assumptions C12_identical_dir_per_knots.

Theorem C12_identical_dir_per_eval :
  forall (tol : R) (o1 o2 : obj R) (i na nb : nat) (Ta Tb : R),
         identical_per_hyps tol o1 o2 i na nb Ta Tb ->
         forall a b : obj R,
         identical_dir tol o1 o2 i = Ok (a, b) ->
         forall ts : list R,
         SplitCompose.dom_all tol o1 ts ->
         (i < length ts)%nat ->
         b_start (nth i (o_bases o1) dflt_basis) <= nth i ts 0 <= b_end (nth i (o_bases o1) dflt_basis) ->
         param_clear tol (nth i (o_bases o1) dflt_basis) (nth i (o_bases o2) dflt_basis) (nth i ts 0) ->
         obj_eval tol a
           (KnotInsert.upd ts i
              ((nth i ts 0 - b_start (nth i (o_bases o1) dflt_basis)) /
               (b_end (nth i (o_bases o1) dflt_basis) - b_start (nth i (o_bases o1) dflt_basis)))) =
         res_map (pad (Nat.max (o_dim o1) (o_dim o2) - o_dim o1)) (obj_eval tol o1 ts).
Proof. exact @identical_dir_per_eval. Qed.
Print Assumptions C12_identical_dir_per_eval.

Theorem C12_identical_dir_per_eval2 :
  forall (tol : R) (o1 o2 : obj R) (i na nb : nat) (Ta Tb : R),
         identical_per_hyps tol o1 o2 i na nb Ta Tb ->
         forall a b : obj R,
         identical_dir tol o1 o2 i = Ok (a, b) ->
         forall ts : list R,
         SplitCompose.dom_all tol o2 ts ->
         (i < length ts)%nat ->
         b_start (nth i (o_bases o2) dflt_basis) <= nth i ts 0 <= b_end (nth i (o_bases o2) dflt_basis) ->
         param_clear tol (nth i (o_bases o2) dflt_basis) (nth i (o_bases o1) dflt_basis) (nth i ts 0) ->
         obj_eval tol b
           (KnotInsert.upd ts i
              ((nth i ts 0 - b_start (nth i (o_bases o2) dflt_basis)) /
               (b_end (nth i (o_bases o2) dflt_basis) - b_start (nth i (o_bases o2) dflt_basis)))) =
         res_map (pad (Nat.max (o_dim o1) (o_dim o2) - o_dim o2)) (obj_eval tol o2 ts).
Proof. exact @identical_dir_per_eval2. Qed.
Print Assumptions C12_identical_dir_per_eval2.

Theorem C12_make_identical_per_ok :
  forall (tol : R) (o1 o2 : obj R) (i na nb : nat) (Ta Tb : R),
         identical_per_hyps tol o1 o2 i na nb Ta Tb ->
         exists a b : obj R, obj_make_identical tol o1 o2 (Some i) = Ok (a, b).
Proof. exact @make_identical_per_ok. Qed.
Print Assumptions C12_make_identical_per_ok.

Theorem C12_make_identical_per_knots :
  forall (tol : R) (o1 o2 : obj R) (i na nb : nat) (Ta Tb : R),
         identical_per_hyps tol o1 o2 i na nb Ta Tb ->
         forall a b : obj R,
         obj_make_identical tol o1 o2 (Some i) = Ok (a, b) ->
         let ba := nth i (o_bases a) dflt_basis in
         let bb := nth i (o_bases b) dflt_basis in
         b_order ba = b_order (nth i (o_bases o1) dflt_basis) /\
         b_order bb = b_order (nth i (o_bases o1) dflt_basis) /\
         b_per1 ba = b_per1 (nth i (o_bases o1) dflt_basis) /\
         b_per1 bb = b_per1 (nth i (o_bases o1) dflt_basis) /\
         b_start ba = 0 /\
         b_end ba = 1 /\
         b_start bb = 0 /\
         b_end bb = 1 /\
         b_knots ba = b_knots bb /\
         o_dim a = Nat.max (o_dim o1) (o_dim o2) /\ o_dim b = Nat.max (o_dim o1) (o_dim o2) /\ o_rat a = o_rat b.
Proof. exact @make_identical_per_knots. Qed.
Print Assumptions C12_make_identical_per_knots.

Theorem C12_make_identical_per_eval :
  forall (tol : R) (o1 o2 : obj R) (i na nb : nat) (Ta Tb : R),
         identical_per_hyps tol o1 o2 i na nb Ta Tb ->
         forall a b : obj R,
         obj_make_identical tol o1 o2 (Some i) = Ok (a, b) ->
         forall ts : list R,
         SplitCompose.dom_all tol o1 ts ->
         (i < length ts)%nat ->
         b_start (nth i (o_bases o1) dflt_basis) <= nth i ts 0 <= b_end (nth i (o_bases o1) dflt_basis) ->
         param_clear tol (nth i (o_bases o1) dflt_basis) (nth i (o_bases o2) dflt_basis) (nth i ts 0) ->
         obj_eval tol a
           (KnotInsert.upd ts i
              ((nth i ts 0 - b_start (nth i (o_bases o1) dflt_basis)) /
               (b_end (nth i (o_bases o1) dflt_basis) - b_start (nth i (o_bases o1) dflt_basis)))) =
         res_map (pad (Nat.max (o_dim o1) (o_dim o2) - o_dim o1)) (obj_eval tol o1 ts).
Proof. exact @make_identical_per_eval. Qed.
Print Assumptions C12_make_identical_per_eval.

Theorem C12_identical_dir_open_per_ok :
  forall (tol : R) (o1 o2 : obj R) (i nb : nat) (Tb : R),
         identical_op_hyps tol o1 o2 i nb Tb ->
         exists (a b : obj R) (kL : list R),
           identical_dir tol o1 o2 i = Ok (a, b) /\
           lowered_knots (nth i (o_bases o2) dflt_basis) nb kL /\
           low_facts tol o1 o2 i (b_knots (ReparamEndToEnd.rp_basis (nth i (o_bases o1) dflt_basis) 0 1)) kL a b.
Proof. exact @identical_dir_open_per_ok. Qed.
Print Assumptions C12_identical_dir_open_per_ok.

Theorem C12_identical_dir_per_open_ok :
  forall (tol : R) (o1 o2 : obj R) (i na : nat) (Ta : R),
         identical_po_hyps tol o1 o2 i na Ta ->
         exists (a b : obj R) (kL : list R),
           identical_dir tol o1 o2 i = Ok (a, b) /\
           lowered_knots (nth i (o_bases o1) dflt_basis) na kL /\
           low_facts tol o1 o2 i kL (b_knots (ReparamEndToEnd.rp_basis (nth i (o_bases o2) dflt_basis) 0 1)) a b.
Proof. exact @identical_dir_per_open_ok. Qed.
Print Assumptions C12_identical_dir_per_open_ok.

Theorem C12_identical_dir_lower2_ok :
  forall (tol : R) (o1 o2 : obj R) (i na nb : nat) (Ta Tb : R),
         identical_lo2_hyps tol o1 o2 i na nb Ta Tb ->
         let b1 := nth i (o_bases o1) dflt_basis in
         let b2 := nth i (o_bases o2) dflt_basis in
         exists (a b : obj R) (k2 : list R),
           identical_dir tol o1 o2 i = Ok (a, b) /\
           lowered_window b2 nb (b_per1 b1) k2 /\
           per_facts tol o1 o2 i (b_per1 b1) (b_knots (ReparamEndToEnd.rp_basis b1 0 1)) k2 na
             (nb + (b_per1 b2 - b_per1 b1)) a b.
Proof. exact @identical_dir_lower2_ok. Qed.
Print Assumptions C12_identical_dir_lower2_ok.

Theorem C12_identical_dir_lower1_ok :
  forall (tol : R) (o1 o2 : obj R) (i na nb : nat) (Ta Tb : R),
         identical_lo1_hyps tol o1 o2 i na nb Ta Tb ->
         let b1 := nth i (o_bases o1) dflt_basis in
         let b2 := nth i (o_bases o2) dflt_basis in
         exists (a b : obj R) (k2 : list R),
           identical_dir tol o1 o2 i = Ok (a, b) /\
           lowered_window b1 na (b_per1 b2) k2 /\
           per_facts tol o1 o2 i (b_per1 b2) k2 (b_knots (ReparamEndToEnd.rp_basis b2 0 1))
             (na + (b_per1 b1 - b_per1 b2)) nb a b.
Proof. exact @identical_dir_lower1_ok. Qed.
Print Assumptions C12_identical_dir_lower1_ok.

Theorem C12_exp_hyps :
  identical_per_hyps exp_tol PeriodicEndToEnd.ex_curve exq_curve 0 8 8 8 8.
Proof. exact @exp_hyps. Qed.
Print Assumptions C12_exp_hyps.

Theorem C12_exb_hyps_op :
  identical_op_hyps exp_tol ex_o2 PeriodicEndToEnd.ex_curve 0 8 8.
Proof. exact @exb_hyps_op. Qed.
Print Assumptions C12_exb_hyps_op.

Theorem C12_exc_hyps_lo2 :
  identical_lo2_hyps exp_tol exr_curve PeriodicEndToEnd.ex_curve 0 9 8 8 8.
Proof. exact @exc_hyps_lo2. Qed.
Print Assumptions C12_exc_hyps_lo2.

Theorem C12_identical_dir2_eq_open :
  forall (F : Type) (H : Num F) (tol : F) (o1 o2 : obj F) (i : nat),
         b_per1 (nth i (o_bases o1) {| b_order := 0; b_knots := []; b_per1 := 0 |}) = 0%nat \/
         b_per1 (nth i (o_bases o2) {| b_order := 0; b_knots := []; b_per1 := 0 |}) = 0%nat ->
         identical_dir2 tol o1 o2 i = identical_dir tol o1 o2 i.
Proof. exact @identical_dir2_eq_open. Qed.
Print Assumptions C12_identical_dir2_eq_open.

Theorem C12_make_identical2_eq_nonperiodic :
  forall (F : Type) (H : Num F) (tol : F) (o1 o2 : obj F) (dir : option nat),
         nonper o1 -> nonper o2 -> obj_make_identical2 tol o1 o2 dir = obj_make_identical tol o1 o2 dir.
Proof. exact @make_identical2_eq_nonperiodic. Qed.
Print Assumptions C12_make_identical2_eq_nonperiodic.

Theorem C12_identical_dir2_knots :
  forall (tol : R) (o1 o2 : obj R) (i : nat),
         identical_hyps tol o1 o2 i ->
         forall a b : obj R,
         identical_dir2 tol o1 o2 i = Ok (a, b) ->
         let ba := nth i (o_bases a) dflt_basis in
         let bb := nth i (o_bases b) dflt_basis in
         b_order ba = Nat.max (b_order (nth i (o_bases o1) dflt_basis)) (b_order (nth i (o_bases o2) dflt_basis)) /\
         b_order bb = Nat.max (b_order (nth i (o_bases o1) dflt_basis)) (b_order (nth i (o_bases o2) dflt_basis)) /\
         b_per1 ba = 0%nat /\
         b_per1 bb = 0%nat /\
         b_start ba = 0 /\
         b_end ba = 1 /\
         b_start bb = 0 /\
         b_end bb = 1 /\
         b_knots ba = b_knots bb /\
         OrderProofs.lsorted (b_knots ba) /\
         (forall v : R,
          SplitCompose.mult (b_knots ba) v =
          Nat.max
            (rmult (b_knots (ReparamEndToEnd.rp_basis (nth i (o_bases o1) dflt_basis) 0 1))
               (Nat.max (b_order (nth i (o_bases o1) dflt_basis)) (b_order (nth i (o_bases o2) dflt_basis)) -
                b_order (nth i (o_bases o1) dflt_basis)) v)
            (rmult (b_knots (ReparamEndToEnd.rp_basis (nth i (o_bases o2) dflt_basis) 0 1))
               (Nat.max (b_order (nth i (o_bases o1) dflt_basis)) (b_order (nth i (o_bases o2) dflt_basis)) -
                b_order (nth i (o_bases o2) dflt_basis)) v)) /\
         wf_obj_R tol a /\
         wf_obj_R tol b /\
         length (o_bases a) = length (o_bases o1) /\
         length (o_bases b) = length (o_bases o2) /\
         (forall j : nat, j <> i -> nth j (o_bases a) dflt_basis = nth j (o_bases o1) dflt_basis) /\
         (forall j : nat, j <> i -> nth j (o_bases b) dflt_basis = nth j (o_bases o2) dflt_basis) /\
         o_dim a = Nat.max (o_dim o1) (o_dim o2) /\
         o_dim b = Nat.max (o_dim o1) (o_dim o2) /\ o_rat a = o_rat o1 || o_rat o2 /\ o_rat b = o_rat o1 || o_rat o2.
Proof. exact @identical_dir2_knots. Qed.
Print Assumptions C12_identical_dir2_knots.

Theorem C12_identical_dir2_eval :
  forall (tol : R) (o1 o2 : obj R) (i : nat),
         identical_hyps tol o1 o2 i ->
         forall a b : obj R,
         identical_dir2 tol o1 o2 i = Ok (a, b) ->
         forall ts : list R,
         SplitCompose.dom_all tol o1 ts ->
         (i < length ts)%nat ->
         param_clear tol (nth i (o_bases o1) dflt_basis) (nth i (o_bases o2) dflt_basis) (nth i ts 0) ->
         obj_eval tol a
           (KnotInsert.upd ts i
              ((nth i ts 0 - b_start (nth i (o_bases o1) dflt_basis)) /
               (b_end (nth i (o_bases o1) dflt_basis) - b_start (nth i (o_bases o1) dflt_basis)))) =
         res_map (pad (Nat.max (o_dim o1) (o_dim o2) - o_dim o1)) (obj_eval tol o1 ts).
Proof. exact @identical_dir2_eval. Qed.
Print Assumptions C12_identical_dir2_eval.

Theorem C12_make_identical2_knots :
  forall (tol : R) (o1 o2 : obj R) (i : nat),
         identical_hyps tol o1 o2 i ->
         forall a b : obj R,
         obj_make_identical2 tol o1 o2 (Some i) = Ok (a, b) ->
         let ba := nth i (o_bases a) dflt_basis in
         let bb := nth i (o_bases b) dflt_basis in
         b_order ba = Nat.max (b_order (nth i (o_bases o1) dflt_basis)) (b_order (nth i (o_bases o2) dflt_basis)) /\
         b_order bb = Nat.max (b_order (nth i (o_bases o1) dflt_basis)) (b_order (nth i (o_bases o2) dflt_basis)) /\
         b_per1 ba = 0%nat /\
         b_per1 bb = 0%nat /\
         b_start ba = 0 /\
         b_end ba = 1 /\
         b_start bb = 0 /\
         b_end bb = 1 /\
         b_knots ba = b_knots bb /\
         o_dim a = Nat.max (o_dim o1) (o_dim o2) /\ o_dim b = Nat.max (o_dim o1) (o_dim o2) /\ o_rat a = o_rat b.
Proof. exact @make_identical2_knots. Qed.
Print Assumptions C12_make_identical2_knots.

Theorem C12_make_identical2_eval :
  forall (tol : R) (o1 o2 : obj R) (i : nat),
         identical_hyps tol o1 o2 i ->
         forall a b : obj R,
         obj_make_identical2 tol o1 o2 (Some i) = Ok (a, b) ->
         forall ts : list R,
         SplitCompose.dom_all tol o1 ts ->
         (i < length ts)%nat ->
         param_clear tol (nth i (o_bases o1) dflt_basis) (nth i (o_bases o2) dflt_basis) (nth i ts 0) ->
         obj_eval tol a
           (KnotInsert.upd ts i
              ((nth i ts 0 - b_start (nth i (o_bases o1) dflt_basis)) /
               (b_end (nth i (o_bases o1) dflt_basis) - b_start (nth i (o_bases o1) dflt_basis)))) =
         res_map (pad (Nat.max (o_dim o1) (o_dim o2) - o_dim o1)) (obj_eval tol o1 ts).
Proof. exact @make_identical2_eval. Qed.
Print Assumptions C12_make_identical2_eval.

Theorem C12_identical_dir2_eq_per :
  forall (tol : R) (o1 o2 : obj R) (i na nb : nat) (Ta Tb : R),
         identical_per_hyps tol o1 o2 i na nb Ta Tb -> identical_dir2 tol o1 o2 i = identical_dir tol o1 o2 i.
Proof. exact @identical_dir2_eq_per. Qed.
Print Assumptions C12_identical_dir2_eq_per.

Theorem C12_identical_dir2_per_knots :
  forall (tol : R) (o1 o2 : obj R) (i na nb : nat) (Ta Tb : R),
         identical_per_hyps tol o1 o2 i na nb Ta Tb ->
         forall a b : obj R,
         identical_dir2 tol o1 o2 i = Ok (a, b) ->
         let ba := nth i (o_bases a) dflt_basis in
         let bb := nth i (o_bases b) dflt_basis in
         b_order ba = b_order (nth i (o_bases o1) dflt_basis) /\
         b_order bb = b_order (nth i (o_bases o1) dflt_basis) /\
         b_per1 ba = b_per1 (nth i (o_bases o1) dflt_basis) /\
         b_per1 bb = b_per1 (nth i (o_bases o1) dflt_basis) /\
         b_start ba = 0 /\
         b_end ba = 1 /\
         b_start bb = 0 /\
         b_end bb = 1 /\
         b_knots ba = b_knots bb /\
         (exists nk : nat,
            PeriodicEndToEnd.canon_dir a i nk 1 /\
            PeriodicEndToEnd.canon_dir b i nk 1 /\
            PeriodicSplit.per_strict (b_knots ba) (b_per1 (nth i (o_bases o1) dflt_basis)) /\
            (forall v : R,
             cw (b_knots ba) (b_per1 (nth i (o_bases o1) dflt_basis)) nk v =
             Nat.max
               (cw (b_knots (ReparamEndToEnd.rp_basis (nth i (o_bases o1) dflt_basis) 0 1))
                  (b_per1 (nth i (o_bases o1) dflt_basis)) na v)
               (cw (b_knots (ReparamEndToEnd.rp_basis (nth i (o_bases o2) dflt_basis) 0 1))
                  (b_per1 (nth i (o_bases o1) dflt_basis)) nb v))) /\
         wf_obj_R tol a /\
         wf_obj_R tol b /\
         length (o_bases a) = length (o_bases o1) /\
         length (o_bases b) = length (o_bases o2) /\
         (forall j : nat, j <> i -> nth j (o_bases a) dflt_basis = nth j (o_bases o1) dflt_basis) /\
         (forall j : nat, j <> i -> nth j (o_bases b) dflt_basis = nth j (o_bases o2) dflt_basis) /\
         o_dim a = Nat.max (o_dim o1) (o_dim o2) /\
         o_dim b = Nat.max (o_dim o1) (o_dim o2) /\ o_rat a = o_rat o1 || o_rat o2 /\ o_rat b = o_rat o1 || o_rat o2.
Proof. exact @identical_dir2_per_knots. Qed.
Print Assumptions C12_identical_dir2_per_knots.

Theorem C12_identical_dir2_per_eval :
  forall (tol : R) (o1 o2 : obj R) (i na nb : nat) (Ta Tb : R),
         identical_per_hyps tol o1 o2 i na nb Ta Tb ->
         forall a b : obj R,
         identical_dir2 tol o1 o2 i = Ok (a, b) ->
         forall ts : list R,
         SplitCompose.dom_all tol o1 ts ->
         (i < length ts)%nat ->
         b_start (nth i (o_bases o1) dflt_basis) <= nth i ts 0 <= b_end (nth i (o_bases o1) dflt_basis) ->
         param_clear tol (nth i (o_bases o1) dflt_basis) (nth i (o_bases o2) dflt_basis) (nth i ts 0) ->
         obj_eval tol a
           (KnotInsert.upd ts i
              ((nth i ts 0 - b_start (nth i (o_bases o1) dflt_basis)) /
               (b_end (nth i (o_bases o1) dflt_basis) - b_start (nth i (o_bases o1) dflt_basis)))) =
         res_map (pad (Nat.max (o_dim o1) (o_dim o2) - o_dim o1)) (obj_eval tol o1 ts).
Proof. exact @identical_dir2_per_eval. Qed.
Print Assumptions C12_identical_dir2_per_eval.

Theorem C12_identical_dir2_seam_ok :
  forall (tol : R) (o1 o2 : obj R) (i na nb : nat) (Ta Tb : R),
         identical_per_hyps2 tol o1 o2 i na nb Ta Tb ->
         let b1 := nth i (o_bases o1) dflt_basis in
         let b2 := nth i (o_bases o2) dflt_basis in
         exists a b : obj R,
           identical_dir2 tol o1 o2 i = Ok (a, b) /\
           per_facts tol o1 o2 i (b_per1 b1) (b_knots (ReparamEndToEnd.rp_basis b1 0 1))
             (b_knots (ReparamEndToEnd.rp_basis b2 0 1)) na nb a b.
Proof. exact @identical_dir2_seam_ok. Qed.
Print Assumptions C12_identical_dir2_seam_ok.

Theorem C12_make_identical2_seam_ok :
  forall (tol : R) (o1 o2 : obj R) (i na nb : nat) (Ta Tb : R),
         identical_per_hyps2 tol o1 o2 i na nb Ta Tb ->
         exists a b : obj R, obj_make_identical2 tol o1 o2 (Some i) = Ok (a, b).
Proof. exact @make_identical2_seam_ok. Qed.
Print Assumptions C12_make_identical2_seam_ok.

Theorem C12_exs_hyps2 :
  identical_per_hyps2 exp_tol exs_curve PeriodicEndToEnd.ex_curve 0 9 8 8 8.
Proof. exact @exs_hyps2. Qed.
Print Assumptions C12_exs_hyps2.

Theorem C12_exs_seam_differs :
  SplitCompose.mult
           (b_knots (ReparamEndToEnd.rp_basis {| b_order := 4; b_knots := exs_knots; b_per1 := 3 |} 0 1)) 0 = 2%nat /\
         SplitCompose.mult
           (b_knots (ReparamEndToEnd.rp_basis {| b_order := 4; b_knots := PeriodicInsert.ex_knots; b_per1 := 3 |} 0 1))
           0 = 1%nat.
Proof. exact @exs_seam_differs. Qed.
Print Assumptions C12_exs_seam_differs.

Theorem C12_old_identical_seam_defect :
  exists a a' b' : obj Q,
           KnotInsert.obj_insert_knots q_c1 0 [0%Q] = Ok a /\
           q_kn a = [(-3)%Q; (-2)%Q; (-1)%Q; 0%Q; 0%Q; 1%Q; 2%Q; 3%Q; 4%Q; 5%Q; 6%Q; 7%Q; 8%Q; 8%Q; 9%Q; 10%Q] /\
           identical_dir q_tol a q_c2 0 = Ok (a', b') /\
           q_kn a' =
           [-3 # 8; -1 # 4; -1 # 8; 0%Q; 0%Q; 0%Q; 0%Q; 1 # 8; 1 # 4; 3 # 8; 1 # 2; 5 # 8; 
            3 # 4; 7 # 8; 1%Q; 1%Q; 1%Q; 1%Q] /\
           q_kn b' =
           [-3 # 8; -1 # 4; -1 # 8; 0%Q; 0%Q; 0%Q; 1 # 8; 1 # 4; 3 # 8; 1 # 2; 5 # 8; 3 # 4; 
            7 # 8; 1%Q; 1%Q; 1%Q; 9 # 8] /\ length (q_kn a') = 18%nat /\ length (q_kn b') = 17%nat.
Proof. exact @old_identical_seam_defect. Qed.
Print Assumptions C12_old_identical_seam_defect.

Theorem C12_repaired_identical_seam :
  exists a a' b' : obj Q,
           KnotInsert.obj_insert_knots q_c1 0 [0%Q] = Ok a /\
           identical_dir2 q_tol a q_c2 0 = Ok (a', b') /\
           q_kn a' = q_kn b' /\
           q_kn a' =
           [-3 # 8; -1 # 4; -1 # 8; 0%Q; 0%Q; 1 # 8; 1 # 4; 3 # 8; 1 # 2; 5 # 8; 3 # 4; 7 # 8; 1%Q; 1%Q; 9 # 8; 5 # 4] /\
           length (o_cps a') = 9%nat /\ length (o_cps b') = 9%nat.
Proof. exact @repaired_identical_seam. Qed.
Print Assumptions C12_repaired_identical_seam.

Theorem C12_executed_is_proved_identical_repaired :
  forall (tol : Q) (o1 o2 : obj Q) (direction : option nat),
         resmap (pairmap objQ2R objQ2R) (obj_make_identical2 tol o1 o2 direction) =
         obj_make_identical2 (Q2R tol) (objQ2R o1) (objQ2R o2) direction.
Proof. exact @obj_make_identical2_transfer. Qed.
Print Assumptions C12_executed_is_proved_identical_repaired.

