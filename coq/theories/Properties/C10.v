(* C10 — Every reachable object is structurally well formed.
   Models: Model/WF.v (constructor checks, executable predicate), Model/Ops.v (operation language). *)
From Coq Require Import List Arith Reals Lra Lia Bool ZArith QArith.
From SplipyModel Require Import Spec.BSpline Model.Num Model.BasisDef Model.Tensor Model.Obj Model.KnotInsert Model.Reparam Model.Affine
  Model.WF Model.Ops Proofs.WFProofs Extract.Exec.
Import ListNotations.
Open Scope R_scope.

(* 1. invariant, one step: shape consistency (|net| = prod of function counts, every control point has
      dim(+1) components, no empty direction) and the number of directions survive every modelled operation *)
Theorem C10_step_preserves_shape (o o' : obj R) (a : op) :
  shape_ok o -> step o a = Ok o' -> shape_ok o' /\ length (o_bases o') = length (o_bases o).
Proof. exact (step_preserves_shape o o' a). Qed.
Print Assumptions C10_step_preserves_shape.

(* 2. invariant, any history (no bound on its length) *)
Theorem C10_reachable_shape_ok (ops : list op) (o o' : obj R) :
  shape_ok o -> run o ops = Ok o' -> shape_ok o' /\ length (o_bases o') = length (o_bases o).
Proof. exact (reachable_shape_ok ops o o'). Qed.
Print Assumptions C10_reachable_shape_ok.

(* 3. the constructor accepts exactly: order >= 1, at least 2*order knots, matching periodic ends, and no pair
      decreasing by more than the tolerance; every rejection is a ValueError *)
Theorem C10_ctor_spec (tol : R) (p : Z) (k : list R) (per1 : nat) :
  (basis_ctor tol p k per1 = Ok (mkBasis (Z.to_nat p) k per1) <->
     ((1 <= p)%Z /\ (2 * Z.to_nat p <= length k)%nat /\
      ctor_periodic_ok tol (Z.to_nat p) per1 k = true /\ ctor_monotone_ok tol k = true)) /\
  (forall e, basis_ctor tol p k per1 = Err e -> e = ValueError).
Proof. exact (ctor_spec tol p k per1). Qed.
Print Assumptions C10_ctor_spec.

Theorem C10_ctor_rejects_decreasing (tol : R) (k : list R) :
  ctor_monotone_ok tol k = true <-> forall i, (i < length k - 1)%nat -> - tol <= kn k (i + 1) - kn k i.
Proof. exact (ctor_monotone_spec tol k). Qed.
Print Assumptions C10_ctor_rejects_decreasing.

(* PARTIAL: knot-vector validity after each operation is proved per operation where the operation's own
   property is proved (C04 insertion: sorted + one more knot; C06 reparam: increasing affine image); positivity
   of weights through insertion (row-stochastic matrix) and through order elevation is checked by the
   harness only. *)

(* non-vacuity: a history on a rational periodic-by-open surface, executed on Q, ends well formed *)
Example C10_example :
  let bu := q_mkBasis 3 [-1; 0; 1; 2; 3; 4; 5; 6]%Q 2 in
  let bv := q_mkBasis 2 [0; 0; 1; 1]%Q 0 in
  let o := q_mkObj [bu; bv] [[0;0;1]; [0;2;1]; [1;0;2]; [2;4;2]; [3;1;1]; [3;3;1]]%Q 2 true in
  match @run Q NumQ o [OpInsert 1 [(1#2)%Q]; OpSwap 0 1; OpReverse 0; OpTranslate [1;2;3]%Q; OpScale [2%Q]; OpReparam 1 (3%Q) (5%Q)] with
  | Ok o' => q_wf_obj_b (1#10000000000) o' = true /\ o_dim o' = 3%nat /\ length (o_cps o') = 9%nat
  | Err _ => False
  end.
Proof. vm_compute. repeat split; reflexivity. Qed.

(* ------------------------------------------------------------------------------------------------------
   Added in build session 4 (statements re-stated from the proof files by harness tooling; each is closed by
   exact). *)
From SplipyModel Require Import Model.Ops2 Proofs.Ops2Proofs.
Open Scope R_scope.
Theorem C10_step2_preserves_invariant :
  forall (tol : R) (o o' : obj R) (a : op2), inv o -> guard2 tol o a -> step2 tol o a = Ok o' -> inv o'.
Proof. exact @step2_preserves_inv. Qed.
Print Assumptions C10_step2_preserves_invariant.

Theorem C10_step2_preserves_periodic_images :
  forall (tol : R) (o o' : obj R) (a : op2),
         inv o -> ghost_ok o -> guard2 tol o a -> step2 tol o a = Ok o' -> ghost_ok o'.
Proof. exact @step2_preserves_ghost. Qed.
Print Assumptions C10_step2_preserves_periodic_images.

Theorem C10_step2_preserves_positive_weights :
  forall (tol : R) (o o' : obj R) (a : op2),
         inv o -> weights_pos o -> guard2 tol o a -> guardw2 o a -> step2 tol o a = Ok o' -> weights_pos o'.
Proof. exact @step2_preserves_weights. Qed.
Print Assumptions C10_step2_preserves_positive_weights.

Theorem C10_reachable_invariant :
  forall (tol : R) (ops : list op2) (o o' : obj R),
         inv o -> guarded2 tol o ops -> run2 tol o ops = Ok o' -> inv o'.
Proof. exact @reachable_inv. Qed.
Print Assumptions C10_reachable_invariant.

Theorem C10_every_intermediate_object :
  forall (tol : R) (ops : list op2) (o : obj R), inv o -> guarded2 tol o ops -> Forall inv (trace2 tol o ops).
Proof. exact @trace_inv. Qed.
Print Assumptions C10_every_intermediate_object.

Theorem C10_reachable_periodic_images :
  forall (tol : R) (ops : list op2) (o o' : obj R),
         inv o -> ghost_ok o -> guarded2 tol o ops -> run2 tol o ops = Ok o' -> inv o' /\ ghost_ok o'.
Proof. exact @reachable_inv_ghost. Qed.
Print Assumptions C10_reachable_periodic_images.

Theorem C10_reachable_positive_weights :
  forall (tol : R) (ops : list op2) (o o' : obj R),
         inv o ->
         weights_pos o ->
         guarded2 tol o ops -> guardedw2 tol o ops -> run2 tol o ops = Ok o' -> inv o' /\ weights_pos o'.
Proof. exact @reachable_weights. Qed.
Print Assumptions C10_reachable_positive_weights.

Theorem C10_reachable_invariant_syntactic :
  forall (tol : R) (ops : list op2),
         Forall covered ops -> forall o o' : obj R, inv o -> nonper o -> run2 tol o ops = Ok o' -> inv o' /\ nonper o'.
Proof. exact @reachable_inv_covered. Qed.
Print Assumptions C10_reachable_invariant_syntactic.

Theorem C10_flat_index_bijection :
  forall o : obj R,
         inv o ->
         (forall idx : list nat,
          SwapEndToEnd.inshape idx (o_shape o) ->
          (ravel (o_shape o) idx < length (o_cps o))%nat /\ unravel (o_shape o) (ravel (o_shape o) idx) = idx) /\
         (forall f : nat,
          (f < length (o_cps o))%nat ->
          SwapEndToEnd.inshape (unravel (o_shape o) f) (o_shape o) /\ ravel (o_shape o) (unravel (o_shape o) f) = f).
Proof. exact @flat_index_bijection. Qed.
Print Assumptions C10_flat_index_bijection.

Theorem C10_first_index_fastest :
  forall (A : Type) (dflt : A) (shape : list nat) (cps : list A) (idx : list nat),
         SwapEndToEnd.inshape idx shape ->
         nth (fravel shape idx) (G2.c2f dflt shape cps) dflt = nth (ravel shape idx) cps dflt.
Proof. exact @c2f_entry. Qed.
Print Assumptions C10_first_index_fastest.

Theorem C10_history_witness :
  inv wit_o /\
         weights_pos wit_o /\
         guarded2 wit_tol wit_o wit_hist /\
         guardedw2 wit_tol wit_o wit_hist /\
         (exists o' : obj R,
            run2 wit_tol wit_o wit_hist = Ok o' /\ inv o' /\ weights_pos o' /\ o_dim o' = 3%nat /\ o_rat o' = true).
Proof. exact @witness_R. Qed.
Print Assumptions C10_history_witness.

Theorem C10_periodic_history_witness :
  guarded2 wit_tol wit_o wit_hist_per /\
         (exists o' : obj R,
            run2 wit_tol wit_o wit_hist_per = Ok o' /\
            inv o' /\
            ghost_ok o' /\
            b_per1 (nth 0 (o_bases o') ObjEval.dflt_basis) = 1%nat /\
            b_start (nth 0 (o_bases o') ObjEval.dflt_basis) = 2 /\
            b_end (nth 0 (o_bases o') ObjEval.dflt_basis) = 5 /\ o_shape o' = [5%nat]).
Proof. exact @witness_R_periodic. Qed.
Print Assumptions C10_periodic_history_witness.

