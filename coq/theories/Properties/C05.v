(* C05 — Order elevation preserves geometry and continuity; lowering undoes it.   (PARTIAL, see below)
   Model: Model/Order.v (knot vectors of raise/lower_order, the Greville-interpolation order change through
   the exact self-checking solve of Model/Solve.v). *)
From Coq Require Import List Arith Reals Lra Lia Bool ZArith QArith Permutation.
From SplipyModel Require Import Spec.BSpline Model.Num Model.BasisDef Model.Tensor Model.Obj Model.KnotInsert Model.Solve Model.Order
  Proofs.TensorLemmas Proofs.TensorApply Proofs.OrderProofs Extract.Exec.
Import ListNotations.
Open Scope R_scope.

(* 1. whatever the exact solve returns is a solution of the collocation system (self-checking) *)
Theorem C05_solve_correct (A B X : list (list R)) : solve A B = Ok X -> matmul A X = B.
Proof. exact (solve_is_solution A B X). Qed.
Print Assumptions C05_solve_correct.

(* 2. the elevated knot vector is the sorted merge of the old knots and 'amount' copies of the distinct knots *)
Theorem C05_raise_order_knots_sorted (l : list R) : lsorted (sort_list l) /\ Permutation (sort_list l) l.
Proof. split; [apply sort_list_sorted|apply sort_list_perm]. Qed.
Print Assumptions C05_raise_order_knots_sorted.

(* 3. PARTIAL (named _partial on purpose).  Full statement wanted: raise_order preserves the evaluated map.
      Proved: IF the old row of basis values equals the new row times the order-change matrix (nestedness of
      the spline spaces / degree-elevation theorem, NOT proved; it holds at the Greville points by 1),
      THEN applying the matrix along that direction preserves every coordinate of the evaluation. *)
Theorem C05_raise_order_geometry_partial dim c (M : list (list R)) rows d N' cps :
  (d < length rows)%nat -> (c < dim)%nat -> net_ok dim rows cps -> (0 < prodl (map (@length R) rows))%nat ->
  row_rel (nth d rows []) N' M ->
  tsum (upd rows d N') (cnet dim c (apply_dir dim (map (@length R) rows) d M cps)) = tsum rows (cnet dim c cps).
Proof. exact (order_change_preserves_map_partial dim c M rows d N' cps). Qed.
Print Assumptions C05_raise_order_geometry_partial.

(* non-vacuity, executed on Q: raising a rational quadratic arc by one and lowering it again *)
Example C05_example :
  let b := q_mkBasis 3 [0; 0; 0; 1; 1; 1]%Q 0 in
  let o := q_mkObj [b] [[1;0;1]; [1;1;1]; [0;2;2]]%Q 2 true in
  match q_obj_raise_order (1#10000000000) o [1%nat] with
  | Ok o1 =>
      (match q_obj_eval (1#10000000000) o1 [(1#3)%Q] with Ok v => map Qred v | Err _ => [] end)
      = (match q_obj_eval (1#10000000000) o [(1#3)%Q] with Ok v => map Qred v | Err _ => [] end) /\
      (match q_obj_lower_order (1#10000000000) o1 [1%nat] with
       | Ok o2 => map (map Qred) (o_cps o2) = [[1;0;1]; [1;1;1]; [0;2;2]]%Q /\ b_knots (nth 0 (o_bases o2) b) = [0;0;0;1;1;1]%Q
       | Err _ => False end)
  | Err _ => False
  end.
Proof. vm_compute. repeat split; reflexivity. Qed.
