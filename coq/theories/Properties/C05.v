(* C05 — Order elevation preserves geometry and continuity; lowering undoes it.
   Model: Model/Order.v (knot vectors of raise/lower_order, the Greville-interpolation order change through the
   exact two-sided inverse of Model/Interp.v, which is what np.linalg.inv is modelled by).
   FULL for non-periodic open (clamped) directions, any amount, any pardim/direction, rational or not (the
   change of basis acts on homogeneous control points): theorems 4-8.  PARTIAL for periodic directions
   (theorem 3 is the conditional statement; what is missing there is the periodic analogue of theorem 6). *)
From Coq Require Import List Arith Reals Lra Lia Bool ZArith QArith Permutation.
From SplipyModel Require Import Spec.BSpline Spec.DegreeElev Model.Num Model.BasisDef Model.Tensor Model.Obj Model.KnotInsert Model.Solve Model.Interp Model.Order
  Proofs.TensorLemmas Proofs.TensorApply Proofs.OrderProofs Proofs.LinAlg Proofs.RaiseNested Proofs.OrderRaise Proofs.RaiseAmount Proofs.ObjEval Proofs.RaiseEndToEnd Extract.Exec.
Import ListNotations.
Open Scope R_scope.

(* 1. whatever the exact solve returns is a solution of the collocation system (self-checking) *)
Theorem C05_solve_correct (A B X : list (list R)) : solve A B = Ok X -> matmul A X = B.
Proof. exact (solve_is_solution A B X). Qed.
Print Assumptions C05_solve_correct.

(* 2. the elevated knot vector is the sorted merge of the old knots and 'amount' copies of the distinct knots *)
Theorem C05_raise_order_knots_sorted (l : list R) : lsorted (sort_list l) /\ Permutation (sort_list l) l.
Proof. split; [apply sort_list_sorted|apply sort_list_perm]. Qed.
Print Assumptions C05_raise_order_knots_sorted.

(* 3. PARTIAL (named _partial on purpose).  Full statement wanted: raise_order preserves the evaluated map.
      Proved: IF the old row of basis values equals the new row times the order-change matrix (nestedness of
      the spline spaces / degree-elevation theorem, NOT proved; it holds at the Greville points by 1),
      THEN applying the matrix along that direction preserves every coordinate of the evaluation. *)
Theorem C05_raise_order_geometry_partial dim c (M : list (list R)) rows d N' cps :
  (d < length rows)%nat -> (c < dim)%nat -> net_ok dim rows cps -> (0 < prodl (map (@length R) rows))%nat ->
  row_rel (nth d rows []) N' M ->
  tsum (upd rows d N') (cnet dim c (apply_dir dim (map (@length R) rows) d M cps)) = tsum rows (cnet dim c cps).
Proof. exact (order_change_preserves_map_partial dim c M rows d N' cps). Qed.
Print Assumptions C05_raise_order_geometry_partial.

(* 4. degree elevation (Prautzsch's identity), both one-sided variants, arbitrary multiplicities:
      (q+1) B_k,q,i = sum over j = i..i+q+1 of B_{k with knot j doubled},q+1,i *)
Theorem C05_degree_elevation_identity side q (k : nat -> R) : sorted k -> forall i t,
  INR (q + 1) * B side k q i t = sumf (fun j => B side (dup j k) (S q) i t) i (q + 2).
Proof. exact (prautzsch side q k). Qed.
Print Assumptions C05_degree_elevation_identity.

Section Raise.
Variable l : list R.            (* sorted knot vector *)
Variables (p a : nat) (tol : R).
Hypothesis Hs : lsorted l.
Hypothesis Hp : (1 <= p)%nat.
Hypothesis Hlen : (2 * p <= length l)%nat.
Hypothesis Hopen : open_knots l p.                      (* first p and last p knots equal: clamped *)
Hypothesis Htol : 0 < tol.
Hypothesis Hsep : separated tol l.                      (* distinct knots differ by more than the knot tolerance *)
Hypothesis Hdom : nth 0 l 0 < nth (length l - 1) l 0.   (* start < end *)
Let b := @mkBasis R p l 0.
Let spans := @knot_spans R NumR tol b true.

(* 5. BSplineBasis.raise_order(a): order p+a, non-periodic, knot vector = sorted union of the old knots and a
      copies of every distinct knot value (so every multiplicity, hence every continuity, is unchanged) *)
Theorem C05_raise_order_basis :
  @basis_raise_order R NumR tol b a = mkBasis (p + a) (chain l spans a) 0 /\
  lsorted (chain l spans a) /\ Permutation (chain l spans a) (l ++ repeat_list spans a) /\ (forall x, In x spans <-> In x l).
Proof. split; [exact (raise_order_basis l p a tol Hs)|exact (raise_order_knots l p a tol Hs Hp Hlen Hopen Htol Hsep Hdom)]. Qed.

(* 6. the change of basis that raise_order applies in direction d of any tensor-product object (the other
      directions are arbitrary rows of basis values) leaves every coordinate of the evaluation unchanged, at every
      parameter and for both one-sided variants *)
Theorem C05_raise_order_geometry M dim c side t (rows : list (list R)) d cps :
  @order_change_matrix R NumR tol b (@basis_raise_order R NumR tol b a) = Ok M ->
  (d < length rows)%nat -> (c < dim)%nat -> nth d rows [] = Brow side l p t ->
  net_ok dim rows cps -> (0 < prodl (map (@length R) rows))%nat ->
  coord c (@teval R NumR dim (@upd (list R) rows d (Brow side (chain l spans a) (p + a) t))
                  (@apply_dir R NumR dim (map (@length R) rows) d M cps))
  = coord c (@teval R NumR dim rows cps).
Proof. exact (raise_order_preserves_map l p a tol Hs Hp Hlen Hopen Htol Hsep Hdom M dim c side t rows d cps). Qed.

(* 7. lower_order after raise_order: the matrix of the reverse change of basis is a left inverse, so the control
      points come back exactly *)
Theorem C05_lower_after_raise M M2 : (0 < length l - p)%nat ->
  @order_change_matrix R NumR tol b (@basis_raise_order R NumR tol b a) = Ok M ->
  @order_change_matrix R NumR tol (@basis_raise_order R NumR tol b a) b = Ok M2 ->
  @matmul R NumR M2 M = @ident R NumR (length l - p).
Proof. exact (lower_after_raise_order l p a tol Hs Hp Hlen Hopen Htol Hsep Hdom M M2). Qed.
End Raise.
Print Assumptions C05_raise_order_basis.
Print Assumptions C05_raise_order_geometry.
Print Assumptions C05_lower_after_raise.

(* 8. the generic statement behind 6 (used for any pair of bases with the same domain and knot values in which the
      old functions are combinations of the new ones): the model's order-change matrix is that combination *)
Theorem C05_order_change_unique (l L : list R) (p P : nat) (tol : R) :
  sorted (@kn R NumR l) -> sorted (@kn R NumR L) -> (forall x, In x l <-> In x L) ->
  (1 <= p)%nat -> (1 <= P)%nat -> (2 * p <= length l)%nat -> (2 * P <= length L)%nat -> 0 < tol -> (0 < length L - P)%nat ->
  @kn R NumR L (P - 1) = @kn R NumR l (p - 1) -> @kn R NumR L (length L - P) = @kn R NumR l (length l - p) ->
  (exists C, mat (length L - P) (length l - p) C /\ forall side t i, (i < length l - p)%nat ->
      B side (@kn R NumR l) (p - 1) i t = sumf (fun r => B side (@kn R NumR L) (P - 1) r t * ment C r i) 0 (length L - P)) ->
  forall M, @order_change_matrix R NumR tol (mkBasis p l 0) (mkBasis P L 0) = Ok M ->
  mat (length L - P) (length l - p) M /\ forall side t i, (i < length l - p)%nat ->
      B side (@kn R NumR l) (p - 1) i t = sumf (fun r => B side (@kn R NumR L) (P - 1) r t * ment M r i) 0 (length L - P).
Proof. exact (order_change_is_nested l L p P tol). Qed.
Print Assumptions C05_order_change_unique.

(* 9. END TO END on the model's own functions (the ones the correspondence run compares with SplineObject.raise_order
      and SplineObject.evaluate): for every well-formed object whose directions are all non-periodic, clamped, with
      knots separated by more than the tolerance (any pardim, rational or not), every list of amounts (zeros
      included) and every parameter tuple of the domain: if raise_order returns an object, evaluating it gives exactly
      what evaluating the original gives. *)
Theorem C05_raise_then_evaluate tol (o o' : obj R) (raises : list nat) (ts : list R) :
  0 < tol -> wf_obj_R tol o -> length raises = length (o_bases o) ->
  (forall i, (i < length (o_bases o))%nat -> good_dir tol (nth i (o_bases o) dflt_basis)) ->
  (forall i, (i < length (o_bases o))%nat -> in_dom tol (nth i (o_bases o) dflt_basis) (nth i ts 0)) ->
  @obj_raise_order R NumR tol o raises = Ok o' ->
  @obj_eval R NumR tol o' ts = @obj_eval R NumR tol o ts.
Proof. intros Htol. exact (raise_order_eval tol Htol ts o o' raises). Qed.
Print Assumptions C05_raise_then_evaluate.

(* the hypotheses of 5-7 are satisfiable: a clamped cubic knot vector with a double interior knot *)
Example C05_hyps_example :
  let l := [0; 0; 0; 0; 1; 2; 2; 3; 3; 3; 3] in
  lsorted l /\ open_knots l 4 /\ separated (1/1000) l /\ nth 0 l 0 < nth (length l - 1) l 0 /\ (2 * 4 <= length l)%nat.
Proof.
  cbv zeta. split; [repeat (constructor; try lra)|]. split.
  - split; intros i Hi; do 4 (destruct i as [|i]; [cbn; reflexivity|]); lia.
  - split; [|split; [cbn; lra|cbn; lia]].
    intros y z Hy Hz. cbn [In] in Hy, Hz.
    assert (Hy' : y = 0 \/ y = 1 \/ y = 2 \/ y = 3) by (intuition lra).
    assert (Hz' : z = 0 \/ z = 1 \/ z = 2 \/ z = 3) by (intuition lra).
    clear Hy Hz.
    destruct Hy' as [-> | [-> | [-> | ->]]]; destruct Hz' as [-> | [-> | [-> | ->]]];
      first [left; reflexivity | right; unfold Rabs; destruct (Rcase_abs _); lra].
Qed.

(* non-vacuity, executed on Q: raising a rational quadratic arc by one and lowering it again *)
Example C05_example :
  let b := q_mkBasis 3 [0; 0; 0; 1; 1; 1]%Q 0 in
  let o := q_mkObj [b] [[1;0;1]; [1;1;1]; [0;2;2]]%Q 2 true in
  match q_obj_raise_order (1#10000000000) o [1%nat] with
  | Ok o1 =>
      (match q_obj_eval (1#10000000000) o1 [(1#3)%Q] with Ok v => map Qred v | Err _ => [] end)
      = (match q_obj_eval (1#10000000000) o [(1#3)%Q] with Ok v => map Qred v | Err _ => [] end) /\
      (match q_obj_lower_order (1#10000000000) o1 [1%nat] with
       | Ok o2 => map (map Qred) (o_cps o2) = [[1;0;1]; [1;1;1]; [0;2;2]]%Q /\ b_knots (nth 0 (o_bases o2) b) = [0;0;0;1;1;1]%Q
       | Err _ => False end)
  | Err _ => False
  end.
Proof. vm_compute. repeat split; reflexivity. Qed.

(* ------------------------------------------------------------------------------------------------------
   Added in build session 4 (statements re-stated from the proof files by harness tooling; each is closed by
   exact). *)
From SplipyModel Require Import Transfer.ParamObj Transfer.ParamOps Transfer.ParamOps2 Model.LowerOrder Proofs.LowerOrderProofs.
Open Scope R_scope.
Theorem C05_executed_is_proved_raise :
  forall (tol : Q) (o : obj Q) (raises : list nat),
         resmap objQ2R (obj_raise_order tol o raises) = obj_raise_order (Q2R tol) (objQ2R o) raises.
Proof. exact @obj_raise_order_transfer. Qed.
Print Assumptions C05_executed_is_proved_raise.

Theorem C05_executed_is_proved_lower :
  forall (tol : Q) (o : obj Q) (lowers : list nat),
         resmap objQ2R (obj_lower_order tol o lowers) = obj_lower_order (Q2R tol) (objQ2R o) lowers.
Proof. exact @obj_lower_order_transfer. Qed.
Print Assumptions C05_executed_is_proved_lower.

Theorem C05_executed_is_proved_basis_raise :
  forall (tol : Q) (b : basis Q) (amount : nat),
         basisQ2R (basis_raise_order tol b amount) = basis_raise_order (Q2R tol) (basisQ2R b) amount.
Proof. exact @basis_raise_order_transfer. Qed.
Print Assumptions C05_executed_is_proved_basis_raise.

Theorem C05_raise_order_multiplicities :
  forall (tol : R) (p : nat) (l : list R) (a : nat),
         0 <= tol ->
         lsorted l ->
         l <> [] ->
         separated tol l ->
         let b' := basis_raise_order tol {| b_order := p; b_knots := l; b_per1 := 0 |} a in
         b_order b' = (p + a)%nat /\
         b_per1 b' = 0%nat /\
         lsorted (b_knots b') /\
         (forall x : R, In x (b_knots b') <-> In x l) /\
         (forall x : R, In x l -> SplitCompose.mult (b_knots b') x = (SplitCompose.mult l x + a)%nat) /\
         (forall x : R, ~ In x l -> SplitCompose.mult (b_knots b') x = 0%nat) /\
         length (b_knots b') =
         (length l + a * length (knot_spans tol {| b_order := p; b_knots := l; b_per1 := 0 |} true))%nat.
Proof. exact @raise_order_mults. Qed.
Print Assumptions C05_raise_order_multiplicities.

Theorem C05_raise_order_keeps_continuity :
  forall (tol : R) (p : nat) (l : list R) (a : nat) (x : R),
         0 < tol ->
         lsorted l ->
         (1 <= p)%nat ->
         (2 * p <= length l)%nat ->
         open_knots l p ->
         separated tol l ->
         In x l ->
         Tol.basis_continuity tol {| b_order := p; b_knots := l; b_per1 := 0 |} x =
         Ok (Some (Z.of_nat p - Z.of_nat (SplitCompose.mult l x) - 1)%Z) /\
         Tol.basis_continuity tol (basis_raise_order tol {| b_order := p; b_knots := l; b_per1 := 0 |} a) x =
         Ok (Some (Z.of_nat p - Z.of_nat (SplitCompose.mult l x) - 1)%Z).
Proof. exact @raise_order_continuity. Qed.
Print Assumptions C05_raise_order_keeps_continuity.

Theorem C05_lower_order_knots :
  forall (tol : R) (p : nat) (l : list R) (a : nat),
         0 < tol ->
         lsorted l ->
         l <> [] ->
         separated tol l ->
         IdenticalEndToEnd.clamped l p ->
         (2 <= p - a)%nat ->
         basis_lower_order tol {| b_order := p; b_knots := l; b_per1 := 0 |} a =
         Ok
           {|
             b_order := p - a;
             b_knots :=
               flat_map (fun x : R => repeat x (Nat.max (SplitCompose.mult l x - a) 1))
                 (knot_spans tol {| b_order := p; b_knots := l; b_per1 := 0 |} true);
             b_per1 := 0
           |}.
Proof. exact @lower_order_knots. Qed.
Print Assumptions C05_lower_order_knots.

Theorem C05_lower_order_multiplicities :
  forall (tol : R) (p : nat) (l : list R) (a : nat),
         0 < tol ->
         lsorted l ->
         l <> [] ->
         separated tol l ->
         IdenticalEndToEnd.clamped l p ->
         (2 <= p - a)%nat ->
         exists K : list R,
           basis_lower_order tol {| b_order := p; b_knots := l; b_per1 := 0 |} a =
           Ok {| b_order := p - a; b_knots := K; b_per1 := 0 |} /\
           lsorted K /\
           (forall x : R, In x K <-> In x l) /\
           (forall x : R, In x l -> SplitCompose.mult K x = Nat.max (SplitCompose.mult l x - a) 1) /\
           (forall x : R, ~ In x l -> SplitCompose.mult K x = 0%nat).
Proof. exact @lower_order_mults. Qed.
Print Assumptions C05_lower_order_multiplicities.

Theorem C05_lower_after_raise_basis :
  forall (tol : R) (p : nat) (l : list R) (a : nat),
         0 < tol ->
         lsorted l ->
         (2 <= p)%nat ->
         (2 * p <= length l)%nat ->
         open_knots l p ->
         separated tol l ->
         basis_lower_order tol (basis_raise_order tol {| b_order := p; b_knots := l; b_per1 := 0 |} a) a =
         Ok {| b_order := p; b_knots := l; b_per1 := 0 |}.
Proof. exact @lower_after_raise_basis. Qed.
Print Assumptions C05_lower_after_raise_basis.

Theorem C05_lower_order_too_low :
  forall (tol : R) (b : basis R) (a : nat),
         (b_order b - a < 2)%nat -> basis_lower_order tol b a = Err ValueError.
Proof. exact @lower_order_too_low. Qed.
Print Assumptions C05_lower_order_too_low.

Theorem C05_lower_after_raise_order1_refuted :
  forall (tol : R) (b : basis R) (a : nat),
         b_order b = 1%nat -> basis_lower_order tol (basis_raise_order tol b a) a = Err ValueError.
Proof. exact @lower_after_raise_order1_refuted. Qed.
Print Assumptions C05_lower_after_raise_order1_refuted.

Theorem C05_lower_order_unclamped :
  forall (tol : R) (p : nat) (l : list R) (a : nat),
         (2 <= p - a)%nat ->
         kn l 0 < kn l (p - 1) ->
         basis_lower_order tol {| b_order := p; b_knots := l; b_per1 := 0 |} a = Err ValueError.
Proof. exact @lower_order_unclamped. Qed.
Print Assumptions C05_lower_order_unclamped.

Theorem C05_lower_order_periodic_error :
  forall (tol : R) (b : basis R) (a : nat),
         b_per1 b <> 0%nat -> exists e : err, basis_lower_order tol b a = Err e.
Proof. exact @lower_order_periodic_error. Qed.
Print Assumptions C05_lower_order_periodic_error.

Theorem C05_lower_after_raise_periodic_refuted :
  forall (tol : R) (b : basis R) (a : nat),
         b_per1 b <> 0%nat -> basis_lower_order tol (basis_raise_order tol b a) a <> Ok b.
Proof. exact @lower_after_raise_periodic_refuted. Qed.
Print Assumptions C05_lower_after_raise_periodic_refuted.

