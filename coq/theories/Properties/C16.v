(* C16 — Lengths, areas, volumes, centres and curvatures are representation independent.
   Model: Model/Measure.v (BSplineBasis.integrate, SplineObject.center, exact); the Gauss-Legendre based
   length/area/volume involve irrational nodes and square roots and are compared at the implementation level only. *)
From Coq Require Import List Arith Reals Lra Lia Bool ZArith QArith Qreals.
From Coquelicot Require Import Coquelicot.
From SplipyModel Require Import Spec.BSpline Spec.Deriv Model.Num Model.Obj Model.Measure Gen.RotationMatrix
  Proofs.AffineProofs Proofs.MeasureProofs Extract.Exec.
Import ListNotations.
Open Scope R_scope.

(* 1. the formula of BSplineBasis.integrate: F_i(t) = (k_{i+q+1} - k_i)/(q+1) * sum_{j>=i} B_{j,q+1}(t) is an
      antiderivative of B_{i,q}: its derivative recurrence telescopes to B_{i,q}(t), and inside every open knot
      span that recurrence is the analytic derivative (integrate returns F_i(t1) - F_i(t0)) *)
Theorem C16_antiderivative_formula side (k : nat -> R) q t m i : k i < k (i + S q)%nat -> B side k q (i + S m) t = 0 ->
  (k (i + S q)%nat - k i) / INR (S q) * sumf (fun j => dB side k 1 (S q) j t) i (S m) = B side k q i t.
Proof. exact (antiderivative_formula side k q t m i). Qed.
Print Assumptions C16_antiderivative_formula.
Theorem C16_antiderivative_is_derivative (k : nat -> R) q t m0 : sorted k -> k m0 < t < k (S m0) ->
  forall m i, is_derive (fun s => sumf (fun j => B true k (S q) j s) i m) t (sumf (fun j => dB true k 1 (S q) j t) i m).
Proof. intros Hk. exact (antiderivative_is_derive k Hk q t m0). Qed.
Print Assumptions C16_antiderivative_is_derivative.

(* 2. the Frenet vectors tangent = v/|v|, binormal = (v x a)/|v x a|, normal = binormal x tangent are orthonormal *)
Theorem C16_frenet_orthonormal (v0 v1 v2 a0 a1 a2 nv nw : R) :
  let w0 := v1 * a2 - v2 * a1 in let w1 := v2 * a0 - v0 * a2 in let w2 := v0 * a1 - v1 * a0 in
  nv * nv = v0 * v0 + v1 * v1 + v2 * v2 -> nw * nw = w0 * w0 + w1 * w1 + w2 * w2 -> nv <> 0 -> nw <> 0 ->
  let T0 := v0 / nv in let T1 := v1 / nv in let T2 := v2 / nv in
  let B0 := w0 / nw in let B1 := w1 / nw in let B2 := w2 / nw in
  let N0 := B1 * T2 - B2 * T1 in let N1 := B2 * T0 - B0 * T2 in let N2 := B0 * T1 - B1 * T0 in
  T0 * T0 + T1 * T1 + T2 * T2 = 1 /\ B0 * B0 + B1 * B1 + B2 * B2 = 1 /\ N0 * N0 + N1 * N1 + N2 * N2 = 1 /\
  T0 * B0 + T1 * B1 + T2 * B2 = 0 /\ T0 * N0 + T1 * N1 + T2 * N2 = 0 /\ B0 * N0 + B1 * N1 + B2 * N2 = 0.
Proof. cbv zeta. intros H1 H2 H3 H4. exact (frenet_orthonormal v0 v1 v2 a0 a1 a2 nv nw H1 H2 H3 H4). Qed.
Print Assumptions C16_frenet_orthonormal.

(* 3. rigid motions keep, and uniform scalings scale by the proper power, the integrands of length, area and
      volume at every quadrature point (the quadrature points themselves do not move), hence the computed
      numbers; the rotation matrix is the one regenerated from the current source *)
Theorem C16_rotation_keeps_length a b c d (x y z : R) : a * a + b * b + c * c + d * d = 1 ->
  let M := @rotmat R NumR a b c d in
  let X := x * ent M 0 0 + y * ent M 1 0 + z * ent M 2 0 in
  let Y := x * ent M 0 1 + y * ent M 1 1 + z * ent M 2 1 in
  let Z := x * ent M 0 2 + y * ent M 1 2 + z * ent M 2 2 in
  X * X + Y * Y + Z * Z = x * x + y * y + z * z.
Proof. exact (rotation_keeps_length a b c d x y z). Qed.
Print Assumptions C16_rotation_keeps_length.
Theorem C16_scaling_laws s (u0 u1 u2 v0 v1 v2 w0 w1 w2 : R) :
  (s * u0) * (s * u0) + (s * u1) * (s * u1) + (s * u2) * (s * u2) = s * s * (u0 * u0 + u1 * u1 + u2 * u2) /\
  (let cx := fun (a1 a2 b1 b2 : R) => a1 * b2 - a2 * b1 in
   cx (s * u1) (s * u2) (s * v1) (s * v2) = s * s * cx u1 u2 v1 v2) /\
  (s * u0) * ((s * v1) * (s * w2) - (s * v2) * (s * w1)) - (s * u1) * ((s * v0) * (s * w2) - (s * v2) * (s * w0))
    + (s * u2) * ((s * v0) * (s * w1) - (s * v1) * (s * w0))
  = s * s * s * (u0 * (v1 * w2 - v2 * w1) - u1 * (v0 * w2 - v2 * w0) + u2 * (v0 * w1 - v1 * w0)).
Proof. exact (scaling_laws s u0 u1 u2 v0 v1 v2 w0 w1 w2). Qed.
Print Assumptions C16_scaling_laws.
Theorem C16_curvature_scaling s nv nw : s <> 0 -> nv <> 0 ->
  ((s * s * nw) * (s * s * nw)) / ((s * nv) * (s * nv) * ((s * nv) * (s * nv)) * ((s * nv) * (s * nv))) = (nw * nw) / (nv * nv * (nv * nv) * (nv * nv)) / (s * s).
Proof. exact (curvature_scaling s nv nw). Qed.
Print Assumptions C16_curvature_scaling.
Theorem C16_torsion_scaling s num nw2 : s <> 0 -> nw2 <> 0 ->
  (s * s * s * num) / (s * s * (s * s) * nw2) = num / nw2 / s.
Proof. exact (torsion_scaling s num nw2). Qed.
Print Assumptions C16_torsion_scaling.

(* non-vacuity: exact basis integrals of a quadratic basis sum to the length of the interval; centre of a segment *)
Example C16_example :
  let b := q_mkBasis 3 [0; 0; 0; 1; 2; 2; 2]%Q 0 in
  map Qred (q_basis_integrate (1#10000000000) b 0 2) = [(1#3); (2#3); (2#3); (1#3)]%Q /\
  map Qred (q_obj_center (1#10000000000) (q_mkObj [q_mkBasis 2 [0; 0; 1; 1]%Q 0] [[0; 0]; [2; 4]]%Q 2 false)) = [1; 2]%Q.
Proof. vm_compute. split; reflexivity. Qed.

(* ------------------------------------------------------------------------------------------------------
   Added in build session 4 (statements re-stated from the proof files by harness tooling; each is closed by
   exact). *)
From Coquelicot Require Import Coquelicot.
From SplipyModel Require Import Proofs.ObjEval Proofs.IntegrateFTC Model.Handed Model.Frenet Proofs.FrenetProofs.
Open Scope R_scope.
Theorem C16_integral_of_basis_function :
  forall k : nat -> R,
         BSpline.sorted k ->
         forall (q i M : nat) (a b : R),
         a < b ->
         b <= k (i + M)%nat -> is_RInt (fun t : R => B true k q i t) a b (Aint k false q i M b - Aint k true q i M a).
Proof. exact @B_RInt_gen. Qed.
Print Assumptions C16_integral_of_basis_function.

Theorem C16_antiderivative_never_jumps :
  forall k : nat -> R,
         BSpline.sorted k ->
         forall (q i M : nat) (x : R), x < k (i + M)%nat -> Aint k true q i M x = Aint k false q i M x.
Proof. exact @Aint_continuous_gen. Qed.
Print Assumptions C16_antiderivative_never_jumps.

Theorem C16_integral_inside_domain :
  forall k : nat -> R,
         BSpline.sorted k ->
         forall (q i M : nat) (a b : R),
         k (S q) <= a ->
         a < b ->
         b <= k (i + M)%nat -> is_RInt (fun t : R => B true k q i t) a b (Aint k false q i M b - Aint k true q i M a).
Proof. exact @B_RInt. Qed.
Print Assumptions C16_integral_inside_domain.

Theorem C16_integral_over_support :
  forall k : nat -> R,
         BSpline.sorted k ->
         forall q i : nat,
         k (S q) <= k i ->
         k i < k (i + S q)%nat ->
         is_RInt (fun t : R => B true k q i t) (k i) (k (i + S q)%nat) ((k (i + S q)%nat - k i) / INR (S q)).
Proof. exact @B_RInt_support. Qed.
Print Assumptions C16_integral_over_support.

Theorem C16_integrals_sum_to_length :
  forall k : nat -> R,
         BSpline.sorted k ->
         forall (q N : nat) (a c : R),
         k (S q) <= a ->
         a < c -> c <= k N -> sumf (fun i : nat => Aint k false q i (N - i) c - Aint k true q i (N - i) a) 0 N = c - a.
Proof. exact @B_RInt_sum. Qed.
Print Assumptions C16_integrals_sum_to_length.

Theorem C16_basis_integrate_is_integral_snapped :
  forall (tol : R) (b : basis R),
         wf_basis_R tol b ->
         b_per1 b = 0%nat ->
         0 < tol ->
         forall (t0 t1 : R) (i : nat),
         let a := sn tol b (clamp_lo b t0) in
         let c := sn tol b (clamp_hi b t1) in
         b_start b <= a <= b_end b ->
         b_start b <= c <= b_end b ->
         (i < length (b_knots b) - b_order b)%nat ->
         is_RInt (fun t : R => B true (BasisDef.kn (b_knots b)) (b_order b - 1) i t) a c
           (nth i (basis_integrate tol b t0 t1) 0).
Proof. exact @basis_integrate_is_RInt_snapped. Qed.
Print Assumptions C16_basis_integrate_is_integral_snapped.

Theorem C16_basis_integrate_is_integral :
  forall (tol : R) (b : basis R),
         wf_basis_R tol b ->
         b_per1 b = 0%nat ->
         0 < tol ->
         forall (t0 t1 : R) (i : nat),
         b_start b <= t0 <= b_end b ->
         b_start b <= t1 <= b_end b ->
         sn tol b t0 = t0 ->
         sn tol b t1 = t1 ->
         (i < length (b_knots b) - b_order b)%nat ->
         is_RInt (fun t : R => B true (BasisDef.kn (b_knots b)) (b_order b - 1) i t) t0 t1
           (nth i (basis_integrate tol b t0 t1) 0).
Proof. exact @basis_integrate_is_RInt. Qed.
Print Assumptions C16_basis_integrate_is_integral.

Theorem C16_basis_integrate_RInt :
  forall (tol : R) (b : basis R),
         wf_basis_R tol b ->
         b_per1 b = 0%nat ->
         0 < tol ->
         forall (t0 t1 : R) (i : nat),
         b_start b <= t0 <= b_end b ->
         b_start b <= t1 <= b_end b ->
         sn tol b t0 = t0 ->
         sn tol b t1 = t1 ->
         (i < length (b_knots b) - b_order b)%nat ->
         nth i (basis_integrate tol b t0 t1) 0 =
         RInt (fun t : R => B true (BasisDef.kn (b_knots b)) (b_order b - 1) i t) t0 t1.
Proof. exact @basis_integrate_RInt. Qed.
Print Assumptions C16_basis_integrate_RInt.

Theorem C16_basis_integrate_length :
  forall (tol : R) (b : basis R),
         wf_basis_R tol b ->
         b_per1 b = 0%nat ->
         0 < tol ->
         forall t0 t1 : R,
         b_start b <= sn tol b (clamp_lo b t0) <= b_end b ->
         length (basis_integrate tol b t0 t1) = (length (b_knots b) - b_order b)%nat.
Proof. exact @basis_integrate_length. Qed.
Print Assumptions C16_basis_integrate_length.

Theorem C16_integral_hypotheses_satisfiable :
  forall i : nat,
         (i < 6)%nat ->
         is_RInt (fun t : R => B true (BasisDef.kn [0; 0; 0; 1; 1; 1; 2; 2; 2]) 2 i t) (1 / 2) 
           (3 / 2) (nth i (basis_integrate (1 / 100) ex_b3m (1 / 2) (3 / 2)) 0).
Proof. exact @ex_model_RInt_multiple. Qed.
Print Assumptions C16_integral_hypotheses_satisfiable.

Theorem C16_frenet_regular :
  forall dx ddx : list R,
         0 < dot3 dx dx ->
         0 < dot3 (cross3 dx ddx) (cross3 dx ddx) ->
         frenet_T dx = HandedProofs.unit3 dx /\
         frenet_B dx ddx = HandedProofs.unit3 (cross3 dx ddx) /\
         frenet_N dx ddx = cross3 (HandedProofs.unit3 (cross3 dx ddx)) (HandedProofs.unit3 dx) /\
         orthonormal_rh (frenet_T dx) (frenet_N dx ddx) (frenet_B dx ddx).
Proof. exact @frenet_regular. Qed.
Print Assumptions C16_frenet_regular.

Theorem C16_helper_choice_not_parallel :
  forall dx : list R, 0 < dot3 dx dx -> 0 < dot3 (cross3 dx (helper_choice dx)) (cross3 dx (helper_choice dx)).
Proof. exact @helper_choice_not_parallel. Qed.
Print Assumptions C16_helper_choice_not_parallel.

Theorem C16_frenet_straight :
  forall dx ddx : list R,
         0 < dot3 dx dx ->
         vzero3 ddx ->
         0 < dot3 (binormal_dir dx ddx) (binormal_dir dx ddx) /\
         orthonormal_rh (frenet_T dx) (frenet_N dx ddx) (frenet_B dx ddx).
Proof. exact @frenet_straight. Qed.
Print Assumptions C16_frenet_straight.

Theorem C16_frenet_frame_orthonormal_both_cases :
  forall dx ddx : list R,
         0 < dot3 dx dx ->
         vzero3 ddx \/ 0 < dot3 (cross3 dx ddx) (cross3 dx ddx) ->
         orthonormal_rh (frenet_T dx) (frenet_N dx ddx) (frenet_B dx ddx).
Proof. exact @frenet_orthonormal. Qed.
Print Assumptions C16_frenet_frame_orthonormal_both_cases.

Theorem C16_frenet_collinear_degenerate :
  forall (dx : list R) (k : R),
         k <> 0 ->
         0 < dot3 dx dx ->
         let ddx := map (fun x : R => k * x) [vc dx 0; vc dx 1; vc dx 2] in
         ~ vzero3 ddx /\ binormal_dir dx ddx = [0; 0; 0].
Proof. exact @frenet_collinear_degenerate. Qed.
Print Assumptions C16_frenet_collinear_degenerate.

Theorem C16_frenet_pointwise :
  forall (pts pts' : list (list R * list R)) (i j : nat) (d : list R * list R * list R),
         (i < length pts)%nat ->
         (j < length pts')%nat ->
         nth i pts ([], []) = nth j pts' ([], []) ->
         nth i (frenet_frames pts) d = nth j (frenet_frames pts') d /\
         nth i (frenet_frames pts) d = frenet_frame (fst (nth i pts ([], []))) (snd (nth i pts ([], []))).
Proof. exact @frenet_pointwise. Qed.
Print Assumptions C16_frenet_pointwise.

Theorem C16_single_choice_wrong :
  binormal_dir_fixed [0; 0; 1] [0; 0; 1] [0; 0; 0] = [0; 0; 0] /\
         HandedProofs.norm3 (binormal_dir_fixed [0; 0; 1] [0; 0; 1] [0; 0; 0]) = 0 /\
         binormal_dir [0; 0; 1] [0; 0; 0] = [0; 1; 0].
Proof. exact @single_choice_wrong. Qed.
Print Assumptions C16_single_choice_wrong.

Theorem C16_no_global_helper :
  forall h : list R,
         exists dx : list R,
           0 < dot3 dx dx /\ dot3 (binormal_dir_fixed h dx [0; 0; 0]) (binormal_dir_fixed h dx [0; 0; 0]) = 0.
Proof. exact @no_global_helper. Qed.
Print Assumptions C16_no_global_helper.

Theorem C16_frenet_Q_binormal :
  binormal_dirs polyline_pts = [q3 0 2 0; q3 1 (-1) 0].
Proof. exact @frenet_Q_binormal. Qed.
Print Assumptions C16_frenet_Q_binormal.

