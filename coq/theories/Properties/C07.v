(* C07 — Splitting yields exact restrictions tiling the object; appending re-joins them.
   Model: Model/Split.v (transcription of SplineObject.split incl. the periodic roll, BSplineBasis.roll). *)
From Coq Require Import List Arith Reals Lra Lia Bool ZArith QArith.
From SplipyModel Require Import Spec.BSpline Spec.Join Model.Num Model.BasisDef Model.Tensor Model.Obj Model.KnotInsert Model.Split Model.Append
  Proofs.TensorLemmas Proofs.TensorApply Proofs.SplitProofs Proofs.AppendProofs Extract.Exec.
Import ListNotations.
Open Scope R_scope.

(* 1. restriction at basis level: on the domain [k(a+q), k(a+m)] of a piece that keeps the knots a .. a+m+q,
      the full row of basis values is the piece's row placed at columns a .. a+m-1 (everything else vanishes);
      both one-sided variants, any knot multiplicities *)
Theorem C07_restriction (side : bool) (k : nat -> R) : sorted k -> forall q n a m t, (a + m <= n)%nat ->
  (if side then k (a + q)%nat <= t < k (a + m)%nat else k (a + q)%nat < t <= k (a + m)%nat) ->
  row_rel (Nfull side k q n t) (Npiece side k q a m t) (slice_matrix n a m).
Proof. intros Hk q n a m t Ham Ht. exact (row_rel_slice side k Hk q n a m t Ham Ht). Qed.
Print Assumptions C07_restriction.

(* 2. object level, any pardim and direction: the sliced control net with the piece's own basis evaluates,
      coordinate by coordinate, to the original object at every parameter of the piece's domain *)
Theorem C07_split_piece_is_restriction (side : bool) (k : nat -> R) : sorted k -> forall q n a m t, (a + m <= n)%nat ->
  (if side then k (a + q)%nat <= t < k (a + m)%nat else k (a + q)%nat < t <= k (a + m)%nat) ->
  forall dim c (rows : list (list R)) d cps,
  (d < length rows)%nat -> (c < dim)%nat -> nth d rows [] = Nfull side k q n t ->
  net_ok dim rows cps -> (0 < prodl (map (@length R) rows))%nat ->
  tsum (upd rows d (Npiece side k q a m t)) (cnet dim c (apply_dir dim (map (@length R) rows) d (slice_matrix n a m) cps))
  = tsum rows (cnet dim c cps).
Proof. intros Hk q n a m t Ham Ht. exact (split_piece_is_restriction side k Hk q n a m t Ham Ht). Qed.
Print Assumptions C07_split_piece_is_restriction.

(* 3. joining at a C0 knot (the converse of 1): if K has q copies of e at the indices J+1 .. J+q, the spline over K
      with coefficients c is, left of e, the spline over K1 (K up to index J+q, then e) with c_0 .. c_J, and, right of
      e, the spline over K2 (e, then K from index J+1 on) with c_J, c_{J+1}, ...; both one-sided variants *)
Theorem C07_join (side : bool) (K : nat -> R) (q J : nat) (e : R) (c : nat -> R) n t : sorted K -> (1 <= q)%nat ->
  (forall m, (1 <= m <= q)%nat -> K (J + m)%nat = e) -> (J < n)%nat ->
  (left_of side e t -> sumf (fun i => c i * B side K q i t) 0 n = sumf (fun i => c i * B side (K1 K q J e) q i t) 0 (S J)) /\
  (right_of side e t -> sumf (fun i => c i * B side K q i t) 0 n = sumf (fun m => c (J + m)%nat * B side (K2 K J e) q m t) 0 (n - J)).
Proof. intros HK Hq He Hn. split; [exact (join_left side K HK q J e Hq He c n t Hn)|exact (join_right side K HK q J e Hq He c n t Hn)]. Qed.
Print Assumptions C07_join.

(* 4. Curve.append: with the knot vector the model (and the code) builds from two clamped knot vectors of the same
      order p >= 2 and the control net c1 ++ tl c2, the joined curve is the first curve left of the junction and the
      second curve (parameter shifted by end1 - start2) right of it, provided they share the junction control point.
      Coordinate by coordinate, hence for rational curves in homogeneous form too. *)
Theorem C07_append (k1 k2 : list R) (p : nat) (c1 c2 : list R) (side : bool) (t : R) :
  (2 <= p)%nat -> sorted (@kn R NumR k1) -> sorted (@kn R NumR k2) -> (2 * p <= length k1)%nat -> (2 * p <= length k2)%nat ->
  (forall i, (i < p)%nat -> nth (length k1 - 1 - i) k1 0 = last k1 0) -> (forall i, (i < p)%nat -> nth i k2 0 = hd 0 k2) ->
  length c1 = (length k1 - p)%nat -> length c2 = (length k2 - p)%nat -> nth (length k1 - p - 1) c1 0 = nth 0 c2 0 ->
  let K := @append_knots R NumR p k1 k2 in let n := (length k1 - p + (length k2 - p) - 1)%nat in
  (left_of side (last k1 0) t ->
     sumf (fun i => nth i (c1 ++ tl c2) 0 * B side (@kn R NumR K) (p - 1) i t) 0 n
     = sumf (fun i => nth i c1 0 * B side (@kn R NumR k1) (p - 1) i t) 0 (length k1 - p)) /\
  (right_of side (last k1 0) t ->
     sumf (fun i => nth i (c1 ++ tl c2) 0 * B side (@kn R NumR K) (p - 1) i t) 0 n
     = sumf (fun m => nth m c2 0 * B side (@kn R NumR k2) (p - 1) m (t - last k1 0 + hd 0 k2)) 0 (length k2 - p)).
Proof.
  intros Hp S1 S2 L1 L2 He Hs Hc1 Hc2 Hj. cbv zeta. split.
  - exact (append_left k1 k2 p Hp S1 S2 L1 L2 He Hs c1 c2 Hc1 Hc2 side t).
  - exact (append_right k1 k2 p Hp S1 S2 L1 L2 He Hs c1 c2 Hc1 Hc2 Hj side t).
Qed.
Print Assumptions C07_append.

(* PARTIAL: that split() cuts exactly at knots of multiplicity 'order' (via C04 insertion), the tiling of the
   domain, the periodic branch (roll) and the order/rationality unification inside append (C05, C09) are covered by the transcription + correspondence (L1) and by
   the statement evaluated on the implementation (L2) only. *)

(* non-vacuity, executed on Q: splitting a rational quadratic curve at a new point gives two pieces that
   evaluate to the original *)
Example C07_example :
  let b := q_mkBasis 3 [0; 0; 0; 1; 2; 2; 2]%Q 0 in
  let o := q_mkObj [b] [[0;0;1]; [2;2;2]; [3;1;1]; [8;0;2]]%Q 2 true in
  match q_obj_split (1#10000000000) o 0 [(1#2)%Q] with
  | Ok [p1; p2] =>
      b_knots (nth 0 (o_bases p1) b) = [0; 0; 0; 1#2; 1#2; 1#2]%Q /\
      map Qred (b_knots (nth 0 (o_bases p2) b)) = [1#2; 1#2; 1#2; 1; 2; 2; 2]%Q /\
      (match q_obj_eval (1#10000000000) p2 [(3#2)%Q] with Ok v => map Qred v | Err _ => [] end)
      = (match q_obj_eval (1#10000000000) o [(3#2)%Q] with Ok v => map Qred v | Err _ => [] end)
  | _ => False
  end.
Proof. vm_compute. repeat split; reflexivity. Qed.

(* ------------------------------------------------------------------------------------------------------
   Added in build session 4 (statements re-stated from the proof files by harness tooling; each is closed by
   exact). *)
From SplipyModel Require Import Proofs.ObjEval Proofs.SplitTiling Proofs.RestrictDirEval Proofs.SplitEndToEnd Proofs.SplitCompose Transfer.ParamObj Transfer.ParamOps Transfer.ParamOps2 Proofs.PeriodicInsert Proofs.PeriodicSplit.
Open Scope R_scope.
Theorem C07_split_insert_spec :
  forall (tol : R) (o : obj R) (d p : nat) (k ks : list R),
         split_hyps tol o d p k ks ->
         exists (so : obj R) (kf : list R),
           split_insert tol {| b_order := p; b_knots := k; b_per1 := 0 |} o d ks = Ok so /\
           wf_obj_R tol so /\
           length (o_bases so) = length (o_bases o) /\
           (forall i : nat, i <> d -> nth i (o_bases so) dflt_basis = nth i (o_bases o) dflt_basis) /\
           nth d (o_bases so) dflt_basis = {| b_order := p; b_knots := kf; b_per1 := 0 |} /\
           sorted (kn kf) /\
           st p kf = st p k /\
           en p kf = en p k /\
           Permutation.Permutation kf (ins_list p k ks ++ k) /\
           (forall v : R, In v kf <-> In v k \/ In v ks) /\
           (forall v : R, ~ In v ks -> mult kf v = mult k v) /\
           Forall (fun x : R => mult kf x = p) ks /\
           Forall (mult_p p kf) ks /\
           (forall ts : list R,
            dom_all tol o ts ->
            Forall (fun x : R => param_ok tol k x (nth d ts 0)) ks -> obj_eval tol so ts = obj_eval tol o ts).
Proof. exact @split_insert_spec. Qed.
Print Assumptions C07_split_insert_spec.

Theorem C07_split_succeeds :
  forall (tol : R) (o : obj R) (d p : nat) (k ks : list R),
         split_hyps tol o d p k ks ->
         forall fuel : nat, (1 <= fuel)%nat -> exists pieces : list (obj R), obj_split fuel tol o d ks = Ok pieces.
Proof. exact @obj_split_ok. Qed.
Print Assumptions C07_split_succeeds.

Theorem C07_split_count :
  forall (tol : R) (o : obj R) (d p : nat) (k ks : list R),
         split_hyps tol o d p k ks ->
         forall (fuel : nat) (pieces : list (obj R)),
         obj_split fuel tol o d ks = Ok pieces -> length pieces = S (length ks).
Proof. exact @split_length. Qed.
Print Assumptions C07_split_count.

Theorem C07_split_tiling :
  forall (tol : R) (o : obj R) (d p : nat) (k ks : list R),
         split_hyps tol o d p k ks ->
         forall (fuel : nat) (pieces : list (obj R)),
         obj_split fuel tol o d ks = Ok pieces ->
         forall j : nat,
         (j <= length ks)%nat ->
         let pj := nth j pieces o in
         let bj := nth d (o_bases pj) dflt_basis in
         wf_obj_R tol pj /\
         length (o_bases pj) = length (o_bases o) /\
         (forall i : nat, i <> d -> nth i (o_bases pj) dflt_basis = nth i (o_bases o) dflt_basis) /\
         b_order bj = p /\
         b_per1 bj = 0%nat /\
         b_start bj = nth j (ends p k ks) 0 /\
         b_end bj = nth (S j) (ends p k ks) 0 /\ nth j (ends p k ks) 0 + 2 * tol <= nth (S j) (ends p k ks) 0.
Proof. exact @split_tiling. Qed.
Print Assumptions C07_split_tiling.

Theorem C07_split_then_evaluate :
  forall (tol : R) (o : obj R) (d p : nat) (k ks : list R),
         split_hyps tol o d p k ks ->
         forall (fuel : nat) (pieces : list (obj R)),
         obj_split fuel tol o d ks = Ok pieces ->
         forall (j : nat) (ts : list R),
         (j <= length ks)%nat ->
         piece_param tol o d p k ks j ts -> obj_eval tol (nth j pieces o) ts = obj_eval tol o ts.
Proof. exact @split_then_evaluate. Qed.
Print Assumptions C07_split_then_evaluate.

Theorem C07_piece_param_intro :
  forall (tol : R) (o : obj R) (d p : nat) (k ks : list R),
         split_hyps tol o d p k ks ->
         forall (j : nat) (ts : list R),
         (j <= length ks)%nat ->
         (forall i : nat,
          (i < length (o_bases o))%nat -> i <> d -> in_dom tol (nth i (o_bases o) dflt_basis) (nth i ts 0)) ->
         nth j (ends p k ks) 0 <= nth d ts 0 <= nth (S j) (ends p k ks) 0 ->
         nth d ts 0 <= nth (S j) (ends p k ks) 0 - 2 * tol \/ j = length ks ->
         j = 0%nat \/
         In (nth j (ends p k ks) 0) k \/
         nth d ts 0 = nth j (ends p k ks) 0 \/ nth j (ends p k ks) 0 + tol <= nth d ts 0 ->
         piece_param tol o d p k ks j ts.
Proof. exact @piece_param_intro. Qed.
Print Assumptions C07_piece_param_intro.

Theorem C07_split_piece_eval :
  forall tol : R,
         0 < tol ->
         forall o : obj R,
         wf_obj_R tol o ->
         forall d : nat,
         (d < length (o_bases o))%nat ->
         b_per1 (nth d (o_bases o) dflt_basis) = 0%nat ->
         forall a m : nat,
         (a + m <= b_nfun (nth d (o_bases o) dflt_basis))%nat ->
         2 * tol <=
         kn (b_knots (nth d (o_bases o) dflt_basis)) (a + m) -
         kn (b_knots (nth d (o_bases o) dflt_basis)) (a + b_order (nth d (o_bases o) dflt_basis) - 1) ->
         forall ts : list R,
         (forall i : nat,
          (i < length (o_bases o))%nat -> i <> d -> in_dom tol (nth i (o_bases o) dflt_basis) (nth i ts 0)) ->
         kn (b_knots (nth d (o_bases o) dflt_basis)) (a + b_order (nth d (o_bases o) dflt_basis) - 1) <= 
         nth d ts 0 <= kn (b_knots (nth d (o_bases o) dflt_basis)) (a + m) ->
         BasisEval.snap1 (b_knots (nth d (o_bases o) dflt_basis)) tol (nth d ts 0) <=
         kn (b_knots (nth d (o_bases o) dflt_basis)) (a + m) - tol \/
         kn (b_knots (nth d (o_bases o) dflt_basis)) (a + m) =
         kn (b_knots (nth d (o_bases o) dflt_basis))
           (length (b_knots (nth d (o_bases o) dflt_basis)) - b_order (nth d (o_bases o) dflt_basis)) ->
         obj_eval tol
           (obj_along o d
              {|
                b_order := b_order (nth d (o_bases o) dflt_basis);
                b_knots :=
                  slice_list (b_knots (nth d (o_bases o) dflt_basis)) a
                    (a + m + b_order (nth d (o_bases o) dflt_basis));
                b_per1 := 0
              |} (slice_matrix (b_nfun (nth d (o_bases o) dflt_basis)) a m)) ts = obj_eval tol o ts.
Proof. exact @split_piece_eval. Qed.
Print Assumptions C07_split_piece_eval.

Theorem C07_split_skips_outside :
  forall (o : obj R) (d : nat) (s e x : R) (rest : list R) (lk lc : nat),
         x <= s \/ e <= x -> split_pieces o d s e (x :: rest) lk lc = split_pieces o d s e rest lk lc.
Proof. exact @split_pieces_skip. Qed.
Print Assumptions C07_split_skips_outside.

Theorem C07_hypotheses_satisfiable :
  split_hyps (1 / 100)
           {|
             o_bases := [{| b_order := 3; b_knots := [0; 0; 0; 1; 2; 3; 3; 3]; b_per1 := 0 |}];
             o_cps := [[0]; [1]; [3]; [2]; [5]];
             o_dim := 1;
             o_rat := false
           |} 0 3 [0; 0; 0; 1; 2; 3; 3; 3] [1; 3 / 2].
Proof. exact @ex_hyps. Qed.
Print Assumptions C07_hypotheses_satisfiable.

Theorem C07_executed_is_proved_split :
  forall (fuel : nat) (tol : Q) (o : obj Q) (d : nat) (ks : list Q),
         resmap (map objQ2R) (obj_split fuel tol o d ks) = obj_split fuel (Q2R tol) (objQ2R o) d (map Q2R ks).
Proof. exact @obj_split_transfer. Qed.
Print Assumptions C07_executed_is_proved_split.

Theorem C07_executed_is_proved_append :
  forall (tol : Q) (o1 o2 : obj Q),
         resmap objQ2R (obj_append tol o1 o2) = obj_append (Q2R tol) (objQ2R o1) (objQ2R o2).
Proof. exact @obj_append_transfer. Qed.
Print Assumptions C07_executed_is_proved_append.

Theorem C07_roll_opens_periodic_basis :
  forall (k : list R) (p per1 n : nat) (T x : R),
         per_canon k p per1 n T ->
         kn k (p - 1) <= x < kn k (n + per1) ->
         mult k x = p ->
         let mu := py_bisect_left k x in
         let ko := kopen k p per1 mu in
         (mu + p <= n + per1)%nat /\
         length ko = (n + p)%nat /\
         sorted (kn ko) /\
         (forall j : nat, (j < n + p)%nat -> nth j ko 0 = pext k n T (mu + j)) /\
         (forall j : nat, (j < p)%nat -> kn ko j = x /\ kn ko (n + j) = x + T) /\
         b_start {| b_order := p; b_knots := ko; b_per1 := 0 |} = x /\
         b_end {| b_order := p; b_knots := ko; b_per1 := 0 |} = x + T /\
         b_nfun {| b_order := p; b_knots := ko; b_per1 := 0 |} = n /\
         (forall (side : bool) (t t' : R),
          SeamContinuity.after_start side x t ->
          SeamContinuity.before_end side t (x + T) ->
          t' = t \/ t' = t - T ->
          SeamContinuity.after_start side (kn k (p - 1)) t' ->
          SeamContinuity.before_end side t' (kn k (n + per1)) ->
          row_rel (ref_row side k p per1 0 t') (ref_row side ko p 0 0 t) (roll_matrix n mu)).
Proof. exact @roll_open_basis. Qed.
Print Assumptions C07_roll_opens_periodic_basis.

Theorem C07_split_periodic_single :
  forall (tol : R) (o : obj R) (d p per1 n : nat) (T : R) (k : list R) (x : R) (fuel : nat),
         psplit_hyps tol o d p per1 n T k x [] ->
         (1 <= fuel)%nat ->
         exists o1 : obj R,
           obj_split fuel tol o d [x] = Ok [o1] /\
           wf_obj_R tol o1 /\
           length (o_bases o1) = length (o_bases o) /\
           (forall i : nat, i <> d -> nth i (o_bases o1) dflt_basis = nth i (o_bases o) dflt_basis) /\
           (let b1 := nth d (o_bases o1) dflt_basis in
            b_order b1 = p /\
            b_per1 b1 = 0%nat /\
            b_start b1 = x /\
            b_end b1 = x + T /\
            (forall ts : list R,
             (forall i : nat,
              (i < length (o_bases o))%nat -> i <> d -> in_dom tol (nth i (o_bases o) dflt_basis) (nth i ts 0)) ->
             x <= nth d ts 0 < x + T ->
             per_param_ok tol k per1 n T [x] (nth d ts 0) ->
             (nth d ts 0 = kn k (n + per1) -> (mult k (kn k (p - 1)) <= p - 1)%nat) ->
             obj_eval tol o1 ts = obj_eval tol o ts)).
Proof. exact @split_periodic_single. Qed.
Print Assumptions C07_split_periodic_single.

Theorem C07_split_periodic :
  forall (tol : R) (o : obj R) (d p per1 n : nat) (T : R) (k : list R) (x0 : R) (rest : list R) (fuel : nat),
         psplit_hyps tol o d p per1 n T k x0 rest ->
         (2 <= fuel)%nat ->
         exists pieces : list (obj R),
           obj_split fuel tol o d (x0 :: rest) = Ok pieces /\
           length pieces = S (length rest) /\
           (forall j : nat,
            (j <= length rest)%nat ->
            let pj := nth j pieces o in
            let bj := nth d (o_bases pj) dflt_basis in
            wf_obj_R tol pj /\
            length (o_bases pj) = length (o_bases o) /\
            (forall i : nat, i <> d -> nth i (o_bases pj) dflt_basis = nth i (o_bases o) dflt_basis) /\
            b_order bj = p /\
            b_per1 bj = 0%nat /\
            b_start bj = nth j (pends x0 T rest) 0 /\
            b_end bj = nth (S j) (pends x0 T rest) 0 /\
            nth j (pends x0 T rest) 0 + 2 * tol <= nth (S j) (pends x0 T rest) 0 /\
            (forall ts : list R,
             ppiece_param tol o d p per1 n T k x0 rest j ts -> obj_eval tol pj ts = obj_eval tol o ts)).
Proof. exact @obj_split_periodic. Qed.
Print Assumptions C07_split_periodic.

Theorem C07_split_periodic_needs_increasing :
  forall (tol : R) (o : obj R) (d p per1 n : nat) (T : R) (k : list R) (x0 y : R) (fuel : nat),
         0 < tol ->
         wf_obj_R tol o ->
         (d < length (o_bases o))%nat ->
         nth d (o_bases o) dflt_basis = {| b_order := p; b_knots := k; b_per1 := per1 |} ->
         per_canon k p per1 n T ->
         per_strict k per1 ->
         kn k (p - 1) <= y < x0 ->
         x0 < kn k (n + per1) ->
         knot_sep tol k x0 ->
         knot_sep tol k y -> (mult k x0 <= p)%nat -> (2 <= fuel)%nat -> obj_split fuel tol o d [x0; y] = Err ValueError.
Proof. exact @obj_split_periodic_decreasing. Qed.
Print Assumptions C07_split_periodic_needs_increasing.

Theorem C07_periodic_hypotheses_satisfiable :
  forall rest : list R,
         rest = [] \/ rest = [5] ->
         psplit_hyps (1 / 100)
           {|
             o_bases := [{| b_order := 4; b_knots := ex_knots; b_per1 := 3 |}];
             o_cps := [[1; 0]; [0; 1]; [-1; 0]; [0; -1]; [2; 0]; [0; 2]; [-2; 0]; [0; -2]];
             o_dim := 2;
             o_rat := false
           |} 0 4 3 8 8 ex_knots (5 / 2) rest.
Proof. exact @ex_phyps. Qed.
Print Assumptions C07_periodic_hypotheses_satisfiable.

