(* C07 — Splitting yields exact restrictions tiling the object; appending re-joins them.
   Model: Model/Split.v (transcription of SplineObject.split incl. the periodic roll, BSplineBasis.roll). *)
From Coq Require Import List Arith Reals Lra Lia Bool ZArith QArith.
From SplipyModel Require Import Spec.BSpline Model.Num Model.BasisDef Model.Tensor Model.Obj Model.KnotInsert Model.Split
  Proofs.TensorLemmas Proofs.TensorApply Proofs.SplitProofs Extract.Exec.
Import ListNotations.
Open Scope R_scope.

(* 1. restriction at basis level: on the domain [k(a+q), k(a+m)] of a piece that keeps the knots a .. a+m+q,
      the full row of basis values is the piece's row placed at columns a .. a+m-1 (everything else vanishes);
      both one-sided variants, any knot multiplicities *)
Theorem C07_restriction (side : bool) (k : nat -> R) : sorted k -> forall q n a m t, (a + m <= n)%nat ->
  (if side then k (a + q)%nat <= t < k (a + m)%nat else k (a + q)%nat < t <= k (a + m)%nat) ->
  row_rel (Nfull side k q n t) (Npiece side k q a m t) (slice_matrix n a m).
Proof. intros Hk q n a m t Ham Ht. exact (row_rel_slice side k Hk q n a m t Ham Ht). Qed.
Print Assumptions C07_restriction.

(* 2. object level, any pardim and direction: the sliced control net with the piece's own basis evaluates,
      coordinate by coordinate, to the original object at every parameter of the piece's domain *)
Theorem C07_split_piece_is_restriction (side : bool) (k : nat -> R) : sorted k -> forall q n a m t, (a + m <= n)%nat ->
  (if side then k (a + q)%nat <= t < k (a + m)%nat else k (a + q)%nat < t <= k (a + m)%nat) ->
  forall dim c (rows : list (list R)) d cps,
  (d < length rows)%nat -> (c < dim)%nat -> nth d rows [] = Nfull side k q n t ->
  net_ok dim rows cps -> (0 < prodl (map (@length R) rows))%nat ->
  tsum (upd rows d (Npiece side k q a m t)) (cnet dim c (apply_dir dim (map (@length R) rows) d (slice_matrix n a m) cps))
  = tsum rows (cnet dim c cps).
Proof. intros Hk q n a m t Ham Ht. exact (split_piece_is_restriction side k Hk q n a m t Ham Ht). Qed.
Print Assumptions C07_split_piece_is_restriction.

(* PARTIAL: that split() cuts exactly at knots of multiplicity 'order' (via C04 insertion), the tiling of the
   domain, the periodic branch (roll) and append are covered by the transcription + correspondence (L1) and by
   the statement evaluated on the implementation (L2) only. *)

(* non-vacuity, executed on Q: splitting a rational quadratic curve at a new point gives two pieces that
   evaluate to the original *)
Example C07_example :
  let b := q_mkBasis 3 [0; 0; 0; 1; 2; 2; 2]%Q 0 in
  let o := q_mkObj [b] [[0;0;1]; [2;2;2]; [3;1;1]; [8;0;2]]%Q 2 true in
  match q_obj_split (1#10000000000) o 0 [(1#2)%Q] with
  | Ok [p1; p2] =>
      b_knots (nth 0 (o_bases p1) b) = [0; 0; 0; 1#2; 1#2; 1#2]%Q /\
      map Qred (b_knots (nth 0 (o_bases p2) b)) = [1#2; 1#2; 1#2; 1; 2; 2; 2]%Q /\
      (match q_obj_eval (1#10000000000) p2 [(3#2)%Q] with Ok v => map Qred v | Err _ => [] end)
      = (match q_obj_eval (1#10000000000) o [(3#2)%Q] with Ok v => map Qred v | Err _ => [] end)
  | _ => False
  end.
Proof. vm_compute. repeat split; reflexivity. Qed.
