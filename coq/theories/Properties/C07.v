(* C07 — Splitting yields exact restrictions tiling the object; appending re-joins them.
   Model: Model/Split.v (transcription of SplineObject.split incl. the periodic roll, BSplineBasis.roll). *)
From Coq Require Import List Arith Reals Lra Lia Bool ZArith QArith.
From SplipyModel Require Import Spec.BSpline Spec.Join Model.Num Model.BasisDef Model.Tensor Model.Obj Model.KnotInsert Model.Split Model.Append
  Proofs.TensorLemmas Proofs.TensorApply Proofs.SplitProofs Proofs.AppendProofs Extract.Exec.
Import ListNotations.
Open Scope R_scope.

(* 1. restriction at basis level: on the domain [k(a+q), k(a+m)] of a piece that keeps the knots a .. a+m+q,
      the full row of basis values is the piece's row placed at columns a .. a+m-1 (everything else vanishes);
      both one-sided variants, any knot multiplicities *)
Theorem C07_restriction (side : bool) (k : nat -> R) : sorted k -> forall q n a m t, (a + m <= n)%nat ->
  (if side then k (a + q)%nat <= t < k (a + m)%nat else k (a + q)%nat < t <= k (a + m)%nat) ->
  row_rel (Nfull side k q n t) (Npiece side k q a m t) (slice_matrix n a m).
Proof. intros Hk q n a m t Ham Ht. exact (row_rel_slice side k Hk q n a m t Ham Ht). Qed.
Print Assumptions C07_restriction.

(* 2. object level, any pardim and direction: the sliced control net with the piece's own basis evaluates,
      coordinate by coordinate, to the original object at every parameter of the piece's domain *)
Theorem C07_split_piece_is_restriction (side : bool) (k : nat -> R) : sorted k -> forall q n a m t, (a + m <= n)%nat ->
  (if side then k (a + q)%nat <= t < k (a + m)%nat else k (a + q)%nat < t <= k (a + m)%nat) ->
  forall dim c (rows : list (list R)) d cps,
  (d < length rows)%nat -> (c < dim)%nat -> nth d rows [] = Nfull side k q n t ->
  net_ok dim rows cps -> (0 < prodl (map (@length R) rows))%nat ->
  tsum (upd rows d (Npiece side k q a m t)) (cnet dim c (apply_dir dim (map (@length R) rows) d (slice_matrix n a m) cps))
  = tsum rows (cnet dim c cps).
Proof. intros Hk q n a m t Ham Ht. exact (split_piece_is_restriction side k Hk q n a m t Ham Ht). Qed.
Print Assumptions C07_split_piece_is_restriction.

(* 3. joining at a C0 knot (the converse of 1): if K has q copies of e at the indices J+1 .. J+q, the spline over K
      with coefficients c is, left of e, the spline over K1 (K up to index J+q, then e) with c_0 .. c_J, and, right of
      e, the spline over K2 (e, then K from index J+1 on) with c_J, c_{J+1}, ...; both one-sided variants *)
Theorem C07_join (side : bool) (K : nat -> R) (q J : nat) (e : R) (c : nat -> R) n t : sorted K -> (1 <= q)%nat ->
  (forall m, (1 <= m <= q)%nat -> K (J + m)%nat = e) -> (J < n)%nat ->
  (left_of side e t -> sumf (fun i => c i * B side K q i t) 0 n = sumf (fun i => c i * B side (K1 K q J e) q i t) 0 (S J)) /\
  (right_of side e t -> sumf (fun i => c i * B side K q i t) 0 n = sumf (fun m => c (J + m)%nat * B side (K2 K J e) q m t) 0 (n - J)).
Proof. intros HK Hq He Hn. split; [exact (join_left side K HK q J e Hq He c n t Hn)|exact (join_right side K HK q J e Hq He c n t Hn)]. Qed.
Print Assumptions C07_join.

(* 4. Curve.append: with the knot vector the model (and the code) builds from two clamped knot vectors of the same
      order p >= 2 and the control net c1 ++ tl c2, the joined curve is the first curve left of the junction and the
      second curve (parameter shifted by end1 - start2) right of it, provided they share the junction control point.
      Coordinate by coordinate, hence for rational curves in homogeneous form too. *)
Theorem C07_append (k1 k2 : list R) (p : nat) (c1 c2 : list R) (side : bool) (t : R) :
  (2 <= p)%nat -> sorted (@kn R NumR k1) -> sorted (@kn R NumR k2) -> (2 * p <= length k1)%nat -> (2 * p <= length k2)%nat ->
  (forall i, (i < p)%nat -> nth (length k1 - 1 - i) k1 0 = last k1 0) -> (forall i, (i < p)%nat -> nth i k2 0 = hd 0 k2) ->
  length c1 = (length k1 - p)%nat -> length c2 = (length k2 - p)%nat -> nth (length k1 - p - 1) c1 0 = nth 0 c2 0 ->
  let K := @append_knots R NumR p k1 k2 in let n := (length k1 - p + (length k2 - p) - 1)%nat in
  (left_of side (last k1 0) t ->
     sumf (fun i => nth i (c1 ++ tl c2) 0 * B side (@kn R NumR K) (p - 1) i t) 0 n
     = sumf (fun i => nth i c1 0 * B side (@kn R NumR k1) (p - 1) i t) 0 (length k1 - p)) /\
  (right_of side (last k1 0) t ->
     sumf (fun i => nth i (c1 ++ tl c2) 0 * B side (@kn R NumR K) (p - 1) i t) 0 n
     = sumf (fun m => nth m c2 0 * B side (@kn R NumR k2) (p - 1) m (t - last k1 0 + hd 0 k2)) 0 (length k2 - p)).
Proof.
  intros Hp S1 S2 L1 L2 He Hs Hc1 Hc2 Hj. cbv zeta. split.
  - exact (append_left k1 k2 p Hp S1 S2 L1 L2 He Hs c1 c2 Hc1 Hc2 side t).
  - exact (append_right k1 k2 p Hp S1 S2 L1 L2 He Hs c1 c2 Hc1 Hc2 Hj side t).
Qed.
Print Assumptions C07_append.

(* PARTIAL: that split() cuts exactly at knots of multiplicity 'order' (via C04 insertion), the tiling of the
   domain, the periodic branch (roll) and the order/rationality unification inside append (C05, C09) are covered by the transcription + correspondence (L1) and by
   the statement evaluated on the implementation (L2) only. *)

(* non-vacuity, executed on Q: splitting a rational quadratic curve at a new point gives two pieces that
   evaluate to the original *)
Example C07_example :
  let b := q_mkBasis 3 [0; 0; 0; 1; 2; 2; 2]%Q 0 in
  let o := q_mkObj [b] [[0;0;1]; [2;2;2]; [3;1;1]; [8;0;2]]%Q 2 true in
  match q_obj_split (1#10000000000) o 0 [(1#2)%Q] with
  | Ok [p1; p2] =>
      b_knots (nth 0 (o_bases p1) b) = [0; 0; 0; 1#2; 1#2; 1#2]%Q /\
      map Qred (b_knots (nth 0 (o_bases p2) b)) = [1#2; 1#2; 1#2; 1; 2; 2; 2]%Q /\
      (match q_obj_eval (1#10000000000) p2 [(3#2)%Q] with Ok v => map Qred v | Err _ => [] end)
      = (match q_obj_eval (1#10000000000) o [(3#2)%Q] with Ok v => map Qred v | Err _ => [] end)
  | _ => False
  end.
Proof. vm_compute. repeat split; reflexivity. Qed.

(* ------------------------------------------------------------------------------------------------------
   Added in build session 4 (statements re-stated from the proof files by harness tooling; each is closed by
   exact). *)
From SplipyModel Require Import Proofs.ObjEval Proofs.SplitTiling Proofs.RestrictDirEval Proofs.SplitEndToEnd Proofs.SplitCompose Transfer.ParamObj Transfer.ParamOps Transfer.ParamOps2 Proofs.PeriodicInsert Proofs.PeriodicSplit Model.SplitSnap Proofs.SplitSnapProofs Transfer.ParamSplitSnap Proofs.AppendEndToEnd Model.Subdivide Proofs.SubdivideProofs.
Open Scope R_scope.
Theorem C07_split_insert_spec :
  forall (tol : R) (o : obj R) (d p : nat) (k ks : list R),
         split_hyps tol o d p k ks ->
         exists (so : obj R) (kf : list R),
           split_insert tol {| b_order := p; b_knots := k; b_per1 := 0 |} o d ks = Ok so /\
           wf_obj_R tol so /\
           length (o_bases so) = length (o_bases o) /\
           (forall i : nat, i <> d -> nth i (o_bases so) dflt_basis = nth i (o_bases o) dflt_basis) /\
           nth d (o_bases so) dflt_basis = {| b_order := p; b_knots := kf; b_per1 := 0 |} /\
           sorted (kn kf) /\
           st p kf = st p k /\
           en p kf = en p k /\
           Permutation.Permutation kf (ins_list p k ks ++ k) /\
           (forall v : R, In v kf <-> In v k \/ In v ks) /\
           (forall v : R, ~ In v ks -> mult kf v = mult k v) /\
           Forall (fun x : R => mult kf x = p) ks /\
           Forall (mult_p p kf) ks /\
           (forall ts : list R,
            dom_all tol o ts ->
            Forall (fun x : R => param_ok tol k x (nth d ts 0)) ks -> obj_eval tol so ts = obj_eval tol o ts).
Proof. exact @split_insert_spec. Qed.
Print Assumptions C07_split_insert_spec.

Theorem C07_split_succeeds :
  forall (tol : R) (o : obj R) (d p : nat) (k ks : list R),
         split_hyps tol o d p k ks ->
         forall fuel : nat, (1 <= fuel)%nat -> exists pieces : list (obj R), obj_split fuel tol o d ks = Ok pieces.
Proof. exact @obj_split_ok. Qed.
Print Assumptions C07_split_succeeds.

Theorem C07_split_count :
  forall (tol : R) (o : obj R) (d p : nat) (k ks : list R),
         split_hyps tol o d p k ks ->
         forall (fuel : nat) (pieces : list (obj R)),
         obj_split fuel tol o d ks = Ok pieces -> length pieces = S (length ks).
Proof. exact @split_length. Qed.
Print Assumptions C07_split_count.

Theorem C07_split_tiling :
  forall (tol : R) (o : obj R) (d p : nat) (k ks : list R),
         split_hyps tol o d p k ks ->
         forall (fuel : nat) (pieces : list (obj R)),
         obj_split fuel tol o d ks = Ok pieces ->
         forall j : nat,
         (j <= length ks)%nat ->
         let pj := nth j pieces o in
         let bj := nth d (o_bases pj) dflt_basis in
         wf_obj_R tol pj /\
         length (o_bases pj) = length (o_bases o) /\
         (forall i : nat, i <> d -> nth i (o_bases pj) dflt_basis = nth i (o_bases o) dflt_basis) /\
         b_order bj = p /\
         b_per1 bj = 0%nat /\
         b_start bj = nth j (ends p k ks) 0 /\
         b_end bj = nth (S j) (ends p k ks) 0 /\ nth j (ends p k ks) 0 + 2 * tol <= nth (S j) (ends p k ks) 0.
Proof. exact @split_tiling. Qed.
Print Assumptions C07_split_tiling.

Theorem C07_split_then_evaluate :
  forall (tol : R) (o : obj R) (d p : nat) (k ks : list R),
         split_hyps tol o d p k ks ->
         forall (fuel : nat) (pieces : list (obj R)),
         obj_split fuel tol o d ks = Ok pieces ->
         forall (j : nat) (ts : list R),
         (j <= length ks)%nat ->
         piece_param tol o d p k ks j ts -> obj_eval tol (nth j pieces o) ts = obj_eval tol o ts.
Proof. exact @split_then_evaluate. Qed.
Print Assumptions C07_split_then_evaluate.

Theorem C07_piece_param_intro :
  forall (tol : R) (o : obj R) (d p : nat) (k ks : list R),
         split_hyps tol o d p k ks ->
         forall (j : nat) (ts : list R),
         (j <= length ks)%nat ->
         (forall i : nat,
          (i < length (o_bases o))%nat -> i <> d -> in_dom tol (nth i (o_bases o) dflt_basis) (nth i ts 0)) ->
         nth j (ends p k ks) 0 <= nth d ts 0 <= nth (S j) (ends p k ks) 0 ->
         nth d ts 0 <= nth (S j) (ends p k ks) 0 - 2 * tol \/ j = length ks ->
         j = 0%nat \/
         In (nth j (ends p k ks) 0) k \/
         nth d ts 0 = nth j (ends p k ks) 0 \/ nth j (ends p k ks) 0 + tol <= nth d ts 0 ->
         piece_param tol o d p k ks j ts.
Proof. exact @piece_param_intro. Qed.
Print Assumptions C07_piece_param_intro.

Theorem C07_split_piece_eval :
  forall tol : R,
         0 < tol ->
         forall o : obj R,
         wf_obj_R tol o ->
         forall d : nat,
         (d < length (o_bases o))%nat ->
         b_per1 (nth d (o_bases o) dflt_basis) = 0%nat ->
         forall a m : nat,
         (a + m <= b_nfun (nth d (o_bases o) dflt_basis))%nat ->
         2 * tol <=
         kn (b_knots (nth d (o_bases o) dflt_basis)) (a + m) -
         kn (b_knots (nth d (o_bases o) dflt_basis)) (a + b_order (nth d (o_bases o) dflt_basis) - 1) ->
         forall ts : list R,
         (forall i : nat,
          (i < length (o_bases o))%nat -> i <> d -> in_dom tol (nth i (o_bases o) dflt_basis) (nth i ts 0)) ->
         kn (b_knots (nth d (o_bases o) dflt_basis)) (a + b_order (nth d (o_bases o) dflt_basis) - 1) <= 
         nth d ts 0 <= kn (b_knots (nth d (o_bases o) dflt_basis)) (a + m) ->
         BasisEval.snap1 (b_knots (nth d (o_bases o) dflt_basis)) tol (nth d ts 0) <=
         kn (b_knots (nth d (o_bases o) dflt_basis)) (a + m) - tol \/
         kn (b_knots (nth d (o_bases o) dflt_basis)) (a + m) =
         kn (b_knots (nth d (o_bases o) dflt_basis))
           (length (b_knots (nth d (o_bases o) dflt_basis)) - b_order (nth d (o_bases o) dflt_basis)) ->
         obj_eval tol
           (obj_along o d
              {|
                b_order := b_order (nth d (o_bases o) dflt_basis);
                b_knots :=
                  slice_list (b_knots (nth d (o_bases o) dflt_basis)) a
                    (a + m + b_order (nth d (o_bases o) dflt_basis));
                b_per1 := 0
              |} (slice_matrix (b_nfun (nth d (o_bases o) dflt_basis)) a m)) ts = obj_eval tol o ts.
Proof. exact @split_piece_eval. Qed.
Print Assumptions C07_split_piece_eval.

Theorem C07_split_skips_outside :
  forall (o : obj R) (d : nat) (s e x : R) (rest : list R) (lk lc : nat),
         x <= s \/ e <= x -> split_pieces o d s e (x :: rest) lk lc = split_pieces o d s e rest lk lc.
Proof. exact @split_pieces_skip. Qed.
Print Assumptions C07_split_skips_outside.

Theorem C07_hypotheses_satisfiable :
  split_hyps (1 / 100)
           {|
             o_bases := [{| b_order := 3; b_knots := [0; 0; 0; 1; 2; 3; 3; 3]; b_per1 := 0 |}];
             o_cps := [[0]; [1]; [3]; [2]; [5]];
             o_dim := 1;
             o_rat := false
           |} 0 3 [0; 0; 0; 1; 2; 3; 3; 3] [1; 3 / 2].
Proof. exact @ex_hyps. Qed.
Print Assumptions C07_hypotheses_satisfiable.

Theorem C07_executed_is_proved_split :
  forall (fuel : nat) (tol : Q) (o : obj Q) (d : nat) (ks : list Q),
         resmap (map objQ2R) (obj_split fuel tol o d ks) = obj_split fuel (Q2R tol) (objQ2R o) d (map Q2R ks).
Proof. exact @obj_split_transfer. Qed.
Print Assumptions C07_executed_is_proved_split.

Theorem C07_executed_is_proved_append :
  forall (tol : Q) (o1 o2 : obj Q),
         resmap objQ2R (obj_append tol o1 o2) = obj_append (Q2R tol) (objQ2R o1) (objQ2R o2).
Proof. exact @obj_append_transfer. Qed.
Print Assumptions C07_executed_is_proved_append.

Theorem C07_roll_opens_periodic_basis :
  forall (k : list R) (p per1 n : nat) (T x : R),
         per_canon k p per1 n T ->
         kn k (p - 1) <= x < kn k (n + per1) ->
         mult k x = p ->
         let mu := py_bisect_left k x in
         let ko := kopen k p per1 mu in
         (mu + p <= n + per1)%nat /\
         length ko = (n + p)%nat /\
         sorted (kn ko) /\
         (forall j : nat, (j < n + p)%nat -> nth j ko 0 = pext k n T (mu + j)) /\
         (forall j : nat, (j < p)%nat -> kn ko j = x /\ kn ko (n + j) = x + T) /\
         b_start {| b_order := p; b_knots := ko; b_per1 := 0 |} = x /\
         b_end {| b_order := p; b_knots := ko; b_per1 := 0 |} = x + T /\
         b_nfun {| b_order := p; b_knots := ko; b_per1 := 0 |} = n /\
         (forall (side : bool) (t t' : R),
          SeamContinuity.after_start side x t ->
          SeamContinuity.before_end side t (x + T) ->
          t' = t \/ t' = t - T ->
          SeamContinuity.after_start side (kn k (p - 1)) t' ->
          SeamContinuity.before_end side t' (kn k (n + per1)) ->
          row_rel (ref_row side k p per1 0 t') (ref_row side ko p 0 0 t) (roll_matrix n mu)).
Proof. exact @roll_open_basis. Qed.
Print Assumptions C07_roll_opens_periodic_basis.

Theorem C07_split_periodic_single :
  forall (tol : R) (o : obj R) (d p per1 n : nat) (T : R) (k : list R) (x : R) (fuel : nat),
         psplit_hyps tol o d p per1 n T k x [] ->
         (1 <= fuel)%nat ->
         exists o1 : obj R,
           obj_split fuel tol o d [x] = Ok [o1] /\
           wf_obj_R tol o1 /\
           length (o_bases o1) = length (o_bases o) /\
           (forall i : nat, i <> d -> nth i (o_bases o1) dflt_basis = nth i (o_bases o) dflt_basis) /\
           (let b1 := nth d (o_bases o1) dflt_basis in
            b_order b1 = p /\
            b_per1 b1 = 0%nat /\
            b_start b1 = x /\
            b_end b1 = x + T /\
            (forall ts : list R,
             (forall i : nat,
              (i < length (o_bases o))%nat -> i <> d -> in_dom tol (nth i (o_bases o) dflt_basis) (nth i ts 0)) ->
             x <= nth d ts 0 < x + T ->
             per_param_ok tol k per1 n T [x] (nth d ts 0) ->
             (nth d ts 0 = kn k (n + per1) -> (mult k (kn k (p - 1)) <= p - 1)%nat) ->
             obj_eval tol o1 ts = obj_eval tol o ts)).
Proof. exact @split_periodic_single. Qed.
Print Assumptions C07_split_periodic_single.

Theorem C07_split_periodic :
  forall (tol : R) (o : obj R) (d p per1 n : nat) (T : R) (k : list R) (x0 : R) (rest : list R) (fuel : nat),
         psplit_hyps tol o d p per1 n T k x0 rest ->
         (2 <= fuel)%nat ->
         exists pieces : list (obj R),
           obj_split fuel tol o d (x0 :: rest) = Ok pieces /\
           length pieces = S (length rest) /\
           (forall j : nat,
            (j <= length rest)%nat ->
            let pj := nth j pieces o in
            let bj := nth d (o_bases pj) dflt_basis in
            wf_obj_R tol pj /\
            length (o_bases pj) = length (o_bases o) /\
            (forall i : nat, i <> d -> nth i (o_bases pj) dflt_basis = nth i (o_bases o) dflt_basis) /\
            b_order bj = p /\
            b_per1 bj = 0%nat /\
            b_start bj = nth j (pends x0 T rest) 0 /\
            b_end bj = nth (S j) (pends x0 T rest) 0 /\
            nth j (pends x0 T rest) 0 + 2 * tol <= nth (S j) (pends x0 T rest) 0 /\
            (forall ts : list R,
             ppiece_param tol o d p per1 n T k x0 rest j ts -> obj_eval tol pj ts = obj_eval tol o ts)).
Proof. exact @obj_split_periodic. Qed.
Print Assumptions C07_split_periodic.

Theorem C07_split_periodic_needs_increasing :
  forall (tol : R) (o : obj R) (d p per1 n : nat) (T : R) (k : list R) (x0 y : R) (fuel : nat),
         0 < tol ->
         wf_obj_R tol o ->
         (d < length (o_bases o))%nat ->
         nth d (o_bases o) dflt_basis = {| b_order := p; b_knots := k; b_per1 := per1 |} ->
         per_canon k p per1 n T ->
         per_strict k per1 ->
         kn k (p - 1) <= y < x0 ->
         x0 < kn k (n + per1) ->
         knot_sep tol k x0 ->
         knot_sep tol k y -> (mult k x0 <= p)%nat -> (2 <= fuel)%nat -> obj_split fuel tol o d [x0; y] = Err ValueError.
Proof. exact @obj_split_periodic_decreasing. Qed.
Print Assumptions C07_split_periodic_needs_increasing.

Theorem C07_periodic_hypotheses_satisfiable :
  forall rest : list R,
         rest = [] \/ rest = [5] ->
         psplit_hyps (1 / 100)
           {|
             o_bases := [{| b_order := 4; b_knots := ex_knots; b_per1 := 3 |}];
             o_cps := [[1; 0]; [0; 1]; [-1; 0]; [0; -1]; [2; 0]; [0; 2]; [-2; 0]; [0; -2]];
             o_dim := 2;
             o_rat := false
           |} 0 4 3 8 8 ex_knots (5 / 2) rest.
Proof. exact @ex_phyps. Qed.
Print Assumptions C07_periodic_hypotheses_satisfiable.

Theorem C07_snap_to_knot_spec :
  forall k : list R,
         sorted (kn k) ->
         forall tol x : R,
         (exists i : nat,
            (i < length k)%nat /\
            snap_to_knot k tol x = kn k i /\
            x - tol <= kn k i < x + tol /\ (forall v : R, In v k -> x - tol <= v -> kn k i <= v)) \/
         snap_to_knot k tol x = x /\ window_free tol k x.
Proof. exact @snap_to_knot_spec. Qed.
Print Assumptions C07_snap_to_knot_spec.

Theorem C07_snap_to_knot_id_iff :
  forall k : list R,
         sorted (kn k) ->
         forall tol x : R,
         0 < tol ->
         snap_to_knot k tol x = x <-> window_free tol k x \/ In x k /\ (forall v : R, In v k -> x - tol <= v -> x <= v).
Proof. exact @snap_to_knot_id_iff. Qed.
Print Assumptions C07_snap_to_knot_id_iff.

Theorem C07_snap_to_knot_continuity :
  forall (tol : R) (p : nat) (k : list R) (x : R),
         sorted (kn k) ->
         0 < tol ->
         kn k (p - 1) <= x <= kn k (length k - p) ->
         (Tol.basis_continuity tol {| b_order := p; b_knots := k; b_per1 := 0 |} x = Ok None <-> window_free tol k x) /\
         (Tol.basis_continuity tol {| b_order := p; b_knots := k; b_per1 := 0 |} x = Ok None ->
          snap_to_knot k tol x = x) /\
         (Tol.basis_continuity tol {| b_order := p; b_knots := k; b_per1 := 0 |} x <> Ok None ->
          In (snap_to_knot k tol x) k /\ x - tol <= snap_to_knot k tol x < x + tol).
Proof. exact @snap_to_knot_continuity. Qed.
Print Assumptions C07_snap_to_knot_continuity.

Theorem C07_snapped_knot_sep :
  forall k : list R,
         sorted (kn k) -> forall tol : R, separated tol k -> forall x : R, knot_sep tol k (snap_to_knot k tol x).
Proof. exact @snapped_knot_sep. Qed.
Print Assumptions C07_snapped_knot_sep.

Theorem C07_obj_split_snapped_id :
  forall (fuel : nat) (tol : R) (o : obj R) (d : nat) (ks : list R),
         wf_obj_R tol o ->
         (d < length (o_bases o))%nat ->
         Forall (knot_sep tol (b_knots (nth d (o_bases o) dflt_basis))) ks ->
         obj_split_snapped fuel tol o d ks = obj_split fuel tol o d ks.
Proof. exact @obj_split_snapped_id. Qed.
Print Assumptions C07_obj_split_snapped_id.

Theorem C07_snapped_split_then_evaluate :
  forall (tol : R) (o : obj R) (d p : nat) (k ks : list R),
         split_hyps tol o d p k ks ->
         forall (fuel : nat) (pieces : list (obj R)),
         obj_split_snapped fuel tol o d ks = Ok pieces ->
         forall (j : nat) (ts : list R),
         (j <= length ks)%nat ->
         piece_param tol o d p k ks j ts -> obj_eval tol (nth j pieces o) ts = obj_eval tol o ts.
Proof. exact @snapped_split_then_evaluate. Qed.
Print Assumptions C07_snapped_split_then_evaluate.

Theorem C07_snapped_split_tiling :
  forall (tol : R) (o : obj R) (d p : nat) (k ks : list R),
         split_hyps tol o d p k ks ->
         forall (fuel : nat) (pieces : list (obj R)),
         obj_split_snapped fuel tol o d ks = Ok pieces ->
         forall j : nat,
         (j <= length ks)%nat ->
         let pj := nth j pieces o in
         let bj := nth d (o_bases pj) dflt_basis in
         wf_obj_R tol pj /\
         length (o_bases pj) = length (o_bases o) /\
         (forall i : nat, i <> d -> nth i (o_bases pj) dflt_basis = nth i (o_bases o) dflt_basis) /\
         b_order bj = p /\
         b_per1 bj = 0%nat /\
         b_start bj = nth j (ends p k ks) 0 /\
         b_end bj = nth (S j) (ends p k ks) 0 /\ nth j (ends p k ks) 0 + 2 * tol <= nth (S j) (ends p k ks) 0.
Proof. exact @snapped_split_tiling. Qed.
Print Assumptions C07_snapped_split_tiling.

Theorem C07_snapped_split_nonperiodic :
  forall (tol : R) (o : obj R) (d p : nat) (k ks : list R),
         0 < tol ->
         wf_obj_R tol o ->
         (d < length (o_bases o))%nat ->
         nth d (o_bases o) dflt_basis = {| b_order := p; b_knots := k; b_per1 := 0 |} ->
         separated tol k ->
         (forall v : R, (mult k v <= p)%nat) ->
         forall fuel : nat,
         Sorted.Sorted (gap tol) (st p k :: map (snap_to_knot k tol) ks ++ [en p k]) ->
         (1 <= fuel)%nat ->
         exists pieces : list (obj R),
           obj_split_snapped fuel tol o d ks = Ok pieces /\
           length pieces = S (length ks) /\
           (forall j : nat,
            (j <= length ks)%nat ->
            let pj := nth j pieces o in
            let bj := nth d (o_bases pj) dflt_basis in
            wf_obj_R tol pj /\
            length (o_bases pj) = length (o_bases o) /\
            (forall i : nat, i <> d -> nth i (o_bases pj) dflt_basis = nth i (o_bases o) dflt_basis) /\
            b_order bj = p /\
            b_per1 bj = 0%nat /\
            b_start bj = nth j (ends p k (map (snap_to_knot k tol) ks)) 0 /\
            b_end bj = nth (S j) (ends p k (map (snap_to_knot k tol) ks)) 0 /\
            nth j (ends p k (map (snap_to_knot k tol) ks)) 0 + 2 * tol <=
            nth (S j) (ends p k (map (snap_to_knot k tol) ks)) 0 /\
            (forall ts : list R,
             piece_param tol o d p k (map (snap_to_knot k tol) ks) j ts -> obj_eval tol pj ts = obj_eval tol o ts)).
Proof. exact @snapped_split_nonperiodic. Qed.
Print Assumptions C07_snapped_split_nonperiodic.

Theorem C07_snapped_split_nonperiodic_raw :
  forall (tol : R) (o : obj R) (d p : nat) (k ks : list R),
         0 < tol ->
         wf_obj_R tol o ->
         (d < length (o_bases o))%nat ->
         nth d (o_bases o) dflt_basis = {| b_order := p; b_knots := k; b_per1 := 0 |} ->
         separated tol k ->
         (forall v : R, (mult k v <= p)%nat) ->
         forall fuel : nat,
         Sorted.Sorted (gap (2 * tol)) (st p k :: ks ++ [en p k]) ->
         (1 <= fuel)%nat ->
         exists pieces : list (obj R),
           obj_split_snapped fuel tol o d ks = Ok pieces /\
           length pieces = S (length ks) /\
           (forall j : nat,
            (j <= length ks)%nat ->
            let pj := nth j pieces o in
            let bj := nth d (o_bases pj) dflt_basis in
            wf_obj_R tol pj /\
            length (o_bases pj) = length (o_bases o) /\
            (forall i : nat, i <> d -> nth i (o_bases pj) dflt_basis = nth i (o_bases o) dflt_basis) /\
            b_order bj = p /\
            b_per1 bj = 0%nat /\
            b_start bj = nth j (ends p k (map (snap_to_knot k tol) ks)) 0 /\
            b_end bj = nth (S j) (ends p k (map (snap_to_knot k tol) ks)) 0 /\
            nth j (ends p k (map (snap_to_knot k tol) ks)) 0 + 2 * tol <=
            nth (S j) (ends p k (map (snap_to_knot k tol) ks)) 0 /\
            (forall ts : list R,
             piece_param tol o d p k (map (snap_to_knot k tol) ks) j ts -> obj_eval tol pj ts = obj_eval tol o ts)).
Proof. exact @snapped_split_nonperiodic_raw. Qed.
Print Assumptions C07_snapped_split_nonperiodic_raw.

Theorem C07_snapped_split_at_knot :
  forall (tol : R) (o : obj R) (d p : nat) (k : list R) (x kappa : R) (fuel : nat),
         0 < tol ->
         wf_obj_R tol o ->
         (d < length (o_bases o))%nat ->
         nth d (o_bases o) dflt_basis = {| b_order := p; b_knots := k; b_per1 := 0 |} ->
         In kappa k ->
         x - tol <= kappa < x + tol ->
         isolated tol k kappa ->
         st p k < kappa < en p k ->
         (mult k kappa <= p)%nat ->
         (1 <= fuel)%nat ->
         obj_split_snapped fuel tol o d [x] = obj_split fuel tol o d [kappa] /\
         (exists p1 p2 : obj R,
            obj_split_snapped fuel tol o d [x] = Ok [p1; p2] /\
            wf_obj_R tol p1 /\
            wf_obj_R tol p2 /\
            b_start (nth d (o_bases p1) dflt_basis) = st p k /\
            b_end (nth d (o_bases p1) dflt_basis) = kappa /\
            b_start (nth d (o_bases p2) dflt_basis) = kappa /\
            b_end (nth d (o_bases p2) dflt_basis) = en p k /\
            (forall ts : list R,
             (forall i : nat,
              (i < length (o_bases o))%nat -> i <> d -> in_dom tol (nth i (o_bases o) dflt_basis) (nth i ts 0)) ->
             st p k <= nth d ts 0 <= kappa - 2 * tol -> obj_eval tol p1 ts = obj_eval tol o ts) /\
            (forall ts : list R,
             (forall i : nat,
              (i < length (o_bases o))%nat -> i <> d -> in_dom tol (nth i (o_bases o) dflt_basis) (nth i ts 0)) ->
             kappa <= nth d ts 0 <= en p k -> obj_eval tol p2 ts = obj_eval tol o ts)).
Proof. exact @snapped_split_at_knot. Qed.
Print Assumptions C07_snapped_split_at_knot.

Theorem C07_snapped_split_periodic_any :
  forall (tol : R) (o : obj R) (d p per1 n : nat) (T : R) (k : list R) (x0 : R) (rest : list R) (fuel : nat),
         0 < tol ->
         wf_obj_R tol o ->
         (d < length (o_bases o))%nat ->
         nth d (o_bases o) dflt_basis = {| b_order := p; b_knots := k; b_per1 := per1 |} ->
         per_canon k p per1 n T ->
         per_strict k per1 ->
         separated tol k ->
         (forall v : R, (mult k v <= p)%nat) ->
         let snap := snap_to_knot k tol in
         kn k (p - 1) <= snap x0 ->
         Sorted.Sorted (gap tol) (snap x0 :: map snap rest ++ [kn k (n + per1)]) ->
         (2 <= fuel)%nat ->
         exists pieces : list (obj R),
           obj_split_snapped fuel tol o d (x0 :: rest) = Ok pieces /\
           length pieces = S (length rest) /\
           (forall j : nat,
            (j <= length rest)%nat ->
            let pj := nth j pieces o in
            let bj := nth d (o_bases pj) dflt_basis in
            wf_obj_R tol pj /\
            length (o_bases pj) = length (o_bases o) /\
            (forall i : nat, i <> d -> nth i (o_bases pj) dflt_basis = nth i (o_bases o) dflt_basis) /\
            b_order bj = p /\
            b_per1 bj = 0%nat /\
            b_start bj = nth j (pends (snap x0) T (map snap rest)) 0 /\
            b_end bj = nth (S j) (pends (snap x0) T (map snap rest)) 0 /\
            nth j (pends (snap x0) T (map snap rest)) 0 + 2 * tol <= nth (S j) (pends (snap x0) T (map snap rest)) 0 /\
            (forall ts : list R,
             ppiece_param tol o d p per1 n T k (snap x0) (map snap rest) j ts -> obj_eval tol pj ts = obj_eval tol o ts)).
Proof. exact @snapped_split_periodic_any. Qed.
Print Assumptions C07_snapped_split_periodic_any.

Theorem C07_periodic_resnap_id :
  forall (tol : R) (o : obj R) (d p per1 n : nat) (T : R) (k : list R) (x0 y : R) (rest : list R),
         psplit_hyps tol o d p per1 n T k x0 (y :: rest) ->
         exists o1 : obj R,
           (forall f : nat, obj_split (S f) tol o d (x0 :: y :: rest) = obj_split f tol o1 d (y :: rest)) /\
           snap_split_values tol o1 d (y :: rest) = y :: rest /\
           (forall f : nat, obj_split_snapped f tol o1 d (y :: rest) = obj_split f tol o1 d (y :: rest)).
Proof. exact @periodic_resnap_id. Qed.
Print Assumptions C07_periodic_resnap_id.

Theorem C07_old_split_near_knot_defect :
  exq_domains (obj_split 1 exq_tol exq_o 0 [exq_x]) = Some [(0%Q, 0.300000000001%Q); (3 # 5, 1%Q)].
Proof. exact @old_split_defect. Qed.
Print Assumptions C07_old_split_near_knot_defect.

Theorem C07_repaired_split_near_knot :
  exq_domains (obj_split_snapped 1 exq_tol exq_o 0 [exq_x]) = Some [(0%Q, 0.3%Q); (0.3%Q, 1%Q)] /\
         match obj_split_snapped 1 exq_tol exq_o 0 [exq_x] with
         | Ok (p1 :: _) => map Qred (b_knots (nth 0 (o_bases p1) exq_b)) = [0%Q; 0%Q; 0%Q; 0.3%Q; 0.3%Q; 0.3%Q]
         | _ => False
         end.
Proof. exact @snapped_example_Q. Qed.
Print Assumptions C07_repaired_split_near_knot.

Theorem C07_repaired_split_at_window_boundary :
  exq_domains (obj_split_snapped 1 exq_tol exq_o 0 [(0.3 + exq_tol)%Q]) = Some [(0%Q, 0.3%Q); (0.3%Q, 1%Q)] /\
         exq_domains (obj_split 1 exq_tol exq_o 0 [(0.3 + exq_tol)%Q]) = Some [(0%Q, 0.3000000001%Q); (3 # 5, 1%Q)].
Proof. exact @snapped_boundary_Q. Qed.
Print Assumptions C07_repaired_split_at_window_boundary.

Theorem C07_executed_is_proved_split_snapped :
  forall (fuel : nat) (tol : Q) (o : obj Q) (d : nat) (ks : list Q),
         resmap (map objQ2R) (obj_split_snapped fuel tol o d ks) =
         obj_split_snapped fuel (Q2R tol) (objQ2R o) d (map Q2R ks).
Proof. exact @obj_split_snapped_transfer. Qed.
Print Assumptions C07_executed_is_proved_split_snapped.

Theorem C07_append_ok :
  forall (tol : R) (o1 o2 : obj R),
         clamped_curve tol o1 ->
         clamped_curve tol o2 ->
         forall d1 d2 : obj R,
         Order.obj_raise_order tol (fst (Identical.obj_compatible o1 o2))
           [(b_order (nth 0 (o_bases o2) dflt_basis) - b_order (nth 0 (o_bases o1) dflt_basis))%nat] = 
         Ok d1 ->
         Order.obj_raise_order tol (snd (Identical.obj_compatible o1 o2))
           [(b_order (nth 0 (o_bases o1) dflt_basis) - b_order (nth 0 (o_bases o2) dflt_basis))%nat] = 
         Ok d2 ->
         obj_append tol o1 o2 =
         Ok
           (append_result d1 d2
              (Nat.max (b_order (nth 0 (o_bases o1) dflt_basis)) (b_order (nth 0 (o_bases o2) dflt_basis)))).
Proof. exact @append_ok. Qed.
Print Assumptions C07_append_ok.

Theorem C07_append_same_order_ok :
  forall (tol : R) (o1 o2 : obj R),
         clamped_curve tol o1 ->
         clamped_curve tol o2 ->
         b_order (nth 0 (o_bases o1) dflt_basis) = b_order (nth 0 (o_bases o2) dflt_basis) ->
         let c := Identical.obj_compatible o1 o2 in
         obj_append tol o1 o2 = Ok (append_result (fst c) (snd c) (b_order (nth 0 (o_bases o1) dflt_basis))).
Proof. exact @append_same_order_ok. Qed.
Print Assumptions C07_append_same_order_ok.

Theorem C07_append_end_to_end :
  forall (tol : R) (o1 o2 d1 d2 : obj R),
         0 < tol ->
         clamped_curve tol o1 ->
         clamped_curve tol o2 ->
         let b1 := nth 0 (o_bases o1) dflt_basis in
         let b2 := nth 0 (o_bases o2) dflt_basis in
         let p1 := b_order b1 in
         let p2 := b_order b2 in
         let c := Identical.obj_compatible o1 o2 in
         (2 <= Nat.max p1 p2)%nat ->
         ((p1 < p2)%nat -> separated tol (b_knots b1)) ->
         ((p2 < p1)%nat -> separated tol (b_knots b2)) ->
         Order.obj_raise_order tol (fst c) [(p2 - p1)%nat] = Ok d1 ->
         Order.obj_raise_order tol (snd c) [(p1 - p2)%nat] = Ok d2 ->
         last (o_cps d1) [] = hd [] (o_cps d2) ->
         exists o : obj R, obj_append tol o1 o2 = Ok o /\ append_spec tol o1 o2 o.
Proof. exact @append_end_to_end. Qed.
Print Assumptions C07_append_end_to_end.

Theorem C07_append_end_to_end_same_order :
  forall (tol : R) (o1 o2 : obj R),
         0 < tol ->
         clamped_curve tol o1 ->
         clamped_curve tol o2 ->
         b_order (nth 0 (o_bases o1) dflt_basis) = b_order (nth 0 (o_bases o2) dflt_basis) ->
         (2 <= b_order (nth 0 (o_bases o1) dflt_basis))%nat ->
         let c := Identical.obj_compatible o1 o2 in
         last (o_cps (fst c)) [] = hd [] (o_cps (snd c)) ->
         exists o : obj R, obj_append tol o1 o2 = Ok o /\ append_spec tol o1 o2 o.
Proof. exact @append_end_to_end_same_order. Qed.
Print Assumptions C07_append_end_to_end_same_order.

Theorem C07_split_append_rejoin :
  forall (tol : R) (o : obj R) (p : nat) (k : list R) (x : R) (fuel : nat) (pieces : list (obj R)),
         split_hyps tol o 0 p k [x] ->
         length (o_bases o) = 1%nat ->
         RaiseAmount.open_knots k p ->
         (2 <= p)%nat ->
         (mult k x < p)%nat ->
         obj_split fuel tol o 0 [x] = Ok pieces ->
         exists r : obj R, obj_append tol (nth 0 pieces o) (nth 1 pieces o) = Ok r /\ rejoin_spec tol o p k x r.
Proof. exact @split_append_rejoin. Qed.
Print Assumptions C07_split_append_rejoin.

Theorem C07_split_append_roundtrip :
  forall (tol : R) (o : obj R) (p : nat) (k : list R) (x : R) (fuel : nat),
         split_hyps tol o 0 p k [x] ->
         length (o_bases o) = 1%nat ->
         RaiseAmount.open_knots k p ->
         (2 <= p)%nat ->
         (mult k x < p)%nat ->
         (1 <= fuel)%nat ->
         exists (pieces : list (obj R)) (r : obj R),
           obj_split fuel tol o 0 [x] = Ok pieces /\
           length pieces = 2%nat /\
           obj_append tol (nth 0 pieces o) (nth 1 pieces o) = Ok r /\ rejoin_spec tol o p k x r.
Proof. exact @split_append_roundtrip. Qed.
Print Assumptions C07_split_append_roundtrip.

Theorem C07_example_append :
  exists o : obj R,
           obj_append (1 / 100)
             {|
               o_bases := [{| b_order := 2; b_knots := [0; 0; 1; 1]; b_per1 := 0 |}];
               o_cps := [[0; 0]; [1; 0]];
               o_dim := 2;
               o_rat := false
             |}
             {|
               o_bases := [{| b_order := 2; b_knots := [0; 0; 2; 2]; b_per1 := 0 |}];
               o_cps := [[1; 0; 0]; [1; 1; 1]];
               o_dim := 3;
               o_rat := false
             |} = Ok o /\
           append_spec (1 / 100)
             {|
               o_bases := [{| b_order := 2; b_knots := [0; 0; 1; 1]; b_per1 := 0 |}];
               o_cps := [[0; 0]; [1; 0]];
               o_dim := 2;
               o_rat := false
             |}
             {|
               o_bases := [{| b_order := 2; b_knots := [0; 0; 2; 2]; b_per1 := 0 |}];
               o_cps := [[1; 0; 0]; [1; 1; 1]];
               o_dim := 3;
               o_rat := false
             |} o.
Proof. exact @example_append. Qed.
Print Assumptions C07_example_append.

Theorem C07_example_rejoin :
  exists (pieces : list (obj R)) (r : obj R),
           obj_split 1 (1 / 100)
             {|
               o_bases := [{| b_order := 3; b_knots := [0; 0; 0; 1; 2; 2; 2]; b_per1 := 0 |}];
               o_cps := [[0; 0]; [1; 2]; [3; 2]; [4; 0]];
               o_dim := 2;
               o_rat := false
             |} 0 [1 / 2] = Ok pieces /\
           length pieces = 2%nat /\
           obj_append (1 / 100)
             (nth 0 pieces
                {|
                  o_bases := [{| b_order := 3; b_knots := [0; 0; 0; 1; 2; 2; 2]; b_per1 := 0 |}];
                  o_cps := [[0; 0]; [1; 2]; [3; 2]; [4; 0]];
                  o_dim := 2;
                  o_rat := false
                |})
             (nth 1 pieces
                {|
                  o_bases := [{| b_order := 3; b_knots := [0; 0; 0; 1; 2; 2; 2]; b_per1 := 0 |}];
                  o_cps := [[0; 0]; [1; 2]; [3; 2]; [4; 0]];
                  o_dim := 2;
                  o_rat := false
                |}) = Ok r /\
           rejoin_spec (1 / 100)
             {|
               o_bases := [{| b_order := 3; b_knots := [0; 0; 0; 1; 2; 2; 2]; b_per1 := 0 |}];
               o_cps := [[0; 0]; [1; 2]; [3; 2]; [4; 0]];
               o_dim := 2;
               o_rat := false
             |} 3 [0; 0; 0; 1; 2; 2; 2] (1 / 2) r.
Proof. exact @example_rejoin. Qed.
Print Assumptions C07_example_rejoin.

Theorem C07_splitvector_length :
  forall len parts : nat, (1 <= parts)%nat -> length (splitvector len parts) = parts.
Proof. exact @splitvector_length. Qed.
Print Assumptions C07_splitvector_length.

Theorem C07_splitvector_bound :
  forall len parts i : nat, (1 <= len)%nat -> (1 <= parts)%nat -> In i (splitvector len parts) -> (i < len)%nat.
Proof. exact @splitvector_bound. Qed.
Print Assumptions C07_splitvector_bound.

Theorem C07_splitvector_increasing :
  forall len parts : nat, (1 <= parts <= len)%nat -> Sorted.StronglySorted lt (splitvector len parts).
Proof. exact @splitvector_increasing. Qed.
Print Assumptions C07_splitvector_increasing.

Theorem C07_sub_points_knots :
  forall (tol : R) (o : obj R) (d p : nat) (k : list R) (per1 nd : nat),
         nth d (o_bases o) dflt_basis = {| b_order := p; b_knots := k; b_per1 := per1 |} ->
         (1 <= p)%nat -> (p <= length k)%nat -> Forall (fun x : R => In x k) (sub_points tol o d nd).
Proof. exact @sub_points_knots. Qed.
Print Assumptions C07_sub_points_knots.

Theorem C07_sub_points_length :
  forall (tol : R) (o : obj R) (d nd : nat), length (sub_points tol o d nd) = nd.
Proof. exact @sub_points_length. Qed.
Print Assumptions C07_sub_points_length.

Theorem C07_subdivide_step :
  forall (tol : R) (o : obj R) (d p : nat) (k : list R) (nd : nat),
         0 < tol ->
         wf_obj_R tol o ->
         (d < length (o_bases o))%nat ->
         nth d (o_bases o) dflt_basis = {| b_order := p; b_knots := k; b_per1 := 0 |} ->
         separated tol k ->
         (forall v : R, (mult k v <= p)%nat) ->
         Sorted.Sorted (gap tol) (st p k :: sub_points tol o d nd ++ [en p k]) ->
         forall acc : list (obj R),
         exists pieces : list (obj R),
           sub_split_one tol acc o d nd = Ok (acc ++ pieces) /\
           length pieces = S nd /\
           length (sub_points tol o d nd) = nd /\
           (forall j : nat,
            (j <= nd)%nat ->
            let pj := nth j pieces o in
            let bj := nth d (o_bases pj) dflt_basis in
            wf_obj_R tol pj /\
            length (o_bases pj) = length (o_bases o) /\
            (forall i : nat, i <> d -> nth i (o_bases pj) dflt_basis = nth i (o_bases o) dflt_basis) /\
            b_order bj = p /\
            b_per1 bj = 0%nat /\
            b_start bj = nth j (ends p k (sub_points tol o d nd)) 0 /\
            b_end bj = nth (S j) (ends p k (sub_points tol o d nd)) 0 /\
            nth j (ends p k (sub_points tol o d nd)) 0 + 2 * tol <= nth (S j) (ends p k (sub_points tol o d nd)) 0 /\
            (forall ts : list R,
             piece_param tol o d p k (sub_points tol o d nd) j ts -> obj_eval tol pj ts = obj_eval tol o ts)).
Proof. exact @subdivide_step. Qed.
Print Assumptions C07_subdivide_step.

Theorem C07_sub_dir_concat :
  forall (tol : R) (d nd : nat) (objs : list (obj R)) (pss : list (list (obj R))),
         Forall2 (fun (o : obj R) (ps : list (obj R)) => sub_split_one tol [] o d nd = Ok ps) objs pss ->
         forall acc : list (obj R), sub_dir tol acc objs d nd = Ok (acc ++ concat pss).
Proof. exact @sub_dir_concat. Qed.
Print Assumptions C07_sub_dir_concat.

Theorem C07_subdivide_curve :
  forall (tol : R) (o : obj R) (p : nat) (k : list R) (n : nat),
         0 < tol ->
         wf_obj_R tol o ->
         o_bases o = [{| b_order := p; b_knots := k; b_per1 := 0 |}] ->
         separated tol k ->
         (forall v : R, (mult k v <= p)%nat) ->
         Sorted.Sorted (gap tol) (st p k :: sub_points tol o 0 n ++ [en p k]) ->
         exists pieces : list (obj R),
           subdivide tol [o] (NInt n) = Ok pieces /\
           (forall more : list nat, subdivide tol [o] (NList (n :: more)) = Ok pieces) /\
           length pieces = S n /\
           length (sub_points tol o 0 n) = n /\
           Forall (fun x : R => In x k) (sub_points tol o 0 n) /\
           (forall j : nat,
            (j <= n)%nat ->
            let pj := nth j pieces o in
            let bj := nth 0 (o_bases pj) dflt_basis in
            wf_obj_R tol pj /\
            length (o_bases pj) = 1%nat /\
            b_order bj = p /\
            b_per1 bj = 0%nat /\
            b_start bj = nth j (ends p k (sub_points tol o 0 n)) 0 /\
            b_end bj = nth (S j) (ends p k (sub_points tol o 0 n)) 0 /\
            nth j (ends p k (sub_points tol o 0 n)) 0 + 2 * tol <= nth (S j) (ends p k (sub_points tol o 0 n)) 0 /\
            (forall ts : list R,
             piece_param tol o 0 p k (sub_points tol o 0 n) j ts -> obj_eval tol pj ts = obj_eval tol o ts)).
Proof. exact @subdivide_curve. Qed.
Print Assumptions C07_subdivide_curve.

Theorem C07_subdivide_curve_zero :
  forall (tol : R) (o : obj R) (p : nat) (k : list R),
         0 < tol ->
         wf_obj_R tol o ->
         o_bases o = [{| b_order := p; b_knots := k; b_per1 := 0 |}] ->
         separated tol k ->
         (forall v : R, (mult k v <= p)%nat) ->
         exists p0 : obj R,
           subdivide tol [o] (NInt 0) = Ok [p0] /\
           wf_obj_R tol p0 /\
           b_order (nth 0 (o_bases p0) dflt_basis) = p /\
           b_per1 (nth 0 (o_bases p0) dflt_basis) = 0%nat /\
           b_start (nth 0 (o_bases p0) dflt_basis) = st p k /\
           b_end (nth 0 (o_bases p0) dflt_basis) = en p k /\
           (forall t : R, st p k <= t <= en p k -> obj_eval tol p0 [t] = obj_eval tol o [t]).
Proof. exact @subdivide_curve_zero. Qed.
Print Assumptions C07_subdivide_curve_zero.

Theorem C07_subdivide_periodic_curve_zero :
  forall (tol : R) (o : obj R) (b : basis R),
         o_bases o = [b] ->
         b_per1 b <> 0%nat ->
         subdivide tol [o] (NInt 0) = Err IndexError /\ (exists e : err, subdivide tol [o] (NInt 1) = Err e).
Proof. exact @subdivide_periodic_curve_zero. Qed.
Print Assumptions C07_subdivide_periodic_curve_zero.

Theorem C07_subdivide_surface :
  forall (tol : R) (o : obj R) (p0 p1 : nat) (k0 k1 : list R) (n0 n1 : nat),
         0 < tol ->
         wf_obj_R tol o ->
         o_bases o = [{| b_order := p0; b_knots := k0; b_per1 := 0 |}; {| b_order := p1; b_knots := k1; b_per1 := 0 |}] ->
         separated tol k0 ->
         separated tol k1 ->
         (forall v : R, (mult k0 v <= p0)%nat) ->
         (forall v : R, (mult k1 v <= p1)%nat) ->
         Sorted.Sorted (gap tol) (st p0 k0 :: sub_points tol o 0 n0 ++ [en p0 k0]) ->
         Sorted.Sorted (gap tol) (st p1 k1 :: sub_points tol o 1 n1 ++ [en p1 k1]) ->
         exists mid pieces : list (obj R),
           sub_dir tol [] [o] 0 n0 = Ok mid /\
           length mid = S n0 /\
           subdivide tol [o] (NList [n0; n1]) = Ok pieces /\
           length pieces = (S n0 * S n1)%nat /\
           (forall i j : nat,
            (i <= n0)%nat ->
            (j <= n1)%nat ->
            let pi := nth i mid o in
            let pij := nth (i * S n1 + j) pieces o in
            let b0 := nth 0 (o_bases pij) dflt_basis in
            let b1 := nth 1 (o_bases pij) dflt_basis in
            wf_obj_R tol pij /\
            length (o_bases pij) = 2%nat /\
            b_order b0 = p0 /\
            b_per1 b0 = 0%nat /\
            b_order b1 = p1 /\
            b_per1 b1 = 0%nat /\
            b_start b0 = nth i (ends p0 k0 (sub_points tol o 0 n0)) 0 /\
            b_end b0 = nth (S i) (ends p0 k0 (sub_points tol o 0 n0)) 0 /\
            b_start b1 = nth j (ends p1 k1 (sub_points tol o 1 n1)) 0 /\
            b_end b1 = nth (S j) (ends p1 k1 (sub_points tol o 1 n1)) 0 /\
            (forall ts : list R,
             piece_param tol o 0 p0 k0 (sub_points tol o 0 n0) i ts ->
             piece_param tol pi 1 p1 k1 (sub_points tol o 1 n1) j ts -> obj_eval tol pij ts = obj_eval tol o ts)).
Proof. exact @subdivide_surface. Qed.
Print Assumptions C07_subdivide_surface.

Theorem C07_subdivide_count_refuted :
  exists (tol : Q) (o : obj Q) (n : nat) (pieces : list (obj Q)),
           subdivide tol [o] (NInt n) = Ok pieces /\ length pieces <> S n.
Proof. exact @subdivide_count_refuted. Qed.
Print Assumptions C07_subdivide_count_refuted.

Theorem C07_subdivide_equidistant_refuted :
  q_domains (subdivide q_tol [q_c] (NInt 1)) = inl [[(0%Q, 2%Q)]; [(2%Q, 3%Q)]] /\
         q_domains (subdivide q_tol [q_c] (NInt 1)) <> inl [[(0%Q, 3 # 2)]; [(3 # 2, 3%Q)]].
Proof. exact @subdivide_equidistant_refuted. Qed.
Print Assumptions C07_subdivide_equidistant_refuted.

