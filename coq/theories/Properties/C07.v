(* C07 — Splitting yields exact restrictions tiling the object; appending re-joins them.
   Model: Model/Split.v (transcription of SplineObject.split incl. the periodic roll, BSplineBasis.roll). *)
From Coq Require Import List Arith Reals Lra Lia Bool ZArith QArith.
From SplipyModel Require Import Spec.BSpline Spec.Join Model.Num Model.BasisDef Model.Tensor Model.Obj Model.KnotInsert Model.Split Model.Append
  Proofs.TensorLemmas Proofs.TensorApply Proofs.SplitProofs Proofs.AppendProofs Extract.Exec.
Import ListNotations.
Open Scope R_scope.

(* 1. restriction at basis level: on the domain [k(a+q), k(a+m)] of a piece that keeps the knots a .. a+m+q,
      the full row of basis values is the piece's row placed at columns a .. a+m-1 (everything else vanishes);
      both one-sided variants, any knot multiplicities *)
Theorem C07_restriction (side : bool) (k : nat -> R) : sorted k -> forall q n a m t, (a + m <= n)%nat ->
  (if side then k (a + q)%nat <= t < k (a + m)%nat else k (a + q)%nat < t <= k (a + m)%nat) ->
  row_rel (Nfull side k q n t) (Npiece side k q a m t) (slice_matrix n a m).
Proof. intros Hk q n a m t Ham Ht. exact (row_rel_slice side k Hk q n a m t Ham Ht). Qed.
Print Assumptions C07_restriction.

(* 2. object level, any pardim and direction: the sliced control net with the piece's own basis evaluates,
      coordinate by coordinate, to the original object at every parameter of the piece's domain *)
Theorem C07_split_piece_is_restriction (side : bool) (k : nat -> R) : sorted k -> forall q n a m t, (a + m <= n)%nat ->
  (if side then k (a + q)%nat <= t < k (a + m)%nat else k (a + q)%nat < t <= k (a + m)%nat) ->
  forall dim c (rows : list (list R)) d cps,
  (d < length rows)%nat -> (c < dim)%nat -> nth d rows [] = Nfull side k q n t ->
  net_ok dim rows cps -> (0 < prodl (map (@length R) rows))%nat ->
  tsum (upd rows d (Npiece side k q a m t)) (cnet dim c (apply_dir dim (map (@length R) rows) d (slice_matrix n a m) cps))
  = tsum rows (cnet dim c cps).
Proof. intros Hk q n a m t Ham Ht. exact (split_piece_is_restriction side k Hk q n a m t Ham Ht). Qed.
Print Assumptions C07_split_piece_is_restriction.

(* 3. joining at a C0 knot (the converse of 1): if K has q copies of e at the indices J+1 .. J+q, the spline over K
      with coefficients c is, left of e, the spline over K1 (K up to index J+q, then e) with c_0 .. c_J, and, right of
      e, the spline over K2 (e, then K from index J+1 on) with c_J, c_{J+1}, ...; both one-sided variants *)
Theorem C07_join (side : bool) (K : nat -> R) (q J : nat) (e : R) (c : nat -> R) n t : sorted K -> (1 <= q)%nat ->
  (forall m, (1 <= m <= q)%nat -> K (J + m)%nat = e) -> (J < n)%nat ->
  (left_of side e t -> sumf (fun i => c i * B side K q i t) 0 n = sumf (fun i => c i * B side (K1 K q J e) q i t) 0 (S J)) /\
  (right_of side e t -> sumf (fun i => c i * B side K q i t) 0 n = sumf (fun m => c (J + m)%nat * B side (K2 K J e) q m t) 0 (n - J)).
Proof. intros HK Hq He Hn. split; [exact (join_left side K HK q J e Hq He c n t Hn)|exact (join_right side K HK q J e Hq He c n t Hn)]. Qed.
Print Assumptions C07_join.

(* 4. Curve.append: with the knot vector the model (and the code) builds from two clamped knot vectors of the same
      order p >= 2 and the control net c1 ++ tl c2, the joined curve is the first curve left of the junction and the
      second curve (parameter shifted by end1 - start2) right of it, provided they share the junction control point.
      Coordinate by coordinate, hence for rational curves in homogeneous form too. *)
Theorem C07_append (k1 k2 : list R) (p : nat) (c1 c2 : list R) (side : bool) (t : R) :
  (2 <= p)%nat -> sorted (@kn R NumR k1) -> sorted (@kn R NumR k2) -> (2 * p <= length k1)%nat -> (2 * p <= length k2)%nat ->
  (forall i, (i < p)%nat -> nth (length k1 - 1 - i) k1 0 = last k1 0) -> (forall i, (i < p)%nat -> nth i k2 0 = hd 0 k2) ->
  length c1 = (length k1 - p)%nat -> length c2 = (length k2 - p)%nat -> nth (length k1 - p - 1) c1 0 = nth 0 c2 0 ->
  let K := @append_knots R NumR p k1 k2 in let n := (length k1 - p + (length k2 - p) - 1)%nat in
  (left_of side (last k1 0) t ->
     sumf (fun i => nth i (c1 ++ tl c2) 0 * B side (@kn R NumR K) (p - 1) i t) 0 n
     = sumf (fun i => nth i c1 0 * B side (@kn R NumR k1) (p - 1) i t) 0 (length k1 - p)) /\
  (right_of side (last k1 0) t ->
     sumf (fun i => nth i (c1 ++ tl c2) 0 * B side (@kn R NumR K) (p - 1) i t) 0 n
     = sumf (fun m => nth m c2 0 * B side (@kn R NumR k2) (p - 1) m (t - last k1 0 + hd 0 k2)) 0 (length k2 - p)).
Proof.
  intros Hp S1 S2 L1 L2 He Hs Hc1 Hc2 Hj. cbv zeta. split.
  - exact (append_left k1 k2 p Hp S1 S2 L1 L2 He Hs c1 c2 Hc1 Hc2 side t).
  - exact (append_right k1 k2 p Hp S1 S2 L1 L2 He Hs c1 c2 Hc1 Hc2 Hj side t).
Qed.
Print Assumptions C07_append.

(* PARTIAL: that split() cuts exactly at knots of multiplicity 'order' (via C04 insertion), the tiling of the
   domain, the periodic branch (roll) and the order/rationality unification inside append (C05, C09) are covered by the transcription + correspondence (L1) and by
   the statement evaluated on the implementation (L2) only. *)

(* non-vacuity, executed on Q: splitting a rational quadratic curve at a new point gives two pieces that
   evaluate to the original *)
Example C07_example :
  let b := q_mkBasis 3 [0; 0; 0; 1; 2; 2; 2]%Q 0 in
  let o := q_mkObj [b] [[0;0;1]; [2;2;2]; [3;1;1]; [8;0;2]]%Q 2 true in
  match q_obj_split (1#10000000000) o 0 [(1#2)%Q] with
  | Ok [p1; p2] =>
      b_knots (nth 0 (o_bases p1) b) = [0; 0; 0; 1#2; 1#2; 1#2]%Q /\
      map Qred (b_knots (nth 0 (o_bases p2) b)) = [1#2; 1#2; 1#2; 1; 2; 2; 2]%Q /\
      (match q_obj_eval (1#10000000000) p2 [(3#2)%Q] with Ok v => map Qred v | Err _ => [] end)
      = (match q_obj_eval (1#10000000000) o [(3#2)%Q] with Ok v => map Qred v | Err _ => [] end)
  | _ => False
  end.
Proof. vm_compute. repeat split; reflexivity. Qed.
