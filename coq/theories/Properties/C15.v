(* C15 — Boundary extraction and boundary-filling constructions agree with evaluation.
   Model: Model/Section.v (section = apply the 1 x n selection matrix along the pinned directions), Spec/BSpline.v. *)
From Coq Require Import List Arith Reals Lra Lia Bool ZArith QArith Qreals.
From SplipyModel Require Import Spec.BSpline Model.Num Model.BasisDef Model.BasisEval Model.Tensor Model.Obj Model.KnotInsert Model.Section
  Proofs.TensorLemmas Proofs.TensorApply Proofs.InterpProofs Proofs.SectionProofs Extract.Exec.
Import ListNotations.
Open Scope R_scope.

(* 1. at a knot of multiplicity q (t = k_m, k_j = t for m-q < j <= m) exactly one degree-q B-spline is one and all
      others vanish: clamped ends (q = p - 1) and the C0 knots produced by const_par_curve's insertions *)
Theorem C15_full_multiplicity_knot (k : nat -> R) m t : sorted k -> t = k m -> k m < k (S m) ->
  forall q, (q <= m)%nat -> (forall j, (m - q < j <= m)%nat -> k j = t) ->
  forall i, B true k q i t = if (i =? m - q)%nat then 1 else 0.
Proof. intros Hs. exact (B_at_full_mult_knot k Hs m t). Qed.
Print Assumptions C15_full_multiplicity_knot.
Theorem C15_full_multiplicity_knot_left (k : nat -> R) m t : sorted k -> t = k (S m) -> k m < k (S m) ->
  forall q, (forall j, (m + 1 <= j <= m + q)%nat -> k j = t) ->
  forall i, B false k q i t = if (i =? m)%nat then 1 else 0.
Proof. intros Hs. exact (B_at_full_mult_knot_left k Hs m t). Qed.
Print Assumptions C15_full_multiplicity_knot_left.

(* 2. the rows evaluate() uses at the two ends of an open (clamped) direction are the unit rows e_0 and e_{n-1}
      (C01_evaluate_spec: the row at a parameter is ref_row at the normalised parameter; the end is taken from the left) *)
Theorem C15_clamped_start_row (k : list R) p : sorted (kn k) -> (1 <= p)%nat -> (p <= length k - p)%nat ->
  (forall j, (j < p)%nat -> kn k j = kn k (p - 1)) -> kn k (p - 1) < kn k p ->
  @ref_row R NumR true k p 0 0 (kn k (p - 1)) = unit_row (length k - p) 0.
Proof. exact (clamped_start_row k p). Qed.
Print Assumptions C15_clamped_start_row.
Theorem C15_clamped_end_row (k : list R) p : sorted (kn k) -> (1 <= p)%nat -> (p <= length k - p)%nat ->
  (forall j, (length k - p <= j < length k - p + p)%nat -> kn k j = kn k (length k - p)) -> kn k (length k - p - 1) < kn k (length k - p) ->
  @ref_row R NumR false k p 0 0 (kn k (length k - p)) = unit_row (length k - p) (length k - p - 1).
Proof. exact (clamped_end_row k p). Qed.
Print Assumptions C15_clamped_end_row.

(* 3. sections are restrictions: with the unit row e_idx in direction d, contracting the full net equals contracting
      the net sliced by the selection matrix with the trivial row [1] there, and such a direction can be dropped *)
Theorem C15_section_is_restriction dim c rows d cps idx :
  (d < length rows)%nat -> (c < dim)%nat -> net_ok dim rows cps -> (0 < prodl (map (@length R) rows))%nat ->
  nth d rows [] = unit_row (length (nth d rows [])) idx -> (idx < length (nth d rows []))%nat ->
  tsum (@upd (list R) rows d [1])
       (cnet dim c (@apply_dir R NumR dim (map (@length R) rows) d (@sel_matrix R NumR (length (nth d rows [])) idx) cps))
  = tsum rows (cnet dim c cps).
Proof. exact (section_one_direction dim c rows d cps idx). Qed.
Print Assumptions C15_section_is_restriction.
Theorem C15_pinned_direction_drops (rows1 rows2 : list (list R)) f :
  tsum (rows1 ++ [1] :: rows2) f = tsum (rows1 ++ rows2) f.
Proof. exact (tsum_drop_one rows1 rows2 f). Qed.
Print Assumptions C15_pinned_direction_drops.

(* 4. Coons patches: the bilinearly blended surface of four curves meeting at their corners has exactly those
      curves as its boundary (edge_curves with four curves builds this combination from two ruled surfaces and the
      bilinear corner patch); the trilinear version for six faces *)
Theorem C15_coons_boundary (bottom top left right : R -> R) :
  left 0 = bottom 0 -> right 0 = bottom 1 -> left 1 = top 0 -> right 1 = top 1 ->
  forall u v, coons bottom top left right u 0 = bottom u /\ coons bottom top left right u 1 = top u /\
              coons bottom top left right 0 v = left v /\ coons bottom top left right 1 v = right v.
Proof. intros H1 H2 H3 H4. exact (coons_boundary bottom top left right H1 H2 H3 H4). Qed.
Print Assumptions C15_coons_boundary.
Theorem C15_coons3_boundary (U V W : bool -> R -> R -> R) :
  (forall i j w, V j (r01 i) w = U i (r01 j) w) -> (forall i k v, W k (r01 i) v = U i v (r01 k)) ->
  forall i0 x y, coons3 U V W (r01 i0) x y = U i0 x y.
Proof. intros H1 H2. exact (coons3_boundary_u U V W H1 H2). Qed.
Print Assumptions C15_coons3_boundary.

(* non-vacuity: the u = max edge of a biquadratic-by-linear rational surface, executed *)
Example C15_example :
  let bu := q_mkBasis 3 [0; 0; 0; 1; 1; 1]%Q 0 in
  let bv := q_mkBasis 2 [0; 0; 1; 1]%Q 0 in
  let o := q_mkObj [bu; bv] [[0;0;1]; [0;2;1]; [1;0;2]; [2;4;2]; [3;1;1]; [3;3;1]]%Q 2 true in
  o_cps (q_obj_section o [1; 2]%nat) = [[3;1;1]; [3;3;1]]%Q /\ length (o_bases (q_obj_section o [1; 2]%nat)) = 1%nat.
Proof. vm_compute. split; reflexivity. Qed.
