(* C15 — Boundary extraction and boundary-filling constructions agree with evaluation.
   Model: Model/Section.v (section = apply the 1 x n selection matrix along the pinned directions), Spec/BSpline.v. *)
From Coq Require Import List Arith Reals Lra Lia Bool ZArith QArith Qreals.
From SplipyModel Require Import Spec.BSpline Model.Num Model.BasisDef Model.BasisEval Model.Tensor Model.Obj Model.KnotInsert Model.Section
  Proofs.TensorLemmas Proofs.TensorApply Proofs.InterpProofs Proofs.SectionProofs Extract.Exec.
Import ListNotations.
Open Scope R_scope.

(* 1. at a knot of multiplicity q (t = k_m, k_j = t for m-q < j <= m) exactly one degree-q B-spline is one and all
      others vanish: clamped ends (q = p - 1) and the C0 knots produced by const_par_curve's insertions *)
Theorem C15_full_multiplicity_knot (k : nat -> R) m t : sorted k -> t = k m -> k m < k (S m) ->
  forall q, (q <= m)%nat -> (forall j, (m - q < j <= m)%nat -> k j = t) ->
  forall i, B true k q i t = if (i =? m - q)%nat then 1 else 0.
Proof. intros Hs. exact (B_at_full_mult_knot k Hs m t). Qed.
Print Assumptions C15_full_multiplicity_knot.
Theorem C15_full_multiplicity_knot_left (k : nat -> R) m t : sorted k -> t = k (S m) -> k m < k (S m) ->
  forall q, (forall j, (m + 1 <= j <= m + q)%nat -> k j = t) ->
  forall i, B false k q i t = if (i =? m)%nat then 1 else 0.
Proof. intros Hs. exact (B_at_full_mult_knot_left k Hs m t). Qed.
Print Assumptions C15_full_multiplicity_knot_left.

(* 2. the rows evaluate() uses at the two ends of an open (clamped) direction are the unit rows e_0 and e_{n-1}
      (C01_evaluate_spec: the row at a parameter is ref_row at the normalised parameter; the end is taken from the left) *)
Theorem C15_clamped_start_row (k : list R) p : sorted (kn k) -> (1 <= p)%nat -> (p <= length k - p)%nat ->
  (forall j, (j < p)%nat -> kn k j = kn k (p - 1)) -> kn k (p - 1) < kn k p ->
  @ref_row R NumR true k p 0 0 (kn k (p - 1)) = unit_row (length k - p) 0.
Proof. exact (clamped_start_row k p). Qed.
Print Assumptions C15_clamped_start_row.
Theorem C15_clamped_end_row (k : list R) p : sorted (kn k) -> (1 <= p)%nat -> (p <= length k - p)%nat ->
  (forall j, (length k - p <= j < length k - p + p)%nat -> kn k j = kn k (length k - p)) -> kn k (length k - p - 1) < kn k (length k - p) ->
  @ref_row R NumR false k p 0 0 (kn k (length k - p)) = unit_row (length k - p) (length k - p - 1).
Proof. exact (clamped_end_row k p). Qed.
Print Assumptions C15_clamped_end_row.

(* 3. sections are restrictions: with the unit row e_idx in direction d, contracting the full net equals contracting
      the net sliced by the selection matrix with the trivial row [1] there, and such a direction can be dropped *)
Theorem C15_section_is_restriction dim c rows d cps idx :
  (d < length rows)%nat -> (c < dim)%nat -> net_ok dim rows cps -> (0 < prodl (map (@length R) rows))%nat ->
  nth d rows [] = unit_row (length (nth d rows [])) idx -> (idx < length (nth d rows []))%nat ->
  tsum (@upd (list R) rows d [1])
       (cnet dim c (@apply_dir R NumR dim (map (@length R) rows) d (@sel_matrix R NumR (length (nth d rows [])) idx) cps))
  = tsum rows (cnet dim c cps).
Proof. exact (section_one_direction dim c rows d cps idx). Qed.
Print Assumptions C15_section_is_restriction.
Theorem C15_pinned_direction_drops (rows1 rows2 : list (list R)) f :
  tsum (rows1 ++ [1] :: rows2) f = tsum (rows1 ++ rows2) f.
Proof. exact (tsum_drop_one rows1 rows2 f). Qed.
Print Assumptions C15_pinned_direction_drops.

(* 4. Coons patches: the bilinearly blended surface of four curves meeting at their corners has exactly those
      curves as its boundary (edge_curves with four curves builds this combination from two ruled surfaces and the
      bilinear corner patch); the trilinear version for six faces *)
Theorem C15_coons_boundary (bottom top left right : R -> R) :
  left 0 = bottom 0 -> right 0 = bottom 1 -> left 1 = top 0 -> right 1 = top 1 ->
  forall u v, coons bottom top left right u 0 = bottom u /\ coons bottom top left right u 1 = top u /\
              coons bottom top left right 0 v = left v /\ coons bottom top left right 1 v = right v.
Proof. intros H1 H2 H3 H4. exact (coons_boundary bottom top left right H1 H2 H3 H4). Qed.
Print Assumptions C15_coons_boundary.
Theorem C15_coons3_boundary (U V W : bool -> R -> R -> R) :
  (forall i j w, V j (r01 i) w = U i (r01 j) w) -> (forall i k v, W k (r01 i) v = U i v (r01 k)) ->
  forall i0 x y, coons3 U V W (r01 i0) x y = U i0 x y.
Proof. intros H1 H2. exact (coons3_boundary_u U V W H1 H2). Qed.
Print Assumptions C15_coons3_boundary.

(* non-vacuity: the u = max edge of a biquadratic-by-linear rational surface, executed *)
Example C15_example :
  let bu := q_mkBasis 3 [0; 0; 0; 1; 1; 1]%Q 0 in
  let bv := q_mkBasis 2 [0; 0; 1; 1]%Q 0 in
  let o := q_mkObj [bu; bv] [[0;0;1]; [0;2;1]; [1;0;2]; [2;4;2]; [3;1;1]; [3;3;1]]%Q 2 true in
  o_cps (q_obj_section o [1; 2]%nat) = [[3;1;1]; [3;3;1]]%Q /\ length (o_bases (q_obj_section o [1; 2]%nat)) = 1%nat.
Proof. vm_compute. split; reflexivity. Qed.

(* ------------------------------------------------------------------------------------------------------
   Added in build session 4 (statements re-stated from the proof files by harness tooling; each is closed by
   exact). *)
From SplipyModel Require Import Proofs.ObjEval Model.ConstPar Proofs.SplitCompose Proofs.SectionEndToEnd Transfer.ParamObj Transfer.ParamOps Transfer.ParamOps2 Model.EdgeLoop Proofs.EdgeLoopProofs Proofs.EdgeLoopBridge Model.CoonsLib Proofs.CoonsLibProofs Model.Thicken Proofs.ThickenProofs.
Open Scope R_scope.
Theorem C15_pinned_eval :
  forall (tol : R) (o : obj R),
         wf_obj_R tol o ->
         forall pins : list pin,
         Forall2 (pin_ok tol) pins (o_bases o) ->
         forall ts : list R, obj_eval tol (pinned_obj o pins) ts = obj_eval tol o (fill pins ts).
Proof. exact @pinned_eval. Qed.
Print Assumptions C15_pinned_eval.

Theorem C15_section_then_evaluate_one :
  forall (tol : R) (o : obj R) (d : nat) (last : bool) (ts : list R),
         0 < tol ->
         wf_obj_R tol o ->
         (d < length (o_bases o))%nat ->
         let bd := nth d (o_bases o) dflt_basis in
         b_per1 bd = 0%nat ->
         (if last then clamped_end bd else clamped_start bd) ->
         length ts = (length (o_bases o) - 1)%nat ->
         obj_eval tol (obj_section o (one_sel (length (o_bases o)) d last)) ts =
         obj_eval tol o (firstn d ts ++ (if last then b_end bd else b_start bd) :: skipn d ts).
Proof. exact @section_eval_one. Qed.
Print Assumptions C15_section_then_evaluate_one.

Theorem C15_section_then_evaluate :
  forall tol : R,
         0 < tol ->
         forall o : obj R,
         wf_obj_R tol o ->
         forall sels : list nat,
         Forall2 sec_ok sels (o_bases o) ->
         forall ts : list R, obj_eval tol (obj_section o sels) ts = obj_eval tol o (sec_fill sels (o_bases o) ts).
Proof. exact @section_eval. Qed.
Print Assumptions C15_section_then_evaluate.

Theorem C15_section_wf :
  forall tol : R,
         0 < tol ->
         forall o : obj R,
         wf_obj_R tol o -> forall sels : list nat, Forall2 sec_ok sels (o_bases o) -> wf_obj_R tol (obj_section o sels).
Proof. exact @section_wf. Qed.
Print Assumptions C15_section_wf.

Theorem C15_section_corner :
  forall (tol : R) (o : obj R) (sels : list nat),
         0 < tol ->
         wf_obj_R tol o ->
         Forall2 sec_ok sels (o_bases o) ->
         all_pinned sels ->
         let P := nth (corner_flat sels (o_shape o)) (o_cps o) [] in
         obj_eval tol o (sec_fill sels (o_bases o) []) = Ok (if o_rat o then project_rat (o_dim o) P else P).
Proof. exact @section_corner. Qed.
Print Assumptions C15_section_corner.

Theorem C15_section_is_slice :
  forall (tol : R) (o : obj R) (sels js : list nat),
         wf_obj_R tol o ->
         length sels = length (o_bases o) ->
         Forall2 lt js (o_shape (obj_section o sels)) ->
         nth (ravel (o_shape (obj_section o sels)) js) (o_cps (obj_section o sels)) [] =
         nth (ravel (o_shape o) (sec_idx sels (o_shape o) js)) (o_cps o) [].
Proof. exact @section_cps_slice. Qed.
Print Assumptions C15_section_is_slice.

Theorem C15_surface_edges_order :
  forall (tol : R) (o : obj R) (bu bv : basis R),
         0 < tol ->
         wf_obj_R tol o ->
         o_bases o = [bu; bv] ->
         let E := surface_edges o in
         (b_per1 bu = 0%nat ->
          clamped_start bu -> forall v : R, obj_eval tol (nth 0 E dflt_obj) [v] = obj_eval tol o [b_start bu; v]) /\
         (b_per1 bu = 0%nat ->
          clamped_end bu -> forall v : R, obj_eval tol (nth 1 E dflt_obj) [v] = obj_eval tol o [b_end bu; v]) /\
         (b_per1 bv = 0%nat ->
          clamped_start bv -> forall u : R, obj_eval tol (nth 2 E dflt_obj) [u] = obj_eval tol o [u; b_start bv]) /\
         (b_per1 bv = 0%nat ->
          clamped_end bv -> forall u : R, obj_eval tol (nth 3 E dflt_obj) [u] = obj_eval tol o [u; b_end bv]).
Proof. exact @surface_edges_eval. Qed.
Print Assumptions C15_surface_edges_order.

Theorem C15_volume_faces_order :
  forall (tol : R) (o : obj R) (bu bv bw : basis R),
         0 < tol ->
         wf_obj_R tol o ->
         o_bases o = [bu; bv; bw] ->
         let F := volume_faces o in
         (b_per1 bu = 0%nat ->
          clamped_start bu ->
          exists f : obj R,
            nth 0 F None = Some f /\ (forall v w : R, obj_eval tol f [v; w] = obj_eval tol o [b_start bu; v; w])) /\
         (b_per1 bu = 0%nat ->
          clamped_end bu ->
          exists f : obj R,
            nth 1 F None = Some f /\ (forall v w : R, obj_eval tol f [v; w] = obj_eval tol o [b_end bu; v; w])) /\
         (b_per1 bv = 0%nat ->
          clamped_start bv ->
          exists f : obj R,
            nth 2 F None = Some f /\ (forall u w : R, obj_eval tol f [u; w] = obj_eval tol o [u; b_start bv; w])) /\
         (b_per1 bv = 0%nat ->
          clamped_end bv ->
          exists f : obj R,
            nth 3 F None = Some f /\ (forall u w : R, obj_eval tol f [u; w] = obj_eval tol o [u; b_end bv; w])) /\
         (b_per1 bw = 0%nat ->
          clamped_start bw ->
          exists f : obj R,
            nth 4 F None = Some f /\ (forall u v : R, obj_eval tol f [u; v] = obj_eval tol o [u; v; b_start bw])) /\
         (b_per1 bw = 0%nat ->
          clamped_end bw ->
          exists f : obj R,
            nth 5 F None = Some f /\ (forall u v : R, obj_eval tol f [u; v] = obj_eval tol o [u; v; b_end bw])) /\
         (b_per1 bu <> 0%nat -> nth 0 F None = None /\ nth 1 F None = None) /\
         (b_per1 bv <> 0%nat -> nth 2 F None = None /\ nth 3 F None = None) /\
         (b_per1 bw <> 0%nat -> nth 4 F None = None /\ nth 5 F None = None) /\ length F = 6%nat.
Proof. exact @volume_faces_eval. Qed.
Print Assumptions C15_volume_faces_order.

Theorem C15_volume_edges_order :
  forall (tol : R) (o : obj R) (i : nat) (ts : list R),
         0 < tol ->
         wf_obj_R tol o ->
         (i < 12)%nat ->
         Forall2 sec_ok (nth i (sections 3 1) []) (o_bases o) ->
         obj_eval tol (nth i (volume_edges o) dflt_obj) ts =
         obj_eval tol o (sec_fill (nth i (sections 3 1) []) (o_bases o) ts).
Proof. exact @volume_edges_eval. Qed.
Print Assumptions C15_volume_edges_order.

Theorem C15_corners_order :
  forall (tol : R) (o : obj R) (i : nat),
         0 < tol ->
         wf_obj_R tol o ->
         (o_pardim o <= 3)%nat ->
         (i < length (sections (o_pardim o) 0))%nat ->
         let sel := nth i (sections (o_pardim o) 0) [] in
         let P := nth i (obj_corners o) [] in
         P = nth (corner_flat sel (o_shape o)) (o_cps o) [] /\
         (Forall open_dir (o_bases o) ->
          obj_eval tol o (sec_fill sel (o_bases o) []) = Ok (if o_rat o then project_rat (o_dim o) P else P)).
Proof. exact @corners_eval. Qed.
Print Assumptions C15_corners_order.

Theorem C15_const_par_curve_then_evaluate :
  forall (tol : R) (o : obj R) (bu bv : basis R) (d : nat) (x : R),
         0 < tol ->
         wf_obj_R tol o ->
         o_bases o = [bu; bv] ->
         (d < 2)%nat ->
         let b := nth d [bu; bv] dflt_basis in
         b_per1 b = 0%nat ->
         knot_sep tol (b_knots b) x ->
         b_start b <= x < b_end b /\ (mult (b_knots b) x <= b_order b - 1)%nat \/
         x = b_start b /\ clamped_start b \/ x = b_end b /\ clamped_end b ->
         exists cv : obj R,
           const_par_curve tol o x d = Ok cv /\
           wf_obj_R tol cv /\
           o_bases cv = [nth (1 - d) [bu; bv] dflt_basis] /\
           (forall s : R, obj_eval tol cv [s] = obj_eval tol o (cpc_params d x s)).
Proof. exact @const_par_curve_eval. Qed.
Print Assumptions C15_const_par_curve_then_evaluate.

Theorem C15_extrude_bottom_is_profile :
  forall (dim : nat) (rat : bool) (amount : list R) (prof : list (list R)),
         firstn (length prof) (Factory.extrude_cps dim rat amount prof) = prof /\
         length (Factory.extrude_cps dim rat amount prof) = (2 * length prof)%nat /\
         (forall j : nat, (j < length prof)%nat -> nth j (Factory.extrude_cps dim rat amount prof) [] = nth j prof []).
Proof. exact @extrude_bottom_is_profile. Qed.
Print Assumptions C15_extrude_bottom_is_profile.

Theorem C15_executed_is_proved_section :
  forall (o : obj Q) (sels : list nat), objQ2R (obj_section o sels) = obj_section (objQ2R o) sels.
Proof. exact @obj_section_transfer. Qed.
Print Assumptions C15_executed_is_proved_section.

Theorem C15_loop_order2_sound :
  forall (A : Type) (rd : A -> A) (rtol atol : R) (cs out : list (ecurve (list R) A)),
         loop_order2 rtol atol rd cs = Ok out ->
         exists
           (c0 c1 c2 c3 : ecurve (list R) A) (used : list (ecurve (list R) A)) (b1 b2 b3 : bool) 
         (x1 x2 x3 : ecurve (list R) A),
           cs = [c0; c1; c2; c3] /\
           Permutation.Permutation [c1; c2; c3] used /\
           [x1; x2; x3] = mrevs rd [b1; b2; b3] used /\
           out = [c0; x1; x2; x3] /\ closed_loop rtol atol [c0; x1; x2; x3].
Proof. exact @loop_order2_sound. Qed.
Print Assumptions C15_loop_order2_sound.

Theorem C15_loop_order2_complete :
  forall (A : Type) (rd : A -> A) (rtol atol : R) (c0 c1 c2 c3 u1 u2 u3 : ecurve (list R) A) (b1 b2 b3 : bool),
         Permutation.Permutation [c1; c2; c3] [u1; u2; u3] ->
         closed_loop rtol atol [c0; mrev rd b1 u1; mrev rd b2 u2; mrev rd b3 u3] ->
         exists x1 x2 x3 : ecurve (list R) A,
           loop_order2 rtol atol rd [c0; c1; c2; c3] = Ok [c0; x1; x2; x3] /\ closed_loop rtol atol [c0; x1; x2; x3].
Proof. exact @loop_order2_complete. Qed.
Print Assumptions C15_loop_order2_complete.

Theorem C15_loop_order2_err_iff :
  forall (A : Type) (rd : A -> A) (rtol atol : R) (c0 c1 c2 c3 : ecurve (list R) A),
         loop_order2 rtol atol rd [c0; c1; c2; c3] = Err RuntimeError <->
         (forall (u1 u2 u3 : ecurve (list R) A) (b1 b2 b3 : bool),
          Permutation.Permutation [c1; c2; c3] [u1; u2; u3] ->
          ~ closed_loop rtol atol [c0; mrev rd b1 u1; mrev rd b2 u2; mrev rd b3 u3]).
Proof. exact @loop_order2_err_iff. Qed.
Print Assumptions C15_loop_order2_err_iff.

Theorem C15_loop_order2_open_chain_rejected :
  forall (A : Type) (rd : A -> A) (rtol atol : R) (c0 c1 c2 c3 : ecurve (list R) A),
         (forall c : ecurve (list R) A,
          In c [c1; c2; c3] ->
          ~ closeR rtol atol (e_first c) (e_first c0) /\ ~ closeR rtol atol (e_last c) (e_first c0)) ->
         loop_order2 rtol atol rd [c0; c1; c2; c3] = Err RuntimeError.
Proof. exact @loop_order2_open_chain_rejected. Qed.
Print Assumptions C15_loop_order2_open_chain_rejected.

Theorem C15_loop_order2_first :
  forall (A : Type) (rd : A -> A) (rtol atol : R) (c0 c1 c2 c3 : ecurve (list R) A)
           (out : list (ecurve (list R) A)),
         loop_order2 rtol atol rd [c0; c1; c2; c3] = Ok out ->
         closed_loop rtol atol [c0; c1; c2; c3] /\ out = [c0; c1; c2; c3] \/
         ~ closed_loop rtol atol [c0; c1; c2; c3] /\
         (exists
            (l1 : list (list (ecurve (list R) A))) (t : list (ecurve (list R) A)) (l2 : list (list (ecurve (list R) A))),
            candidates2 rd c1 c2 c3 = l1 ++ t :: l2 /\
            out = c0 :: t /\
            closed_loop rtol atol (c0 :: t) /\
            (forall t' : list (ecurve (list R) A), In t' l1 -> ~ closed_loop rtol atol (c0 :: t'))).
Proof. exact @loop_order2_first. Qed.
Print Assumptions C15_loop_order2_first.

Theorem C15_loop_order2_agrees_separated :
  forall (A : Type) (rd : A -> A) (Pc : nat -> list R) (rtol atol : R) (cs : list (ecurve (list R) A))
           (s : list nat) (r : list bool),
         0 <= atol ->
         0 <= rtol ->
         (forall i j : nat, (i < 4)%nat -> (j < 4)%nat -> i <> j -> allclose rtol atol (Pc i) (Pc j) = false) ->
         In s perms4 ->
         length r = 4%nat ->
         Forall2 (is_side Pc) cs (combine s r) -> loop_order2 rtol atol rd cs = loop_order rtol atol rd cs.
Proof. exact @loop_order2_agrees_separated. Qed.
Print Assumptions C15_loop_order2_agrees_separated.

Theorem C15_old_greedy_search_sound :
  forall (A : Type) (rd : A -> A) (rtol atol : R) (cs out : list (ecurve (list R) A)),
         loop_order rtol atol rd cs = Ok out ->
         exists
           (c0 c1 c2 c3 : ecurve (list R) A) (used : list (ecurve (list R) A)) (b1 b2 b3 : bool) 
         (x1 x2 x3 : ecurve (list R) A),
           cs = [c0; c1; c2; c3] /\
           Permutation.Permutation [c1; c2; c3] used /\
           [x1; x2; x3] = mrevs rd [b1; b2; b3] used /\
           out = [c0; x1; x2; x3] /\ junction rtol atol c0 x1 /\ junction rtol atol x1 x2 /\ junction rtol atol x2 x3.
Proof. exact @loop_order_sound. Qed.
Print Assumptions C15_old_greedy_search_sound.

Theorem C15_old_greedy_search_complete_if_corners_separated :
  forall (A : Type) (rd : A -> A) (Pc : nat -> list R) (rtol atol : R) (cs : list (ecurve (list R) A))
           (s : list nat) (r : list bool),
         0 <= atol ->
         0 <= rtol ->
         (forall i j : nat, (i < 4)%nat -> (j < 4)%nat -> i <> j -> allclose rtol atol (Pc i) (Pc j) = false) ->
         In s perms4 ->
         length r = 4%nat ->
         Forall2 (is_side Pc) cs (combine s r) ->
         exists c0 x1 x2 x3 : ecurve (list R) A,
           hd_error cs = Some c0 /\ loop_order rtol atol rd cs = Ok [c0; x1; x2; x3] /\ closed_exact [c0; x1; x2; x3].
Proof. exact @loop_order_complete. Qed.
Print Assumptions C15_old_greedy_search_complete_if_corners_separated.

Theorem C15_old_greedy_search_accepted_open_chains :
  forall (A : Type) (rd : A -> A) (rtol atol : R) (c0 c1 c2 c3 : ecurve (list R) A),
         junction rtol atol c0 c1 ->
         junction rtol atol c1 c2 ->
         junction rtol atol c2 c3 -> loop_order rtol atol rd [c0; c1; c2; c3] = Ok [c0; c1; c2; c3].
Proof. exact @loop_order_open_chain_accepted. Qed.
Print Assumptions C15_old_greedy_search_accepted_open_chains.

Theorem C15_unit_square_any_arrangement :
  forall (A : Type) (rd : A -> A) (cs : list (ecurve (list R) A)) (s : list nat) (r : list bool),
         Permutation.Permutation [0%nat; 1%nat; 2%nat; 3%nat] s ->
         length r = 4%nat ->
         Forall2 (is_side unit_square) cs (combine s r) ->
         exists c0 x1 x2 x3 : ecurve (list R) A,
           hd_error cs = Some c0 /\
           loop_order 0 (1 / 100000000) rd cs = Ok [c0; x1; x2; x3] /\ closed_exact [c0; x1; x2; x3].
Proof. exact @unit_square_any_arrangement. Qed.
Print Assumptions C15_unit_square_any_arrangement.

Theorem C15_degenerate_edge_triangle2 :
  loop_order 0%Q 0.00000001%Q (fun x : nat * bool => (fst x, negb (snd x)))
           [{| e_first := [0%Q; 0%Q]; e_last := [1%Q; 0%Q]; e_data := (0%nat, false) |};
            {| e_first := [1%Q; 1%Q]; e_last := [0%Q; 0%Q]; e_data := (1%nat, false) |};
            {| e_first := [1%Q; 0%Q]; e_last := [1%Q; 1%Q]; e_data := (2%nat, false) |};
            {| e_first := [1%Q; 1%Q]; e_last := [1%Q; 1%Q]; e_data := (3%nat, false) |}] = 
         Err RuntimeError /\
         loop_order2 0%Q 0.00000001%Q (fun x : nat * bool => (fst x, negb (snd x)))
           [{| e_first := [0%Q; 0%Q]; e_last := [1%Q; 0%Q]; e_data := (0%nat, false) |};
            {| e_first := [1%Q; 1%Q]; e_last := [0%Q; 0%Q]; e_data := (1%nat, false) |};
            {| e_first := [1%Q; 0%Q]; e_last := [1%Q; 1%Q]; e_data := (2%nat, false) |};
            {| e_first := [1%Q; 1%Q]; e_last := [1%Q; 1%Q]; e_data := (3%nat, false) |}] =
         Ok
           [{| e_first := [0%Q; 0%Q]; e_last := [1%Q; 0%Q]; e_data := (0%nat, false) |};
            {| e_first := [1%Q; 0%Q]; e_last := [1%Q; 1%Q]; e_data := (2%nat, false) |};
            {| e_first := [1%Q; 1%Q]; e_last := [1%Q; 1%Q]; e_data := (3%nat, false) |};
            {| e_first := [1%Q; 1%Q]; e_last := [0%Q; 0%Q]; e_data := (1%nat, false) |}].
Proof. exact @degenerate_edge_triangle2. Qed.
Print Assumptions C15_degenerate_edge_triangle2.

Theorem C15_pinched_loop_both_orders2 :
  loop_order2 0%Q 0.00000001%Q (fun x : nat * bool => (fst x, negb (snd x)))
           [{| e_first := [0%Q; 0%Q]; e_last := [1%Q; 0%Q]; e_data := (0%nat, false) |};
            {| e_first := [1%Q; 0%Q]; e_last := [2%Q; 1%Q]; e_data := (1%nat, false) |};
            {| e_first := [2%Q; 1%Q]; e_last := [1%Q; 0%Q]; e_data := (2%nat, false) |};
            {| e_first := [1%Q; 0%Q]; e_last := [0%Q; 0%Q]; e_data := (3%nat, false) |}] =
         Ok
           [{| e_first := [0%Q; 0%Q]; e_last := [1%Q; 0%Q]; e_data := (0%nat, false) |};
            {| e_first := [1%Q; 0%Q]; e_last := [2%Q; 1%Q]; e_data := (1%nat, false) |};
            {| e_first := [2%Q; 1%Q]; e_last := [1%Q; 0%Q]; e_data := (2%nat, false) |};
            {| e_first := [1%Q; 0%Q]; e_last := [0%Q; 0%Q]; e_data := (3%nat, false) |}] /\
         loop_order2 0%Q 0.00000001%Q (fun x : nat * bool => (fst x, negb (snd x)))
           [{| e_first := [0%Q; 0%Q]; e_last := [1%Q; 0%Q]; e_data := (0%nat, false) |};
            {| e_first := [1%Q; 0%Q]; e_last := [0%Q; 0%Q]; e_data := (3%nat, false) |};
            {| e_first := [1%Q; 0%Q]; e_last := [2%Q; 1%Q]; e_data := (1%nat, false) |};
            {| e_first := [2%Q; 1%Q]; e_last := [1%Q; 0%Q]; e_data := (2%nat, false) |}] =
         Ok
           [{| e_first := [0%Q; 0%Q]; e_last := [1%Q; 0%Q]; e_data := (0%nat, false) |};
            {| e_first := [1%Q; 0%Q]; e_last := [2%Q; 1%Q]; e_data := (1%nat, false) |};
            {| e_first := [2%Q; 1%Q]; e_last := [1%Q; 0%Q]; e_data := (2%nat, false) |};
            {| e_first := [1%Q; 0%Q]; e_last := [0%Q; 0%Q]; e_data := (3%nat, false) |}].
Proof. exact @pinched_loop_both_orders2. Qed.
Print Assumptions C15_pinched_loop_both_orders2.

Theorem C15_open_chain_rejected2 :
  loop_order2 0%Q 0.00000001%Q (fun x : nat * bool => (fst x, negb (snd x)))
           [{| e_first := [0%Q; 0%Q]; e_last := [1%Q; 0%Q]; e_data := (0%nat, false) |};
            {| e_first := [1%Q; 0%Q]; e_last := [1%Q; 1%Q]; e_data := (1%nat, false) |};
            {| e_first := [1%Q; 1%Q]; e_last := [0%Q; 1%Q]; e_data := (2%nat, false) |};
            {| e_first := [0%Q; 1%Q]; e_last := [(-1)%Q; 2%Q]; e_data := (3%nat, false) |}] = 
         Err RuntimeError /\
         loop_order2 0%Q 0.00000001%Q (fun x : nat * bool => (fst x, negb (snd x)))
           [{| e_first := [0%Q; 0%Q]; e_last := [1%Q; 0%Q]; e_data := (0%nat, false) |};
            {| e_first := [(-1)%Q; 2%Q]; e_last := [0%Q; 1%Q]; e_data := (1%nat, false) |};
            {| e_first := [1%Q; 1%Q]; e_last := [1%Q; 0%Q]; e_data := (2%nat, false) |};
            {| e_first := [1%Q; 1%Q]; e_last := [0%Q; 1%Q]; e_data := (3%nat, false) |}] = 
         Err RuntimeError.
Proof. exact @open_chain_rejected2. Qed.
Print Assumptions C15_open_chain_rejected2.

Theorem C15_old_greedy_search_incomplete_refuted :
  loop_order 0%Q 0.00000001%Q (fun x : nat * bool => (fst x, negb (snd x)))
           [{| e_first := [0%Q; 0%Q]; e_last := [1%Q; 0%Q]; e_data := (0%nat, false) |};
            {| e_first := [1%Q; 0%Q]; e_last := [0%Q; 0%Q]; e_data := (3%nat, false) |};
            {| e_first := [1%Q; 0%Q]; e_last := [2%Q; 1%Q]; e_data := (1%nat, false) |};
            {| e_first := [2%Q; 1%Q]; e_last := [1%Q; 0%Q]; e_data := (2%nat, false) |}] = 
         Err RuntimeError.
Proof. exact @complete_without_separation_refuted. Qed.
Print Assumptions C15_old_greedy_search_incomplete_refuted.

Theorem C15_old_greedy_search_open_output_refuted :
  loop_order 0%Q 0.00000001%Q (fun x : nat * bool => (fst x, negb (snd x)))
           [{| e_first := [0%Q; 0%Q]; e_last := [1%Q; 0%Q]; e_data := (0%nat, false) |};
            {| e_first := [1%Q; 0%Q]; e_last := [1%Q; 1%Q]; e_data := (1%nat, false) |};
            {| e_first := [1%Q; 1%Q]; e_last := [0%Q; 1%Q]; e_data := (2%nat, false) |};
            {| e_first := [0%Q; 1%Q]; e_last := [(-1)%Q; 2%Q]; e_data := (3%nat, false) |}] =
         Ok
           [{| e_first := [0%Q; 0%Q]; e_last := [1%Q; 0%Q]; e_data := (0%nat, false) |};
            {| e_first := [1%Q; 0%Q]; e_last := [1%Q; 1%Q]; e_data := (1%nat, false) |};
            {| e_first := [1%Q; 1%Q]; e_last := [0%Q; 1%Q]; e_data := (2%nat, false) |};
            {| e_first := [0%Q; 1%Q]; e_last := [(-1)%Q; 2%Q]; e_data := (3%nat, false) |}] /\
         allclose 0%Q 0.00000001%Q [(-1)%Q; 2%Q] [0%Q; 0%Q] = false /\
         allclose 0%Q 0.00000001%Q [0%Q; 0%Q] [(-1)%Q; 2%Q] = false.
Proof. exact @closed_loop_output_refuted. Qed.
Print Assumptions C15_old_greedy_search_open_output_refuted.

Theorem C15_obj_reverse_cps :
  forall (tol : R) (o : obj R) (b : basis R),
         wf_obj_R tol o -> o_bases o = [b] -> b_per1 b = 0%nat -> o_cps (rvo o) = rev (o_cps o).
Proof. exact @obj_reverse_cps. Qed.
Print Assumptions C15_obj_reverse_cps.

Theorem C15_ec_of_obj_reverse :
  forall (tol : R) (o : obj R) (b : basis R),
         wf_obj_R tol o -> o_bases o = [b] -> b_per1 b = 0%nat -> ec_of_obj (rvo o) = ec_rev rvo (ec_of_obj o).
Proof. exact @ec_of_obj_reverse. Qed.
Print Assumptions C15_ec_of_obj_reverse.

Theorem C15_curve_eval_start :
  forall (tol : R) (o : obj R) (b : basis R),
         0 < tol ->
         wf_obj_R tol o ->
         o_bases o = [b] ->
         b_per1 b = 0%nat -> clamped_start b -> obj_eval tol o [b_start b] = Ok (cpoint o (hd [] (o_cps o))).
Proof. exact @curve_eval_start. Qed.
Print Assumptions C15_curve_eval_start.

Theorem C15_curve_eval_end :
  forall (tol : R) (o : obj R) (b : basis R),
         0 < tol ->
         wf_obj_R tol o ->
         o_bases o = [b] ->
         b_per1 b = 0%nat -> clamped_end b -> obj_eval tol o [b_end b] = Ok (cpoint o (last (o_cps o) [])).
Proof. exact @curve_eval_end. Qed.
Print Assumptions C15_curve_eval_end.

Theorem C15_curve_loop_sound :
  forall (tol rtol atol : R) (curves : list (obj R)) (out : list (ecurve (list R) (obj R))),
         0 < tol ->
         Forall (open_curve tol) curves ->
         loop_order2 rtol atol rvo (map ec_of_obj curves) = Ok out ->
         exists (c0 c1 c2 c3 u1 u2 u3 : obj R) (b1 b2 b3 : bool),
           curves = [c0; c1; c2; c3] /\
           Permutation.Permutation [c1; c2; c3] [u1; u2; u3] /\
           (let x1 := mrevo b1 u1 in
            let x2 := mrevo b2 u2 in
            let x3 := mrevo b3 u3 in
            out = map ec_of_obj [c0; x1; x2; x3] /\
            Forall (open_curve tol) [c0; x1; x2; x3] /\ oclosed_loop rtol atol c0 x1 x2 x3).
Proof. exact @curve_loop_sound. Qed.
Print Assumptions C15_curve_loop_sound.

Theorem C15_curve_loop_complete :
  forall (tol rtol atol : R) (c0 c1 c2 c3 u1 u2 u3 : obj R) (b1 b2 b3 : bool),
         0 < tol ->
         Forall (open_curve tol) [c0; c1; c2; c3] ->
         Permutation.Permutation [c1; c2; c3] [u1; u2; u3] ->
         oclosed_loop rtol atol c0 (mrevo b1 u1) (mrevo b2 u2) (mrevo b3 u3) ->
         exists (v1 v2 v3 : obj R) (d1 d2 d3 : bool),
           Permutation.Permutation [c1; c2; c3] [v1; v2; v3] /\
           (let x1 := mrevo d1 v1 in
            let x2 := mrevo d2 v2 in
            let x3 := mrevo d3 v3 in
            loop_order2 rtol atol rvo (map ec_of_obj [c0; c1; c2; c3]) = Ok (map ec_of_obj [c0; x1; x2; x3]) /\
            Forall (open_curve tol) [c0; x1; x2; x3] /\ oclosed_loop rtol atol c0 x1 x2 x3).
Proof. exact @curve_loop_complete. Qed.
Print Assumptions C15_curve_loop_complete.

Theorem C15_coons_of_edge_curves :
  forall (tol : R) (bottom right top left : obj R),
         0 < tol ->
         unit_curve tol bottom ->
         unit_curve tol right ->
         unit_curve tol top ->
         unit_curve tol left ->
         same_kind bottom right ->
         same_kind bottom top ->
         same_kind bottom left ->
         closed_exact (map ec_of_obj [bottom; right; top; left]) ->
         forall c : nat,
         let S := coons (ev tol bottom c) (ev tol (rvo top) c) (ev tol (rvo left) c) (ev tol right c) in
         forall u v : R,
         S u 0 = ev tol bottom c u /\
         S u 1 = ev tol (rvo top) c u /\ S 0 v = ev tol (rvo left) c v /\ S 1 v = ev tol right c v.
Proof. exact @coons_of_edge_curves. Qed.
Print Assumptions C15_coons_of_edge_curves.

Theorem C15_coons_of_edge_curves_orig :
  forall (tol : R) (bottom right top left : obj R),
         0 < tol ->
         unit_curve tol bottom ->
         unit_curve tol right ->
         unit_curve tol top ->
         unit_curve tol left ->
         same_kind bottom right ->
         same_kind bottom top ->
         same_kind bottom left ->
         closed_exact (map ec_of_obj [bottom; right; top; left]) ->
         forall c : nat,
         let S := coons (ev tol bottom c) (ev tol (rvo top) c) (ev tol (rvo left) c) (ev tol right c) in
         (forall u : R, S u 0 = ev tol bottom c u) /\
         (forall v : R, S 1 v = ev tol right c v) /\
         (forall (bt : basis R) (t : R),
          o_bases top = [bt] ->
          in_dom tol bt t -> ReverseEndToEnd.rev_ok (b_knots bt) (b_order bt) tol t -> S (1 - t) 1 = ev tol top c t) /\
         (forall (bl : basis R) (t : R),
          o_bases left = [bl] ->
          in_dom tol bl t -> ReverseEndToEnd.rev_ok (b_knots bl) (b_order bl) tol t -> S 0 (1 - t) = ev tol left c t).
Proof. exact @coons_of_edge_curves_orig. Qed.
Print Assumptions C15_coons_of_edge_curves_orig.

Theorem C15_edge_curves_coons_e2e :
  forall (tol rtol atol : R) (curves : list (obj R)) (out : list (ecurve (list R) (obj R))),
         0 < tol ->
         Forall (unit_curve tol) curves ->
         (forall a b : obj R, In a curves -> In b curves -> same_kind a b) ->
         loop_order2 rtol atol rvo (map ec_of_obj curves) = Ok out ->
         closed_exact out ->
         exists (c0 c1 c2 c3 u1 u2 u3 : obj R) (b1 b2 b3 : bool),
           curves = [c0; c1; c2; c3] /\
           Permutation.Permutation [c1; c2; c3] [u1; u2; u3] /\
           (let x1 := mrevo b1 u1 in
            let x2 := mrevo b2 u2 in
            let x3 := mrevo b3 u3 in
            out = map ec_of_obj [c0; x1; x2; x3] /\
            Forall (unit_curve tol) [c0; x1; x2; x3] /\
            (forall c : nat,
             let S := coons (ev tol c0 c) (ev tol (rvo x2) c) (ev tol (rvo x3) c) (ev tol x1 c) in
             forall u v : R,
             S u 0 = ev tol c0 c u /\
             S u 1 = ev tol (rvo x2) c u /\ S 0 v = ev tol (rvo x3) c v /\ S 1 v = ev tol x1 c v)).
Proof. exact @edge_curves_coons_e2e. Qed.
Print Assumptions C15_edge_curves_coons_e2e.

Theorem C15_surface_boundary_curves :
  forall (tol : R) (o : obj R) (bu bv : basis R) (B T L Rr : list (list R)),
         0 < tol ->
         wf_obj_R tol o ->
         o_bases o = [bu; bv] ->
         open_dir bu ->
         open_dir bv ->
         length B = b_nfun bu ->
         length T = b_nfun bu ->
         length L = b_nfun bv ->
         length Rr = b_nfun bv ->
         (forall i : nat, (i < b_nfun bu)%nat -> nth i B [] = nth (i * b_nfun bv) (o_cps o) []) ->
         (forall i : nat, (i < b_nfun bu)%nat -> nth i T [] = nth (i * b_nfun bv + (b_nfun bv - 1)) (o_cps o) []) ->
         (forall j : nat, (j < b_nfun bv)%nat -> nth j L [] = nth j (o_cps o) []) ->
         (forall j : nat, (j < b_nfun bv)%nat -> nth j Rr [] = nth ((b_nfun bu - 1) * b_nfun bv + j) (o_cps o) []) ->
         (forall u : R,
          obj_eval tol o [u; b_start bv] =
          obj_eval tol {| o_bases := [bu]; o_cps := B; o_dim := o_dim o; o_rat := o_rat o |} [u]) /\
         (forall u : R,
          obj_eval tol o [u; b_end bv] =
          obj_eval tol {| o_bases := [bu]; o_cps := T; o_dim := o_dim o; o_rat := o_rat o |} [u]) /\
         (forall v : R,
          obj_eval tol o [b_start bu; v] =
          obj_eval tol {| o_bases := [bv]; o_cps := L; o_dim := o_dim o; o_rat := o_rat o |} [v]) /\
         (forall v : R,
          obj_eval tol o [b_end bu; v] =
          obj_eval tol {| o_bases := [bv]; o_cps := Rr; o_dim := o_dim o; o_rat := o_rat o |} [v]).
Proof. exact @surface_boundary_curves. Qed.
Print Assumptions C15_surface_boundary_curves.

Theorem C15_coons_surface_edges :
  forall (tol : R) (cb ct cl cr : obj R) (bu bv : basis R) (g h : nat -> R),
         0 < tol ->
         wf_obj_R tol cb ->
         wf_obj_R tol ct ->
         wf_obj_R tol cl ->
         wf_obj_R tol cr ->
         o_bases cb = [bu] ->
         o_bases ct = [bu] ->
         o_bases cl = [bv] ->
         o_bases cr = [bv] ->
         open_dir bu ->
         open_dir bv ->
         same_kind cb ct ->
         same_kind cb cl ->
         same_kind cb cr ->
         g 0%nat = 0 ->
         g (b_nfun bv - 1)%nat = 1 ->
         h 0%nat = 0 ->
         h (b_nfun bu - 1)%nat = 1 ->
         hd [] (o_cps cl) = hd [] (o_cps cb) ->
         hd [] (o_cps cr) = last (o_cps cb) [] ->
         last (o_cps cl) [] = hd [] (o_cps ct) ->
         last (o_cps cr) [] = last (o_cps ct) [] ->
         let S := coons_obj bu bv (o_dim cb) (o_rat cb) g h (o_cps cb) (o_cps ct) (o_cps cl) (o_cps cr) in
         wf_obj_R tol S /\
         (forall u : R, obj_eval tol S [u; b_start bv] = obj_eval tol cb [u]) /\
         (forall u : R, obj_eval tol S [u; b_end bv] = obj_eval tol ct [u]) /\
         (forall v : R, obj_eval tol S [b_start bu; v] = obj_eval tol cl [v]) /\
         (forall v : R, obj_eval tol S [b_end bu; v] = obj_eval tol cr [v]).
Proof. exact @coons_surface_edges. Qed.
Print Assumptions C15_coons_surface_edges.

Theorem C15_coons_surface_of_loop :
  forall (tol : R) (bottom right top left : obj R) (bu bv : basis R) (g h : nat -> R),
         0 < tol ->
         open_curve tol bottom ->
         open_curve tol right ->
         open_curve tol top ->
         open_curve tol left ->
         o_bases bottom = [bu] ->
         o_bases (rvo top) = [bu] ->
         o_bases (rvo left) = [bv] ->
         o_bases right = [bv] ->
         same_kind bottom right ->
         same_kind bottom top ->
         same_kind bottom left ->
         g 0%nat = 0 ->
         g (b_nfun bv - 1)%nat = 1 ->
         h 0%nat = 0 ->
         h (b_nfun bu - 1)%nat = 1 ->
         closed_exact (map ec_of_obj [bottom; right; top; left]) ->
         let S :=
           coons_obj bu bv (o_dim bottom) (o_rat bottom) g h (o_cps bottom) (rev (o_cps top)) 
             (rev (o_cps left)) (o_cps right) in
         wf_obj_R tol S /\
         (forall u : R, obj_eval tol S [u; b_start bv] = obj_eval tol bottom [u]) /\
         (forall u : R, obj_eval tol S [u; b_end bv] = obj_eval tol (rvo top) [u]) /\
         (forall v : R, obj_eval tol S [b_start bu; v] = obj_eval tol (rvo left) [v]) /\
         (forall v : R, obj_eval tol S [b_end bu; v] = obj_eval tol right [v]).
Proof. exact @coons_surface_of_loop. Qed.
Print Assumptions C15_coons_surface_of_loop.

Theorem C15_unit_square_witness :
  let tol := 1 / 4 in
         let bottom := segR [0; 0] [1; 0] in
         let right := segR [1; 0] [1; 1] in
         let top := segR [1; 1] [0; 1] in
         let left := segR [0; 1] [0; 0] in
         (forall c : nat,
          let S := coons (ev tol bottom c) (ev tol (rvo top) c) (ev tol (rvo left) c) (ev tol right c) in
          forall u v : R,
          S u 0 = ev tol bottom c u /\
          S u 1 = ev tol (rvo top) c u /\ S 0 v = ev tol (rvo left) c v /\ S 1 v = ev tol right c v) /\
         (let S :=
            coons_obj lin01 lin01 2 false INR INR (o_cps bottom) (rev (o_cps top)) (rev (o_cps left)) (o_cps right) in
          wf_obj_R tol S /\
          (forall u : R, obj_eval tol S [u; 0] = obj_eval tol bottom [u]) /\
          (forall u : R, obj_eval tol S [u; 1] = obj_eval tol (rvo top) [u]) /\
          (forall v : R, obj_eval tol S [0; v] = obj_eval tol (rvo left) [v]) /\
          (forall v : R, obj_eval tol S [1; v] = obj_eval tol right [v])).
Proof. exact @unit_square_witness. Qed.
Print Assumptions C15_unit_square_witness.

Theorem C15_ruled_refined_row :
  forall (k : list R) (p : nat) (side : bool) (t : R) (mu : nat) (a b : R),
         sorted (kn k) ->
         (2 <= p)%nat ->
         (0 < length k - p)%nat ->
         (p <= mu <= length k - p)%nat ->
         in_span side (kn k (mu - 1)) (kn k mu) t ->
         sumf (fun c : nat => ((1 - greville k p c) * a + greville k p c * b) * nth c (ref_row side k p 0 0 t) 0) 0
           (length k - p) = (1 - t) * a + t * b.
Proof. exact @ruled_refined_row. Qed.
Print Assumptions C15_ruled_refined_row.

Theorem C15_coons_lib_net_eq :
  forall (ncomp n m : nat) (g h : list R) (B T L Rr : list (list R)),
         (0 < n)%nat ->
         (0 < m)%nat ->
         Forall (fun v : list R => length v = ncomp) B ->
         Forall (fun v : list R => length v = ncomp) T ->
         Forall (fun v : list R => length v = ncomp) L ->
         Forall (fun v : list R => length v = ncomp) Rr ->
         length B = n ->
         length T = n ->
         length L = m ->
         length Rr = m ->
         coons_lib_net n m g h B T L Rr =
         coons_net ncomp n m (fun j : nat => nth j g 0) (fun i : nat => nth i h 0) B T L Rr.
Proof. exact @coons_lib_net_eq. Qed.
Print Assumptions C15_coons_lib_net_eq.

Theorem C15_coons_lib_bottom :
  forall (ncomp n m : nat) (g h : list R) (B T L Rr : list (list R)),
         (0 < n)%nat ->
         (0 < m)%nat ->
         Forall (fun v : list R => length v = ncomp) B ->
         Forall (fun v : list R => length v = ncomp) T ->
         Forall (fun v : list R => length v = ncomp) L ->
         Forall (fun v : list R => length v = ncomp) Rr ->
         length B = n ->
         length T = n ->
         length L = m ->
         length Rr = m ->
         nth 0 g 0 = 0 ->
         nth 0 L [] = nth 0 B [] ->
         nth 0 Rr [] = nth (n - 1) B [] ->
         forall i : nat, (i < n)%nat -> nth (i * m) (coons_lib_net n m g h B T L Rr) [] = nth i B [].
Proof. exact @coons_lib_bottom. Qed.
Print Assumptions C15_coons_lib_bottom.

Theorem C15_coons_lib_top :
  forall (ncomp n m : nat) (g h : list R) (B T L Rr : list (list R)),
         (0 < n)%nat ->
         (0 < m)%nat ->
         Forall (fun v : list R => length v = ncomp) B ->
         Forall (fun v : list R => length v = ncomp) T ->
         Forall (fun v : list R => length v = ncomp) L ->
         Forall (fun v : list R => length v = ncomp) Rr ->
         length B = n ->
         length T = n ->
         length L = m ->
         length Rr = m ->
         nth (m - 1) g 0 = 1 ->
         nth (m - 1) L [] = nth 0 T [] ->
         nth (m - 1) Rr [] = nth (n - 1) T [] ->
         forall i : nat, (i < n)%nat -> nth (i * m + (m - 1)) (coons_lib_net n m g h B T L Rr) [] = nth i T [].
Proof. exact @coons_lib_top. Qed.
Print Assumptions C15_coons_lib_top.

Theorem C15_coons_lib_left :
  forall (ncomp n m : nat) (g h : list R) (B T L Rr : list (list R)),
         (0 < n)%nat ->
         (0 < m)%nat ->
         Forall (fun v : list R => length v = ncomp) B ->
         Forall (fun v : list R => length v = ncomp) T ->
         Forall (fun v : list R => length v = ncomp) L ->
         Forall (fun v : list R => length v = ncomp) Rr ->
         length B = n ->
         length T = n ->
         length L = m ->
         length Rr = m ->
         nth 0 h 0 = 0 -> forall j : nat, (j < m)%nat -> nth j (coons_lib_net n m g h B T L Rr) [] = nth j L [].
Proof. exact @coons_lib_left. Qed.
Print Assumptions C15_coons_lib_left.

Theorem C15_coons_lib_right :
  forall (ncomp n m : nat) (g h : list R) (B T L Rr : list (list R)),
         (0 < n)%nat ->
         (0 < m)%nat ->
         Forall (fun v : list R => length v = ncomp) B ->
         Forall (fun v : list R => length v = ncomp) T ->
         Forall (fun v : list R => length v = ncomp) L ->
         Forall (fun v : list R => length v = ncomp) Rr ->
         length B = n ->
         length T = n ->
         length L = m ->
         length Rr = m ->
         nth (n - 1) h 0 = 1 ->
         forall j : nat, (j < m)%nat -> nth ((n - 1) * m + j) (coons_lib_net n m g h B T L Rr) [] = nth j Rr [].
Proof. exact @coons_lib_right. Qed.
Print Assumptions C15_coons_lib_right.

Theorem C15_coons_lib_bottom_gap :
  forall (ncomp n m : nat) (g h : list R) (B T L Rr : list (list R)),
         (0 < n)%nat ->
         (0 < m)%nat ->
         Forall (fun v : list R => length v = ncomp) B ->
         Forall (fun v : list R => length v = ncomp) T ->
         Forall (fun v : list R => length v = ncomp) L ->
         Forall (fun v : list R => length v = ncomp) Rr ->
         length B = n ->
         length T = n ->
         length L = m ->
         length Rr = m ->
         nth 0 g 0 = 0 ->
         forall i c : nat,
         (i < n)%nat ->
         (c < ncomp)%nat ->
         coord c (nth (i * m) (coons_lib_net n m g h B T L Rr) []) =
         coord c (nth i B []) + (1 - nth i h 0) * (coord c (nth 0 L []) - coord c (nth 0 B [])) +
         nth i h 0 * (coord c (nth 0 Rr []) - coord c (nth (n - 1) B [])).
Proof. exact @coons_lib_bottom_gap. Qed.
Print Assumptions C15_coons_lib_bottom_gap.

Theorem C15_coons_lib_corner_refuted :
  exists (g h : list R) (B T L Rr : list (list R)),
           Forall (fun v : list R => length v = 1%nat) B /\
           Forall (fun v : list R => length v = 1%nat) T /\
           Forall (fun v : list R => length v = 1%nat) L /\
           Forall (fun v : list R => length v = 1%nat) Rr /\
           length B = 2%nat /\
           length T = 2%nat /\
           length L = 2%nat /\
           length Rr = 2%nat /\
           nth 0 g 0 = 0 /\
           nth 1 g 0 = 1 /\
           nth 0 h 0 = 0 /\
           nth 1 h 0 = 1 /\
           nth 0 Rr [] = nth 1 B [] /\
           nth 1 L [] = nth 0 T [] /\
           nth 1 Rr [] = nth 1 T [] /\
           nth 0 L [] <> nth 0 B [] /\
           ~ (forall i : nat, (i < 2)%nat -> nth (i * 2) (coons_lib_net 2 2 g h B T L Rr) [] = nth i B []).
Proof. exact @coons_lib_corner_refuted. Qed.
Print Assumptions C15_coons_lib_corner_refuted.

Theorem C15_grev01_ends :
  forall b : basis R,
         (2 <= b_order b)%nat ->
         (b_order b <= length (b_knots b) - b_order b)%nat ->
         b_per1 b = 0%nat ->
         clamped_start b ->
         clamped_end b ->
         b_start b < b_end b ->
         exists g : list R, grev01 b = Ok g /\ length g = b_nfun b /\ nth 0 g 0 = 0 /\ nth (b_nfun b - 1) g 0 = 1.
Proof. exact @grev01_ends. Qed.
Print Assumptions C15_grev01_ends.

Theorem C15_coons_lib_surface_edges :
  forall (tol : R) (cb ct cl cr : obj R) (bu bv : basis R) (g h : list R),
         0 < tol ->
         wf_obj_R tol cb ->
         wf_obj_R tol ct ->
         wf_obj_R tol cl ->
         wf_obj_R tol cr ->
         o_bases cb = [bu] ->
         o_bases ct = [bu] ->
         o_bases cl = [bv] ->
         o_bases cr = [bv] ->
         open_dir bu ->
         open_dir bv ->
         same_kind cb ct ->
         same_kind cb cl ->
         same_kind cb cr ->
         nth 0 g 0 = 0 ->
         nth (b_nfun bv - 1) g 0 = 1 ->
         nth 0 h 0 = 0 ->
         nth (b_nfun bu - 1) h 0 = 1 ->
         hd [] (o_cps cl) = hd [] (o_cps cb) ->
         hd [] (o_cps cr) = last (o_cps cb) [] ->
         last (o_cps cl) [] = hd [] (o_cps ct) ->
         last (o_cps cr) [] = last (o_cps ct) [] ->
         let S :=
           {|
             o_bases := [bu; bv];
             o_cps := coons_lib_net (b_nfun bu) (b_nfun bv) g h (o_cps cb) (o_cps ct) (o_cps cl) (o_cps cr);
             o_dim := o_dim cb;
             o_rat := o_rat cb
           |} in
         wf_obj_R tol S /\
         (forall u : R, obj_eval tol S [u; b_start bv] = obj_eval tol cb [u]) /\
         (forall u : R, obj_eval tol S [u; b_end bv] = obj_eval tol ct [u]) /\
         (forall v : R, obj_eval tol S [b_start bu; v] = obj_eval tol cl [v]) /\
         (forall v : R, obj_eval tol S [b_end bu; v] = obj_eval tol cr [v]).
Proof. exact @coons_lib_surface_edges. Qed.
Print Assumptions C15_coons_lib_surface_edges.

Theorem C15_coons_lib_weight :
  forall (dim n m : nat) (g h : list R) (B T L Rr : list (list R)) (i j : nat),
         (0 < n)%nat ->
         (0 < m)%nat ->
         Forall (fun v : list R => length v = S dim) B ->
         Forall (fun v : list R => length v = S dim) T ->
         Forall (fun v : list R => length v = S dim) L ->
         Forall (fun v : list R => length v = S dim) Rr ->
         length B = n ->
         length T = n ->
         length L = m ->
         length Rr = m ->
         (i < n)%nat ->
         (j < m)%nat ->
         let w := fun (P : list (list R)) (q : nat) => coord dim (nth q P []) in
         coord dim (nth (i * m + j) (coons_lib_net n m g h B T L Rr) []) =
         (1 - nth j g 0) * w B i + nth j g 0 * w T i + ((1 - nth i h 0) * w L j + nth i h 0 * w Rr j) -
         ((1 - nth i h 0) * (1 - nth j g 0) * w B 0%nat + nth i h 0 * (1 - nth j g 0) * w B (n - 1)%nat +
          (1 - nth i h 0) * nth j g 0 * w T 0%nat + nth i h 0 * nth j g 0 * w T (n - 1)%nat).
Proof. exact @coons_lib_weight. Qed.
Print Assumptions C15_coons_lib_weight.

Theorem C15_coons_rational_negative_weight :
  let g := [0; 1 / 2; 1] in
         let B := [[0; 0; 1]; [1 / 4; -1 / 4; 1 / 4]; [2; 0; 1]] in
         let T := [[0; 2; 1]; [1 / 4; 3 / 4; 1 / 4]; [2; 2; 1]] in
         let L := [[0; 0; 1]; [-1 / 4; 1 / 4; 1 / 4]; [0; 2; 1]] in
         let Rr := [[2; 0; 1]; [3 / 4; 1 / 4; 1 / 4]; [2; 2; 1]] in
         (forall P : list (list R), In P [B; T; L; Rr] -> forall q : nat, (q < 3)%nat -> 0 < coord 2 (nth q P [])) /\
         nth 0 L [] = nth 0 B [] /\
         nth 0 Rr [] = nth 2 B [] /\
         nth 2 L [] = nth 0 T [] /\
         nth 2 Rr [] = nth 2 T [] /\ coord 2 (nth (1 * 3 + 1) (coons_lib_net 3 3 g g B T L Rr) []) = - (1 / 2).
Proof. exact @rational_negative_weight. Qed.
Print Assumptions C15_coons_rational_negative_weight.

Theorem C15_thicken_shape :
  forall (sqrtR : R -> R) (tol eps : R) (curve : obj R) (dist : list R -> R -> R) (S0 : obj R),
         thicken_gen sqrtR edge_curves2 tol eps curve dist = Ok S0 ->
         length (o_cps curve) = b_nfun (hd Loft.dflt_bas (o_bases curve)) ->
         (0 < b_nfun (hd Loft.dflt_bas (o_bases curve)))%nat ->
         exists b' : basis R,
           Reparam.basis_reparam (hd Loft.dflt_bas (o_bases curve)) 0 1 = Ok b' /\
           o_bases S0 = [b'; linear01] /\
           o_pardim S0 = 2%nat /\
           o_dim S0 = 2%nat /\
           o_rat S0 = false /\
           length (o_cps S0) = (b_nfun (hd Loft.dflt_bas (o_bases curve)) * 2)%nat /\
           Forall (fun p : list R => length p = 2%nat) (o_cps S0).
Proof. exact @thicken_shape. Qed.
Print Assumptions C15_thicken_shape.

Theorem C15_thicken_shape_wf :
  forall (sqrtR : R -> R) (tol eps : R) (curve : obj R) (dist : list R -> R -> R) (S : obj R),
         thicken_gen sqrtR edge_curves2 tol eps curve dist = Ok S ->
         length (o_cps curve) = b_nfun (hd Loft.dflt_bas (o_bases curve)) ->
         (0 < b_nfun (hd Loft.dflt_bas (o_bases curve)))%nat ->
         0 < tol ->
         wf_basis_R tol (hd Loft.dflt_bas (o_bases curve)) ->
         o_bases S = [ReparamEndToEnd.rp_basis (hd Loft.dflt_bas (o_bases curve)) 0 1; linear01] /\
         b_start (ReparamEndToEnd.rp_basis (hd Loft.dflt_bas (o_bases curve)) 0 1) = 0 /\
         b_end (ReparamEndToEnd.rp_basis (hd Loft.dflt_bas (o_bases curve)) 0 1) = 1 /\
         b_order (ReparamEndToEnd.rp_basis (hd Loft.dflt_bas (o_bases curve)) 0 1) =
         b_order (hd Loft.dflt_bas (o_bases curve)) /\
         b_nfun (ReparamEndToEnd.rp_basis (hd Loft.dflt_bas (o_bases curve)) 0 1) =
         b_nfun (hd Loft.dflt_bas (o_bases curve)) /\
         (b_knots (ReparamEndToEnd.rp_basis (hd Loft.dflt_bas (o_bases curve)) 0 1) =
          b_knots (hd Loft.dflt_bas (o_bases curve)) <->
          (forall x : R,
           In x (b_knots (hd Loft.dflt_bas (o_bases curve))) ->
           ReparamEndToEnd.rp_map (hd Loft.dflt_bas (o_bases curve)) 0 1 x = x)).
Proof. exact @thicken_shape_wf. Qed.
Print Assumptions C15_thicken_shape_wf.

Theorem C15_thicken_nets :
  forall (sqrtR : R -> R) (tol eps : R) (curve : obj R) (dist : list R -> R -> R) (S0 : obj R),
         thicken_gen sqrtR edge_curves2 tol eps curve dist = Ok S0 ->
         length (o_cps curve) = b_nfun (hd Loft.dflt_bas (o_bases curve)) ->
         (0 < b_nfun (hd Loft.dflt_bas (o_bases curve)))%nat ->
         exists x v nv Rn Ln : list (list R),
           thk_eval tol curve (Loft.greville_all (hd Loft.dflt_bas (o_bases curve))) = Ok x /\
           thk_deriv tol curve (Loft.greville_all (hd Loft.dflt_bas (o_bases curve))) = Ok v /\
           thk_normals sqrtR eps (b_nfun (hd Loft.dflt_bas (o_bases curve))) v = Ok nv /\
           o_cps S0 = interleave Rn Ln /\
           LinAlg.mat (b_nfun (hd Loft.dflt_bas (o_bases curve))) 2 Rn /\
           LinAlg.mat (b_nfun (hd Loft.dflt_bas (o_bases curve))) 2 Ln /\
           Solve.matmul
             (Interp.colloc tol (hd Loft.dflt_bas (o_bases curve)) 0
                (Loft.greville_all (hd Loft.dflt_bas (o_bases curve)))) Rn =
           thk_pts dist (Loft.greville_all (hd Loft.dflt_bas (o_bases curve)))
             (b_nfun (hd Loft.dflt_bas (o_bases curve))) x nv thk_right /\
           Solve.matmul
             (Interp.colloc tol (hd Loft.dflt_bas (o_bases curve)) 0
                (Loft.greville_all (hd Loft.dflt_bas (o_bases curve)))) Ln =
           thk_pts dist (Loft.greville_all (hd Loft.dflt_bas (o_bases curve)))
             (b_nfun (hd Loft.dflt_bas (o_bases curve))) x nv thk_left /\
           (exists Ni : list (list R),
              Solve.matmul Ni
                (Interp.colloc tol (hd Loft.dflt_bas (o_bases curve)) 0
                   (Loft.greville_all (hd Loft.dflt_bas (o_bases curve)))) =
              Interp.ident (b_nfun (hd Loft.dflt_bas (o_bases curve))) /\
              LinAlg.mat (b_nfun (hd Loft.dflt_bas (o_bases curve))) (b_nfun (hd Loft.dflt_bas (o_bases curve))) Ni /\
              Rn =
              Solve.matmul Ni
                (thk_pts dist (Loft.greville_all (hd Loft.dflt_bas (o_bases curve)))
                   (b_nfun (hd Loft.dflt_bas (o_bases curve))) x nv thk_right) /\
              Ln =
              Solve.matmul Ni
                (thk_pts dist (Loft.greville_all (hd Loft.dflt_bas (o_bases curve)))
                   (b_nfun (hd Loft.dflt_bas (o_bases curve))) x nv thk_left)).
Proof. exact @thicken_nets. Qed.
Print Assumptions C15_thicken_nets.

Theorem C15_thicken_eval_greville :
  forall (sqrtR : R -> R) (tol eps : R) (curve : obj R) (dist : list R -> R -> R) (S0 : obj R),
         thicken_gen sqrtR edge_curves2 tol eps curve dist = Ok S0 ->
         length (o_cps curve) = b_nfun (hd Loft.dflt_bas (o_bases curve)) ->
         (0 < b_nfun (hd Loft.dflt_bas (o_bases curve)))%nat ->
         0 < tol ->
         2 * tol <= 1 ->
         wf_basis_R tol (hd Loft.dflt_bas (o_bases curve)) ->
         (forall i : nat,
          (i < b_nfun (hd Loft.dflt_bas (o_bases curve)))%nat ->
          ReparamEndToEnd.knot_clear (b_knots (hd Loft.dflt_bas (o_bases curve)))
            (Rmax tol (tol / ReparamEndToEnd.rp_al (hd Loft.dflt_bas (o_bases curve)) 0 1))
            (nth i (Loft.greville_all (hd Loft.dflt_bas (o_bases curve))) 0)) ->
         (forall i : nat,
          (i < b_nfun (hd Loft.dflt_bas (o_bases curve)))%nat ->
          b_per1 (hd Loft.dflt_bas (o_bases curve)) <> 0%nat ->
          b_start (hd Loft.dflt_bas (o_bases curve)) <=
          nth i (Loft.greville_all (hd Loft.dflt_bas (o_bases curve))) 0 <= b_end (hd Loft.dflt_bas (o_bases curve))) ->
         forall (x v nv : list (list R)) (i : nat) (w : R) (p : list R),
         thk_eval tol curve (Loft.greville_all (hd Loft.dflt_bas (o_bases curve))) = Ok x ->
         thk_deriv tol curve (Loft.greville_all (hd Loft.dflt_bas (o_bases curve))) = Ok v ->
         thk_normals sqrtR eps (b_nfun (hd Loft.dflt_bas (o_bases curve))) v = Ok nv ->
         (i < b_nfun (hd Loft.dflt_bas (o_bases curve)))%nat ->
         obj_eval tol S0
           [ReparamEndToEnd.rp_map (hd Loft.dflt_bas (o_bases curve)) 0 1
              (nth i (Loft.greville_all (hd Loft.dflt_bas (o_bases curve))) 0); w] = Ok p ->
         let w' := snap1 k01 tol w in
         let xi := nth i x [] in
         let ni := nth i nv [] in
         let d := dist xi (nth i (Loft.greville_all (hd Loft.dflt_bas (o_bases curve))) 0) in
         0 <= w' <= 1 /\
         (forall c : nat,
          (c < 2)%nat -> coord c p = (1 - w') * coord c (thk_right xi ni d) + w' * coord c (thk_left xi ni d)).
Proof. exact @thicken_eval_greville. Qed.
Print Assumptions C15_thicken_eval_greville.

Theorem C15_thicken_boundary_v0 :
  forall (sqrtR : R -> R) (tol eps : R) (curve : obj R) (dist : list R -> R -> R) (S0 : obj R),
         thicken_gen sqrtR edge_curves2 tol eps curve dist = Ok S0 ->
         length (o_cps curve) = b_nfun (hd Loft.dflt_bas (o_bases curve)) ->
         (0 < b_nfun (hd Loft.dflt_bas (o_bases curve)))%nat ->
         0 < tol ->
         2 * tol <= 1 ->
         wf_basis_R tol (hd Loft.dflt_bas (o_bases curve)) ->
         (forall i : nat,
          (i < b_nfun (hd Loft.dflt_bas (o_bases curve)))%nat ->
          ReparamEndToEnd.knot_clear (b_knots (hd Loft.dflt_bas (o_bases curve)))
            (Rmax tol (tol / ReparamEndToEnd.rp_al (hd Loft.dflt_bas (o_bases curve)) 0 1))
            (nth i (Loft.greville_all (hd Loft.dflt_bas (o_bases curve))) 0)) ->
         (forall i : nat,
          (i < b_nfun (hd Loft.dflt_bas (o_bases curve)))%nat ->
          b_per1 (hd Loft.dflt_bas (o_bases curve)) <> 0%nat ->
          b_start (hd Loft.dflt_bas (o_bases curve)) <=
          nth i (Loft.greville_all (hd Loft.dflt_bas (o_bases curve))) 0 <= b_end (hd Loft.dflt_bas (o_bases curve))) ->
         forall (x v nv : list (list R)) (i : nat) (p : list R),
         thk_eval tol curve (Loft.greville_all (hd Loft.dflt_bas (o_bases curve))) = Ok x ->
         thk_deriv tol curve (Loft.greville_all (hd Loft.dflt_bas (o_bases curve))) = Ok v ->
         thk_normals sqrtR eps (b_nfun (hd Loft.dflt_bas (o_bases curve))) v = Ok nv ->
         (i < b_nfun (hd Loft.dflt_bas (o_bases curve)))%nat ->
         obj_eval tol S0
           [ReparamEndToEnd.rp_map (hd Loft.dflt_bas (o_bases curve)) 0 1
              (nth i (Loft.greville_all (hd Loft.dflt_bas (o_bases curve))) 0); 0] = Ok p ->
         let xi := nth i x [] in
         let ni := nth i nv [] in
         let d := dist xi (nth i (Loft.greville_all (hd Loft.dflt_bas (o_bases curve))) 0) in
         coord 0 p = nth 0 xi 0 - nth 1 ni 0 * d /\ coord 1 p = nth 1 xi 0 + nth 0 ni 0 * d.
Proof. exact @thicken_boundary_v0. Qed.
Print Assumptions C15_thicken_boundary_v0.

Theorem C15_thicken_boundary_v1 :
  forall (sqrtR : R -> R) (tol eps : R) (curve : obj R) (dist : list R -> R -> R) (S0 : obj R),
         thicken_gen sqrtR edge_curves2 tol eps curve dist = Ok S0 ->
         length (o_cps curve) = b_nfun (hd Loft.dflt_bas (o_bases curve)) ->
         (0 < b_nfun (hd Loft.dflt_bas (o_bases curve)))%nat ->
         0 < tol ->
         2 * tol <= 1 ->
         wf_basis_R tol (hd Loft.dflt_bas (o_bases curve)) ->
         (forall i : nat,
          (i < b_nfun (hd Loft.dflt_bas (o_bases curve)))%nat ->
          ReparamEndToEnd.knot_clear (b_knots (hd Loft.dflt_bas (o_bases curve)))
            (Rmax tol (tol / ReparamEndToEnd.rp_al (hd Loft.dflt_bas (o_bases curve)) 0 1))
            (nth i (Loft.greville_all (hd Loft.dflt_bas (o_bases curve))) 0)) ->
         (forall i : nat,
          (i < b_nfun (hd Loft.dflt_bas (o_bases curve)))%nat ->
          b_per1 (hd Loft.dflt_bas (o_bases curve)) <> 0%nat ->
          b_start (hd Loft.dflt_bas (o_bases curve)) <=
          nth i (Loft.greville_all (hd Loft.dflt_bas (o_bases curve))) 0 <= b_end (hd Loft.dflt_bas (o_bases curve))) ->
         forall (x v nv : list (list R)) (i : nat) (p : list R),
         thk_eval tol curve (Loft.greville_all (hd Loft.dflt_bas (o_bases curve))) = Ok x ->
         thk_deriv tol curve (Loft.greville_all (hd Loft.dflt_bas (o_bases curve))) = Ok v ->
         thk_normals sqrtR eps (b_nfun (hd Loft.dflt_bas (o_bases curve))) v = Ok nv ->
         (i < b_nfun (hd Loft.dflt_bas (o_bases curve)))%nat ->
         obj_eval tol S0
           [ReparamEndToEnd.rp_map (hd Loft.dflt_bas (o_bases curve)) 0 1
              (nth i (Loft.greville_all (hd Loft.dflt_bas (o_bases curve))) 0); 1] = Ok p ->
         let xi := nth i x [] in
         let ni := nth i nv [] in
         let d := dist xi (nth i (Loft.greville_all (hd Loft.dflt_bas (o_bases curve))) 0) in
         coord 0 p = nth 0 xi 0 + nth 1 ni 0 * d /\ coord 1 p = nth 1 xi 0 - nth 0 ni 0 * d.
Proof. exact @thicken_boundary_v1. Qed.
Print Assumptions C15_thicken_boundary_v1.

Theorem C15_thicken_midline_greville :
  forall (sqrtR : R -> R) (tol eps : R) (curve : obj R) (dist : list R -> R -> R) (S0 : obj R),
         thicken_gen sqrtR edge_curves2 tol eps curve dist = Ok S0 ->
         length (o_cps curve) = b_nfun (hd Loft.dflt_bas (o_bases curve)) ->
         (0 < b_nfun (hd Loft.dflt_bas (o_bases curve)))%nat ->
         0 < tol ->
         2 * tol <= 1 ->
         wf_basis_R tol (hd Loft.dflt_bas (o_bases curve)) ->
         (forall i : nat,
          (i < b_nfun (hd Loft.dflt_bas (o_bases curve)))%nat ->
          ReparamEndToEnd.knot_clear (b_knots (hd Loft.dflt_bas (o_bases curve)))
            (Rmax tol (tol / ReparamEndToEnd.rp_al (hd Loft.dflt_bas (o_bases curve)) 0 1))
            (nth i (Loft.greville_all (hd Loft.dflt_bas (o_bases curve))) 0)) ->
         (forall i : nat,
          (i < b_nfun (hd Loft.dflt_bas (o_bases curve)))%nat ->
          b_per1 (hd Loft.dflt_bas (o_bases curve)) <> 0%nat ->
          b_start (hd Loft.dflt_bas (o_bases curve)) <=
          nth i (Loft.greville_all (hd Loft.dflt_bas (o_bases curve))) 0 <= b_end (hd Loft.dflt_bas (o_bases curve))) ->
         forall (x v nv : list (list R)) (i : nat) (p : list R),
         thk_eval tol curve (Loft.greville_all (hd Loft.dflt_bas (o_bases curve))) = Ok x ->
         thk_deriv tol curve (Loft.greville_all (hd Loft.dflt_bas (o_bases curve))) = Ok v ->
         thk_normals sqrtR eps (b_nfun (hd Loft.dflt_bas (o_bases curve))) v = Ok nv ->
         (i < b_nfun (hd Loft.dflt_bas (o_bases curve)))%nat ->
         obj_eval tol S0
           [ReparamEndToEnd.rp_map (hd Loft.dflt_bas (o_bases curve)) 0 1
              (nth i (Loft.greville_all (hd Loft.dflt_bas (o_bases curve))) 0); 1 / 2] = Ok p ->
         coord 0 p = nth 0 (nth i x []) 0 /\ coord 1 p = nth 1 (nth i x []) 0.
Proof. exact @thicken_midline_greville. Qed.
Print Assumptions C15_thicken_midline_greville.

Theorem C15_thicken_midline_net :
  forall (sqrtR : R -> R) (tol eps : R) (curve : obj R) (dist : list R -> R -> R) (S0 : obj R),
         thicken_gen sqrtR edge_curves2 tol eps curve dist = Ok S0 ->
         length (o_cps curve) = b_nfun (hd Loft.dflt_bas (o_bases curve)) ->
         (0 < b_nfun (hd Loft.dflt_bas (o_bases curve)))%nat ->
         0 < tol ->
         wf_basis_R tol (hd Loft.dflt_bas (o_bases curve)) ->
         (forall i : nat,
          (i < b_nfun (hd Loft.dflt_bas (o_bases curve)))%nat ->
          ReparamEndToEnd.knot_clear (b_knots (hd Loft.dflt_bas (o_bases curve)))
            (Rmax tol (tol / ReparamEndToEnd.rp_al (hd Loft.dflt_bas (o_bases curve)) 0 1))
            (nth i (Loft.greville_all (hd Loft.dflt_bas (o_bases curve))) 0)) ->
         (forall i : nat,
          (i < b_nfun (hd Loft.dflt_bas (o_bases curve)))%nat ->
          b_per1 (hd Loft.dflt_bas (o_bases curve)) <> 0%nat ->
          b_start (hd Loft.dflt_bas (o_bases curve)) <=
          nth i (Loft.greville_all (hd Loft.dflt_bas (o_bases curve))) 0 <= b_end (hd Loft.dflt_bas (o_bases curve))) ->
         length (o_bases curve) = 1%nat ->
         o_rat curve = false ->
         Forall (fun q : list R => length q = 2%nat) (o_cps curve) ->
         forall i c : nat,
         (i < b_nfun (hd Loft.dflt_bas (o_bases curve)))%nat ->
         (c < 2)%nat ->
         coord c (nth (2 * i) (o_cps S0) []) + coord c (nth (2 * i + 1) (o_cps S0) []) =
         2 * coord c (nth i (o_cps curve) []).
Proof. exact @thicken_midline_net. Qed.
Print Assumptions C15_thicken_midline_net.

Theorem C15_thicken_midline_is_curve :
  forall (sqrtR : R -> R) (tol eps : R) (curve : obj R) (dist : list R -> R -> R) (S0 : obj R),
         thicken_gen sqrtR edge_curves2 tol eps curve dist = Ok S0 ->
         length (o_cps curve) = b_nfun (hd Loft.dflt_bas (o_bases curve)) ->
         (0 < b_nfun (hd Loft.dflt_bas (o_bases curve)))%nat ->
         0 < tol ->
         2 * tol <= 1 ->
         wf_basis_R tol (hd Loft.dflt_bas (o_bases curve)) ->
         (forall i : nat,
          (i < b_nfun (hd Loft.dflt_bas (o_bases curve)))%nat ->
          ReparamEndToEnd.knot_clear (b_knots (hd Loft.dflt_bas (o_bases curve)))
            (Rmax tol (tol / ReparamEndToEnd.rp_al (hd Loft.dflt_bas (o_bases curve)) 0 1))
            (nth i (Loft.greville_all (hd Loft.dflt_bas (o_bases curve))) 0)) ->
         (forall i : nat,
          (i < b_nfun (hd Loft.dflt_bas (o_bases curve)))%nat ->
          b_per1 (hd Loft.dflt_bas (o_bases curve)) <> 0%nat ->
          b_start (hd Loft.dflt_bas (o_bases curve)) <=
          nth i (Loft.greville_all (hd Loft.dflt_bas (o_bases curve))) 0 <= b_end (hd Loft.dflt_bas (o_bases curve))) ->
         length (o_bases curve) = 1%nat ->
         o_rat curve = false ->
         Forall (fun q : list R => length q = 2%nat) (o_cps curve) ->
         forall (curve' : obj R) (u : R) (p q : list R),
         Reparam.obj_reparam_dir curve 0 0 1 = Ok curve' ->
         obj_eval tol S0 [u; 1 / 2] = Ok p ->
         obj_eval tol curve' [u] = Ok q -> forall c : nat, (c < 2)%nat -> coord c p = coord c q.
Proof. exact @thicken_midline_is_curve. Qed.
Print Assumptions C15_thicken_midline_is_curve.

Theorem C15_thk_normals_regular :
  forall (sqrtR : R -> R) (eps : R) (n : nat) (v : list (list R)),
         length v = n ->
         (forall i : nat, (i < n)%nat -> ~ thk_len sqrtR (nth i v []) < eps) ->
         exists nv : list (list R),
           thk_normals sqrtR eps n v = Ok nv /\
           length nv = n /\
           (forall i : nat, (i < n)%nat -> nth i nv [] = map (fun c : R => c / thk_len sqrtR (nth i v [])) (nth i v [])).
Proof. exact @thk_normals_regular. Qed.
Print Assumptions C15_thk_normals_regular.

Theorem C15_thk_unit :
  forall a c : R,
         0 < sqrt (a * a + c * c) -> let l := sqrt (a * a + c * c) in a / l * (a / l) + c / l * (c / l) = 1.
Proof. exact @thk_unit. Qed.
Print Assumptions C15_thk_unit.

