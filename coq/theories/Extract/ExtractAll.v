Require Extraction.
Require Import ExtrOcamlBasic ExtrOcamlZBigInt.
From SplipyModel Require Import Extract.Exec.
Extraction Language OCaml.
Set Extraction AccessOpaque.
Separate Extraction Exec.
