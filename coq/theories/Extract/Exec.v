(* The Q instance of the model, as the functions the runner calls. *)
From Coq Require Import List ZArith QArith Bool.
From SplipyModel Require Import Model.Num Model.BasisDef Model.BasisEval Model.Knots Model.Tensor Model.Obj Model.Deriv Model.KnotInsert Model.Reparam Model.Affine Model.Tol Model.StateCtx Model.Solve Model.Order Model.Split Model.Periodic Model.WF Model.Ops Model.Identical Model.Append Model.Factory Model.Interp Model.Section Model.Measure Model.Orient Model.Numbering Model.G2 Model.EvalForms Model.Stl Model.Spl Model.Faces Model.Catalogue Model.ConstPar Model.DefaultObj Model.Loft Model.InterpMore Model.Faces2 Gen.CircleNets Gen.DiscSquare.
From SplipyModel Require Model.OFoam.
From SplipyModel Require Import Model.IdenticalFix.
From SplipyModel Require Import Model.SplitSnap.
From SplipyModel Require Import Model.Handed.
From SplipyModel Require Import Model.EdgeLoop.
Import ListNotations.

Definition q_basis_evaluate := @basis_evaluate Q NumQ.
Definition q_basis_evaluate_sparse := @basis_evaluate_sparse Q NumQ.
Definition q_snap1 := @snap1 Q NumQ.
(* reference: naive Cox-de Boor / derivative recurrence on the list's knot function *)
Definition q_dB (side : bool) (k : list Q) (r q i : nat) (t : Q) : Q := @dBq Q NumQ side (kn k) r q i t.
Definition q_ref_row := @ref_row Q NumQ.
Definition q_obj_eval := @obj_eval Q NumQ.
Definition q_obj_deriv := @obj_deriv Q NumQ.
Definition q_mkBasis := @mkBasis Q.
Definition q_mkObj := @mkObj Q.
Definition q_wf_basis := @wf_basis Q NumQ.
Definition q_curve_deriv := @curve_deriv Q NumQ.
Definition q_surface_deriv := @surface_deriv Q NumQ.
Definition q_eval_h := @eval_h Q NumQ.
Definition q_basis_insert_knot := @basis_insert_knot Q NumQ.
Definition q_obj_insert_knots := @obj_insert_knots Q NumQ.
Definition q_refine_knots := @refine_knots Q NumQ.
Definition q_knot_spans := @knot_spans Q NumQ.
Definition q_obj_reverse := @obj_reverse Q NumQ.
Definition q_obj_swap := @obj_swap Q NumQ.
Definition q_obj_reparam_dir := @obj_reparam_dir Q NumQ.
Definition q_obj_reparam_all := @obj_reparam_all Q NumQ.
Definition q_obj_translate := @obj_translate Q NumQ.
Definition q_obj_scale := @obj_scale Q NumQ.
Definition q_obj_rotate := @obj_rotate Q NumQ.
Definition q_obj_mirror := @obj_mirror Q NumQ.
Definition q_obj_project := @obj_project Q NumQ.
Definition q_obj_set_dimension := @obj_set_dimension Q NumQ.
Definition q_obj_force_rational := @obj_force_rational Q NumQ.
Definition q_basis_continuity := @basis_continuity Q NumQ.
Definition q_vd_insert_all := @vd_insert_all Q NumQ.
Definition q_state_exec (p : prog Q) (init : list Q) : list Q * bool :=
  let r := exec Q p (fun k => nth k init 0%Q) in
  (map (fst r) (seq 0 (length init)), match snd r with Normal => true | Exc => false end).
Definition q_basis_raise_order := @basis_raise_order Q NumQ.
Definition q_basis_lower_order := @basis_lower_order Q NumQ.
Definition q_obj_raise_order := @obj_raise_order Q NumQ.
Definition q_obj_lower_order := @obj_lower_order Q NumQ.
Definition q_solve := @solve Q NumQ.
Definition q_obj_split (tol : Q) (o : obj Q) (d : nat) (ks : list Q) := @obj_split_snapped Q NumQ (S (length ks)) tol o d ks.
Definition q_obj_make_periodic := @obj_make_periodic Q NumQ.
Definition q_obj_lower_periodic (o : obj Q) (t d : nat) := @obj_lower_periodic Q NumQ 64 o t d.
Definition q_wf_obj_b := @wf_obj_b Q NumQ.
Definition q_basis_ctor := @basis_ctor Q NumQ.
Definition q_obj_make_identical := @obj_make_identical2 Q NumQ.
Definition q_obj_compatible := @obj_compatible Q NumQ.
Definition q_obj_append := @obj_append Q NumQ.
Definition q_cs_loop_tab := @cs_loop_tab Q NumQ.
Definition q_revolve_cps := @revolve_cps Q NumQ.
Definition q_extrude_cps := @extrude_cps Q NumQ.
Definition q_circle_net_p2C0 := @circle_net_p2C0 Q NumQ.
Definition q_circle_net_p4C1 := @circle_net_p4C1 Q NumQ.
Definition q_curve_interpolate := @curve_interpolate Q NumQ.
Definition q_curve_lsq := @curve_lsq Q NumQ.
Definition q_cubic_curve := @cubic_curve Q NumQ.
Definition q_surface_interpolate := @surface_interpolate Q NumQ.
Definition q_obj_section := @obj_section Q NumQ.
Definition q_basis_integrate := @basis_integrate Q NumQ.
Definition q_obj_center := @obj_center Q NumQ.
Definition q_orient_compute := @orient_compute Q NumQ.
Definition x_number_model := number_model.
Definition q_g2_encode := @g2_encode Q NumQ.
Definition q_g2_decode := @g2_decode Q NumQ.
Definition q_obj_eval_grid := @obj_eval_grid Q NumQ.
Definition q_obj_eval_pointwise := @obj_eval_pointwise Q NumQ.
Definition q_stl_write_surface := @stl_write_surface Q NumQ.
Definition q_stl_binary_count := @stl_binary_count Q NumQ.
Definition q_stl_params := @stl_params Q NumQ.
Definition q_spl_lines := @spl_lines Q NumQ.
Definition q_spl_decode := @spl_decode Q NumQ.
Definition x_patch_faces := patch_faces.
Definition x_cell_numbers_model := cell_numbers_model.
(* the abstract catalogue after adding the patches (corner vertex ids, 2^d each) in the given order:
   node counts per dimension 0..d, the corner sets of the boundary nodes, and for every node of dimension d-1 its
   corner set with the corner sets of its higher neighbours of dimension d *)
Definition x_catalogue (d : nat) (ps : list (list nat)) : list nat * list (list nat) * list (list nat * list (list nat)) :=
  let c := cat_add_all cat_empty (map (mkPatch d) ps) in
  (map (fun i => length (cat_nodes c i)) (seq 0 (S d)),
   map (fun n => snd (n_key n)) (cat_boundary c d),
   map (fun n => (snd (n_key n), map snd (filter (fun h => (fst h =? d)%nat) (n_higher n)))) (cat_nodes c (d - 1))).
Definition x_cat_lookup (d : nat) (ps : list (list nat)) (q : list nat) : option (list nat) :=
  match cat_lookup (cat_add_all cat_empty (map (mkPatch d) ps)) (mkPatch (Nat.log2 (length q)) q) with
  | Some n => Some (snd (n_key n)) | None => None end.
Definition q_disc_square_net := @disc_square_net_gen Q NumQ.
Definition q_const_par_curve := @const_par_curve Q NumQ.
Definition q_default_obj := @default_obj Q NumQ.
Definition q_default_obj_rat := @default_obj_rat Q NumQ.
Definition q_obj_bounding_box := @obj_bounding_box Q NumQ.
Definition q_loft := @loft Q NumQ.
Definition q_vloft := @vloft Q NumQ.
Definition q_volume_interpolate := @volume_interpolate Q NumQ.
Definition q_surface_lsq := @surface_lsq Q NumQ.
Definition q_volume_lsq := @volume_lsq Q NumQ.
Definition q_cubic_periodic := @cubic_periodic Q NumQ.
Definition x_model_faces := model_faces.
Definition x_conform := conform.
Definition x_ofoam_order := SplipyModel.Model.OFoam.ofoam_order.
Definition x_ofoam_blocks := SplipyModel.Model.OFoam.boundary_blocks.
Definition x_ofoam_declared := SplipyModel.Model.OFoam.declared_blocks.
Definition x_ofoam_ninternal := SplipyModel.Model.OFoam.n_internal.
Definition q_edge_loop (rtol atol : Q) (cs : list (list Q * list Q)) : res (list (nat * bool)) :=
  let curves := map (fun ic => mkEC (fst (snd ic)) (snd (snd ic)) (fst ic, false)) (combine (seq 0 (length cs)) cs) in
  match @loop_order2 Q NumQ (nat * bool) rtol atol (fun p => (fst p, negb (snd p))) curves with
  | Ok l => Ok (map (fun c => e_data c) l)
  | Err e => Err e
  end.
Definition q_obj_right_hand := @obj_right_hand Q NumQ.
Definition q_res_witness (e : err) : res unit := Err e.
