(* Structural comparison (rationals up to Qeq) used by the kernel cross-check: a sample of the command lines
   the extracted OCaml runner answered is re-evaluated here, inside Coq, with vm_compute, and the results are
   compared with what the runner printed.  Keeps extraction, Zarith and the OCaml driver out of the things one
   has to believe blindly.  No theorem depends on this file. *)
From Coq Require Import List ZArith QArith Bool.
From SplipyModel Require Import Model.Num Model.Obj.
Import ListNotations.

Class Ceq (A : Type) := ceq : A -> A -> bool.
#[global] Instance Ceq_Q : Ceq Q := Qeq_bool.
#[global] Instance Ceq_nat : Ceq nat := Nat.eqb.
#[global] Instance Ceq_bool : Ceq bool := Bool.eqb.
#[global] Instance Ceq_Z : Ceq Z := Z.eqb.
Fixpoint ceq_list {A} `{Ceq A} (l1 l2 : list A) : bool :=
  match l1, l2 with
  | [], [] => true
  | a :: r1, b :: r2 => ceq a b && ceq_list r1 r2
  | _, _ => false
  end.
#[global] Instance Ceq_list {A} `{Ceq A} : Ceq (list A) := ceq_list.
#[global] Instance Ceq_prod {A B} `{Ceq A} `{Ceq B} : Ceq (A * B) := fun x y => ceq (fst x) (fst y) && ceq (snd x) (snd y).
#[global] Instance Ceq_option {A} `{Ceq A} : Ceq (option A) := fun x y =>
  match x, y with Some a, Some b => ceq a b | None, None => true | _, _ => false end.
Definition err_code (e : err) : nat :=
  match e with ValueError => 0 | RuntimeError => 1 | TypeError => 2 | IndexError => 3 | NotSupported => 4
             | Singular => 5 | Fuel => 6 | KeyError => 7 | NameError => 8 end.
#[global] Instance Ceq_err : Ceq err := fun a b => Nat.eqb (err_code a) (err_code b).
#[global] Instance Ceq_res {A} `{Ceq A} : Ceq (res A) := fun x y =>
  match x, y with Ok a, Ok b => ceq a b | Err a, Err b => ceq a b | _, _ => false end.
#[global] Instance Ceq_basis : Ceq (basis Q) := fun a b =>
  ceq (b_order a) (b_order b) && ceq (b_per1 a) (b_per1 b) && ceq (b_knots a) (b_knots b).
#[global] Instance Ceq_obj : Ceq (obj Q) := fun a b =>
  ceq (o_bases a) (o_bases b) && ceq (o_dim a) (o_dim b) && ceq (o_rat a) (o_rat b) && ceq (o_cps a) (o_cps b).
