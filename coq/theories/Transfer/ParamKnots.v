From Coq Require Import List ZArith QArith Reals Bool.
From SplipyModel Require Import Spec.BSpline Model.Num Model.BasisDef Model.Knots Transfer.ParamBase.
From Param Require Import Param.
Import ListNotations.

Parametricity Recursive wf_basis.

Theorem wf_basis_transfer p per1 (k : list Q) :
  @wf_basis Q NumQ p per1 k = @wf_basis R NumR p per1 (map Q2R k).
Proof.
  apply bool_R_inv.
  exact (wf_basis_R Q R QR NumQ NumR NumQR p p (nat_R_refl p) per1 per1 (nat_R_refl per1) k (map Q2R k) (list_R_map k)).
Qed.
