(* Transfer for the basis-level model: the Q instance that is executed computes
   (under Q2R) exactly what the R instance, about which the theorems speak, computes. *)
From Coq Require Import List ZArith QArith Reals Bool.
From SplipyModel Require Import Spec.BSpline Model.Num Model.BasisDef Model.BasisEval Transfer.ParamBase.
From Param Require Import Param.
Import ListNotations.

Parametricity Recursive ref_row.
Parametricity Recursive basis_evaluate.
Parametricity Recursive eval_point.

Theorem ref_row_transfer side (k : list Q) p per1 d (t : Q) :
  map Q2R (@ref_row Q NumQ side k p per1 d t) = @ref_row R NumR side (map Q2R k) p per1 d (Q2R t).
Proof.
  symmetry. apply list_R_map_inv.
  refine (ref_row_R Q R QR NumQ NumR NumQR side side _ k (map Q2R k) (list_R_map k)
            p p (nat_R_refl p) per1 per1 (nat_R_refl per1) d d (nat_R_refl d) t (Q2R t) eq_refl).
  apply bool_R_eq; reflexivity.
Qed.

Theorem basis_evaluate_transfer (k : list Q) p per1 (tol : Q) d fr (ts : list Q) :
  map (map Q2R) (@basis_evaluate Q NumQ k p per1 tol d fr ts)
  = @basis_evaluate R NumR (map Q2R k) p per1 (Q2R tol) d fr (map Q2R ts).
Proof.
  symmetry. apply list_list_R_map_inv.
  refine (basis_evaluate_R Q R QR NumQ NumR NumQR k (map Q2R k) (list_R_map k)
            p p (nat_R_refl p) per1 per1 (nat_R_refl per1) tol (Q2R tol) eq_refl
            d d (nat_R_refl d) fr fr _ ts (map Q2R ts) (list_R_map ts)).
  apply bool_R_eq; reflexivity.
Qed.
