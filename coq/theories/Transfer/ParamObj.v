From Coq Require Import List ZArith QArith Reals Bool.
From SplipyModel Require Import Spec.BSpline Model.Num Model.BasisDef Model.BasisEval Model.Tensor Model.Obj
  Transfer.ParamBase Transfer.ParamBasis.
From Param Require Import Param.
Import ListNotations.

Parametricity Recursive res.
Parametricity Recursive obj_eval.
Parametricity Recursive obj_deriv.

Definition basisQ2R (b : basis Q) : basis R := mkBasis (b_order b) (map Q2R (b_knots b)) (b_per1 b).
Definition objQ2R (o : obj Q) : obj R :=
  mkObj (map basisQ2R (o_bases o)) (map (map Q2R) (o_cps o)) (o_dim o) (o_rat o).
Definition resmap {A B} (f : A -> B) (r : res A) : res B := match r with Ok a => Ok (f a) | Err e => Err e end.

Lemma basis_R_map (b : basis Q) : basis_R Q R QR b (basisQ2R b).
Proof. destruct b as [p k per]. constructor; [apply nat_R_refl|apply list_R_map|apply nat_R_refl]. Qed.
Lemma bases_R_map (bs : list (basis Q)) : list_R _ _ (basis_R Q R QR) bs (map basisQ2R bs).
Proof. induction bs; constructor; auto. apply basis_R_map. Qed.
Lemma obj_R_map (o : obj Q) : obj_R Q R QR o (objQ2R o).
Proof.
  destruct o as [bs cps d r]. constructor; [apply bases_R_map|apply list_list_R_map|apply nat_R_refl|apply bool_R_eq; reflexivity].
Qed.
Lemma err_R_eq a b : err_R a b -> a = b.
Proof. destruct 1; reflexivity. Qed.
Lemma res_list_R_inv (r : res (list Q)) (r' : res (list R)) :
  res_R _ _ (list_R Q R QR) r r' -> r' = resmap (map Q2R) r.
Proof. destruct 1 as [a a' Ha|e e' He]; cbn; [apply list_R_map_inv in Ha; congruence|apply err_R_eq in He; congruence]. Qed.
Lemma list_nat_R_refl (l : list nat) : list_R nat nat nat_R l l.
Proof. induction l; constructor; auto. apply nat_R_refl. Qed.
Lemma list_bool_R_refl (l : list bool) : list_R bool bool bool_R l l.
Proof. induction l; constructor; auto. apply bool_R_eq; reflexivity. Qed.

Theorem obj_eval_transfer (tol : Q) (o : obj Q) (ts : list Q) :
  resmap (map Q2R) (@obj_eval Q NumQ tol o ts) = @obj_eval R NumR (Q2R tol) (objQ2R o) (map Q2R ts).
Proof.
  symmetry. apply res_list_R_inv.
  exact (obj_eval_R Q R QR NumQ NumR NumQR tol (Q2R tol) eq_refl o (objQ2R o) (obj_R_map o) ts (map Q2R ts) (list_R_map ts)).
Qed.

Theorem obj_deriv_transfer (tol : Q) (o : obj Q) ds ab (ts : list Q) :
  resmap (map Q2R) (@obj_deriv Q NumQ tol o ds ab ts) = @obj_deriv R NumR (Q2R tol) (objQ2R o) ds ab (map Q2R ts).
Proof.
  symmetry. apply res_list_R_inv.
  exact (obj_deriv_R Q R QR NumQ NumR NumQR tol (Q2R tol) eq_refl o (objQ2R o) (obj_R_map o)
           ds ds (list_nat_R_refl ds) ab ab (list_bool_R_refl ab) ts (map Q2R ts) (list_R_map ts)).
Qed.
