From Coq Require Import List ZArith QArith Reals Bool.
From SplipyModel Require Import Spec.BSpline Model.Num Model.BasisDef Model.BasisEval Model.Tensor Model.Obj Model.KnotInsert
  Transfer.ParamBase Transfer.ParamBasis Transfer.ParamObj.
From Param Require Import Param.
Import ListNotations.

Parametricity Recursive obj_insert_knots.

Definition resobjmap (r : res (obj Q)) : res (obj R) := match r with Ok o => Ok (objQ2R o) | Err e => Err e end.

Lemma basis_R_inv (b : basis Q) (b' : basis R) : basis_R Q R QR b b' -> b' = basisQ2R b.
Proof.
  destruct 1 as [p p' Hp k k' Hk r r' Hr]. unfold basisQ2R. cbn.
  apply nat_R_eq in Hp. apply nat_R_eq in Hr. apply list_R_map_inv in Hk. congruence.
Qed.
Lemma bases_R_inv bs bs' : list_R _ _ (basis_R Q R QR) bs bs' -> bs' = map basisQ2R bs.
Proof. induction 1 as [|a a' Ha l l' Hl IH]; cbn; [reflexivity|]. apply basis_R_inv in Ha. congruence. Qed.
Lemma obj_R_inv (o : obj Q) (o' : obj R) : obj_R Q R QR o o' -> o' = objQ2R o.
Proof.
  destruct 1 as [bs bs' Hb cps cps' Hc d d' Hd r r' Hr]. unfold objQ2R. cbn.
  apply bases_R_inv in Hb. apply list_list_R_map_inv in Hc. apply nat_R_eq in Hd. apply bool_R_inv in Hr. congruence.
Qed.

Theorem obj_insert_knots_transfer (o : obj Q) d (xs : list Q) :
  resobjmap (@obj_insert_knots Q NumQ o d xs) = @obj_insert_knots R NumR (objQ2R o) d (map Q2R xs).
Proof.
  pose proof (obj_insert_knots_R Q R QR NumQ NumR NumQR o (objQ2R o) (obj_R_map o) d d (nat_R_refl d)
                xs (map Q2R xs) (list_R_map xs)) as H.
  destruct H as [a a' Ha|e e' He]; cbn.
  - apply obj_R_inv in Ha. congruence.
  - apply err_R_eq in He. congruence.
Qed.
