(* Transfer Q -> R ("executed is proved") for the object-level operations of the model:
   generic inversion lemmas (from a parametricity relation to an equation) and, per operation, the
   Paramcoq relation [f_R] instantiated at NumQR.
   Part 1: reparametrisation, affine maps, section, continuity, split, periodic. *)
From Coq Require Import List ZArith QArith Reals Bool.
From SplipyModel Require Import Spec.BSpline Model.Num Model.BasisDef Model.BasisEval Model.Tensor Model.Obj Model.KnotInsert
  Model.Reparam Model.Affine Model.Section Model.Tol Model.Split Model.Periodic
  Transfer.ParamBase Transfer.ParamBasis Transfer.ParamObj Transfer.ParamInsert.
From Param Require Import Param.
Import ListNotations.

(* ------------------------------------------------------------------------------------------ *)
(* Generic inversion lemmas: relation => equation, for every type former the model uses.        *)
(* [f] is the image map (Q2R, map Q2R, objQ2R, ...).                                            *)
Section Inv.
  Context {A B : Type} (RR : A -> B -> Type) (f : A -> B).
  Hypothesis Hinv : forall a b, RR a b -> b = f a.
  Lemma gen_list_R_inv l l' : list_R A B RR l l' -> l' = map f l.
  Proof. induction 1 as [|a a' Ha l l' Hl IH]; cbn; [reflexivity|]. apply Hinv in Ha. congruence. Qed.
  Lemma gen_res_R_inv r r' : res_R A B RR r r' -> r' = resmap f r.
  Proof. destruct 1 as [a a' Ha|e e' He]; cbn; [apply Hinv in Ha; congruence|apply err_R_eq in He; congruence]. Qed.
  Lemma gen_option_R_inv o o' : option_R A B RR o o' -> o' = option_map f o.
  Proof. destruct 1 as [a a' Ha|]; cbn; [apply Hinv in Ha; congruence|reflexivity]. Qed.
End Inv.
Section Map.
  Context {A B : Type} (RR : A -> B -> Type) (f : A -> B).
  Hypothesis Hmap : forall a, RR a (f a).
  Lemma gen_list_R_map l : list_R A B RR l (map f l).
  Proof. induction l; constructor; auto. Qed.
  Lemma gen_option_R_map o : option_R A B RR o (option_map f o).
  Proof. destruct o; constructor; auto. Qed.
  Lemma gen_res_R_map r : res_R A B RR r (resmap f r).
  Proof. destruct r as [a|e]; constructor; auto. destruct e; constructor. Qed.
End Map.
Definition pairmap {A B A' B'} (f : A -> A') (g : B -> B') (p : A * B) : A' * B' := (f (fst p), g (snd p)).
Section InvProd.
  Context {A A' B B' : Type} (RA : A -> A' -> Type) (RB : B -> B' -> Type) (f : A -> A') (g : B -> B').
  Lemma gen_prod_R_inv (HA : forall a b, RA a b -> b = f a) (HB : forall a b, RB a b -> b = g a) p p' :
    prod_R A A' RA B B' RB p p' -> p' = pairmap f g p.
  Proof. destruct 1 as [a a' Ha b b' Hb]. unfold pairmap; cbn. apply HA in Ha. apply HB in Hb. congruence. Qed.
  Lemma gen_prod_R_map (HA : forall a, RA a (f a)) (HB : forall b, RB b (g b)) p :
    prod_R A A' RA B B' RB p (pairmap f g p).
  Proof. destruct p. constructor; auto. Qed.
End InvProd.

Lemma QR_inv (a : Q) (b : R) : QR a b -> b = Q2R a.
Proof. unfold QR. congruence. Qed.
Lemma QR_map (a : Q) : QR a (Q2R a).
Proof. reflexivity. Qed.

(* the instances asked for *)
Lemma res_obj_R_inv (r : res (obj Q)) (r' : res (obj R)) : res_R _ _ (obj_R Q R QR) r r' -> r' = resmap objQ2R r.
Proof. apply gen_res_R_inv. exact obj_R_inv. Qed.
Lemma list_obj_R_inv (l : list (obj Q)) (l' : list (obj R)) : list_R _ _ (obj_R Q R QR) l l' -> l' = map objQ2R l.
Proof. apply gen_list_R_inv. exact obj_R_inv. Qed.
Lemma list_obj_R_map (l : list (obj Q)) : list_R _ _ (obj_R Q R QR) l (map objQ2R l).
Proof. apply gen_list_R_map. exact obj_R_map. Qed.
Lemma res_list_obj_R_inv (r : res (list (obj Q))) (r' : res (list (obj R))) :
  res_R _ _ (list_R _ _ (obj_R Q R QR)) r r' -> r' = resmap (map objQ2R) r.
Proof. apply gen_res_R_inv. exact list_obj_R_inv. Qed.
Lemma pair_obj_R_inv (p : obj Q * obj Q) (p' : obj R * obj R) :
  prod_R _ _ (obj_R Q R QR) _ _ (obj_R Q R QR) p p' -> p' = pairmap objQ2R objQ2R p.
Proof. apply gen_prod_R_inv; exact obj_R_inv. Qed.
Lemma res_pair_obj_R_inv (r : res (obj Q * obj Q)) (r' : res (obj R * obj R)) :
  res_R _ _ (prod_R _ _ (obj_R Q R QR) _ _ (obj_R Q R QR)) r r' -> r' = resmap (pairmap objQ2R objQ2R) r.
Proof. apply gen_res_R_inv. exact pair_obj_R_inv. Qed.
Lemma option_obj_R_inv (o : option (obj Q)) (o' : option (obj R)) :
  option_R _ _ (obj_R Q R QR) o o' -> o' = option_map objQ2R o.
Proof. apply gen_option_R_inv. exact obj_R_inv. Qed.
Lemma res_basis_R_inv (r : res (basis Q)) (r' : res (basis R)) : res_R _ _ (basis_R Q R QR) r r' -> r' = resmap basisQ2R r.
Proof. apply gen_res_R_inv. exact basis_R_inv. Qed.
Lemma res_list_list_R_inv (r : res (list (list Q))) (r' : res (list (list R))) :
  res_R _ _ (list_R _ _ (list_R Q R QR)) r r' -> r' = resmap (map (map Q2R)) r.
Proof. apply gen_res_R_inv. exact list_list_R_map_inv. Qed.
Lemma option_Z_R_inv (o o' : option Z) : option_R Z Z Z_R o o' -> o' = o.
Proof. destruct 1 as [a a' Ha|]; [apply Z_R_eq in Ha; congruence|reflexivity]. Qed.
Lemma option_Z_R_refl (o : option Z) : option_R Z Z Z_R o o.
Proof. destruct o; constructor. apply Z_R_refl. Qed.
Lemma option_nat_R_refl (o : option nat) : option_R nat nat nat_R o o.
Proof. destruct o; constructor. apply nat_R_refl. Qed.
Lemma res_option_Z_R_inv (r r' : res (option Z)) : res_R _ _ (option_R Z Z Z_R) r r' -> r' = r.
Proof.
  destruct 1 as [a a' Ha|e e' He]; [apply option_Z_R_inv in Ha; congruence|apply err_R_eq in He; congruence].
Qed.
Lemma bool_R_refl (b : bool) : bool_R b b.
Proof. destruct b; constructor. Qed.
Definition qpairQ2R (p : Q * Q) : R * R := pairmap Q2R Q2R p.
Lemma list_qpair_R_map (l : list (Q * Q)) : list_R _ _ (prod_R Q R QR Q R QR) l (map qpairQ2R l).
Proof. apply gen_list_R_map. intro p. apply gen_prod_R_map; exact QR_map. Qed.

(* ------------------------------------------------------------------------------------------ *)
(* Z arithmetic used by the model: relations through equality, as for nat in ParamBase.         *)
Ltac Z_real := intros; repeat match goal with
    | H : Z_R _ _ |- _ => apply Z_R_eq in H; subst
    | H : nat_R _ _ |- _ => apply nat_R_eq in H; subst end;
  first [apply Z_R_refl | apply nat_R_refl | apply bool_R_eq; reflexivity].
Definition Zadd_R : forall a a', Z_R a a' -> forall b b', Z_R b b' -> Z_R (a + b)%Z (a' + b')%Z.
Proof. Z_real. Defined.
Realizer Z.add as Z_add_R := Zadd_R.
Definition Zsub_R : forall a a', Z_R a a' -> forall b b', Z_R b b' -> Z_R (a - b)%Z (a' - b')%Z.
Proof. Z_real. Defined.
Realizer Z.sub as Z_sub_R := Zsub_R.
Definition Zmax_R : forall a a', Z_R a a' -> forall b b', Z_R b b' -> Z_R (Z.max a b) (Z.max a' b').
Proof. Z_real. Defined.
Realizer Z.max as Z_max_R := Zmax_R.
Definition Zmin_R : forall a a', Z_R a a' -> forall b b', Z_R b b' -> Z_R (Z.min a b) (Z.min a' b').
Proof. Z_real. Defined.
Realizer Z.min as Z_min_R := Zmin_R.
Definition Zltb_R : forall a a', Z_R a a' -> forall b b', Z_R b b' -> bool_R (a <? b)%Z (a' <? b')%Z.
Proof. Z_real. Defined.
Realizer Z.ltb as Z_ltb_R := Zltb_R.
Definition Zleb_R : forall a a', Z_R a a' -> forall b b', Z_R b b' -> bool_R (a <=? b)%Z (a' <=? b')%Z.
Proof. Z_real. Defined.
Realizer Z.leb as Z_leb_R := Zleb_R.
Definition Zeqb_R : forall a a', Z_R a a' -> forall b b', Z_R b b' -> bool_R (a =? b)%Z (a' =? b')%Z.
Proof. Z_real. Defined.
Realizer Z.eqb as Z_eqb_R := Zeqb_R.
Definition Ztonat_R : forall a a', Z_R a a' -> nat_R (Z.to_nat a) (Z.to_nat a').
Proof. Z_real. Defined.
Realizer Z.to_nat as Z_to_nat_R := Ztonat_R.

(* ------------------------------------------------------------------------------------------ *)
(* Model/Reparam.v *)
Parametricity Recursive obj_reverse.
Parametricity Recursive obj_swap.
Parametricity Recursive obj_reparam_dir.
Parametricity Recursive obj_reparam_all.

Theorem obj_reverse_transfer (o : obj Q) d :
  objQ2R (@obj_reverse Q NumQ o d) = @obj_reverse R NumR (objQ2R o) d.
Proof.
  symmetry. apply obj_R_inv.
  exact (obj_reverse_R Q R QR NumQ NumR NumQR o (objQ2R o) (obj_R_map o) d d (nat_R_refl d)).
Qed.

Theorem obj_swap_transfer (o : obj Q) d1 d2 :
  objQ2R (@obj_swap Q NumQ o d1 d2) = @obj_swap R NumR (objQ2R o) d1 d2.
Proof.
  symmetry. apply obj_R_inv.
  exact (obj_swap_R Q R QR NumQ NumR NumQR o (objQ2R o) (obj_R_map o) d1 d1 (nat_R_refl d1) d2 d2 (nat_R_refl d2)).
Qed.

Theorem obj_reparam_dir_transfer (o : obj Q) d (s e : Q) :
  resmap objQ2R (@obj_reparam_dir Q NumQ o d s e) = @obj_reparam_dir R NumR (objQ2R o) d (Q2R s) (Q2R e).
Proof.
  symmetry. apply res_obj_R_inv.
  exact (obj_reparam_dir_R Q R QR NumQ NumR NumQR o (objQ2R o) (obj_R_map o) d d (nat_R_refl d)
           s (Q2R s) eq_refl e (Q2R e) eq_refl).
Qed.

Theorem obj_reparam_all_transfer (o : obj Q) (ranges : list (Q * Q)) :
  resmap objQ2R (@obj_reparam_all Q NumQ o ranges) = @obj_reparam_all R NumR (objQ2R o) (map qpairQ2R ranges).
Proof.
  symmetry. apply res_obj_R_inv.
  exact (obj_reparam_all_R Q R QR NumQ NumR NumQR o (objQ2R o) (obj_R_map o) ranges (map qpairQ2R ranges)
           (list_qpair_R_map ranges)).
Qed.

(* ------------------------------------------------------------------------------------------ *)
(* Fixpoints whose structural argument is matched below another test (or together with a second
   argument) leave Paramcoq an unfolding obligation  body = fix ...  that its default tactic does not
   solve, and this release opens no proof for it.  The obligation is closed by case analysis on (at most
   two of) the bound variables; we install that as the parametricity tactic, locally. *)
Ltac param_dr1 := solve [reflexivity | match goal with x : _ |- _ => destruct x; solve [reflexivity] end].
Ltac param_dr2 := solve [param_dr1 | match goal with x : _ |- _ => destruct x; solve [param_dr1] end].
Ltac param_dr := intros; param_dr2.
#[local] Parametricity Tactic := (param_dr).

(* ------------------------------------------------------------------------------------------ *)
(* Model/Affine.v *)
Parametricity Recursive obj_set_dimension.
Parametricity Recursive obj_force_rational.
Parametricity Recursive obj_translate.
Parametricity Recursive obj_scale.
Parametricity Recursive obj_rotate.
Parametricity Recursive obj_mirror.
Parametricity Recursive obj_project.

Theorem obj_set_dimension_transfer (o : obj Q) newdim :
  objQ2R (@obj_set_dimension Q NumQ o newdim) = @obj_set_dimension R NumR (objQ2R o) newdim.
Proof.
  symmetry. apply obj_R_inv.
  exact (obj_set_dimension_R Q R QR NumQ NumR NumQR o (objQ2R o) (obj_R_map o) newdim newdim (nat_R_refl newdim)).
Qed.

Theorem obj_force_rational_transfer (o : obj Q) :
  objQ2R (@obj_force_rational Q NumQ o) = @obj_force_rational R NumR (objQ2R o).
Proof.
  symmetry. apply obj_R_inv.
  exact (obj_force_rational_R Q R QR NumQ NumR NumQR o (objQ2R o) (obj_R_map o)).
Qed.

Theorem obj_translate_transfer (o : obj Q) (x : list Q) :
  resmap objQ2R (@obj_translate Q NumQ o x) = @obj_translate R NumR (objQ2R o) (map Q2R x).
Proof.
  symmetry. apply res_obj_R_inv.
  exact (obj_translate_R Q R QR NumQ NumR NumQR o (objQ2R o) (obj_R_map o) x (map Q2R x) (list_R_map x)).
Qed.

Theorem obj_scale_transfer (o : obj Q) (s : list Q) :
  resmap objQ2R (@obj_scale Q NumQ o s) = @obj_scale R NumR (objQ2R o) (map Q2R s).
Proof.
  symmetry. apply res_obj_R_inv.
  exact (obj_scale_R Q R QR NumQ NumR NumQR o (objQ2R o) (obj_R_map o) s (map Q2R s) (list_R_map s)).
Qed.

Theorem obj_rotate_transfer (o : obj Q) (ch sh : Q) (normal : list Q) (inv : Q) :
  resmap objQ2R (@obj_rotate Q NumQ o ch sh normal inv)
  = @obj_rotate R NumR (objQ2R o) (Q2R ch) (Q2R sh) (map Q2R normal) (Q2R inv).
Proof.
  symmetry. apply res_obj_R_inv.
  exact (obj_rotate_R Q R QR NumQ NumR NumQR o (objQ2R o) (obj_R_map o) ch (Q2R ch) eq_refl sh (Q2R sh) eq_refl
           normal (map Q2R normal) (list_R_map normal) inv (Q2R inv) eq_refl).
Qed.

Theorem obj_mirror_transfer (o : obj Q) (normal : list Q) (inv : Q) :
  resmap objQ2R (@obj_mirror Q NumQ o normal inv) = @obj_mirror R NumR (objQ2R o) (map Q2R normal) (Q2R inv).
Proof.
  symmetry. apply res_obj_R_inv.
  exact (obj_mirror_R Q R QR NumQ NumR NumQR o (objQ2R o) (obj_R_map o)
           normal (map Q2R normal) (list_R_map normal) inv (Q2R inv) eq_refl).
Qed.

Theorem obj_project_transfer (o : obj Q) (keep : list bool) :
  objQ2R (@obj_project Q NumQ o keep) = @obj_project R NumR (objQ2R o) keep.
Proof.
  symmetry. apply obj_R_inv.
  exact (obj_project_R Q R QR NumQ NumR NumQR o (objQ2R o) (obj_R_map o) keep keep (list_bool_R_refl keep)).
Qed.

(* ------------------------------------------------------------------------------------------ *)
(* Model/Section.v *)
Parametricity Recursive obj_section.

Theorem obj_section_transfer (o : obj Q) (sels : list nat) :
  objQ2R (@obj_section Q NumQ o sels) = @obj_section R NumR (objQ2R o) sels.
Proof.
  symmetry. apply obj_R_inv.
  exact (obj_section_R Q R QR NumQ NumR NumQR o (objQ2R o) (obj_R_map o) sels sels (list_nat_R_refl sels)).
Qed.

(* ------------------------------------------------------------------------------------------ *)
(* Model/Tol.v: continuity returns res (option Z): no image map is needed on the result *)
Parametricity Recursive basis_continuity.

Theorem basis_continuity_transfer (tol : Q) (b : basis Q) (x : Q) :
  @basis_continuity Q NumQ tol b x = @basis_continuity R NumR (Q2R tol) (basisQ2R b) (Q2R x).
Proof.
  symmetry. apply res_option_Z_R_inv.
  exact (basis_continuity_R Q R QR NumQ NumR NumQR tol (Q2R tol) eq_refl b (basisQ2R b) (basis_R_map b) x (Q2R x) eq_refl).
Qed.

(* ------------------------------------------------------------------------------------------ *)
(* Model/Split.v *)
Parametricity Recursive obj_split.

Theorem obj_split_transfer (fuel : nat) (tol : Q) (o : obj Q) d (ks : list Q) :
  resmap (map objQ2R) (@obj_split Q NumQ fuel tol o d ks)
  = @obj_split R NumR fuel (Q2R tol) (objQ2R o) d (map Q2R ks).
Proof.
  symmetry. apply res_list_obj_R_inv.
  exact (obj_split_R Q R QR NumQ NumR NumQR fuel fuel (nat_R_refl fuel) tol (Q2R tol) eq_refl
           o (objQ2R o) (obj_R_map o) d d (nat_R_refl d) ks (map Q2R ks) (list_R_map ks)).
Qed.

(* ------------------------------------------------------------------------------------------ *)
(* Model/Periodic.v *)
Parametricity Recursive obj_make_periodic.
Parametricity Recursive obj_lower_periodic.

Theorem obj_make_periodic_transfer (o : obj Q) (cont : Z) d :
  resmap objQ2R (@obj_make_periodic Q NumQ o cont d) = @obj_make_periodic R NumR (objQ2R o) cont d.
Proof.
  symmetry. apply res_obj_R_inv.
  exact (obj_make_periodic_R Q R QR NumQ NumR NumQR o (objQ2R o) (obj_R_map o) cont cont (Z_R_refl cont) d d (nat_R_refl d)).
Qed.

Theorem obj_lower_periodic_transfer (fuel : nat) (o : obj Q) per1_target d :
  resmap objQ2R (@obj_lower_periodic Q NumQ fuel o per1_target d)
  = @obj_lower_periodic R NumR fuel (objQ2R o) per1_target d.
Proof.
  symmetry. apply res_obj_R_inv.
  exact (obj_lower_periodic_R Q R QR NumQ NumR NumQR fuel fuel (nat_R_refl fuel) o (objQ2R o) (obj_R_map o)
           per1_target per1_target (nat_R_refl per1_target) d d (nat_R_refl d)).
Qed.

