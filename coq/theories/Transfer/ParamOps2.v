(* Transfer Q -> R ("executed is proved"), part 2: linear solves, interpolation / least squares, order
   raising / lowering, make_splines_compatible / identical, append, the calling forms of evaluate,
   STL and SPL.  Same pattern as ParamOps.v. *)
From Coq Require Import List ZArith QArith Reals Bool.
From SplipyModel Require Import Spec.BSpline Model.Num Model.BasisDef Model.BasisEval Model.Tensor Model.Obj Model.KnotInsert
  Model.Reparam Model.Affine Model.Section Model.Tol Model.Split Model.Periodic
  Model.Solve Model.Interp Model.Order Model.Identical Model.Append Model.EvalForms Model.WF Model.G2 Model.Stl Model.Spl
  Transfer.ParamBase Transfer.ParamBasis Transfer.ParamObj Transfer.ParamInsert Transfer.ParamOps.
From Param Require Import Param.
Import ListNotations.

(* see ParamOps.v: closes the unfolding obligations of fixpoints that match on two arguments *)
#[local] Parametricity Tactic := (param_dr).

(* ------------------------------------------------------------------------------------------ *)
(* Model/Solve.v, Model/Interp.v *)
Parametricity Recursive solve.
Parametricity Recursive inverse.
Parametricity Recursive curve_interpolate.
Parametricity Recursive curve_lsq.
Parametricity Recursive cubic_curve.
Parametricity Recursive surface_interpolate.

Theorem solve_transfer (A B : list (list Q)) :
  resmap (map (map Q2R)) (@solve Q NumQ A B) = @solve R NumR (map (map Q2R) A) (map (map Q2R) B).
Proof.
  symmetry. apply res_list_list_R_inv.
  exact (solve_R Q R QR NumQ NumR NumQR A _ (list_list_R_map A) B _ (list_list_R_map B)).
Qed.

Theorem inverse_transfer (A : list (list Q)) :
  resmap (map (map Q2R)) (@inverse Q NumQ A) = @inverse R NumR (map (map Q2R) A).
Proof.
  symmetry. apply res_list_list_R_inv.
  exact (inverse_R Q R QR NumQ NumR NumQR A _ (list_list_R_map A)).
Qed.

Theorem curve_interpolate_transfer (tol : Q) (b : basis Q) (ts : list Q) (x : list (list Q)) :
  resmap objQ2R (@curve_interpolate Q NumQ tol b ts x)
  = @curve_interpolate R NumR (Q2R tol) (basisQ2R b) (map Q2R ts) (map (map Q2R) x).
Proof.
  symmetry. apply res_obj_R_inv.
  exact (curve_interpolate_R Q R QR NumQ NumR NumQR tol (Q2R tol) eq_refl b (basisQ2R b) (basis_R_map b)
           ts (map Q2R ts) (list_R_map ts) x _ (list_list_R_map x)).
Qed.

Theorem curve_lsq_transfer (tol : Q) (b : basis Q) (ts : list Q) (x : list (list Q)) :
  resmap objQ2R (@curve_lsq Q NumQ tol b ts x)
  = @curve_lsq R NumR (Q2R tol) (basisQ2R b) (map Q2R ts) (map (map Q2R) x).
Proof.
  symmetry. apply res_obj_R_inv.
  exact (curve_lsq_R Q R QR NumQ NumR NumQR tol (Q2R tol) eq_refl b (basisQ2R b) (basis_R_map b)
           ts (map Q2R ts) (list_R_map ts) x _ (list_list_R_map x)).
Qed.

Theorem cubic_curve_transfer (tol : Q) (bt : nat) (t : list Q) (x tang : list (list Q)) :
  resmap objQ2R (@cubic_curve Q NumQ tol bt t x tang)
  = @cubic_curve R NumR (Q2R tol) bt (map Q2R t) (map (map Q2R) x) (map (map Q2R) tang).
Proof.
  symmetry. apply res_obj_R_inv.
  exact (cubic_curve_R Q R QR NumQ NumR NumQR tol (Q2R tol) eq_refl bt bt (nat_R_refl bt)
           t (map Q2R t) (list_R_map t) x _ (list_list_R_map x) tang _ (list_list_R_map tang)).
Qed.

Theorem surface_interpolate_transfer (tol : Q) (bu bv : basis Q) (us vs : list Q) (x : list (list Q)) :
  resmap objQ2R (@surface_interpolate Q NumQ tol bu bv us vs x)
  = @surface_interpolate R NumR (Q2R tol) (basisQ2R bu) (basisQ2R bv) (map Q2R us) (map Q2R vs) (map (map Q2R) x).
Proof.
  symmetry. apply res_obj_R_inv.
  exact (surface_interpolate_R Q R QR NumQ NumR NumQR tol (Q2R tol) eq_refl bu (basisQ2R bu) (basis_R_map bu)
           bv (basisQ2R bv) (basis_R_map bv) us (map Q2R us) (list_R_map us) vs (map Q2R vs) (list_R_map vs)
           x _ (list_list_R_map x)).
Qed.

(* ------------------------------------------------------------------------------------------ *)
(* Model/Order.v *)
Parametricity Recursive basis_raise_order.
Parametricity Recursive basis_lower_order.
Parametricity Recursive obj_raise_order.
Parametricity Recursive obj_lower_order.

Theorem basis_raise_order_transfer (tol : Q) (b : basis Q) (amount : nat) :
  basisQ2R (@basis_raise_order Q NumQ tol b amount) = @basis_raise_order R NumR (Q2R tol) (basisQ2R b) amount.
Proof.
  symmetry. apply basis_R_inv.
  exact (basis_raise_order_R Q R QR NumQ NumR NumQR tol (Q2R tol) eq_refl b (basisQ2R b) (basis_R_map b)
           amount amount (nat_R_refl amount)).
Qed.

Theorem basis_lower_order_transfer (tol : Q) (b : basis Q) (amount : nat) :
  resmap basisQ2R (@basis_lower_order Q NumQ tol b amount) = @basis_lower_order R NumR (Q2R tol) (basisQ2R b) amount.
Proof.
  symmetry. apply res_basis_R_inv.
  exact (basis_lower_order_R Q R QR NumQ NumR NumQR tol (Q2R tol) eq_refl b (basisQ2R b) (basis_R_map b)
           amount amount (nat_R_refl amount)).
Qed.

Theorem obj_raise_order_transfer (tol : Q) (o : obj Q) (raises : list nat) :
  resmap objQ2R (@obj_raise_order Q NumQ tol o raises) = @obj_raise_order R NumR (Q2R tol) (objQ2R o) raises.
Proof.
  symmetry. apply res_obj_R_inv.
  exact (obj_raise_order_R Q R QR NumQ NumR NumQR tol (Q2R tol) eq_refl o (objQ2R o) (obj_R_map o)
           raises raises (list_nat_R_refl raises)).
Qed.

Theorem obj_lower_order_transfer (tol : Q) (o : obj Q) (lowers : list nat) :
  resmap objQ2R (@obj_lower_order Q NumQ tol o lowers) = @obj_lower_order R NumR (Q2R tol) (objQ2R o) lowers.
Proof.
  symmetry. apply res_obj_R_inv.
  exact (obj_lower_order_R Q R QR NumQ NumR NumQR tol (Q2R tol) eq_refl o (objQ2R o) (obj_R_map o)
           lowers lowers (list_nat_R_refl lowers)).
Qed.

(* ------------------------------------------------------------------------------------------ *)
(* Model/Identical.v *)
Parametricity Recursive obj_compatible.
Parametricity Recursive obj_make_identical.

Theorem obj_compatible_transfer (o1 o2 : obj Q) :
  pairmap objQ2R objQ2R (@obj_compatible Q NumQ o1 o2) = @obj_compatible R NumR (objQ2R o1) (objQ2R o2).
Proof.
  symmetry. apply pair_obj_R_inv.
  exact (obj_compatible_R Q R QR NumQ NumR NumQR o1 (objQ2R o1) (obj_R_map o1) o2 (objQ2R o2) (obj_R_map o2)).
Qed.

Theorem obj_make_identical_transfer (tol : Q) (o1 o2 : obj Q) (direction : option nat) :
  resmap (pairmap objQ2R objQ2R) (@obj_make_identical Q NumQ tol o1 o2 direction)
  = @obj_make_identical R NumR (Q2R tol) (objQ2R o1) (objQ2R o2) direction.
Proof.
  symmetry. apply res_pair_obj_R_inv.
  exact (obj_make_identical_R Q R QR NumQ NumR NumQR tol (Q2R tol) eq_refl o1 (objQ2R o1) (obj_R_map o1)
           o2 (objQ2R o2) (obj_R_map o2) direction direction (option_nat_R_refl direction)).
Qed.

(* ------------------------------------------------------------------------------------------ *)
(* Model/Append.v *)
Parametricity Recursive obj_append.

Theorem obj_append_transfer (tol : Q) (o1 o2 : obj Q) :
  resmap objQ2R (@obj_append Q NumQ tol o1 o2) = @obj_append R NumR (Q2R tol) (objQ2R o1) (objQ2R o2).
Proof.
  symmetry. apply res_obj_R_inv.
  exact (obj_append_R Q R QR NumQ NumR NumQR tol (Q2R tol) eq_refl o1 (objQ2R o1) (obj_R_map o1)
           o2 (objQ2R o2) (obj_R_map o2)).
Qed.

(* ------------------------------------------------------------------------------------------ *)
(* Model/EvalForms.v *)
Parametricity Recursive obj_eval_tuples.
Parametricity Recursive obj_eval_grid.
Parametricity Recursive obj_eval_pointwise.
Parametricity Recursive obj_eval_scalars.

Theorem obj_eval_tuples_transfer (tol : Q) (o : obj Q) (tuples : list (list Q)) :
  resmap (map (map Q2R)) (@obj_eval_tuples Q NumQ tol o tuples)
  = @obj_eval_tuples R NumR (Q2R tol) (objQ2R o) (map (map Q2R) tuples).
Proof.
  symmetry. apply res_list_list_R_inv.
  exact (obj_eval_tuples_R Q R QR NumQ NumR NumQR tol (Q2R tol) eq_refl o (objQ2R o) (obj_R_map o)
           tuples _ (list_list_R_map tuples)).
Qed.

Theorem obj_eval_grid_transfer (tol : Q) (o : obj Q) (lists : list (list Q)) :
  resmap (map (map Q2R)) (@obj_eval_grid Q NumQ tol o lists)
  = @obj_eval_grid R NumR (Q2R tol) (objQ2R o) (map (map Q2R) lists).
Proof.
  symmetry. apply res_list_list_R_inv.
  exact (obj_eval_grid_R Q R QR NumQ NumR NumQR tol (Q2R tol) eq_refl o (objQ2R o) (obj_R_map o)
           lists _ (list_list_R_map lists)).
Qed.

Theorem obj_eval_pointwise_transfer (tol : Q) (o : obj Q) (lists : list (list Q)) :
  resmap (map (map Q2R)) (@obj_eval_pointwise Q NumQ tol o lists)
  = @obj_eval_pointwise R NumR (Q2R tol) (objQ2R o) (map (map Q2R) lists).
Proof.
  symmetry. apply res_list_list_R_inv.
  exact (obj_eval_pointwise_R Q R QR NumQ NumR NumQR tol (Q2R tol) eq_refl o (objQ2R o) (obj_R_map o)
           lists _ (list_list_R_map lists)).
Qed.

Theorem obj_eval_scalars_transfer (tol : Q) (o : obj Q) (ts : list Q) :
  resmap (map Q2R) (@obj_eval_scalars Q NumQ tol o ts)
  = @obj_eval_scalars R NumR (Q2R tol) (objQ2R o) (map Q2R ts).
Proof.
  symmetry. apply res_list_R_inv.
  exact (obj_eval_scalars_R Q R QR NumQ NumR NumQR tol (Q2R tol) eq_refl o (objQ2R o) (obj_R_map o)
           ts _ (list_R_map ts)).
Qed.

(* ------------------------------------------------------------------------------------------ *)
(* Model/Stl.v: a facet is a triple of points *)
Parametricity Recursive stl_params.
Parametricity Recursive stl_write_surface.

Definition triQ2R (t : @stl_tri Q) : @stl_tri R := pairmap (pairmap (map Q2R) (map Q2R)) (map Q2R) t.
Lemma triQ2R_eq a b c : triQ2R (a, b, c) = (map Q2R a, map Q2R b, map Q2R c).
Proof. reflexivity. Qed.
Lemma stl_tri_R_inv (t : @stl_tri Q) (t' : @stl_tri R) : stl_tri_R Q R QR t t' -> t' = triQ2R t.
Proof.
  unfold stl_tri_R, stl_point_R, triQ2R. apply gen_prod_R_inv; [|exact list_R_map_inv].
  apply gen_prod_R_inv; exact list_R_map_inv.
Qed.
Lemma res_list_tri_R_inv (r : res (list (@stl_tri Q))) (r' : res (list (@stl_tri R))) :
  res_R _ _ (list_R _ _ (stl_tri_R Q R QR)) r r' -> r' = resmap (map triQ2R) r.
Proof. apply gen_res_R_inv. apply gen_list_R_inv. exact stl_tri_R_inv. Qed.
Lemma option_natpair_R_refl (n : option (nat * nat)) :
  option_R (nat * nat) (nat * nat) (prod_R nat nat nat_R nat nat nat_R) n n.
Proof. destruct n as [[a b]|]; constructor. constructor; apply nat_R_refl. Qed.

Theorem stl_params_transfer (p : nat) (kn : list Q) (a b : Q) (n : option nat) :
  resmap (map Q2R) (@stl_params Q NumQ p kn a b n) = @stl_params R NumR p (map Q2R kn) (Q2R a) (Q2R b) n.
Proof.
  symmetry. apply res_list_R_inv.
  exact (stl_params_R Q R QR NumQ NumR NumQR p p (nat_R_refl p) kn (map Q2R kn) (list_R_map kn)
           a (Q2R a) eq_refl b (Q2R b) eq_refl n n (option_nat_R_refl n)).
Qed.

Theorem stl_write_surface_transfer (tol : Q) (o : obj Q) (n : option (nat * nat)) :
  resmap (map triQ2R) (@stl_write_surface Q NumQ tol o n) = @stl_write_surface R NumR (Q2R tol) (objQ2R o) n.
Proof.
  symmetry. apply res_list_tri_R_inv.
  exact (stl_write_surface_R Q R QR NumQ NumR NumQR tol (Q2R tol) eq_refl o (objQ2R o) (obj_R_map o)
           n n (option_natpair_R_refl n)).
Qed.

(* ------------------------------------------------------------------------------------------ *)
(* Model/Spl.v *)
Parametricity Recursive spl_lines.
Parametricity Recursive spl_encode.
Parametricity Recursive spl_decode.

Lemma option_list_list_R_inv (o : option (list (list Q))) (o' : option (list (list R))) :
  option_R _ _ (list_R _ _ (list_R Q R QR)) o o' -> o' = option_map (map (map Q2R)) o.
Proof. apply gen_option_R_inv. exact list_list_R_map_inv. Qed.

Theorem spl_lines_transfer (acc : Q) (o : obj Q) :
  map (map Q2R) (@spl_lines Q NumQ acc o) = @spl_lines R NumR (Q2R acc) (objQ2R o).
Proof.
  symmetry. apply list_list_R_map_inv.
  exact (spl_lines_R Q R QR NumQ NumR NumQR acc (Q2R acc) eq_refl o (objQ2R o) (obj_R_map o)).
Qed.

Theorem spl_encode_transfer (acc : Q) (o : obj Q) :
  option_map (map (map Q2R)) (@spl_encode Q NumQ acc o) = @spl_encode R NumR (Q2R acc) (objQ2R o).
Proof.
  symmetry. apply option_list_list_R_inv.
  exact (spl_encode_R Q R QR NumQ NumR NumQR acc (Q2R acc) eq_refl o (objQ2R o) (obj_R_map o)).
Qed.

Theorem spl_decode_transfer (tol : Q) (lines : list (list Q)) :
  option_map objQ2R (@spl_decode Q NumQ tol lines) = @spl_decode R NumR (Q2R tol) (map (map Q2R) lines).
Proof.
  symmetry. apply option_obj_R_inv.
  exact (spl_decode_R Q R QR NumQ NumR NumQR tol (Q2R tol) eq_refl lines _ (list_list_R_map lines)).
Qed.

