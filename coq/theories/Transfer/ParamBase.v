(* Parametricity tie between the executed instance (Q) and the proved instance (R):
   NumQ and NumR are related by  fun q r => Q2R q = r. *)
From Coq Require Import List ZArith QArith Qround Reals Lra Lia Bool Qreals.
From SplipyModel Require Import Spec.BSpline Model.Num.
From Param Require Import Param.
Import ListNotations.

Parametricity Recursive Num.
Parametricity Recursive bool.
Parametricity Recursive nat.
Parametricity Recursive list.
Parametricity Recursive option.
Parametricity Recursive prod.

Definition QR (q : Q) (r : R) : Type := Q2R q = r.

Lemma bool_R_eq a b : a = b -> bool_R a b.
Proof. intros ->; destruct b; constructor. Qed.
Lemma bool_R_inv a b : bool_R a b -> a = b.
Proof. destruct 1; reflexivity. Qed.
Lemma positive_R_eq a b : positive_R a b -> a = b.
Proof. induction 1; congruence. Qed.
Lemma positive_R_refl a : positive_R a a.
Proof. induction a; constructor; auto. Qed.
Lemma Z_R_eq a b : Z_R a b -> a = b.
Proof. destruct 1; try reflexivity; f_equal; now apply positive_R_eq. Qed.
Lemma Z_R_refl a : Z_R a a.
Proof. destruct a; constructor; apply positive_R_refl. Qed.
Lemma nat_R_refl n : nat_R n n.
Proof. induction n; constructor; auto. Qed.
Lemma nat_R_eq a b : nat_R a b -> a = b.
Proof. induction 1; congruence. Qed.

Lemma Q2R_div' a b : Q2R (a / b) = (Q2R a / Q2R b)%R.
Proof.
  destruct (Qeq_dec b 0) as [E|E].
  - assert (Eb : Q2R b = 0%R) by (rewrite (Qeq_eqR _ _ E); apply RMicromega.Q2R_0).
    rewrite Eb. unfold Rdiv. rewrite Rinv_0, Rmult_0_r.
    assert (Hq : (a / b == 0)%Q) by (rewrite E; unfold Qdiv, Qinv; simpl; ring).
    rewrite (Qeq_eqR _ _ Hq). apply RMicromega.Q2R_0.
  - apply Q2R_div; exact E.
Qed.

Lemma Q2R_inject_Z z : Q2R (inject_Z z) = IZR z.
Proof. unfold inject_Z, Q2R. simpl. field. Qed.

Lemma Qfloor_up q : Qfloor q = (up (Q2R q) - 1)%Z.
Proof.
  assert (H : (Qfloor q + 1)%Z = up (Q2R q)).
  { apply tech_up.
    - pose proof (Qlt_floor q) as L. apply Qlt_Rlt in L. rewrite Q2R_inject_Z in L. exact L.
    - pose proof (Qfloor_le q) as L. apply Qle_Rle in L. rewrite Q2R_inject_Z in L.
      rewrite plus_IZR. simpl. lra. }
  rewrite <- H. ring.
Qed.

Lemma qnorm_Qeq q : (qnorm q == q)%Q.
Proof.
  unfold qnorm. cbv zeta.
  set (g := Z.abs _).
  destruct ((1 <? g)%Z && (Qnum q mod g =? 0)%Z && (Z.pos (Qden q) mod g =? 0)%Z) eqn:E; [|reflexivity].
  apply andb_true_iff in E. destruct E as [E E3]. apply andb_true_iff in E. destruct E as [E1 E2].
  apply Z.ltb_lt in E1. apply Z.eqb_eq in E2. apply Z.eqb_eq in E3.
  assert (Hg : (g <> 0)%Z) by lia.
  pose proof (Z.div_exact (Qnum q) g Hg) as [_ Hn]. specialize (Hn E2).
  pose proof (Z.div_exact (Z.pos (Qden q)) g Hg) as [_ Hd]. specialize (Hd E3).
  assert (Hdp : (0 < Z.pos (Qden q) / g)%Z).
  { apply Z.div_str_pos. split; [lia|]. apply Z.divide_pos_le; [lia|]. apply Z.mod_divide; assumption. }
  unfold Qeq. cbn [Qnum Qden]. rewrite Z2Pos.id by exact Hdp.
  rewrite Hd at 1. rewrite Hn at 2. ring.
Qed.

Lemma qguard_Qeq q : (qguard q == q)%Q.
Proof. unfold qguard. destruct (_ <? _)%Z; [reflexivity | apply qnorm_Qeq]. Qed.

Lemma Q2R_qguard q : Q2R (qguard q) = Q2R q.
Proof. apply Qeq_eqR. apply qguard_Qeq. Qed.

Lemma NumQR : Num_R Q R QR NumQ NumR.
Proof.
  unfold NumQ, NumR. constructor; unfold QR.
  - apply RMicromega.Q2R_0.
  - apply RMicromega.Q2R_1.
  - intros a a' <- b b' <-. rewrite Q2R_qguard. apply Q2R_plus.
  - intros a a' <- b b' <-. rewrite Q2R_qguard. apply Q2R_minus.
  - intros a a' <- b b' <-. rewrite Q2R_qguard. apply Q2R_mult.
  - intros a a' <- b b' <-. rewrite Q2R_qguard. apply Q2R_div'.
  - intros a a' <- b b' <-. apply bool_R_eq. unfold Rltb.
    destruct (Rlt_dec (Q2R a) (Q2R b)) as [L|L].
    + apply Rlt_Qlt in L. destruct (Qle_bool b a) eqn:E; [|reflexivity].
      apply Qle_bool_iff in E. exfalso. apply (Qlt_not_le _ _ L E).
    + destruct (Qle_bool b a) eqn:E; [reflexivity|]. exfalso. apply L. apply Qlt_Rlt.
      apply Qnot_le_lt. intro C. apply Qle_bool_iff in C. congruence.
  - intros a a' <- b b' <-. apply bool_R_eq. unfold Rleb.
    destruct (Rle_dec (Q2R a) (Q2R b)) as [L|L].
    + apply Rle_Qle in L. apply Qle_bool_iff in L. exact L.
    + destruct (Qle_bool a b) eqn:E; [|reflexivity]. exfalso. apply L. apply Qle_Rle. now apply Qle_bool_iff.
  - intros a a' <- b b' <-. apply bool_R_eq. unfold Reqb.
    destruct (Req_EM_T (Q2R a) (Q2R b)) as [L|L].
    + apply eqR_Qeq in L. now apply Qeq_bool_iff.
    + destruct (Qeq_bool a b) eqn:E; [|reflexivity]. exfalso. apply L. apply Qeq_eqR. now apply Qeq_bool_iff.
  - intros z z' X. apply Z_R_eq in X. subst. apply Q2R_inject_Z.
  - intros a a' <-. unfold Rfloor. rewrite Qfloor_up. apply Z_R_refl.
  - intros a a' <-. apply Qeq_eqR. apply qnorm_Qeq.
Qed.

Lemma list_R_map (l : list Q) : list_R Q R QR l (map Q2R l).
Proof. induction l; constructor; auto. reflexivity. Qed.
Lemma list_R_map_inv (l : list Q) (l' : list R) : list_R Q R QR l l' -> l' = map Q2R l.
Proof. induction 1 as [|a a' Ha l l' Hl IH]; cbn; [reflexivity|]. unfold QR in Ha. congruence. Qed.
Lemma list_list_R_map (l : list (list Q)) : list_R (list Q) (list R) (list_R Q R QR) l (map (map Q2R) l).
Proof. induction l; constructor; auto. apply list_R_map. Qed.
Lemma list_list_R_map_inv l l' : list_R (list Q) (list R) (list_R Q R QR) l l' -> l' = map (map Q2R) l.
Proof. induction 1 as [|a a' Ha l l' Hl IH]; cbn; [reflexivity|]. apply list_R_map_inv in Ha. congruence. Qed.

(* Paramcoq (this release) cannot discharge the unfolding obligations of fixpoints
   that match on two arguments; their relational interpretations are given by
   hand through equality (nat_R n m <-> n = m). *)
Ltac nat_real := intros; repeat match goal with H : nat_R _ _ |- _ => apply nat_R_eq in H; subst end;
  first [apply nat_R_refl | apply bool_R_eq; reflexivity].
Definition sub_R : forall n n', nat_R n n' -> forall m m', nat_R m m' -> nat_R (n - m) (n' - m').
Proof. nat_real. Defined.
Realizer Nat.sub as Nat_sub_R := sub_R.
Definition eqb_R : forall n n', nat_R n n' -> forall m m', nat_R m m' -> bool_R (n =? m)%nat (n' =? m')%nat.
Proof. nat_real. Defined.
Realizer Nat.eqb as Nat_eqb_R := eqb_R.
Definition leb_R : forall n n', nat_R n n' -> forall m m', nat_R m m' -> bool_R (n <=? m)%nat (n' <=? m')%nat.
Proof. nat_real. Defined.
Realizer Nat.leb as Nat_leb_R := leb_R.
Parametricity Recursive Nat.ltb.
Parametricity Recursive Nat.modulo.
Parametricity Recursive Nat.div.
Definition min_R : forall n n', nat_R n n' -> forall m m', nat_R m m' -> nat_R (Nat.min n m) (Nat.min n' m').
Proof. nat_real. Defined.
Realizer Nat.min as Nat_min_R := min_R.
Definition max_R : forall n n', nat_R n n' -> forall m m', nat_R m m' -> nat_R (Nat.max n m) (Nat.max n' m').
Proof. nat_real. Defined.
Realizer Nat.max as Nat_max_R := max_R.
Definition Zofnat_R : forall n n', nat_R n n' -> Z_R (Z.of_nat n) (Z.of_nat n').
Proof. intros n n' H. apply nat_R_eq in H. subst. apply Z_R_refl. Defined.
Realizer Z.of_nat as Z_of_nat_R := Zofnat_R.
