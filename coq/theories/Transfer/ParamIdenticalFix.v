(* Transfer Q -> R ("executed is proved") for Model/IdenticalFix.v: SplineObject.make_splines_identical as repaired
   (the seam of a periodic direction is visited once).  Same pattern as ParamOps2.v (obj_make_identical_transfer). *)
From Coq Require Import List ZArith QArith Reals Bool.
From SplipyModel Require Import Spec.BSpline Model.Num Model.BasisDef Model.BasisEval Model.Tensor Model.Obj Model.KnotInsert
  Model.Reparam Model.Affine Model.Section Model.Tol Model.Split Model.Periodic
  Model.Solve Model.Interp Model.Order Model.Identical Model.IdenticalFix
  Transfer.ParamBase Transfer.ParamBasis Transfer.ParamObj Transfer.ParamInsert Transfer.ParamOps Transfer.ParamOps2.
From Param Require Import Param.
Import ListNotations.

#[local] Parametricity Tactic := (param_dr).

Parametricity Recursive obj_make_identical2.

Theorem obj_make_identical2_transfer (tol : Q) (o1 o2 : obj Q) (direction : option nat) :
  resmap (pairmap objQ2R objQ2R) (@obj_make_identical2 Q NumQ tol o1 o2 direction)
  = @obj_make_identical2 R NumR (Q2R tol) (objQ2R o1) (objQ2R o2) direction.
Proof.
  symmetry. apply res_pair_obj_R_inv.
  exact (obj_make_identical2_R Q R QR NumQ NumR NumQR tol (Q2R tol) eq_refl o1 (objQ2R o1) (obj_R_map o1)
           o2 (objQ2R o2) (obj_R_map o2) direction direction (option_nat_R_refl direction)).
Qed.

(* one direction *)
Theorem identical_dir2_transfer (tol : Q) (o1 o2 : obj Q) (i : nat) :
  resmap (pairmap objQ2R objQ2R) (@identical_dir2 Q NumQ tol o1 o2 i)
  = @identical_dir2 R NumR (Q2R tol) (objQ2R o1) (objQ2R o2) i.
Proof.
  symmetry. apply res_pair_obj_R_inv.
  exact (identical_dir2_R Q R QR NumQ NumR NumQR tol (Q2R tol) eq_refl o1 (objQ2R o1) (obj_R_map o1)
           o2 (objQ2R o2) (obj_R_map o2) i i (nat_R_refl i)).
Qed.

Print Assumptions obj_make_identical2_transfer.
Print Assumptions identical_dir2_transfer.
