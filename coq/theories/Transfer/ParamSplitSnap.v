(* Transfer Q -> R ("executed is proved") for the repaired SplineObject.split (Model/SplitSnap.v):
   the splitting values are first snapped to the knots of the direction, then the old routine runs.
   Same pattern as Transfer/ParamOps.v (obj_split_transfer). *)
From Coq Require Import List ZArith QArith Reals Bool.
From SplipyModel Require Import Spec.BSpline Model.Num Model.BasisDef Model.BasisEval Model.Tensor Model.Obj Model.KnotInsert
  Model.Tol Model.Split Model.SplitSnap
  Transfer.ParamBase Transfer.ParamBasis Transfer.ParamObj Transfer.ParamInsert Transfer.ParamOps.
From Param Require Import Param.
Import ListNotations.

Parametricity Recursive snap_split_values.
Parametricity Recursive obj_split_snapped.

(* the snapped list of splitting values itself *)
Theorem snap_split_values_transfer (tol : Q) (o : obj Q) d (ks : list Q) :
  map Q2R (@snap_split_values Q NumQ tol o d ks) = @snap_split_values R NumR (Q2R tol) (objQ2R o) d (map Q2R ks).
Proof.
  symmetry. apply (gen_list_R_inv QR Q2R QR_inv).
  exact (snap_split_values_R Q R QR NumQ NumR NumQR tol (Q2R tol) eq_refl
           o (objQ2R o) (obj_R_map o) d d (nat_R_refl d) ks (map Q2R ks) (list_R_map ks)).
Qed.

Theorem obj_split_snapped_transfer (fuel : nat) (tol : Q) (o : obj Q) d (ks : list Q) :
  resmap (map objQ2R) (@obj_split_snapped Q NumQ fuel tol o d ks)
  = @obj_split_snapped R NumR fuel (Q2R tol) (objQ2R o) d (map Q2R ks).
Proof.
  symmetry. apply res_list_obj_R_inv.
  exact (obj_split_snapped_R Q R QR NumQ NumR NumQR fuel fuel (nat_R_refl fuel) tol (Q2R tol) eq_refl
           o (objQ2R o) (obj_R_map o) d d (nat_R_refl d) ks (map Q2R ks) (list_R_map ks)).
Qed.

Print Assumptions snap_split_values_transfer.
Print Assumptions obj_split_snapped_transfer.
