(* Transfer Q -> R ("executed is proved") for Model/Loft.v and Model/InterpMore.v.  Same pattern as ParamOps2.v. *)
From Coq Require Import List ZArith QArith Reals Bool.
From SplipyModel Require Import Spec.BSpline Model.Num Model.BasisDef Model.BasisEval Model.Tensor Model.Obj Model.KnotInsert
  Model.Affine Model.Solve Model.Interp Model.Loft Model.InterpMore
  Transfer.ParamBase Transfer.ParamBasis Transfer.ParamObj Transfer.ParamInsert Transfer.ParamOps Transfer.ParamOps2.
From Param Require Import Param.
Import ListNotations.

#[local] Parametricity Tactic := (param_dr).

Parametricity Recursive loft.
Parametricity Recursive vloft.
Parametricity Recursive volume_interpolate.
Parametricity Recursive surface_lsq.
Parametricity Recursive volume_lsq.
Parametricity Recursive cubic_periodic.

Theorem loft_transfer (tol : Q) (curves : list (obj Q)) (dist : list Q) :
  resmap objQ2R (@loft Q NumQ tol curves dist) = @loft R NumR (Q2R tol) (map objQ2R curves) (map Q2R dist).
Proof.
  symmetry. apply res_obj_R_inv.
  exact (loft_R Q R QR NumQ NumR NumQR tol (Q2R tol) eq_refl curves _ (list_obj_R_map curves) dist _ (list_R_map dist)).
Qed.

Theorem vloft_transfer (tol : Q) (surfs : list (obj Q)) (dist : list Q) :
  resmap objQ2R (@vloft Q NumQ tol surfs dist) = @vloft R NumR (Q2R tol) (map objQ2R surfs) (map Q2R dist).
Proof.
  symmetry. apply res_obj_R_inv.
  exact (vloft_R Q R QR NumQ NumR NumQR tol (Q2R tol) eq_refl surfs _ (list_obj_R_map surfs) dist _ (list_R_map dist)).
Qed.

Theorem volume_interpolate_transfer (tol : Q) (bu bv bw : basis Q) (us vs ws : list Q) (x : list (list Q)) :
  resmap objQ2R (@volume_interpolate Q NumQ tol bu bv bw us vs ws x)
  = @volume_interpolate R NumR (Q2R tol) (basisQ2R bu) (basisQ2R bv) (basisQ2R bw) (map Q2R us) (map Q2R vs) (map Q2R ws) (map (map Q2R) x).
Proof.
  symmetry. apply res_obj_R_inv.
  exact (volume_interpolate_R Q R QR NumQ NumR NumQR tol (Q2R tol) eq_refl bu _ (basis_R_map bu) bv _ (basis_R_map bv) bw _ (basis_R_map bw)
           us _ (list_R_map us) vs _ (list_R_map vs) ws _ (list_R_map ws) x _ (list_list_R_map x)).
Qed.

Theorem surface_lsq_transfer (tol : Q) (bu bv : basis Q) (us vs : list Q) (x : list (list Q)) :
  resmap objQ2R (@surface_lsq Q NumQ tol bu bv us vs x)
  = @surface_lsq R NumR (Q2R tol) (basisQ2R bu) (basisQ2R bv) (map Q2R us) (map Q2R vs) (map (map Q2R) x).
Proof.
  symmetry. apply res_obj_R_inv.
  exact (surface_lsq_R Q R QR NumQ NumR NumQR tol (Q2R tol) eq_refl bu _ (basis_R_map bu) bv _ (basis_R_map bv)
           us _ (list_R_map us) vs _ (list_R_map vs) x _ (list_list_R_map x)).
Qed.

Theorem volume_lsq_transfer (tol : Q) (bu bv bw : basis Q) (us vs ws : list Q) (x : list (list Q)) :
  resmap objQ2R (@volume_lsq Q NumQ tol bu bv bw us vs ws x)
  = @volume_lsq R NumR (Q2R tol) (basisQ2R bu) (basisQ2R bv) (basisQ2R bw) (map Q2R us) (map Q2R vs) (map Q2R ws) (map (map Q2R) x).
Proof.
  symmetry. apply res_obj_R_inv.
  exact (volume_lsq_R Q R QR NumQ NumR NumQR tol (Q2R tol) eq_refl bu _ (basis_R_map bu) bv _ (basis_R_map bv) bw _ (basis_R_map bw)
           us _ (list_R_map us) vs _ (list_R_map vs) ws _ (list_R_map ws) x _ (list_list_R_map x)).
Qed.

Theorem cubic_periodic_transfer (tol : Q) (t : list Q) (x : list (list Q)) :
  resmap objQ2R (@cubic_periodic Q NumQ tol t x) = @cubic_periodic R NumR (Q2R tol) (map Q2R t) (map (map Q2R) x).
Proof.
  symmetry. apply res_obj_R_inv.
  exact (cubic_periodic_R Q R QR NumQ NumR NumQR tol (Q2R tol) eq_refl t _ (list_R_map t) x _ (list_list_R_map x)).
Qed.

