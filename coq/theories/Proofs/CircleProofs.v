(* C13 — circles, arcs and their placement: the algebra behind the primitive factories.
   Regenerated inputs: Gen/CircleNets.v (hard-coded nets of curve_factory.circle),
   Gen/CircleSegment.v (control point rule of circle_segment), Gen/RotationMatrix.v. *)
From Coq Require Import List Arith Reals Lra Lia Bool ZArith Psatz.
From SplipyModel Require Import Spec.BSpline Model.Num Model.Affine Model.Factory Proofs.Bridge Proofs.EvalConsequences Proofs.AffineProofs
  Gen.CircleNets Gen.CircleSegment Gen.RotationMatrix.
Import ListNotations.
Open Scope R_scope.

(* ---------- 1. the conic identity ---------- *)
(* homogeneous points P0 P1 P2 = (x, y, w); blending weights b0 b1 b2 with b1^2 = 4 b0 b2
   (quadratic Bernstein weights); dot-product hypotheses of three consecutive control points of an arc
   of radius r whose middle weight is wm: the blended point satisfies X^2 + Y^2 = r^2 W^2 *)
Theorem conic_arc (r wm x0 y0 x1 y1 x2 y2 b0 b1 b2 : R) :
  b1 * b1 = 4 * (b0 * b2) ->
  x0 * x0 + y0 * y0 = r * r -> x1 * x1 + y1 * y1 = r * r -> x2 * x2 + y2 * y2 = r * r ->
  x0 * x1 + y0 * y1 = r * r * wm -> x1 * x2 + y1 * y2 = r * r * wm ->
  x0 * x2 + y0 * y2 = r * r * (2 * (wm * wm) - 1) ->
  let X := b0 * x0 + b1 * x1 + b2 * x2 in
  let Y := b0 * y0 + b1 * y1 + b2 * y2 in
  let W := b0 * 1 + b1 * wm + b2 * 1 in
  X * X + Y * Y = r * r * (W * W).
Proof.
  intros Hb H0 H1 H2 H01 H12 H02 X Y W. unfold X, Y, W.
  transitivity (b0 * b0 * (x0 * x0 + y0 * y0) + b1 * b1 * (x1 * x1 + y1 * y1) + b2 * b2 * (x2 * x2 + y2 * y2)
                + 2 * b0 * b1 * (x0 * x1 + y0 * y1) + 2 * b1 * b2 * (x1 * x2 + y1 * y2)
                + 2 * (b0 * b2) * (x0 * x2 + y0 * y2)); [ring|].
  rewrite H0, H1, H2, H01, H12, H02.
  transitivity (r * r * (b0 * b0 + b2 * b2 + 2 * b0 * b1 * wm + 2 * b1 * b2 * wm + 2 * (b0 * b2) * (2 * (wm * wm) - 1)
                          + b1 * b1)); [ring|].
  apply Rminus_diag_uniq.
  transitivity (r * r * (1 - wm * wm) * (b1 * b1 - 4 * (b0 * b2))); [ring|rewrite Hb; ring].
Qed.

(* ---------- 2. quadratic B-splines on doubled knots are Bernstein weights ---------- *)
Section Bernstein2.
Variable side : bool.
Variable k : nat -> R.
Hypothesis ksorted : sorted k.
Variable m : nat.
Variable t : R.
Hypothesis Hm : (2 <= m)%nat.
Hypothesis Hspan : in_span side (k m) (k (S m)) t.
Hypothesis Hleft : k (m - 1)%nat = k m.
Hypothesis Hright : k (m + 2)%nat = k (S m).

Local Notation a := (k m).
Local Notation b := (k (S m)).
Local Notation u := ((t - a) / (b - a)).

Lemma B2_values :
  B side k 2 (m - 2) t = (1 - u) * (1 - u) /\
  B side k 2 (m - 1) t = 2 * (u * (1 - u)) /\
  B side k 2 m t = u * u.
Proof.
  pose proof (in_span_lt side k m t Hspan) as Hab.
  assert (E0 : forall i, B0 side (k i) (k (S i)) t = if Nat.eqb i m then 1 else 0) by (intro i; apply (B0_span side k ksorted m t Hspan i)).
  destruct m as [|[|m']]; [lia|lia|].
  replace (S (S m') - 2)%nat with m' in * by lia. replace (S (S m') - 1)%nat with (S m') in * by lia.
  cbn [B]. rewrite !E0.
  rewrite <- ?Nat.add_assoc in *. cbn [Nat.add] in *. rewrite ?Nat.add_succ_r, ?Nat.add_0_r in *.
  repeat match goal with |- context [Nat.eqb ?x ?y] => destruct (Nat.eqb_spec x y); try lia end.
  rewrite Hright.
  rewrite (w_lt (k (S m')) (k (S (S (S m')))) t) by lra.
  rewrite (w_lt (k (S (S m'))) (k (S (S (S m')))) t) by lra.
  rewrite Hleft.
  repeat split; field; lra.
Qed.

Lemma B2_bernstein :
  let b0 := B side k 2 (m - 2) t in let b1 := B side k 2 (m - 1) t in let b2 := B side k 2 m t in
  b1 * b1 = 4 * (b0 * b2) /\ b0 + b1 + b2 = 1.
Proof. destruct B2_values as (E0 & E1 & E2). cbv zeta. rewrite E0, E1, E2. split; ring. Qed.
End Bernstein2.

(* ---------- 3. the hard-coded p2C0 circle net (regenerated from curve_factory.circle) ---------- *)
Definition hx (P : list R) := nth 0 P 0.
Definition hy (P : list R) := nth 1 P 0.
Definition hw (P : list R) := nth 2 P 0.

Section P2C0.
Local Notation net := (@circle_net_p2C0 R NumR (sqrt 2)).

Lemma sqrt2_sq : sqrt 2 * sqrt 2 = 2.
Proof. apply sqrt_sqrt; lra. Qed.
Lemma sqrt2_pos : 0 < sqrt 2.
Proof. apply sqrt_lt_R0; lra. Qed.

(* span j (j = 0..3) of the periodic quadratic circle uses control points 2j, 2j+1, 2j+2 (mod 8) *)
Theorem circle_p2C0_span_on_circle j b0 b1 b2 : (j < 4)%nat -> b1 * b1 = 4 * (b0 * b2) ->
  let P0 := nth (2 * j) net [] in let P1 := nth (2 * j + 1) net [] in let P2 := nth ((2 * j + 2) mod 8) net [] in
  let X := b0 * hx P0 + b1 * hx P1 + b2 * hx P2 in
  let Y := b0 * hy P0 + b1 * hy P1 + b2 * hy P2 in
  let W := b0 * hw P0 + b1 * hw P1 + b2 * hw P2 in
  X * X + Y * Y = W * W /\ hw P0 = 1 /\ hw P2 = 1 /\ 0 < hw P1.
Proof.
  intros Hj Hb.
  pose proof sqrt2_sq as S2. pose proof sqrt2_pos as S0.
  assert (Hi : / sqrt 2 * / sqrt 2 = / 2) by (rewrite <- Rinv_mult, S2; reflexivity).
  assert (Hp : 0 < / sqrt 2) by (apply Rinv_0_lt_compat; exact S0).
  assert (Hv : / sqrt 2 * / sqrt 2 + / sqrt 2 * / sqrt 2 = 1) by lra.
  destruct j as [|[|[|[|j]]]]; [| | | |lia];
  cbv zeta; unfold circle_net_p2C0, hx, hy, hw; cbv zeta;
  cbn [nth Nat.mul Nat.add Nat.modulo Nat.divmod fst snd Nat.sub nadd nsub nmul ndiv nofZ n0 NumR];
  (split; [|split; [reflexivity|split; [reflexivity|unfold Rdiv; rewrite Rmult_1_l; exact Hp]]]);
  unfold Rdiv; rewrite !Rmult_1_l; set (v := / sqrt 2) in *.
  - transitivity (1 * 1 * ((b0 * 1 + b1 * v + b2 * 1) * (b0 * 1 + b1 * v + b2 * 1))); [|ring].
    apply (conic_arc 1 v 1 0 v v 0 1 b0 b1 b2 Hb); lra.
  - transitivity (1 * 1 * ((b0 * 1 + b1 * v + b2 * 1) * (b0 * 1 + b1 * v + b2 * 1))); [|ring].
    apply (conic_arc 1 v 0 1 (0 - v) v (0 - 1) 0 b0 b1 b2 Hb); lra.
  - transitivity (1 * 1 * ((b0 * 1 + b1 * v + b2 * 1) * (b0 * 1 + b1 * v + b2 * 1))); [|ring].
    apply (conic_arc 1 v (0 - 1) 0 (0 - v) (0 - v) 0 (0 - 1) b0 b1 b2 Hb); lra.
  - transitivity (1 * 1 * ((b0 * 1 + b1 * v + b2 * 1) * (b0 * 1 + b1 * v + b2 * 1))); [|ring].
    apply (conic_arc 1 v 0 (0 - 1) v (0 - v) 1 0 b0 b1 b2 Hb); lra.
Qed.
End P2C0.

(* ---------- 3b. the p4C1 circle: quartic B-splines on uniformly tripled knots, and the hard-coded net ---------- *)
Section Quartic.
Variable side : bool.
Variable k : nat -> R.
Hypothesis ksorted : sorted k.
Variable m' : nat.
Variable t a h : R.
Local Notation m := (4 + m')%nat.
Hypothesis Hspan : in_span side (k m) (k (S m)) t.
Hypothesis Hh : 0 < h.
Hypothesis K0 : k m' = a - h.
Hypothesis K1 : k (1 + m')%nat = a - h.
Hypothesis K2 : k (2 + m')%nat = a.
Hypothesis K3 : k (3 + m')%nat = a.
Hypothesis K4 : k (4 + m')%nat = a.
Hypothesis K5 : k (5 + m')%nat = a + h.
Hypothesis K6 : k (6 + m')%nat = a + h.
Hypothesis K7 : k (7 + m')%nat = a + h.
Hypothesis K8 : k (8 + m')%nat = a + 2 * h.
Hypothesis K9 : k (9 + m')%nat = a + 2 * h.
Local Notation u := ((t - a) / h).

Lemma B4_values :
  B side k 4 m' t = (1 - u) * (1 - u) * (1 - u) * (1 - u) / 2 /\
  B side k 4 (1 + m') t = (1 - u) * (1 - u) * (1 - u) * (7 * u + 1) / 2 /\
  B side k 4 (2 + m') t = 6 * (u * u) * ((1 - u) * (1 - u)) /\
  B side k 4 (3 + m') t = u * u * u * (8 - 7 * u) / 2 /\
  B side k 4 (4 + m') t = u * u * u * u / 2.
Proof.
  assert (E0 : forall i, B0 side (k i) (k (S i)) t = if Nat.eqb i m then 1 else 0) by (intro i; apply (B0_span side k ksorted m t Hspan i)).
  cbn [B]. rewrite !E0.
  rewrite <- ?Nat.add_assoc in *. cbn [Nat.add] in *. rewrite ?Nat.add_succ_r, ?Nat.add_0_r in *.
  repeat match goal with |- context [Nat.eqb ?x ?y] => destruct (Nat.eqb_spec x y); try lia end.
  rewrite ?K0, ?K1, ?K2, ?K3, ?K4, ?K5, ?K6, ?K7, ?K8, ?K9.
  repeat match goal with |- context [w ?x ?y t] =>
     first [rewrite (w_lt x y t) by lra | rewrite (w_ge x y t) by lra] end.
  repeat split; field; lra.
Qed.
End Quartic.

Section P4C1.
Local Notation net := (@circle_net_p4C1 R NumR (sqrt 2)).
Definition q4 (u : R) : list R :=
  [(1 - u) * (1 - u) * (1 - u) * (1 - u) / 2; (1 - u) * (1 - u) * (1 - u) * (7 * u + 1) / 2;
   6 * (u * u) * ((1 - u) * (1 - u)); u * u * u * (8 - 7 * u) / 2; u * u * u * u / 2].
Definition blend4 (f : list R -> R) (j : nat) (u : R) : R :=
  nth 0 (q4 u) 0 * f (nth ((3 * j + 0) mod 12) net []) + nth 1 (q4 u) 0 * f (nth ((3 * j + 1) mod 12) net [])
  + nth 2 (q4 u) 0 * f (nth ((3 * j + 2) mod 12) net []) + nth 3 (q4 u) 0 * f (nth ((3 * j + 3) mod 12) net [])
  + nth 4 (q4 u) 0 * f (nth ((3 * j + 4) mod 12) net []).
Theorem circle_p4C1_span_on_circle j u : (j < 4)%nat ->
  blend4 hx j u * blend4 hx j u + blend4 hy j u * blend4 hy j u = blend4 hw j u * blend4 hw j u.
Proof.
  intros Hj. pose proof sqrt2_sq as S2.
  assert (S0 : sqrt 2 <> 0) by (intro E; rewrite E in S2; lra).
  destruct j as [|[|[|[|j]]]]; [| | | |lia];
  unfold blend4, q4, circle_net_p4C1, hx, hy, hw; cbv zeta;
  cbn [nth Nat.mul Nat.add Nat.modulo Nat.divmod fst snd Nat.sub];
  cbv [nadd nsub nmul ndiv nofZ n0 NumR];
  set (v := sqrt 2) in *.
  - field [S2]; exact S0.
  - field [S2]; exact S0.
  - field [S2]; exact S0.
  - field [S2]; exact S0.
Qed.
End P4C1.

(* ---------- 4. circle_segment: the regenerated control point rule with libm's cos/sin read as cos/sin ---------- *)
Section Segment.
Variables r dt : R.
Local Notation net n := (@cs_loop R NumR r (cos dt) dt cos sin 0 n 0).

Lemma cs_loop_nth : forall n i0 t0 i, (i < n)%nat ->
  nth i (@cs_loop R NumR r (cos dt) dt cos sin i0 n t0) [] =
  @cs_row R NumR r (cos dt) (cos (t0 + INR i * dt)) (sin (t0 + INR i * dt)) (i0 + i).
Proof.
  induction n as [|n IH]; intros i0 t0 i Hi; [lia|].
  destruct i as [|i]; cbn [cs_loop nth].
  - cbn [INR]. rewrite Rmult_0_l, Rplus_0_r, Nat.add_0_r. reflexivity.
  - rewrite IH by lia. unfold cs_next_t. cbn [nadd NumR].
    replace (t0 + dt + INR i * dt) with (t0 + INR (S i) * dt) by (rewrite S_INR; ring).
    replace (S i0 + i)%nat with (i0 + S i)%nat by lia. reflexivity.
Qed.

Lemma cs_loop_length : forall n i0 t0, length (@cs_loop R NumR r (cos dt) dt cos sin i0 n t0) = n.
Proof. induction n as [|n IH]; intros; cbn [cs_loop length]; [reflexivity|rewrite IH; reflexivity]. Qed.

(* control point i is (r cos(i dt), r sin(i dt), w_i), w_i = 1 (i even) or cos dt (i odd) *)
Theorem cs_control_point n i : (i < n)%nat ->
  nth i (net n) [] = [r * cos (INR i * dt); r * sin (INR i * dt); if Nat.even i then 1 else cos dt].
Proof.
  intros Hi. rewrite cs_loop_nth by exact Hi. rewrite Rplus_0_l, Nat.add_0_l.
  unfold cs_row. cbv zeta. cbn [nadd nsub nmul nofZ NumR].
  f_equal. f_equal. f_equal.
  destruct (Nat.even i) eqn:E.
  - apply Nat.even_spec in E. destruct E as [q ->].
    rewrite Nat.mul_comm, Nat.mod_mul by lia. change (Z.of_nat 0) with 0%Z. ring.
  - assert (O : Nat.odd i = true) by (rewrite <- Nat.negb_even, E; reflexivity).
    apply Nat.odd_spec in O. destruct O as [q ->].
    replace ((2 * q + 1) mod 2)%nat with 1%nat by (rewrite Nat.add_comm, Nat.mul_comm, Nat.mod_add by lia; reflexivity).
    change (Z.of_nat 1) with 1%Z. ring.
Qed.

(* every knot span j blends control points 2j, 2j+1, 2j+2 with quadratic Bernstein weights:
   the blended homogeneous point lies on the circle of radius r *)
Theorem cs_span_on_circle n j b0 b1 b2 : (2 * j + 2 < n)%nat -> b1 * b1 = 4 * (b0 * b2) ->
  let P0 := nth (2 * j) (net n) [] in let P1 := nth (2 * j + 1) (net n) [] in let P2 := nth (2 * j + 2) (net n) [] in
  let X := b0 * hx P0 + b1 * hx P1 + b2 * hx P2 in
  let Y := b0 * hy P0 + b1 * hy P1 + b2 * hy P2 in
  let W := b0 * hw P0 + b1 * hw P1 + b2 * hw P2 in
  X * X + Y * Y = r * r * (W * W).
Proof.
  intros Hn Hb. cbv zeta.
  rewrite !cs_control_point by lia.
  replace (Nat.even (2 * j)) with true by (symmetry; apply Nat.even_spec; exists j; lia).
  replace (Nat.even (2 * j + 2)) with true by (symmetry; apply Nat.even_spec; exists (j + 1)%nat; lia).
  replace (Nat.even (2 * j + 1)) with false
    by (symmetry; rewrite <- Nat.negb_odd; apply negb_false_iff, Nat.odd_spec; exists j; lia).
  unfold hx, hy, hw. cbn [nth].
  set (t0 := INR (2 * j) * dt).
  replace (INR (2 * j + 1) * dt) with (t0 + dt) by (unfold t0; rewrite plus_INR; cbn [INR]; ring).
  replace (INR (2 * j + 2) * dt) with (t0 + 2 * dt) by (unfold t0; rewrite plus_INR; cbn [INR]; ring).
  pose proof (sin2_cos2 t0) as S0. pose proof (sin2_cos2 (t0 + dt)) as S1. pose proof (sin2_cos2 (t0 + 2 * dt)) as S2.
  unfold Rsqr in S0, S1, S2.
  assert (C01 : cos t0 * cos (t0 + dt) + sin t0 * sin (t0 + dt) = cos dt).
  { replace dt with ((t0 + dt) - t0) at 3 by ring. rewrite cos_minus. ring. }
  assert (C12 : cos (t0 + dt) * cos (t0 + 2 * dt) + sin (t0 + dt) * sin (t0 + 2 * dt) = cos dt).
  { replace dt with ((t0 + 2 * dt) - (t0 + dt)) at 5 by ring. rewrite cos_minus. ring. }
  assert (C02 : cos t0 * cos (t0 + 2 * dt) + sin t0 * sin (t0 + 2 * dt) = 2 * (cos dt * cos dt) - 1).
  { transitivity (cos (2 * dt)); [replace (2 * dt) with ((t0 + 2 * dt) - t0) at 3 by ring; rewrite cos_minus; ring|].
    rewrite cos_2a_cos. ring. }
  apply (conic_arc r (cos dt) (r * cos t0) (r * sin t0) (r * cos (t0 + dt)) (r * sin (t0 + dt))
           (r * cos (t0 + 2 * dt)) (r * sin (t0 + 2 * dt)) b0 b1 b2 Hb).
  - transitivity (r * r * (sin t0 * sin t0 + cos t0 * cos t0)); [ring|rewrite S0; ring].
  - transitivity (r * r * (sin (t0 + dt) * sin (t0 + dt) + cos (t0 + dt) * cos (t0 + dt))); [ring|rewrite S1; ring].
  - transitivity (r * r * (sin (t0 + 2 * dt) * sin (t0 + 2 * dt) + cos (t0 + 2 * dt) * cos (t0 + 2 * dt))); [ring|rewrite S2; ring].
  - rewrite <- C01. ring.
  - rewrite <- C12. ring.
  - rewrite <- C02. ring.
Qed.

(* the arc starts at angle 0 and ends at theta = 2 ks dt with ks knot spans (n = cs_n ks control points) *)
Theorem cs_end_points ks : (1 <= ks)%nat ->
  nth 0 (net (cs_n ks)) [] = ([r * cos 0; r * sin 0; 1] : list R) /\
  nth (cs_n ks - 1) (net (cs_n ks)) [] = [r * cos (INR (2 * ks) * dt); r * sin (INR (2 * ks) * dt); 1].
Proof.
  intros Hk. unfold cs_n. split.
  - rewrite cs_control_point by lia. cbn [INR Nat.even]. rewrite Rmult_0_l. reflexivity.
  - rewrite cs_control_point by lia.
    replace ((ks - 1) * 2 + 3 - 1)%nat with (2 * ks)%nat by lia.
    replace (Nat.even (2 * ks)) with true by (symmetry; apply Nat.even_spec; exists ks; lia).
    reflexivity.
Qed.

(* dt = theta / ks / 2, so 2 ks dt = theta *)
Lemma cs_dt_total theta ks : (1 <= ks)%nat -> INR (2 * ks) * @cs_dt R NumR theta ks = theta.
Proof.
  intros Hk. unfold cs_dt. cbn [ndiv nofZ NumR]. rewrite <- INR_IZR_INZ, mult_INR. cbn [INR].
  assert (0 < INR ks) by (apply lt_0_INR; lia). field. lra.
Qed.

(* the weights are positive: |dt| <= pi/3 whenever ks >= |theta| / (2 pi / 3) *)
Lemma cs_weight_pos theta ks : (1 <= ks)%nat -> Rabs theta <= INR ks * (2 * PI / 3) ->
  0 < cos (@cs_dt R NumR theta ks).
Proof.
  intros Hk Hth. unfold cs_dt. cbn [ndiv nofZ NumR]. rewrite <- INR_IZR_INZ.
  assert (Hp : 0 < INR ks) by (apply lt_0_INR; lia).
  pose proof PI_RGT_0 as Hpi.
  apply cos_gt_0.
  - apply Rmult_lt_reg_r with (INR ks * 2); [lra|].
    replace (theta / INR ks / 2 * (INR ks * 2)) with theta by (field; lra).
    pose proof (Rle_abs (- theta)) as A. rewrite Rabs_Ropp in A. nra.
  - apply Rmult_lt_reg_r with (INR ks * 2); [lra|].
    replace (theta / INR ks / 2 * (INR ks * 2)) with theta by (field; lra).
    pose proof (Rle_abs theta) as A. nra.
Qed.
End Segment.

(* ---------- 6. revolve: every section is the rotated profile ---------- *)
Definition wsum (N : list R) (f : nat -> R) : R := sumf (fun i => nth i N 0 * f i) 0 (length N).

Lemma wsum_product (M N : list R) (a b : nat -> R) :
  wsum M (fun i => wsum N (fun j => a i * b j)) = wsum M a * wsum N b.
Proof.
  unfold wsum. rewrite (Rmult_comm (sumf _ 0 (length M))). rewrite <- sumf_scal.
  apply sumf_ext. intros i _.
  rewrite <- sumf_scal.
  rewrite (Rmult_comm (sumf _ 0 (length N))). rewrite <- sumf_scal.
  apply sumf_ext. intros j _. ring.
Qed.
Lemma wsum_plus N f g : wsum N (fun i => f i + g i) = wsum N f + wsum N g.
Proof. unfold wsum. rewrite <- sumf_plus. apply sumf_ext. intros; ring. Qed.
Lemma wsum_opp N f : wsum N (fun i => - f i) = - wsum N f.
Proof. unfold wsum. replace (- sumf (fun i => nth i N 0 * f i) 0 (length N)) with ((-1) * sumf (fun i => nth i N 0 * f i) 0 (length N)) by ring.
  rewrite <- sumf_scal. apply sumf_ext. intros; ring. Qed.
Lemma wsum_ext N f g : (forall i, (i < length N)%nat -> f i = g i) -> wsum N f = wsum N g.
Proof. intros E. unfold wsum. apply sumf_ext. intros i Hi. rewrite E by lia. reflexivity. Qed.

Section Revolve.
Variables prof seg : list (list R).
Variables M N : list R.      (* blending weights over the sweep (seg) and over the profile *)
Local Notation cpt i j := (@revolve_row R NumR (nth i seg []) (nth j prof [])).
Local Notation S c := (wsum M (fun i => wsum N (fun j => nth c (cpt i j) 0))).
Local Notation P c := (wsum N (fun j => nth c (nth j prof []) 0)).
Local Notation C c := (wsum M (fun i => nth c (nth i seg []) 0)).

(* control point (i, j) of the revolved surface is entry i * n + j of the regenerated flat net *)
Lemma revolve_cps_nth i j : (i < length seg)%nat -> (j < length prof)%nat ->
  nth (i * length prof + j) (@revolve_cps R NumR prof seg) [] = cpt i j.
Proof.
  unfold revolve_cps. revert i. induction seg as [|s sg IH]; intros i Hi Hj; [cbn in Hi; lia|].
  cbn [flat_map]. destruct i as [|i].
  - cbn [Nat.mul Nat.add nth]. rewrite app_nth1 by (rewrite map_length; exact Hj).
    rewrite (nth_indep _ [] (@revolve_row R NumR s [])) by (rewrite map_length; exact Hj).
    rewrite map_nth. reflexivity.
  - rewrite app_nth2 by (rewrite map_length; cbn [Nat.mul]; lia).
    rewrite map_length. replace (Datatypes.S i * length prof + j - length prof)%nat with (i * length prof + j)%nat by (cbn [Nat.mul]; lia).
    cbn [length] in Hi. rewrite IH by lia. reflexivity.
Qed.

(* the blended homogeneous point of the surface factorises into profile point and sweep point *)
Theorem revolve_factorises :
  S 0 = P 0 * C 0 - P 1 * C 1 /\ S 1 = P 0 * C 1 + P 1 * C 0 /\ S 2 = P 2 * C 2 /\ S 3 = P 3 * C 2.
  unfold revolve_row. cbv zeta. cbv [nadd nsub nmul n0 NumR]. cbn [nth].
  unfold revolve_row. cbv zeta. cbn [nth nadd nsub nmul NumR].
  repeat split.
  - replace (P 0 * C 0 - P 1 * C 1) with (C 0 * P 0 + - (C 1 * P 1)) by ring.
    rewrite <- !wsum_product. rewrite <- wsum_opp, <- wsum_plus. apply wsum_ext. intros i _.
    rewrite <- wsum_opp, <- wsum_plus. apply wsum_ext. intros j _. ring.
  - replace (P 0 * C 1 + P 1 * C 0) with (C 1 * P 0 + C 0 * P 1) by ring.
    rewrite <- !wsum_product. rewrite <- wsum_plus. apply wsum_ext. intros i _.
    rewrite <- wsum_plus. apply wsum_ext. intros j _. ring.
  - rewrite (Rmult_comm (P 2)). rewrite <- wsum_product. apply wsum_ext. intros i _. apply wsum_ext. intros j _. ring.
  - rewrite (Rmult_comm (P 3)). rewrite <- wsum_product. apply wsum_ext. intros i _. apply wsum_ext. intros j _. ring.
Qed.

(* with the sweep point on the unit circle, C0^2 + C1^2 = C2^2 (cs_span_on_circle with r = 1), the
   cartesian section point is the cartesian profile point rotated about z by the sweep angle
   (cos, sin) = (C0/C2, C1/C2); its height is unchanged *)
Theorem revolve_section_is_rotated_profile :
  C 0 * C 0 + C 1 * C 1 = C 2 * C 2 -> C 2 <> 0 -> P 3 <> 0 ->
  let c := C 0 / C 2 in let s := C 1 / C 2 in
  let x := P 0 / P 3 in let y := P 1 / P 3 in let z := P 2 / P 3 in
  c * c + s * s = 1 /\
  S 0 / S 3 = x * c - y * s /\ S 1 / S 3 = x * s + y * c /\ S 2 / S 3 = z.
Proof.
  intros Hc Hw Hp. destruct revolve_factorises as (E0 & E1 & E2 & E3). cbv zeta.
  rewrite E0, E1, E2, E3.
  split; [|repeat split; field; split; assumption].
  transitivity ((C 0 * C 0 + C 1 * C 1) / (C 2 * C 2)); [field; assumption|]. rewrite Hc. field. assumption.
Qed.
End Revolve.

(* ---------- 7. extrude: S(u, v) = C(u) + v * amount ---------- *)
Section Extrude.
Variables (dim : nat) (rat : bool) (amount : list R) (prof : list (list R)).
Variable N : list R.     (* weights over the profile *)
Variable v : R.          (* the linear direction: weights (1 - v, v) on [0, 1] *)
Hypothesis HN : length N = length prof.
Local Notation net := (@extrude_cps R NumR dim rat amount prof).
Local Notation n := (length prof).
Local Notation Wt j := (if rat then nth dim (nth j prof []) 0 else 1).

Lemma extrude_nth_bottom j : (j < n)%nat -> nth j net [] = nth j prof [].
Proof. intros Hj. unfold extrude_cps. rewrite app_nth1 by exact Hj. reflexivity. Qed.
Lemma extrude_nth_top j c : (j < n)%nat -> (c < dim)%nat ->
  nth c (nth (n + j) net []) 0 = nth c (nth j prof []) 0 + nth c amount 0 * Wt j.
Proof.
  intros Hj Hc. unfold extrude_cps. rewrite app_nth2 by lia. replace (n + j - n)%nat with j by lia.
  rewrite (nth_map_gen _ prof j [] []) by exact Hj. unfold extrude_pt. cbv zeta.
  rewrite app_nth1 by (rewrite map_length, seq_length; exact Hc).
  rewrite (nth_map_gen _ (seq 0 dim) c 0 0%nat) by (rewrite seq_length; exact Hc).
  rewrite seq_nth by exact Hc. cbv [nadd nmul n0 n1 NumR]. cbn [Nat.add]. reflexivity.
Qed.

(* coordinate c of the blended point: bottom row weighted (1 - v), top row weighted v *)
Theorem extrude_is_translation c : (c < dim)%nat ->
  (1 - v) * wsum N (fun j => nth c (nth j net []) 0) + v * wsum N (fun j => nth c (nth (n + j) net []) 0)
  = wsum N (fun j => nth c (nth j prof []) 0) + v * (nth c amount 0 * wsum N (fun j => Wt j)).
Proof.
  intros Hc.
  rewrite (wsum_ext N (fun j => nth c (nth j net []) 0) (fun j => nth c (nth j prof []) 0))
    by (intros j Hj; rewrite extrude_nth_bottom by lia; reflexivity).
  rewrite (wsum_ext N (fun j => nth c (nth (n + j) net []) 0) (fun j => nth c (nth j prof []) 0 + nth c amount 0 * Wt j))
    by (intros j Hj; apply extrude_nth_top; [lia|exact Hc]).
  rewrite wsum_plus.
  replace (wsum N (fun j => nth c amount 0 * Wt j)) with (nth c amount 0 * wsum N (fun j => Wt j)).
  - ring.
  - unfold wsum. rewrite <- sumf_scal. apply sumf_ext. intros; ring.
Qed.
End Extrude.

(* list forms used by the property statements *)
Lemma B4_values_list side (k : nat -> R) (ksorted : sorted k) m' t a h :
  in_span side (k (4 + m')%nat) (k (S (4 + m'))) t -> 0 < h ->
  k m' = a - h -> k (1 + m')%nat = a - h -> k (2 + m')%nat = a -> k (3 + m')%nat = a -> k (4 + m')%nat = a ->
  k (5 + m')%nat = a + h -> k (6 + m')%nat = a + h -> k (7 + m')%nat = a + h ->
  k (8 + m')%nat = a + 2 * h -> k (9 + m')%nat = a + 2 * h ->
  map (fun i => B side k 4 (i + m') t) (seq 0 5) = q4 ((t - a) / h).
Proof.
  intros Hsp Hh K0 K1 K2 K3 K4 K5 K6 K7 K8 K9.
  destruct (B4_values side k ksorted m' t a h Hsp Hh K0 K1 K2 K3 K4 K5 K6 K7 K8 K9) as (E0 & E1 & E2 & E3 & E4).
  cbn [map seq]. unfold q4. rewrite <- E0, <- E1, <- E2, <- E3, <- E4. reflexivity.
Qed.

Lemma cs_ends r theta ks : (1 <= ks)%nat ->
  let dt := @cs_dt R NumR theta ks in
  let net := @cs_loop R NumR r (cos dt) dt cos sin 0 (cs_n ks) 0 in
  nth 0 net [] = [r * cos 0; r * sin 0; 1] /\ nth (cs_n ks - 1) net [] = [r * cos theta; r * sin theta; 1].
Proof.
  intros Hk. cbv zeta. destruct (cs_end_points r (@cs_dt R NumR theta ks) ks Hk) as [E0 E1].
  split; [exact E0|]. rewrite E1, cs_dt_total by exact Hk. reflexivity.
Qed.
