(* A sorted knot list gives a globally sorted knot function. *)
From Coq Require Import List Arith Reals Lra Lia Bool ZArith.
From SplipyModel Require Import Spec.BSpline Model.Num Model.BasisDef Model.Knots.
Import ListNotations.
Open Scope R_scope.

Lemma sorted_list_adj (k : list R) : @sorted_list R NumR k = true ->
  forall i d, (S i < length k)%nat -> nth i k d <= nth (S i) k d.
Proof.
  induction k as [|a l IH]; intros H i d Hi; [cbn in Hi; lia|].
  cbn [sorted_list] in H. destruct l as [|b l']; [cbn in Hi; lia|].
  apply andb_true_iff in H. destruct H as [H1 H2]. cbn [nleb NumR] in H1.
  destruct i as [|i].
  - cbn. destruct (Rleb_spec a b); [assumption|discriminate].
  - cbn [nth]. apply (IH H2 i d). cbn in *. lia.
Qed.

Lemma nth_last_len (k : list R) d : k <> [] -> nth (length k - 1) k d = last k d.
Proof.
  induction k as [|a l IH]; intros Hne; [congruence|].
  destruct l as [|b l']; [reflexivity|].
  assert (E : (length (a :: b :: l') - 1 = S (length (b :: l') - 1))%nat) by (cbn [length]; lia).
  rewrite E. change (nth (S (length (b :: l') - 1)) (a :: b :: l') d) with (nth (length (b :: l') - 1) (b :: l') d).
  rewrite IH by congruence. reflexivity.
Qed.

Lemma kn_in (k : list R) i : (i < length k)%nat -> forall d, @kn R NumR k i = nth i k d.
Proof. intros Hi d. unfold kn. apply nth_indep. exact Hi. Qed.
Lemma kn_out (k : list R) i : (length k <= i)%nat -> @kn R NumR k i = last k 0.
Proof. intros Hi. unfold kn. apply nth_overflow. exact Hi. Qed.

Theorem kn_sorted (k : list R) : @sorted_list R NumR k = true -> sorted (@kn R NumR k).
Proof.
  intros H.
  assert (Step : forall i, @kn R NumR k i <= @kn R NumR k (S i)).
  { intros i. destruct (Nat.lt_ge_cases (S i) (length k)) as [L|L].
    - rewrite (kn_in k i ltac:(lia) 0), (kn_in k (S i) L 0). apply sorted_list_adj; assumption.
    - rewrite (kn_out k (S i) L).
      destruct (Nat.lt_ge_cases i (length k)) as [L2|L2].
      + rewrite (kn_in k i L2 0). replace i with (length k - 1)%nat by lia.
        rewrite nth_last_len; [lra|]. destruct k; [cbn in L2; lia|congruence].
      + rewrite (kn_out k i L2). lra. }
  intros i j Hij. induction Hij as [|j Hij IH]; [lra|].
  pose proof (Step j). lra.
Qed.

Lemma wf_basis_facts p per1 (k : list R) : @wf_basis R NumR p per1 k = true ->
  (1 <= p)%nat /\ (2 * p <= length k)%nat /\ sorted (@kn R NumR k) /\
  @kn R NumR k (p - 1) < @kn R NumR k (length k - p) /\ (0 < length k - p - per1)%nat.
Proof.
  unfold wf_basis. rewrite !andb_true_iff. intros [[[[A B] C] D] E].
  apply Nat.leb_le in A. apply Nat.leb_le in B. apply Nat.leb_le in E.
  cbn [nltb NumR] in D. destruct (Rltb_spec (@kn R NumR k (p-1)) (@kn R NumR k (length k - p))); [|discriminate].
  repeat split; try assumption; try lia. apply kn_sorted; assumption.
Qed.
