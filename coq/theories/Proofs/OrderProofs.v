(* C05: self-checking solve, sorting of the elevated knot vector, and the conditional geometric statement. *)
From Coq Require Import List Arith Reals Lra Lia Bool ZArith Permutation.
From SplipyModel Require Import Spec.BSpline Model.Num Model.BasisDef Model.Tensor Model.Obj Model.KnotInsert Model.Solve Model.Order
  Proofs.TensorLemmas Proofs.TensorApply.
Import ListNotations.
Open Scope R_scope.

(* a solve that returns an answer returns a solution: A X = B entry by entry *)
Theorem solve_correct (A B X : list (list R)) : @solve R NumR A B = Ok X -> @mat_eqb R NumR (@matmul R NumR A X) B = true.
Proof.
  unfold solve. cbv zeta. destruct (@gj R NumR _ _ _ _) as [rows|]; [|discriminate].
  destruct (@mat_eqb R NumR _ B) eqn:E; [|discriminate]. intros [= <-]. exact E.
Qed.

(* on R, mat_eqb is equality *)
Lemma mat_eqb_eq (A B : list (list R)) : @mat_eqb R NumR A B = true -> A = B.
Proof.
  unfold mat_eqb. rewrite andb_true_iff. intros [HL HF]. apply Nat.eqb_eq in HL.
  revert B HL HF. induction A as [|a A IH]; intros B HL HF; destruct B as [|b B]; try discriminate; [reflexivity|].
  cbn [combine forallb] in HF. apply andb_true_iff in HF. destruct HF as [H1 H2]. apply andb_true_iff in H1. destruct H1 as [Hl Hr].
  apply Nat.eqb_eq in Hl. cbn [fst snd] in Hl, Hr. f_equal; [|apply IH; [cbn [length] in HL; lia|exact H2]].
  clear -Hl Hr. revert b Hl Hr. induction a as [|x a IHa]; intros b Hl Hr; destruct b as [|y b]; try discriminate; [reflexivity|].
  cbn [combine forallb fst snd] in Hr. apply andb_true_iff in Hr. destruct Hr as [E1 E2]. cbn [neqb NumR] in E1.
  destruct (Reqb_spec x y); [|discriminate]. subst. f_equal. apply IHa; [cbn [length] in Hl; lia|exact E2].
Qed.

Corollary solve_is_solution (A B X : list (list R)) : @solve R NumR A B = Ok X -> @matmul R NumR A X = B.
Proof. intros H. apply mat_eqb_eq, solve_correct, H. Qed.

(* insertion sort: sorted and a permutation *)
Lemma insert_sorted_perm x l : Permutation (@insert_sorted R NumR x l) (x :: l).
Proof.
  induction l as [|y l IH]; cbn [insert_sorted]; [reflexivity|]. destruct (@nleb R NumR x y); [reflexivity|].
  rewrite IH. apply perm_swap.
Qed.
Lemma sort_list_perm l : Permutation (@sort_list R NumR l) l.
Proof. induction l as [|x l IH]; cbn; [constructor|]. rewrite insert_sorted_perm. constructor. exact IH. Qed.

Inductive lsorted : list R -> Prop :=
| ls_nil : lsorted []
| ls_one x : lsorted [x]
| ls_cons x y l : x <= y -> lsorted (y :: l) -> lsorted (x :: y :: l).
Lemma insert_sorted_sorted x l : lsorted l -> lsorted (@insert_sorted R NumR x l).
Proof.
  induction 1 as [|y|y z l Hyz Hs IH]; cbn [insert_sorted nleb NumR].
  - constructor.
  - destruct (Rleb_spec x y); [apply ls_cons; [lra|apply ls_one]|apply ls_cons; [lra|apply ls_one]].
  - destruct (Rleb_spec x y) as [A|A]; [apply ls_cons; [lra|apply ls_cons; assumption]|].
    cbn [insert_sorted nleb NumR] in IH. destruct (Rleb_spec x z) as [B|B].
    + constructor; [lra|]. constructor; assumption.
    + constructor; [exact Hyz|exact IH].
Qed.
Theorem sort_list_sorted l : lsorted (@sort_list R NumR l).
Proof. induction l as [|x l IH]; cbn; [constructor|apply insert_sorted_sorted, IH]. Qed.

(* C05 (PARTIAL): the order-changing matrix M is applied along a direction with apply_dir; IF the old row of
   basis values is the new row times M for the parameter at hand (the classical nestedness of the spline
   spaces, NOT proved here; by construction it holds at the Greville points), THEN every coordinate of
   the evaluation is unchanged.  Any pardim, any direction. *)
Theorem order_change_preserves_map_partial dim c (M : list (list R)) rows d N' cps :
  (d < length rows)%nat -> (c < dim)%nat -> net_ok dim rows cps -> (0 < prodl (map (@length R) rows))%nat ->
  row_rel (nth d rows []) N' M ->
  tsum (@upd (list R) rows d N') (cnet dim c (@apply_dir R NumR dim (map (@length R) rows) d M cps)) = tsum rows (cnet dim c cps).
Proof. exact (tsum_apply_dir dim c M rows d N' cps). Qed.
