(* C17, catalogue part: the abstract ObjectCatalogue of Model/Catalogue.v.  nat / bool / list only, axiom-free. *)
From Coq Require Import List Arith Lia Bool Permutation Sorted.
From SplipyModel Require Import Model.Orient Model.Catalogue Proofs.OrientProofs.
Import ListNotations.
Open Scope nat_scope.

(* ====================================================================================================== *)
(* A. lists of length 2^d as cubes                                                                         *)
(* ====================================================================================================== *)
Section ListLemmas.
  Context {A : Type}.

  Lemma evens_cons2 (a b : A) l : evens (a :: b :: l) = a :: evens l.
  Proof. reflexivity. Qed.
  Lemma odds_cons2 (a b : A) l : odds (a :: b :: l) = b :: odds l.
  Proof. destruct l; reflexivity. Qed.

  Lemma length_evens_odds n : forall c : list A, length c = 2 * n -> length (evens c) = n /\ length (odds c) = n.
  Proof.
    induction n as [|n IH]; intros c H.
    - destruct c; [split; reflexivity|cbn in H; lia].
    - destruct c as [|a [|b l]]; cbn [length] in H; try lia.
      rewrite evens_cons2, odds_cons2. cbn [length]. destruct (IH l) as [E O]; [lia|]. split; lia.
  Qed.

  Lemma interleave_length : forall a b : list A, length a = length b -> length (interleave a b) = 2 * length a.
  Proof.
    induction a as [|x a IH]; intros [|y b] H; cbn [length] in H; try lia; [reflexivity|].
    cbn [interleave length]. rewrite IH by lia. lia.
  Qed.
  Lemma evens_interleave : forall a b : list A, length a = length b -> evens (interleave a b) = a.
  Proof.
    induction a as [|x a IH]; intros [|y b] H; cbn [length] in H; try lia; [reflexivity|].
    cbn [interleave]. rewrite evens_cons2, IH by lia. reflexivity.
  Qed.
  Lemma odds_interleave : forall a b : list A, length a = length b -> odds (interleave a b) = b.
  Proof.
    induction a as [|x a IH]; intros [|y b] H; cbn [length] in H; try lia; [reflexivity|].
    cbn [interleave]. rewrite odds_cons2, IH by lia. reflexivity.
  Qed.
  Lemma interleave_evens_odds n : forall c : list A, length c = 2 * n -> interleave (evens c) (odds c) = c.
  Proof.
    induction n as [|n IH]; intros c H.
    - destruct c; [reflexivity|cbn in H; lia].
    - destruct c as [|a [|b l]]; cbn [length] in H; try lia.
      rewrite evens_cons2, odds_cons2. cbn [interleave]. rewrite IH by lia. reflexivity.
  Qed.
  Lemma in_interleave x : forall a b : list A, length a = length b -> (In x (interleave a b) <-> In x a \/ In x b).
  Proof.
    induction a as [|y a IH]; intros [|z b] H; cbn [length] in H; try lia.
    - cbn. tauto.
    - cbn [interleave In]. rewrite IH by lia. tauto.
  Qed.
  Lemma Permutation_interleave : forall a b : list A, length a = length b -> Permutation (interleave a b) (a ++ b).
  Proof.
    induction a as [|y a IH]; intros [|z b] H; cbn [length] in H; try lia; [constructor|].
    cbn [interleave app]. constructor. apply Permutation_cons_app. apply IH. lia.
  Qed.
  Lemma Permutation_evens_odds n : forall c : list A, length c = 2 * n -> Permutation c (evens c ++ odds c).
  Proof.
    intros c H. destruct (length_evens_odds n c H) as [E O].
    rewrite <- (interleave_evens_odds n c H) at 1. apply Permutation_interleave. lia.
  Qed.
End ListLemmas.

Lemma evens_map {A B} (f : A -> B) : forall l, evens (map f l) = map f (evens l).
Proof.
  fix IH 1. intros [|a [|b l]]; [reflexivity|reflexivity|].
  cbn [map]. rewrite !evens_cons2. cbn [map]. rewrite IH. reflexivity.
Qed.
Lemma odds_map {A B} (f : A -> B) l : odds (map f l) = map f (odds l).
Proof. destruct l as [|a l]; [reflexivity|]. cbn [map odds]. apply evens_map. Qed.

Lemma pow2_S d : 2 ^ S d = 2 * 2 ^ d.
Proof. reflexivity. Qed.

Lemma nfree_nil : nfree [] = 0. Proof. reflexivity. Qed.
Lemma nfree_none r : nfree (None :: r) = S (nfree r). Proof. reflexivity. Qed.
Lemma nfree_some e r : nfree (Some e :: r) = nfree r. Proof. reflexivity. Qed.
Lemma nfree_le s : nfree s <= length s.
Proof. induction s as [|[e|] r IH]; [apply Nat.le_refl| |]; [rewrite nfree_some|rewrite nfree_none]; cbn [length]; lia. Qed.

Lemma sec_length : forall s c, length c = 2 ^ length s -> length (sec s c) = 2 ^ nfree s.
Proof.
  induction s as [|x r IH]; intros c H; [exact H|].
  cbn [length] in H. rewrite pow2_S in H. destruct (length_evens_odds _ c H) as [E O].
  destruct x as [[|]|].
  - rewrite nfree_some. cbn [sec]. apply IH, O.
  - rewrite nfree_some. cbn [sec]. apply IH, E.
  - rewrite nfree_none, pow2_S. cbn [sec]. rewrite interleave_length; rewrite !IH by assumption; reflexivity.
Qed.

(* the coordinate vectors of the corners of a section *)
Fixpoint matches (s : section) (b : list bool) : Prop :=
  match s, b with
  | [], [] => True
  | x :: s', y :: b' => (x = None \/ x = Some y) /\ matches s' b'
  | _, _ => False
  end.

Lemma matches_length : forall s b, matches s b -> length b = length s.
Proof. induction s as [|x s IH]; intros [|y b] H; cbn in H; try tauto. cbn [length]. f_equal. apply IH, H. Qed.

Lemma sec_points : forall s c, length c = 2 ^ length s ->
  forall x, In x (sec s c) <-> exists b, matches s b /\ x = corner c b.
Proof.
  induction s as [|o r IH]; intros c H x.
  - cbn [sec]. cbn in H. destruct c as [|v [|w c]]; cbn in H; try lia. split.
    + intros [<-|[]]. exists []. split; [exact I|reflexivity].
    + intros ([|y b] & Hm & ->); [left; reflexivity|destruct Hm].
  - cbn [length] in H. rewrite pow2_S in H. destruct (length_evens_odds _ c H) as [E O].
    assert (Hcase : forall e : bool, (exists b, matches r b /\ x = corner (if e then odds c else evens c) b) <->
                              (exists b, matches (Some e :: r) b /\ x = corner c b)).
    { intros e. split.
      - intros (b & Hm & ->). exists (e :: b). split; [split; [right; reflexivity|exact Hm]|destruct e; reflexivity].
      - intros ([|y b] & Hm & ->); [destruct Hm|]. destruct Hm as [[Hy|Hy] Hm]; [discriminate|]. injection Hy as <-.
        exists b. split; [exact Hm|destruct e; reflexivity]. }
    destruct o as [[|]|].
    + cbn [sec]. rewrite (IH _ O). apply (Hcase true).
    + cbn [sec]. rewrite (IH _ E). apply (Hcase false).
    + cbn [sec]. rewrite in_interleave by (rewrite !sec_length by assumption; reflexivity).
      rewrite (IH _ E), (IH _ O). split.
      * intros [(b & Hm & ->)|(b & Hm & ->)].
        -- exists (false :: b). split; [split; [left; reflexivity|exact Hm]|reflexivity].
        -- exists (true :: b). split; [split; [left; reflexivity|exact Hm]|reflexivity].
      * intros ([|y b] & Hm & ->); [destruct Hm|]. destruct Hm as [_ Hm].
        destruct y; [right|left]; exists b; (split; [exact Hm|reflexivity]).
Qed.

(* a section of a section is a section *)
Fixpoint scomp (s s' : section) : section :=
  match s with
  | [] => []
  | Some e :: r => Some e :: scomp r s'
  | None :: r => match s' with [] => None :: scomp r [] | x :: t => x :: scomp r t end
  end.

Lemma scomp_length : forall s s', length (scomp s s') = length s.
Proof. induction s as [|[e|] r IH]; intros s'; [reflexivity| |destruct s']; cbn [scomp length]; rewrite IH; reflexivity. Qed.

Lemma nfree_scomp : forall s s', length s' = nfree s -> nfree (scomp s s') = nfree s'.
Proof.
  induction s as [|[e|] r IH]; intros s' H.
  - destruct s'; [reflexivity|discriminate].
  - cbn [scomp]. rewrite nfree_some in *. apply IH, H.
  - rewrite nfree_none in H. destruct s' as [|x t]; [discriminate|]. cbn [scomp]. cbn [length] in H.
    destruct x; [rewrite !nfree_some|rewrite !nfree_none; f_equal]; apply IH; lia.
Qed.

Lemma sec_sec : forall s c s', length c = 2 ^ length s -> length s' = nfree s -> sec s' (sec s c) = sec (scomp s s') c.
Proof.
  induction s as [|o r IH]; intros c s' H H'.
  - destruct s'; [reflexivity|discriminate].
  - cbn [length] in H. rewrite pow2_S in H. destruct (length_evens_odds _ c H) as [E O].
    destruct o as [[|]|].
    + cbn [sec scomp]. apply IH; assumption.
    + cbn [sec scomp]. apply IH; assumption.
    + rewrite nfree_none in H'. destruct s' as [|x t]; [discriminate|]. cbn [length] in H'.
      assert (HL : length (sec r (evens c)) = length (sec r (odds c))) by (rewrite !sec_length by assumption; reflexivity).
      cbn [scomp]. destruct x as [[|]|]; cbn [sec]; rewrite ?evens_interleave, ?odds_interleave by exact HL;
        rewrite ?IH by (try assumption; lia); reflexivity.
Qed.

Lemma nfree_repeat d : nfree (repeat None d) = d.
Proof. induction d; [reflexivity|]. cbn [repeat]. rewrite nfree_none, IHd. reflexivity. Qed.

Lemma sec_allfree : forall d c, length c = 2 ^ d -> sec (repeat None d) c = c.
Proof.
  induction d as [|d IH]; intros c H; [reflexivity|].
  rewrite pow2_S in H. destruct (length_evens_odds _ c H) as [E O].
  cbn [repeat sec]. rewrite !IH by assumption. apply (interleave_evens_odds _ c H).
Qed.

Lemma allfree_char : forall s, nfree s = length s -> s = repeat None (length s).
Proof.
  induction s as [|[e|] r IH]; intros H; [reflexivity| |].
  - rewrite nfree_some in H. cbn [length] in H. pose proof (nfree_le r). lia.
  - rewrite nfree_none in H. cbn [length] in H. cbn [length repeat]. f_equal. apply IH. lia.
Qed.

(* membership in sections(d, i) *)
Definition mask_of (s : section) : list bool := map (fun x => negb (is_free x)) s.
Definition ntrue (m : list bool) : nat := length (filter (fun b => b) m).

Lemma in_fills : forall m s, In s (fills m) <-> mask_of s = m.
Proof.
  induction m as [|[|] r IH]; intros s.
  - cbn [fills In]. destruct s; cbn; split; intros H; try discriminate; auto. destruct H as [H|[]]. discriminate.
  - cbn [fills]. rewrite in_flat_map. split.
    + intros (t & Ht & [<-|[<-|[]]]); cbn [mask_of map is_free negb]; f_equal; apply IH, Ht.
    + destruct s as [|[e|] t]; cbn [mask_of map is_free negb]; intros H; try discriminate. injection H as H.
      exists t. split; [apply IH, H|]. destruct e; cbn; auto.
  - cbn [fills]. rewrite in_map_iff. split.
    + intros (t & <- & Ht). cbn [mask_of map is_free negb]. f_equal. apply IH, Ht.
    + destruct s as [|[e|] t]; cbn [mask_of map is_free negb]; intros H; try discriminate. injection H as H.
      exists t. split; [reflexivity|apply IH, H].
Qed.

Lemma in_masks : forall d r m, In m (masks d r) <-> length m = d /\ ntrue m = r.
Proof.
  induction d as [|d IH]; intros r m.
  - cbn [masks]. destruct r; cbn [In]; split.
    + intros [<-|[]]. split; reflexivity.
    + intros [H _]. destruct m; [left; reflexivity|discriminate].
    + intros [].
    + intros [H H']. destruct m; [discriminate|discriminate].
  - cbn [masks]. rewrite in_app_iff. split.
    + intros [H|H].
      * destruct r as [|r]; [destruct H|]. apply in_map_iff in H. destruct H as (t & <- & Ht). apply IH in Ht.
        unfold ntrue in *. cbn [length filter]. lia.
      * apply in_map_iff in H. destruct H as (t & <- & Ht). apply IH in Ht. unfold ntrue in *. cbn [length filter]. lia.
    + intros [H H']. destruct m as [|[|] t]; [discriminate| |].
      * unfold ntrue in H'. cbn [filter length] in H, H'. destruct r as [|r]; [discriminate|]. left.
        apply in_map. apply IH. unfold ntrue. lia.
      * unfold ntrue in H'. cbn [filter length] in H, H'. right. apply in_map. apply IH. unfold ntrue. lia.
Qed.

Lemma mask_count : forall s, ntrue (mask_of s) + nfree s = length s.
Proof.
  induction s as [|[e|] r IH]; [reflexivity| |]; unfold ntrue, nfree in *; cbn [mask_of map is_free negb filter length]; unfold mask_of in IH; lia.
Qed.

Lemma in_sections d i s : i <= d -> (In s (sections d i) <-> length s = d /\ nfree s = i).
Proof.
  intros Hi. unfold sections. rewrite in_flat_map. split.
  - intros (m & Hm & Hs). apply in_masks in Hm. apply in_fills in Hs. subst m. destruct Hm as [L T].
    unfold mask_of in L. rewrite map_length in L. pose proof (mask_count s). lia.
  - intros [L F]. exists (mask_of s). split; [|apply in_fills; reflexivity]. apply in_masks.
    unfold mask_of at 1. rewrite map_length. pose proof (mask_count s). lia.
Qed.

(* ====================================================================================================== *)
(* B. canonical corner sets                                                                                *)
(* ====================================================================================================== *)
Lemma insert_u_in x y : forall l, In y (insert_u x l) <-> y = x \/ In y l.
Proof.
  induction l as [|z l IH]; cbn [insert_u].
  - cbn. intuition.
  - destruct (x <? z) eqn:E1; [cbn; intuition|]. destruct (x =? z) eqn:E2.
    + apply Nat.eqb_eq in E2. subst z. cbn. intuition.
    + cbn [In]. rewrite IH. intuition.
Qed.

Lemma insert_u_sorted x : forall l, StronglySorted lt l -> StronglySorted lt (insert_u x l).
Proof.
  induction l as [|z l IH]; intros H; cbn [insert_u].
  - constructor; constructor.
  - inversion H as [|? ? Hs Hf]; subst. destruct (x <? z) eqn:E1.
    + apply Nat.ltb_lt in E1. constructor; [exact H|]. constructor; [exact E1|].
      rewrite Forall_forall in *. intros w Hw. specialize (Hf w Hw). lia.
    + destruct (x =? z) eqn:E2; [exact H|]. apply Nat.ltb_ge in E1. apply Nat.eqb_neq in E2.
      constructor; [apply IH, Hs|]. rewrite Forall_forall in *. intros w Hw. apply insert_u_in in Hw.
      destruct Hw as [->|Hw]; [lia|apply Hf, Hw].
Qed.

Lemma canon_in x l : In x (canon l) <-> In x l.
Proof. induction l as [|y l IH]; [tauto|]. unfold canon in *. cbn [fold_right]. rewrite insert_u_in, IH. cbn. intuition. Qed.
Lemma canon_sorted l : StronglySorted lt (canon l).
Proof. induction l as [|y l IH]; [constructor|]. unfold canon in *. cbn [fold_right]. apply insert_u_sorted, IH. Qed.

Lemma sorted_ext : forall a b, StronglySorted lt a -> StronglySorted lt b -> (forall x, In x a <-> In x b) -> a = b.
Proof.
  induction a as [|x a IH]; intros [|y b] Ha Hb H.
  - reflexivity.
  - exfalso. apply (proj2 (H y)). left; reflexivity.
  - exfalso. apply (proj1 (H x)). left; reflexivity.
  - inversion Ha as [|? ? Sa Fa]; inversion Hb as [|? ? Sb Fb]; subst. rewrite Forall_forall in Fa, Fb.
    assert (x = y).
    { destruct (proj1 (H x) (or_introl eq_refl)) as [E|E]; [auto|]. destruct (proj2 (H y) (or_introl eq_refl)) as [E'|E']; [auto|].
      specialize (Fa _ E'). specialize (Fb _ E). lia. }
    subst y. f_equal. apply IH; [assumption|assumption|]. intros z. split; intros Hz.
    + destruct (proj1 (H z) (or_intror Hz)) as [E|E]; [|exact E]. specialize (Fa _ Hz). lia.
    + destruct (proj2 (H z) (or_intror Hz)) as [E|E]; [|exact E]. specialize (Fb _ Hz). lia.
Qed.

Lemma canon_ext a b : (forall x, In x a <-> In x b) -> canon a = canon b.
Proof. intros H. apply sorted_ext; try apply canon_sorted. intros x. rewrite !canon_in. apply H. Qed.
Lemma canon_set a b : canon a = canon b -> forall x, In x a <-> In x b.
Proof. intros H x. rewrite <- (canon_in x a), <- (canon_in x b), H. tauto. Qed.
Lemma canon_sorted_id l : StronglySorted lt l -> canon l = l.
Proof. intros H. apply sorted_ext; [apply canon_sorted|exact H|]. intros x. apply canon_in. Qed.

Lemma list_eqb_eq : forall a b, list_eqb a b = true <-> a = b.
Proof.
  induction a as [|x a IH]; intros [|y b]; cbn [list_eqb]; split; intros H; try discriminate; try reflexivity.
  - apply andb_true_iff in H. destruct H as [H1 H2]. apply Nat.eqb_eq in H1. apply IH in H2. subst. reflexivity.
  - injection H as -> ->. rewrite Nat.eqb_refl. apply IH. reflexivity.
Qed.
Lemma key_eqb_eq (a b : key) : key_eqb a b = true <-> a = b.
Proof.
  destruct a as [d l], b as [d' l']. unfold key_eqb. cbn [fst snd]. rewrite andb_true_iff, Nat.eqb_eq, list_eqb_eq.
  split; [intros [-> ->]; reflexivity|intros H; injection H; auto].
Qed.
Lemma key_eqb_refl k : key_eqb k k = true.
Proof. apply key_eqb_eq. reflexivity. Qed.
Definition key_dec (a b : key) : {a = b} + {a <> b}.
Proof. decide equality; [apply (list_eq_dec Nat.eq_dec)|apply Nat.eq_dec]. Defined.

(* ====================================================================================================== *)
(* C. the keys of a catalogue after add                                                                    *)
(* ====================================================================================================== *)
Lemma has_node_in k c : has_node k c = true <-> In k (cat_keys c).
Proof.
  unfold has_node, cat_keys. rewrite existsb_exists. split.
  - intros (n & Hn & E). apply key_eqb_eq in E. subst. apply in_map, Hn.
  - intros H. apply in_map_iff in H. destruct H as (n & <- & Hn). exists n. split; [exact Hn|apply key_eqb_refl].
Qed.
Lemma has_node_false k c : has_node k c = false <-> ~ In k (cat_keys c).
Proof.
  rewrite <- has_node_in. split; intros H.
  - intros H'. rewrite H in H'. discriminate.
  - destruct (has_node k c); [exfalso; apply H; reflexivity|reflexivity].
Qed.

Lemma keys_assign_higher new c k : cat_keys (assign_higher new c k) = cat_keys c.
Proof.
  unfold cat_keys, assign_higher. rewrite map_map. apply map_ext. intros n. destruct (key_eqb (n_key n) k); reflexivity.
Qed.
Lemma keys_assign_fold new l : forall c, cat_keys (fold_left (assign_higher new) l c) = cat_keys c.
Proof. induction l as [|k l IH]; intros c; cbn [fold_left]; [reflexivity|]. rewrite IH. apply keys_assign_higher. Qed.
Lemma keys_ensure d p c :
  cat_keys (ensure_node d p c) = if has_node (pkey d p) c then cat_keys c else cat_keys c ++ [pkey d p].
Proof.
  unfold ensure_node. cbv zeta. destruct (has_node (pkey d p) c); [reflexivity|].
  unfold cat_keys at 1. rewrite map_app. fold (cat_keys (fold_left (assign_higher (pkey d p)) (concat (section_keys d p)) c)).
  rewrite keys_assign_fold. reflexivity.
Qed.
Lemma in_keys_ensure d p c k : In k (cat_keys (ensure_node d p c)) <-> In k (cat_keys c) \/ k = pkey d p.
Proof.
  rewrite keys_ensure. destruct (has_node (pkey d p) c) eqn:E.
  - apply has_node_in in E. split; [auto|]. intros [H| ->]; assumption.
  - rewrite in_app_iff. cbn [In]. intuition.
Qed.

(* k is the key of a sub-cube (of any dimension, the patch itself included) of the d-patch with corners p *)
Definition is_sub (d : nat) (p : list nat) (k : key) : Prop := exists s, length s = d /\ k = pkey (nfree s) (sec s p).

Lemma is_sub_self d p : length p = 2 ^ d -> is_sub d p (pkey d p).
Proof. intros H. exists (repeat None d). rewrite repeat_length, nfree_repeat, sec_allfree by exact H. auto. Qed.
Lemma is_sub_trans d p s k : length s = d -> length p = 2 ^ d -> is_sub (nfree s) (sec s p) k -> is_sub d p k.
Proof.
  intros Hs Hp (s' & Ls' & ->). exists (scomp s s'). rewrite scomp_length, nfree_scomp by exact Ls'.
  rewrite sec_sec by (subst d; assumption). auto.
Qed.
Lemma is_sub_0 p k : is_sub 0 p k <-> k = pkey 0 p.
Proof. split; [intros ([|x s] & L & ->); [reflexivity|discriminate]|intros ->; exists []; auto]. Qed.

Lemma is_sub_unfold d p k : length p = 2 ^ d ->
  (is_sub d p k <-> k = pkey d p \/ exists i, In i (seq 0 d) /\ exists s, In s (sections d i) /\ is_sub i (sec s p) k).
Proof.
  intros Hp. split.
  - intros (s & Ls & ->). destruct (Nat.eq_dec (nfree s) d) as [E|E].
    + left. rewrite <- Ls in E. rewrite (allfree_char s E), Ls, nfree_repeat, sec_allfree by exact Hp. reflexivity.
    + right. pose proof (nfree_le s). exists (nfree s). split; [apply in_seq; lia|]. exists s. split; [apply in_sections; [lia|auto]|].
      apply is_sub_self. apply sec_length. rewrite Ls. exact Hp.
  - intros [->|(i & Hi & s & Hs & Hk)]; [apply is_sub_self, Hp|]. apply in_seq in Hi.
    apply in_sections in Hs; [|lia]. destruct Hs as [Ls <-]. apply (is_sub_trans d p s); assumption.
Qed.

Lemma fold_keys {X} (f : catalogue -> X -> catalogue) (P : X -> key -> Prop) : forall l,
  (forall c x, In x l -> forall k, In k (cat_keys (f c x)) <-> In k (cat_keys c) \/ P x k) ->
  forall c k, In k (cat_keys (fold_left f l c)) <-> In k (cat_keys c) \/ exists x, In x l /\ P x k.
Proof.
  induction l as [|x l IH]; intros Hf c k; cbn [fold_left].
  - split; [auto|]. intros [H|(x & [] & _)]. exact H.
  - rewrite IH by (intros c' x' Hx'; apply Hf; right; exact Hx'). rewrite Hf by (left; reflexivity). split.
    + intros [[H|H]|(y & Hy & H)]; [auto|right; exists x; split; [left; reflexivity|exact H]|right; exists y; split; [right; exact Hy|exact H]].
    + intros [H|(y & [<-|Hy] & H)]; [auto|auto|right; exists y; auto].
Qed.
Lemma fold_inv {X} (f : catalogue -> X -> catalogue) (P : catalogue -> Prop) : forall l,
  (forall c x, In x l -> P c -> P (f c x)) -> forall c, P c -> P (fold_left f l c).
Proof.
  induction l as [|x l IH]; intros Hf c Hc; cbn [fold_left]; [exact Hc|].
  apply IH; [intros c' x' Hx'; apply Hf; right; exact Hx'|apply Hf; [left; reflexivity|exact Hc]].
Qed.
Lemma fold_fix {X} (f : catalogue -> X -> catalogue) c : forall l, (forall x, In x l -> f c x = c) -> fold_left f l c = c.
Proof.
  induction l as [|x l IH]; intros Hf; cbn [fold_left]; [reflexivity|].
  rewrite Hf by (left; reflexivity). apply IH. intros y Hy. apply Hf. right; exact Hy.
Qed.

(* the catalogue after the sections of all lower dimensions have been added *)
Definition add_lower (f d : nat) (c : catalogue) (p : list nat) : catalogue :=
  fold_left (fun c i => fold_left (fun c s => add_fuel f i c (sec s p)) (sections d i) c) (seq 0 d) c.
Lemma add_fuel_S f d c p : add_fuel (S f) d c p = ensure_node d p (add_lower f d c p).
Proof. reflexivity. Qed.
Lemma add_fuel_0 d c p : add_fuel 0 d c p = ensure_node d p c.
Proof. reflexivity. Qed.

Lemma sec_in_sections_length d i s p : i < d -> In s (sections d i) -> length p = 2 ^ d ->
  length s = d /\ nfree s = i /\ length (sec s p) = 2 ^ i.
Proof.
  intros Hi Hs Hp. apply in_sections in Hs; [|lia]. destruct Hs as [L F]. repeat split; try assumption.
  rewrite <- F. apply sec_length. rewrite L. exact Hp.
Qed.

Theorem add_fuel_keys : forall fuel d c p, d <= fuel -> length p = 2 ^ d ->
  forall k, In k (cat_keys (add_fuel fuel d c p)) <-> In k (cat_keys c) \/ is_sub d p k.
Proof.
  induction fuel as [|f IH]; intros d c p Hd Hp k.
  - assert (d = 0) by lia. subst d. rewrite add_fuel_0, in_keys_ensure, is_sub_0. tauto.
  - rewrite add_fuel_S, in_keys_ensure, (is_sub_unfold d p k Hp). unfold add_lower.
    rewrite (fold_keys _ (fun i k => exists s, In s (sections d i) /\ is_sub i (sec s p) k)); [tauto|].
    intros c' i Hi k'. apply in_seq in Hi.
    apply (fold_keys _ (fun s k => is_sub i (sec s p) k)).
    intros c'' s Hs k''. destruct (sec_in_sections_length d i s p) as (L & F & Ls); [lia|assumption|assumption|].
    apply IH; [lia|exact Ls].
Qed.

Lemma add_lower_keys f d c p : d <= S f -> length p = 2 ^ d ->
  forall k, In k (cat_keys (add_lower f d c p)) <->
            In k (cat_keys c) \/ exists i, In i (seq 0 d) /\ exists s, In s (sections d i) /\ is_sub i (sec s p) k.
Proof.
  intros Hd Hp k. unfold add_lower.
  apply (fold_keys _ (fun i k => exists s, In s (sections d i) /\ is_sub i (sec s p) k)).
  intros c' i Hi k'. apply in_seq in Hi.
  apply (fold_keys _ (fun s k => is_sub i (sec s p) k)).
  intros c'' s Hs k''. destruct (sec_in_sections_length d i s p) as (L & F & Ls); [lia|assumption|assumption|].
  apply add_fuel_keys; [lia|exact Ls].
Qed.

Lemma in_section_keys d p k :
  In k (concat (section_keys d p)) <-> exists i, In i (seq 0 d) /\ exists s, In s (sections d i) /\ k = pkey i (sec s p).
Proof.
  unfold section_keys. rewrite in_concat. split.
  - intros (l & Hl & Hk). apply in_map_iff in Hl. destruct Hl as (i & <- & Hi). apply in_map_iff in Hk.
    destruct Hk as (s & <- & Hs). exists i. split; [exact Hi|]. exists s. auto.
  - intros (i & Hi & s & Hs & ->). exists (map (fun s => pkey i (sec s p)) (sections d i)). split.
    + apply in_map_iff. exists i. auto.
    + apply (in_map (fun s0 => pkey i (sec s0 p))). exact Hs.
Qed.

(* every invariant of the graph only has to be checked on the creation step; the step is only ever applied to
   sub-cubes of the patch, and when all the proper sections of the sub-cube are already present *)
Theorem add_fuel_ind (P : catalogue -> Prop) : forall fuel d c p, d <= fuel -> length p = 2 ^ d ->
  (forall s c', length s = d ->
     (forall k, In k (concat (section_keys (nfree s) (sec s p))) -> In k (cat_keys c')) ->
     P c' -> P (ensure_node (nfree s) (sec s p) c')) ->
  P c -> P (add_fuel fuel d c p).
Proof.
  induction fuel as [|f IH]; intros d c p Hd Hp Hstep HP.
  - assert (d = 0) by lia. subst d. rewrite add_fuel_0. apply (Hstep [] c); [reflexivity|intros k []|exact HP].
  - rewrite add_fuel_S. pose proof (Hstep (repeat None d) (add_lower f d c p)) as H.
    rewrite repeat_length, nfree_repeat, sec_allfree in H by exact Hp. apply H; clear H; [reflexivity| |].
    + intros k Hk. apply in_section_keys in Hk. destruct Hk as (i & Hi & s & Hs & ->).
      apply add_lower_keys; [assumption|assumption|]. right. exists i. split; [exact Hi|]. exists s. split; [exact Hs|].
      apply in_seq in Hi. destruct (sec_in_sections_length d i s p) as (L & F & Ls); [lia|assumption|assumption|].
      apply is_sub_self, Ls.
    + unfold add_lower. apply fold_inv; [|exact HP]. intros c' i Hi HP'. apply in_seq in Hi.
      apply fold_inv; [|exact HP']. intros c'' s Hs HP''.
      destruct (sec_in_sections_length d i s p) as (L & F & Ls); [lia|assumption|assumption|].
      apply IH; [lia|exact Ls| |exact HP''].
      intros s' c3 Ls' Hlow HP3. pose proof (Hstep (scomp s s') c3) as H.
      rewrite scomp_length, nfree_scomp in H by lia. rewrite <- sec_sec in H by (try lia; rewrite L; exact Hp).
      apply H; [exact L|exact Hlow|exact HP3].
Qed.

Lemma keys_nodup_ensure d p c : NoDup (cat_keys c) -> NoDup (cat_keys (ensure_node d p c)).
Proof.
  intros H. rewrite keys_ensure. destruct (has_node (pkey d p) c) eqn:E; [exact H|].
  apply has_node_false in E. apply (Permutation_NoDup (Permutation_cons_append _ _)). constructor; assumption.
Qed.

(* ====================================================================================================== *)
(* D. idempotence, lookup, independence of the order                                                       *)
(* ====================================================================================================== *)
Lemma add_fuel_fix : forall fuel d c p, d <= fuel -> length p = 2 ^ d ->
  (forall k, is_sub d p k -> In k (cat_keys c)) -> add_fuel fuel d c p = c.
Proof.
  assert (Hens : forall d c p, length p = 2 ^ d -> (forall k, is_sub d p k -> In k (cat_keys c)) -> ensure_node d p c = c).
  { intros d c p Hp Hall. unfold ensure_node. cbv zeta.
    rewrite (proj2 (has_node_in (pkey d p) c)); [reflexivity|apply Hall, is_sub_self, Hp]. }
  induction fuel as [|f IH]; intros d c p Hd Hp Hall.
  - rewrite add_fuel_0. apply Hens; assumption.
  - rewrite add_fuel_S. assert (E : add_lower f d c p = c).
    { unfold add_lower. apply fold_fix. intros i Hi. apply in_seq in Hi. apply fold_fix. intros s Hs.
      destruct (sec_in_sections_length d i s p) as (L & F & Ls); [lia|assumption|assumption|].
      apply IH; [lia|exact Ls|]. intros k Hk. apply Hall. apply (is_sub_trans d p s); try assumption. rewrite F. exact Hk. }
    rewrite E. apply Hens; assumption.
Qed.

Lemma cat_add_keys c p : valid_patch p ->
  forall k, In k (cat_keys (cat_add c p)) <-> In k (cat_keys c) \/ is_sub (p_dim p) (p_corners p) k.
Proof. intros H k. unfold cat_add. apply add_fuel_keys; [apply Nat.le_refl|exact H]. Qed.

(* 1a. adding a patch a second time changes nothing at all *)
Theorem add_idempotent c p : valid_patch p -> cat_add (cat_add c p) p = cat_add c p.
Proof.
  intros H. unfold cat_add at 1. apply add_fuel_fix; [apply Nat.le_refl|exact H|].
  intros k Hk. apply cat_add_keys; auto.
Qed.
(* more generally: adding a patch all of whose sub-entities are known changes nothing *)
Theorem add_known c p : valid_patch p -> (forall k, is_sub (p_dim p) (p_corners p) k -> In k (cat_keys c)) -> cat_add c p = c.
Proof. intros H Hall. unfold cat_add. apply add_fuel_fix; [apply Nat.le_refl|exact H|exact Hall]. Qed.

Lemma find_node_some k c : In k (cat_keys c) -> exists n, find_node k c = Some n /\ n_key n = k /\ In n c.
Proof.
  intros H. unfold find_node. destruct (find (fun n => key_eqb (n_key n) k) c) as [n|] eqn:E.
  - apply find_some in E. destruct E as [Hin E]. apply key_eqb_eq in E. exists n. auto.
  - exfalso. apply in_map_iff in H. destruct H as (n & Hk & Hn). pose proof (find_none _ _ E n Hn) as H. cbv beta in H.
    rewrite Hk, key_eqb_refl in H. discriminate.
Qed.
Lemma find_node_none k c : ~ In k (cat_keys c) -> find_node k c = None.
Proof.
  intros H. unfold find_node. destruct (find (fun n => key_eqb (n_key n) k) c) as [n|] eqn:E; [|reflexivity].
  exfalso. apply find_some in E. destruct E as [Hin E]. apply key_eqb_eq in E. apply H. rewrite <- E. apply in_map, Hin.
Qed.

Lemma section_keys_sub d p k : length p = 2 ^ d -> In k (concat (section_keys d p)) -> is_sub d p k.
Proof.
  intros Hp Hk. apply in_section_keys in Hk. destruct Hk as (i & Hi & s & Hs & ->). apply in_seq in Hi.
  destruct (sec_in_sections_length d i s p) as (L & F & Ls); [lia|assumption|assumption|].
  exists s. rewrite F. auto.
Qed.

Theorem cat_lookup_spec c q : valid_patch q -> (forall k, is_sub (p_dim q) (p_corners q) k -> In k (cat_keys c)) ->
  exists n, cat_lookup c q = Some n /\ n_key n = patch_key q /\ In n c.
Proof.
  intros Hq Hall. unfold cat_lookup.
  assert (E : forallb (fun k => has_node k c) (concat (section_keys (p_dim q) (p_corners q))) = true).
  { apply forallb_forall. intros k Hk. apply has_node_in, Hall. apply section_keys_sub; assumption. }
  rewrite E. apply find_node_some. apply Hall. apply is_sub_self. exact Hq.
Qed.

(* 1b. after adding a patch, the patch and each of its sub-entities (the section s, of any dimension) is found *)
Theorem lookup_after_add c p s : valid_patch p -> length s = p_dim p ->
  exists n, cat_lookup (cat_add c p) (mkPatch (nfree s) (sec s (p_corners p))) = Some n /\
            n_key n = pkey (nfree s) (sec s (p_corners p)) /\ In n (cat_add c p).
Proof.
  intros Hp Ls. apply (cat_lookup_spec (cat_add c p) (mkPatch (nfree s) (sec s (p_corners p)))).
  - unfold valid_patch. cbn [p_dim p_corners]. apply sec_length. rewrite Ls. exact Hp.
  - cbn [p_dim p_corners]. intros k Hk. apply cat_add_keys; [exact Hp|]. right. apply (is_sub_trans _ _ s); assumption.
Qed.
(* an unknown corner set is not found *)
Theorem lookup_unknown c q : ~ In (patch_key q) (cat_keys c) -> cat_lookup c q = None.
Proof. intros H. unfold cat_lookup. rewrite (find_node_none _ _ H). destruct (forallb _ _); reflexivity. Qed.

Lemma cat_add_nodup c p : valid_patch p -> NoDup (cat_keys c) -> NoDup (cat_keys (cat_add c p)).
Proof.
  intros Hp H. unfold cat_add. apply (add_fuel_ind (fun c => NoDup (cat_keys c))); [apply Nat.le_refl|exact Hp| |exact H].
  intros s c' _ _ Hc'. apply keys_nodup_ensure, Hc'.
Qed.

Lemma cat_add_all_keys : forall ps c, Forall valid_patch ps ->
  forall k, In k (cat_keys (cat_add_all c ps)) <-> In k (cat_keys c) \/ exists p, In p ps /\ is_sub (p_dim p) (p_corners p) k.
Proof.
  intros ps c Hv k. unfold cat_add_all. apply (fold_keys cat_add (fun p k => is_sub (p_dim p) (p_corners p) k)).
  intros c' p Hp k'. apply cat_add_keys. rewrite Forall_forall in Hv. apply Hv, Hp.
Qed.
Lemma cat_add_all_nodup ps c : Forall valid_patch ps -> NoDup (cat_keys c) -> NoDup (cat_keys (cat_add_all c ps)).
Proof.
  intros Hv H. unfold cat_add_all. apply (fold_inv cat_add (fun c => NoDup (cat_keys c))); [|exact H].
  intros c' p Hp Hc'. apply cat_add_nodup; [|exact Hc']. rewrite Forall_forall in Hv. apply Hv, Hp.
Qed.

Lemma cat_nodes_length c d : length (cat_nodes c d) = length (filter (fun k : key => fst k =? d) (cat_keys c)).
Proof.
  unfold cat_nodes, cat_keys. induction c as [|n c IH]; [reflexivity|]. cbn [filter map].
  destruct (fst (n_key n) =? d); cbn [length]; rewrite IH; reflexivity.
Qed.

(* two catalogues with the same key set have the same number of nodes in every dimension *)
Lemma same_keys_same_counts c c' : NoDup (cat_keys c) -> NoDup (cat_keys c') ->
  (forall k, In k (cat_keys c) <-> In k (cat_keys c')) ->
  Permutation (cat_keys c) (cat_keys c') /\ forall d, length (cat_nodes c d) = length (cat_nodes c' d).
Proof.
  intros N N' H. split; [apply NoDup_Permutation; assumption|]. intros d. rewrite !cat_nodes_length.
  apply Permutation_length. apply NoDup_Permutation; try (apply NoDup_filter; assumption).
  intros k. rewrite !filter_In, H. tauto.
Qed.

(* the executable list of all sub-cube keys of a patch *)
Definition all_subkeys (p : patch) : list key :=
  map (fun s => pkey (nfree s) (sec s (p_corners p))) (all_sections (p_dim p)).
Lemma in_all_sections d s : In s (all_sections d) <-> length s = d.
Proof.
  unfold all_sections. rewrite in_flat_map. split.
  - intros (i & Hi & Hs). apply in_seq in Hi. apply in_sections in Hs; [tauto|lia].
  - intros L. exists (nfree s). pose proof (nfree_le s). split; [apply in_seq; lia|apply in_sections; [lia|auto]].
Qed.
Lemma in_all_subkeys p k : In k (all_subkeys p) <-> is_sub (p_dim p) (p_corners p) k.
Proof.
  unfold all_subkeys, is_sub. rewrite in_map_iff. split.
  - intros (s & <- & Hs). apply in_all_sections in Hs. exists s. auto.
  - intros (s & Ls & ->). exists s. split; [reflexivity|apply in_all_sections, Ls].
Qed.

(* 2a. one node per distinct vertex, edge, face, ... : the nodes are duplicate-free and they are exactly the
       sub-cubes of the patches, so the number of nodes of dimension d is the number of distinct d-cells *)
Theorem nodes_are_cells ps : Forall valid_patch ps ->
  let c := cat_add_all cat_empty ps in
  NoDup (cat_keys c) /\
  (forall k, In k (cat_keys c) <-> In k (flat_map all_subkeys ps)) /\
  forall d, length (cat_nodes c d) = length (nodup key_dec (filter (fun k : key => fst k =? d) (flat_map all_subkeys ps))).
Proof.
  intros Hv c.
  assert (N : NoDup (cat_keys c)) by (apply cat_add_all_nodup; [exact Hv|constructor]).
  assert (S : forall k, In k (cat_keys c) <-> In k (flat_map all_subkeys ps)).
  { intros k. unfold c. rewrite (cat_add_all_keys ps cat_empty Hv k), in_flat_map. cbn [cat_empty cat_keys map In]. split.
    - intros [[]|(p & Hp & Hk)]. exists p. split; [exact Hp|apply in_all_subkeys, Hk].
    - intros (p & Hp & Hk). right. exists p. split; [exact Hp|apply in_all_subkeys, Hk]. }
  repeat split; try assumption; try apply S. intros d. rewrite cat_nodes_length. apply Permutation_length.
  apply NoDup_Permutation; [apply NoDup_filter, N|apply NoDup_nodup|].
  intros k. rewrite nodup_In, !filter_In, S. tauto.
Qed.

(* 2b. the order in which the patches are added does not matter *)
Theorem order_independent ps ps' : Permutation ps ps' -> Forall valid_patch ps ->
  let c := cat_add_all cat_empty ps in let c' := cat_add_all cat_empty ps' in
  (forall k, In k (cat_keys c) <-> In k (cat_keys c')) /\
  Permutation (cat_keys c) (cat_keys c') /\
  forall d, length (cat_nodes c d) = length (cat_nodes c' d).
Proof.
  intros HP Hv c c'. assert (Hv' : Forall valid_patch ps') by (apply (Permutation_Forall HP), Hv).
  assert (S : forall k, In k (cat_keys c) <-> In k (cat_keys c')).
  { intros k. unfold c, c'. rewrite (cat_add_all_keys ps _ Hv k), (cat_add_all_keys ps' _ Hv' k).
    split; (intros [H|(p & Hp & Hk)]; [left; exact H|right; exists p; split; [|exact Hk]]).
    - apply (Permutation_in _ HP), Hp.
    - apply (Permutation_in _ (Permutation_sym HP)), Hp. }
  split; [exact S|]. apply same_keys_same_counts; [apply cat_add_all_nodup; [exact Hv|constructor]|apply cat_add_all_nodup; [exact Hv'|constructor]|exact S].
Qed.

(* ====================================================================================================== *)
(* E. re-oriented copies                                                                                   *)
(* ====================================================================================================== *)
Lemma allb_length d : length (allb d) = 2 ^ d.
Proof.
  induction d as [|d IH]; [reflexivity|]. cbn [allb]. rewrite pow2_S, <- IH. generalize (allb d). intros L.
  induction L as [|m L IHL]; [reflexivity|]. cbn [flat_map app length] in *. lia.
Qed.

Lemma corner_map_allb : forall d (f : list bool -> nat) b, length b = d -> corner (map f (allb d)) b = f b.
Proof.
  induction d as [|d IH]; intros f b H.
  - destruct b; [reflexivity|discriminate].
  - destruct b as [|e b]; [discriminate|]. injection H as H. cbn [allb].
    assert (EO : forall L : list (list bool),
               evens (map f (flat_map (fun m => [false :: m; true :: m]) L)) = map (fun m => f (false :: m)) L /\
               odds (map f (flat_map (fun m => [false :: m; true :: m]) L)) = map (fun m => f (true :: m)) L).
    { induction L as [|m L [IHe IHo]]; [split; reflexivity|]. cbn [flat_map app map]. rewrite evens_cons2, odds_cons2, IHe, IHo. split; reflexivity. }
    destruct (EO (allb d)) as [Ee Eo]. destruct e; cbn [corner]; [rewrite Eo; exact (IH (fun m => f (true :: m)) b H)|rewrite Ee; exact (IH (fun m => f (false :: m)) b H)].
Qed.

Lemma matches_nth : forall s b, matches s b <->
  length b = length s /\ forall k, k < length s -> nth k s None = None \/ nth k s None = Some (nth k b false).
Proof.
  induction s as [|x s IH]; intros [|y b]; cbn [matches length].
  - split; [intros _; split; [reflexivity|intros k Hk; lia]|auto].
  - split; [intros []|intros [H _]; discriminate].
  - split; [intros []|intros [H _]; discriminate].
  - rewrite IH. split.
    + intros [Hx [L Hn]]. split; [lia|]. intros [|k] Hk; cbn [nth]; [exact Hx|apply Hn; lia].
    + intros [L Hn]. split; [apply (Hn 0); lia|]. split; [lia|]. intros k Hk. apply (Hn (S k)). lia.
Qed.

Lemma index_of_nth : forall l k, NoDup l -> k < length l -> index_of (nth k l 0) l = k.
Proof.
  induction l as [|a l IH]; intros k Hn Hk; cbn [length] in Hk; [lia|]. inversion Hn as [|? ? Ha Hl]; subst.
  destruct k as [|k]; cbn [nth index_of]; [rewrite Nat.eqb_refl; reflexivity|].
  destruct (nth k l 0 =? a) eqn:E.
  - apply Nat.eqb_eq in E. exfalso. apply Ha. rewrite <- E. apply nth_In. lia.
  - f_equal. apply IH; [exact Hl|lia].
Qed.
Lemma nth_index_of : forall l e, In e l -> nth (index_of e l) l 0 = e /\ index_of e l < length l.
Proof.
  induction l as [|a l IH]; intros e H; [destruct H|]. cbn [index_of]. destruct (e =? a) eqn:E.
  - apply Nat.eqb_eq in E. subst. cbn. split; [reflexivity|lia].
  - apply Nat.eqb_neq in E. destruct H as [H|H]; [congruence|]. destruct (IH e H) as [H1 H2]. cbn [nth length]. split; [exact H1|lia].
Qed.

Lemma signed_perm_length d o : signed_perm d o -> length (o_perm o) = d /\ Permutation (o_perm o) (seq 0 d).
Proof.
  intros (Hn & Hin & _).
  assert (P : Permutation (o_perm o) (seq 0 d)).
  { apply NoDup_Permutation; [exact Hn|apply seq_NoDup|]. intros x. rewrite Hin, in_seq. lia. }
  split; [|exact P]. rewrite (Permutation_length P). apply seq_length.
Qed.
Lemma signed_perm_lt d o k : signed_perm d o -> k < d -> nth k (o_perm o) 0 < d.
Proof. intros H Hk. destruct (signed_perm_length d o H) as [L _]. destruct H as (_ & Hin & _). apply Hin, nth_In. lia. Qed.

Lemma obits_length o b : length (obits o b) = length (o_perm o).
Proof. unfold obits. rewrite map_length, seq_length. reflexivity. Qed.
Lemma obits_nth o b k : k < length (o_perm o) ->
  nth k (obits o b) false = xorb (nth (nth k (o_perm o) 0) b false) (nth k (o_flip o) false).
Proof. intros Hk. unfold obits. exact (nth_map_seq_nat (fun k => xorb (nth (nth k (o_perm o) 0) b false) (nth k (o_flip o) false)) _ k false Hk). Qed.
Lemma omap_length o s : length (omap_section o s) = length (o_perm o).
Proof. unfold omap_section. rewrite map_length, seq_length. reflexivity. Qed.
Lemma omap_nth o s k : k < length (o_perm o) ->
  nth k (omap_section o s) None = match nth (nth k (o_perm o) 0) s None with
                                 | None => None | Some e => Some (xorb e (nth k (o_flip o) false)) end.
Proof. intros Hk. unfold omap_section.
  exact (nth_map_seq_nat (fun d => match nth (nth d (o_perm o) 0) s None with None => None | Some e => Some (xorb e (nth d (o_flip o) false)) end) _ k None Hk). Qed.

Lemma matches_omap d o s b : signed_perm d o -> length s = d -> matches s b -> matches (omap_section o s) (obits o b).
Proof.
  intros Ho Ls Hm. destruct (signed_perm_length d o Ho) as [Lp _]. apply matches_nth in Hm. destruct Hm as [Lb Hn].
  apply matches_nth. rewrite obits_length, omap_length. split; [reflexivity|]. intros k Hk.
  rewrite omap_nth, obits_nth by exact Hk. rewrite Lp in Hk. pose proof (signed_perm_lt d o k Ho Hk) as Hpk.
  destruct (Hn (nth k (o_perm o) 0)) as [E|E]; [lia|rewrite E; left; reflexivity|rewrite E; right; reflexivity].
Qed.

Lemma matches_omap_inv d o s b' : signed_perm d o -> length s = d -> matches (omap_section o s) b' ->
  exists b, matches s b /\ obits o b = b'.
Proof.
  intros Ho Ls Hm. destruct (signed_perm_length d o Ho) as [Lp _]. pose proof Ho as (Hnd & Hin & Lf).
  apply matches_nth in Hm. rewrite omap_length, Lp in Hm. destruct Hm as [Lb' Hn].
  set (bf := fun e => xorb (nth (index_of e (o_perm o)) b' false) (nth (index_of e (o_perm o)) (o_flip o) false)).
  exists (map bf (seq 0 d)). split.
  - apply matches_nth. rewrite map_length, seq_length. split; [auto|]. rewrite Ls. intros e He.
    rewrite (nth_map_seq_nat bf d e false He). unfold bf.
    destruct (nth_index_of (o_perm o) e (proj2 (Hin e) He)) as [E1 E2]. rewrite Lp in E2.
    specialize (Hn _ E2). rewrite omap_nth in Hn by lia. rewrite E1 in Hn.
    destruct (nth e s None) as [x|]; [right|left; reflexivity]. destruct Hn as [Hn|Hn]; [discriminate|]. injection Hn as Hn.
    rewrite <- Hn. f_equal. destruct x, (nth (index_of e (o_perm o)) (o_flip o) false); reflexivity.
  - apply (nth_ext _ _ false false); [rewrite obits_length; lia|]. rewrite obits_length, Lp. intros k Hk.
    rewrite obits_nth by lia. pose proof (signed_perm_lt d o k Ho Hk) as Hpk.
    rewrite (nth_map_seq_nat bf d _ false Hpk). unfold bf. rewrite index_of_nth by (try assumption; lia).
    destruct (nth k b' false), (nth k (o_flip o) false); reflexivity.
Qed.

Lemma Permutation_filter {A} (f : A -> bool) l l' : Permutation l l' -> Permutation (filter f l) (filter f l').
Proof.
  induction 1 as [|x l l' H IH|x y l|l l' l'' H1 IH1 H2 IH2]; cbn [filter].
  - constructor.
  - destruct (f x); [constructor|]; exact IH.
  - destruct (f x), (f y); try constructor; apply Permutation_refl.
  - etransitivity; eassumption.
Qed.
Lemma filter_map_comm {A B} (f : B -> bool) (g : A -> B) l : filter f (map g l) = map g (filter (fun x => f (g x)) l).
Proof. induction l as [|a l IH]; [reflexivity|]. cbn [map filter]. destruct (f (g a)); cbn [map]; rewrite IH; reflexivity. Qed.
Lemma map_nth_seq {A} (l : list A) dflt : map (fun k => nth k l dflt) (seq 0 (length l)) = l.
Proof.
  apply (nth_ext _ _ dflt dflt); [rewrite map_length, seq_length; reflexivity|]. rewrite map_length, seq_length. intros k Hk.
  exact (nth_map_seq_nat (fun k => nth k l dflt) _ k dflt Hk).
Qed.

Lemma length_filter_nth {A} (h : A -> bool) (l : list A) dflt :
  length (filter (fun k => h (nth k l dflt)) (seq 0 (length l))) = length (filter h l).
Proof.
  transitivity (length (filter h (map (fun k => nth k l dflt) (seq 0 (length l))))).
  - rewrite filter_map_comm, map_length. reflexivity.
  - rewrite map_nth_seq. reflexivity.
Qed.

Lemma nfree_omap d o s : signed_perm d o -> length s = d -> nfree (omap_section o s) = nfree s.
Proof.
  intros Ho Ls. destruct (signed_perm_length d o Ho) as [Lp HP].
  transitivity (length (filter (fun k => (fun e => is_free (nth e s None)) (nth k (o_perm o) 0)) (seq 0 (length (o_perm o))))).
  - unfold nfree, omap_section. rewrite filter_map_comm, map_length. f_equal. apply filter_ext.
    intros k. destruct (nth (nth k (o_perm o) 0) s None); reflexivity.
  - rewrite (length_filter_nth (fun e => is_free (nth e s None)) (o_perm o) 0).
    rewrite (Permutation_length (Permutation_filter _ _ _ HP)). rewrite <- Ls.
    apply (length_filter_nth is_free s None).
Qed.

Lemma omap_surj d o t : signed_perm d o -> length t = d -> exists s, length s = d /\ omap_section o s = t.
Proof.
  intros Ho Lt. destruct (signed_perm_length d o Ho) as [Lp _]. pose proof Ho as (Hnd & Hin & Lf).
  set (sf := fun e => match nth (index_of e (o_perm o)) t None with
                      | None => None | Some x => Some (xorb x (nth (index_of e (o_perm o)) (o_flip o) false)) end).
  exists (map sf (seq 0 d)). split; [rewrite map_length, seq_length; reflexivity|].
  apply (nth_ext _ _ None None); [rewrite omap_length; lia|]. rewrite omap_length, Lp. intros k Hk.
  rewrite omap_nth by lia. pose proof (signed_perm_lt d o k Ho Hk) as Hpk.
  rewrite (nth_map_seq_nat sf d _ None Hpk). unfold sf. rewrite index_of_nth by (try assumption; lia).
  destruct (nth k t None) as [x|]; [|reflexivity]. f_equal. destruct x, (nth k (o_flip o) false); reflexivity.
Qed.

Lemma reorient_length d o c : signed_perm d o -> length (reorient o c) = 2 ^ d.
Proof. intros Ho. destruct (signed_perm_length d o Ho) as [Lp _]. unfold reorient. rewrite map_length, allb_length, Lp. reflexivity. Qed.

(* the section s of the copy is the section map_section(s) of the original *)
Lemma sec_reorient_points d o c s : signed_perm d o -> length c = 2 ^ d -> length s = d ->
  forall x, In x (sec s (reorient o c)) <-> In x (sec (omap_section o s) c).
Proof.
  intros Ho Hc Ls x. destruct (signed_perm_length d o Ho) as [Lp _].
  rewrite sec_points by (rewrite Ls; apply reorient_length, Ho).
  rewrite sec_points by (rewrite omap_length, Lp; exact Hc). split.
  - intros (b & Hm & ->). exists (obits o b). split; [apply (matches_omap d); assumption|].
    unfold reorient. apply (corner_map_allb _ (fun b => corner c (obits o b))). rewrite (matches_length _ _ Hm). lia.
  - intros (b' & Hm & ->). destruct (matches_omap_inv d o s b' Ho Ls Hm) as (b & Hb & <-). exists b. split; [exact Hb|].
    symmetry. unfold reorient. apply (corner_map_allb _ (fun b => corner c (obits o b))). rewrite (matches_length _ _ Hb). lia.
Qed.

Lemma is_sub_reorient d o c : signed_perm d o -> length c = 2 ^ d -> forall k, is_sub d (reorient o c) k <-> is_sub d c k.
Proof.
  intros Ho Hc k. destruct (signed_perm_length d o Ho) as [Lp _].
  assert (E : forall s, length s = d -> pkey (nfree s) (sec s (reorient o c)) = pkey (nfree (omap_section o s)) (sec (omap_section o s) c)).
  { intros s Ls. unfold pkey. rewrite (nfree_omap d o s Ho Ls). f_equal. apply canon_ext. apply (sec_reorient_points d); assumption. }
  split.
  - intros (s & Ls & ->). exists (omap_section o s). rewrite omap_length. split; [exact Lp|apply E, Ls].
  - intros (t & Lt & ->). destruct (omap_surj d o t Ho Lt) as (s & Ls & <-). exists s. split; [exact Ls|symmetry; apply E, Ls].
Qed.

Lemma reorient_valid o p : valid_patch p -> signed_perm (p_dim p) o -> valid_patch (preorient o p).
Proof. intros _ Ho. unfold valid_patch, preorient. cbn [p_dim p_corners]. apply reorient_length, Ho. Qed.

Lemma reorient_same_corners d o c : signed_perm d o -> length c = 2 ^ d -> forall x, In x (reorient o c) <-> In x c.
Proof.
  intros Ho Hc x. destruct (signed_perm_length d o Ho) as [Lp _].
  pose proof (sec_reorient_points d o c (repeat None d) Ho Hc (repeat_length _ _) x) as H.
  rewrite sec_allfree in H by (apply reorient_length, Ho).
  assert (E : omap_section o (repeat None d) = repeat None d).
  { pose proof (nfree_omap d o (repeat None d) Ho (repeat_length _ _)) as F. rewrite nfree_repeat in F.
    pose proof (allfree_char (omap_section o (repeat None d))) as A. rewrite omap_length, Lp in A. apply A, F. }
  rewrite E, sec_allfree in H by exact Hc. exact H.
Qed.
Lemma reorient_key o p : valid_patch p -> signed_perm (p_dim p) o -> patch_key (preorient o p) = patch_key p.
Proof. intros Hp Ho. unfold patch_key, preorient, pkey. cbn [p_dim p_corners]. f_equal. apply canon_ext. apply (reorient_same_corners (p_dim p)); assumption. Qed.

(* 3a. a re-oriented copy has exactly the same sub-entities; adding it instead of the patch gives the same nodes *)
Theorem orientation_independent c p o : valid_patch p -> signed_perm (p_dim p) o ->
  (forall k, In k (all_subkeys (preorient o p)) <-> In k (all_subkeys p)) /\
  (forall k, In k (cat_keys (cat_add c (preorient o p))) <-> In k (cat_keys (cat_add c p))).
Proof.
  intros Hp Ho. pose proof (reorient_valid o p Hp Ho) as Hq.
  assert (S : forall k, is_sub (p_dim (preorient o p)) (p_corners (preorient o p)) k <-> is_sub (p_dim p) (p_corners p) k)
    by (intros k; apply (is_sub_reorient (p_dim p)); assumption).
  split; intros k; [rewrite !in_all_subkeys; apply S|]. rewrite !cat_add_keys by assumption. rewrite S. tauto.
Qed.

(* 3b. once a patch is known, adding any re-oriented copy changes nothing, and looking the copy up returns the
       node of the patch *)
Lemma cat_lookup_eq c q : valid_patch q -> (forall k, is_sub (p_dim q) (p_corners q) k -> In k (cat_keys c)) ->
  cat_lookup c q = find_node (patch_key q) c.
Proof.
  intros Hq Hall. unfold cat_lookup.
  assert (E : forallb (fun k => has_node k c) (concat (section_keys (p_dim q) (p_corners q))) = true).
  { apply forallb_forall. intros k Hk. apply has_node_in, Hall. apply section_keys_sub; assumption. }
  rewrite E. reflexivity.
Qed.
Theorem reoriented_copy_known c p o : valid_patch p -> signed_perm (p_dim p) o ->
  (forall k, is_sub (p_dim p) (p_corners p) k -> In k (cat_keys c)) ->
  cat_add c (preorient o p) = c /\
  exists n, cat_lookup c (preorient o p) = Some n /\ cat_lookup c p = Some n /\ n_key n = patch_key p /\ In n c.
Proof.
  intros Hp Ho Hall. pose proof (reorient_valid o p Hp Ho) as Hq.
  assert (Hall' : forall k, is_sub (p_dim (preorient o p)) (p_corners (preorient o p)) k -> In k (cat_keys c)).
  { intros k Hk. apply Hall. apply (is_sub_reorient (p_dim p) o); assumption. }
  split; [apply add_known; assumption|].
  rewrite (cat_lookup_eq c _ Hq Hall'), (cat_lookup_eq c p Hp Hall), (reorient_key o p Hp Ho).
  destruct (find_node_some (patch_key p) c) as (n & E & K & I); [apply Hall, is_sub_self, Hp|]. exists n. auto.
Qed.
Corollary lookup_reoriented_after_add c p o : valid_patch p -> signed_perm (p_dim p) o ->
  cat_add (cat_add c p) (preorient o p) = cat_add c p /\
  exists n, cat_lookup (cat_add c p) (preorient o p) = Some n /\ cat_lookup (cat_add c p) p = Some n /\ n_key n = patch_key p.
Proof.
  intros Hp Ho. destruct (reoriented_copy_known (cat_add c p) p o Hp Ho) as (E & n & H1 & H2 & H3 & _).
  - intros k Hk. apply cat_add_keys; auto.
  - split; [exact E|]. exists n. auto.
Qed.

(* 3c. any order AND any orientations *)
Definition reoriented (p q : patch) : Prop := exists o, signed_perm (p_dim p) o /\ q = preorient o p.
Theorem order_orientation_independent ps qs ps' : Forall valid_patch ps -> Forall2 reoriented ps qs -> Permutation qs ps' ->
  let c := cat_add_all cat_empty ps in let c' := cat_add_all cat_empty ps' in
  (forall k, In k (cat_keys c) <-> In k (cat_keys c')) /\
  Permutation (cat_keys c) (cat_keys c') /\
  forall d, length (cat_nodes c d) = length (cat_nodes c' d).
Proof.
  intros Hv HR HP c c'.
  assert (Hvq : Forall valid_patch qs).
  { clear HP c c'. induction HR as [|p q ps qs (o & Ho & ->) HR IH]; [constructor|]. inversion Hv; subst.
    constructor; [apply reorient_valid; assumption|apply IH; assumption]. }
  assert (Hv' : Forall valid_patch ps') by (apply (Permutation_Forall HP), Hvq).
  assert (SQ : forall k, (exists p, In p ps /\ is_sub (p_dim p) (p_corners p) k) <-> (exists q, In q qs /\ is_sub (p_dim q) (p_corners q) k)).
  { clear HP c c' Hvq Hv'. induction HR as [|p q ps qs (o & Ho & ->) HR IH]; intros k.
    - split; intros (x & [] & _).
    - inversion Hv as [|? ? Hp Hps]; subst. specialize (IH Hps k).
      pose proof (is_sub_reorient (p_dim p) o (p_corners p) Ho Hp k) as E. split.
      + intros (x & [<-|Hx] & Hk); [exists (preorient o p); split; [left; reflexivity|apply E, Hk]|].
        destruct (proj1 IH (ex_intro _ x (conj Hx Hk))) as (y & Hy & Hk'). exists y. split; [right; exact Hy|exact Hk'].
      + intros (y & [<-|Hy] & Hk); [exists p; split; [left; reflexivity|apply E, Hk]|].
        destruct (proj2 IH (ex_intro _ y (conj Hy Hk))) as (x & Hx & Hk'). exists x. split; [right; exact Hx|exact Hk']. }
  assert (S : forall k, In k (cat_keys c) <-> In k (cat_keys c')).
  { intros k. unfold c, c'. rewrite (cat_add_all_keys ps _ Hv k), (cat_add_all_keys ps' _ Hv' k), SQ.
    split; (intros [H|(p & Hp & Hk)]; [left; exact H|right; exists p; split; [|exact Hk]]).
    - apply (Permutation_in _ HP), Hp.
    - apply (Permutation_in _ (Permutation_sym HP)), Hp. }
  split; [exact S|]. apply same_keys_same_counts; [apply cat_add_all_nodup; [exact Hv|constructor]|apply cat_add_all_nodup; [exact Hv'|constructor]|exact S].
Qed.

(* ====================================================================================================== *)
(* F. lower / higher neighbours, boundary                                                                  *)
(* ====================================================================================================== *)
(* the effect of all the assign_higher calls of one node creation, in closed form *)
Definition bump (new : key) (L : list key) (n : node) : node :=
  mkNode (n_key n) (n_lower n) (n_higher n ++ repeat new (count_occ key_dec L (n_key n))).

Lemma assign_fold_map new : forall L c, fold_left (assign_higher new) L c = map (bump new L) c.
Proof.
  induction L as [|k L IH]; intros c; cbn [fold_left].
  - rewrite <- (map_id c) at 1. apply map_ext. intros [kk lo hi]. unfold bump. cbn. rewrite app_nil_r. reflexivity.
  - rewrite IH. unfold assign_higher. rewrite map_map. apply map_ext. intros n. unfold bump. cbn [count_occ].
    destruct (key_eqb (n_key n) k) eqn:E.
    + apply key_eqb_eq in E. subst k. cbn [n_key n_lower n_higher]. destruct (key_dec (n_key n) (n_key n)) as [_|C]; [|congruence].
      rewrite <- app_assoc. reflexivity.
    + destruct (key_dec k (n_key n)) as [C|_]; [subst k; rewrite key_eqb_refl in E; discriminate|reflexivity].
Qed.

Lemma find_node_app h a b : find_node h (a ++ b) = match find_node h a with Some m => Some m | None => find_node h b end.
Proof. unfold find_node. induction a as [|n a IH]; [reflexivity|]. cbn [app find]. destruct (key_eqb (n_key n) h); [reflexivity|exact IH]. Qed.
Lemma find_node_map_bump h k L c : find_node h (map (bump k L) c) = option_map (bump k L) (find_node h c).
Proof.
  unfold find_node. induction c as [|n c IH]; [reflexivity|]. cbn [map find]. cbn [bump n_key].
  destruct (key_eqb (n_key n) h); [reflexivity|exact IH].
Qed.
Lemma find_node_in h c m : find_node h c = Some m -> In m c /\ n_key m = h.
Proof. unfold find_node. intros E. apply find_some in E. destruct E as [I E]. apply key_eqb_eq in E. auto. Qed.

(* the graph invariant: the higher list of n contains the node m exactly as many times as n occurs among the
   sections of m; lower nodes exist; one node per key *)
Definition hi_ok (c : catalogue) : Prop := forall n, In n c -> forall h,
  count_occ key_dec (n_higher n) h =
  match find_node h c with Some m => count_occ key_dec (concat (n_lower m)) (n_key n) | None => 0 end.
Definition lo_closed (c : catalogue) : Prop :=
  forall m, In m c -> forall x, In x (concat (n_lower m)) -> In x (cat_keys c).
Definition graph_ok (c : catalogue) : Prop := NoDup (cat_keys c) /\ hi_ok c /\ lo_closed c.
(* every node records the sections of the object that created it *)
Definition prov (Q : key -> list (list key) -> Prop) (c : catalogue) : Prop := forall m, In m c -> Q (n_key m) (n_lower m).

Lemma ensure_graph_ok d p c : graph_ok c -> (forall k, In k (concat (section_keys d p)) -> In k (cat_keys c)) ->
  graph_ok (ensure_node d p c).
Proof.
  intros (N & Hh & Hl) Hlow. pose proof (keys_nodup_ensure d p c N) as N'. pose proof (keys_ensure d p c) as K'.
  unfold ensure_node in *. cbv zeta in *. destruct (has_node (pkey d p) c) eqn:E; [repeat split; assumption|].
  apply has_node_false in E. set (k := pkey d p) in *. set (lows := section_keys d p) in *.
  rewrite assign_fold_map in *. set (L := concat lows) in *.
  assert (FN : forall h, find_node h (map (bump k L) c ++ [mkNode k lows []]) =
                         if key_dec h k then Some (mkNode k lows []) else option_map (bump k L) (find_node h c)).
  { intros h. rewrite find_node_app, find_node_map_bump. destruct (key_dec h k) as [->|Hne].
    - rewrite (find_node_none _ _ E). unfold find_node. cbn. rewrite key_eqb_refl. reflexivity.
    - destruct (find_node h c); [reflexivity|]. unfold find_node. cbn.
      destruct (key_eqb k h) eqn:E'; [apply key_eqb_eq in E'; congruence|reflexivity]. }
  split; [exact N'|]. split.
  - intros n' Hn' h. rewrite FN. apply in_app_iff in Hn'. destruct Hn' as [Hn'|[<-|[]]].
    + apply in_map_iff in Hn'. destruct Hn' as (n & <- & Hn). cbn [bump n_higher n_key]. rewrite count_occ_app.
      destruct (key_dec h k) as [->|Hne].
      * rewrite count_occ_repeat_eq by reflexivity. cbn [n_lower]. rewrite (Hh n Hn k), (find_node_none _ _ E). reflexivity.
      * rewrite count_occ_repeat_neq by exact Hne. rewrite Nat.add_0_r, (Hh n Hn h). destruct (find_node h c); reflexivity.
    + cbn [n_higher n_key count_occ]. destruct (key_dec h k) as [_|Hne].
      * cbn [n_lower]. symmetry. apply count_occ_not_In. intros Hin. apply E, Hlow, Hin.
      * destruct (find_node h c) as [m|] eqn:Em; [|reflexivity]. cbn [option_map bump n_lower]. symmetry.
        apply count_occ_not_In. intros Hin. apply E. apply find_node_in in Em. apply (Hl m); [apply Em|exact Hin].
  - intros m' Hm' x Hx. rewrite K'. apply in_app_iff. left. apply in_app_iff in Hm'. destruct Hm' as [Hm'|[<-|[]]].
    + apply in_map_iff in Hm'. destruct Hm' as (m & <- & Hm). apply (Hl m Hm x Hx).
    + apply Hlow, Hx.
Qed.

Lemma ensure_prov Q d p c : prov Q c -> Q (pkey d p) (section_keys d p) -> prov Q (ensure_node d p c).
Proof.
  intros HP HQ. unfold ensure_node. cbv zeta. destruct (has_node (pkey d p) c); [exact HP|].
  rewrite assign_fold_map. intros m Hm. apply in_app_iff in Hm. destruct Hm as [Hm|[<-|[]]]; [|exact HQ].
  apply in_map_iff in Hm. destruct Hm as (m0 & <- & Hm0). apply (HP m0 Hm0).
Qed.

Definition from_patches (ps : list patch) (k : key) (lo : list (list key)) : Prop :=
  exists p s, In p ps /\ length s = p_dim p /\ k = pkey (nfree s) (sec s (p_corners p)) /\
              lo = section_keys (nfree s) (sec s (p_corners p)).

(* 4a. the graph built by any sequence of additions *)
Theorem graph_invariants ps : Forall valid_patch ps ->
  let c := cat_add_all cat_empty ps in graph_ok c /\ prov (from_patches ps) c.
Proof.
  intros Hv c. unfold c, cat_add_all.
  apply (fold_inv cat_add (fun c => graph_ok c /\ prov (from_patches ps) c)).
  - intros c' p Hp HP. rewrite Forall_forall in Hv. unfold cat_add.
    apply (add_fuel_ind (fun c => graph_ok c /\ prov (from_patches ps) c)); [apply Nat.le_refl|apply Hv, Hp| |exact HP].
    intros s c'' Ls Hlow [G Pv]. split; [apply ensure_graph_ok; assumption|]. apply ensure_prov; [exact Pv|].
    exists p, s. auto.
  - split; [|intros m []]. split; [constructor|]. split; intros m [].
Qed.

(* the faces (sections of dimension d-1) of a patch, in the order of sections(d, d-1) *)
Definition face_keys (p : patch) : list key :=
  map (fun s => pkey (p_dim p - 1) (sec s (p_corners p))) (sections (p_dim p) (p_dim p - 1)).

Lemma count_section_keys d p k : fst k = d ->
  count_occ key_dec (concat (section_keys (S d) p)) k = count_occ key_dec (face_keys (mkPatch (S d) p)) k.
Proof.
  intros Hk. unfold section_keys, face_keys. cbn [p_dim p_corners]. replace (S d - 1) with d by lia. rewrite seq_S, map_app, concat_app, count_occ_app.
  cbn [map concat Nat.add]. rewrite app_nil_r.
  replace (count_occ key_dec (concat (map (fun i => map (fun s => pkey i (sec s p)) (sections (S d) i)) (seq 0 d))) k) with 0; [reflexivity|].
  symmetry. apply count_occ_not_In. intros H. apply in_concat in H. destruct H as (l & Hl & Hin).
  apply in_map_iff in Hl. destruct Hl as (i & <- & Hi). apply in_map_iff in Hin. destruct Hin as (s & <- & _).
  apply in_seq in Hi. cbn [pkey fst] in Hk. lia.
Qed.
Lemma section_keys_dim d p k : In k (concat (section_keys d p)) -> fst k < d.
Proof. intros H. apply in_section_keys in H. destruct H as (i & Hi & s & _ & ->). apply in_seq in Hi. cbn. lia. Qed.

(* geometrically equal patches have the same faces (true for re-oriented copies; excludes "twisted" copies, which
   the real catalogue stores as distinct nodes) *)
Definition same_faces (ps : list patch) : Prop :=
  forall p q, In p ps -> In q ps -> patch_key p = patch_key q -> forall k, In k (face_keys p) <-> In k (face_keys q).

Lemma filter_all {A} (f : A -> bool) : forall l, (forall x, In x l -> f x = true) -> filter f l = l.
Proof.
  induction l as [|a l IH]; intros H; [reflexivity|]. cbn [filter]. rewrite (H a (or_introl eq_refl)). f_equal.
  apply IH. intros x Hx. apply H. right; exact Hx.
Qed.

Section TopLevel.
  Variable ps : list patch.
  Variable D : nat.
  Hypothesis Hv : Forall valid_patch ps.
  Hypothesis HD : forall p, In p ps -> p_dim p = S D.
  Let c := cat_add_all cat_empty ps.

  Lemma top_node_patch m : In m c -> fst (n_key m) = S D ->
    exists q, In q ps /\ n_key m = patch_key q /\ n_lower m = section_keys (S D) (p_corners q).
  Proof.
    intros Hm Hdim. destruct (graph_invariants ps Hv) as [_ Pv]. destruct (Pv m Hm) as (q & s & Hq & Ls & Hk & Hlo).
    rewrite Hk in Hdim. cbn [pkey fst] in Hdim. rewrite (HD q Hq) in Ls. rewrite <- Ls in Hdim.
    pose proof (allfree_char s Hdim) as Es. rewrite Ls in Es, Hdim.
    assert (Hvq : length (p_corners q) = 2 ^ S D) by (rewrite Forall_forall in Hv; rewrite <- (HD q Hq); apply (Hv q Hq)).
    rewrite Es, nfree_repeat, sec_allfree in Hk, Hlo by exact Hvq.
    exists q. repeat split; try assumption. unfold patch_key. rewrite (HD q Hq). exact Hk.
  Qed.

  Lemma node_dim_le m : In m c -> fst (n_key m) <= S D.
  Proof.
    intros Hm. destruct (graph_invariants ps Hv) as [_ Pv]. destruct (Pv m Hm) as (q & s & Hq & Ls & Hk & _).
    rewrite Hk. cbn [pkey fst]. pose proof (nfree_le s). rewrite (HD q Hq) in Ls. lia.
  Qed.

  Lemma face_in_section_keys q k : In q ps -> fst k = D ->
    (In k (concat (section_keys (S D) (p_corners q))) <-> In k (face_keys q)).
  Proof.
    intros Hq Hk. rewrite (count_occ_In key_dec), (count_occ_In key_dec (face_keys q)), (count_section_keys D _ k Hk).
    destruct q as [dq cq]. cbn [p_corners]. pose proof (HD _ Hq) as E. cbn [p_dim] in E. subst dq. tauto.
  Qed.

  (* 4b. the higher neighbours of an interface are exactly the patches having it as a face *)
  Theorem higher_neighbours : same_faces ps ->
    forall n, In n c -> fst (n_key n) = D ->
    forall h, In h (n_higher n) <-> exists p, In p ps /\ h = patch_key p /\ In (n_key n) (face_keys p).
  Proof.
    intros SF n Hn Hdim h. destruct (graph_invariants ps Hv) as [(N & Hh & Hl) Pv]. fold c in N, Hh, Hl, Pv.
    rewrite (count_occ_In key_dec), (Hh n Hn h). split.
    - destruct (find_node h c) as [m|] eqn:Em; [|lia]. intros Hc. apply count_occ_In in Hc.
      apply find_node_in in Em. destruct Em as [Hm Hkm].
      assert (Hdm : fst (n_key m) = S D).
      { pose proof (node_dim_le m Hm). destruct (Pv m Hm) as (q & s & Hq & Ls & Hk & Hlo). rewrite Hlo in Hc.
        apply section_keys_dim in Hc. rewrite Hk. cbn [pkey fst]. rewrite Hk in H. cbn [pkey fst] in H. lia. }
      destruct (top_node_patch m Hm Hdm) as (q & Hq & Hkq & Hlo). exists q. split; [exact Hq|]. split; [congruence|].
      rewrite Hlo in Hc. apply (face_in_section_keys q _ Hq Hdim), Hc.
    - intros (p & Hp & -> & Hf).
      assert (Hin : In (patch_key p) (cat_keys c)).
      { unfold c. apply cat_add_all_keys; [exact Hv|]. right. exists p. split; [exact Hp|]. apply is_sub_self.
        rewrite Forall_forall in Hv. apply (Hv p Hp). }
      destruct (find_node_some _ _ Hin) as (m & Em & Hkm & Hm). rewrite Em.
      assert (Hdm : fst (n_key m) = S D) by (rewrite Hkm; cbn; apply HD, Hp).
      destruct (top_node_patch m Hm Hdm) as (q & Hq & Hkq & Hlo). rewrite Hlo. apply count_occ_In.
      apply (face_in_section_keys q _ Hq Hdim). apply (SF p q Hp Hq); [congruence|exact Hf].
  Qed.

  Lemma higher_dim n h : In n c -> fst (n_key n) = D -> In h (n_higher n) -> fst h = S D.
  Proof.
    intros Hn Hdim Hh'. destruct (graph_invariants ps Hv) as [(N & Hh & Hl) Pv]. fold c in N, Hh, Hl, Pv.
    apply (count_occ_In key_dec) in Hh'. rewrite (Hh n Hn h) in Hh'. destruct (find_node h c) as [m|] eqn:Em; [|lia].
    apply count_occ_In in Hh'. apply find_node_in in Em. destruct Em as [Hm Hkm].
    pose proof (node_dim_le m Hm). destruct (Pv m Hm) as (q & s & Hq & Ls & Hk & Hlo). rewrite Hlo in Hh'.
    apply section_keys_dim in Hh'. rewrite <- Hkm, Hk. rewrite Hk in H. cbn [pkey fst] in *. lia.
  Qed.

  Lemma higher_nodup : (forall p, In p ps -> NoDup (face_keys p)) -> forall n, In n c -> fst (n_key n) = D -> NoDup (n_higher n).
  Proof.
    intros NF n Hn Hdim. destruct (graph_invariants ps Hv) as [(N & Hh & Hl) Pv]. fold c in N, Hh, Hl, Pv.
    apply (NoDup_count_occ key_dec). intros h. rewrite (Hh n Hn h). destruct (find_node h c) as [m|] eqn:Em; [|lia].
    apply find_node_in in Em. destruct Em as [Hm Hkm].
    destruct (Nat.eq_dec (fst (n_key m)) (S D)) as [Hdm|Hdm].
    - destruct (top_node_patch m Hm Hdm) as (q & Hq & Hkq & Hlo). rewrite Hlo, (count_section_keys D _ _ Hdim).
      apply (NoDup_count_occ key_dec). pose proof (NF q Hq) as F. destruct q as [dq cq]. pose proof (HD _ Hq) as E.
      cbn [p_dim p_corners] in *. subst dq. exact F.
    - replace (count_occ key_dec (concat (n_lower m)) (n_key n)) with 0; [lia|]. symmetry. apply count_occ_not_In. intros Hin.
      pose proof (node_dim_le m Hm). destruct (Pv m Hm) as (q & s & Hq & Ls & Hk & Hlo). rewrite Hlo in Hin.
      apply section_keys_dim in Hin. rewrite Hk in H, Hdm. cbn [pkey fst] in *. lia.
  Qed.

  (* 4c. boundary() lists exactly the faces that belong to one patch only *)
  Theorem boundary_spec : same_faces ps -> (forall p, In p ps -> NoDup (face_keys p)) ->
    forall n, In n (cat_boundary c (S D)) <->
      In n c /\ fst (n_key n) = D /\
      exists p, In p ps /\ In (n_key n) (face_keys p) /\
                forall q, In q ps -> In (n_key n) (face_keys q) -> patch_key q = patch_key p.
  Proof.
    intros SF NF n. unfold cat_boundary, cat_nodes. replace (S D - 1) with D by lia. rewrite !filter_In, !Nat.eqb_eq.
    split.
    - intros [[Hn Hdim] H1]. split; [exact Hn|]. split; [exact Hdim|].
      assert (E : filter (fun h : nat * list nat => fst h =? S (fst (n_key n))) (n_higher n) = n_higher n).
      { apply filter_all. intros h Hh. apply Nat.eqb_eq. rewrite Hdim. apply (higher_dim n h Hn Hdim Hh). }
      unfold nhigher in H1. rewrite E in H1. destruct (n_higher n) as [|h [|h' l]] eqn:EH; cbn [length] in H1; try lia.
      assert (Hh : In h (n_higher n)) by (rewrite EH; left; reflexivity).
      apply (higher_neighbours SF n Hn Hdim) in Hh. destruct Hh as (p & Hp & -> & Hf). exists p. split; [exact Hp|]. split; [exact Hf|].
      intros q Hq Hfq. assert (Hq' : In (patch_key q) (n_higher n)) by (apply (higher_neighbours SF n Hn Hdim); exists q; auto).
      rewrite EH in Hq'. destruct Hq' as [Hq'|[]]. auto.
    - intros (Hn & Hdim & p & Hp & Hf & Hu). split; [auto|].
      assert (E : filter (fun h : nat * list nat => fst h =? S (fst (n_key n))) (n_higher n) = n_higher n).
      { apply filter_all. intros h Hh. apply Nat.eqb_eq. rewrite Hdim. apply (higher_dim n h Hn Hdim Hh). }
      unfold nhigher. rewrite E. pose proof (higher_nodup NF n Hn Hdim) as ND.
      assert (Hin : In (patch_key p) (n_higher n)) by (apply (higher_neighbours SF n Hn Hdim); exists p; auto).
      assert (Hall : forall h, In h (n_higher n) -> h = patch_key p).
      { intros h Hh. apply (higher_neighbours SF n Hn Hdim) in Hh. destruct Hh as (q & Hq & -> & Hfq). apply Hu; assumption. }
      destruct (n_higher n) as [|h [|h' l]]; [destruct Hin|reflexivity|]. exfalso.
      inversion ND as [|? ? Hnot _]; subst. apply Hnot. left. rewrite (Hall h), (Hall h'); [reflexivity|right; left; reflexivity|left; reflexivity].
  Qed.
End TopLevel.

(* ====================================================================================================== *)
(* G. lattice blocks: the node counts are those of the cell complex, for all sizes                         *)
(* ====================================================================================================== *)
Lemma nodup_app {A} (a b : list A) : NoDup a -> NoDup b -> (forall x, In x a -> ~ In x b) -> NoDup (a ++ b).
Proof.
  induction a as [|x a IH]; intros Ha Hb Hd; [exact Hb|]. inversion Ha as [|? ? Hx Ha']; subst. cbn [app]. constructor.
  - rewrite in_app_iff. intros [H|H]; [exact (Hx H)|]. apply (Hd x); [left; reflexivity|exact H].
  - apply IH; [exact Ha'|exact Hb|]. intros y Hy. apply Hd. right; exact Hy.
Qed.
Lemma NoDup_flat_map {A B} (g : A -> list B) : forall l, NoDup l -> (forall x, In x l -> NoDup (g x)) ->
  (forall x y, In x l -> In y l -> x <> y -> forall z, In z (g x) -> ~ In z (g y)) -> NoDup (flat_map g l).
Proof.
  induction l as [|a l IH]; intros Hl Hg Hd; [constructor|]. inversion Hl as [|? ? Ha Hl']; subst. cbn [flat_map].
  apply nodup_app.
  - apply Hg. left; reflexivity.
  - apply IH; [exact Hl'|intros x Hx; apply Hg; right; exact Hx|]. intros x y Hx Hy. apply Hd; right; assumption.
  - intros z Hz Hz'. apply in_flat_map in Hz'. destruct Hz' as (y & Hy & Hzy).
    refine (Hd a y (or_introl eq_refl) (or_intror Hy) _ z Hz Hzy). intros ->. exact (Ha Hy).
Qed.

Lemma NoDup_map_in {A B} (f : A -> B) : forall l, (forall x y, In x l -> In y l -> f x = f y -> x = y) -> NoDup l -> NoDup (map f l).
Proof.
  induction l as [|a l IH]; intros Hinj Hl; [constructor|]. inversion Hl as [|? ? Ha Hl']; subst. cbn [map]. constructor.
  - intros H. apply in_map_iff in H. destruct H as (x & E & Hx). apply Ha.
    rewrite <- (Hinj x a (or_intror Hx) (or_introl eq_refl) E). exact Hx.
  - apply IH; [|exact Hl']. intros x y Hx Hy. apply Hinj; right; assumption.
Qed.

Definition grid {A} (f : nat -> nat -> A) (a b : nat) : list A := flat_map (fun j => map (fun i => f i j) (seq 0 a)) (seq 0 b).
Lemma in_grid {A} (f : nat -> nat -> A) a b k : In k (grid f a b) <-> exists i j, i < a /\ j < b /\ k = f i j.
Proof.
  unfold grid. rewrite in_flat_map. split.
  - intros (j & Hj & Hk). apply in_map_iff in Hk. destruct Hk as (i & <- & Hi). apply in_seq in Hi, Hj. exists i, j. split; [lia|]. split; [lia|reflexivity].
  - intros (i & j & Hi & Hj & ->). exists j. split; [apply in_seq; lia|]. apply in_map_iff. exists i. split; [reflexivity|apply in_seq; lia].
Qed.
Lemma grid_length {A} (f : nat -> nat -> A) a b : length (grid f a b) = a * b.
Proof.
  unfold grid. rewrite <- (seq_length b 0) at 2. generalize (seq 0 b). intros l.
  induction l as [|j l IH]; cbn [flat_map length]; [lia|]. rewrite app_length, map_length, seq_length, IH. lia.
Qed.
Lemma grid_nodup {A} (f : nat -> nat -> A) a b :
  (forall i j i' j', i < a -> j < b -> i' < a -> j' < b -> f i j = f i' j' -> i = i' /\ j = j') -> NoDup (grid f a b).
Proof.
  intros Hinj. unfold grid. apply NoDup_flat_map; [apply seq_NoDup| |].
  - intros j Hj. apply in_seq in Hj. apply NoDup_map_in; [|apply seq_NoDup].
    intros i i' Hi Hi' E. apply in_seq in Hi, Hi'. apply (Hinj i j i' j); try lia. exact E.
  - intros j j' Hj Hj' Hne z Hz Hz'. apply in_seq in Hj, Hj'. apply in_map_iff in Hz, Hz'.
    destruct Hz as (i & <- & Hi), Hz' as (i' & E & Hi'). apply in_seq in Hi, Hi'.
    destruct (Hinj i' j' i j) as [_ C]; try lia. exact E.
Qed.

Lemma in_lattice2 nx ny p : In p (lattice2 nx ny) <-> exists i j, i < nx /\ j < ny /\ p = cell2 nx i j.
Proof. apply (in_grid (fun i j => cell2 nx i j)). Qed.

Lemma vid2_inj nx i j i' j' : i <= nx -> i' <= nx -> vid2 nx i j = vid2 nx i' j' -> i = i' /\ j = j'.
Proof. unfold vid2. intros Hi Hi' E. assert (j = j') by nia. subst. lia. Qed.

Lemma vid2_S nx i j : vid2 nx i (S j) = vid2 nx i j + S nx.
Proof. unfold vid2. rewrite Nat.mul_succ_r. lia. Qed.
Lemma vid2_Si nx i j : vid2 nx (S i) j = S (vid2 nx i j).
Proof. reflexivity. Qed.

Lemma lattice2_valid nx ny : Forall valid_patch (lattice2 nx ny).
Proof. apply Forall_forall. intros p Hp. apply in_lattice2 in Hp. destruct Hp as (i & j & _ & _ & ->). reflexivity. Qed.

Lemma ss1 a : StronglySorted lt [a].
Proof. repeat constructor. Qed.
Lemma ss2 a b : a < b -> StronglySorted lt [a; b].
Proof. intros. apply SSorted_cons; [apply ss1|]. repeat apply Forall_cons; try apply Forall_nil; lia. Qed.
Lemma ss4 a b c d : a < b -> b < c -> c < d -> StronglySorted lt [a; b; c; d].
Proof.
  intros. apply SSorted_cons; [apply SSorted_cons; [apply ss2; lia|]|]; repeat apply Forall_cons; try apply Forall_nil; lia.
Qed.

Lemma cell2_subkeys nx i j k : 1 <= nx ->
  (In k (all_subkeys (cell2 nx i j)) <->
   In k [(0, [vid2 nx i j]); (0, [vid2 nx (S i) j]); (0, [vid2 nx i (S j)]); (0, [vid2 nx (S i) (S j)]);
         (1, [vid2 nx i j; vid2 nx i (S j)]); (1, [vid2 nx (S i) j; vid2 nx (S i) (S j)]);
         (1, [vid2 nx i j; vid2 nx (S i) j]); (1, [vid2 nx i (S j); vid2 nx (S i) (S j)]);
         (2, [vid2 nx i j; vid2 nx (S i) j; vid2 nx i (S j); vid2 nx (S i) (S j)])]).
Proof.
  intros Hnx.
  set (a := vid2 nx i j). set (b := vid2 nx (S i) j). set (c := vid2 nx i (S j)). set (d := vid2 nx (S i) (S j)).
  assert (E : all_subkeys (cell2 nx i j) =
              [pkey 0 [a]; pkey 0 [b]; pkey 0 [c]; pkey 0 [d]; pkey 1 [a; c]; pkey 1 [b; d]; pkey 1 [a; b]; pkey 1 [c; d]; pkey 2 [a; b; c; d]])
    by reflexivity.
  rewrite E. unfold pkey.
  assert (Hab : a < b) by (unfold a, b; rewrite vid2_Si; lia).
  assert (Hbc : b < c) by (unfold b, c; rewrite vid2_Si, vid2_S; lia).
  assert (Hcd : c < d) by (unfold c, d; rewrite vid2_Si; lia).
  rewrite !canon_sorted_id by (first [apply ss1|apply ss2; lia|apply ss4; lia]). reflexivity.
Qed.

Lemma count_by_list c d L : NoDup (cat_keys c) -> NoDup L -> (forall k, In k L <-> In k (cat_keys c) /\ fst k = d) ->
  length (cat_nodes c d) = length L.
Proof.
  intros N NL H. rewrite cat_nodes_length. apply Permutation_length, NoDup_Permutation; [apply NoDup_filter, N|exact NL|].
  intros k. rewrite filter_In, Nat.eqb_eq, H. tauto.
Qed.

Lemma lattice2_keys nx ny k : In k (cat_keys (cat_add_all cat_empty (lattice2 nx ny))) <->
  exists i j, i < nx /\ j < ny /\ In k (all_subkeys (cell2 nx i j)).
Proof.
  destruct (nodes_are_cells _ (lattice2_valid nx ny)) as (_ & S & _). rewrite S, in_flat_map. split.
  - intros (p & Hp & Hk). apply in_lattice2 in Hp. destruct Hp as (i & j & Hi & Hj & ->). exists i, j; auto.
  - intros (i & j & Hi & Hj & Hk). exists (cell2 nx i j). split; [apply in_lattice2; exists i, j; auto|exact Hk].
Qed.

Theorem lattice2_counts nx ny : 1 <= nx -> 1 <= ny ->
  let c := cat_add_all cat_empty (lattice2 nx ny) in
  length (cat_nodes c 0) = (nx + 1) * (ny + 1) /\
  length (cat_nodes c 1) = nx * (ny + 1) + (nx + 1) * ny /\
  length (cat_nodes c 2) = nx * ny.
Proof.
  intros Hnx Hny c. destruct (nodes_are_cells _ (lattice2_valid nx ny)) as (N & _ & _). fold c in N.
  replace (nx + 1) with (S nx) by lia. replace (ny + 1) with (S ny) by lia.
  split; [|split].
  - rewrite <- (grid_length (fun i j => (0, [vid2 nx i j])) (S nx) (S ny)). apply count_by_list; [exact N| |].
    + apply grid_nodup. intros i j i' j' Hi Hj Hi' Hj' E. injection E as E. apply (vid2_inj nx); [lia|lia|exact E].
    + intros k. unfold c. rewrite in_grid, lattice2_keys. split.
      * intros (i' & j' & Hi' & Hj' & ->). split; [|reflexivity].
        destruct nx as [|m]; [lia|]. destruct ny as [|m']; [lia|].
        destruct (Nat.eq_dec i' (S m)) as [->|Ni], (Nat.eq_dec j' (S m')) as [->|Nj].
        -- exists m, m'. split; [lia|]. split; [lia|]. apply cell2_subkeys; [lia|]. cbn [In]. tauto.
        -- exists m, j'. split; [lia|]. split; [lia|]. apply cell2_subkeys; [lia|]. cbn [In]. tauto.
        -- exists i', m'. split; [lia|]. split; [lia|]. apply cell2_subkeys; [lia|]. cbn [In]. tauto.
        -- exists i', j'. split; [lia|]. split; [lia|]. apply cell2_subkeys; [lia|]. cbn [In]. tauto.
      * intros [(i & j & Hi & Hj & Hk) Hdim]. apply cell2_subkeys in Hk; [|exact Hnx]. cbn [In] in Hk.
        destruct Hk as [<-|[<-|[<-|[<-|Hk]]]]; [exists i, j|exists (S i), j|exists i, (S j)|exists (S i), (S j)|exfalso];
          try (split; [lia|]; split; [lia|reflexivity]).
        repeat (destruct Hk as [<-|Hk]; [discriminate Hdim|]). exact Hk.
  - rewrite <- (grid_length (fun i j => (1, [vid2 nx i j; vid2 nx (S i) j])) nx (S ny)).
    rewrite <- (grid_length (fun i j => (1, [vid2 nx i j; vid2 nx i (S j)])) (S nx) ny). rewrite <- app_length.
    apply count_by_list; [exact N| |].
    + apply nodup_app.
      * apply grid_nodup. intros i j i' j' Hi Hj Hi' Hj' E. injection E as E _. apply (vid2_inj nx); [lia|lia|exact E].
      * apply grid_nodup. intros i j i' j' Hi Hj Hi' Hj' E. injection E as E _. apply (vid2_inj nx); [lia|lia|exact E].
      * intros k Hk Hk'. apply in_grid in Hk, Hk'. destruct Hk as (i & j & Hi & Hj & ->), Hk' as (i' & j' & Hi' & Hj' & E).
        injection E as E1 E2. rewrite vid2_Si in E2. rewrite vid2_S in E2. lia.
    + intros k. unfold c. rewrite in_app_iff, !in_grid, lattice2_keys. split.
      * destruct nx as [|m]; [lia|]. destruct ny as [|m']; [lia|].
        intros [(i' & j' & Hi' & Hj' & ->)|(i' & j' & Hi' & Hj' & ->)]; (split; [|reflexivity]).
        -- destruct (Nat.eq_dec j' (S m')) as [->|Nj].
           ++ exists i', m'. split; [lia|]. split; [lia|]. apply cell2_subkeys; [lia|]. cbn [In]. tauto.
           ++ exists i', j'. split; [lia|]. split; [lia|]. apply cell2_subkeys; [lia|]. cbn [In]. tauto.
        -- destruct (Nat.eq_dec i' (S m)) as [->|Ni].
           ++ exists m, j'. split; [lia|]. split; [lia|]. apply cell2_subkeys; [lia|]. cbn [In]. tauto.
           ++ exists i', j'. split; [lia|]. split; [lia|]. apply cell2_subkeys; [lia|]. cbn [In]. tauto.
      * intros [(i & j & Hi & Hj & Hk) Hdim]. apply cell2_subkeys in Hk; [|exact Hnx]. cbn [In] in Hk.
        destruct Hk as [<-|[<-|[<-|[<-|[<-|[<-|[<-|[<-|Hk]]]]]]]]; try discriminate Hdim.
        -- right. exists i, j. split; [lia|]. split; [lia|reflexivity].
        -- right. exists (S i), j. split; [lia|]. split; [lia|reflexivity].
        -- left. exists i, j. split; [lia|]. split; [lia|reflexivity].
        -- left. exists i, (S j). split; [lia|]. split; [lia|reflexivity].
        -- exfalso. destruct Hk as [<-|[]]. discriminate Hdim.
  - rewrite <- (grid_length (fun i j => (2, [vid2 nx i j; vid2 nx (S i) j; vid2 nx i (S j); vid2 nx (S i) (S j)])) nx ny).
    apply count_by_list; [exact N| |].
    + apply grid_nodup. intros i j i' j' Hi Hj Hi' Hj' E. injection E as E _. apply (vid2_inj nx); [lia|lia|exact E].
    + intros k. unfold c. rewrite in_grid, lattice2_keys. split.
      * intros (i & j & Hi & Hj & ->). split; [|reflexivity]. exists i, j. split; [lia|]. split; [lia|].
        apply cell2_subkeys; [lia|]. cbn [In]. tauto.
      * intros [(i & j & Hi & Hj & Hk) Hdim]. apply cell2_subkeys in Hk; [|exact Hnx]. cbn [In] in Hk.
        destruct Hk as [<-|[<-|[<-|[<-|[<-|[<-|[<-|[<-|[<-|[]]]]]]]]]]; try discriminate Hdim.
        exists i, j. split; [lia|]. split; [lia|reflexivity].
Qed.

(* ====================================================================================================== *)
(* H. non-degenerate patches: distinct sections are distinct nodes                                         *)
(* ====================================================================================================== *)
Lemma masks_nodup : forall d r, NoDup (masks d r).
Proof.
  induction d as [|d IH]; intros r; cbn [masks].
  - destruct r; repeat constructor. intros [].
  - apply nodup_app.
    + destruct r as [|r]; [constructor|]. apply NoDup_map_in; [|apply IH]. intros x y _ _ E. injection E; auto.
    + apply NoDup_map_in; [|apply IH]. intros x y _ _ E. injection E; auto.
    + intros m Hm Hm'. destruct r as [|r]; [destruct Hm|]. apply in_map_iff in Hm, Hm'.
      destruct Hm as (x & <- & _), Hm' as (y & E & _). discriminate.
Qed.
Lemma fills_nodup : forall m, NoDup (fills m).
Proof.
  induction m as [|[|] m IH]; cbn [fills].
  - repeat constructor. intros [].
  - apply NoDup_flat_map; [exact IH| |].
    + intros t _. repeat constructor; cbn; intuition discriminate.
    + intros t t' _ _ Hne z [<-|[<-|[]]] [E|[E|[]]]; injection E; congruence.
  - apply NoDup_map_in; [|exact IH]. intros x y _ _ E. injection E; auto.
Qed.
Lemma sections_nodup d i : NoDup (sections d i).
Proof.
  unfold sections. apply NoDup_flat_map; [apply masks_nodup|intros m _; apply fills_nodup|].
  intros m m' _ _ Hne s Hs Hs'. apply in_fills in Hs, Hs'. congruence.
Qed.

Lemma nodup_app_disj {A} (a b : list A) x : NoDup (a ++ b) -> In x a -> ~ In x b.
Proof.
  induction a as [|y a IH]; intros H Hx; [destruct Hx|]. cbn [app] in H. inversion H as [|? ? Hy H']; subst.
  destruct Hx as [->|Hx]; [intros Hb; apply Hy, in_app_iff; right; exact Hb|apply IH; assumption].
Qed.

Lemma nodup_app_inv {A} (a b : list A) : NoDup (a ++ b) -> NoDup a /\ NoDup b.
Proof.
  induction a as [|y a IH]; intros H; [split; [constructor|exact H]|]. cbn [app] in H. inversion H as [|? ? Hy H']; subst.
  destruct (IH H') as [Na Nb]. split; [|exact Nb]. constructor; [|exact Na]. intros Hin. apply Hy, in_app_iff. left; exact Hin.
Qed.

Lemma nodup_halves n (c : list nat) : length c = 2 * n -> NoDup c ->
  NoDup (evens c) /\ NoDup (odds c) /\ forall x, In x (evens c) -> ~ In x (odds c).
Proof.
  intros L N. pose proof (Permutation_NoDup (Permutation_evens_odds n c L) N) as N'.
  destruct (nodup_app_inv _ _ N') as [Ne No]. split; [exact Ne|]. split; [exact No|].
  intros x. apply nodup_app_disj. exact N'.
Qed.

Lemma corner_in : forall b c, length c = 2 ^ length b -> In (corner c b) c.
Proof.
  induction b as [|e b IH]; intros c H.
  - destruct c as [|v c]; [discriminate|]. left. reflexivity.
  - cbn [length] in H. rewrite pow2_S in H. destruct (length_evens_odds _ c H) as [E O].
    pose proof (Permutation_evens_odds _ c H) as P.
    destruct e; cbn [corner]; apply (Permutation_in _ (Permutation_sym P)), in_app_iff; [right|left]; apply IH; assumption.
Qed.

Lemma corner_inj : forall b b' c, length c = 2 ^ length b -> length b' = length b -> NoDup c ->
  corner c b = corner c b' -> b = b'.
Proof.
  induction b as [|e b IH]; intros [|e' b'] c H L N E; try discriminate; [reflexivity|].
  cbn [length] in H, L. rewrite pow2_S in H. destruct (length_evens_odds _ c H) as [Ee Eo].
  destruct (nodup_halves _ c H N) as (Ne & No & Dj). injection L as L.
  assert (Eb : 2 ^ length b = 2 ^ length b') by (rewrite L; reflexivity).
  destruct e, e'; cbn [corner] in E.
  - f_equal. apply (IH b' (odds c)); assumption.
  - exfalso. apply (Dj (corner (evens c) b')); [apply corner_in; lia|rewrite <- E; apply corner_in; lia].
  - exfalso. apply (Dj (corner (evens c) b)); [apply corner_in; lia|rewrite E; apply corner_in; lia].
  - f_equal. apply (IH b' (evens c)); assumption.
Qed.

Definition wit (s : section) : list bool := map (fun o => match o with Some e => e | None => false end) s.
Lemma matches_wit : forall s, matches s (wit s).
Proof. induction s as [|[e|] s IH]; cbn; auto. Qed.

Lemma matches_ext : forall s s', length s = length s' -> (forall b, matches s b <-> matches s' b) -> s = s'.
Proof.
  induction s as [|x r IH]; intros [|x' r'] L H; try discriminate; [reflexivity|]. injection L as L.
  assert (Ht : forall b, matches r b <-> matches r' b).
  { intros b. split; intros Hb.
    - assert (Hm : matches (x :: r) ((match x with Some e => e | None => false end) :: b))
        by (split; [destruct x; auto|exact Hb]).
      apply H in Hm. apply Hm.
    - assert (Hm : matches (x' :: r') ((match x' with Some e => e | None => false end) :: b))
        by (split; [destruct x'; auto|exact Hb]).
      apply H in Hm. apply Hm. }
  f_equal; [|apply IH; assumption].
  destruct x as [e|], x' as [e'|]; [| | |reflexivity].
  - assert (Hm : matches (Some e :: r) (e :: wit r)) by (split; [auto|apply matches_wit]).
    apply H in Hm. destruct Hm as [[C|C] _]; [discriminate|symmetry; exact C].
  - exfalso. assert (Hm : matches (None :: r') (negb e :: wit r')) by (split; [auto|apply matches_wit]).
    apply H in Hm. destruct Hm as [[C|C] _]; [discriminate|]. destruct e; discriminate.
  - exfalso. assert (Hm : matches (None :: r) (negb e' :: wit r)) by (split; [auto|apply matches_wit]).
    apply H in Hm. destruct Hm as [[C|C] _]; [discriminate|]. destruct e'; discriminate.
Qed.

(* for a patch with pairwise distinct corners, two sections with the same corner set are the same section *)
Theorem section_key_inj d c s s' : length c = 2 ^ d -> NoDup c -> length s = d -> length s' = d ->
  canon (sec s c) = canon (sec s' c) -> s = s'.
Proof.
  intros Hc N Ls Ls' E. apply matches_ext; [lia|].
  assert (Half : forall t t', length t = d -> length t' = d -> (forall x, In x (sec t c) -> In x (sec t' c)) ->
                              forall b, matches t b -> matches t' b).
  { intros t t' Lt Lt' Hsub b Hb. pose proof (matches_length _ _ Hb) as Lb.
    assert (Hin : In (corner c b) (sec t c)) by (apply sec_points; [rewrite Lt; exact Hc|exists b; auto]).
    apply Hsub in Hin. apply sec_points in Hin; [|rewrite Lt'; exact Hc]. destruct Hin as (b' & Hb' & Eb).
    pose proof (matches_length _ _ Hb') as Lb'.
    assert (Ebb : b = b') by (apply (corner_inj b b' c); [rewrite Lb, Lt; exact Hc|lia|exact N|exact Eb]).
    rewrite Ebb. exact Hb'. }
  pose proof (canon_set _ _ E) as S. intros b. split; apply Half; try assumption; intros x; apply S.
Qed.

Theorem nodup_corners_faces p : valid_patch p -> NoDup (p_corners p) -> NoDup (face_keys p).
Proof.
  intros Hp N. unfold face_keys. apply NoDup_map_in; [|apply sections_nodup].
  intros s s' Hs Hs' E. apply in_sections in Hs, Hs'; try lia. injection E as E.
  apply (section_key_inj (p_dim p) (p_corners p)); try tauto; exact Hp.
Qed.

(* sufficient conditions for same_faces *)
Lemma in_face_keys p k : In k (face_keys p) <->
  exists s, length s = p_dim p /\ nfree s = p_dim p - 1 /\ k = pkey (p_dim p - 1) (sec s (p_corners p)).
Proof.
  unfold face_keys. rewrite in_map_iff. split.
  - intros (s & <- & Hs). apply in_sections in Hs; [|lia]. exists s. tauto.
  - intros (s & L & F & ->). exists s. split; [reflexivity|]. apply in_sections; [lia|auto].
Qed.

Lemma reorient_face_keys o p : valid_patch p -> signed_perm (p_dim p) o ->
  forall k, In k (face_keys (preorient o p)) <-> In k (face_keys p).
Proof.
  intros Hp Ho k. destruct (signed_perm_length _ o Ho) as [Lp _]. rewrite !in_face_keys. cbn [preorient p_dim p_corners].
  assert (E : forall s, length s = p_dim p -> canon (sec s (reorient o (p_corners p))) = canon (sec (omap_section o s) (p_corners p))).
  { intros s Ls. apply canon_ext. apply (sec_reorient_points (p_dim p)); assumption. }
  split.
  - intros (s & Ls & F & ->). exists (omap_section o s). rewrite omap_length, (nfree_omap _ o s Ho Ls).
    split; [exact Lp|]. split; [exact F|]. unfold pkey. f_equal. apply E, Ls.
  - intros (t & Lt & F & ->). destruct (omap_surj _ o t Ho Lt) as (s & Ls & <-). exists s.
    rewrite (nfree_omap _ o s Ho Ls) in F. split; [exact Ls|]. split; [exact F|]. unfold pkey. f_equal. symmetry. apply E, Ls.
Qed.

Theorem same_faces_conforming ps : Forall valid_patch ps ->
  (forall p q, In p ps -> In q ps -> patch_key p = patch_key q -> p = q \/ reoriented p q) -> same_faces ps.
Proof.
  intros Hv H p q Hp Hq E k. rewrite Forall_forall in Hv.
  destruct (H p q Hp Hq E) as [->|(o & Ho & ->)]; [tauto|]. symmetry. apply reorient_face_keys; [apply Hv, Hp|exact Ho].
Qed.
Corollary same_faces_distinct ps : NoDup (map patch_key ps) -> same_faces ps.
Proof.
  intros N p q Hp Hq E k. replace q with p; [tauto|].
  clear k. induction ps as [|a ps IH]; [destruct Hp|]. cbn [map] in N. inversion N as [|? ? Ha N']; subst.
  destruct Hp as [->|Hp], Hq as [->|Hq]; try reflexivity.
  - exfalso. apply Ha. rewrite E. apply in_map, Hq.
  - exfalso. apply Ha. rewrite <- E. apply in_map, Hp.
  - apply IH; assumption.
Qed.

(* 3d. the same for every stored sub-entity (vertex, edge, face): any re-oriented copy of the section s of an added
       patch is found, and it is the node of that sub-entity *)
Corollary lookup_reoriented_subentity c p s o : valid_patch p -> length s = p_dim p -> signed_perm (nfree s) o ->
  let e := mkPatch (nfree s) (sec s (p_corners p)) in
  exists n, cat_lookup (cat_add c p) (preorient o e) = Some n /\ cat_lookup (cat_add c p) e = Some n /\
            n_key n = patch_key e /\ In n (cat_add c p).
Proof.
  intros Hp Ls Ho e.
  assert (He : valid_patch e) by (unfold valid_patch, e; cbn [p_dim p_corners]; apply sec_length; rewrite Ls; exact Hp).
  destruct (reoriented_copy_known (cat_add c p) e o He Ho) as (_ & n & H1 & H2 & H3 & H4).
  - unfold e. cbn [p_dim p_corners]. intros k Hk. apply cat_add_keys; [exact Hp|]. right. apply (is_sub_trans _ _ s); assumption.
  - exists n. auto.
Qed.

(* ====================================================================================================== *)
(* J. lattice blocks of volumes                                                                            *)
(* ====================================================================================================== *)
Definition grid3 {A} (f : nat -> nat -> nat -> A) (a b c : nat) : list A := flat_map (fun k => grid (fun i j => f i j k) a b) (seq 0 c).
Lemma in_grid3 {A} (f : nat -> nat -> nat -> A) a b c x :
  In x (grid3 f a b c) <-> exists i j k, i < a /\ j < b /\ k < c /\ x = f i j k.
Proof.
  unfold grid3. rewrite in_flat_map. split.
  - intros (k & Hk & Hx). apply in_grid in Hx. destruct Hx as (i & j & Hi & Hj & ->). apply in_seq in Hk.
    exists i, j, k. repeat (split; [lia|]). reflexivity.
  - intros (i & j & k & Hi & Hj & Hk & ->). exists k. split; [apply in_seq; lia|]. apply in_grid. exists i, j. auto.
Qed.
Lemma grid3_length {A} (f : nat -> nat -> nat -> A) a b c : length (grid3 f a b c) = a * b * c.
Proof.
  unfold grid3. rewrite <- (seq_length c 0) at 2. generalize (seq 0 c). intros l.
  induction l as [|k l IH]; cbn [flat_map length]; [lia|]. rewrite app_length, grid_length, IH. lia.
Qed.
Lemma grid3_nodup {A} (f : nat -> nat -> nat -> A) a b c :
  (forall i j k i' j' k', i < a -> j < b -> k < c -> i' < a -> j' < b -> k' < c -> f i j k = f i' j' k' -> i = i' /\ j = j' /\ k = k') ->
  NoDup (grid3 f a b c).
Proof.
  intros Hinj. unfold grid3. apply NoDup_flat_map; [apply seq_NoDup| |].
  - intros k Hk. apply in_seq in Hk. apply grid_nodup. intros i j i' j' Hi Hj Hi' Hj' E.
    destruct (Hinj i j k i' j' k) as (E1 & E2 & _); try lia; auto.
  - intros k k' Hk Hk' Hne z Hz Hz'. apply in_seq in Hk, Hk'. apply in_grid in Hz, Hz'.
    destruct Hz as (i & j & Hi & Hj & ->), Hz' as (i' & j' & Hi' & Hj' & E).
    destruct (Hinj i j k i' j' k') as (_ & _ & C); try lia. exact E.
Qed.

Lemma vid3_Si nx ny i j k : vid3 nx ny (S i) j k = S (vid3 nx ny i j k).
Proof. reflexivity. Qed.
Lemma vid3_Sj nx ny i j k : vid3 nx ny i (S j) k = vid3 nx ny i j k + S nx.
Proof. unfold vid3. nia. Qed.
Lemma vid3_Sk nx ny i j k : vid3 nx ny i j (S k) = vid3 nx ny i j k + S nx * S ny.
Proof. unfold vid3. nia. Qed.
Lemma vid3_inj nx ny i j k i' j' k' : i <= nx -> i' <= nx -> j <= ny -> j' <= ny ->
  vid3 nx ny i j k = vid3 nx ny i' j' k' -> i = i' /\ j = j' /\ k = k'.
Proof.
  intros Hi Hi' Hj Hj' E. change (vid2 nx i (vid2 ny j k) = vid2 nx i' (vid2 ny j' k')) in E.
  apply vid2_inj in E; try assumption. destruct E as [-> E]. apply vid2_inj in E; try assumption. tauto.
Qed.

Lemma in_lattice3 nx ny nz p : In p (lattice3 nx ny nz) <-> exists i j k, i < nx /\ j < ny /\ k < nz /\ p = cell3 nx ny i j k.
Proof. apply (in_grid3 (fun i j k => cell3 nx ny i j k)). Qed.
Lemma lattice3_valid nx ny nz : Forall valid_patch (lattice3 nx ny nz).
Proof. apply Forall_forall. intros p Hp. apply in_lattice3 in Hp. destruct Hp as (i & j & k & _ & _ & _ & ->). reflexivity. Qed.

Lemma sorted_chain : forall l, Sorted lt l -> StronglySorted lt l.
Proof. apply Sorted_StronglySorted. intros x y z. apply Nat.lt_trans. Qed.
Ltac chain := apply sorted_chain; repeat first [apply Sorted_nil | apply Sorted_cons | apply HdRel_nil | apply HdRel_cons]; lia.

Lemma cell3_subkeys nx ny i j k x : 1 <= nx -> 1 <= ny ->
  (In x (all_subkeys (cell3 nx ny i j k)) <->
   In x [(0, [vid3 nx ny i j k]);
(0, [vid3 nx ny (S i) j k]);
(0, [vid3 nx ny i (S j) k]);
(0, [vid3 nx ny (S i) (S j) k]);
(0, [vid3 nx ny i j (S k)]);
(0, [vid3 nx ny (S i) j (S k)]);
(0, [vid3 nx ny i (S j) (S k)]);
(0, [vid3 nx ny (S i) (S j) (S k)]);
(1, [vid3 nx ny i j k; vid3 nx ny i j (S k)]);
(1, [vid3 nx ny (S i) j k; vid3 nx ny (S i) j (S k)]);
(1, [vid3 nx ny i (S j) k; vid3 nx ny i (S j) (S k)]);
(1, [vid3 nx ny (S i) (S j) k; vid3 nx ny (S i) (S j) (S k)]);
(1, [vid3 nx ny i j k; vid3 nx ny i (S j) k]);
(1, [vid3 nx ny (S i) j k; vid3 nx ny (S i) (S j) k]);
(1, [vid3 nx ny i j (S k); vid3 nx ny i (S j) (S k)]);
(1, [vid3 nx ny (S i) j (S k); vid3 nx ny (S i) (S j) (S k)]);
(1, [vid3 nx ny i j k; vid3 nx ny (S i) j k]);
(1, [vid3 nx ny i (S j) k; vid3 nx ny (S i) (S j) k]);
(1, [vid3 nx ny i j (S k); vid3 nx ny (S i) j (S k)]);
(1, [vid3 nx ny i (S j) (S k); vid3 nx ny (S i) (S j) (S k)]);
(2, [vid3 nx ny i j k; vid3 nx ny i (S j) k; vid3 nx ny i j (S k); vid3 nx ny i (S j) (S k)]);
(2, [vid3 nx ny (S i) j k; vid3 nx ny (S i) (S j) k; vid3 nx ny (S i) j (S k); vid3 nx ny (S i) (S j) (S k)]);
(2, [vid3 nx ny i j k; vid3 nx ny (S i) j k; vid3 nx ny i j (S k); vid3 nx ny (S i) j (S k)]);
(2, [vid3 nx ny i (S j) k; vid3 nx ny (S i) (S j) k; vid3 nx ny i (S j) (S k); vid3 nx ny (S i) (S j) (S k)]);
(2, [vid3 nx ny i j k; vid3 nx ny (S i) j k; vid3 nx ny i (S j) k; vid3 nx ny (S i) (S j) k]);
(2, [vid3 nx ny i j (S k); vid3 nx ny (S i) j (S k); vid3 nx ny i (S j) (S k); vid3 nx ny (S i) (S j) (S k)]);
(3, [vid3 nx ny i j k; vid3 nx ny (S i) j k; vid3 nx ny i (S j) k; vid3 nx ny (S i) (S j) k; vid3 nx ny i j (S k); vid3 nx ny (S i) j (S k); vid3 nx ny i (S j) (S k); vid3 nx ny (S i) (S j) (S k)])]).
Proof.
  intros Hnx Hny.
  set (a0 := vid3 nx ny i j k). set (a1 := vid3 nx ny (S i) j k). set (a2 := vid3 nx ny i (S j) k). set (a3 := vid3 nx ny (S i) (S j) k).
  set (a4 := vid3 nx ny i j (S k)). set (a5 := vid3 nx ny (S i) j (S k)). set (a6 := vid3 nx ny i (S j) (S k)). set (a7 := vid3 nx ny (S i) (S j) (S k)).
  assert (E : all_subkeys (cell3 nx ny i j k) =
    [pkey 0 [a0]; pkey 0 [a1]; pkey 0 [a2]; pkey 0 [a3]; pkey 0 [a4]; pkey 0 [a5]; pkey 0 [a6]; pkey 0 [a7];
     pkey 1 [a0; a4]; pkey 1 [a1; a5]; pkey 1 [a2; a6]; pkey 1 [a3; a7];
     pkey 1 [a0; a2]; pkey 1 [a1; a3]; pkey 1 [a4; a6]; pkey 1 [a5; a7];
     pkey 1 [a0; a1]; pkey 1 [a2; a3]; pkey 1 [a4; a5]; pkey 1 [a6; a7];
     pkey 2 [a0; a2; a4; a6]; pkey 2 [a1; a3; a5; a7]; pkey 2 [a0; a1; a4; a5]; pkey 2 [a2; a3; a6; a7];
     pkey 2 [a0; a1; a2; a3]; pkey 2 [a4; a5; a6; a7]; pkey 3 [a0; a1; a2; a3; a4; a5; a6; a7]]) by reflexivity.
  rewrite E. unfold pkey.
  assert (HM : 2 * S nx <= S nx * S ny) by nia.
  assert (H1 : a1 = S a0) by reflexivity. assert (H2 : a2 = a0 + S nx) by apply vid3_Sj.
  assert (H3 : a3 = S (a0 + S nx)) by (unfold a3; rewrite vid3_Si, vid3_Sj; reflexivity).
  assert (H4 : a4 = a0 + S nx * S ny) by apply vid3_Sk.
  assert (H5 : a5 = S a4) by reflexivity. assert (H6 : a6 = a4 + S nx) by apply vid3_Sj.
  assert (H7 : a7 = S (a4 + S nx)) by (unfold a7; rewrite vid3_Si, vid3_Sj; reflexivity).
  clearbody a0 a1 a2 a3 a4 a5 a6 a7.
  rewrite !canon_sorted_id by chain. reflexivity.
Qed.

Lemma lattice3_keys nx ny nz x : In x (cat_keys (cat_add_all cat_empty (lattice3 nx ny nz))) <->
  exists i j k, i < nx /\ j < ny /\ k < nz /\ In x (all_subkeys (cell3 nx ny i j k)).
Proof.
  destruct (nodes_are_cells _ (lattice3_valid nx ny nz)) as (_ & S & _). rewrite S, in_flat_map. split.
  - intros (p & Hp & Hk). apply in_lattice3 in Hp. destruct Hp as (i & j & k & Hi & Hj & Hk' & ->). exists i, j, k; auto.
  - intros (i & j & k & Hi & Hj & Hk' & Hk). exists (cell3 nx ny i j k). split; [apply in_lattice3; exists i, j, k; auto|exact Hk].
Qed.

Ltac pick3 x y z :=
  exists x, y, z; split; [lia|]; split; [lia|]; split; [lia|]; apply cell3_subkeys; [lia|lia|]; cbn [In]; tauto.
Ltac wit3 := refine (ex_intro _ _ (ex_intro _ _ (ex_intro _ _ (conj _ (conj _ (conj _ eq_refl)))))); lia.
Ltac vnorm := rewrite ?vid3_Si, ?vid3_Sj, ?vid3_Sk in *.

Theorem lattice3_counts nx ny nz : 1 <= nx -> 1 <= ny -> 1 <= nz ->
  let c := cat_add_all cat_empty (lattice3 nx ny nz) in
  length (cat_nodes c 0) = (nx + 1) * (ny + 1) * (nz + 1) /\
  length (cat_nodes c 1) = (nx + 1) * (ny + 1) * nz + (nx + 1) * ny * (nz + 1) + nx * (ny + 1) * (nz + 1) /\
  length (cat_nodes c 2) = (nx + 1) * ny * nz + nx * (ny + 1) * nz + nx * ny * (nz + 1) /\
  length (cat_nodes c 3) = nx * ny * nz.
Proof.
  intros Hnx Hny Hnz c. destruct (nodes_are_cells _ (lattice3_valid nx ny nz)) as (N & _ & _). fold c in N.
  replace (nx + 1) with (S nx) by lia. replace (ny + 1) with (S ny) by lia. replace (nz + 1) with (S nz) by lia.
  assert (HM : 2 * S nx <= S nx * S ny) by nia.
  assert (INJ : forall i j k i' j' k', i <= nx -> i' <= nx -> j <= ny -> j' <= ny ->
                 vid3 nx ny i j k = vid3 nx ny i' j' k' -> i = i' /\ j = j' /\ k = k') by (intros; apply (vid3_inj nx ny); assumption).
  split; [|split; [|split]].
  - rewrite <- (grid3_length (fun i j k => (0, [vid3 nx ny i j k])) (S nx) (S ny) (S nz)). apply count_by_list; [exact N| |].
    + apply grid3_nodup. intros i j k i' j' k' Hi Hj Hk Hi' Hj' Hk' E. injection E as E. apply INJ; lia.
    + intros x. unfold c. rewrite in_grid3, lattice3_keys. split.
      * intros (i' & j' & k' & Hi' & Hj' & Hk' & ->). split; [|reflexivity].
        destruct nx as [|m]; [lia|]. destruct ny as [|m']; [lia|]. destruct nz as [|m'']; [lia|].
        destruct (Nat.eq_dec i' (S m)) as [->|Ni], (Nat.eq_dec j' (S m')) as [->|Nj], (Nat.eq_dec k' (S m'')) as [->|Nk].
        -- pick3 m m' m''.
        -- pick3 m m' k'.
        -- pick3 m j' m''.
        -- pick3 m j' k'.
        -- pick3 i' m' m''.
        -- pick3 i' m' k'.
        -- pick3 i' j' m''.
        -- pick3 i' j' k'.
      * intros [(i & j & k & Hi & Hj & Hk & Hx) Hdim]. apply cell3_subkeys in Hx; [|exact Hnx|exact Hny]. cbn [In] in Hx.
        repeat (destruct Hx as [<-|Hx]; [first [discriminate Hdim|wit3]|]). destruct Hx.
  - rewrite <- (grid3_length (fun i j k => (1, [vid3 nx ny i j k; vid3 nx ny i j (S k)])) (S nx) (S ny) nz).
    rewrite <- (grid3_length (fun i j k => (1, [vid3 nx ny i j k; vid3 nx ny i (S j) k])) (S nx) ny (S nz)).
    rewrite <- (grid3_length (fun i j k => (1, [vid3 nx ny i j k; vid3 nx ny (S i) j k])) nx (S ny) (S nz)).
    rewrite <- !app_length. apply count_by_list; [exact N| |].
    + apply nodup_app; [apply nodup_app| |].
      * apply grid3_nodup. intros i j k i' j' k' Hi Hj Hk Hi' Hj' Hk' E. injection E as E _. apply INJ; lia.
      * apply grid3_nodup. intros i j k i' j' k' Hi Hj Hk Hi' Hj' Hk' E. injection E as E _. apply INJ; lia.
      * intros x Hx Hx'. apply in_grid3 in Hx, Hx'.
        destruct Hx as (i & j & k & Hi & Hj & Hk & ->), Hx' as (i' & j' & k' & Hi' & Hj' & Hk' & E). injection E as E1 E2. vnorm. lia.
      * apply grid3_nodup. intros i j k i' j' k' Hi Hj Hk Hi' Hj' Hk' E. injection E as E _. apply INJ; lia.
      * intros x Hx Hx'. apply in_grid3 in Hx'. destruct Hx' as (i' & j' & k' & Hi' & Hj' & Hk' & ->).
        apply in_app_iff in Hx. destruct Hx as [Hx|Hx]; apply in_grid3 in Hx;
          destruct Hx as (i & j & k & Hi & Hj & Hk & E); injection E as E1 E2; vnorm; lia.
    + intros x. unfold c. rewrite !in_app_iff, !in_grid3, lattice3_keys. split.
      * destruct nx as [|m]; [lia|]. destruct ny as [|m']; [lia|]. destruct nz as [|m'']; [lia|].
        intros [[(i' & j' & k' & Hi' & Hj' & Hk' & ->)|(i' & j' & k' & Hi' & Hj' & Hk' & ->)]|(i' & j' & k' & Hi' & Hj' & Hk' & ->)];
          (split; [|reflexivity]).
        -- destruct (Nat.eq_dec i' (S m)) as [->|Ni], (Nat.eq_dec j' (S m')) as [->|Nj];
             [pick3 m m' k'|pick3 m j' k'|pick3 i' m' k'|pick3 i' j' k'].
        -- destruct (Nat.eq_dec i' (S m)) as [->|Ni], (Nat.eq_dec k' (S m'')) as [->|Nk];
             [pick3 m j' m''|pick3 m j' k'|pick3 i' j' m''|pick3 i' j' k'].
        -- destruct (Nat.eq_dec j' (S m')) as [->|Nj], (Nat.eq_dec k' (S m'')) as [->|Nk];
             [pick3 i' m' m''|pick3 i' m' k'|pick3 i' j' m''|pick3 i' j' k'].
      * intros [(i & j & k & Hi & Hj & Hk & Hx) Hdim]. apply cell3_subkeys in Hx; [|exact Hnx|exact Hny]. cbn [In] in Hx.
        repeat (destruct Hx as [<-|Hx]; [first [discriminate Hdim|left; left; wit3|left; right; wit3|right; wit3]|]). destruct Hx.
  - rewrite <- (grid3_length (fun i j k => (2, [vid3 nx ny i j k; vid3 nx ny i (S j) k; vid3 nx ny i j (S k); vid3 nx ny i (S j) (S k)])) (S nx) ny nz).
    rewrite <- (grid3_length (fun i j k => (2, [vid3 nx ny i j k; vid3 nx ny (S i) j k; vid3 nx ny i j (S k); vid3 nx ny (S i) j (S k)])) nx (S ny) nz).
    rewrite <- (grid3_length (fun i j k => (2, [vid3 nx ny i j k; vid3 nx ny (S i) j k; vid3 nx ny i (S j) k; vid3 nx ny (S i) (S j) k])) nx ny (S nz)).
    rewrite <- !app_length. apply count_by_list; [exact N| |].
    + apply nodup_app; [apply nodup_app| |].
      * apply grid3_nodup. intros i j k i' j' k' Hi Hj Hk Hi' Hj' Hk' E. injection E as E _. apply INJ; lia.
      * apply grid3_nodup. intros i j k i' j' k' Hi Hj Hk Hi' Hj' Hk' E. injection E as E _. apply INJ; lia.
      * intros x Hx Hx'. apply in_grid3 in Hx, Hx'.
        destruct Hx as (i & j & k & Hi & Hj & Hk & ->), Hx' as (i' & j' & k' & Hi' & Hj' & Hk' & E). injection E as E1 E2 E3 E4. vnorm. lia.
      * apply grid3_nodup. intros i j k i' j' k' Hi Hj Hk Hi' Hj' Hk' E. injection E as E _. apply INJ; lia.
      * intros x Hx Hx'. apply in_grid3 in Hx'. destruct Hx' as (i' & j' & k' & Hi' & Hj' & Hk' & ->).
        apply in_app_iff in Hx. destruct Hx as [Hx|Hx]; apply in_grid3 in Hx;
          destruct Hx as (i & j & k & Hi & Hj & Hk & E); injection E as E1 E2 E3 E4; vnorm; lia.
    + intros x. unfold c. rewrite !in_app_iff, !in_grid3, lattice3_keys. split.
      * destruct nx as [|m]; [lia|]. destruct ny as [|m']; [lia|]. destruct nz as [|m'']; [lia|].
        intros [[(i' & j' & k' & Hi' & Hj' & Hk' & ->)|(i' & j' & k' & Hi' & Hj' & Hk' & ->)]|(i' & j' & k' & Hi' & Hj' & Hk' & ->)];
          (split; [|reflexivity]).
        -- destruct (Nat.eq_dec i' (S m)) as [->|Ni]; [pick3 m j' k'|pick3 i' j' k'].
        -- destruct (Nat.eq_dec j' (S m')) as [->|Nj]; [pick3 i' m' k'|pick3 i' j' k'].
        -- destruct (Nat.eq_dec k' (S m'')) as [->|Nk]; [pick3 i' j' m''|pick3 i' j' k'].
      * intros [(i & j & k & Hi & Hj & Hk & Hx) Hdim]. apply cell3_subkeys in Hx; [|exact Hnx|exact Hny]. cbn [In] in Hx.
        repeat (destruct Hx as [<-|Hx]; [first [discriminate Hdim|left; left; wit3|left; right; wit3|right; wit3]|]). destruct Hx.
  - rewrite <- (grid3_length (fun i j k => (3, [vid3 nx ny i j k; vid3 nx ny (S i) j k; vid3 nx ny i (S j) k; vid3 nx ny (S i) (S j) k;
                                               vid3 nx ny i j (S k); vid3 nx ny (S i) j (S k); vid3 nx ny i (S j) (S k); vid3 nx ny (S i) (S j) (S k)])) nx ny nz).
    apply count_by_list; [exact N| |].
    + apply grid3_nodup. intros i j k i' j' k' Hi Hj Hk Hi' Hj' Hk' E. injection E as E _. apply INJ; lia.
    + intros x. unfold c. rewrite in_grid3, lattice3_keys. split.
      * intros (i & j & k & Hi & Hj & Hk & ->). split; [|reflexivity]. pick3 i j k.
      * intros [(i & j & k & Hi & Hj & Hk & Hx) Hdim]. apply cell3_subkeys in Hx; [|exact Hnx|exact Hny]. cbn [In] in Hx.
        repeat (destruct Hx as [<-|Hx]; [first [discriminate Hdim|wit3]|]). destruct Hx.
Qed.

(* ====================================================================================================== *)
(* I. examples (vm_compute) and assumptions                                                                *)
(* ====================================================================================================== *)
(* the enumeration order is that of splipy.utils.sections (checked against the implementation for d <= 3) *)
Example sections_2_0 : sections 2 0 = [[Some false; Some false]; [Some true; Some false]; [Some false; Some true]; [Some true; Some true]].
Proof. reflexivity. Qed.
Example sections_2_1 : sections 2 1 = [[Some false; None]; [Some true; None]; [None; Some false]; [None; Some true]].
Proof. reflexivity. Qed.
Example sections_3_1 : sections 3 1 =
  [[Some false; Some false; None]; [Some true; Some false; None]; [Some false; Some true; None]; [Some true; Some true; None];
   [Some false; None; Some false]; [Some true; None; Some false]; [Some false; None; Some true]; [Some true; None; Some true];
   [None; Some false; Some false]; [None; Some true; Some false]; [None; Some false; Some true]; [None; Some true; Some true]].
Proof. reflexivity. Qed.
Example sections_3_2 : sections 3 2 =
  [[Some false; None; None]; [Some true; None; None]; [None; Some false; None]; [None; Some true; None]; [None; None; Some false]; [None; None; Some true]].
Proof. reflexivity. Qed.
Example sec_example : sec [None; Some true; None] [0; 1; 2; 3; 4; 5; 6; 7] = [2; 3; 6; 7].
Proof. reflexivity. Qed.

(* an L-shaped complex of three squares on the 3 x 3 vertex lattice 0..8 *)
Definition L_patches : list patch := [mkPatch 2 [0; 1; 3; 4]; mkPatch 2 [1; 2; 4; 5]; mkPatch 2 [3; 4; 6; 7]].
Definition L_reoriented : list patch :=
  [preorient (mkOrient [1; 0] [false; true]) (mkPatch 2 [0; 1; 3; 4]);
   preorient (mkOrient [0; 1] [true; true]) (mkPatch 2 [1; 2; 4; 5]);
   preorient (mkOrient [1; 0] [true; false]) (mkPatch 2 [3; 4; 6; 7])].
Definition L_other_order : list patch :=
  [nth 2 L_reoriented (mkPatch 0 []); nth 0 L_reoriented (mkPatch 0 []); nth 1 L_reoriented (mkPatch 0 [])].
Definition subset_b (a b : list key) : bool := forallb (fun k => existsb (key_eqb k) b) a.

Example L_reoriented_corners : map p_corners L_other_order = [[4; 7; 3; 6]; [3; 0; 4; 1]; [5; 4; 2; 1]].
Proof. vm_compute. reflexivity. Qed.
Example L_counts :
  let c1 := cat_add_all cat_empty L_patches in let c2 := cat_add_all cat_empty L_other_order in
  map (fun d => length (cat_nodes c1 d)) [0; 1; 2] = [8; 10; 3] /\
  map (fun d => length (cat_nodes c2 d)) [0; 1; 2] = [8; 10; 3] /\
  subset_b (cat_keys c1) (cat_keys c2) = true /\ subset_b (cat_keys c2) (cat_keys c1) = true /\
  map n_key (cat_boundary c1 2) = [(1, [0; 3]); (1, [0; 1]); (1, [2; 5]); (1, [1; 2]); (1, [4; 5]); (1, [3; 6]); (1, [4; 7]); (1, [6; 7])] /\
  subset_b (map n_key (cat_boundary c1 2)) (map n_key (cat_boundary c2 2)) = true /\
  length (cat_boundary c2 2) = 8 /\
  (* the interfaces have exactly their two patches as higher neighbours (same order as the implementation) *)
  option_map n_higher (find_node (1, [1; 4]) c1) = Some [(2, [0; 1; 3; 4]); (2, [1; 2; 4; 5])] /\
  option_map n_higher (find_node (0, [4]) c1) =
    Some [(1, [1; 4]); (1, [3; 4]); (2, [0; 1; 3; 4]); (1, [4; 5]); (2, [1; 2; 4; 5]); (1, [4; 7]); (2, [3; 4; 6; 7])] /\
  (* looking up a re-oriented copy returns the node of the stored patch *)
  option_map n_key (cat_lookup c1 (nth 0 L_other_order (mkPatch 0 []))) = Some (2, [3; 4; 6; 7]) /\
  cat_lookup c1 (mkPatch 2 [4; 5; 7; 8]) = None.
Proof. vm_compute. repeat split; reflexivity. Qed.

(* the hypotheses of the general theorems hold for this complex (non-vacuity) *)
Example L_hypotheses :
  Forall valid_patch L_patches /\ Forall2 reoriented L_patches L_reoriented /\ Permutation L_reoriented L_other_order /\
  same_faces L_patches /\ (forall p, In p L_patches -> NoDup (face_keys p)) /\ (forall p, In p L_patches -> p_dim p = 2).
Proof.
  assert (SP : forall p f, In p [[0; 1]; [1; 0]] -> length f = 2 -> signed_perm 2 (mkOrient p f)).
  { intros p f Hp Hf. unfold signed_perm. cbn [o_perm o_flip]. split; [|split; [|exact Hf]].
    - destruct Hp as [<-|[<-|[]]]; repeat constructor; cbn; lia.
    - intros x. destruct Hp as [<-|[<-|[]]]; cbn; lia. }
  split; [repeat constructor|]. split; [|split; [|split; [|split]]].
  - unfold L_patches, L_reoriented.
    apply Forall2_cons; [|apply Forall2_cons; [|apply Forall2_cons; [|apply Forall2_nil]]];
      [exists (mkOrient [1; 0] [false; true])|exists (mkOrient [0; 1] [true; true])|exists (mkOrient [1; 0] [true; false])];
      (split; [apply SP; [cbn; tauto|reflexivity]|reflexivity]).
  - unfold L_other_order, L_reoriented. cbn [nth]. apply Permutation_sym.
    eapply perm_trans; [apply perm_swap|]. apply perm_skip. apply perm_swap.
  - apply same_faces_distinct. vm_compute. repeat constructor; cbn; intuition discriminate.
  - intros p Hp. apply nodup_corners_faces.
    + destruct Hp as [<-|[<-|[<-|[]]]]; reflexivity.
    + destruct Hp as [<-|[<-|[<-|[]]]]; cbn [p_corners]; repeat constructor; cbn; lia.
  - intros p [<-|[<-|[<-|[]]]]; reflexivity.
Qed.

(* a patch glued to itself (an annulus: corners A = 10 twice, B = 20 twice): the seam has the face twice among its
   higher neighbours and is not a boundary; the vertices have three edge entries -- exactly as the implementation *)
Example ring_example :
  let c := cat_add cat_empty (mkPatch 2 [10; 10; 20; 20]) in
  map (fun n => (n_key n, nhigher n)) c =
    [((0, [10]), 3); ((0, [20]), 3); ((1, [10; 20]), 2); ((1, [10]), 1); ((1, [20]), 1); ((2, [10; 20]), 0)] /\
  map n_key (cat_boundary c 2) = [(1, [10]); (1, [20])].
Proof. vm_compute. split; reflexivity. Qed.

(* volumes: all 48 orientations of a cube that shares a face with a second cube *)
Example cube_orientations :
  let p := mkPatch 3 [0; 1; 3; 4; 9; 10; 12; 13] in let q := mkPatch 3 [1; 2; 4; 5; 10; 11; 13; 14] in
  let c := cat_add_all cat_empty [p; q] in
  length (all_orients 3) = 48 /\
  map (fun d => length (cat_nodes c d)) [0; 1; 2; 3] = [12; 20; 11; 2] /\
  length (cat_boundary c 3) = 10 /\
  forallb (fun o => let c' := cat_add_all cat_empty [q; preorient o p] in
                    subset_b (cat_keys c) (cat_keys c') && subset_b (cat_keys c') (cat_keys c) &&
                    (length (cat_boundary c' 3) =? 10) &&
                    match cat_lookup c (preorient o p) with Some n => key_eqb (n_key n) (patch_key p) | None => false end)
          (all_orients 3) = true.
Proof. vm_compute. repeat split; reflexivity. Qed.
(* the re-orientation used here is the index map of Orientation.map_array (Model/Orient.v: osrc): if q = reorient o p
   then p = o.map_array(q), i.e. p[idx] = q[osrc o shape idx]; checked for all 2 + 8 + 48 orientations *)
Example reorient_is_map_array :
  forallb (fun d =>
    let p := seq 100 (2 ^ d) in
    forallb (fun o =>
      forallb (fun b => let idx := map (fun x : bool => if x then 1 else 0) b in
                        corner (reorient o p) (map (fun x => x =? 1) (osrc o (repeat 2 d) idx)) =? corner p b)
              (allb d))
      (all_orients d)) [1; 2; 3] = true.
Proof. vm_compute. reflexivity. Qed.
Example lattice3_example :
  map (fun d => length (cat_nodes (cat_add_all cat_empty (lattice3 3 2 2)) d)) [0; 1; 2; 3] = [4 * 3 * 3; 3 * 3 * 3 + 4 * 2 * 3 + 4 * 3 * 2; 4 * 2 * 2 + 3 * 3 * 2 + 3 * 2 * 3; 3 * 2 * 2].
Proof. vm_compute. reflexivity. Qed.

