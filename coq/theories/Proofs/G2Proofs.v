(* C19: flat index arithmetic (ravel / unravel), the C-order <-> F-order round trip. *)
From Coq Require Import List Arith Lia Bool ZArith.
From SplipyModel Require Import Model.Num Model.BasisDef Model.Tensor Model.Obj Model.G2 Proofs.EvalConsequences.
Import ListNotations.

Definition prodn (l : list nat) : nat := fold_right Nat.mul 1 l.

Lemma ravel_lt : forall shape idx, Forall2 lt idx shape -> ravel shape idx < prodn shape.
Proof.
  induction shape as [|n shape IH]; intros idx H; inversion H as [|i ? idx' ? Hi H']; subst; cbn [ravel prodn fold_right].
  - lia.
  - fold (prodn shape). specialize (IH idx' H'). nia.
Qed.

Lemma unravel_ravel : forall shape idx, Forall2 lt idx shape -> unravel shape (ravel shape idx) = idx.
Proof.
  induction shape as [|n shape IH]; intros idx H; inversion H as [|i ? idx' ? Hi H']; subst; cbn [ravel unravel].
  - reflexivity.
  - fold (prodn shape). pose proof (ravel_lt shape idx' H') as Hl.
    assert (Hp : 0 < prodn shape) by lia.
    rewrite (Nat.add_comm (i * prodn shape)). rewrite Nat.div_add by lia. rewrite Nat.div_small by exact Hl.
    rewrite Nat.add_comm, Nat.mod_add by lia. rewrite Nat.mod_small by exact Hl. rewrite Nat.add_0_r. rewrite IH by exact H'. reflexivity.
Qed.

Lemma unravel_bounds : forall shape f, f < prodn shape -> Forall2 lt (unravel shape f) shape.
Proof.
  induction shape as [|n shape IH]; intros f H; cbn [unravel]; [constructor|].
  cbn [prodn fold_right] in H. fold (prodn shape) in *.
  assert (Hp : 0 < prodn shape) by (destruct (prodn shape); lia).
  constructor.
  - apply Nat.div_lt_upper_bound; lia.
  - apply IH. apply Nat.mod_upper_bound. lia.
Qed.

Lemma ravel_unravel : forall shape f, f < prodn shape -> ravel shape (unravel shape f) = f.
Proof.
  induction shape as [|n shape IH]; intros f H; cbn [unravel ravel].
  - cbn in H. lia.
  - cbn [prodn fold_right] in H. fold (prodn shape) in *.
    assert (Hp : 0 < prodn shape) by (destruct (prodn shape); lia).
    rewrite IH by (apply Nat.mod_upper_bound; lia).
    rewrite (Nat.div_mod f (prodn shape)) at 3 by lia. lia.
Qed.

Lemma Forall2_rev {A B} (R : A -> B -> Prop) l1 l2 : Forall2 R l1 l2 -> Forall2 R (rev l1) (rev l2).
Proof.
  induction 1 as [|a b l1 l2 Hab H IH]; cbn [rev]; [constructor|]. apply Forall2_app; [exact IH|constructor; [exact Hab|constructor]].
Qed.

Lemma prodn_rev l : prodn (rev l) = prodn l.
Proof.
  induction l as [|a l IH]; [reflexivity|]. cbn [rev]. unfold prodn in *. rewrite fold_right_app. cbn [fold_right].
  rewrite Nat.mul_1_r. cbn [fold_right].
  assert (G : forall l0 x, fold_right Nat.mul x l0 = x * fold_right Nat.mul 1 l0).
  { induction l0 as [|b l0 IH0]; intros x; cbn [fold_right]; [lia|]. rewrite IH0. lia. }
  rewrite G, IH. lia.
Qed.

(* writing the control points first-index-fastest and reading them back restores the stored (last-index-fastest) net *)
Theorem f2c_c2f {A} (dflt : A) shape (cps : list A) : length cps = prodn shape ->
  f2c dflt shape (c2f dflt shape cps) = cps.
Proof.
  intros L. unfold f2c, c2f, reindex. fold (prodn shape). fold (prodn (rev shape)).
  apply (nth_ext _ _ dflt dflt); [rewrite map_length, seq_length; symmetry; exact L|].
  intros c Hc. rewrite map_length, seq_length in Hc.
  rewrite (nth_map_gen _ (seq 0 (prodn shape)) c dflt 0) by (rewrite seq_length; exact Hc).
  rewrite seq_nth by exact Hc. cbn [Nat.add].
  pose proof (unravel_bounds shape c Hc) as Hb.
  pose proof (Forall2_rev lt _ _ Hb) as Hbr.
  pose proof (ravel_lt (rev shape) (rev (unravel shape c)) Hbr) as Hf. rewrite prodn_rev in Hf.
  rewrite (nth_map_gen _ (seq 0 (prodn (rev shape))) _ dflt 0) by (rewrite seq_length, prodn_rev; exact Hf).
  rewrite seq_nth by (rewrite prodn_rev; exact Hf). cbn [Nat.add].
  rewrite unravel_ravel by exact Hbr. rewrite rev_involutive. rewrite ravel_unravel by exact Hc. reflexivity.
Qed.

Lemma c2f_length {A} (dflt : A) shape (cps : list A) : length (c2f dflt shape cps) = prodn shape.
Proof. unfold c2f, reindex. rewrite map_length, seq_length. fold (prodn (rev shape)). apply prodn_rev. Qed.

(* ---------- decode (encode objects) = objects, over R ---------- *)
From Coq Require Import Reals Lra.
From SplipyModel Require Import Spec.BSpline Proofs.ObjEval.
Open Scope R_scope.

Lemma nfloor_IZR z : @nfloor R NumR (IZR z) = z.
Proof. cbn [nfloor NumR]. apply Rfloor_unique. lra. Qed.
Lemma neqb_refl_R x : @neqb R NumR x x = true.
Proof. cbn [neqb NumR]. destruct (Reqb_spec x x); [reflexivity|congruence]. Qed.
Lemma to_nat_nofnat n : @to_nat R NumR (@nofnat R NumR n) = Some n.
Proof.
  unfold to_nat, nofnat. cbn [nofZ NumR]. rewrite nfloor_IZR. cbn [nofZ NumR]. rewrite neqb_refl_R.
  destruct (Z.leb_spec 0 (Z.of_nat n)); [|lia]. cbn [andb]. rewrite Nat2Z.id. reflexivity.
Qed.

Definition g2_wf (o : obj R) : Prop :=
  (1 <= length (o_bases o) <= 3)%nat /\
  Forall (fun b => b_per1 b = 0%nat /\ (b_order b <= length (b_knots b))%nat) (o_bases o) /\
  length (o_cps o) = prodn (o_shape o).

Lemma read_bases_encode (bs : list (basis R)) rest :
  Forall (fun b => b_per1 b = 0%nat /\ (b_order b <= length (b_knots b))%nat) bs ->
  @read_bases R NumR (length bs) (flat_map (fun b => [[@nofnat R NumR (b_nfun b); @nofnat R NumR (b_order b)]; b_knots b]) bs ++ rest)
  = Some (bs, rest).
Proof.
  induction bs as [|b bs IH]; intros Hw; [reflexivity|].
  inversion Hw as [|? ? [Hp Hl] Hw']; subst. cbn [length flat_map app read_bases].
  rewrite !to_nat_nofnat.
  assert (En : (@b_nfun R b + b_order b = length (b_knots b))%nat) by (unfold b_nfun; rewrite Hp; lia).
  rewrite En, Nat.eqb_refl.
  rewrite IH by exact Hw'.
  destruct b as [p k per]. cbn [b_per1 b_order b_knots] in *. subst per. reflexivity.
Qed.

Theorem g2_decode_encode_obj (o : obj R) rest : g2_wf o ->
  @g2_decode_obj R NumR (@g2_encode_obj R NumR o ++ rest) = Some (o, rest).
Proof.
  intros (Hpd & Hb & Hc). unfold g2_encode_obj, g2_decode_obj. cbn [app].
  rewrite !neqb_refl_R. cbn [andb].
  cbn [nofZ NumR]. rewrite nfloor_IZR. rewrite to_nat_nofnat.
  assert (Ept : @g2_pardim (g2_type (length (o_bases o))) = Some (length (o_bases o))).
  { destruct (length (o_bases o)) as [|[|[|[|n]]]]; try lia; reflexivity. }
  unfold g2_pardim in Ept. unfold g2_pardim. rewrite Ept. cbn [nofZ NumR]. rewrite neqb_refl_R.
  rewrite <- app_assoc. rewrite (read_bases_encode (o_bases o) _ Hb).
  fold (o_shape o). fold (prodn (o_shape o)).
  assert (Lc : length (c2f [] (o_shape o) (o_cps o)) = prodn (o_shape o)) by apply c2f_length.
  replace (prodn (o_shape o) <=? length (c2f [] (o_shape o) (o_cps o) ++ rest))%nat with true
    by (symmetry; apply Nat.leb_le; rewrite app_length; lia).
  rewrite <- Lc at 1 2. rewrite firstn_app, Nat.sub_diag, firstn_all. cbn [firstn]. rewrite app_nil_r.
  rewrite skipn_app, Nat.sub_diag, skipn_all. cbn [skipn app].
  rewrite f2c_c2f by exact Hc.
  destruct o as [bs cps dim rat]. cbn [o_bases o_cps o_dim o_rat] in *.
  destruct rat; cbn [neqb n0 n1 NumR orb andb].
  - destruct (Reqb_spec 1 1); [reflexivity|congruence].
  - destruct (Reqb_spec 0 1); [lra|]. destruct (Reqb_spec 0 0); [reflexivity|congruence].
Qed.

Lemma g2_encode_obj_nonempty (o : obj R) : @g2_encode_obj R NumR o <> [].
Proof. unfold g2_encode_obj. discriminate. Qed.

(* a file holding any list of well-formed objects reads back to exactly that list *)
Theorem g2_decode_encode (os : list (obj R)) : Forall g2_wf os ->
  forall fuel, (length os <= fuel)%nat -> @g2_decode R NumR fuel (@g2_encode R NumR os) = Some os.
Proof.
  induction os as [|o os IH]; intros Hw fuel Hf.
  - destruct fuel; reflexivity.
  - inversion Hw as [|? ? Ho Hw']; subst. destruct fuel as [|fuel]; [cbn in Hf; lia|].
    unfold g2_encode. cbn [flat_map]. fold (@g2_encode R NumR os).
    cbn [g2_decode].
    destruct (@g2_encode_obj R NumR o ++ @g2_encode R NumR os) as [|l ls] eqn:E.
    + exfalso. apply app_eq_nil in E. apply (g2_encode_obj_nonempty o), E.
    + rewrite <- E. rewrite (g2_decode_encode_obj o _ Ho). rewrite IH by (try assumption; cbn in Hf; lia). reflexivity.
Qed.
