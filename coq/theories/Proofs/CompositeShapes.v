(* C13 — composite factory primitives (surface_factory / volume_factory: sphere, torus, cylinder, disc and the solid
   versions) from the building blocks proved in Proofs/CircleProofs.v (conic arc, revolve, extrude) and
   Proofs/PlaceProofs.v (placement by centre and normal).  Instance R.

   Reading guide.  A revolve section point is (X, Y, Z) = (x c - y s, x s + y c, z) with c c + s s = 1
   (conclusion of revolve_section_is_rotated_profile = C13_revolve_sections); an extruded point is the
   base point plus v * amount (extrude_is_translation = C13_extrude_sections); a placed point is
   rv (rv p Ry) Rz + centre (placement_plane / placement_isometry = C13_placement_plane / _isometry). *)
From Coq Require Import List Arith Reals Lra Lia Bool ZArith Psatz.
From Coq Require Nsatz.
From SplipyModel Require Import Spec.BSpline Model.Num Model.Affine Model.Factory Gen.RotationMatrix
  Proofs.EvalConsequences Proofs.CircleProofs Proofs.PlaceProofs.
Import ListNotations.
Open Scope R_scope.

(* ====================================================================================================== *)
(* 1. surfaces of revolution: what every revolve section keeps                                              *)
(* ====================================================================================================== *)

(* the two invariants of a rotation about z: distance to the axis and height *)
Lemma revolve_invariants (c s x y z : R) (X Y Z : R) : c * c + s * s = 1 ->
  X = x * c - y * s -> Y = x * s + y * c -> Z = z ->
  X * X + Y * Y = x * x + y * y /\ Z = z.
Proof.
  intros H -> -> ->. split; [|reflexivity].
  replace ((x * c - y * s) * (x * c - y * s) + (x * s + y * c) * (x * s + y * c))
    with ((x * x + y * y) * (c * c + s * s)) by ring.
  rewrite H. ring.
Qed.

(* result.rotate(rotate_local_x_axis(xaxis, normal)): a further rotation about z (half-angle cosine/sine ca, sa, matrix
   built by the regenerated rotation_matrix kernel) keeps the same two invariants, so every statement below that is
   phrased through X^2 + Y^2 and Z is unchanged by the x-axis alignment *)
Lemma rotate_about_z_invariants (ca sa X Y Z : R) : ca * ca + sa * sa = 1 ->
  let q := rv [X; Y; Z] (rotmat ca (0 - 0 * sa) (0 - 0 * sa) (0 - 1 * sa)) in
  nth 0 q 0 * nth 0 q 0 + nth 1 q 0 * nth 1 q 0 = X * X + Y * Y /\ nth 2 q 0 = Z.
Proof.
  intros H. cbv zeta. unfold rv, vecmat, rotmat.
  cbn [map seq length combine fold_left fst snd nth nadd nsub nmul ndiv nofZ n0 NumR].
  split; Coq.nsatz.NsatzTactic.nsatz_default.
Qed.

(* circle.rotate(pi / 2, (1, 0, 0)): "flip up into the xz-plane" (ch = sh = cos(pi/4) = sin(pi/4)) *)
Lemma flip_into_xz ch sh x y z : ch * ch + sh * sh = 1 -> sh = ch ->
  rv [x; y; z] (rotmat ch (0 - 1 * sh) (0 - 0 * sh) (0 - 0 * sh)) = [x; - z; y].
Proof.
  intros H E. subst sh. unfold rv, vecmat, rotmat.
  cbn [map seq length combine fold_left fst snd nth nadd nsub nmul ndiv nofZ n0 NumR].
  f_equal; [|f_equal; [|f_equal]]; Coq.nsatz.NsatzTactic.nsatz_default.
Qed.

(* ---------- sphere (surface_factory.sphere = revolve of the half circle of radius r in the xz-plane) ---------- *)
Theorem sphere_revolve_section r c s x y z (X Y Z : R) : c * c + s * s = 1 ->
  x * x + y * y + z * z = r * r ->
  X = x * c - y * s -> Y = x * s + y * c -> Z = z ->
  X * X + Y * Y + Z * Z = r * r.
Proof.
  intros H Hs EX EY EZ. destruct (revolve_invariants c s x y z X Y Z H EX EY EZ) as [E1 E2].
  rewrite E1, E2. lra.
Qed.

(* the profile of the sphere: the half circle (x, y, 0) of circle_segment(pi, r), rotated by -pi/2 about z
   (that is (y, -x, 0)) and flipped into the xz-plane, is (y, 0, -x): still at distance r, in the plane y = 0 *)
Lemma sphere_profile ch sh x y r : ch * ch + sh * sh = 1 -> sh = ch -> x * x + y * y = r * r ->
  let p := rv [y; - x; 0] (rotmat ch (0 - 1 * sh) (0 - 0 * sh) (0 - 0 * sh)) in
  p = [y; -0; - x] /\ nth 0 p 0 * nth 0 p 0 + nth 2 p 0 * nth 2 p 0 = r * r.
Proof.
  intros H E Hc. cbv zeta. rewrite (flip_into_xz ch sh y (- x) 0 H E). split; [reflexivity|].
  cbn [nth]. lra.
Qed.

(* ---------- torus (surface_factory.torus = revolve of the circle of radius r centred at (R, 0, 0) in the xz-plane) ---------- *)
(* sqrt-free (quartic) form: no sign condition needed *)
Theorem torus_revolve_section_quartic r Rr c s x z (X Y Z : R) : c * c + s * s = 1 ->
  (x - Rr) * (x - Rr) + z * z = r * r ->
  X = x * c - 0 * s -> Y = x * s + 0 * c -> Z = z ->
  (X * X + Y * Y + Z * Z + Rr * Rr - r * r) * (X * X + Y * Y + Z * Z + Rr * Rr - r * r) = 4 * (Rr * Rr) * (X * X + Y * Y).
Proof.
  intros H Hs EX EY EZ. destruct (revolve_invariants c s x 0 z X Y Z H EX EY EZ) as [E1 E2].
  rewrite E1, E2.
  replace (x * x + 0 * 0 + z * z + Rr * Rr - r * r) with (2 * (x * Rr)) by (rewrite <- Hs; ring).
  ring.
Qed.

(* distance form: the profile must be on the positive side of the axis (x >= 0; true for every profile point as soon
   as r <= R, see torus_profile_positive) *)
Theorem torus_revolve_section r Rr c s x z (X Y Z : R) : c * c + s * s = 1 ->
  (x - Rr) * (x - Rr) + z * z = r * r -> 0 <= x ->
  X = x * c - 0 * s -> Y = x * s + 0 * c -> Z = z ->
  sqrt (X * X + Y * Y) = x /\
  (sqrt (X * X + Y * Y) - Rr) * (sqrt (X * X + Y * Y) - Rr) + Z * Z = r * r.
Proof.
  intros H Hs Hx EX EY EZ. destruct (revolve_invariants c s x 0 z X Y Z H EX EY EZ) as [E1 E2].
  assert (Q : sqrt (X * X + Y * Y) = x).
  { rewrite E1. replace (x * x + 0 * 0) with (x * x) by ring. apply sqrt_square. exact Hx. }
  split; [exact Q|]. rewrite Q, E2. exact Hs.
Qed.

Lemma torus_profile_positive r Rr x z : 0 <= r -> r <= Rr -> (x - Rr) * (x - Rr) + z * z <= r * r -> 0 <= x.
Proof. intros H0 H1 H2. nra. Qed.

(* the profile of the torus: the circle point (x, y, 0) flipped into the xz-plane and translated by (R, 0, 0) *)
Lemma torus_profile ch sh x y r Rr : ch * ch + sh * sh = 1 -> sh = ch -> x * x + y * y = r * r ->
  let p := rv [x; y; 0] (rotmat ch (0 - 1 * sh) (0 - 0 * sh) (0 - 0 * sh)) in
  let px := nth 0 p 0 + Rr in let py := nth 1 p 0 + 0 in let pz := nth 2 p 0 + 0 in
  py = 0 /\ (px - Rr) * (px - Rr) + pz * pz = r * r.
Proof.
  intros H E Hc. cbv zeta. rewrite (flip_into_xz ch sh x y 0 H E). cbn [nth]. split; [ring|].
  replace ((x + Rr - Rr) * (x + Rr - Rr) + (y + 0) * (y + 0)) with (x * x + y * y) by ring. exact Hc.
Qed.

(* solid torus (volume_factory.torus = revolve of the disc of radius r centred at (R, 0, 0) in the xz-plane) *)
Theorem solid_torus_revolve_section r Rr c s x z (X Y Z : R) : c * c + s * s = 1 ->
  (x - Rr) * (x - Rr) + z * z <= r * r -> 0 <= x ->
  X = x * c - 0 * s -> Y = x * s + 0 * c -> Z = z ->
  (sqrt (X * X + Y * Y) - Rr) * (sqrt (X * X + Y * Y) - Rr) + Z * Z <= r * r.
Proof.
  intros H Hs Hx EX EY EZ. destruct (revolve_invariants c s x 0 z X Y Z H EX EY EZ) as [E1 E2].
  assert (Q : sqrt (X * X + Y * Y) = x).
  { rewrite E1. replace (x * x + 0 * 0) with (x * x) by ring. apply sqrt_square. exact Hx. }
  rewrite Q, E2. exact Hs.
Qed.

(* solid ball by revolution (volume_factory.revolve of a half disc): stays within the ball *)
Theorem solid_sphere_revolve_section r c s x y z (X Y Z : R) : c * c + s * s = 1 ->
  x * x + y * y + z * z <= r * r ->
  X = x * c - y * s -> Y = x * s + y * c -> Z = z ->
  X * X + Y * Y + Z * Z <= r * r.
Proof.
  intros H Hs EX EY EZ. destruct (revolve_invariants c s x y z X Y Z H EX EY EZ) as [E1 E2].
  rewrite E1, E2. lra.
Qed.

(* ====================================================================================================== *)
(* 2. chaining with the modelled revolve net (Model/Factory.v revolve_cps / revolve_row)                    *)
(* ====================================================================================================== *)
Section RevolveChain.
Variables prof seg : list (list R).
Variables M N : list R.      (* blending weights over the sweep (seg) and over the profile *)
Local Notation cpt i j := (@revolve_row R NumR (nth i seg []) (nth j prof [])).
Local Notation Sf c := (wsum M (fun i => wsum N (fun j => nth c (cpt i j) 0))).
Local Notation P c := (wsum N (fun j => nth c (nth j prof []) 0)).
Local Notation C c := (wsum M (fun i => nth c (nth i seg []) 0)).
(* the sweep point is on the unit circle (cs_span_on_circle with r = 1) and the weights do not vanish *)
Hypothesis Hc : C 0 * C 0 + C 1 * C 1 = C 2 * C 2.
Hypothesis Hw : C 2 <> 0.
Hypothesis Hp : P 3 <> 0.

(* sphere: the cartesian profile point at distance r from the origin => the cartesian surface point at distance r *)
Theorem sphere_from_revolve_net r :
  (P 0 / P 3) * (P 0 / P 3) + (P 1 / P 3) * (P 1 / P 3) + (P 2 / P 3) * (P 2 / P 3) = r * r ->
  (Sf 0 / Sf 3) * (Sf 0 / Sf 3) + (Sf 1 / Sf 3) * (Sf 1 / Sf 3) + (Sf 2 / Sf 3) * (Sf 2 / Sf 3) = r * r.
Proof.
  intros Hs. destruct (revolve_section_is_rotated_profile prof seg M N Hc Hw Hp) as (H1 & EX & EY & EZ).
  exact (sphere_revolve_section r _ _ _ _ _ _ _ _ H1 Hs EX EY EZ).
Qed.

(* solid ball / any solid of revolution inside the ball *)
Theorem solid_sphere_from_revolve_net r :
  (P 0 / P 3) * (P 0 / P 3) + (P 1 / P 3) * (P 1 / P 3) + (P 2 / P 3) * (P 2 / P 3) <= r * r ->
  (Sf 0 / Sf 3) * (Sf 0 / Sf 3) + (Sf 1 / Sf 3) * (Sf 1 / Sf 3) + (Sf 2 / Sf 3) * (Sf 2 / Sf 3) <= r * r.
Proof.
  intros Hs. destruct (revolve_section_is_rotated_profile prof seg M N Hc Hw Hp) as (H1 & EX & EY & EZ).
  exact (solid_sphere_revolve_section r _ _ _ _ _ _ _ _ H1 Hs EX EY EZ).
Qed.

(* torus: the cartesian profile point in the plane y = 0 on the circle of radius r about (R, 0, 0) *)
Theorem torus_from_revolve_net r Rr :
  P 1 / P 3 = 0 ->
  (P 0 / P 3 - Rr) * (P 0 / P 3 - Rr) + (P 2 / P 3) * (P 2 / P 3) = r * r ->
  let X := Sf 0 / Sf 3 in let Y := Sf 1 / Sf 3 in let Z := Sf 2 / Sf 3 in
  (X * X + Y * Y + Z * Z + Rr * Rr - r * r) * (X * X + Y * Y + Z * Z + Rr * Rr - r * r) = 4 * (Rr * Rr) * (X * X + Y * Y)
  /\ (0 <= P 0 / P 3 -> (sqrt (X * X + Y * Y) - Rr) * (sqrt (X * X + Y * Y) - Rr) + Z * Z = r * r).
Proof.
  intros Hy Hs. destruct (revolve_section_is_rotated_profile prof seg M N Hc Hw Hp) as (H1 & EX & EY & EZ).
  cbv zeta in *. rewrite Hy in EX, EY. split.
  - exact (torus_revolve_section_quartic r Rr _ _ _ _ _ _ _ H1 Hs EX EY EZ).
  - intros Hx. exact (proj2 (torus_revolve_section r Rr _ _ _ _ _ _ _ H1 Hs Hx EX EY EZ)).
Qed.

Theorem solid_torus_from_revolve_net r Rr :
  P 1 / P 3 = 0 -> 0 <= P 0 / P 3 ->
  (P 0 / P 3 - Rr) * (P 0 / P 3 - Rr) + (P 2 / P 3) * (P 2 / P 3) <= r * r ->
  let X := Sf 0 / Sf 3 in let Y := Sf 1 / Sf 3 in let Z := Sf 2 / Sf 3 in
  (sqrt (X * X + Y * Y) - Rr) * (sqrt (X * X + Y * Y) - Rr) + Z * Z <= r * r.
Proof.
  intros Hy Hx Hs. destruct (revolve_section_is_rotated_profile prof seg M N Hc Hw Hp) as (H1 & EX & EY & EZ).
  cbv zeta in *. rewrite Hy in EX, EY.
  exact (solid_torus_revolve_section r Rr _ _ _ _ _ _ _ H1 Hs Hx EX EY EZ).
Qed.
End RevolveChain.

(* ====================================================================================================== *)
(* 3. chaining with the modelled extrude net (Model/Factory.v extrude_cps / extrude_pt)                     *)
(* ====================================================================================================== *)
Lemma nth_skipn_add {A} (n : nat) : forall (l : list A) i d, nth i (skipn n l) d = nth (n + i) l d.
Proof.
  induction n as [|n IH]; intros l i d; [reflexivity|].
  destruct l as [|a l]; [cbn [skipn]; destruct i; reflexivity|]. cbn [skipn Nat.add nth]. apply IH.
Qed.

Section ExtrudeChain.
Variables (dim : nat) (amount : list R) (prof : list (list R)).
Variable N : list R.     (* weights over the profile *)
Variable v : R.          (* the linear direction: weights (1 - v, v) on [0, 1] *)
Hypothesis HN : length N = length prof.
Local Notation n := (length prof).

(* the weight row of the top copy is the weight row of the profile (curve += amount leaves the weights alone) *)
Lemma extrude_top_weight rat j : (j < n)%nat ->
  nth dim (nth (n + j) (@extrude_cps R NumR dim rat amount prof) []) 0 = nth dim (nth j prof []) 0.
Proof.
  intros Hj. unfold extrude_cps. rewrite app_nth2 by lia. replace (n + j - n)%nat with j by lia.
  rewrite (nth_map_gen _ prof j [] []) by exact Hj. unfold extrude_pt. cbv zeta.
  rewrite app_nth2 by (rewrite map_length, seq_length; lia).
  rewrite map_length, seq_length. rewrite nth_skipn_add. f_equal. lia.
Qed.

(* rational profile: the cartesian point of the extruded object is the cartesian profile point plus v * amount *)
Theorem extrude_cartesian_rational c : (c < dim)%nat ->
  let net := @extrude_cps R NumR dim true amount prof in
  let H k := (1 - v) * wsum N (fun j => nth k (nth j net []) 0) + v * wsum N (fun j => nth k (nth (n + j) net []) 0) in
  let P k := wsum N (fun j => nth k (nth j prof []) 0) in
  P dim <> 0 ->
  H dim = P dim /\ H c / H dim = P c / P dim + v * nth c amount 0.
Proof.
  intros Hc. cbv zeta. intros HW.
  assert (EW : (1 - v) * wsum N (fun j => nth dim (nth j (@extrude_cps R NumR dim true amount prof) []) 0)
               + v * wsum N (fun j => nth dim (nth (n + j) (@extrude_cps R NumR dim true amount prof) []) 0)
               = wsum N (fun j => nth dim (nth j prof []) 0)).
  { rewrite (wsum_ext N (fun j => nth dim (nth j (@extrude_cps R NumR dim true amount prof) []) 0) (fun j => nth dim (nth j prof []) 0))
      by (intros j Hj; rewrite (extrude_nth_bottom dim true amount prof) by lia; reflexivity).
    rewrite (wsum_ext N (fun j => nth dim (nth (n + j) (@extrude_cps R NumR dim true amount prof) []) 0) (fun j => nth dim (nth j prof []) 0))
      by (intros j Hj; apply extrude_top_weight; lia).
    ring. }
  split; [exact EW|]. rewrite EW.
  rewrite (extrude_is_translation dim true amount prof N v HN c Hc).
  field. exact HW.
Qed.

(* polynomial profile with weights summing to one *)
Theorem extrude_cartesian_polynomial c : (c < dim)%nat ->
  let net := @extrude_cps R NumR dim false amount prof in
  wsum N (fun _ => 1) = 1 ->
  (1 - v) * wsum N (fun j => nth c (nth j net []) 0) + v * wsum N (fun j => nth c (nth (n + j) net []) 0)
  = wsum N (fun j => nth c (nth j prof []) 0) + v * nth c amount 0.
Proof.
  intros Hc. cbv zeta. intros H1.
  rewrite (extrude_is_translation dim false amount prof N v HN c Hc). rewrite H1. ring.
Qed.
End ExtrudeChain.

(* ====================================================================================================== *)
(* 4. vectors in R^3 as lists (with dot3 of PlaceProofs.v)                                                  *)
(* ====================================================================================================== *)
Definition add3 (a b : list R) : list R := [nth 0 a 0 + nth 0 b 0; nth 1 a 0 + nth 1 b 0; nth 2 a 0 + nth 2 b 0].
Definition sub3 (a b : list R) : list R := [nth 0 a 0 - nth 0 b 0; nth 1 a 0 - nth 1 b 0; nth 2 a 0 - nth 2 b 0].
Definition scal3 (k : R) (a : list R) : list R := [k * nth 0 a 0; k * nth 1 a 0; k * nth 2 a 0].
(* squared distance to the axis through the origin with unit direction n *)
Definition rad2 (d n : list R) : R := dot3 d d - dot3 d n * dot3 d n.

Ltac vec3 := unfold rad2, dot3, add3, sub3, scal3; cbn [nth].

(* ---------- cylinder (surface_factory.cylinder = extrude(circle(r, center, axis), h * axis / |axis|)) ---------- *)
(* base point Bp on the circle of radius r about centre in the plane orthogonal to the unit axis n;
   the extruded point Bp + v * (h n) is on the cylinder of radius r about the axis, at height v h *)
Theorem cylinder_extrude_section r h v (centre n Bp : list R) :
  dot3 n n = 1 -> dot3 (sub3 Bp centre) n = 0 -> dot3 (sub3 Bp centre) (sub3 Bp centre) = r * r ->
  let P := add3 Bp (scal3 v (scal3 h n)) in
  let d := sub3 P centre in
  dot3 d n = v * h /\ rad2 d n = r * r /\ (0 <= v <= 1 -> 0 <= h -> 0 <= dot3 d n <= h).
Proof.
  vec3. intros Hn Ho Hr. cbv zeta. vec3.
  set (n0 := nth 0 n 0) in *. set (n1 := nth 1 n 0) in *. set (n2 := nth 2 n 0) in *.
  set (d0 := nth 0 Bp 0 - nth 0 centre 0) in *. set (d1 := nth 1 Bp 0 - nth 1 centre 0) in *. set (d2 := nth 2 Bp 0 - nth 2 centre 0) in *.
  assert (E : (nth 0 Bp 0 + v * (h * n0) - nth 0 centre 0) * n0 + (nth 1 Bp 0 + v * (h * n1) - nth 1 centre 0) * n1
              + (nth 2 Bp 0 + v * (h * n2) - nth 2 centre 0) * n2 = v * h).
  { replace (v * h) with ((d0 * n0 + d1 * n1 + d2 * n2) + v * h * (n0 * n0 + n1 * n1 + n2 * n2)) by (rewrite Ho, Hn; ring).
    unfold d0, d1, d2. ring. }
  split; [exact E|]. split.
  - rewrite E.
    replace ((nth 0 Bp 0 + v * (h * n0) - nth 0 centre 0) * (nth 0 Bp 0 + v * (h * n0) - nth 0 centre 0)
             + (nth 1 Bp 0 + v * (h * n1) - nth 1 centre 0) * (nth 1 Bp 0 + v * (h * n1) - nth 1 centre 0)
             + (nth 2 Bp 0 + v * (h * n2) - nth 2 centre 0) * (nth 2 Bp 0 + v * (h * n2) - nth 2 centre 0))
      with ((d0 * d0 + d1 * d1 + d2 * d2) + 2 * (v * h) * (d0 * n0 + d1 * n1 + d2 * n2) + (v * h) * (v * h) * (n0 * n0 + n1 * n1 + n2 * n2))
      by (unfold d0, d1, d2; ring).
    rewrite Hr, Ho, Hn. ring.
  - intros Hv Hh. rewrite E. nra.
Qed.

(* the axis-aligned case of the statement: centre at the origin of the plane z = 0, axis e_z *)
Corollary cylinder_z_axis r h v x y : x * x + y * y = r * r ->
  let P := add3 [x; y; 0] (scal3 v (scal3 h [0; 0; 1])) in
  nth 0 P 0 * nth 0 P 0 + nth 1 P 0 * nth 1 P 0 = r * r /\ nth 2 P 0 = v * h /\ (0 <= v <= 1 -> 0 <= h -> 0 <= nth 2 P 0 <= h).
Proof.
  intros Hc. cbv zeta. vec3. split; [|split].
  - replace ((x + v * (h * 0)) * (x + v * (h * 0)) + (y + v * (h * 0)) * (y + v * (h * 0))) with (x * x + y * y) by ring. exact Hc.
  - ring.
  - intros Hv Hh. replace (0 + v * (h * 1)) with (v * h) by ring. nra.
Qed.

(* solid cylinder (volume_factory.cylinder = extrude(disc(r, center, axis), h * axis / |axis|)) *)
Theorem solid_cylinder_extrude_section r h v (centre n Dp : list R) :
  dot3 n n = 1 -> dot3 (sub3 Dp centre) n = 0 -> dot3 (sub3 Dp centre) (sub3 Dp centre) <= r * r ->
  let P := add3 Dp (scal3 v (scal3 h n)) in
  let d := sub3 P centre in
  dot3 d n = v * h /\ rad2 d n <= r * r /\ (0 <= v <= 1 -> 0 <= h -> 0 <= dot3 d n <= h).
Proof.
  vec3. intros Hn Ho Hr. cbv zeta. vec3.
  set (n0 := nth 0 n 0) in *. set (n1 := nth 1 n 0) in *. set (n2 := nth 2 n 0) in *.
  set (d0 := nth 0 Dp 0 - nth 0 centre 0) in *. set (d1 := nth 1 Dp 0 - nth 1 centre 0) in *. set (d2 := nth 2 Dp 0 - nth 2 centre 0) in *.
  assert (E : (nth 0 Dp 0 + v * (h * n0) - nth 0 centre 0) * n0 + (nth 1 Dp 0 + v * (h * n1) - nth 1 centre 0) * n1
              + (nth 2 Dp 0 + v * (h * n2) - nth 2 centre 0) * n2 = v * h).
  { replace (v * h) with ((d0 * n0 + d1 * n1 + d2 * n2) + v * h * (n0 * n0 + n1 * n1 + n2 * n2)) by (rewrite Ho, Hn; ring).
    unfold d0, d1, d2. ring. }
  split; [exact E|]. split.
  - rewrite E.
    replace ((nth 0 Dp 0 + v * (h * n0) - nth 0 centre 0) * (nth 0 Dp 0 + v * (h * n0) - nth 0 centre 0)
             + (nth 1 Dp 0 + v * (h * n1) - nth 1 centre 0) * (nth 1 Dp 0 + v * (h * n1) - nth 1 centre 0)
             + (nth 2 Dp 0 + v * (h * n2) - nth 2 centre 0) * (nth 2 Dp 0 + v * (h * n2) - nth 2 centre 0))
      with ((d0 * d0 + d1 * d1 + d2 * d2) + 2 * (v * h) * (d0 * n0 + d1 * n1 + d2 * n2) + (v * h) * (v * h) * (n0 * n0 + n1 * n1 + n2 * n2))
      by (unfold d0, d1, d2; ring).
    rewrite Ho, Hn. lra.
  - intros Hv Hh. rewrite E. nra.
Qed.

(* ====================================================================================================== *)
(* 5. discs and balls by linear interpolation towards the centre                                            *)
(*    surface_factory.disc(type='radial') = edge_curves(c1 * 0 + centre, c1) with c1 the circle;            *)
(*    volume_factory.sphere(type='radial') = edge_surfaces(shell, shell * 0 + centre)                       *)
(* ====================================================================================================== *)

(* "c1 * 0 + centre": control point j of the centre curve is (centre * w_j, w_j) with w_j the weight of the circle's
   control point j, so its blended homogeneous coordinate is centre_c times the blended weight of the circle *)
Lemma centre_curve_blend (N : list R) (circ : list (list R)) (k : R) (wi : nat) :
  wsum N (fun j => k * nth wi (nth j circ []) 0) = k * wsum N (fun j => nth wi (nth j circ []) 0).
Proof. unfold wsum. rewrite <- sumf_scal. apply sumf_ext. intros; ring. Qed.

(* the ruled surface between two homogeneous curves with the same weight function W: in cartesian coordinates it is
   the straight interpolation between the cartesian points (k is the centre coordinate, Xh / W the circle's) *)
Lemma ruled_same_weight k Xh W u : W <> 0 ->
  ((1 - u) * (k * W) + u * Xh) / ((1 - u) * W + u * W) = (1 - u) * k + u * (Xh / W).
Proof. intros HW. replace ((1 - u) * W + u * W) with W by ring. field. exact HW. Qed.

(* the interpolated point is at distance u r from the centre and stays in every plane through the centre that
   contains the boundary point; in particular it is inside the disc / ball of radius r *)
Theorem radial_interpolation r u (centre Q n : list R) : 0 <= r -> 0 <= u <= 1 ->
  dot3 (sub3 Q centre) (sub3 Q centre) = r * r ->
  let P := add3 (scal3 (1 - u) centre) (scal3 u Q) in
  let d := sub3 P centre in
  dot3 d d = (u * r) * (u * r) /\ sqrt (dot3 d d) = u * r /\ dot3 d d <= r * r /\
  dot3 d n = u * dot3 (sub3 Q centre) n.
Proof.
  intros Hr Hu. vec3. intros HQ. cbv zeta. vec3.
  set (d0 := nth 0 Q 0 - nth 0 centre 0) in *. set (d1 := nth 1 Q 0 - nth 1 centre 0) in *. set (d2 := nth 2 Q 0 - nth 2 centre 0) in *.
  assert (E : ((1 - u) * nth 0 centre 0 + u * nth 0 Q 0 - nth 0 centre 0) * ((1 - u) * nth 0 centre 0 + u * nth 0 Q 0 - nth 0 centre 0)
            + ((1 - u) * nth 1 centre 0 + u * nth 1 Q 0 - nth 1 centre 0) * ((1 - u) * nth 1 centre 0 + u * nth 1 Q 0 - nth 1 centre 0)
            + ((1 - u) * nth 2 centre 0 + u * nth 2 Q 0 - nth 2 centre 0) * ((1 - u) * nth 2 centre 0 + u * nth 2 Q 0 - nth 2 centre 0)
            = (u * r) * (u * r)).
  { replace ((u * r) * (u * r)) with (u * u * (d0 * d0 + d1 * d1 + d2 * d2)) by (rewrite HQ; ring). unfold d0, d1, d2. ring. }
  assert (B1 : 0 <= u * r) by (apply Rmult_le_pos; lra).
  assert (B2 : u * r <= r) by (replace r with (1 * r) at 2 by ring; apply Rmult_le_compat_r; lra).
  split; [exact E|]. split; [rewrite E; apply sqrt_square; exact B1|]. split; [rewrite E; apply Rmult_le_compat; assumption|].
  unfold d0, d1, d2. ring.
Qed.

(* planar reading (the radial disc in its own plane, centre (cx, cy), circle point (qx, qy)) *)
Corollary radial_disc_plane r u cx cy qx qy : 0 <= r -> 0 <= u <= 1 ->
  (qx - cx) * (qx - cx) + (qy - cy) * (qy - cy) = r * r ->
  let px := (1 - u) * cx + u * qx in let py := (1 - u) * cy + u * qy in
  (px - cx) * (px - cx) + (py - cy) * (py - cy) = (u * r) * (u * r) /\
  (px - cx) * (px - cx) + (py - cy) * (py - cy) <= r * r.
Proof.
  intros Hr Hu HQ. cbv zeta.
  assert (E : ((1 - u) * cx + u * qx - cx) * ((1 - u) * cx + u * qx - cx) + ((1 - u) * cy + u * qy - cy) * ((1 - u) * cy + u * qy - cy)
              = (u * r) * (u * r)).
  { replace ((u * r) * (u * r)) with (u * u * ((qx - cx) * (qx - cx) + (qy - cy) * (qy - cy))) by (rewrite HQ; ring). ring. }
  split; [exact E|]. rewrite E.
  assert (B1 : 0 <= u * r) by (apply Rmult_le_pos; lra).
  assert (B2 : u * r <= r) by (replace r with (1 * r) at 2 by ring; apply Rmult_le_compat_r; lra).
  apply Rmult_le_compat; assumption.
Qed.

(* ====================================================================================================== *)
(* 6. surface_factory.disc(type='square'): one biquadratic rational patch.                                  *)
(*    NOTE: in the source this is a hard-coded 3 x 3 net, not a Coons patch.  The net below is a hand        *)
(*    transcription of the list `cp` of the source (homogeneous rows, w = 1 / sqrt 2); control point (i, j)   *)
(*    (i along u, j along v) is entry i + 3 j.                                                              *)
(* ====================================================================================================== *)
Definition disc_square_net (r w : R) : list (list R) :=
  [[- (r * w); - (r * w); 1]; [0; - r; w]; [r * w; - (r * w); 1];
   [- r; 0; w];               [0; 0; 1];   [r; 0; w];
   [- (r * w); r * w; 1];     [0; r; w];   [r * w; r * w; 1]].

Definition blend3 (f : list R -> R) (P0 P1 P2 : list R) (b0 b1 b2 : R) : R := b0 * f P0 + b1 * f P1 + b2 * f P2.

(* the four boundary curves (v = 0, v = 1, u = 0, u = 1) are quarter arcs of the circle of radius r: with Bernstein
   weights (b1^2 = 4 b0 b2, C13_quadratic_weights_are_bernstein) the homogeneous point satisfies X^2 + Y^2 = r^2 W^2 *)
Theorem disc_square_boundary r w b0 b1 b2 : w * w = 1 / 2 -> b1 * b1 = 4 * (b0 * b2) ->
  let net := disc_square_net r w in
  forall i0 i1 i2, In (i0, i1, i2) [(0, 1, 2); (6, 7, 8); (0, 3, 6); (2, 5, 8)]%nat ->
  let P0 := nth i0 net [] in let P1 := nth i1 net [] in let P2 := nth i2 net [] in
  blend3 hx P0 P1 P2 b0 b1 b2 * blend3 hx P0 P1 P2 b0 b1 b2 + blend3 hy P0 P1 P2 b0 b1 b2 * blend3 hy P0 P1 P2 b0 b1 b2
  = r * r * (blend3 hw P0 P1 P2 b0 b1 b2 * blend3 hw P0 P1 P2 b0 b1 b2)
  /\ hw P0 = 1 /\ hw P1 = w /\ hw P2 = 1.
Proof.
  intros Hw Hb net i0 i1 i2 Hin. cbv zeta.
  assert (Hw2 : 2 * (w * w) = 1) by lra.
  cbn [In] in Hin.
  destruct Hin as [E|[E|[E|[E|[]]]]]; injection E as <- <- <-; subst net; unfold disc_square_net, blend3, hx, hy, hw; cbn [nth];
    (split; [|repeat split; reflexivity]).
  all: clear Hw; Coq.nsatz.NsatzTactic.nsatz_default.
Qed.

(* the tensor-product blend of the 3 x 3 net: a over u (fast index), b over v *)
Definition blend33 (f : list R -> R) (net : list (list R)) (a0 a1 a2 b0 b1 b2 : R) : R :=
  b0 * (a0 * f (nth 0 net []) + a1 * f (nth 1 net []) + a2 * f (nth 2 net [])) +
  b1 * (a0 * f (nth 3 net []) + a1 * f (nth 4 net []) + a2 * f (nth 5 net [])) +
  b2 * (a0 * f (nth 6 net []) + a1 * f (nth 7 net []) + a2 * f (nth 8 net [])).

(* every point of the patch (Bernstein weights in both directions) is inside the disc of radius r *)
Theorem disc_square_inside r w a0 a1 a2 b0 b1 b2 : w * w = 1 / 2 -> 0 < w ->
  0 <= a0 -> 0 <= a1 -> 0 <= a2 -> 0 <= b0 -> 0 <= b1 -> 0 <= b2 ->
  a1 * a1 = 4 * (a0 * a2) -> b1 * b1 = 4 * (b0 * b2) -> a0 + a1 + a2 = 1 -> b0 + b1 + b2 = 1 ->
  let net := disc_square_net r w in
  let X := blend33 hx net a0 a1 a2 b0 b1 b2 in
  let Y := blend33 hy net a0 a1 a2 b0 b1 b2 in
  let W := blend33 hw net a0 a1 a2 b0 b1 b2 in
  0 < W /\ X * X + Y * Y <= r * r * (W * W) /\ (X / W) * (X / W) + (Y / W) * (Y / W) <= r * r.
Proof.
  intros Hw Hwp Ha0 Ha1 Ha2 Hb0 Hb1 Hb2 Ha Hb Sa Sb. cbv zeta.
  unfold blend33, disc_square_net, hx, hy, hw. cbn [nth].
  set (A := w * (a0 + a2) + a1). set (A' := (a0 + a2) + w * a1).
  set (Bq := w * (b0 + b2) + b1). set (B' := (b0 + b2) + w * b1).
  match goal with |- 0 < ?W /\ ?X * ?X + ?Y * ?Y <= _ /\ _ => set (Wv := W); set (Xv := X); set (Yv := Y) end.
  assert (EX : Xv = r * (a2 - a0) * Bq) by (unfold Xv, Bq; ring).
  assert (EY : Yv = r * (b2 - b0) * A) by (unfold Yv, A; ring).
  assert (EW : Wv = A' * B' + a1 * b1 / 2).
  { replace (a1 * b1 / 2) with (a1 * b1 * (1 - 1 / 2)) by field. rewrite <- Hw. unfold Wv, A', B'. ring. }
  assert (Ka : (a2 - a0) * (a2 - a0) = 2 * (A' * A' - A * A)).
  { replace (A' * A' - A * A) with ((1 - w * w) * ((a0 + a2) * (a0 + a2) - a1 * a1)) by (unfold A, A'; ring).
    rewrite Hw, Ha. field. }
  assert (Kb : (b2 - b0) * (b2 - b0) = 2 * (B' * B' - Bq * Bq)).
  { replace (B' * B' - Bq * Bq) with ((1 - w * w) * ((b0 + b2) * (b0 + b2) - b1 * b1)) by (unfold Bq, B'; ring).
    rewrite Hw, Hb. field. }
  assert (La : 2 * (A * A) - A' * A' = 2 * (w * ((a0 + a2) * a1)) + 3 / 2 * (a1 * a1)).
  { replace (2 * (A * A) - A' * A') with ((2 * (w * w) - 1) * ((a0 + a2) * (a0 + a2)) + 2 * (w * ((a0 + a2) * a1)) + (2 - w * w) * (a1 * a1)) by (unfold A, A'; ring).
    rewrite Hw. field. }
  assert (Lb : 2 * (Bq * Bq) - B' * B' = 2 * (w * ((b0 + b2) * b1)) + 3 / 2 * (b1 * b1)).
  { replace (2 * (Bq * Bq) - B' * B') with ((2 * (w * w) - 1) * ((b0 + b2) * (b0 + b2)) + 2 * (w * ((b0 + b2) * b1)) + (2 - w * w) * (b1 * b1)) by (unfold Bq, B'; ring).
    rewrite Hw. field. }
  assert (PA : 0 <= 2 * (A * A) - A' * A').
  { rewrite La. assert (0 <= w * ((a0 + a2) * a1)) by (apply Rmult_le_pos; [lra|apply Rmult_le_pos; lra]). nra. }
  assert (PB : 0 <= 2 * (Bq * Bq) - B' * B').
  { rewrite Lb. assert (0 <= w * ((b0 + b2) * b1)) by (apply Rmult_le_pos; [lra|apply Rmult_le_pos; lra]). nra. }
  assert (A'pos : 0 < A').
  { unfold A'. destruct (Rle_lt_dec a1 0) as [Z|Z]; [|nra]. assert (a1 = 0) by lra. subst a1. lra. }
  assert (B'pos : 0 < B').
  { unfold B'. destruct (Rle_lt_dec b1 0) as [Z|Z]; [|nra]. assert (b1 = 0) by lra. subst b1. lra. }
  assert (Wpos : 0 < Wv).
  { rewrite EW. assert (0 < A' * B') by (apply Rmult_lt_0_compat; assumption).
    assert (0 <= a1 * b1) by (apply Rmult_le_pos; assumption). lra. }
  assert (Main : Xv * Xv + Yv * Yv <= r * r * (Wv * Wv)).
  { replace (Xv * Xv + Yv * Yv) with (r * r * ((a2 - a0) * (a2 - a0) * (Bq * Bq) + (b2 - b0) * (b2 - b0) * (A * A))) by (rewrite EX, EY; ring).
    rewrite Ka, Kb. apply Rmult_le_compat_l; [nra|].
    rewrite EW.
    assert (I : (A' * B' + a1 * b1 / 2) * (A' * B' + a1 * b1 / 2)
                - (2 * (A' * A' - A * A) * (Bq * Bq) + 2 * (B' * B' - Bq * Bq) * (A * A))
                = (a1 * b1 / 2) * (2 * (A' * B') + a1 * b1 / 2) + (2 * (A * A) - A' * A') * (2 * (Bq * Bq) - B' * B')) by field.
    assert (0 <= (a1 * b1 / 2) * (2 * (A' * B') + a1 * b1 / 2)).
    { assert (0 <= a1 * b1) by (apply Rmult_le_pos; assumption).
      assert (0 < A' * B') by (apply Rmult_lt_0_compat; assumption).
      apply Rmult_le_pos; lra. }
    assert (0 <= (2 * (A * A) - A' * A') * (2 * (Bq * Bq) - B' * B')) by (apply Rmult_le_pos; assumption).
    lra. }
  split; [exact Wpos|]. split; [exact Main|].
  replace (Xv / Wv * (Xv / Wv) + Yv / Wv * (Yv / Wv)) with ((Xv * Xv + Yv * Yv) / (Wv * Wv)) by (field; lra).
  assert (W2 : 0 < Wv * Wv) by (apply Rmult_lt_0_compat; assumption).
  apply (Rmult_le_reg_r (Wv * Wv)); [exact W2|].
  replace ((Xv * Xv + Yv * Yv) / (Wv * Wv) * (Wv * Wv)) with (Xv * Xv + Yv * Yv) by (field; lra).
  exact Main.
Qed.

(* the weight of the source: w = 1 / sqrt(2) satisfies the two hypotheses on w used above *)
Lemma disc_square_weight : let w := 1 / sqrt 2 in w * w = 1 / 2 /\ 0 < w.
Proof.
  cbv zeta. pose proof sqrt2_sq as Q. pose proof sqrt2_pos as Ps. split.
  - replace (1 / sqrt 2 * (1 / sqrt 2)) with (1 / (sqrt 2 * sqrt 2)) by (field; lra). rewrite Q. reflexivity.
  - apply Rdiv_lt_0_compat; lra.
Qed.

(* ====================================================================================================== *)
(* 6b. cylinders straight from the modelled extrude net (3-D rational profile, amount = h * n)              *)
(* ====================================================================================================== *)
Section CylinderChain.
Variables (prof : list (list R)) (N : list R) (v h : R) (n centre : list R).
Hypothesis HN : length N = length prof.
Local Notation amount := (scal3 h n).
Local Notation net := (@extrude_cps R NumR 3 true amount prof).
Local Notation Hh k := ((1 - v) * wsum N (fun j => nth k (nth j net []) 0) + v * wsum N (fun j => nth k (nth (length prof + j) net []) 0)).
Local Notation P k := (wsum N (fun j => nth k (nth j prof []) 0)).
Hypothesis HW : P 3 <> 0.
Local Notation Bp := [P 0 / P 3; P 1 / P 3; P 2 / P 3].      (* cartesian point of the profile (circle or disc) *)
Local Notation Q := [Hh 0 / Hh 3; Hh 1 / Hh 3; Hh 2 / Hh 3]. (* cartesian point of the extruded object *)

Lemma extrude_point_is_translated : Q = add3 Bp (scal3 v (scal3 h n)).
Proof.
  unfold add3, scal3. cbn [nth].
  destruct (extrude_cartesian_rational 3 amount prof N v HN 0 ltac:(lia) HW) as (_ & E0).
  destruct (extrude_cartesian_rational 3 amount prof N v HN 1 ltac:(lia) HW) as (_ & E1).
  destruct (extrude_cartesian_rational 3 amount prof N v HN 2 ltac:(lia) HW) as (_ & E2).
  cbv zeta in E0, E1, E2. unfold scal3 in E0, E1, E2. cbn [nth] in E0, E1, E2.
  rewrite E0, E1, E2. reflexivity.
Qed.

(* surface_factory.cylinder: the profile point on the circle => the surface point on the cylinder *)
Theorem cylinder_from_extrude_net r :
  dot3 n n = 1 -> dot3 (sub3 Bp centre) n = 0 -> dot3 (sub3 Bp centre) (sub3 Bp centre) = r * r ->
  let d := sub3 Q centre in
  dot3 d n = v * h /\ rad2 d n = r * r /\ (0 <= v <= 1 -> 0 <= h -> 0 <= dot3 d n <= h).
Proof.
  intros Hn Ho Hr. rewrite extrude_point_is_translated.
  exact (cylinder_extrude_section r h v centre n Bp Hn Ho Hr).
Qed.

(* volume_factory.cylinder: the profile point in the disc => the volume point in the solid cylinder *)
Theorem solid_cylinder_from_extrude_net r :
  dot3 n n = 1 -> dot3 (sub3 Bp centre) n = 0 -> dot3 (sub3 Bp centre) (sub3 Bp centre) <= r * r ->
  let d := sub3 Q centre in
  dot3 d n = v * h /\ rad2 d n <= r * r /\ (0 <= v <= 1 -> 0 <= h -> 0 <= dot3 d n <= h).
Proof.
  intros Hn Ho Hr. rewrite extrude_point_is_translated.
  exact (solid_cylinder_extrude_section r h v centre n Bp Hn Ho Hr).
Qed.
End CylinderChain.

(* ====================================================================================================== *)
(* 7. placement by centre and normal (flip_and_move_plane_geometry): rotate(phi, y), rotate(theta, z), translate *)
(*    cp, sp = cos, sin(phi/2); ct, st = cos, sin(theta/2); nrm = the requested unit normal / axis           *)
(* ====================================================================================================== *)
Lemma rv_eta v M : rv v M = [nth 0 (rv v M) 0; nth 1 (rv v M) 0; nth 2 (rv v M) 0].
Proof. unfold rv, vecmat. cbn [seq map nth]. reflexivity. Qed.

Lemma sub_add3_dot q c w : dot3 (sub3 (add3 q c) c) w = dot3 q w.
Proof. vec3. ring. Qed.
Lemma sub_add3_norm q c : dot3 (sub3 (add3 q c) c) (sub3 (add3 q c) c) = dot3 q q.
Proof. vec3. ring. Qed.

Section Placed.
Variables cp sp ct st : R.
Hypothesis Hp : cp * cp + sp * sp = 1.
Hypothesis Ht : ct * ct + st * st = 1.
Local Notation Ry := (@rotmat R NumR cp (0 - 0 * sp) (0 - 1 * sp) (0 - 0 * sp)).
Local Notation Rz := (@rotmat R NumR ct (0 - 0 * st) (0 - 0 * st) (0 - 1 * st)).
Local Notation nr := (nrm cp sp ct st).

(* the placed point: rotate, then translate by the centre *)
Definition place (centre p : list R) : list R := add3 (rv (rv p Ry) Rz) centre.

Ltac unfold_rot := unfold rv, vecmat, dot3, nrm, rotmat; cbv zeta;
  cbn [map seq length combine fold_left fst snd nth nadd nsub nmul ndiv nofZ n0 NumR].

Lemma nrm_unit : dot3 nr nr = 1.
Proof. unfold_rot. Coq.nsatz.NsatzTactic.nsatz_default. Qed.

(* the component of a placed vector along the normal is its local z component *)
Lemma placement_axial x y z : dot3 (rv (rv [x; y; z] Ry) Rz) nr = z.
Proof. unfold_rot. Coq.nsatz.NsatzTactic.nsatz_default. Qed.

(* the frame of a placed point: height over the plane through the centre, distance to the centre, distance to the axis *)
Theorem placement_frame centre (X Y Z : R) :
  let d := sub3 (place centre [X; Y; Z]) centre in
  dot3 d nr = Z /\ dot3 d d = X * X + Y * Y + Z * Z /\ rad2 d nr = X * X + Y * Y.
Proof.
  cbv zeta. unfold place, rad2. rewrite sub_add3_dot, sub_add3_norm.
  rewrite placement_axial. rewrite (placement_isometry cp sp ct st Hp Ht X Y Z).
  repeat split; ring.
Qed.

(* ---------- sphere ---------- *)
Theorem sphere_placed r centre (X Y Z : R) : X * X + Y * Y + Z * Z = r * r ->
  let Q := place centre [X; Y; Z] in dot3 (sub3 Q centre) (sub3 Q centre) = r * r.
Proof. intros H. cbv zeta. destruct (placement_frame centre X Y Z) as (_ & E & _). rewrite E. exact H. Qed.

Theorem solid_sphere_placed r centre (X Y Z : R) : X * X + Y * Y + Z * Z <= r * r ->
  let Q := place centre [X; Y; Z] in dot3 (sub3 Q centre) (sub3 Q centre) <= r * r.
Proof. intros H. cbv zeta. destruct (placement_frame centre X Y Z) as (_ & E & _). rewrite E. exact H. Qed.

(* ---------- torus: axis = the requested normal through the centre ---------- *)
Theorem torus_placed_quartic r Rr centre (X Y Z : R) :
  (X * X + Y * Y + Z * Z + Rr * Rr - r * r) * (X * X + Y * Y + Z * Z + Rr * Rr - r * r) = 4 * (Rr * Rr) * (X * X + Y * Y) ->
  let d := sub3 (place centre [X; Y; Z]) centre in
  (dot3 d d + Rr * Rr - r * r) * (dot3 d d + Rr * Rr - r * r) = 4 * (Rr * Rr) * rad2 d nr.
Proof. intros H. cbv zeta. destruct (placement_frame centre X Y Z) as (_ & E & E'). rewrite E, E'. exact H. Qed.

Theorem torus_placed r Rr centre (X Y Z : R) :
  (sqrt (X * X + Y * Y) - Rr) * (sqrt (X * X + Y * Y) - Rr) + Z * Z = r * r ->
  let d := sub3 (place centre [X; Y; Z]) centre in
  (sqrt (rad2 d nr) - Rr) * (sqrt (rad2 d nr) - Rr) + dot3 d nr * dot3 d nr = r * r.
Proof. intros H. cbv zeta. destruct (placement_frame centre X Y Z) as (E0 & _ & E'). rewrite E0, E'. exact H. Qed.

Theorem solid_torus_placed r Rr centre (X Y Z : R) :
  (sqrt (X * X + Y * Y) - Rr) * (sqrt (X * X + Y * Y) - Rr) + Z * Z <= r * r ->
  let d := sub3 (place centre [X; Y; Z]) centre in
  (sqrt (rad2 d nr) - Rr) * (sqrt (rad2 d nr) - Rr) + dot3 d nr * dot3 d nr <= r * r.
Proof. intros H. cbv zeta. destruct (placement_frame centre X Y Z) as (E0 & _ & E'). rewrite E0, E'. exact H. Qed.

(* ---------- disc: in the plane through the centre orthogonal to the normal, within distance r ---------- *)
Theorem disc_placed r centre x y : x * x + y * y <= r * r ->
  let d := sub3 (place centre [x; y; 0]) centre in
  dot3 d nr = 0 /\ dot3 d d <= r * r.
Proof.
  intros H. cbv zeta. destruct (placement_frame centre x y 0) as (E0 & E & _). rewrite E0, E.
  split; [reflexivity|]. lra.
Qed.
Theorem circle_placed r centre x y : x * x + y * y = r * r ->
  let d := sub3 (place centre [x; y; 0]) centre in
  dot3 d nr = 0 /\ dot3 d d = r * r.
Proof.
  intros H. cbv zeta. destruct (placement_frame centre x y 0) as (E0 & E & _). rewrite E0, E.
  split; [reflexivity|]. lra.
Qed.

(* ---------- cylinder: placed circle extruded by h * normal ---------- *)
Theorem cylinder_placed r h v centre x y : x * x + y * y = r * r ->
  let P := add3 (place centre [x; y; 0]) (scal3 v (scal3 h nr)) in
  let d := sub3 P centre in
  dot3 d nr = v * h /\ rad2 d nr = r * r /\ (0 <= v <= 1 -> 0 <= h -> 0 <= dot3 d nr <= h).
Proof.
  intros H. destruct (circle_placed r centre x y H) as (E0 & E).
  exact (cylinder_extrude_section r h v centre nr (place centre [x; y; 0]) nrm_unit E0 E).
Qed.
Theorem solid_cylinder_placed r h v centre x y : x * x + y * y <= r * r ->
  let P := add3 (place centre [x; y; 0]) (scal3 v (scal3 h nr)) in
  let d := sub3 P centre in
  dot3 d nr = v * h /\ rad2 d nr <= r * r /\ (0 <= v <= 1 -> 0 <= h -> 0 <= dot3 d nr <= h).
Proof.
  intros H. destruct (disc_placed r centre x y H) as (E0 & E).
  exact (solid_cylinder_extrude_section r h v centre nr (place centre [x; y; 0]) nrm_unit E0 E).
Qed.

(* ---------- the whole factory chain after the revolve: x-axis alignment (rotation about z), then placement ---------- *)
Theorem sphere_factory_chain r ca sa centre (X Y Z : R) : ca * ca + sa * sa = 1 ->
  X * X + Y * Y + Z * Z = r * r ->
  let q1 := rv [X; Y; Z] (rotmat ca (0 - 0 * sa) (0 - 0 * sa) (0 - 1 * sa)) in
  let Q := place centre q1 in
  dot3 (sub3 Q centre) (sub3 Q centre) = r * r.
Proof.
  intros Ha H. cbv zeta. destruct (rotate_about_z_invariants ca sa X Y Z Ha) as (E1 & E2). cbv zeta in E1, E2.
  rewrite rv_eta. apply sphere_placed. rewrite E1, E2. exact H.
Qed.
Theorem torus_factory_chain r Rr ca sa centre (X Y Z : R) : ca * ca + sa * sa = 1 ->
  (X * X + Y * Y + Z * Z + Rr * Rr - r * r) * (X * X + Y * Y + Z * Z + Rr * Rr - r * r) = 4 * (Rr * Rr) * (X * X + Y * Y) ->
  let q1 := rv [X; Y; Z] (rotmat ca (0 - 0 * sa) (0 - 0 * sa) (0 - 1 * sa)) in
  let d := sub3 (place centre q1) centre in
  (dot3 d d + Rr * Rr - r * r) * (dot3 d d + Rr * Rr - r * r) = 4 * (Rr * Rr) * rad2 d nr.
Proof.
  intros Ha H. cbv zeta. destruct (rotate_about_z_invariants ca sa X Y Z Ha) as (E1 & E2). cbv zeta in E1, E2.
  rewrite rv_eta. apply torus_placed_quartic. rewrite E2.
  replace (nth 0 (rv [X; Y; Z] (rotmat ca (0 - 0 * sa) (0 - 0 * sa) (0 - 1 * sa))) 0 * nth 0 (rv [X; Y; Z] (rotmat ca (0 - 0 * sa) (0 - 0 * sa) (0 - 1 * sa))) 0
           + nth 1 (rv [X; Y; Z] (rotmat ca (0 - 0 * sa) (0 - 0 * sa) (0 - 1 * sa))) 0 * nth 1 (rv [X; Y; Z] (rotmat ca (0 - 0 * sa) (0 - 0 * sa) (0 - 1 * sa))) 0
           + Z * Z + Rr * Rr - r * r) with (X * X + Y * Y + Z * Z + Rr * Rr - r * r) by (rewrite E1; ring).
  rewrite E1. exact H.
Qed.
End Placed.

(* ====================================================================================================== *)
(* 8. non-vacuity: the hypotheses of the net-level theorems are met by concrete (one-point) nets              *)
(* ====================================================================================================== *)
Example sphere_chain_nonvacuous :
  let prof := [[3; 0; 4; 5]] in let seg := [[3; 4; 5]] in let M := [1] in let N := [1] in
  let Sf c := wsum M (fun i => wsum N (fun j => nth c (@revolve_row R NumR (nth i seg []) (nth j prof [])) 0)) in
  (Sf 0%nat / Sf 3%nat) * (Sf 0%nat / Sf 3%nat) + (Sf 1%nat / Sf 3%nat) * (Sf 1%nat / Sf 3%nat) + (Sf 2%nat / Sf 3%nat) * (Sf 2%nat / Sf 3%nat) = 1 * 1.
Proof.
  cbv zeta. apply sphere_from_revolve_net; unfold wsum; cbn [length sumf nth Nat.add]; lra.
Qed.
Example cylinder_chain_nonvacuous v : 0 <= v <= 1 ->
  let prof := [[6; 8; 0; 2]] in let N := [1] in let n := [0; 0; 1] in let h := 7 in
  let net := @extrude_cps R NumR 3 true (scal3 h n) prof in
  let Hh k := (1 - v) * wsum N (fun j => nth k (nth j net []) 0) + v * wsum N (fun j => nth k (nth (length prof + j) net []) 0) in
  let d := sub3 [Hh 0%nat / Hh 3%nat; Hh 1%nat / Hh 3%nat; Hh 2%nat / Hh 3%nat] [0; 0; 0] in
  dot3 d n = v * 7 /\ rad2 d n = 5 * 5.
Proof.
  intros Hv. cbv zeta.
  destruct (cylinder_from_extrude_net [[6; 8; 0; 2]] [1] v 7 [0; 0; 1] [0; 0; 0] eq_refl) with (r := 5) as (A & B & _).
  - unfold wsum; cbn [length sumf nth Nat.add]. lra.
  - unfold dot3; cbn [nth]. ring.
  - unfold wsum, dot3, sub3; cbn [length sumf nth Nat.add]. field.
  - unfold wsum, dot3, sub3; cbn [length sumf nth Nat.add]. field.
  - split; assumption.
Qed.

