(* The R instance of the polymorphic reference definitions is the Spec. *)
From Coq Require Import List Arith Reals Lra Lia Bool ZArith.
From SplipyModel Require Import Spec.BSpline Model.Num Model.BasisDef.
Open Scope R_scope.

Lemma wq_R a b t : @wq R NumR a b t = w a b t.
Proof. reflexivity. Qed.
Lemma Bq0_R side a b t : @Bq0 R NumR side a b t = B0 side a b t.
Proof. reflexivity. Qed.
Lemma Bq_R side k q : forall i t, @Bq R NumR side k q i t = B side k q i t.
Proof. induction q as [|q IH]; intros i t; cbn [Bq B]; [reflexivity|]. rewrite !IH. reflexivity. Qed.

From SplipyModel Require Import Spec.Deriv.
Lemma dq_R a b x : @dq R NumR a b x = dqR a b x.
Proof. reflexivity. Qed.
Lemma nofnat_R n : @nofnat R NumR n = INR n.
Proof. unfold nofnat. cbn. symmetry. apply INR_IZR_INZ. Qed.
Lemma dBq_R side k r : forall q i t, @dBq R NumR side k r q i t = dB side k r q i t.
Proof.
  induction r as [|r IH]; intros q i t; cbn [dBq dB]; [apply Bq_R|].
  destruct q as [|q]; [reflexivity|].
  rewrite !IH, nofnat_R. reflexivity.
Qed.
