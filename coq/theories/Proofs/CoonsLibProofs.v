(* C15: the control net surface_factory.coons_patch computes (Model/CoonsLib.v: s1 + s2 - s3 on the refined nets)
   IS the abstract bilinearly blended net coons_net of Proofs/EdgeLoopBridge.v, entry by entry, for all n, m.

   0. ruled_refined_row: justification of the model input (linear precision, from Proofs/Greville.v).
   1. coons_lib_net_eq: library net = coons_net.
   2. coons_lib_bottom / top / left / right: its boundary rows / columns are the four input nets; left / right need
      no corner hypothesis, bottom / top need the two corners at their side;  coons_lib_corner_refuted;
      grev_first / grev_last + grev01_ends: the Greville abscissae of a clamped basis reparametrised to [0,1] are 0 / 1
      at the ends (the hypotheses on g, h are met by what the code uses);
      coons_lib_surface_edges: the surface object with the library net has the four curve objects as edges.
   3. rational: the same statements hold on the homogeneous rows (nothing in 1-2 looks at o_rat); the weight
      component is the scalar Coons blend of the weights (coons_lib_weight), which may be NEGATIVE
      (rational_negative_weight).
   4. Q examples against /repo. *)
From Coq Require Import List Arith Reals Lra Lia Bool ZArith QArith.
From SplipyModel Require Import Spec.BSpline Model.Num Model.BasisDef Model.BasisEval Model.Tensor Model.Obj Model.KnotInsert
  Model.Reparam Model.CoonsLib
  Proofs.Bridge Proofs.EvaluateSpec Proofs.EvalConsequences Proofs.TensorLemmas Proofs.ObjEval Proofs.ReparamObj Proofs.Greville
  Proofs.SectionEndToEnd Proofs.EdgeLoopBridge Extract.Exec.
Import ListNotations.
Open Scope R_scope.

(* ------------------------------------------------------------------------------------------------------- *)
(* 0. Linear precision: the refined net of a linear loft                                                    *)
(* ------------------------------------------------------------------------------------------------------- *)
(* Over a non-periodic basis (knots k, order p >= 2) the coefficients (1 - xi_c) a + xi_c b, xi the Greville
   abscissae, represent the function (1 - t) a + t b: this is what raising the order-2 direction of a ruled
   surface over [0,1] and inserting knots must produce (the B-splines being linearly independent). *)
Theorem ruled_refined_row (k : list R) p side t mu a b :
  sorted (@kn R NumR k) -> (2 <= p)%nat -> (0 < length k - p)%nat -> (p <= mu <= length k - p)%nat ->
  in_span side (@kn R NumR k (mu - 1)%nat) (@kn R NumR k mu) t ->
  sumf (fun c => ((1 - @greville R NumR k p c) * a + @greville R NumR k p c * b)
                 * nth c (@ref_row R NumR side k p 0 0 t) 0) 0 (length k - p)
  = (1 - t) * a + t * b.
Proof.
  intros HK Hp Hn Hmu Hspan.
  pose proof (greville_row_identity k p HK Hp side t mu Hn Hmu Hspan) as G.
  pose proof (ref_row_partition k p 0 HK ltac:(lia) side t mu) as PU. rewrite Nat.sub_0_r in PU.
  specialize (PU Hn Hmu Hspan).
  rewrite (sumf_ext _ (fun c => a * nth c (@ref_row R NumR side k p 0 0 t) 0
                               + (b - a) * (@greville R NumR k p c * nth c (@ref_row R NumR side k p 0 0 t) 0))).
  2:{ intros c _. ring. }
  rewrite sumf_plus, !sumf_scal, G, PU. ring.
Qed.

(* ------------------------------------------------------------------------------------------------------- *)
(* 1. The library net is the abstract Coons net                                                             *)
(* ------------------------------------------------------------------------------------------------------- *)
Lemma coord_vsub c a b : (c < length a)%nat -> (c < length b)%nat ->
  coord c (@vsub R NumR a b) = coord c a - coord c b.
Proof.
  revert c b; induction a as [|x a IH]; intros c b Ha Hb; [cbn in Ha; lia|].
  destruct b as [|y b]; [cbn in Hb; lia|]. destruct c as [|c]; [reflexivity|].
  unfold coord in *. cbn [vsub combine map nth]. apply (IH c b); cbn in *; lia.
Qed.
Lemma length_vsub a b : length (@vsub R NumR a b) = Nat.min (length a) (length b).
Proof. unfold vsub. rewrite map_length, combine_length. reflexivity. Qed.

Lemma length_blend t a b q : length a = q -> length b = q -> length (@blend R NumR t a b) = q.
Proof. intros Ha Hb. unfold blend. rewrite length_vadd, !length_vscale, Ha, Hb. apply Nat.min_id. Qed.
Lemma coord_blend t a b q c : length a = q -> length b = q -> (c < q)%nat ->
  coord c (@blend R NumR t a b) = (1 - t) * coord c a + t * coord c b.
Proof.
  intros Ha Hb Hc. unfold blend. rewrite coord_vadd by (rewrite length_vscale; lia).
  rewrite !coord_vscale. reflexivity.
Qed.

Lemma nth_combine_gen {A B} (l : list A) (l' : list B) i da db :
  (i < length l)%nat -> (i < length l')%nat -> nth i (combine l l') (da, db) = (nth i l da, nth i l' db).
Proof.
  revert l' i; induction l as [|x l IH]; intros l' i H1 H2; [cbn in H1; lia|].
  destruct l' as [|y l']; [cbn in H2; lia|]. destruct i; [reflexivity|]. cbn. apply IH; cbn in *; lia.
Qed.

Lemma divmod_lt f n m : (0 < m)%nat -> (f < n * m)%nat -> (f / m < n)%nat /\ (f mod m < m)%nat.
Proof.
  intros Hm Hf. split; [|apply Nat.mod_upper_bound; lia].
  apply Nat.div_lt_upper_bound; lia.
Qed.

Section Net.
Variables (ncomp n m : nat).
Variables (g h : list R).
Variables (B T L Rr : list (list R)).
Hypothesis Hn : (0 < n)%nat.
Hypothesis Hm : (0 < m)%nat.
Hypothesis VB : Forall (fun v => length v = ncomp) B.
Hypothesis VT : Forall (fun v => length v = ncomp) T.
Hypothesis VL : Forall (fun v => length v = ncomp) L.
Hypothesis VR : Forall (fun v => length v = ncomp) Rr.
Hypothesis LB : length B = n.
Hypothesis LT : length T = n.
Hypothesis LL : length L = m.
Hypothesis LR : length Rr = m.

Local Notation gf := (fun j => nth j g 0).
Local Notation hf := (fun i => nth i h 0).

Lemma hd_is_nth0 (P : list (list R)) : hd [] P = nth 0 P [].
Proof. destruct P; reflexivity. Qed.
Lemma last_is_nth (P : list (list R)) : length P = n -> last P [] = nth (n - 1) P [].
Proof. intros <-. symmetry. apply nth_pred_last. Qed.

Lemma lib_len1 : length (@ruled_v_net R NumR n m g B T) = (n * m)%nat.
Proof. unfold ruled_v_net. rewrite map_length, seq_length. reflexivity. Qed.
Lemma lib_len2 : length (@ruled_u_net R NumR n m h L Rr) = (n * m)%nat.
Proof. unfold ruled_u_net. rewrite map_length, seq_length. reflexivity. Qed.
Lemma lib_len3 : length (@corner_net R NumR n m g h B T) = (n * m)%nat.
Proof. unfold corner_net. rewrite map_length, seq_length. reflexivity. Qed.
Lemma lib_len12 : length (@net_add R NumR (@ruled_v_net R NumR n m g B T) (@ruled_u_net R NumR n m h L Rr)) = (n * m)%nat.
Proof. unfold net_add. rewrite map_length, combine_length, lib_len1, lib_len2. apply Nat.min_id. Qed.

Lemma coons_lib_net_length : length (@coons_lib_net R NumR n m g h B T L Rr) = (n * m)%nat.
Proof. unfold coons_lib_net, net_sub. rewrite map_length, combine_length, lib_len12, lib_len3. apply Nat.min_id. Qed.

(* the entry at flat index f, written with the three refined nets *)
Lemma coons_lib_net_nth f : (f < n * m)%nat ->
  nth f (@coons_lib_net R NumR n m g h B T L Rr) [] =
  @vsub R NumR
    (@vadd R NumR (@blend R NumR (nth (f mod m) g 0) (nth (f / m) B []) (nth (f / m) T []))
                  (@blend R NumR (nth (f / m) h 0) (nth (f mod m) L []) (nth (f mod m) Rr [])))
    (@blend R NumR (nth (f mod m) g 0)
       (@blend R NumR (nth (f / m) h 0) (hd [] B) (last B []))
       (@blend R NumR (nth (f / m) h 0) (hd [] T) (last T []))).
Proof.
  intros Hf. unfold coons_lib_net, net_sub.
  rewrite (nth_map_gen _ _ f [] ([], [])) by (rewrite combine_length, lib_len12, lib_len3, Nat.min_id; exact Hf).
  rewrite (nth_combine_gen _ _ f [] []) by (rewrite ?lib_len12, ?lib_len3; exact Hf).
  cbn [fst snd]. unfold net_add.
  rewrite (nth_map_gen _ _ f [] ([], [])) by (rewrite combine_length, lib_len1, lib_len2, Nat.min_id; exact Hf).
  rewrite (nth_combine_gen _ _ f [] []) by (rewrite ?lib_len1, ?lib_len2; exact Hf).
  cbn [fst snd]. unfold ruled_v_net, ruled_u_net, corner_net.
  rewrite !(nth_map_gen _ _ f [] 0%nat) by (rewrite seq_length; exact Hf).
  rewrite seq_nth by exact Hf. cbn [Nat.add]. reflexivity.
Qed.

(* (1) MAIN: the net the library computes equals the abstract Coons net, entry by entry, for all n, m, any
   number of components (dimension + rational), any blending abscissae *)
Theorem coons_lib_net_eq :
  @coons_lib_net R NumR n m g h B T L Rr = coons_net ncomp n m gf hf B T L Rr.
Proof.
  apply (nth_ext _ _ [] []); [rewrite coons_lib_net_length, coons_net_length; reflexivity|].
  intros f Hf. rewrite coons_lib_net_length in Hf.
  destruct (divmod_lt f n m Hm Hf) as [Hi Hj].
  rewrite coons_lib_net_nth by exact Hf.
  unfold coons_net. rewrite (nth_map_gen _ _ f [] 0%nat) by (rewrite seq_length; exact Hf).
  rewrite seq_nth by exact Hf. cbn [Nat.add].
  set (i := (f / m)%nat) in *. set (j := (f mod m)%nat) in *.
  assert (lBi : length (nth i B []) = ncomp) by (apply (vec_len ncomp); [exact VB|lia]).
  assert (lTi : length (nth i T []) = ncomp) by (apply (vec_len ncomp); [exact VT|lia]).
  assert (lLj : length (nth j L []) = ncomp) by (apply (vec_len ncomp); [exact VL|lia]).
  assert (lRj : length (nth j Rr []) = ncomp) by (apply (vec_len ncomp); [exact VR|lia]).
  assert (lB0 : length (hd [] B) = ncomp) by (rewrite hd_is_nth0; apply (vec_len ncomp); [exact VB|lia]).
  assert (lT0 : length (hd [] T) = ncomp) by (rewrite hd_is_nth0; apply (vec_len ncomp); [exact VT|lia]).
  assert (lB1 : length (last B []) = ncomp) by (rewrite (last_is_nth B LB); apply (vec_len ncomp); [exact VB|lia]).
  assert (lT1 : length (last T []) = ncomp) by (rewrite (last_is_nth T LT); apply (vec_len ncomp); [exact VT|lia]).
  pose proof (length_blend (nth j g 0) _ _ ncomp lBi lTi) as l1.
  pose proof (length_blend (nth i h 0) _ _ ncomp lLj lRj) as l2.
  pose proof (length_blend (nth i h 0) _ _ ncomp lB0 lB1) as l3.
  pose proof (length_blend (nth i h 0) _ _ ncomp lT0 lT1) as l4.
  pose proof (length_blend (nth j g 0) _ _ ncomp l3 l4) as l5.
  apply (nth_ext _ _ 0 0).
  { rewrite length_vsub, length_vadd, l1, l2, l5, map_length, seq_length, !Nat.min_id. reflexivity. }
  intros c Hc. rewrite length_vsub, length_vadd, l1, l2, l5, !Nat.min_id in Hc.
  rewrite (nth_map_gen _ _ c 0 0%nat) by (rewrite seq_length; exact Hc).
  rewrite seq_nth by exact Hc. cbn [Nat.add].
  change (nth c ?v 0) with (coord c v).
  rewrite coord_vsub by (rewrite ?length_vadd, ?l1, ?l2, ?l5, ?Nat.min_id; exact Hc).
  rewrite coord_vadd by (rewrite ?l1, ?l2; exact Hc).
  rewrite (coord_blend _ _ _ ncomp c lBi lTi Hc), (coord_blend _ _ _ ncomp c lLj lRj Hc), (coord_blend _ _ _ ncomp c l3 l4 Hc),
          (coord_blend _ _ _ ncomp c lB0 lB1 Hc), (coord_blend _ _ _ ncomp c lT0 lT1 Hc).
  unfold coons_entry, cpt. rewrite !hd_is_nth0, (last_is_nth B LB), (last_is_nth T LT). ring.
Qed.

(* ----------------------------------------------------------------------------------------------------- *)
(* 2. Boundary of the library net.                                                                        *)
(*    Hypotheses on the abscissae: 0 at the first, 1 at the last index (grev01_ends below: true for the   *)
(*    abscissae the code uses).  Corner hypotheses: only for bottom (C00, C10) and top (C01, C11).         *)
(* ----------------------------------------------------------------------------------------------------- *)
Hypothesis Hg0 : nth 0 g 0 = 0.
Hypothesis Hg1 : nth (m - 1) g 0 = 1.
Hypothesis Hh0 : nth 0 h 0 = 0.
Hypothesis Hh1 : nth (n - 1) h 0 = 1.

(* row i = 0 is the left net, row i = n-1 the right net: NO corner hypothesis *)
Theorem coons_lib_left j : (j < m)%nat -> nth j (@coons_lib_net R NumR n m g h B T L Rr) [] = nth j L [].
Proof.
  intros Hj. rewrite coons_lib_net_eq.
  change j with (0 * m + j)%nat at 1. rewrite coons_net_nth by lia.
  rewrite (vec_eta ncomp (nth j L [])) by (apply (vec_len ncomp); [exact VL|lia]).
  apply map_ext. intros c. unfold coons_entry, cpt. rewrite Hh0. ring.
Qed.
Theorem coons_lib_right j : (j < m)%nat -> nth ((n - 1) * m + j) (@coons_lib_net R NumR n m g h B T L Rr) [] = nth j Rr [].
Proof.
  intros Hj. rewrite coons_lib_net_eq. rewrite coons_net_nth by lia.
  rewrite (vec_eta ncomp (nth j Rr [])) by (apply (vec_len ncomp); [exact VR|lia]).
  apply map_ext. intros c. unfold coons_entry, cpt. rewrite Hh1. ring.
Qed.
(* column j = 0 is the bottom net when left and right START at the two ends of bottom *)
Theorem coons_lib_bottom : nth 0 L [] = nth 0 B [] -> nth 0 Rr [] = nth (n - 1) B [] ->
  forall i, (i < n)%nat -> nth (i * m) (@coons_lib_net R NumR n m g h B T L Rr) [] = nth i B [].
Proof.
  intros C00 C10 i Hi. rewrite coons_lib_net_eq.
  rewrite <- (Nat.add_0_r (i * m)). rewrite coons_net_nth by lia.
  rewrite (vec_eta ncomp (nth i B [])) by (apply (vec_len ncomp); [exact VB|lia]).
  apply map_ext. intros c. unfold coons_entry, cpt. rewrite Hg0, C00, C10. ring.
Qed.
(* column j = m-1 is the top net when left and right END at the two ends of top *)
Theorem coons_lib_top : nth (m - 1) L [] = nth 0 T [] -> nth (m - 1) Rr [] = nth (n - 1) T [] ->
  forall i, (i < n)%nat -> nth (i * m + (m - 1)) (@coons_lib_net R NumR n m g h B T L Rr) [] = nth i T [].
Proof.
  intros C01 C11 i Hi. rewrite coons_lib_net_eq. rewrite coons_net_nth by lia.
  rewrite (vec_eta ncomp (nth i T [])) by (apply (vec_len ncomp); [exact VT|lia]).
  apply map_ext. intros c. unfold coons_entry, cpt. rewrite Hg1, C01, C11. ring.
Qed.

(* what the bottom column is WITHOUT the corner hypotheses: bottom plus the bilinear interpolant (in h) of the two
   corner gaps  L_0 - B_0  and  Rr_0 - B_(n-1) *)
Theorem coons_lib_bottom_gap i c : (i < n)%nat -> (c < ncomp)%nat ->
  coord c (nth (i * m) (@coons_lib_net R NumR n m g h B T L Rr) []) =
  coord c (nth i B []) + (1 - nth i h 0) * (coord c (nth 0 L []) - coord c (nth 0 B []))
                       + nth i h 0 * (coord c (nth 0 Rr []) - coord c (nth (n - 1) B [])).
Proof.
  intros Hi Hc. rewrite coons_lib_net_eq.
  rewrite <- (Nat.add_0_r (i * m)). rewrite coons_net_nth by lia.
  unfold coord. rewrite (nth_map_gen _ _ c 0 0%nat) by (rewrite seq_length; exact Hc).
  rewrite seq_nth by exact Hc. cbn [Nat.add]. unfold coons_entry, cpt, coord. rewrite Hg0. ring.
Qed.
End Net.

(* a corner mismatch IS visible: with every other hypothesis in place (lengths, abscissae 0 / 1, the other three
   corners) but left starting at 5 instead of bottom's 0, the bottom column of the library net is not bottom.
   /repo: coons_patch(b, r, t, l) with b = [[0],[1]], r = [[1],[1]], t = [[1],[0]], l = [[0],[5]] (order 2)
   returns controlpoints [[[5],[0]],[[1],[1]]]: S[0][0] = 5 <> bottom[0] = 0. *)
Theorem coons_lib_corner_refuted :
  exists (g h : list R) (B T L Rr : list (list R)),
    Forall (fun v => length v = 1%nat) B /\ Forall (fun v => length v = 1%nat) T /\
    Forall (fun v => length v = 1%nat) L /\ Forall (fun v => length v = 1%nat) Rr /\
    length B = 2%nat /\ length T = 2%nat /\ length L = 2%nat /\ length Rr = 2%nat /\
    nth 0 g 0 = 0 /\ nth 1 g 0 = 1 /\ nth 0 h 0 = 0 /\ nth 1 h 0 = 1 /\
    nth 0 Rr [] = nth 1 B [] /\ nth 1 L [] = nth 0 T [] /\ nth 1 Rr [] = nth 1 T [] /\
    nth 0 L [] <> nth 0 B [] /\
    ~ (forall i, (i < 2)%nat -> nth (i * 2) (@coons_lib_net R NumR 2 2 g h B T L Rr) [] = nth i B []).
Proof.
  exists [0; 1], [0; 1], [[0]; [1]], [[0]; [1]], [[5]; [0]], [[1]; [1]].
  do 15 (split; [first [reflexivity | solve [repeat constructor]]|]).
  split.
  - cbn. intros E. injection E. lra.
  - intros A. specialize (A 0%nat ltac:(lia)).
    assert (E : coord 0 (nth (0 * 2) (@coons_lib_net R NumR 2 2 [0; 1] [0; 1] [[0]; [1]] [[0]; [1]] [[5]; [0]] [[1]; [1]]) []) = 5).
    { rewrite (coons_lib_bottom_gap 1 2 2 [0; 1] [0; 1] [[0]; [1]] [[0]; [1]] [[5]; [0]] [[1]; [1]]);
        try lia; try reflexivity; try (repeat constructor).
      cbn. ring. }
    rewrite A in E. cbn in E. lra.
Qed.

(* ----------------------------------------------------------------------------------------------------- *)
(* The abscissae the code uses: Greville abscissae of the clamped bases reparametrised to [0,1]            *)
(* ----------------------------------------------------------------------------------------------------- *)
Lemma sumf_const f c a q : (forall i, (a <= i < a + q)%nat -> f i = c) -> sumf f a q = INR q * c.
Proof.
  revert a; induction q as [|q IH]; intros a Hc; [cbn; ring|].
  rewrite sumf_S, (IH (S a)) by (intros i Hi; apply Hc; lia). rewrite (Hc a) by lia. rewrite S_INR. ring.
Qed.

(* a Greville abscissa whose p-1 knots all equal c is c *)
Lemma greville_const (k : list R) p i c : (2 <= p)%nat ->
  (forall j, (i < j < i + p)%nat -> @kn R NumR k j = c) -> @greville R NumR k p i = c.
Proof.
  intros Hp Hc. rewrite greville_R. unfold xi, ksum.
  rewrite (sumf_const _ c) by (intros j Hj; apply Hc; lia).
  assert (0 < INR (p - 1)) by (apply lt_0_INR; lia). field. lra.
Qed.

(* (hypothesis-discharging lemma) for a clamped non-periodic basis of order >= 2, the list grev01 returns has
   length b_nfun, first entry 0 and last entry 1 *)
Theorem grev01_ends (b : basis R) :
  (2 <= b_order b)%nat -> (b_order b <= length (b_knots b) - b_order b)%nat -> b_per1 b = 0%nat ->
  clamped_start b -> clamped_end b -> @b_start R NumR b < @b_end R NumR b ->
  exists g, @grev01 R NumR b = Ok g /\ length g = @b_nfun R b /\ nth 0 g 0 = 0 /\ nth (@b_nfun R b - 1) g 0 = 1.
Proof.
  intros Hp Hlen Hper [Cs _] [Ce _] Hse.
  unfold grev01, basis_reparam. change (@nleb R NumR) with Rleb. destruct (Rleb_spec (@n1 R NumR) (@n0 R NumR)) as [Hle|_].
  { cbn in Hle. lra. }
  eexists. split; [reflexivity|].
  set (b' := basis_shift _ _).
  assert (Hne : b_knots b <> []) by (intros E; rewrite E in Hlen; cbn in Hlen; lia).
  assert (Hord : b_order b' = b_order b) by reflexivity.
  assert (Hkl : length (b_knots b') = length (b_knots b)).
  { unfold b', basis_shift. cbn [b_knots]. rewrite !map_length. reflexivity. }
  assert (Hnf : @b_nfun R b' = @b_nfun R b) by (unfold b_nfun; rewrite Hkl; reflexivity).
  assert (Hkn : forall j, @kn R NumR (b_knots b') j
                = (@kn R NumR (b_knots b) j - @b_start R NumR b) / (@b_end R NumR b - @b_start R NumR b)).
  { intros j. unfold b', basis_shift. cbn [b_knots b_order b_per1].
    rewrite !kn_map by (repeat apply map_nonempty; exact Hne).
    unfold b_end at 1. cbn [b_knots b_order]. rewrite map_length.
    rewrite kn_map by exact Hne. fold (@b_end R NumR b).
    cbn [nadd nsub nmul ndiv n0 n1 NumR]. field. lra. }
  unfold greville_list. rewrite map_length, seq_length, Hnf.
  assert (Hn : (0 < @b_nfun R b)%nat) by (unfold b_nfun; rewrite Hper; lia).
  split; [reflexivity|]. split.
  - rewrite (nth_map_gen _ _ 0%nat 0 0%nat) by (rewrite seq_length; exact Hn). rewrite seq_nth by exact Hn. cbn [Nat.add].
    rewrite Hord. apply greville_const; [exact Hp|]. intros j Hj. rewrite Hkn, Cs by lia. field. lra.
  - rewrite (nth_map_gen _ _ (@b_nfun R b - 1)%nat 0 0%nat) by (rewrite seq_length; lia). rewrite seq_nth by lia. cbn [Nat.add].
    rewrite Hord. apply greville_const; [exact Hp|]. intros j Hj. rewrite Hkn, Ce.
    + field. lra.
    + unfold b_nfun in Hj. rewrite Hper in Hj. lia.
Qed.

(* ----------------------------------------------------------------------------------------------------- *)
(* 2b. The surface object with the library net has the four curves as its edges (rational or not)          *)
(* ----------------------------------------------------------------------------------------------------- *)
(* cb, ct over bu (increasing u), cl, cr over bv (increasing v), same kind; g, h any lists that are 0 / 1 at the ends
   (grev01_ends); the four corners.  The conclusion is coons_surface_edges of Proofs/EdgeLoopBridge.v with the
   LIBRARY net in place of the abstract one. *)
Theorem coons_lib_surface_edges tol (cb ct cl cr : obj R) bu bv (g h : list R) :
  0 < tol ->
  wf_obj_R tol cb -> wf_obj_R tol ct -> wf_obj_R tol cl -> wf_obj_R tol cr ->
  o_bases cb = [bu] -> o_bases ct = [bu] -> o_bases cl = [bv] -> o_bases cr = [bv] ->
  open_dir bu -> open_dir bv ->
  same_kind cb ct -> same_kind cb cl -> same_kind cb cr ->
  nth 0 g 0 = 0 -> nth (@b_nfun R bv - 1) g 0 = 1 -> nth 0 h 0 = 0 -> nth (@b_nfun R bu - 1) h 0 = 1 ->
  hd [] (o_cps cl) = hd [] (o_cps cb) -> hd [] (o_cps cr) = last (o_cps cb) [] ->
  last (o_cps cl) [] = hd [] (o_cps ct) -> last (o_cps cr) [] = last (o_cps ct) [] ->
  let S := mkObj [bu; bv]
             (@coons_lib_net R NumR (@b_nfun R bu) (@b_nfun R bv) g h (o_cps cb) (o_cps ct) (o_cps cl) (o_cps cr))
             (o_dim cb) (o_rat cb) in
  wf_obj_R tol S /\
  (forall u, @obj_eval R NumR tol S [u; @b_start R NumR bv] = @obj_eval R NumR tol cb [u]) /\
  (forall u, @obj_eval R NumR tol S [u; @b_end R NumR bv] = @obj_eval R NumR tol ct [u]) /\
  (forall v, @obj_eval R NumR tol S [@b_start R NumR bu; v] = @obj_eval R NumR tol cl [v]) /\
  (forall v, @obj_eval R NumR tol S [@b_end R NumR bu; v] = @obj_eval R NumR tol cr [v]).
Proof.
  intros Htol Wb Wt Wl Wr Bb Bt Bl Br Ou Ov Kt Kl Kr Hg0 Hg1 Hh0 Hh1 C00 C10 C01 C11 S.
  pose proof (coons_surface_edges tol cb ct cl cr bu bv (fun j => nth j g 0) (fun i => nth i h 0)
                Htol Wb Wt Wl Wr Bb Bt Bl Br Ou Ov Kt Kl Kr Hg0 Hg1 Hh0 Hh1 C00 C10 C01 C11) as E.
  cbv zeta in E. unfold coons_obj in E.
  destruct (curve_wf_parts tol cb bu Wb Bb) as (WBu & VB & LB).
  destruct (curve_wf_parts tol ct bu Wt Bt) as (_ & VT & LT).
  destruct (curve_wf_parts tol cl bv Wl Bl) as (WBv & VL & LL).
  destruct (curve_wf_parts tol cr bv Wr Br) as (_ & VR & LR).
  destruct Kt as [Kt1 Kt2]. destruct Kl as [Kl1 Kl2]. destruct Kr as [Kr1 Kr2].
  set (nc := (o_dim cb + (if o_rat cb then 1 else 0))%nat) in *.
  assert (Nt : @o_ncomp R ct = nc) by (unfold o_ncomp, nc; rewrite <- Kt1, <- Kt2; reflexivity).
  assert (Nl : @o_ncomp R cl = nc) by (unfold o_ncomp, nc; rewrite <- Kl1, <- Kl2; reflexivity).
  assert (Nr : @o_ncomp R cr = nc) by (unfold o_ncomp, nc; rewrite <- Kr1, <- Kr2; reflexivity).
  change (@o_ncomp R cb) with nc in VB. rewrite Nt in VT. rewrite Nl in VL. rewrite Nr in VR.
  pose proof WBu as (_ & _ & _ & Hn & _). pose proof WBv as (_ & _ & _ & Hm & _).
  unfold S. rewrite (coons_lib_net_eq nc (@b_nfun R bu) (@b_nfun R bv) g h _ _ _ _ Hn Hm VB VT VL VR LB LT LL LR).
  exact E.
Qed.

(* ----------------------------------------------------------------------------------------------------- *)
(* 3. Rational curves: the code adds and subtracts the HOMOGENEOUS rows (x w, y w, ..., w).                 *)
(*    Preserved: everything above, read on the homogeneous rows (ncomp = dim + 1; coons_lib_surface_edges  *)
(*    has o_rat arbitrary): the boundary rows are the homogeneous input rows, hence the four edges are the *)
(*    four rational curves, weights included.  The last component of every row is the scalar Coons blend  *)
(*    of the weights (coons_lib_weight).  NOT preserved: positivity of the weights.                        *)
(* ----------------------------------------------------------------------------------------------------- *)
Theorem coons_lib_weight dim n m g h B T L Rr i j :
  (0 < n)%nat -> (0 < m)%nat ->
  Forall (fun v => length v = S dim) B -> Forall (fun v => length v = S dim) T ->
  Forall (fun v => length v = S dim) L -> Forall (fun v => length v = S dim) Rr ->
  length B = n -> length T = n -> length L = m -> length Rr = m -> (i < n)%nat -> (j < m)%nat ->
  let w P q := coord dim (nth q P []) in
  coord dim (nth (i * m + j) (@coons_lib_net R NumR n m g h B T L Rr) []) =
  ((1 - nth j g 0) * w B i + nth j g 0 * w T i) + ((1 - nth i h 0) * w L j + nth i h 0 * w Rr j)
  - ((1 - nth i h 0) * (1 - nth j g 0) * w B 0%nat + nth i h 0 * (1 - nth j g 0) * w B (n - 1)%nat
     + (1 - nth i h 0) * nth j g 0 * w T 0%nat + nth i h 0 * nth j g 0 * w T (n - 1)%nat).
Proof.
  intros Hn Hm VB VT VL VR LB LT LL LR Hi Hj w.
  rewrite (coons_lib_net_eq (S dim) n m g h B T L Rr Hn Hm VB VT VL VR LB LT LL LR).
  rewrite coons_net_nth by assumption. unfold coord at 1.
  rewrite (nth_map_gen _ _ dim 0 0%nat) by (rewrite seq_length; lia). rewrite seq_nth by lia. cbn [Nat.add].
  reflexivity.
Qed.

(* Four rational quadratics (order 3, knots 0,0,0,1,1,1, abscissae 0, 1/2, 1) with all corner weights 1 and all
   middle weights 1/4, closing exactly at the four corners: all hypotheses of sections 1-2 hold, every input weight
   is positive, and the middle control point of the library net has weight -1/2.
   /repo (ex3 below): edge_curves(...).controlpoints[1,1] = [-0.5, -0.5, -0.5]. *)
Example rational_negative_weight :
  let g := [0; 1/2; 1] in
  let B := [[0; 0; 1]; [1/4; -1/4; 1/4]; [2; 0; 1]] in
  let T := [[0; 2; 1]; [1/4; 3/4; 1/4]; [2; 2; 1]] in
  let L := [[0; 0; 1]; [-1/4; 1/4; 1/4]; [0; 2; 1]] in
  let Rr := [[2; 0; 1]; [3/4; 1/4; 1/4]; [2; 2; 1]] in
  (forall P, In P [B; T; L; Rr] -> forall q, (q < 3)%nat -> 0 < coord 2 (nth q P [])) /\
  nth 0 L [] = nth 0 B [] /\ nth 0 Rr [] = nth 2 B [] /\ nth 2 L [] = nth 0 T [] /\ nth 2 Rr [] = nth 2 T [] /\
  coord 2 (nth (1 * 3 + 1) (@coons_lib_net R NumR 3 3 g g B T L Rr) []) = - (1/2).
Proof.
  intros g B T L Rr. split; [|repeat (split; [reflexivity|])].
  - intros P HP q Hq. cbn in HP.
    destruct HP as [<-|[<-|[<-|[<-|[]]]]]; do 3 (destruct q as [|q]; [cbn; lra|]); lia.
  - rewrite (coons_lib_weight 2 3 3 g g B T L Rr 1 1); try lia; try reflexivity;
      try (repeat constructor).
    cbn. lra.
Qed.

(* ------------------------------------------------------------------------------------------------------- *)
(* Non-vacuity of coons_lib_net_eq / the boundary theorems / grev01_ends on R                               *)
(* ------------------------------------------------------------------------------------------------------- *)
(* the four sides of the example ex1 below (n = 3, m = 4, two components) *)
Example coons_lib_nonvacuous :
  let g := [0; 1/4; 3/4; 1] in let h := [0; 1/2; 1] in
  let B := [[0; 0]; [1; -1]; [2; 0]] in let T := [[0; 2]; [1; 3]; [2; 2]] in
  let L := [[0; 0]; [-1; 1/2]; [-1; 3/2]; [0; 2]] in let Rr := [[2; 0]; [3; 1/2]; [3; 3/2]; [2; 2]] in
  (forall i, (i < 3)%nat -> nth (i * 4) (@coons_lib_net R NumR 3 4 g h B T L Rr) [] = nth i B []) /\
  (forall i, (i < 3)%nat -> nth (i * 4 + (4 - 1)) (@coons_lib_net R NumR 3 4 g h B T L Rr) [] = nth i T []) /\
  (forall j, (j < 4)%nat -> nth j (@coons_lib_net R NumR 3 4 g h B T L Rr) [] = nth j L []) /\
  (forall j, (j < 4)%nat -> nth ((3 - 1) * 4 + j) (@coons_lib_net R NumR 3 4 g h B T L Rr) [] = nth j Rr []).
Proof.
  intros g h B T L Rr.
  assert (VB : Forall (fun v => length v = 2%nat) B) by (repeat constructor).
  assert (VT : Forall (fun v => length v = 2%nat) T) by (repeat constructor).
  assert (VL : Forall (fun v => length v = 2%nat) L) by (repeat constructor).
  assert (VR : Forall (fun v => length v = 2%nat) Rr) by (repeat constructor).
  split; [|split; [|split]].
  - apply (coons_lib_bottom 2 3 4 g h B T L Rr); try lia; try reflexivity; assumption.
  - apply (coons_lib_top 2 3 4 g h B T L Rr); try lia; try reflexivity; assumption.
  - apply (coons_lib_left 2 3 4 g h B T L Rr); try lia; try reflexivity; assumption.
  - apply (coons_lib_right 2 3 4 g h B T L Rr); try lia; try reflexivity; assumption.
Qed.

(* grev01_ends and coons_lib_surface_edges are not vacuous: the order-2 basis on 0,0,1,1 (segments of the unit square,
   EdgeLoopBridge.segR) satisfies every hypothesis, with the abscissae grev01 computes *)
Example grev01_ends_lin01 :
  exists g, @grev01 R NumR lin01 = Ok g /\ length g = 2%nat /\ nth 0 g 0 = 0 /\ nth 1 g 0 = 1.
Proof.
  destruct (segR_unit_curve [0; 0] [1; 0] eq_refl eq_refl) as (_ & b & Hb & Hper & Hcs & Hce & Hs & He).
  injection Hb as <-.
  apply (grev01_ends lin01); try assumption; try (cbn; lia). rewrite Hs, He. lra.
Qed.

Example coons_lib_surface_edges_unit_square :
  let tol := 1/4 in
  let cb := segR [0; 0] [1; 0] in let ct := segR [0; 1] [1; 1] in
  let cl := segR [0; 0] [0; 1] in let cr := segR [1; 0] [1; 1] in
  exists g, @grev01 R NumR lin01 = Ok g /\
  let S := mkObj [lin01; lin01] (@coons_lib_net R NumR 2 2 g g (o_cps cb) (o_cps ct) (o_cps cl) (o_cps cr)) 2 false in
  wf_obj_R tol S /\
  (forall u, @obj_eval R NumR tol S [u; @b_start R NumR lin01] = @obj_eval R NumR tol cb [u]) /\
  (forall u, @obj_eval R NumR tol S [u; @b_end R NumR lin01] = @obj_eval R NumR tol ct [u]) /\
  (forall v, @obj_eval R NumR tol S [@b_start R NumR lin01; v] = @obj_eval R NumR tol cl [v]) /\
  (forall v, @obj_eval R NumR tol S [@b_end R NumR lin01; v] = @obj_eval R NumR tol cr [v]).
Proof.
  intros tol cb ct cl cr.
  destruct grev01_ends_lin01 as (g & Hg & _ & G0 & G1). exists g. split; [exact Hg|].
  assert (Htol : 0 < tol) by (unfold tol; lra).
  destruct (segR_unit_curve [0; 0] [1; 0] eq_refl eq_refl) as (Wb & b & Hb & Hper & Hcs & Hce & _).
  injection Hb as <-.
  destruct (segR_unit_curve [0; 1] [1; 1] eq_refl eq_refl) as (Wt & _).
  destruct (segR_unit_curve [0; 0] [0; 1] eq_refl eq_refl) as (Wl & _).
  destruct (segR_unit_curve [1; 0] [1; 1] eq_refl eq_refl) as (Wr & _).
  assert (Od : open_dir lin01) by (split; [exact Hper|split; assumption]).
  apply (coons_lib_surface_edges tol cb ct cl cr lin01 lin01 g g Htol Wb Wt Wl Wr eq_refl eq_refl eq_refl eq_refl Od Od);
    try (split; reflexivity); try assumption; reflexivity.
Qed.

(* ------------------------------------------------------------------------------------------------------- *)
(* 4. Executed on Q and compared with /repo                                                                 *)
(* ------------------------------------------------------------------------------------------------------- *)
(*  PYTHONPATH=/repo /venv/bin/python:
      from splipy import Curve, BSplineBasis; from splipy import surface_factory as sf
      # ex1
      bu = BSplineBasis(3,[0,0,0,1,1,1]); bv = BSplineBasis(3,[0,0,0,.5,1,1,1])
      bottom = Curve(bu, [[0,0],[1,-1],[2,0]]);  right = Curve(bv, [[2,0],[3,.5],[3,1.5],[2,2]])
      top    = Curve(bu, [[2,2],[1,3],[0,2]]);   left  = Curve(bv, [[0,2],[-1,1.5],[-1,.5],[0,0]])
      sf.edge_curves(bottom,right,top,left).controlpoints   # shape (3,4,2)
        [[0,0],[-1,.5],[-1,1.5],[0,2]],  [[1,-1],[1,0],[1,2],[1,3]],  [[2,0],[3,.5],[3,1.5],[2,2]]
      # ex2: domains [1,3] and [0,4], unsymmetric interior knot (left is given top-to-bottom, so ITS knot is mirrored)
      bu = BSplineBasis(3,[1,1,1,3,3,3]); bvr = BSplineBasis(3,[0,0,0,1,4,4,4]); bvl = BSplineBasis(3,[0,0,0,3,4,4,4])
      same control points, right over bvr, left over bvl
        knots of the result: [0,0,0,1,1,1], [0,0,0,.25,1,1,1]
        [[0,0],[-1,.5],[-1,1.5],[0,2]],  [[1,-1],[1,-.25],[1,1.75],[1,3]],  [[2,0],[3,.5],[3,1.5],[2,2]]
      # ex3: rational, bq = BSplineBasis(3,[0,0,0,1,1,1]), w = .25, rational=True (rows are homogeneous)
      bottom = Curve(bq, [[0,0,1],[w,-w,w],[2,0,1]], True);   right = Curve(bq, [[2,0,1],[3*w,w,w],[2,2,1]], True)
      top    = Curve(bq, [[2,2,1],[w,3*w,w],[0,2,1]], True);  left  = Curve(bq, [[0,2,1],[-w,w,w],[0,0,1]], True)
        [[0,0,1],[-.25,.25,.25],[0,2,1]],  [[.25,-.25,.25],[-.5,-.5,-.5],[.25,.75,.25]],  [[2,0,1],[.75,.25,.25],[2,2,1]]
      # mismatch: b = Curve(BSplineBasis(2), [[0],[1]]); t = [[1],[0]]; l = [[0],[5]]; r = [[1],[1]]
      sf.coons_patch(b,r,t,l).controlpoints  ->  [[[5],[0]],[[1],[1]]]
      # mismatch below the tolerance: unit square with left = [[0,1],[0,1e-9]]: edge_curves ACCEPTS the loop and
      # returns S[0,0] = [0, 1e-9] <> bottom[0] = [0, 0] *)
Section ExamplesQ.
  Open Scope Q_scope.
  Let rq (o : obj Q) : obj Q := q_obj_reverse o 0.
  Let cps_of (r : res (obj Q)) : list (list Q) := match r with Ok o => o_cps o | Err _ => [] end.
  Let knots_of (r : res (obj Q)) : list (list Q) := match r with Ok o => map b_knots (o_bases o) | Err _ => [] end.
  Let qeq_net (P P' : list (list Q)) : bool :=
    (length P =? length P')%nat &&
    forallb (fun pq => (length (fst pq) =? length (snd pq))%nat && forallb (fun xy => Qeq_bool (fst xy) (snd xy)) (combine (fst pq) (snd pq)))
            (combine P P').

  Let bu1 : basis Q := q_mkBasis 3 [0; 0; 0; 1; 1; 1] 0.
  Let bv1 : basis Q := q_mkBasis 3 [0; 0; 0; 1 # 2; 1; 1; 1] 0.
  Let bottom1 : obj Q := q_mkObj [bu1] [[0; 0]; [1; -1]; [2; 0]] 2 false.
  Let right1 : obj Q := q_mkObj [bv1] [[2; 0]; [3; 1 # 2]; [3; 3 # 2]; [2; 2]] 2 false.
  Let top1 : obj Q := q_mkObj [bu1] [[2; 2]; [1; 3]; [0; 2]] 2 false.
  Let left1 : obj Q := q_mkObj [bv1] [[0; 2]; [-1; 3 # 2]; [-1; 1 # 2]; [0; 0]] 2 false.
  Example ex1_matches_python :
    qeq_net (cps_of (@coons_patch_obj Q NumQ bottom1 right1 top1 left1))
      [[0; 0]; [-1; 1 # 2]; [-1; 3 # 2]; [0; 2];   [1; -1]; [1; 0]; [1; 2]; [1; 3];   [2; 0]; [3; 1 # 2]; [3; 3 # 2]; [2; 2]] = true.
  Proof. vm_compute. reflexivity. Qed.

  Let bu2 : basis Q := q_mkBasis 3 [1; 1; 1; 3; 3; 3] 0.
  Let bvr2 : basis Q := q_mkBasis 3 [0; 0; 0; 1; 4; 4; 4] 0.
  Let bvl2 : basis Q := q_mkBasis 3 [0; 0; 0; 3; 4; 4; 4] 0.
  Let bottom2 : obj Q := q_mkObj [bu2] [[0; 0]; [1; -1]; [2; 0]] 2 false.
  Let right2 : obj Q := q_mkObj [bvr2] [[2; 0]; [3; 1 # 2]; [3; 3 # 2]; [2; 2]] 2 false.
  Let top2 : obj Q := q_mkObj [bu2] [[2; 2]; [1; 3]; [0; 2]] 2 false.
  Let left2 : obj Q := q_mkObj [bvl2] [[0; 2]; [-1; 3 # 2]; [-1; 1 # 2]; [0; 0]] 2 false.
  Example ex2_matches_python :
    qeq_net (cps_of (@coons_patch_obj Q NumQ bottom2 right2 top2 left2))
      [[0; 0]; [-1; 1 # 2]; [-1; 3 # 2]; [0; 2];   [1; -1]; [1; -1 # 4]; [1; 7 # 4]; [1; 3];   [2; 0]; [3; 1 # 2]; [3; 3 # 2]; [2; 2]] = true /\
    qeq_net (knots_of (@coons_patch_obj Q NumQ bottom2 right2 top2 left2)) [[0; 0; 0; 1; 1; 1]; [0; 0; 0; 1 # 4; 1; 1; 1]] = true /\
    (* the reversed left lives over the same knots as right, as the model assumes *)
    qeq_net (map b_knots (o_bases (rq left2))) [b_knots bvr2] = true.
  Proof. vm_compute. repeat split; reflexivity. Qed.

  Let bottom3 : obj Q := q_mkObj [bu1] [[0; 0; 1]; [1 # 4; -1 # 4; 1 # 4]; [2; 0; 1]] 2 true.
  Let right3 : obj Q := q_mkObj [bu1] [[2; 0; 1]; [3 # 4; 1 # 4; 1 # 4]; [2; 2; 1]] 2 true.
  Let top3 : obj Q := q_mkObj [bu1] [[2; 2; 1]; [1 # 4; 3 # 4; 1 # 4]; [0; 2; 1]] 2 true.
  Let left3 : obj Q := q_mkObj [bu1] [[0; 2; 1]; [-1 # 4; 1 # 4; 1 # 4]; [0; 0; 1]] 2 true.
  Example ex3_rational_matches_python :
    qeq_net (cps_of (@coons_patch_obj Q NumQ bottom3 right3 top3 left3))
      [[0; 0; 1]; [-1 # 4; 1 # 4; 1 # 4]; [0; 2; 1];
       [1 # 4; -1 # 4; 1 # 4]; [-1 # 2; -1 # 2; -1 # 2]; [1 # 4; 3 # 4; 1 # 4];
       [2; 0; 1]; [3 # 4; 1 # 4; 1 # 4]; [2; 2; 1]] = true.
  Proof. vm_compute. reflexivity. Qed.

  (* corner mismatch, coons_patch called directly: S[0][0] = 5 *)
  Let bl : basis Q := q_mkBasis 2 [0; 0; 1; 1] 0.
  Example mismatch_matches_python :
    qeq_net (cps_of (@coons_patch_obj Q NumQ (q_mkObj [bl] [[0]; [1]] 1 false) (q_mkObj [bl] [[1]; [1]] 1 false)
                                            (q_mkObj [bl] [[1]; [0]] 1 false) (q_mkObj [bl] [[0]; [5]] 1 false)))
      [[5]; [0]; [1]; [1]] = true.
  Proof. vm_compute. reflexivity. Qed.
End ExamplesQ.

Print Assumptions ruled_refined_row.
Print Assumptions coons_lib_net_eq.
Print Assumptions coons_lib_left.
Print Assumptions coons_lib_right.
Print Assumptions coons_lib_bottom.
Print Assumptions coons_lib_top.
Print Assumptions coons_lib_bottom_gap.
Print Assumptions coons_lib_corner_refuted.
Print Assumptions grev01_ends.
Print Assumptions coons_lib_surface_edges.
Print Assumptions coons_lib_surface_edges_unit_square.
Print Assumptions coons_lib_weight.
Print Assumptions rational_negative_weight.
