(* C07 for splipy.utils.refinement.subdivide (Model/Subdivide.v), on top of the theorems about the repaired
   SplineObject.split (Proofs/SplitSnapProofs.v: snapped_split_nonperiodic).

   What subdivide does, and what is proved here (F := R):
   0. _splitvector: [splitvector_length] (parts indices), [splitvector_head] (the first is 0, dropped by [1:]),
      [splitvector_bound] (every index < len: the lookup knots(d)[i] never fails), [splitvector_increasing] (strictly
      increasing when parts <= len), [splitvector_one] (n = 0: no splitting value).
   1. [sub_points_knots]: the splitting values are EXISTING knots of the direction; [sub_points_length]: there are n.
   2. [subdivide_step] (one object, one non-periodic direction d, any pardim): n + 1 pieces in the order of the parameter,
      appended to the pieces collected so far; piece j is well formed, keeps the other directions, lives on
      [x_{j-1}, x_j] (x_{-1} = start, x_n = end, x_0..x_{n-1} the chosen knots), and evaluates to the object there.
      Periodic direction: [sub_split_one_periodic_zero] (n = 0: IndexError), [sub_split_one_periodic_one] (n = 1: raises).
   3. [sub_dir_concat]: the inner loop concatenates the piece lists in the order of the objects.
   4. [subdivide_curve] (n as int / [n] / longer list), [subdivide_curve_zero] (n = 0 gives the curve back, no spacing
      hypothesis), [subdivide_periodic_curve_zero].
   5. [subdivide_surface]: (n0+1)*(n1+1) pieces, piece (i,j) at index i*(n1+1)+j on [x0_{i-1},x0_i] x [x1_{j-1},x1_j],
      evaluating to the surface.
   6. Examples on R (non-vacuity): [example_subdivide_1], [example_subdivide_2], [example_subdivide_surface];
      [spaced_fails_3]: the spacing hypothesis fails for n = 3 on a curve with 4 distinct knots.
   7. Q executions against Python and the REFUTED expectations: [subdivide_count_refuted] (not always n + 1 pieces),
      [subdivide_equidistant_refuted] (breaks are knots, not start + i*(end-start)/(n+1)), [subdivide_periodic_Q]
      (periodic: n = 0, 1 raise; n pieces for n >= 2, tiling a shifted period), [subdivide_surface_Q].

   Hypotheses of the positive theorems (all inherited from snapped_split_nonperiodic except H_spaced):
     wf_obj_R, separated tol k (distinct knot values differ by more than tol), mult k v <= p, and
     H_spaced: Sorted (gap tol) (start :: chosen knots ++ [end])  -- it holds e.g. when n + 1 < number of distinct knots and
     consecutive distinct knots are >= 2*tol apart; it FAILS when n + 1 >= number of distinct knots ([spaced_fails_3]),
     and then the conclusion fails too ([subdivide_count_refuted]). *)
From Coq Require Import List Arith Reals Lra Lia Bool ZArith Sorted Permutation QArith.
From SplipyModel Require Import Spec.BSpline Model.Num Model.BasisDef Model.BasisEval Model.Tensor Model.Obj
  Model.KnotInsert Model.Tol Model.Split Model.SplitSnap Model.Knots Model.Subdivide
  Proofs.KnotList Proofs.SpanCorrect Proofs.EvaluateSpec Proofs.SnapSpec Proofs.SnapChar Proofs.ObjEval Proofs.InsertEndToEnd Proofs.TolProofs
  Proofs.SplitTiling Proofs.SplitEndToEnd Proofs.SplitCompose Proofs.SplitSnapProofs.
Import ListNotations.
Open Scope R_scope.

(* ---------------------------------------------------------------------------------------------------------- *)
(* 0. _splitvector                                                                                             *)
Lemma sv_cumul_length l : forall prev, length (sv_cumul l prev) = length l.
Proof. induction l as [|s l IH]; intros prev; cbn [sv_cumul length]; [reflexivity|]. rewrite IH. reflexivity. Qed.

Lemma sv_sizes_length len parts : length (sv_sizes len parts) = parts.
Proof. unfold sv_sizes. cbv zeta. rewrite map_length, seq_length. reflexivity. Qed.

Theorem splitvector_length len parts : (1 <= parts)%nat -> length (splitvector len parts) = parts.
Proof.
  intros Hp. unfold splitvector. cbn [length]. rewrite sv_cumul_length.
  pose proof (sv_sizes_length len parts) as L. destruct (sv_sizes len parts) as [|a l]; cbn [length tl] in *; lia.
Qed.

Theorem splitvector_head len parts : nth 0 (splitvector len parts) 0%nat = 0%nat.
Proof. reflexivity. Qed.

(* n = 0: one part, the only index is 0, and [1:] of it is empty *)
Theorem splitvector_one len : splitvector len 1 = [0%nat].
Proof. reflexivity. Qed.

Lemma sv_cumul_bound l : forall prev x, In x (sv_cumul l prev) -> (x <= prev + list_sum l)%nat.
Proof.
  induction l as [|s l IH]; intros prev x Hx; cbn [sv_cumul In list_sum fold_right] in *; [destruct Hx|].
  destruct Hx as [<-|Hx]; [lia|]. pose proof (IH _ _ Hx) as Q. unfold list_sum in Q. lia.
Qed.

Lemma sv_cumul_incr l : Forall (fun s => (1 <= s)%nat) l -> forall prev, StronglySorted lt (prev :: sv_cumul l prev).
Proof.
  induction 1 as [|s l Hs Hl IH]; intros prev; cbn [sv_cumul]; [repeat constructor|].
  specialize (IH (s + prev)%nat). constructor; [exact IH|].
  apply StronglySorted_inv in IH. destruct IH as [_ IH]. constructor; [lia|].
  rewrite Forall_forall in *. intros y Hy. pose proof (IH y Hy). lia.
Qed.

Lemma sum_bumped_all a d : forall m s, (a <= s)%nat ->
  list_sum (map (fun i => if (a <=? i)%nat then S d else d) (seq s m)) = (m * S d)%nat.
Proof.
  induction m as [|m IH]; intros s Hs; [reflexivity|]. cbn [seq map list_sum fold_right]. fold (list_sum (map (fun i => if (a <=? i)%nat then S d else d) (seq (S s) m))).
  rewrite IH by lia. destruct (Nat.leb_spec a s); lia.
Qed.

Lemma sum_bumped a d : forall m s, (s <= a)%nat ->
  (list_sum (map (fun i => if (a <=? i)%nat then S d else d) (seq s m)) <= m * d + (s + m - a))%nat.
Proof.
  induction m as [|m IH]; intros s Hs; [cbn; lia|]. cbn [seq map list_sum fold_right]. fold (list_sum (map (fun i => if (a <=? i)%nat then S d else d) (seq (S s) m))).
  destruct (Nat.leb_spec a s) as [L|L].
  - rewrite sum_bumped_all by lia. lia.
  - specialize (IH (S s) ltac:(lia)). lia.
Qed.

Lemma tl_map_seq {A} (f : nat -> A) n : tl (map f (seq 0 n)) = map f (seq 1 (n - 1)).
Proof. destruct n as [|n]; [reflexivity|]. cbn [seq map tl]. replace (S n - 1)%nat with n by lia. reflexivity. Qed.

(* every index handed out by _splitvector is a valid index into a list of length len *)
Theorem splitvector_bound len parts i : (1 <= len)%nat -> (1 <= parts)%nat -> In i (splitvector len parts) -> (i < len)%nat.
Proof.
  intros Hl Hp [<-|Hi]; [lia|]. apply sv_cumul_bound in Hi. unfold sv_sizes in Hi. cbv zeta in Hi.
  rewrite tl_map_seq in Hi.
  set (delta := (len / parts)%nat) in *. set (X := (parts * delta)%nat) in *.
  assert (HX : (X <= len)%nat) by (unfold X, delta; apply Nat.mul_div_le; lia).
  assert (Hr : (len - X < parts)%nat).
  { unfold X, delta. pose proof (Nat.div_mod len parts ltac:(lia)) as E. pose proof (Nat.mod_upper_bound len parts ltac:(lia)). lia. }
  pose proof (sum_bumped (parts - (len - X) + 1) delta (parts - 1) 1 ltac:(lia)) as S.
  assert (E : ((parts - 1) * delta = X - delta)%nat) by (unfold X; rewrite Nat.mul_sub_distr_r; lia).
  rewrite E in S.
  assert (Hd : (delta <= X)%nat) by (unfold X; destruct parts; [lia|]; lia).
  destruct (Nat.eq_dec delta 0) as [D0|D0]; [|lia].
  assert (X = 0)%nat by (unfold X; rewrite D0; lia). lia.
Qed.

(* for at most as many parts as there are distinct knots the indices increase strictly *)
Theorem splitvector_increasing len parts : (1 <= parts <= len)%nat -> StronglySorted lt (splitvector len parts).
Proof.
  intros Hp. unfold splitvector. apply sv_cumul_incr.
  assert (D : (1 <= len / parts)%nat) by (apply Nat.div_le_lower_bound; lia).
  apply Forall_forall. intros s Hs. unfold sv_sizes in Hs. cbv zeta in Hs. rewrite tl_map_seq in Hs.
  apply in_map_iff in Hs. destruct Hs as (i & <- & _). destruct (_ <=? _)%nat; lia.
Qed.

(* ---------------------------------------------------------------------------------------------------------- *)
(* 1. the splitting values are existing knots                                                                  *)
Lemma uniq_tol_incl tol : forall l last y, In y (@uniq_tol R NumR tol last l) -> In y l.
Proof.
  induction l as [|x l IH]; intros last y Hy; cbn [uniq_tol] in Hy; [destruct Hy|].
  destruct (nltb _ _); [destruct Hy as [<-|Hy]; [left; reflexivity|right; exact (IH _ _ Hy)]|right; exact (IH _ _ Hy)].
Qed.

Lemma knot_spans_incl tol p (k : list R) per1 : (1 <= p)%nat -> (p <= length k)%nat ->
  forall y, In y (@knot_spans R NumR tol (mkBasis p k per1) false) -> In y k.
Proof.
  intros Hp Hl y Hy. unfold knot_spans in Hy. cbn [b_knots b_order] in Hy. destruct Hy as [<-|Hy]; [apply kn_In'; lia|].
  apply uniq_tol_incl in Hy. destruct (p =? 1)%nat; [destruct Hy|].
  rewrite <- (firstn_skipn (p - 1) k). apply in_or_app. right.
  rewrite <- (firstn_skipn (length k - 2 * p + 2) (skipn (p - 1) k)). apply in_or_app. left. exact Hy.
Qed.

Lemma knot_spans_nonempty tol (b : basis R) : (1 <= length (@knot_spans R NumR tol b false))%nat.
Proof. unfold knot_spans. cbn [length]. lia. Qed.

(* the values at which subdivide splits are knots of the direction (whatever n is) *)
Theorem sub_points_knots tol (o : obj R) d p k per1 nd : nth d (o_bases o) dflt_basis = mkBasis p k per1 ->
  (1 <= p)%nat -> (p <= length k)%nat -> Forall (fun x => In x k) (@sub_points R NumR tol o d nd).
Proof.
  intros Hb Hp Hl. unfold sub_points, sub_all_points. cbv zeta. change (@mkBasis R 0 [] 0) with dflt_basis. rewrite Hb.
  set (sp := @knot_spans R NumR tol (mkBasis p k per1) false).
  assert (A : Forall (fun x => In x k) (map (fun i => nth i sp (@n0 R NumR)) (splitvector (length sp) (nd + 1)))).
  { apply Forall_forall. intros x Hx. apply in_map_iff in Hx. destruct Hx as (i & <- & Hi).
    apply (knot_spans_incl tol p k per1 Hp Hl). apply nth_In.
    apply (splitvector_bound _ (nd + 1)); [apply knot_spans_nonempty|lia|exact Hi]. }
  destruct (map _ _) as [|a l]; [constructor|]. cbn [tl]. inversion A. assumption.
Qed.

(* their number is n (n = 0: none) *)
Theorem sub_points_length tol (o : obj R) d nd : length (@sub_points R NumR tol o d nd) = nd.
Proof.
  unfold sub_points, sub_all_points. cbv zeta.
  assert (L : forall (l : list R), length (tl l) = (length l - 1)%nat) by (intros [|? ?]; cbn; lia).
  rewrite L, map_length, splitvector_length by lia. lia.
Qed.

Theorem sub_points_zero tol (o : obj R) d : @sub_points R NumR tol o d 0 = [].
Proof. reflexivity. Qed.

(* sub_points only reads the basis of direction d *)
Lemma sub_points_basis tol (o o' : obj R) d nd : nth d (o_bases o') dflt_basis = nth d (o_bases o) dflt_basis ->
  @sub_points R NumR tol o' d nd = @sub_points R NumR tol o d nd.
Proof. intros E. unfold sub_points, sub_all_points. cbv zeta. change (@mkBasis R 0 [] 0) with dflt_basis. rewrite E. reflexivity. Qed.

(* ---------------------------------------------------------------------------------------------------------- *)
(* 2. one object, one direction                                                                                *)
Lemma sub_split_one_nonperiodic tol acc (o : obj R) d nd : (d < length (o_bases o))%nat ->
  b_per1 (nth d (o_bases o) dflt_basis) = 0%nat ->
  @sub_split_one R NumR tol acc o d nd
  = bind (@obj_split_snapped R NumR 2 tol o d (@sub_points R NumR tol o d nd)) (fun ps => Ok (acc ++ ps)).
Proof.
  intros Hd Hper. unfold sub_split_one. cbv zeta. unfold o_pardim. destruct (Nat.leb_spec (length (o_bases o)) d) as [L|_]; [lia|].
  change (@mkBasis R 0 [] 0) with dflt_basis. rewrite Hper. cbn [Nat.eqb negb].
  destruct (@sub_points R NumR tol o d nd) as [|x [|y l]]; reflexivity.
Qed.

(* periodic direction, n = 0: IndexError (split() reads knots[0] of an empty list) *)
Theorem sub_split_one_periodic_zero tol acc (o : obj R) d : (d < length (o_bases o))%nat ->
  b_per1 (nth d (o_bases o) dflt_basis) <> 0%nat -> @sub_split_one R NumR tol acc o d 0 = Err IndexError.
Proof.
  intros Hd Hper. unfold sub_split_one. cbv zeta. unfold o_pardim. destruct (Nat.leb_spec (length (o_bases o)) d) as [L|_]; [lia|].
  rewrite sub_points_zero. change (@mkBasis R 0 [] 0) with dflt_basis.
  destruct (Nat.eqb_spec (b_per1 (nth d (o_bases o) dflt_basis)) 0); [contradiction|reflexivity].
Qed.

(* periodic direction, n = 1: an exception as well (split() returns a bare object, list += object fails) *)
Theorem sub_split_one_periodic_one tol acc (o : obj R) d : (d < length (o_bases o))%nat ->
  b_per1 (nth d (o_bases o) dflt_basis) <> 0%nat -> exists e, @sub_split_one R NumR tol acc o d 1 = Err e.
Proof.
  intros Hd Hper. unfold sub_split_one. cbv zeta. unfold o_pardim. destruct (Nat.leb_spec (length (o_bases o)) d) as [L|_]; [lia|].
  pose proof (sub_points_length tol o d 1) as L. change (@mkBasis R 0 [] 0) with dflt_basis.
  destruct (Nat.eqb_spec (b_per1 (nth d (o_bases o) dflt_basis)) 0); [contradiction|]. cbn [negb].
  destruct (@sub_points R NumR tol o d 1) as [|x [|y l]]; cbn [length] in L; try lia.
  destruct acc; eexists; reflexivity.
Qed.

Section Step.
Variables (tol : R) (o : obj R) (d p : nat) (k : list R) (nd : nat).
Hypothesis Htol : 0 < tol.
Hypothesis Hwf : wf_obj_R tol o.
Hypothesis Hd : (d < length (o_bases o))%nat.
(* direction d is non-periodic, of order p, with knot list k *)
Hypothesis Hb : nth d (o_bases o) dflt_basis = mkBasis p k 0.
(* the knot vector: distinct knot values differ by more than tol, no knot of multiplicity above the order *)
Hypothesis Hsepk : separated tol k.
Hypothesis Hmultk : forall v, (mult k v <= p)%nat.
Let ks := @sub_points R NumR tol o d nd.
(* H_spaced: start, the chosen knots, end increase with gaps >= 2*tol.  It fails exactly when _splitvector repeats the
   index 0 or reaches the last index (n+1 >= number of distinct knots), see [subdivide_count_refuted] *)
Hypothesis Hsp : Sorted (gap tol) (st p k :: ks ++ [en p k]).

Lemma step_facts : sorted (@kn R NumR k) /\ (1 <= p)%nat /\ (2 * p <= length k)%nat.
Proof. exact (av_basis_facts tol o d p k Hwf Hd Hb). Qed.

Lemma step_snap_id : map (@snap_to_knot R NumR k tol) ks = ks.
Proof.
  destruct step_facts as (HK & Hp & Hl).
  pose proof (sub_points_knots tol o d p k 0 nd Hb Hp ltac:(lia)) as Hin. fold ks in Hin. rewrite Forall_forall in Hin.
  rewrite <- (map_id ks) at 2. apply map_ext_in. intros x Hx. apply (snap_to_knot_member k HK tol Hsepk). apply Hin, Hx.
Qed.

(* the step of subdivide in direction d on the object o: nd + 1 pieces, in the order of the parameter, tiling
   [start, end] at the chosen knots, each well formed, with the other directions untouched, and evaluating to o *)
Theorem subdivide_step acc :
  exists pieces, @sub_split_one R NumR tol acc o d nd = Ok (acc ++ pieces) /\ length pieces = S nd /\ length ks = nd /\
    forall j, (j <= nd)%nat ->
      let pj := nth j pieces o in let bj := nth d (o_bases pj) dflt_basis in
      wf_obj_R tol pj /\ length (o_bases pj) = length (o_bases o) /\
      (forall i, i <> d -> nth i (o_bases pj) dflt_basis = nth i (o_bases o) dflt_basis) /\
      b_order bj = p /\ b_per1 bj = 0%nat /\
      @b_start R NumR bj = nth j (ends p k ks) 0 /\ @b_end R NumR bj = nth (S j) (ends p k ks) 0 /\
      nth j (ends p k ks) 0 + 2 * tol <= nth (S j) (ends p k ks) 0 /\
      forall ts, piece_param tol o d p k ks j ts -> @obj_eval R NumR tol pj ts = @obj_eval R NumR tol o ts.
Proof.
  pose proof (sub_points_length tol o d nd) as Lk. fold ks in Lk.
  pose proof Hsp as Hsp'. rewrite <- step_snap_id in Hsp'.
  destruct (snapped_split_nonperiodic tol o d p k ks Htol Hwf Hd Hb Hsepk Hmultk 2 Hsp' ltac:(lia)) as (pieces & E & L & P).
  rewrite step_snap_id in P. exists pieces.
  rewrite sub_split_one_nonperiodic by (try exact Hd; rewrite Hb; reflexivity). fold ks. rewrite E. cbn [bind].
  split; [reflexivity|]. split; [lia|]. split; [exact Lk|]. rewrite Lk in P. exact P.
Qed.
End Step.

(* ---------------------------------------------------------------------------------------------------------- *)
(* 3. the loops: order of the result                                                                            *)
Lemma sub_split_one_acc tol acc (o : obj R) d nd ps :
  @sub_split_one R NumR tol [] o d nd = Ok ps -> @sub_split_one R NumR tol acc o d nd = Ok (acc ++ ps).
Proof.
  unfold sub_split_one. cbv zeta. destruct (_ <=? _)%nat; [discriminate|].
  destruct (@sub_points R NumR tol o d nd) as [|x [|y l]]; [destruct (negb _)|destruct (negb _)|]; try discriminate;
    destruct (obj_split_snapped _ _ _ _ _) as [r|e]; cbn [bind app]; try discriminate; intros [= <-]; reflexivity.
Qed.

(* the inner loop concatenates the lists of pieces of the objects, in the order of the objects *)
Theorem sub_dir_concat tol d nd objs pss :
  Forall2 (fun o ps => @sub_split_one R NumR tol [] o d nd = Ok ps) objs pss ->
  forall acc, @sub_dir R NumR tol acc objs d nd = Ok (acc ++ concat pss).
Proof.
  induction 1 as [|o ps objs pss E _ IH]; intros acc; cbn [sub_dir concat]; [rewrite app_nil_r; reflexivity|].
  rewrite (sub_split_one_acc tol acc o d nd ps E). cbn [bind]. rewrite IH, app_assoc. reflexivity.
Qed.

Lemma concat_uniform_length {A} (m : nat) (pss : list (list A)) : Forall (fun ps => length ps = m) pss ->
  length (concat pss) = (length pss * m)%nat.
Proof. induction 1 as [|ps pss E _ IH]; cbn [concat length]; [reflexivity|]. rewrite app_length, IH, E. lia. Qed.

Lemma concat_uniform_nth {A} (m : nat) (pss : list (list A)) dflt : Forall (fun ps => length ps = m) pss ->
  forall i j, (i < length pss)%nat -> (j < m)%nat -> nth (i * m + j) (concat pss) dflt = nth j (nth i pss []) dflt.
Proof.
  induction 1 as [|ps pss E _ IH]; intros i j Hi Hj; cbn [length] in Hi; [lia|]. cbn [concat].
  destruct i as [|i].
  - cbn [Nat.mul Nat.add nth]. rewrite app_nth1 by lia. reflexivity.
  - cbn [nth]. rewrite app_nth2 by (rewrite E; cbn [Nat.mul]; lia).
    replace (S i * m + j - length ps)%nat with (i * m + j)%nat by (rewrite E; cbn [Nat.mul]; lia). apply IH; lia.
Qed.

Lemma forall2_of_forall {A B} (Rel : A -> B -> Prop) (l : list A) : (forall x, In x l -> exists y, Rel x y) ->
  exists ys, Forall2 Rel l ys.
Proof.
  induction l as [|x l IH]; intros Hx; [exists []; constructor|].
  destruct (Hx x (or_introl eq_refl)) as (y & Hy). destruct (IH (fun z Hz => Hx z (or_intror Hz))) as (ys & Hys).
  exists (y :: ys). constructor; assumption.
Qed.

(* ---------------------------------------------------------------------------------------------------------- *)
(* 4. curves                                                                                                   *)
Section Curve.
Variables (tol : R) (o : obj R) (p : nat) (k : list R) (n : nat).
Hypothesis Htol : 0 < tol.
Hypothesis Hwf : wf_obj_R tol o.
Hypothesis Hbases : o_bases o = [mkBasis p k 0].
Hypothesis Hsepk : separated tol k.
Hypothesis Hmultk : forall v, (mult k v <= p)%nat.
Let ks := @sub_points R NumR tol o 0 n.
Hypothesis Hsp : Sorted (gap tol) (st p k :: ks ++ [en p k]).

(* C07 for subdivide on a non-periodic curve: n given as an int, as [n] or as a longer list gives the same n + 1
   pieces, in the order of the parameter; piece j lives on [x_{j-1}, x_j] where x_{-1} = start(), x_n = end() and
   x_0 < ... < x_{n-1} are the knots chosen by _splitvector; every piece evaluates to the curve on its interval *)
Theorem subdivide_curve :
  exists pieces, @subdivide R NumR tol [o] (NInt n) = Ok pieces /\
    (forall more, @subdivide R NumR tol [o] (NList (n :: more)) = Ok pieces) /\
    length pieces = S n /\ length ks = n /\ Forall (fun x => In x k) ks /\
    forall j, (j <= n)%nat ->
      let pj := nth j pieces o in let bj := nth 0 (o_bases pj) dflt_basis in
      wf_obj_R tol pj /\ length (o_bases pj) = 1%nat /\ b_order bj = p /\ b_per1 bj = 0%nat /\
      @b_start R NumR bj = nth j (ends p k ks) 0 /\ @b_end R NumR bj = nth (S j) (ends p k ks) 0 /\
      nth j (ends p k ks) 0 + 2 * tol <= nth (S j) (ends p k ks) 0 /\
      forall ts, piece_param tol o 0 p k ks j ts -> @obj_eval R NumR tol pj ts = @obj_eval R NumR tol o ts.
Proof.
  assert (Hd : (0 < length (o_bases o))%nat) by (rewrite Hbases; cbn; lia).
  assert (Hb : nth 0 (o_bases o) dflt_basis = mkBasis p k 0) by (rewrite Hbases; reflexivity).
  destruct (subdivide_step tol o 0 p k n Htol Hwf Hd Hb Hsepk Hmultk Hsp []) as (pieces & E & L & Lk & P).
  cbn [app] in E. fold ks in Lk, P.
  destruct (step_facts tol o 0 p k Hwf Hd Hb) as (_ & Hp & Hl).
  exists pieces. split; [|split; [|split; [exact L|split; [exact Lk|split]]]].
  - unfold subdivide, o_pardim. rewrite Hbases. cbn [length seq ensure_listlike_n repeat sub_loop nth_error sub_dir].
    rewrite E. reflexivity.
  - intros more. unfold subdivide, o_pardim. rewrite Hbases. cbn [length seq ensure_listlike_n sub_loop].
    cbn [app nth_error sub_dir]. rewrite E. reflexivity.
  - exact (sub_points_knots tol o 0 p k 0 n Hb Hp ltac:(lia)).
  - intros j Hj. destruct (P j Hj) as (T1 & T2 & _ & T4 & T5 & T6 & T7 & T8 & T9). cbv zeta in *.
    rewrite Hbases in T2. cbn [length] in T2.
    split; [exact T1|]. split; [exact T2|]. split; [exact T4|]. split; [exact T5|]. split; [exact T6|].
    split; [exact T7|]. split; [exact T8|exact T9].
Qed.
End Curve.

(* n = 0 gives the object back: one piece, on [start, end], evaluating to the object; no spacing hypothesis *)
Theorem subdivide_curve_zero tol (o : obj R) p k : 0 < tol -> wf_obj_R tol o -> o_bases o = [mkBasis p k 0] ->
  separated tol k -> (forall v, (mult k v <= p)%nat) ->
  exists p0, @subdivide R NumR tol [o] (NInt 0) = Ok [p0] /\ wf_obj_R tol p0 /\
    b_order (nth 0 (o_bases p0) dflt_basis) = p /\ b_per1 (nth 0 (o_bases p0) dflt_basis) = 0%nat /\
    @b_start R NumR (nth 0 (o_bases p0) dflt_basis) = st p k /\ @b_end R NumR (nth 0 (o_bases p0) dflt_basis) = en p k /\
    forall t, st p k <= t <= en p k -> @obj_eval R NumR tol p0 [t] = @obj_eval R NumR tol o [t].
Proof.
  intros Htol Hwf Hbases Hsepk Hmultk.
  assert (Hsp : Sorted (gap tol) (st p k :: @sub_points R NumR tol o 0 0 ++ [en p k])).
  { rewrite sub_points_zero. cbn [app]. constructor; [constructor; constructor|]. constructor. unfold gap.
    destruct Hwf as (HB & _). rewrite Hbases in HB. inversion HB as [|? ? W _]. destruct W as (_ & _ & _ & _ & W).
    unfold b_start, b_end in W. cbn [b_knots b_order] in W. unfold st, en. lra. }
  destruct (subdivide_curve tol o p k 0 Htol Hwf Hbases Hsepk Hmultk Hsp) as (pieces & E & _ & L & _ & _ & P).
  destruct pieces as [|p0 [|? ?]]; cbn [length] in L; try lia. exists p0. split; [exact E|].
  destruct (P 0%nat ltac:(lia)) as (T1 & _ & T3 & T4 & T5 & T6 & _ & T9). cbv zeta in *. rewrite sub_points_zero in *.
  cbn [nth ends app] in *. split; [exact T1|]. split; [exact T3|]. split; [exact T4|]. split; [exact T5|]. split; [exact T6|].
  intros t Ht. apply T9. split; [|split; [|split]].
  - intros i Hi Hne. rewrite Hbases in Hi. cbn [length] in Hi. lia.
  - cbn [nth ends app]. exact Ht.
  - right. reflexivity.
  - constructor.
Qed.

(* a periodic curve: n = 0 and n = 1 raise *)
Theorem subdivide_periodic_curve_zero tol (o : obj R) b : o_bases o = [b] -> b_per1 b <> 0%nat ->
  @subdivide R NumR tol [o] (NInt 0) = Err IndexError /\ exists e, @subdivide R NumR tol [o] (NInt 1) = Err e.
Proof.
  intros Hbases Hper.
  assert (Hd : (0 < length (o_bases o))%nat) by (rewrite Hbases; cbn; lia).
  assert (Hb : b_per1 (nth 0 (o_bases o) dflt_basis) <> 0%nat) by (rewrite Hbases; exact Hper).
  split.
  - unfold subdivide, o_pardim. rewrite Hbases. cbn [length seq ensure_listlike_n repeat sub_loop nth_error sub_dir].
    rewrite (sub_split_one_periodic_zero tol [] o 0 Hd Hb). reflexivity.
  - destruct (sub_split_one_periodic_one tol [] o 0 Hd Hb) as (e & E). exists e.
    unfold subdivide, o_pardim. rewrite Hbases. cbn [length seq ensure_listlike_n repeat sub_loop nth_error sub_dir].
    rewrite E. reflexivity.
Qed.

(* ---------------------------------------------------------------------------------------------------------- *)
(* 5. surfaces: (n0 + 1) * (n1 + 1) pieces, direction 0 slowest                                                 *)
Section Surface.
Variables (tol : R) (o : obj R) (p0 p1 : nat) (k0 k1 : list R) (n0 n1 : nat).
Hypothesis Htol : 0 < tol.
Hypothesis Hwf : wf_obj_R tol o.
Hypothesis Hbases : o_bases o = [mkBasis p0 k0 0; mkBasis p1 k1 0].
Hypothesis Hsep0 : separated tol k0.
Hypothesis Hsep1 : separated tol k1.
Hypothesis Hmult0 : forall v, (mult k0 v <= p0)%nat.
Hypothesis Hmult1 : forall v, (mult k1 v <= p1)%nat.
Let ks0 := @sub_points R NumR tol o 0 n0.
Let ks1 := @sub_points R NumR tol o 1 n1.
Hypothesis Hsp0 : Sorted (gap tol) (st p0 k0 :: ks0 ++ [en p0 k0]).
Hypothesis Hsp1 : Sorted (gap tol) (st p1 k1 :: ks1 ++ [en p1 k1]).

(* mid = the result of the first pass (direction 0); piece (i, j) of the final list sits at index i * (n1 + 1) + j, has
   the domain [x0_{i-1}, x0_i] x [x1_{j-1}, x1_j] and evaluates to the surface there *)
Theorem subdivide_surface :
  exists mid pieces,
    @sub_dir R NumR tol [] [o] 0 n0 = Ok mid /\ length mid = S n0 /\
    @subdivide R NumR tol [o] (NList [n0; n1]) = Ok pieces /\ length pieces = (S n0 * S n1)%nat /\
    forall i j, (i <= n0)%nat -> (j <= n1)%nat ->
      let pi := nth i mid o in
      let pij := nth (i * S n1 + j) pieces o in
      let b0 := nth 0 (o_bases pij) dflt_basis in let b1 := nth 1 (o_bases pij) dflt_basis in
      wf_obj_R tol pij /\ length (o_bases pij) = 2%nat /\
      b_order b0 = p0 /\ b_per1 b0 = 0%nat /\ b_order b1 = p1 /\ b_per1 b1 = 0%nat /\
      @b_start R NumR b0 = nth i (ends p0 k0 ks0) 0 /\ @b_end R NumR b0 = nth (S i) (ends p0 k0 ks0) 0 /\
      @b_start R NumR b1 = nth j (ends p1 k1 ks1) 0 /\ @b_end R NumR b1 = nth (S j) (ends p1 k1 ks1) 0 /\
      forall ts, piece_param tol o 0 p0 k0 ks0 i ts -> piece_param tol pi 1 p1 k1 ks1 j ts ->
        @obj_eval R NumR tol pij ts = @obj_eval R NumR tol o ts.
Proof.
  assert (Hd0 : (0 < length (o_bases o))%nat) by (rewrite Hbases; cbn; lia).
  assert (Hb0 : nth 0 (o_bases o) dflt_basis = mkBasis p0 k0 0) by (rewrite Hbases; reflexivity).
  assert (Hb1 : nth 1 (o_bases o) dflt_basis = mkBasis p1 k1 0) by (rewrite Hbases; reflexivity).
  destruct (subdivide_step tol o 0 p0 k0 n0 Htol Hwf Hd0 Hb0 Hsep0 Hmult0 Hsp0 []) as (mid & E0 & L0 & Lk0 & P0).
  cbn [app] in E0. fold ks0 in Lk0, P0.
  (* the second pass on every piece of the first *)
  set (Rel := fun (pi : obj R) (ps : list (obj R)) =>
    @sub_split_one R NumR tol [] pi 1 n1 = Ok ps /\ length ps = S n1 /\
    forall j, (j <= n1)%nat ->
      let pj := nth j ps pi in let bj := nth 1 (o_bases pj) dflt_basis in
      wf_obj_R tol pj /\ length (o_bases pj) = length (o_bases pi) /\
      (forall i, i <> 1%nat -> nth i (o_bases pj) dflt_basis = nth i (o_bases pi) dflt_basis) /\
      b_order bj = p1 /\ b_per1 bj = 0%nat /\
      @b_start R NumR bj = nth j (ends p1 k1 ks1) 0 /\ @b_end R NumR bj = nth (S j) (ends p1 k1 ks1) 0 /\
      nth j (ends p1 k1 ks1) 0 + 2 * tol <= nth (S j) (ends p1 k1 ks1) 0 /\
      forall ts, piece_param tol pi 1 p1 k1 ks1 j ts -> @obj_eval R NumR tol pj ts = @obj_eval R NumR tol pi ts).
  assert (Hmid : forall i, (i <= n0)%nat -> exists ps, Rel (nth i mid o) ps).
  { intros i Hi. destruct (P0 i Hi) as (T1 & T2 & T3 & _). cbv zeta in *.
    set (pi := nth i mid o) in *.
    assert (Hb1' : nth 1 (o_bases pi) dflt_basis = mkBasis p1 k1 0) by (rewrite T3 by lia; exact Hb1).
    assert (Eks : @sub_points R NumR tol pi 1 n1 = ks1) by (apply sub_points_basis; rewrite Hb1', Hb1; reflexivity).
    assert (Hsp1' : Sorted (gap tol) (st p1 k1 :: @sub_points R NumR tol pi 1 n1 ++ [en p1 k1])) by (rewrite Eks; exact Hsp1).
    destruct (subdivide_step tol pi 1 p1 k1 n1 Htol T1 ltac:(rewrite T2, Hbases; cbn; lia) Hb1' Hsep1 Hmult1 Hsp1' [])
      as (ps & E & L & _ & P).
    cbn [app] in E. rewrite Eks in P. exists ps. split; [exact E|]. split; [exact L|exact P]. }
  destruct (forall2_of_forall Rel mid) as (pss & F2).
  { intros x Hx. destruct (In_nth mid x o Hx) as (i & Hi & <-). apply Hmid. lia. }
  assert (Lpss : length pss = S n0).
  { rewrite <- L0. clear -F2. induction F2 as [|x y l l' _ _ IH]; cbn [length]; [reflexivity|rewrite IH; reflexivity]. }
  assert (Hu : Forall (fun ps => length ps = S n1) pss).
  { clear -F2. induction F2 as [|x y l l' H _ IH]; constructor; [exact (proj1 (proj2 H))|exact IH]. }
  assert (E1 : @sub_dir R NumR tol [] mid 1 n1 = Ok (concat pss)).
  { rewrite (sub_dir_concat tol 1 n1 mid pss); [reflexivity|].
    clear -F2. induction F2 as [|x y l l' H _ IH]; constructor; [exact (proj1 H)|exact IH]. }
  assert (Hnth : forall i, (i <= n0)%nat -> Rel (nth i mid o) (nth i pss [])).
  { clear -F2 L0. intros i Hi. assert (Hi' : (i < length mid)%nat) by lia. clear Hi L0. revert i Hi'.
    induction F2 as [|x y l l' H _ IH]; intros i Hi; cbn [length] in Hi; [lia|].
    destruct i as [|i]; cbn [nth]; [exact H|apply IH; lia]. }
  exists mid, (concat pss).
  split; [cbn [sub_dir]; rewrite E0; reflexivity|]. split; [exact L0|]. split.
  { unfold subdivide, o_pardim. rewrite Hbases. cbn [length seq ensure_listlike_n sub_loop].
    cbn [app nth_error]. cbn [sub_dir]. rewrite E0. cbn [bind]. rewrite E1. reflexivity. }
  split; [rewrite (concat_uniform_length (S n1) pss Hu), Lpss; reflexivity|].
  intros i j Hi Hj. cbv zeta.
  rewrite (concat_uniform_nth (S n1) pss o Hu i j ltac:(lia) ltac:(lia)).
  destruct (Hnth i Hi) as (_ & Lps & Q). destruct (P0 i Hi) as (T1 & T2 & T3 & T4 & T5 & T6 & T7 & _ & T9).
  cbv zeta in *. set (pi := nth i mid o) in *. set (ps := nth i pss []) in *.
  assert (En : nth j ps o = nth j ps pi) by (apply nth_indep; lia). rewrite En.
  destruct (Q j Hj) as (U1 & U2 & U3 & U4 & U5 & U6 & U7 & _ & U9). cbv zeta in *.
  split; [exact U1|]. split; [rewrite U2, T2, Hbases; reflexivity|].
  rewrite (U3 0%nat ltac:(lia)).
  split; [exact T4|]. split; [exact T5|]. split; [exact U4|]. split; [exact U5|].
  split; [exact T6|]. split; [exact T7|]. split; [exact U6|]. split; [exact U7|].
  intros ts H0 H1. rewrite (U9 ts H1). exact (T9 ts H0).
Qed.
End Surface.

(* ---------------------------------------------------------------------------------------------------------- *)
(* 6. the hypotheses are satisfiable: the quadratic curve on [0,0,0,1,2,3,3,3], tol = 1/100, n = 1 and n = 2     *)
Section ExampleR.
Let k : list R := [0;0;0;1;2;3;3;3].
Let o := @mkObj R [mkBasis 3 k 0] [[0];[1];[3];[2];[5]] 1 false.
Let tol : R := 1/100.

Lemma exd_wf : wf_obj_R tol o.
Proof. exact (sh_wf _ _ _ _ _ _ ex_hyps). Qed.

Ltac rabs_lra := unfold Rabs; repeat (match goal with |- context [Rcase_abs ?a] => destruct (Rcase_abs a) end); lra.

Lemma exd_sep : separated tol k.
Proof.
  intros y z Hy Hz. unfold k in Hy, Hz. cbn [In] in Hy, Hz. unfold tol.
  repeat (destruct Hy as [<-|Hy]; [repeat (destruct Hz as [<-|Hz]; [first [left; lra|right; rabs_lra]|]); destruct Hz|]).
  destruct Hy.
Qed.

Lemma exd_mult v : (mult k v <= 3)%nat.
Proof.
  unfold mult, k. cbn [count_occ].
  repeat (match goal with |- context [Req_EM_T ?a ?b] => destruct (Req_EM_T a b) end); try lia; exfalso; lra.
Qed.

Lemma exd_spans : @knot_spans R NumR tol (mkBasis 3 k 0) false = [0;1;2;3].
Proof.
  unfold knot_spans. cbn [b_knots b_order Nat.eqb Nat.sub]. unfold k.
  change (@kn R NumR [0;0;0;1;2;3;3;3] 2) with 0.
  change (firstn _ (skipn 2 [0;0;0;1;2;3;3;3])) with [0;1;2;3].
  cbn [uniq_tol nltb nsub NumR]. rewrite !nabs_R.
  repeat (match goal with |- context [Rltb ?a ?b] => destruct (Rltb_spec a b) as [HH|HH]; revert HH; unfold tol;
            unfold Rabs; repeat (match goal with |- context [Rcase_abs ?c] => destruct (Rcase_abs c) end); intros HH; try lra; clear HH end).
  reflexivity.
Qed.

Lemma exd_points1 : @sub_points R NumR tol o 0 1 = [2].
Proof. unfold sub_points, sub_all_points. cbv zeta. change (nth 0 (o_bases o) _) with (@mkBasis R 3 k 0). rewrite exd_spans. reflexivity. Qed.
Lemma exd_points2 : @sub_points R NumR tol o 0 2 = [1; 2].
Proof. unfold sub_points, sub_all_points. cbv zeta. change (nth 0 (o_bases o) _) with (@mkBasis R 3 k 0). rewrite exd_spans. reflexivity. Qed.
Lemma exd_points3 : @sub_points R NumR tol o 0 3 = [1; 2; 3].
Proof. unfold sub_points, sub_all_points. cbv zeta. change (nth 0 (o_bases o) _) with (@mkBasis R 3 k 0). rewrite exd_spans. reflexivity. Qed.

Lemma exd_spaced1 : Sorted (gap tol) (st 3 k :: @sub_points R NumR tol o 0 1 ++ [en 3 k]).
Proof.
  rewrite exd_points1. change (st 3 k) with 0. change (en 3 k) with 3. cbn [app].
  repeat (constructor; [|try constructor; unfold gap, tol; lra]). constructor.
Qed.
Lemma exd_spaced2 : Sorted (gap tol) (st 3 k :: @sub_points R NumR tol o 0 2 ++ [en 3 k]).
Proof.
  rewrite exd_points2. change (st 3 k) with 0. change (en 3 k) with 3. cbn [app].
  repeat (constructor; [|try constructor; unfold gap, tol; lra]). constructor.
Qed.

(* subdivide([curve], 1) = two pieces on [0, 2] and [2, 3] (the break is the knot 2, not the midpoint 3/2), each
   evaluating to the curve; python: see the end of the file *)
Theorem example_subdivide_1 :
  exists q0 q1, @subdivide R NumR tol [o] (NInt 1) = Ok [q0; q1] /\
    @b_start R NumR (nth 0 (o_bases q0) dflt_basis) = 0 /\ @b_end R NumR (nth 0 (o_bases q0) dflt_basis) = 2 /\
    @b_start R NumR (nth 0 (o_bases q1) dflt_basis) = 2 /\ @b_end R NumR (nth 0 (o_bases q1) dflt_basis) = 3 /\
    (forall t, 0 <= t <= 2 - 2 * tol -> @obj_eval R NumR tol q0 [t] = @obj_eval R NumR tol o [t]) /\
    (forall t, 2 <= t <= 3 -> @obj_eval R NumR tol q1 [t] = @obj_eval R NumR tol o [t]).
Proof.
  destruct (subdivide_curve tol o 3 k 1 ltac:(unfold tol; lra) exd_wf eq_refl exd_sep exd_mult exd_spaced1)
    as (pieces & E & _ & L & _ & _ & P).
  destruct pieces as [|q0 [|q1 [|? ?]]]; cbn [length] in L; try lia. exists q0, q1. split; [exact E|].
  destruct (P 0%nat ltac:(lia)) as (_ & _ & _ & _ & S0 & E0 & _ & V0).
  destruct (P 1%nat ltac:(lia)) as (_ & _ & _ & _ & S1 & E1 & _ & V1). cbv zeta in *.
  rewrite exd_points1 in *. change (st 3 k) with 0 in *. change (en 3 k) with 3 in *.
  unfold ends in *. change (st 3 k) with 0 in *. change (en 3 k) with 3 in *. cbn [nth app] in *.
  split; [exact S0|]. split; [exact E0|]. split; [exact S1|]. split; [exact E1|]. split.
  - intros t Ht. assert (0 < tol) by (unfold tol; lra). apply V0. unfold piece_param, ends. change (st 3 k) with 0. change (en 3 k) with 3.
    split; [intros i Hi Hne; cbn in Hi; lia|]. cbn [nth app length]. split; [lra|]. split; [left; lra|].
    constructor; [|constructor]. left. unfold k. cbn [In]. tauto.
  - intros t Ht. apply V1. unfold piece_param, ends. change (st 3 k) with 0. change (en 3 k) with 3.
    split; [intros i Hi Hne; cbn in Hi; lia|]. cbn [nth app length]. split; [lra|]. split; [right; reflexivity|].
    constructor; [|constructor]. left. unfold k. cbn [In]. tauto.
Qed.

(* n = 2: three pieces *)
Theorem example_subdivide_2 : exists pieces, @subdivide R NumR tol [o] (NInt 2) = Ok pieces /\ length pieces = 3%nat.
Proof.
  destruct (subdivide_curve tol o 3 k 2 ltac:(unfold tol; lra) exd_wf eq_refl exd_sep exd_mult exd_spaced2)
    as (pieces & E & _ & L & _). exists pieces. split; assumption.
Qed.

(* H_spaced fails for n = 3 on this curve (4 distinct knots, 4 parts): the last chosen knot is end() *)
Example spaced_fails_3 : ~ Sorted (gap tol) (st 3 k :: @sub_points R NumR tol o 0 3 ++ [en 3 k]).
Proof.
  rewrite exd_points3. change (st 3 k) with 0. change (en 3 k) with 3. cbn [app]. intros S.
  apply Sorted_inv in S. destruct S as [S _]. apply Sorted_inv in S. destruct S as [S _].
  apply Sorted_inv in S. destruct S as [S _]. apply Sorted_inv in S. destruct S as [_ S].
  inversion S as [|? ? G]. unfold gap, tol in G. lra.
Qed.
End ExampleR.

(* a surface satisfying the hypotheses of [subdivide_surface]: both directions on [0,0,0,1,2,3,3,3], n = [1; 2] *)
Section ExampleSurfaceR.
Let k : list R := [0;0;0;1;2;3;3;3].
Let tol : R := 1/100.
Let s := @mkObj R [mkBasis 3 k 0; mkBasis 3 k 0] (map (fun i => [INR i; INR (i * i)]) (seq 0 25)) 2 false.

Lemma exs_surface_wf : wf_obj_R tol s.
Proof.
  pose proof exd_wf as (HB & _). cbn [o_bases] in HB. inversion HB as [|? ? W _].
  split; [|split].
  - cbn [o_bases s]. constructor; [exact W|constructor; [exact W|constructor]].
  - apply Forall_forall. intros v Hv. cbn [o_cps s] in Hv. apply in_map_iff in Hv. destruct Hv as (i & <- & _). reflexivity.
  - reflexivity.
Qed.

Lemma exs_points tol' (o' : obj R) d nd : nth d (o_bases o') dflt_basis = mkBasis 3 k 0 -> tol' = tol ->
  @sub_points R NumR tol' o' d nd = tl (map (fun i => nth i [0;1;2;3] 0) (splitvector 4 (nd + 1))).
Proof.
  intros Hb ->. unfold sub_points, sub_all_points. cbv zeta. change (@mkBasis R 0 [] 0) with dflt_basis. rewrite Hb.
  pose proof exd_spans as E. cbv zeta in E. fold k tol in E. rewrite E. reflexivity.
Qed.

Theorem example_subdivide_surface :
  exists pieces, @subdivide R NumR tol [s] (NList [1; 2]%nat) = Ok pieces /\ length pieces = 6%nat /\
    (* piece (1, 2) is at index 1 * 3 + 2 = 5 and lives on [2, 3] x [2, 3] *)
    let q := nth 5 pieces s in
    @b_start R NumR (nth 0 (o_bases q) dflt_basis) = 2 /\ @b_end R NumR (nth 0 (o_bases q) dflt_basis) = 3 /\
    @b_start R NumR (nth 1 (o_bases q) dflt_basis) = 2 /\ @b_end R NumR (nth 1 (o_bases q) dflt_basis) = 3.
Proof.
  assert (Htol : 0 < tol) by (unfold tol; lra).
  assert (P0 : @sub_points R NumR tol s 0 1 = [2]) by (rewrite (exs_points tol s 0 1 eq_refl eq_refl); reflexivity).
  assert (P1 : @sub_points R NumR tol s 1 2 = [1; 2]) by (rewrite (exs_points tol s 1 2 eq_refl eq_refl); reflexivity).
  assert (S0 : Sorted (gap tol) (st 3 k :: @sub_points R NumR tol s 0 1 ++ [en 3 k])).
  { rewrite P0. change (st 3 k) with 0. change (en 3 k) with 3. cbn [app].
    repeat (constructor; [|try constructor; unfold gap, tol; lra]). constructor. }
  assert (S1 : Sorted (gap tol) (st 3 k :: @sub_points R NumR tol s 1 2 ++ [en 3 k])).
  { rewrite P1. change (st 3 k) with 0. change (en 3 k) with 3. cbn [app].
    repeat (constructor; [|try constructor; unfold gap, tol; lra]). constructor. }
  destruct (subdivide_surface tol s 3 3 k k 1 2 Htol exs_surface_wf eq_refl exd_sep exd_sep exd_mult exd_mult S0 S1)
    as (mid & pieces & _ & _ & E & L & P).
  exists pieces. split; [exact E|]. split; [exact L|].
  destruct (P 1%nat 2%nat ltac:(lia) ltac:(lia)) as (_ & _ & _ & _ & _ & _ & A & B & C & D & _). cbv zeta in *.
  rewrite P0, P1 in *. unfold ends in *. change (st 3 k) with 0 in *. change (en 3 k) with 3 in *. cbn [nth app Nat.mul Nat.add] in *.
  split; [exact A|]. split; [exact B|]. split; [exact C|exact D].
Qed.
End ExampleSurfaceR.

(* ---------------------------------------------------------------------------------------------------------- *)
(* 7. the model executed on Q (instance NumQ), compared with the Python implementation                          *)
(* PYTHONPATH=/repo /venv/bin/python:
     from splipy import Curve, Surface, BSplineBasis
     from splipy.utils.refinement import subdivide, _splitvector
     c  = Curve(BSplineBasis(3,[0,0,0,1,2,3,3,3]), [[0],[1],[3],[2],[5]])
     pc = Curve(BSplineBasis(2,[-1,0,1,2,3,4],0), [[0,0],[1,0],[0,1]])          # periodic, start 0, end 3
     s  = Surface(BSplineBasis(3,[0,0,0,1,2,3,3,3]), BSplineBasis(2,[0,0,1,2,3,4,4]),
                  [[i+j, i*j] for j in range(5) for i in range(5)])
     for n in range(5): r = subdivide([c], n); print(n, [(p.bases[0].knots, p.controlpoints) for p in r])
       n=0: 1 piece  [0,0,0,1,2,3,3,3] / [0,1,3,2,5]
       n=1: 2 pieces [0,0,0,1,2,2,2] / [0,1,3,2.5]   and [2,2,2,3,3,3] / [2.5,2,5]
       n=2,3,4: the SAME 3 pieces [0,0,0,1,1,1]/[0,1,2], [1,1,1,2,2,2]/[2,3,2.5], [2,2,2,3,3,3]/[2.5,2,5]
     subdivide([pc], n): n=0 IndexError, n=1 IndexError,
       n=2: [1,1,2,2]/[[1,0],[0,1]] and [2,2,3,4,4]/[[0,1],[0,0],[1,0]]      (domains [1,2], [2,4])
       n=3: [1,1,2,2], [2,2,3,3], [3,3,4,4]
       n=4: [0,0,0,1,1]/[[0,0],[0,0],[1,0]], [1,1,2,2], [2,2,3,3]               (3 pieces)
     subdivide([s], [1,2,3]): 6 pieces, (start, end) = ((0,0),(2,1)) ((0,1),(2,3)) ((0,3),(2,4)) ((2,0),(3,1)) ((2,1),(3,3)) ((2,3),(3,4))
     subdivide([s], [1]):     4 pieces, ((0,0),(2,2)) ((0,2),(2,4)) ((2,0),(3,2)) ((2,2),(3,4));   subdivide([s], []): IndexError
     _splitvector(6,4) = [0,1,2,4]; (7,4) = [0,1,3,5]; (7,5) = [0,1,2,3,5]; (4,7) = [0,0,0,0,1,2,3]; (5,3) = [0,1,3]  *)
Definition q_tol : Q := (1#10000000000)%Q.
Definition q_c : obj Q := @mkObj Q [@mkBasis Q 3 [0;0;0;1;2;3;3;3]%Q 0] [[0];[1];[3];[2];[5]]%Q 1 false.
Definition q_pc : obj Q := @mkObj Q [@mkBasis Q 2 [-1;0;1;2;3;4]%Q 1] [[0;0];[1;0];[0;1]]%Q 2 false.
Definition q_s : obj Q := @mkObj Q [@mkBasis Q 3 [0;0;0;1;2;3;3;3]%Q 0; @mkBasis Q 2 [0;0;1;2;3;4;4]%Q 0]
  (map (fun ij => [inject_Z (Z.of_nat (fst ij + snd ij)); inject_Z (Z.of_nat (fst ij * snd ij))]) (list_prod (seq 0 5) (seq 0 5))) 2 false.
(* knots per direction and control points of every piece, in lowest terms *)
Definition q_show (r : res (list (obj Q))) : list (list (list Q) * list (list Q)) + err :=
  match r with
  | Ok l => inl (map (fun pc => (map (fun bb => map Qred (b_knots bb)) (o_bases pc), map (map Qred) (o_cps pc))) l)
  | Err e => inr e
  end.
(* (start, end) per direction of every piece *)
Definition q_domains (r : res (list (obj Q))) : list (list (Q * Q)) + err :=
  match r with
  | Ok l => inl (map (fun pc => map (fun bb => (Qred (@b_start Q NumQ bb), Qred (@b_end Q NumQ bb))) (o_bases pc)) l)
  | Err e => inr e
  end.

Example splitvector_python :
  map (fun lp => splitvector (fst lp) (snd lp)) [(6,4);(7,4);(7,5);(4,7);(5,3)]%nat
  = [[0;1;2;4]; [0;1;3;5]; [0;1;2;3;5]; [0;0;0;0;1;2;3]; [0;1;3]]%nat.
Proof. vm_compute. reflexivity. Qed.

Example subdivide_curve_Q :
  q_show (@subdivide Q NumQ q_tol [q_c] (NInt 0)) = inl [([[0;0;0;1;2;3;3;3]], [[0];[1];[3];[2];[5]])]%Q /\
  q_show (@subdivide Q NumQ q_tol [q_c] (NInt 1))
  = inl [([[0;0;0;1;2;2;2]], [[0];[1];[3];[5#2]]); ([[2;2;2;3;3;3]], [[5#2];[2];[5]])]%Q /\
  q_show (@subdivide Q NumQ q_tol [q_c] (NInt 2))
  = inl [([[0;0;0;1;1;1]], [[0];[1];[2]]); ([[1;1;1;2;2;2]], [[2];[3];[5#2]]); ([[2;2;2;3;3;3]], [[5#2];[2];[5]])]%Q /\
  @subdivide Q NumQ q_tol [q_c] (NList [1%nat]) = @subdivide Q NumQ q_tol [q_c] (NInt 1) /\
  @subdivide Q NumQ q_tol [q_c] (NList [1;7;9]%nat) = @subdivide Q NumQ q_tol [q_c] (NInt 1).
Proof. vm_compute. repeat split; reflexivity. Qed.

(* EXPECTED "n + 1 pieces" REFUTED: with n + 1 >= the number of distinct knots _splitvector reaches the last knot
   (= end(), skipped by split) and, beyond, repeats the first (= start(), skipped): n = 2, 3, 4 give the same 3 pieces *)
Theorem subdivide_count_refuted :
  exists (tol : Q) (o : obj Q) (n : nat) pieces,
    @subdivide Q NumQ tol [o] (NInt n) = Ok pieces /\ length pieces <> S n.
Proof.
  destruct (@subdivide Q NumQ q_tol [q_c] (NInt 3)) as [pieces|e] eqn:E; [|vm_compute in E; discriminate].
  exists q_tol, q_c, 3%nat, pieces. split; [exact E|].
  assert (L : match @subdivide Q NumQ q_tol [q_c] (NInt 3) with Ok l => length l | Err _ => 0%nat end = 3%nat) by (vm_compute; reflexivity).
  rewrite E in L. lia.
Qed.
Example subdivide_count_Q :
  q_domains (@subdivide Q NumQ q_tol [q_c] (NInt 3)) = inl [[(0,1)]; [(1,2)]; [(2,3)]]%Q /\
  @subdivide Q NumQ q_tol [q_c] (NInt 3) = @subdivide Q NumQ q_tol [q_c] (NInt 2) /\
  @subdivide Q NumQ q_tol [q_c] (NInt 4) = @subdivide Q NumQ q_tol [q_c] (NInt 2).
Proof. vm_compute. repeat split; reflexivity. Qed.

(* EXPECTED "break values start + i*(end-start)/(n+1)" REFUTED: the breaks are existing knots; n = 1 on [0, 3] with the
   knots 0,1,2,3 breaks at 2, not at 3/2 *)
Theorem subdivide_equidistant_refuted :
  q_domains (@subdivide Q NumQ q_tol [q_c] (NInt 1)) = inl [[(0,2)]; [(2,3)]]%Q /\
  q_domains (@subdivide Q NumQ q_tol [q_c] (NInt 1)) <> inl [[(0,3#2)]; [(3#2,3)]]%Q.
Proof. vm_compute. split; [reflexivity|discriminate]. Qed.

(* periodic direction: n = 0 and n = 1 raise; n = 2 gives 2 pieces (not 3) which tile [1, 4], a shifted period, not
   [start(), end()] = [0, 3]; n = 4 opens at start() = 0 and returns 3 pieces, the first one with the knots [0,0,0,1,1]
   of an order-2 basis (a triple knot, three control points on [0, 1]) *)
Example subdivide_periodic_Q :
  @subdivide Q NumQ q_tol [q_pc] (NInt 0) = Err IndexError /\
  @subdivide Q NumQ q_tol [q_pc] (NInt 1) = Err IndexError /\
  q_show (@subdivide Q NumQ q_tol [q_pc] (NInt 2))
  = inl [([[1;1;2;2]], [[1;0];[0;1]]); ([[2;2;3;4;4]], [[0;1];[0;0];[1;0]])]%Q /\
  q_domains (@subdivide Q NumQ q_tol [q_pc] (NInt 2)) = inl [[(1,2)]; [(2,4)]]%Q /\
  (Qred (@b_start Q NumQ (nth 0 (o_bases q_pc) (mkBasis 0 [] 0))), Qred (@b_end Q NumQ (nth 0 (o_bases q_pc) (mkBasis 0 [] 0)))) = (0, 3)%Q /\
  q_show (@subdivide Q NumQ q_tol [q_pc] (NInt 3))
  = inl [([[1;1;2;2]], [[1;0];[0;1]]); ([[2;2;3;3]], [[0;1];[0;0]]); ([[3;3;4;4]], [[0;0];[1;0]])]%Q /\
  q_show (@subdivide Q NumQ q_tol [q_pc] (NInt 4))
  = inl [([[0;0;0;1;1]], [[0;0];[0;0];[1;0]]); ([[1;1;2;2]], [[1;0];[0;1]]); ([[2;2;3;3]], [[0;1];[0;0]])]%Q /\
  (* a second, periodic object after a non-periodic one with n = 1: ValueError (list += bare object) *)
  @subdivide Q NumQ q_tol [q_c; q_pc] (NInt 1) = Err ValueError.
Proof. vm_compute. repeat split; reflexivity. Qed.

(* surfaces: order of the pieces (direction 0 slowest), n as a long list, a short list (padded), the empty list *)
Example subdivide_surface_Q :
  q_domains (@subdivide Q NumQ q_tol [q_s] (NList [1;2;3]%nat))
  = inl [[(0,2);(0,1)]; [(0,2);(1,3)]; [(0,2);(3,4)]; [(2,3);(0,1)]; [(2,3);(1,3)]; [(2,3);(3,4)]]%Q /\
  q_domains (@subdivide Q NumQ q_tol [q_s] (NList [1%nat]))
  = inl [[(0,2);(0,2)]; [(0,2);(2,4)]; [(2,3);(0,2)]; [(2,3);(2,4)]]%Q /\
  @subdivide Q NumQ q_tol [q_s] (NList [1%nat]) = @subdivide Q NumQ q_tol [q_s] (NInt 1) /\
  @subdivide Q NumQ q_tol [q_s] (NList []) = Err IndexError /\
  @subdivide Q NumQ q_tol ([] : list (obj Q)) (NInt 1) = Err IndexError /\
  (* objs = [surface, curve]: pardim is taken from objs[0], the curve has no direction 1: ValueError *)
  @subdivide Q NumQ q_tol [q_s; q_c] (NInt 1) = Err ValueError.
Proof. vm_compute. repeat split; reflexivity. Qed.

Print Assumptions splitvector_bound.
Print Assumptions splitvector_increasing.
Print Assumptions sub_points_knots.
Print Assumptions sub_points_length.
Print Assumptions subdivide_step.
Print Assumptions sub_dir_concat.
Print Assumptions subdivide_curve.
Print Assumptions subdivide_curve_zero.
Print Assumptions subdivide_periodic_curve_zero.
Print Assumptions subdivide_surface.
Print Assumptions example_subdivide_1.
Print Assumptions example_subdivide_surface.
Print Assumptions subdivide_count_refuted.
Print Assumptions subdivide_equidistant_refuted.
Print Assumptions subdivide_periodic_Q.
Print Assumptions subdivide_surface_Q.
