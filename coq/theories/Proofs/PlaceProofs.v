(* C13 — placement of planar primitives: rotate(phi, y), rotate(theta, z) built by the regenerated rotation_matrix kernel *)
From Coq Require Import List Arith Reals Lra Lia Bool ZArith.
From Coq Require Nsatz.
From SplipyModel Require Import Model.Num Model.Affine Gen.RotationMatrix.
Import ListNotations.
Open Scope R_scope.

(* ---------- 5. placement: rotate(phi, y) then rotate(theta, z) (flip_and_move_plane_geometry) ---------- *)
Definition rv (v : list R) (M : list (list R)) : list R := @vecmat R NumR v M 3.
Definition dot3 (a b : list R) := nth 0 a 0 * nth 0 b 0 + nth 1 a 0 * nth 1 b 0 + nth 2 a 0 * nth 2 b 0.

Section Place.
Variables cp sp ct st : R.   (* cos, sin of phi/2 and of theta/2 *)
Hypothesis Hp : cp * cp + sp * sp = 1.
Hypothesis Ht : ct * ct + st * st = 1.
(* rotation_matrix(phi, (0,1,0)), rotation_matrix(theta, (0,0,1)) and their inverses, as the regenerated kernel builds them *)
Local Notation Ry := (@rotmat R NumR cp (0 - 0 * sp) (0 - 1 * sp) (0 - 0 * sp)).
Local Notation Rz := (@rotmat R NumR ct (0 - 0 * st) (0 - 0 * st) (0 - 1 * st)).
Local Notation Rym := (@rotmat R NumR cp (0 - 0 * (0 - sp)) (0 - 1 * (0 - sp)) (0 - 0 * (0 - sp))).
Local Notation Rzm := (@rotmat R NumR ct (0 - 0 * (0 - st)) (0 - 0 * (0 - st)) (0 - 1 * (0 - st))).
(* the unit normal with polar angle phi and azimuth theta *)
Definition nrm : list R := [2 * sp * cp * (ct * ct - st * st); 2 * sp * cp * (2 * st * ct); cp * cp - sp * sp].

Ltac unfold_rot := unfold rv, vecmat, dot3, nrm, rotmat; cbv zeta;
  cbn [map seq length combine fold_left fst snd nth nadd nsub nmul ndiv nofZ n0 NumR].

(* a planar point (x, y, 0) lands in the plane through the origin orthogonal to the normal, at the same distance *)
Theorem placement_plane x y : let q := rv (rv [x; y; 0] Ry) Rz in
  dot3 q nrm = 0 /\ dot3 q q = x * x + y * y.
Proof. cbv zeta. unfold_rot. split; Coq.nsatz.NsatzTactic.nsatz_default. Qed.

(* the local z axis lands on the normal *)
Theorem placement_normal : rv (rv [0; 0; 1] Ry) Rz = nrm.
Proof. unfold_rot. repeat (f_equal; try Coq.nsatz.NsatzTactic.nsatz_default). Qed.

(* rotate_local_x_axis pulls the requested x-axis back by the inverse rotations; pushing the result
   forward again gives the requested axis, and its third local component is its component along the normal *)
Theorem placement_xaxis v0 v1 v2 : let x' := rv (rv [v0; v1; v2] Rzm) Rym in
  rv (rv x' Ry) Rz = [v0; v1; v2] /\ nth 2 x' 0 = dot3 [v0; v1; v2] nrm.
Proof.
  cbv zeta. unfold_rot. split.
  - repeat (f_equal; try Coq.nsatz.NsatzTactic.nsatz_default).
  - Coq.nsatz.NsatzTactic.nsatz_default.
Qed.

(* general points keep their distances (the placement is an isometry) *)
Theorem placement_isometry x y z : let q := rv (rv [x; y; z] Ry) Rz in dot3 q q = x * x + y * y + z * z.
Proof. cbv zeta. unfold_rot. Coq.nsatz.NsatzTactic.nsatz_default. Qed.
End Place.

