(* C19: the SPL reader.  Index map of  reshape(physdim, *ncoeffs[::-1]).transpose(), its inverse, and
   decode (encode o) = o for every non-rational, non-periodic object of any parametric dimension. *)
From Coq Require Import List Arith Lia Bool ZArith.
From SplipyModel Require Import Model.Num Model.BasisDef Model.Tensor Model.Obj Model.WF Model.G2 Model.Spl
  Proofs.EvalConsequences Proofs.TensorLemmas Proofs.TensorApply Proofs.G2Proofs.
Import ListNotations.

(* ---------- index arithmetic (any element type) ---------- *)
Lemma spl_prod_prodn l : spl_prod l = prodn l.
Proof. reflexivity. Qed.

Lemma prodn_app_last shape d : prodn (shape ++ [d]) = prodn shape * d.
Proof.
  induction shape as [|n shape IH]; cbn [app prodn fold_right]; [lia|]. fold (prodn (shape ++ [d])). fold (prodn shape).
  rewrite IH. lia.
Qed.

Lemma ravel_app_last shape d : forall idx c, length idx = length shape ->
  ravel (shape ++ [d]) (idx ++ [c]) = ravel shape idx * d + c.
Proof.
  induction shape as [|n shape IH]; intros idx c L; destruct idx as [|i idx]; try discriminate.
  - cbn. lia.
  - cbn [app ravel]. fold (prodn (shape ++ [d])). fold (prodn shape). rewrite prodn_app_last.
    rewrite IH by (cbn in L; lia). lia.
Qed.

Lemma Forall2_length_lt idx shape : Forall2 lt idx shape -> length idx = length shape.
Proof. induction 1; cbn; congruence. Qed.

Lemma unravel_app_last shape d g c : g < prodn shape -> c < d ->
  unravel (shape ++ [d]) (g * d + c) = unravel shape g ++ [c].
Proof.
  intros Hg Hc. pose proof (unravel_bounds shape g Hg) as Hb.
  assert (Hb' : Forall2 lt (unravel shape g ++ [c]) (shape ++ [d])).
  { apply Forall2_app; [exact Hb|constructor; [exact Hc|constructor]]. }
  rewrite <- (unravel_ravel _ _ Hb'). f_equal.
  rewrite ravel_app_last by (apply Forall2_length_lt; exact Hb). rewrite ravel_unravel by exact Hg. reflexivity.
Qed.

(* the reversed multi-index of a control point, as a flat index into one component block of the file *)
Definition spl_block_index (shape : list nat) (g : nat) : nat := ravel (rev shape) (rev (unravel shape g)).

Lemma spl_block_index_lt shape g : g < prodn shape -> spl_block_index shape g < prodn shape.
Proof.
  intros Hg. unfold spl_block_index. rewrite <- (prodn_rev shape). apply ravel_lt. apply Forall2_rev. apply unravel_bounds. exact Hg.
Qed.

Lemma spl_index_eq shape g c : spl_index shape g c = c * prodn shape + spl_block_index shape g.
Proof. reflexivity. Qed.

(* THE INDEX MAP of the reader: component c of control point g is coefficient number spl_index shape g c of the file *)
Theorem spl_cps_nth {A} (dflt : A) physdim shape (vals : list A) g c : g < prodn shape -> c < physdim ->
  nth c (nth g (spl_cps dflt physdim shape vals) []) dflt = nth (spl_index shape g c) vals dflt.
Proof.
  intros Hg Hc. unfold spl_cps. cbv zeta. change (spl_prod shape) with (prodn shape).
  rewrite (nth_map_gen _ (seq 0 (prodn shape)) g [] 0) by (rewrite seq_length; exact Hg).
  rewrite seq_nth by exact Hg. cbn [Nat.add].
  rewrite nth_chunk by exact Hc.
  unfold f2c, reindex. fold (prodn (shape ++ [physdim])).
  assert (Hk : g * physdim + c < prodn (shape ++ [physdim])) by (rewrite prodn_app_last; nia).
  rewrite (nth_map_gen _ (seq 0 (prodn (shape ++ [physdim]))) _ dflt 0) by (rewrite seq_length; exact Hk).
  rewrite seq_nth by exact Hk. cbn [Nat.add].
  rewrite unravel_app_last by assumption. rewrite !rev_app_distr. cbn [rev app].
  cbn [ravel]. fold (prodn (rev shape)). rewrite prodn_rev. reflexivity.
Qed.

Lemma spl_cps_length {A} (dflt : A) physdim shape (vals : list A) : length (spl_cps dflt physdim shape vals) = prodn shape.
Proof. unfold spl_cps. cbv zeta. rewrite map_length, seq_length. reflexivity. Qed.

Lemma spl_cps_point_length {A} (dflt : A) physdim shape (vals : list A) g : g < prodn shape ->
  length (nth g (spl_cps dflt physdim shape vals) []) = physdim.
Proof.
  intros Hg. unfold spl_cps. cbv zeta. change (spl_prod shape) with (prodn shape).
  rewrite (nth_map_gen _ (seq 0 (prodn shape)) g [] 0) by (rewrite seq_length; exact Hg).
  rewrite seq_nth by exact Hg. cbn [Nat.add]. apply length_chunk.
  unfold f2c, reindex. rewrite map_length, seq_length. fold (prodn (shape ++ [physdim])). rewrite prodn_app_last. nia.
Qed.

(* the index map is a bijection between (control point, component) and the coefficient numbers of the file *)
Theorem spl_index_lt shape physdim g c : g < prodn shape -> c < physdim -> spl_index shape g c < physdim * prodn shape.
Proof. intros Hg Hc. rewrite spl_index_eq. pose proof (spl_block_index_lt shape g Hg). nia. Qed.

Theorem spl_index_inv shape g c : g < prodn shape ->
  spl_comp_of shape (spl_index shape g c) = c /\ spl_point_of shape (spl_index shape g c) = g.
Proof.
  intros Hg. pose proof (spl_block_index_lt shape g Hg) as Hr.
  unfold spl_comp_of, spl_point_of. change (spl_prod shape) with (prodn shape). rewrite spl_index_eq.
  assert (Hp : prodn shape <> 0) by lia.
  split.
  - rewrite Nat.add_comm, Nat.div_add by exact Hp. rewrite Nat.div_small by exact Hr. reflexivity.
  - rewrite Nat.add_comm, Nat.mod_add by exact Hp. rewrite Nat.mod_small by exact Hr.
    unfold spl_block_index. rewrite unravel_ravel by (apply Forall2_rev, unravel_bounds; exact Hg).
    rewrite rev_involutive. apply ravel_unravel. exact Hg.
Qed.

Theorem spl_index_surj shape physdim k : k < physdim * prodn shape ->
  spl_point_of shape k < prodn shape /\ spl_comp_of shape k < physdim /\
  spl_index shape (spl_point_of shape k) (spl_comp_of shape k) = k.
Proof.
  intros Hk. assert (Hp : 0 < prodn shape) by (destruct (prodn shape); lia).
  unfold spl_point_of, spl_comp_of. change (spl_prod shape) with (prodn shape).
  assert (Hm : k mod prodn shape < prodn (rev shape)) by (rewrite prodn_rev; apply Nat.mod_upper_bound; lia).
  pose proof (unravel_bounds (rev shape) _ Hm) as Hb.
  assert (Hb' : Forall2 lt (rev (unravel (rev shape) (k mod prodn shape))) shape).
  { pose proof (Forall2_rev lt _ _ Hb) as Hb'. rewrite rev_involutive in Hb'. exact Hb'. }
  split; [apply ravel_lt; exact Hb'|]. split; [apply Nat.div_lt_upper_bound; lia|].
  unfold spl_index. change (spl_prod shape) with (prodn shape). rewrite unravel_ravel by exact Hb'. rewrite rev_involutive.
  rewrite ravel_unravel by exact Hm. rewrite (Nat.div_mod k (prodn shape)) at 3 by lia. lia.
Qed.

Lemma spl_coeffs_length {A} (dflt : A) physdim shape cps : length (spl_coeffs dflt physdim shape cps) = physdim * prodn shape.
Proof. unfold spl_coeffs. rewrite map_length, seq_length. reflexivity. Qed.

(* what the independent writer puts at the position the reader looks at *)
Lemma spl_coeffs_nth {A} (dflt : A) physdim shape (cps : list (list A)) g c : g < prodn shape -> c < physdim ->
  nth (spl_index shape g c) (spl_coeffs dflt physdim shape cps) dflt = nth c (nth g cps []) dflt.
Proof.
  intros Hg Hc. unfold spl_coeffs. change (spl_prod shape) with (prodn shape).
  pose proof (spl_index_lt shape physdim g c Hg Hc) as Hk.
  rewrite (nth_map_gen _ (seq 0 (physdim * prodn shape)) _ dflt 0) by (rewrite seq_length; exact Hk).
  rewrite seq_nth by exact Hk. cbn [Nat.add].
  destruct (spl_index_inv shape g c Hg) as [-> ->]. reflexivity.
Qed.

(* reading the coefficient block back restores the control net exactly *)
Theorem spl_cps_coeffs {A} (dflt : A) physdim shape (cps : list (list A)) :
  length cps = prodn shape -> Forall (fun v => length v = physdim) cps ->
  spl_cps dflt physdim shape (spl_coeffs dflt physdim shape cps) = cps.
Proof.
  intros L HF. apply (nth_ext _ _ [] []); [rewrite spl_cps_length; symmetry; exact L|].
  intros g Hg. rewrite spl_cps_length in Hg.
  assert (Hl : length (nth g cps []) = physdim).
  { rewrite Forall_forall in HF. apply HF. apply nth_In. rewrite L. exact Hg. }
  apply (nth_ext _ _ dflt dflt); [rewrite spl_cps_point_length by exact Hg; symmetry; exact Hl|].
  intros c Hc. rewrite spl_cps_point_length in Hc by exact Hg.
  rewrite spl_cps_nth by assumption. apply spl_coeffs_nth; assumption.
Qed.

(* ---------- decode (encode o) = o, over R ---------- *)
From Coq Require Import Reals Lra.
From SplipyModel Require Import Spec.BSpline.
Open Scope R_scope.

Lemma spl_take_map (l : list R) rest : @spl_take R (length l) (map (fun x => [x]) l ++ rest) = Some (l, rest).
Proof. induction l as [|x l IH]; [reflexivity|]. cbn [length map app spl_take]. rewrite IH. reflexivity. Qed.

Lemma spl_nats_map (ns : list nat) : @spl_nats R NumR (map (@nofnat R NumR) ns) = Some ns.
Proof. induction ns as [|n ns IH]; [reflexivity|]. cbn [map spl_nats]. rewrite to_nat_nofnat, IH. reflexivity. Qed.

Definition spl_basis_ok (tol : R) (b : basis R) : Prop :=
  b_per1 b = 0%nat /\ (1 <= b_order b)%nat /\ (2 * b_order b <= length (b_knots b))%nat /\
  @ctor_monotone_ok R NumR tol (b_knots b) = true.

Lemma spl_take_knots_enc tol (bs : list (basis R)) rest : Forall (spl_basis_ok tol) bs ->
  @spl_take_knots R (map (fun b => (b_order b + b_nfun b)%nat) bs)
     (flat_map (fun b => map (fun k => [k]) (b_knots b)) bs ++ rest) = Some (map (@b_knots R) bs, rest).
Proof.
  induction 1 as [|b bs (Hp & H1 & H2 & _) _ IH]; [reflexivity|].
  cbn [map flat_map spl_take_knots]. rewrite <- app_assoc.
  replace (b_order b + b_nfun b)%nat with (length (b_knots b)) by (unfold b_nfun; lia).
  rewrite spl_take_map. rewrite IH. reflexivity.
Qed.

Lemma spl_bases_enc tol (bs : list (basis R)) : Forall (spl_basis_ok tol) bs ->
  @spl_bases R NumR tol (map (@b_order R) bs) (map (@b_knots R) bs) = Some bs.
Proof.
  induction 1 as [|b bs (Hp & H1 & H2 & H3) _ IH]; [reflexivity|].
  cbn [map spl_bases]. rewrite IH. unfold basis_ctor. rewrite Nat2Z.id.
  destruct (Z.ltb_spec (Z.of_nat (b_order b)) 1) as [A|A]; [lia|].
  destruct (Nat.ltb_spec (length (b_knots b)) (2 * b_order b)) as [B|B]; [lia|].
  unfold ctor_periodic_ok. cbn [Nat.eqb negb]. rewrite H3. cbn [negb].
  destruct b as [p k per]. cbn [b_per1 b_order b_knots] in *. subst per. reflexivity.
Qed.

Lemma map_add_combine {A} (f g : A -> nat) (l : list A) :
  map (fun ab => (fst ab + snd ab)%nat) (combine (map f l) (map g l)) = map (fun a => (f a + g a)%nat) l.
Proof. induction l as [|a l IH]; [reflexivity|]. cbn [map combine fst snd]. rewrite IH. reflexivity. Qed.

(* the shape hypotheses of the round trip, as propositions *)
Definition spl_wf (tol : R) (o : obj R) : Prop :=
  o_rat o = false /\ Forall (spl_basis_ok tol) (o_bases o) /\
  length (o_cps o) = prodn (o_shape o) /\ Forall (fun v => length v = o_dim o) (o_cps o).

Lemma spl_ok_wf tol (o : obj R) : @spl_ok R NumR tol o = true <-> spl_wf tol o.
Proof.
  unfold spl_ok, spl_wf. rewrite !andb_true_iff, negb_true_iff, Nat.eqb_eq, !forallb_forall, !Forall_forall.
  change (spl_prod (o_shape o)) with (prodn (o_shape o)).
  split.
  - intros [[[A B] C] D]. repeat split; try assumption.
    + specialize (B x H). rewrite !andb_true_iff in B. apply Nat.eqb_eq, B.
    + specialize (B x H). rewrite !andb_true_iff in B. apply Nat.leb_le, B.
    + specialize (B x H). rewrite !andb_true_iff in B. apply Nat.leb_le, B.
    + specialize (B x H). rewrite !andb_true_iff in B. apply B.
    + intros v Hv. apply Nat.eqb_eq, D, Hv.
  - intros (A & B & C & D). repeat split; try assumption.
    + intros b Hb. destruct (B b Hb) as (B1 & B2 & B3 & B4). rewrite !andb_true_iff.
      repeat split; [apply Nat.eqb_eq|apply Nat.leb_le|apply Nat.leb_le|]; assumption.
    + intros v Hv. apply Nat.eqb_eq, D, Hv.
Qed.

Lemma spl_encode_some tol acc (o : obj R) : spl_wf tol o -> @spl_encode R NumR acc o = Some (@spl_lines R NumR acc o).
Proof.
  intros (A & B & _ & _). unfold spl_encode. rewrite A. cbn [orb].
  replace (existsb _ (o_bases o)) with false; [reflexivity|].
  symmetry. apply not_true_is_false. intros E. apply existsb_exists in E. destruct E as (b & Hb & E).
  rewrite Forall_forall in B. destruct (B b Hb) as (Hp & _). rewrite Hp in E. discriminate.
Qed.

(* the reader applied to the written lines (followed by anything) returns the object *)
Theorem spl_decode_lines tol acc (o : obj R) trailing : spl_wf tol o ->
  @spl_decode R NumR tol (@spl_lines R NumR acc o ++ trailing) = Some o.
Proof.
  intros (Hrat & Hb & Hl & Hv). unfold spl_lines, spl_decode. cbn [app].
  rewrite !neqb_refl_R. cbn [andb]. rewrite !to_nat_nofnat. cbn [obind].
  rewrite <- !app_assoc.
  rewrite <- (map_length (@b_order R) (o_bases o)) at 1.
  rewrite <- (map_map (@b_order R) (fun p => [@nofnat R NumR p])).
  rewrite <- (map_length (@nofnat R NumR) (map (@b_order R) (o_bases o))).
  rewrite <- (map_map (@nofnat R NumR) (fun x => [x]) (map (@b_order R) (o_bases o))).
  rewrite spl_take_map. cbn [obind]. rewrite spl_nats_map. cbn [obind].
  rewrite <- (map_length (@b_nfun R) (o_bases o)) at 1.
  rewrite <- (map_map (@b_nfun R) (fun p => [@nofnat R NumR p])).
  rewrite <- (map_length (@nofnat R NumR) (map (@b_nfun R) (o_bases o))).
  rewrite <- (map_map (@nofnat R NumR) (fun x => [x]) (map (@b_nfun R) (o_bases o))).
  rewrite spl_take_map. cbn [obind]. rewrite spl_nats_map. cbn [obind app].
  rewrite <- app_assoc. rewrite map_add_combine. rewrite (spl_take_knots_enc tol _ _ Hb). cbn [obind].
  rewrite (spl_bases_enc tol _ Hb). cbn [obind].
  fold (o_shape o).
  replace (spl_prod (o_shape o) * o_dim o)%nat with (length (@spl_coeffs R 0 (o_dim o) (o_shape o) (o_cps o)))
    by (rewrite spl_coeffs_length; change (spl_prod (o_shape o)) with (prodn (o_shape o)); lia).
  cbn [n0 NumR]. rewrite spl_take_map. cbn [obind].
  rewrite spl_cps_coeffs by assumption.
  destruct o as [bs cps dim rat]. cbn [o_bases o_cps o_dim o_rat] in *. subst rat. reflexivity.
Qed.

(* MAIN: every non-rational, non-periodic object (any pardim) with a control net of the right size is written, and the
   reader returns exactly that object: same bases (orders, knots), same control points, same dimension *)
Theorem spl_roundtrip tol acc (o : obj R) : @spl_ok R NumR tol o = true ->
  exists lines, @spl_encode R NumR acc o = Some lines /\ @spl_decode R NumR tol lines = Some o.
Proof.
  intros H. apply spl_ok_wf in H. exists (@spl_lines R NumR acc o). split; [apply (spl_encode_some tol); exact H|].
  rewrite <- (app_nil_r (@spl_lines R NumR acc o)). apply spl_decode_lines. exact H.
Qed.

(* fail-closed: what the writer refuses, and what the reader refuses *)
Theorem spl_encode_rejects acc (o : obj R) :
  o_rat o = true \/ Exists (fun b => b_per1 b <> 0%nat) (o_bases o) -> @spl_encode R NumR acc o = None.
Proof.
  intros [H|H]; unfold spl_encode; [rewrite H; reflexivity|].
  replace (existsb _ (o_bases o)) with true; [rewrite orb_true_r; reflexivity|].
  symmetry. apply existsb_exists. apply Exists_exists in H. destruct H as (b & Hb & Hp). exists b. split; [exact Hb|].
  destruct (Nat.eqb_spec (b_per1 b) 0); [contradiction|reflexivity].
Qed.

Theorem spl_decode_rejects tol (t pd dm r : R) more rest :
  t <> @nofnat R NumR spl_letter_C \/ r <> 0 -> @spl_decode R NumR tol ((t :: pd :: dm :: r :: more) :: rest) = None.
Proof.
  intros H. unfold spl_decode. cbn [neqb NumR n0].
  destruct (Reqb_spec t (@nofnat R NumR spl_letter_C)) as [A|A]; destruct (Reqb_spec r 0) as [B|B]; cbn [andb]; try reflexivity.
  destruct H; contradiction.
Qed.

(* ---------- whatever the reader accepts ---------- *)
Lemma spl_take_spec n : forall (l : list (list R)) xs r, @spl_take R n l = Some (xs, r) ->
  length xs = n /\ length l = (n + length r)%nat.
Proof.
  induction n as [|n IH]; intros l xs r E; cbn [spl_take] in E.
  - injection E as <- <-. split; reflexivity.
  - destruct l as [|[|x [|y row]] l]; try discriminate.
    destruct (@spl_take R n l) as [[xs' r']|] eqn:E'; [|discriminate]. injection E as <- <-.
    destruct (IH _ _ _ E') as [A B]. cbn [length]. split; lia.
Qed.

Lemma spl_nats_length : forall (l : list R) ns, @spl_nats R NumR l = Some ns -> length ns = length l.
Proof.
  induction l as [|x l IH]; intros ns E; cbn [spl_nats] in E.
  - injection E as <-. reflexivity.
  - destruct (@to_nat R NumR x) as [n|]; [|discriminate]. destruct (@spl_nats R NumR l) as [ns'|]; [|discriminate].
    injection E as <-. cbn [length]. f_equal. apply IH. reflexivity.
Qed.

Lemma spl_take_knots_spec : forall nk (l : list (list R)) ks r, @spl_take_knots R nk l = Some (ks, r) ->
  map (@length R) ks = nk /\ length l = (length (concat ks) + length r)%nat.
Proof.
  induction nk as [|n nk IH]; intros l ks r E; cbn [spl_take_knots] in E.
  - injection E as <- <-. split; reflexivity.
  - destruct (@spl_take R n l) as [[k rest]|] eqn:E1; [|discriminate].
    destruct (@spl_take_knots R nk rest) as [[ks' r']|] eqn:E2; [|discriminate]. injection E as <- <-.
    destruct (spl_take_spec _ _ _ _ E1) as [A B]. destruct (IH _ _ _ E2) as [C D].
    cbn [map concat]. rewrite app_length. split; [congruence|lia].
Qed.

Lemma spl_bases_spec tol : forall orders knots bs, @spl_bases R NumR tol orders knots = Some bs ->
  length orders = length knots ->
  map (@b_order R) bs = orders /\ map (@b_knots R) bs = knots /\ Forall (spl_basis_ok tol) bs.
Proof.
  induction orders as [|p orders IH]; intros knots bs E L; destruct knots as [|k knots]; try discriminate; cbn [spl_bases] in E.
  - injection E as <-. repeat split; constructor.
  - destruct (@basis_ctor R NumR tol (Z.of_nat p) k 0) as [b|e] eqn:Eb; [|discriminate].
    destruct (@spl_bases R NumR tol orders knots) as [bs'|] eqn:E'; [|discriminate]. injection E as <-.
    destruct (IH _ _ E' ltac:(cbn in L; lia)) as (A & B & C).
    assert (Hb : b = mkBasis p k 0 /\ spl_basis_ok tol b).
    { revert Eb. unfold basis_ctor. rewrite Nat2Z.id.
      destruct (Z.ltb_spec (Z.of_nat p) 1); [discriminate|]. destruct (Nat.ltb_spec (length k) (2 * p)); [discriminate|].
      destruct (@ctor_periodic_ok R NumR tol p 0 k); [|discriminate].
      destruct (@ctor_monotone_ok R NumR tol k) eqn:Em; [|discriminate]. cbn [negb]. intros [= <-].
      split; [reflexivity|]. unfold spl_basis_ok. cbn [b_per1 b_order b_knots]. repeat split; try assumption; lia. }
    destruct Hb as [-> Hok]. cbn [map b_order b_knots]. repeat split; [congruence|congruence|constructor; assumption].
Qed.

Lemma nfun_from_lengths tol : forall (bs : list (basis R)) ncoeffs, length ncoeffs = length bs -> Forall (spl_basis_ok tol) bs ->
  map (@length R) (map (@b_knots R) bs) = map (fun ab => (fst ab + snd ab)%nat) (combine (map (@b_order R) bs) ncoeffs) ->
  map (@b_nfun R) bs = ncoeffs.
Proof.
  induction bs as [|b bs IH]; intros ncoeffs L Hok E; destruct ncoeffs as [|n ncoeffs]; try discriminate; [reflexivity|].
  inversion Hok as [|? ? (Hp & _) Hok']; subst. cbn [map combine fst snd] in E. injection E as E1 E2.
  cbn [map]. f_equal; [unfold b_nfun; lia|]. apply IH; [cbn in L; lia|exact Hok'|exact E2].
Qed.

(* soundness of the reader: an accepted file (i) has the letter C and the flag 0, (ii) yields an object of the class the
   round trip covers (non-rational, non-periodic, bases accepted by the constructor, control net of the declared
   size with physdim components per point), (iii) is at least as long as its own declared counts require:
   a truncated file is rejected *)
Theorem spl_decode_sound tol (lines : list (list R)) (o : obj R) : @spl_decode R NumR tol lines = Some o ->
  spl_wf tol o /\
  (exists pd dm more rest, lines = (@nofnat R NumR spl_letter_C :: pd :: dm :: 0 :: more) :: rest /\
     pd = @nofnat R NumR (length (o_bases o)) /\ dm = @nofnat R NumR (o_dim o)) /\
  (2 + 2 * length (o_bases o) + length (concat (map (@b_knots R) (o_bases o))) + prodn (o_shape o) * o_dim o <= length lines)%nat.
Proof.
  intros H. unfold spl_decode in H. destruct lines as [|hdr rest]; [discriminate|].
  destruct hdr as [|t [|pd [|dm [|r more]]]]; try discriminate.
  destruct (@neqb R NumR t (@nofnat R NumR spl_letter_C) && @neqb R NumR r n0) eqn:E0; [|discriminate].
  destruct (@to_nat R NumR pd) as [pardim|] eqn:Epd; [|discriminate]. cbn [obind] in H.
  destruct (@to_nat R NumR dm) as [physdim|] eqn:Edm; [|discriminate]. cbn [obind] in H.
  destruct (@spl_take R pardim rest) as [[os rest1]|] eqn:E1; [|discriminate]. cbn [obind] in H.
  destruct (@spl_nats R NumR os) as [orders|] eqn:E2; [|discriminate]. cbn [obind] in H.
  destruct (@spl_take R pardim rest1) as [[ns rest2]|] eqn:E3; [|discriminate]. cbn [obind] in H.
  destruct (@spl_nats R NumR ns) as [ncoeffs|] eqn:E4; [|discriminate]. cbn [obind] in H.
  destruct rest2 as [|accl rest3]; [discriminate|].
  destruct (@spl_take_knots R _ rest3) as [[knots rest4]|] eqn:E5; [|discriminate]. cbn [obind] in H.
  destruct (@spl_bases R NumR tol orders knots) as [bases|] eqn:E6; [|discriminate]. cbn [obind] in H.
  destruct (@spl_take R _ rest4) as [[vals rest5]|] eqn:E7; [|discriminate]. cbn [obind] in H.
  injection H as <-.
  destruct (spl_take_spec _ _ _ _ E1) as [L1 C1]. destruct (spl_take_spec _ _ _ _ E3) as [L3 C3].
  pose proof (spl_nats_length _ _ E2) as L2. pose proof (spl_nats_length _ _ E4) as L4.
  destruct (spl_take_knots_spec _ _ _ _ E5) as [L5 C5]. destruct (spl_take_spec _ _ _ _ E7) as [L7 C7].
  assert (Lk : length orders = length knots).
  { rewrite <- (map_length (@length R) knots), L5, map_length, combine_length. lia. }
  destruct (spl_bases_spec tol _ _ _ E6 Lk) as (Ho & Hk & Hok).
  assert (Lb : length bases = pardim) by (rewrite <- (map_length (@b_order R) bases), Ho; lia).
  assert (Hn : map (@b_nfun R) bases = ncoeffs).
  { apply (nfun_from_lengths tol); [lia|exact Hok|]. rewrite Hk, Ho. exact L5. }
  apply andb_true_iff in E0. destruct E0 as [Et Er]. cbn [neqb NumR n0] in Et, Er.
  destruct (Reqb_spec t (@nofnat R NumR spl_letter_C)) as [Et'|]; [|discriminate].
  destruct (Reqb_spec r 0) as [Er'|]; [|discriminate]. subst t r.
  assert (Tn : forall x n, @to_nat R NumR x = Some n -> x = @nofnat R NumR n).
  { intros x n. unfold to_nat. destruct (@neqb R NumR (nofZ (nfloor x)) x && (0 <=? nfloor x)%Z) eqn:E; [|discriminate].
    intros [= <-]. apply andb_true_iff in E. destruct E as [Ea Eb]. cbn [neqb NumR] in Ea.
    destruct (Reqb_spec (@nofZ R NumR (@nfloor R NumR x)) x) as [Ex|]; [|discriminate].
    unfold nofnat. rewrite Z2Nat.id by (apply Z.leb_le; exact Eb). symmetry. exact Ex. }
  split; [|split].
  - unfold spl_wf, o_shape. cbn [o_rat o_bases o_cps o_dim]. rewrite Hn. repeat split; [exact Hok|apply spl_cps_length|].
    apply Forall_forall. intros v Hv. apply (In_nth _ _ []) in Hv. destruct Hv as (g & Hg & <-).
    rewrite spl_cps_length in Hg. apply spl_cps_point_length. exact Hg.
  - exists pd, dm, more, rest. cbn [o_bases o_dim]. rewrite Lb. repeat split; [apply Tn; exact Epd|apply Tn; exact Edm].
  - unfold o_shape. cbn [o_bases o_dim length]. rewrite Hn, Hk, Lb.
    change (spl_prod ncoeffs) with (prodn ncoeffs) in C7. cbn [length] in C3. lia.
Qed.

(* ---------- trailing lines are ignored, truncated files are rejected ---------- *)
Lemma spl_take_app n : forall (l : list (list R)) xs r t, @spl_take R n l = Some (xs, r) ->
  @spl_take R n (l ++ t) = Some (xs, r ++ t).
Proof.
  induction n as [|n IH]; intros l xs r t E; cbn [spl_take] in E |- *.
  - injection E as <- <-. reflexivity.
  - destruct l as [|[|x [|y row]] l]; try discriminate. cbn [app].
    destruct (@spl_take R n l) as [[xs' r']|] eqn:E'; [|discriminate]. injection E as <- <-.
    rewrite (IH _ _ _ t E'). reflexivity.
Qed.

Lemma spl_take_knots_app : forall nk (l : list (list R)) ks r t, @spl_take_knots R nk l = Some (ks, r) ->
  @spl_take_knots R nk (l ++ t) = Some (ks, r ++ t).
Proof.
  induction nk as [|n nk IH]; intros l ks r t E; cbn [spl_take_knots] in E |- *.
  - injection E as <- <-. reflexivity.
  - destruct (@spl_take R n l) as [[k rest]|] eqn:E1; [|discriminate].
    destruct (@spl_take_knots R nk rest) as [[ks' r']|] eqn:E2; [|discriminate]. injection E as <- <-.
    rewrite (spl_take_app _ _ _ _ t E1). rewrite (IH _ _ _ t E2). reflexivity.
Qed.

Theorem spl_decode_app tol (lines t : list (list R)) (o : obj R) :
  @spl_decode R NumR tol lines = Some o -> @spl_decode R NumR tol (lines ++ t) = Some o.
Proof.
  intros H. unfold spl_decode in H |- *. destruct lines as [|hdr rest]; [discriminate|].
  destruct hdr as [|a [|pd [|dm [|r more]]]]; try discriminate. cbn [app].
  destruct (@neqb R NumR a (@nofnat R NumR spl_letter_C) && @neqb R NumR r n0); [|discriminate].
  destruct (@to_nat R NumR pd) as [pardim|]; [|discriminate]. cbn [obind] in H |- *.
  destruct (@to_nat R NumR dm) as [physdim|]; [|discriminate]. cbn [obind] in H |- *.
  destruct (@spl_take R pardim rest) as [[os rest1]|] eqn:E1; [|discriminate]. cbn [obind] in H.
  rewrite (spl_take_app _ _ _ _ t E1). cbn [obind].
  destruct (@spl_nats R NumR os) as [orders|]; [|discriminate]. cbn [obind] in H |- *.
  destruct (@spl_take R pardim rest1) as [[ns rest2]|] eqn:E3; [|discriminate]. cbn [obind] in H.
  rewrite (spl_take_app _ _ _ _ t E3). cbn [obind].
  destruct (@spl_nats R NumR ns) as [ncoeffs|]; [|discriminate]. cbn [obind] in H |- *.
  destruct rest2 as [|accl rest3]; [discriminate|]. cbn [app].
  destruct (@spl_take_knots R _ rest3) as [[knots rest4]|] eqn:E5; [|discriminate]. cbn [obind] in H.
  rewrite (spl_take_knots_app _ _ _ _ t E5). cbn [obind].
  destruct (@spl_bases R NumR tol orders knots) as [bases|]; [|discriminate]. cbn [obind] in H |- *.
  destruct (@spl_take R _ rest4) as [[vals rest5]|] eqn:E7; [|discriminate]. cbn [obind] in H.
  rewrite (spl_take_app _ _ _ _ t E7). cbn [obind]. exact H.
Qed.

Lemma length_flat_map_knots (bs : list (basis R)) :
  length (flat_map (fun b => map (fun k => [k]) (b_knots b)) bs) = length (concat (map (@b_knots R) bs)).
Proof.
  induction bs as [|b bs IH]; [reflexivity|]. cbn [flat_map map concat]. rewrite !app_length, map_length, IH. reflexivity.
Qed.

Lemma spl_lines_length acc (o : obj R) : length (@spl_lines R NumR acc o) =
  (2 + 2 * length (o_bases o) + length (concat (map (@b_knots R) (o_bases o))) + prodn (o_shape o) * o_dim o)%nat.
Proof.
  unfold spl_lines. cbn [length]. rewrite !app_length, !map_length. cbn [length].
  rewrite length_flat_map_knots, spl_coeffs_length. lia.
Qed.

(* every strict prefix of a written file is rejected by the reader *)
Theorem spl_truncated_rejected tol acc (o : obj R) k : spl_wf tol o -> (k < length (@spl_lines R NumR acc o))%nat ->
  @spl_decode R NumR tol (firstn k (@spl_lines R NumR acc o)) = None.
Proof.
  intros Hw Hk. destruct (@spl_decode R NumR tol (firstn k (@spl_lines R NumR acc o))) as [o'|] eqn:E; [|reflexivity].
  exfalso. pose proof (spl_decode_app tol _ (skipn k (@spl_lines R NumR acc o)) _ E) as E'.
  rewrite firstn_skipn in E'. rewrite <- (app_nil_r (@spl_lines R NumR acc o)) in E'.
  rewrite (spl_decode_lines tol acc o [] Hw) in E'. injection E' as <-.
  destruct (spl_decode_sound tol _ _ E) as (_ & _ & Hlen).
  rewrite firstn_length in Hlen. rewrite spl_lines_length in Hk. lia.
Qed.

(* ---------- executed on Q: a bilinear-quadratic surface (orders 2 x 3, 2 x 3 control points in the plane) ---------- *)
From Coq Require Import QArith.
Example spl_example :
  let bu := @mkBasis Q 2 [0; 0; 1; 1]%Q 0 in
  let bv := @mkBasis Q 3 [0; 0; 0; 1; 1; 1]%Q 0 in
  let o := @mkObj Q [bu; bv] [[100;200]; [102;202]; [104;204]; [101;201]; [103;203]; [105;205]]%Q 2 false in
  @spl_encode Q NumQ (1#1000) o =
    Some [[67; 2; 2; 0]; [2]; [3]; [2]; [3]; [1#1000]; [0]; [0]; [1]; [1]; [0]; [0]; [0]; [1]; [1]; [1];
          [100]; [101]; [102]; [103]; [104]; [105]; [200]; [201]; [202]; [203]; [204]; [205]]%Q /\
  @spl_decode Q NumQ 0%Q (@spl_lines Q NumQ (1#1000) o) = Some o /\
  @spl_ok Q NumQ 0%Q o = true /\
  map (fun gc => spl_index [2; 3]%nat (fst gc) (snd gc)) [(0,0); (1,0); (2,0); (3,0); (4,0); (5,0); (0,1); (5,1)]%nat
    = [0; 2; 4; 1; 3; 5; 6; 11]%nat /\
  @spl_decode Q NumQ 0%Q (firstn 27 (@spl_lines Q NumQ (1#1000) o)) = None /\
  @spl_encode Q NumQ 0%Q (@mkObj Q [bu; bv] (o_cps o) 1 true) = None.
Proof. vm_compute. repeat split; reflexivity. Qed.

