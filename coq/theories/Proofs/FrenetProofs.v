(* C16: the Frenet vectors of a curve (Curve.tangent / binormal / normal) are an orthonormal right-handed frame.
   Model: Model/Frenet.v (helper choice and un-normalised directions); the normalisation by sqrt is done here on R
   with norm3 / unit3 of Proofs/HandedProofs.v.

   "v <> 0" is written  0 < dot3 v v  ([dot3_pos_iff]: equivalent to "not all three components vanish").
   The exact tests ddx = 0 and dx_x = dx_y = 0 stand for np.allclose(., 0) (see Model/Frenet.v). *)
From Coq Require Import List Arith Reals Lra Lia Bool ZArith QArith Psatz.
From SplipyModel Require Import Spec.BSpline Model.Num Model.Handed Model.Frenet Proofs.HandedProofs.
Import ListNotations.
Open Scope R_scope.

(* ================================================================================================ *)
(* 0. vector algebra                                                                                  *)

Lemma vc0 (a : R) l : @vc R NumR (a :: l) 0%nat = a.           Proof. reflexivity. Qed.
Lemma vc1 (a b : R) l : @vc R NumR (a :: b :: l) 1%nat = b.      Proof. reflexivity. Qed.
Lemma vc2 (a b c : R) l : @vc R NumR (a :: b :: c :: l) 2%nat = c. Proof. reflexivity. Qed.

Ltac falg := unfold dot3, cross3; cbn [nadd nsub nmul ndiv n0 n1 NumR]; rewrite ?vc0, ?vc1, ?vc2.

Lemma list3_eq (x y z x' y' z' : R) : x = x' -> y = y' -> z = z' -> [x; y; z] = [x'; y'; z'].
Proof. intros; subst; reflexivity. Qed.

Definition vzero3 (v : list R) : Prop := @vc R NumR v 0 = 0 /\ @vc R NumR v 1 = 0 /\ @vc R NumR v 2 = 0.

Lemma dot3_pos_iff v : 0 < @dot3 R NumR v v <-> ~ vzero3 v.
Proof.
  unfold vzero3. falg. set (a := @vc R NumR v 0). set (b := @vc R NumR v 1). set (c := @vc R NumR v 2). split.
  - intros Hp [E0 [E1 E2]]. rewrite E0, E1, E2 in Hp. lra.
  - intros Hn. destruct (Req_dec a 0) as [Ea|Ea]; [destruct (Req_dec b 0) as [Eb|Eb]; [destruct (Req_dec c 0) as [Ec|Ec]|]|].
    + exfalso; apply Hn; auto.
    + assert (0 < c * c) by nra. nra.
    + assert (0 < b * b) by nra. nra.
    + assert (0 < a * a) by nra. nra.
Qed.

Lemma dot3_comm a b : @dot3 R NumR a b = @dot3 R NumR b a.
Proof. falg. ring. Qed.
(* a x c is orthogonal to both factors *)
Lemma dot3_cross3_l a c : @dot3 R NumR a (@cross3 R NumR a c) = 0.
Proof. falg. ring. Qed.
Lemma dot3_cross3_r a c : @dot3 R NumR c (@cross3 R NumR a c) = 0.
Proof. falg. ring. Qed.
(* Lagrange *)
Lemma lagrange3 a b : @dot3 R NumR (@cross3 R NumR a b) (@cross3 R NumR a b)
  = @dot3 R NumR a a * @dot3 R NumR b b - @dot3 R NumR a b * @dot3 R NumR a b.
Proof. falg. ring. Qed.
(* t x (b x t) = b (t.t) - t (t.b) *)
Lemma bac_cab t b : @cross3 R NumR t (@cross3 R NumR b t)
  = [ @vc R NumR b 0 * @dot3 R NumR t t - @vc R NumR t 0 * @dot3 R NumR t b;
      @vc R NumR b 1 * @dot3 R NumR t t - @vc R NumR t 1 * @dot3 R NumR t b;
      @vc R NumR b 2 * @dot3 R NumR t t - @vc R NumR t 2 * @dot3 R NumR t b ].
Proof. falg. apply list3_eq; ring. Qed.

Lemma dot3_vdiv a b c d : c <> 0 -> d <> 0 -> @dot3 R NumR (vdiv a c) (vdiv b d) = @dot3 R NumR a b / (c * d).
Proof. intros Hc Hd. falg. rewrite !vc_vdiv. field. split; assumption. Qed.
Lemma cross3_vdiv a b c d : c <> 0 -> d <> 0 ->
  @cross3 R NumR (vdiv a c) (vdiv b d) = vdiv (@cross3 R NumR a b) (c * d).
Proof. intros Hc Hd. falg. rewrite !vc_vdiv. unfold vdiv. cbn [map]. apply list3_eq; field; split; assumption. Qed.

Lemma unit3_unit v : 0 < @dot3 R NumR v v -> @dot3 R NumR (unit3 v) (unit3 v) = 1.
Proof.
  intros Hp. pose proof (norm3_pos v Hp) as Hn. unfold unit3. rewrite dot3_vdiv by lra.
  rewrite norm3_sq. field. lra.
Qed.

(* ================================================================================================ *)
(* 1. orthonormal right-handed frames                                                                 *)

(* pairwise orthogonal unit vectors with t x n = b *)
Definition orthonormal_rh (t n b : list R) : Prop :=
  @dot3 R NumR t t = 1 /\ @dot3 R NumR n n = 1 /\ @dot3 R NumR b b = 1 /\
  @dot3 R NumR t n = 0 /\ @dot3 R NumR t b = 0 /\ @dot3 R NumR n b = 0 /\
  @cross3 R NumR t n = b.

(* right-handed also in the sense of the triple product: n . (b x t) ... = det(t, n, b) = 1 *)
Lemma orthonormal_rh_triple t n b : orthonormal_rh t n b -> @triple3 R NumR t n b = 1.
Proof. intros (_ & _ & Hb & _ & _ & _ & Hx). unfold triple3. rewrite Hx. exact Hb. Qed.

(* two orthogonal unit vectors t, b are completed by n = b x t (the order of the code) *)
Lemma frame_of_TB t b : length b = 3%nat ->
  @dot3 R NumR t t = 1 -> @dot3 R NumR b b = 1 -> @dot3 R NumR t b = 0 ->
  orthonormal_rh t (@cross3 R NumR b t) b.
Proof.
  intros Hl Ht Hb Htb.
  destruct b as [|b0 [|b1 [|b2 [|? ?]]]]; try discriminate Hl.
  unfold orthonormal_rh. repeat split; try assumption.
  - rewrite lagrange3, Hb, Ht, (dot3_comm _ t), Htb. ring.
  - apply dot3_cross3_r.
  - rewrite dot3_comm. apply dot3_cross3_l.
  - rewrite bac_cab, Ht, Htb, vc0, vc1, vc2. apply list3_eq; ring.
Qed.

(* the frame of the code from a velocity dx and ANY second direction c not parallel to it *)
Theorem frame_core dx c :
  0 < @dot3 R NumR dx dx -> 0 < @dot3 R NumR (@cross3 R NumR dx c) (@cross3 R NumR dx c) ->
  orthonormal_rh (unit3 dx) (@cross3 R NumR (unit3 (@cross3 R NumR dx c)) (unit3 dx)) (unit3 (@cross3 R NumR dx c)).
Proof.
  intros Hd Hb. apply frame_of_TB.
  - reflexivity.
  - apply unit3_unit, Hd.
  - apply unit3_unit, Hb.
  - pose proof (norm3_pos _ Hd). pose proof (norm3_pos _ Hb).
    unfold unit3. rewrite dot3_vdiv by lra. rewrite dot3_cross3_l. field. split; lra.
Qed.

(* ================================================================================================ *)
(* 2. the Frenet frame of the code                                                                    *)

Definition frenet_T (dx : list R) : list R := unit3 dx.
Definition frenet_B (dx ddx : list R) : list R := unit3 (@binormal_dir R NumR dx ddx).
Definition frenet_N (dx ddx : list R) : list R := @cross3 R NumR (frenet_B dx ddx) (frenet_T dx).
Definition frenet_frame (dx ddx : list R) : list R * list R * list R :=
  (frenet_T dx, frenet_N dx ddx, frenet_B dx ddx).

Lemma is_zero3_spec (v : list R) : reflect (vzero3 v) (@is_zero3 R NumR v).
Proof.
  unfold is_zero3, vzero3. cbn [neqb n0 NumR].
  destruct (Reqb_spec (@vc R NumR v 0) 0) as [E0|E0]; cbn [andb]; [|constructor; tauto].
  destruct (Reqb_spec (@vc R NumR v 1) 0) as [E1|E1]; cbn [andb]; [|constructor; tauto].
  destruct (Reqb_spec (@vc R NumR v 2) 0) as [E2|E2]; constructor; tauto.
Qed.
Lemma is_zero_xy_spec (v : list R) : reflect (@vc R NumR v 0 = 0 /\ @vc R NumR v 1 = 0) (@is_zero_xy R NumR v).
Proof.
  unfold is_zero_xy. cbn [neqb n0 NumR].
  destruct (Reqb_spec (@vc R NumR v 0) 0) as [E0|E0]; cbn [andb]; [|constructor; tauto].
  destruct (Reqb_spec (@vc R NumR v 1) 0) as [E1|E1]; constructor; tauto.
Qed.

Lemma cross3_zero_r dx c : vzero3 c -> @dot3 R NumR (@cross3 R NumR dx c) (@cross3 R NumR dx c) = 0.
Proof. intros (E0 & E1 & E2). falg. rewrite E0, E1, E2. ring. Qed.

(* with curvature the helper is not used *)
Lemma helper_regular dx ddx : 0 < @dot3 R NumR (@cross3 R NumR dx ddx) (@cross3 R NumR dx ddx) ->
  @frenet_helper R NumR dx ddx = ddx.
Proof.
  intros Hb. unfold frenet_helper. destruct (is_zero3_spec ddx) as [Z|Z]; [|reflexivity].
  rewrite (cross3_zero_r dx ddx Z) in Hb. lra.
Qed.
Lemma helper_straight dx ddx : vzero3 ddx -> @frenet_helper R NumR dx ddx = @helper_choice R NumR dx.
Proof. intros Z. unfold frenet_helper. destruct (is_zero3_spec ddx) as [Z'|Z']; [reflexivity|contradiction]. Qed.

(* --- 1. regular point with curvature ------------------------------------------------------------- *)
Theorem frenet_regular dx ddx :
  0 < @dot3 R NumR dx dx -> 0 < @dot3 R NumR (@cross3 R NumR dx ddx) (@cross3 R NumR dx ddx) ->
  frenet_T dx = unit3 dx /\
  frenet_B dx ddx = unit3 (@cross3 R NumR dx ddx) /\
  frenet_N dx ddx = @cross3 R NumR (unit3 (@cross3 R NumR dx ddx)) (unit3 dx) /\
  orthonormal_rh (frenet_T dx) (frenet_N dx ddx) (frenet_B dx ddx).
Proof.
  intros Hd Hb. unfold frenet_N, frenet_B, frenet_T, binormal_dir. rewrite (helper_regular dx ddx Hb).
  repeat split; try reflexivity; apply (frame_core dx ddx Hd Hb).
Qed.

(* --- 2. straight leg: the two-case choice is never parallel to the velocity ------------------------ *)
Theorem helper_choice_not_parallel dx : 0 < @dot3 R NumR dx dx ->
  0 < @dot3 R NumR (@cross3 R NumR dx (@helper_choice R NumR dx)) (@cross3 R NumR dx (@helper_choice R NumR dx)).
Proof.
  intros Hd. unfold helper_choice. destruct (is_zero_xy_spec dx) as [[E0 E1]|Hn].
  - revert Hd. falg. rewrite E0, E1. intros Hd. nra.
  - revert Hd. falg. intros Hd.
    set (a := @vc R NumR dx 0) in *. set (b := @vc R NumR dx 1) in *.
    destruct (Req_dec a 0) as [Ea|Ea]; [destruct (Req_dec b 0) as [Eb|Eb]|].
    + exfalso; apply Hn; auto.
    + assert (0 < b * b) by nra. nra.
    + assert (0 < a * a) by nra. nra.
Qed.

Theorem frenet_straight dx ddx :
  0 < @dot3 R NumR dx dx -> vzero3 ddx ->
  0 < @dot3 R NumR (@binormal_dir R NumR dx ddx) (@binormal_dir R NumR dx ddx) /\
  orthonormal_rh (frenet_T dx) (frenet_N dx ddx) (frenet_B dx ddx).
Proof.
  intros Hd Z. pose proof (helper_choice_not_parallel dx Hd) as Hb.
  unfold frenet_N, frenet_B, frenet_T, binormal_dir. rewrite (helper_straight dx ddx Z).
  split; [exact Hb|]. apply (frame_core dx _ Hd Hb).
Qed.

(* both cases at once: the only excluded points are those with ddx <> 0 parallel to dx (zero curvature with
   non-zero acceleration), where the code divides 0 by 0 *)
Theorem frenet_orthonormal dx ddx :
  0 < @dot3 R NumR dx dx ->
  vzero3 ddx \/ 0 < @dot3 R NumR (@cross3 R NumR dx ddx) (@cross3 R NumR dx ddx) ->
  orthonormal_rh (frenet_T dx) (frenet_N dx ddx) (frenet_B dx ddx).
Proof.
  intros Hd [Z|Hb]; [apply (frenet_straight dx ddx Hd Z)|apply (frenet_regular dx ddx Hd Hb)].
Qed.

(* the excluded case is really degenerate: acceleration k dx gives the zero vector before normalisation *)
Lemma frenet_collinear_degenerate dx k : k <> 0 -> 0 < @dot3 R NumR dx dx ->
  let ddx := map (fun x => k * x) [@vc R NumR dx 0; @vc R NumR dx 1; @vc R NumR dx 2] in
  ~ vzero3 ddx /\ @binormal_dir R NumR dx ddx = [0; 0; 0].
Proof.
  intros Hk Hd ddx.
  assert (Hz : ~ vzero3 ddx).
  { intros (E0 & E1 & E2). unfold ddx in E0, E1, E2. cbn [map] in E0, E1, E2. rewrite ?vc0, ?vc1, ?vc2 in E0, E1, E2.
    apply dot3_pos_iff in Hd. apply Hd. unfold vzero3.
    repeat split; [apply (Rmult_eq_reg_l k); [rewrite Rmult_0_r; assumption|exact Hk] ..]. }
  split; [exact Hz|].
  unfold binormal_dir, frenet_helper. destruct (is_zero3_spec ddx) as [Z|_]; [contradiction|].
  unfold ddx. cbn [map]. falg. apply list3_eq; ring.
Qed.

(* the normal is the model's un-normalised direction divided by |dx x ddx'| |dx| *)
Theorem frenet_N_dir dx ddx :
  0 < @dot3 R NumR dx dx -> 0 < @dot3 R NumR (@binormal_dir R NumR dx ddx) (@binormal_dir R NumR dx ddx) ->
  frenet_N dx ddx = vdiv (@normal_dir R NumR dx ddx) (norm3 (@binormal_dir R NumR dx ddx) * norm3 dx).
Proof.
  intros Hd Hb. pose proof (norm3_pos _ Hd). pose proof (norm3_pos _ Hb).
  unfold frenet_N, frenet_B, frenet_T, normal_dir, unit3. apply cross3_vdiv; lra.
Qed.

(* ================================================================================================ *)
(* 3. the choice is per evaluation point                                                              *)

Definition frenet_frames (pts : list (list R * list R)) : list (list R * list R * list R) :=
  map (fun p => frenet_frame (fst p) (snd p)) pts.

(* the frame at parameter number i of a call depends only on (dx, ddx) at that parameter: two calls that agree
   there agree on that frame, whatever the other evaluation points are *)
Theorem frenet_pointwise (pts pts' : list (list R * list R)) i j d :
  (i < length pts)%nat -> (j < length pts')%nat ->
  nth i pts ([], []) = nth j pts' ([], []) ->
  nth i (frenet_frames pts) d = nth j (frenet_frames pts') d /\
  nth i (frenet_frames pts) d = frenet_frame (fst (nth i pts ([], []))) (snd (nth i pts ([], []))).
Proof.
  intros Hi Hj E. unfold frenet_frames.
  set (f := fun p : list R * list R => frenet_frame (fst p) (snd p)).
  set (p0 := (@nil R, @nil R)) in *.
  rewrite (nth_indep (map f pts) d (f p0)) by (rewrite map_length; exact Hi).
  rewrite (nth_indep (map f pts') d (f p0)) by (rewrite map_length; exact Hj).
  rewrite !(map_nth f). rewrite E. split; reflexivity.
Qed.
(* the same for the executable un-normalised directions *)
Theorem binormal_dirs_pointwise (pts : list (list R * list R)) i : (i < length pts)%nat ->
  nth i (@binormal_dirs R NumR pts) [] = @binormal_dir R NumR (fst (nth i pts ([], []))) (snd (nth i pts ([], []))).
Proof.
  intros Hi. unfold binormal_dirs.
  set (f := fun p : list R * list R => @binormal_dir R NumR (fst p) (snd p)).
  set (p0 := (@nil R, @nil R)).
  rewrite (nth_indep (map f pts) [] (f p0)) by (rewrite map_length; exact Hi).
  apply (map_nth f).
Qed.

Lemma vzero3_000 : vzero3 [0; 0; 0].
Proof. unfold vzero3. rewrite vc0, vc1, vc2. auto. Qed.
Lemma is_zero3_000 : @is_zero3 R NumR [0; 0; 0] = true.
Proof. destruct (is_zero3_spec [0; 0; 0]) as [_|N]; [reflexivity|destruct (N vzero3_000)]. Qed.

(* COUNTEREXAMPLE: one helper (0,0,1) for a whole call is wrong on a leg along z: dx x h = 0, the length to
   divide by is 0; the per-point choice of the code gives (0,1,0) there *)
Theorem single_choice_wrong :
  @binormal_dir_fixed R NumR [0; 0; 1] [0; 0; 1] [0; 0; 0] = [0; 0; 0] /\
  norm3 (@binormal_dir_fixed R NumR [0; 0; 1] [0; 0; 1] [0; 0; 0]) = 0 /\
  @binormal_dir R NumR [0; 0; 1] [0; 0; 0] = [0; 1; 0].
Proof.
  assert (E : @binormal_dir_fixed R NumR [0; 0; 1] [0; 0; 1] [0; 0; 0] = [0; 0; 0]).
  { unfold binormal_dir_fixed. rewrite is_zero3_000. falg. apply list3_eq; ring. }
  split; [exact E|]. split.
  - rewrite E. unfold norm3. falg. replace (0 * 0 + 0 * 0 + 0 * 0) with 0 by ring. apply sqrt_0.
  - unfold binormal_dir. rewrite (helper_straight _ _ vzero3_000). unfold helper_choice.
    destruct (is_zero_xy_spec [0; 0; 1]) as [_|N].
    + falg. apply list3_eq; ring.
    + exfalso. apply N. rewrite vc0, vc1. auto.
Qed.

(* no single helper direction works for every straight leg: some non-zero velocity is parallel to it *)
Theorem no_global_helper (h : list R) :
  exists dx, 0 < @dot3 R NumR dx dx /\
    @dot3 R NumR (@binormal_dir_fixed R NumR h dx [0; 0; 0]) (@binormal_dir_fixed R NumR h dx [0; 0; 0]) = 0.
Proof.
  destruct (Rlt_dec 0 (@dot3 R NumR h h)) as [Hp|Hn].
  - exists h. split; [exact Hp|]. unfold binormal_dir_fixed. rewrite is_zero3_000. falg. ring.
  - exists [1; 0; 0]. split; [falg; lra|]. unfold binormal_dir_fixed. rewrite is_zero3_000.
    assert (Z : vzero3 h).
    { destruct (is_zero3_spec h) as [Z|Z]; [exact Z|]. apply dot3_pos_iff in Z. contradiction. }
    apply cross3_zero_r, Z.
Qed.

(* ================================================================================================ *)
(* 4. the un-normalised directions on Q: a polyline with a leg along z and a leg along (1,1,0)        *)

Definition q3 (a b c : Z) : list Q := [inject_Z a; inject_Z b; inject_Z c].
Definition polyline_pts : list (list Q * list Q) := [ (q3 0 0 2, q3 0 0 0); (q3 1 1 0, q3 0 0 0) ].

Example frenet_Q_binormal : @binormal_dirs Q NumQ polyline_pts = [ q3 0 2 0; q3 1 (-1) 0 ].
Proof. vm_compute. reflexivity. Qed.
Example frenet_Q_normal : @normal_dirs Q NumQ polyline_pts = [ q3 4 0 0; q3 0 0 2 ].
Proof. vm_compute. reflexivity. Qed.
(* one helper for the whole call: (0,0,1) kills the z leg, (1,0,0) would kill a leg along x *)
Example frenet_Q_fixed : @binormal_dirs_fixed Q NumQ (q3 0 0 1) polyline_pts = [ q3 0 0 0; q3 1 (-1) 0 ].
Proof. vm_compute. reflexivity. Qed.
Example frenet_Q_fixed_x : @binormal_dirs_fixed Q NumQ (q3 1 0 0) [ (q3 3 0 0, q3 0 0 0) ] = [ q3 0 0 0 ].
Proof. vm_compute. reflexivity. Qed.

Print Assumptions frenet_regular.
Print Assumptions helper_choice_not_parallel.
Print Assumptions frenet_straight.
Print Assumptions frenet_orthonormal.
Print Assumptions frenet_collinear_degenerate.
Print Assumptions frenet_N_dir.
Print Assumptions orthonormal_rh_triple.
Print Assumptions frenet_pointwise.
Print Assumptions binormal_dirs_pointwise.
Print Assumptions single_choice_wrong.
Print Assumptions no_global_helper.
Print Assumptions frenet_Q_binormal.
Print Assumptions frenet_Q_normal.
Print Assumptions frenet_Q_fixed.
