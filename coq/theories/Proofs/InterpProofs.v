(* C14: interpolation and least squares reproduce their data; projections; cubic_curve end conditions as rows of
   the solved system; tensor-product interpolation through the lifting lemma. *)
From Coq Require Import List Arith Reals Lra Lia Bool ZArith.
From SplipyModel Require Import Spec.BSpline Model.Num Model.BasisDef Model.BasisEval Model.Tensor Model.Obj Model.KnotInsert Model.Solve Model.Interp
  Proofs.EvalConsequences Proofs.TensorLemmas Proofs.TensorApply Proofs.SnapSpec Proofs.ObjEval Proofs.AffineProofs Proofs.OrderProofs Proofs.LinAlg.
Import ListNotations.
Open Scope R_scope.

(* ---------- collocation matrices ---------- *)
Lemma dense_row_length n p pt : length (@dense_row R NumR n p pt) = n.
Proof. unfold dense_row. destruct pt as [[mu M]|]; [rewrite map_length, seq_length|rewrite repeat_length]; reflexivity. Qed.

Lemma colloc_mat tol (b : basis R) d ts : mat (length ts) (@b_nfun R b) (@colloc R NumR tol b d ts).
Proof.
  unfold colloc, basis_evaluate, b_nfun. cbv zeta. destruct (Nat.leb _ d).
  - split; [rewrite !map_length; reflexivity|]. apply Forall_forall. intros r Hr. apply in_map_iff in Hr. destruct Hr as (x & <- & _). apply repeat_length.
  - split; [rewrite !map_length; reflexivity|]. apply Forall_forall. intros r Hr. apply in_map_iff in Hr. destruct Hr as (x & <- & _). apply dense_row_length.
Qed.

(* row i of the collocation matrix is the row evaluate() uses at the parameter t_i *)
Lemma colloc_row tol (b : basis R) d ts i : sorted (kn (b_knots b)) -> 0 < tol -> (i < length ts)%nat ->
  nth i (@colloc R NumR tol b d ts) [] = @basis_row R NumR tol b d true (@snap1 R NumR (b_knots b) tol (nth i ts 0)).
Proof.
  intros HK Htol Hi. unfold basis_row, colloc, basis_evaluate. cbv zeta. cbn [map hd].
  rewrite (snap1_idem _ HK tol Htol).
  destruct (Nat.leb _ d).
  - rewrite (nth_map_gen _ (map _ ts) i [] 0) by (rewrite map_length; exact Hi). reflexivity.
  - rewrite (nth_map_gen _ (map _ ts) i [] 0) by (rewrite map_length; exact Hi).
    rewrite (nth_map_gen _ ts i 0 0) by exact Hi. reflexivity.
Qed.

(* a matrix product row by row is the defining linear combination *)
Lemma matmul_row_lc r n c A X i j : mat r n A -> mat n c X -> (0 < n)%nat -> (i < r)%nat -> (j < c)%nat ->
  lc j (nth i A []) X = ment (@matmul R NumR A X) i j.
Proof.
  intros HA HX Hn Hi Hj. rewrite (matmul_ent r n c) by assumption.
  rewrite lc_rowsum by (rewrite (mat_row r n A i HA Hi); destruct HX; lia).
  rewrite (mat_row r n A i HA Hi). reflexivity.
Qed.

(* ---------- 1. curve interpolation ---------- *)
Section CurveInterp.
Variables (tol : R) (b : basis R) (ts : list R) (x : list (list R)) (o : obj R).
Hypothesis Hres : @curve_interpolate R NumR tol b ts x = Ok o.
Local Notation n := (@b_nfun R b).
Local Notation N := (@colloc R NumR tol b 0 ts).
Local Notation dim := (length (hd [] x)).
Hypothesis Hsq : length ts = n.
Hypothesis Hn : (0 < n)%nat.
Hypothesis Hx : mat n dim x.

Lemma interp_inverse : exists Ni, o = mkObj [b] (@matmul R NumR Ni x) dim false /\
  @matmul R NumR N Ni = @ident R NumR n /\ @matmul R NumR Ni N = @ident R NumR n /\ mat n n Ni /\ mat n n N.
Proof.
  unfold curve_interpolate in Hres. destruct (@inverse R NumR N) as [Ni|e] eqn:E; [|discriminate].
  exists Ni. split; [injection Hres as <-; reflexivity|].
  pose proof (colloc_mat tol b 0 ts) as HN. rewrite Hsq in HN.
  assert (LN : length N = n) by (destruct HN; assumption).
  apply inverse_spec in E. rewrite LN in E. destruct E as (E1 & E2 & E3). split; [exact E1|split; [exact E2|split; [exact E3|exact HN]]].
Qed.

(* the collocation system is satisfied: N cp = x *)
Theorem interp_system : @matmul R NumR N (o_cps o) = x /\ o_bases o = [b] /\ o_dim o = dim /\ o_rat o = false /\ mat n dim (o_cps o).
Proof.
  destruct interp_inverse as (Ni & -> & E1 & E2 & HNi & HN). cbn [o_cps o_bases o_dim o_rat].
  split; [|repeat split; try apply (matmul_mat n n dim); try assumption; destruct Hx; assumption].
  rewrite <- (matmul_assoc n n n dim) by assumption. rewrite E1. apply (matmul_ident_l n dim); assumption.
Qed.

(* the curve's defining sum at t_i is x_i *)
Theorem interp_passes i c : (i < n)%nat -> (c < dim)%nat -> lc c (nth i N []) (o_cps o) = nth c (nth i x []) 0.
Proof.
  intros Hi Hc. destruct interp_system as (E & _ & _ & _ & Hcp).
  destruct interp_inverse as (_ & _ & _ & _ & _ & HN).
  rewrite (matmul_row_lc n n dim) by assumption. rewrite E. reflexivity.
Qed.

(* projection: data sampled from a spline of the space gives that spline back *)
Theorem interp_projection c0 : mat n dim c0 -> x = @matmul R NumR N c0 -> o_cps o = c0.
Proof.
  intros Hc0 Ex. destruct interp_inverse as (Ni & -> & E1 & E2 & HNi & HN). cbn [o_cps].
  rewrite Ex at 1. rewrite <- (matmul_assoc n n n dim) by assumption. rewrite E2. apply (matmul_ident_l n dim); assumption.
Qed.

(* evaluate(): the evaluated curve passes through x_i at t_i *)
Theorem interp_eval i v : sorted (kn (b_knots b)) -> 0 < tol -> (i < n)%nat ->
  @obj_eval R NumR tol o [nth i ts 0] = Ok v -> forall c, (c < dim)%nat -> coord c v = nth c (nth i x []) 0.
Proof.
  intros HK Htol Hi Hev c Hc.
  destruct interp_system as (E & Eb & Ed & Er & Hcp).
  unfold obj_eval in Hev. rewrite Eb in Hev. cbn [validate hd tl] in Hev.
  destruct (@validate1 R NumR tol b (nth i ts 0)) as [t'|e] eqn:EV; [|discriminate].
  assert (Et' : t' = @snap1 R NumR (b_knots b) tol (nth i ts 0)).
  { unfold validate1 in EV. cbv zeta in EV. destruct (_ && _); [discriminate|]. injection EV as <-. reflexivity. }
  rewrite Er in Hev. injection Hev as <-.
  unfold eval_h, rows_at, o_ncomp. rewrite Eb, Er, Ed. cbn [length seq map nth]. rewrite Nat.add_0_r.
  rewrite Et'. rewrite <- (colloc_row tol b 0 ts i HK Htol) by lia.
  destruct Hcp as [Lcp Fcp]. destruct interp_inverse as (_ & _ & _ & _ & _ & HN).
  rewrite teval_curve; [apply interp_passes; assumption|exact Fcp| |exact Hc].
  rewrite (mat_row n n N i HN Hi). exact Lcp.
Qed.
End CurveInterp.

(* ---------- 2. least squares ---------- *)
Section CurveLsq.
Variables (tol : R) (b : basis R) (ts : list R) (x : list (list R)) (o : obj R).
Hypothesis Hres : @curve_lsq R NumR tol b ts x = Ok o.
Local Notation n := (@b_nfun R b).
Local Notation m := (length ts).
Local Notation N := (@colloc R NumR tol b 0 ts).
Local Notation Nt := (@transpose R NumR n N).
Local Notation dim := (length (hd [] x)).
Hypothesis Hn : (0 < n)%nat.
Hypothesis Hm : (0 < m)%nat.
Hypothesis Hx : mat m dim x.

Lemma lsq_inverse : exists G, o = mkObj [b] (@matmul R NumR G (@matmul R NumR Nt x)) dim false /\
  @matmul R NumR (@matmul R NumR Nt N) G = @ident R NumR n /\ @matmul R NumR G (@matmul R NumR Nt N) = @ident R NumR n /\ mat n n G.
Proof.
  unfold curve_lsq in Hres. cbv zeta in Hres. destruct (@inverse R NumR _) as [G|e] eqn:E; [|discriminate].
  exists G. split; [injection Hres as <-; reflexivity|].
  pose proof (colloc_mat tol b 0 ts) as HN. pose proof (transpose_mat m n N HN) as HNt.
  pose proof (matmul_mat n m n Nt N HNt HN Hm) as HG.
  assert (LG : length (@matmul R NumR Nt N) = n) by (destruct HG; assumption).
  apply inverse_spec in E. rewrite LG in E. exact E.
Qed.

(* the normal equations hold: (N^T N) cp = N^T x, i.e. the residual is orthogonal to the spline space *)
Theorem lsq_normal_equations : @matmul R NumR (@matmul R NumR Nt N) (o_cps o) = @matmul R NumR Nt x.
Proof.
  destruct lsq_inverse as (G & -> & E1 & E2 & HG). cbn [o_cps].
  pose proof (colloc_mat tol b 0 ts) as HN. pose proof (transpose_mat m n N HN) as HNt.
  pose proof (matmul_mat n m n Nt N HNt HN Hm) as HA. pose proof (matmul_mat n m dim Nt x HNt Hx Hm) as HB.
  rewrite <- (matmul_assoc n n n dim) by assumption. rewrite E1. apply (matmul_ident_l n dim); assumption.
Qed.

(* projection: samples of a spline of the space return that spline *)
Theorem lsq_projection c0 : mat n dim c0 -> x = @matmul R NumR N c0 -> o_cps o = c0.
Proof.
  intros Hc0 Ex. destruct lsq_inverse as (G & -> & E1 & E2 & HG). cbn [o_cps].
  pose proof (colloc_mat tol b 0 ts) as HN. pose proof (transpose_mat m n N HN) as HNt.
  pose proof (matmul_mat n m n Nt N HNt HN Hm) as HA.
  rewrite Ex at 1. rewrite <- (matmul_assoc n m n dim Nt N c0) by assumption.
  rewrite <- (matmul_assoc n n n dim) by assumption. rewrite E2. apply (matmul_ident_l n dim); assumption.
Qed.
End CurveLsq.

(* ---------- 3. cubic_curve: every row of the stacked system holds ---------- *)
Section Cubic.
Variables (tol : R) (bt : nat) (t : list R) (x tang : list (list R)) (o : obj R).
Hypothesis Hres : @cubic_curve R NumR tol bt t x tang = Ok o.
Local Notation sys := (@cubic_system R NumR tol bt t x tang).
Local Notation b := (fst (fst sys)).
Local Notation A := (snd (fst sys)).
Local Notation rhs := (snd sys).
Local Notation n := (@b_nfun R b).
Local Notation dim := (length (hd [] rhs)).
Hypothesis HA : mat n n A.
Hypothesis Hn : (0 < n)%nat.

Theorem cubic_system_holds : @matmul R NumR A (o_cps o) = rhs /\ o_bases o = [b] /\ mat n dim (o_cps o).
Proof.
  unfold cubic_curve in Hres. destruct sys as [[b0 A0] rhs0] eqn:ES. cbn [fst snd] in *.
  destruct (@solve_shaped R NumR A0 rhs0) as [cp|e] eqn:E; [|discriminate]. injection Hres as <-. cbn [o_cps o_bases].
  apply solve_shaped_spec in E. destruct E as [E1 E2]. destruct HA as [LA _]. rewrite LA in E2. split; [exact E1|split; [reflexivity|exact E2]].
Qed.

(* row i of the system: interpolation rows (i < length t) say curve(t_i) = x_i, the rows after them say that the
   first / second derivative row at the end parameters applied to the control points equals the prescribed value *)
Theorem cubic_rows i c : (i < n)%nat -> (c < dim)%nat -> lc c (nth i A []) (o_cps o) = nth c (nth i rhs []) 0.
Proof.
  intros Hi Hc. destruct cubic_system_holds as (E & _ & Hcp).
  rewrite (matmul_row_lc n n dim) by assumption. rewrite E. reflexivity.
Qed.
End Cubic.

(* the rows of the cubic system, by boundary type *)
Lemma cubic_system_rows tol bt t x tang :
  let b := mkBasis 4 (@cubic_knots R NumR bt t) 0 in
  let sys := @cubic_system R NumR tol bt t x tang in
  fst (fst sys) = b /\
  (forall i, (i < length t)%nat -> nth i (snd (fst sys)) [] = nth i (@colloc R NumR tol b 0 t) [] /\ (length x = length t -> nth i (snd sys) [] = nth i x [])) /\
  (bt = 4%nat -> length x = length t -> nth (length t) (snd (fst sys)) [] = nth 0 (@colloc R NumR tol b 1 [hd 0 t; last t 0]) [] /\
                 nth (length t + 1) (snd (fst sys)) [] = nth 1 (@colloc R NumR tol b 1 [hd 0 t; last t 0]) [] /\
                 nth (length t) (snd sys) [] = nth 0 tang [] /\ nth (length t + 1) (snd sys) [] = nth 1 tang []) /\
  (bt = 1%nat -> length x = length t -> nth (length t) (snd (fst sys)) [] = nth 0 (@colloc R NumR tol b 2 [hd 0 t; last t 0]) [] /\
                 nth (length t + 1) (snd (fst sys)) [] = nth 1 (@colloc R NumR tol b 2 [hd 0 t; last t 0]) [] /\
                 nth (length t) (snd sys) [] = repeat 0 (length (hd [] x)) /\ nth (length t + 1) (snd sys) [] = repeat 0 (length (hd [] x))).
Proof.
  cbv zeta. unfold cubic_system. cbv zeta. cbn [fst snd].
  assert (LN : forall d ts, length (@colloc R NumR tol (mkBasis 4 (@cubic_knots R NumR bt t) 0) d ts) = length ts)
    by (intros d ts; destruct (colloc_mat tol (mkBasis 4 (@cubic_knots R NumR bt t) 0) d ts); assumption).
  split; [reflexivity|]. split; [|split].
  - intros i Hi. split; [rewrite app_nth1 by (rewrite LN; exact Hi); reflexivity|].
    intros Lx. rewrite app_nth1 by lia. reflexivity.
  - intros -> Lx. cbn [Nat.eqb orb]. rewrite !app_nil_r.
    split; [|split; [|split]].
    + rewrite app_nth2 by (rewrite LN; lia). rewrite LN, Nat.sub_diag. reflexivity.
    + rewrite app_nth2 by (rewrite LN; lia). rewrite LN. replace (length t + 1 - length t)%nat with 1%nat by lia. reflexivity.
    + rewrite app_nth2 by lia. rewrite Lx, Nat.sub_diag. reflexivity.
    + rewrite app_nth2 by lia. rewrite Lx. replace (length t + 1 - length t)%nat with 1%nat by lia. reflexivity.
  - intros -> Lx. cbn [Nat.eqb orb app]. 
    split; [|split; [|split]].
    + rewrite app_nth2 by (rewrite LN; lia). rewrite LN, Nat.sub_diag. reflexivity.
    + rewrite app_nth2 by (rewrite LN; lia). rewrite LN. replace (length t + 1 - length t)%nat with 1%nat by lia. reflexivity.
    + rewrite app_nth2 by lia. rewrite Lx, Nat.sub_diag. reflexivity.
    + rewrite app_nth2 by lia. rewrite Lx. replace (length t + 1 - length t)%nat with 1%nat by lia. reflexivity.
Qed.

(* ---------- 4. surface interpolation through the lifting lemma ---------- *)
Definition unit_row (n i : nat) : list R := map (fun j => if (j =? i)%nat then 1 else 0) (seq 0 n).
Lemma unit_row_length n i : length (unit_row n i) = n.
Proof. unfold unit_row. rewrite map_length, seq_length. reflexivity. Qed.
Lemma unit_row_nth n i j : (j < n)%nat -> nth j (unit_row n i) 0 = if (j =? i)%nat then 1 else 0.
Proof. intros Hj. unfold unit_row. rewrite (nth_map_gen _ (seq 0 n) j 0 0%nat) by (rewrite seq_length; lia). rewrite seq_nth by lia. reflexivity. Qed.

Lemma lcf_unit n i (g : nat -> R) : (i < n)%nat -> lcf (unit_row n i) g = g i.
Proof.
  intros Hi. unfold lcf. rewrite unit_row_length.
  rewrite (sumf_ext _ (fun j => (if (j =? i)%nat then 1 else 0) * g j)) by (intros j Hj; rewrite unit_row_nth by lia; reflexivity).
  apply (sumf_unit g i n Hi).
Qed.

(* if N Ni = I then row i of N is carried to the unit row by Ni *)
Lemma inverse_row_rel n N Ni i : mat n n N -> mat n n Ni -> (0 < n)%nat -> (i < n)%nat ->
  @matmul R NumR N Ni = @ident R NumR n -> row_rel (unit_row n i) (nth i N []) Ni.
Proof.
  intros HN HNi Hn Hi E. unfold row_rel. rewrite unit_row_length, (mat_row n n N i HN Hi).
  destruct HNi as [L Fo]. split; [exact L|]. split; [exact Fo|].
  intros j Hj. rewrite unit_row_nth by exact Hj.
  pose proof (matmul_ent n n n N Ni i j HN (conj L Fo) Hn Hi Hj) as Ent. rewrite E, ident_ent in Ent by assumption.
  rewrite Nat.eqb_sym. exact Ent.
Qed.

Section SurfaceInterp.
Variables (tol : R) (bu bv : basis R) (us vs : list R) (x : list (list R)) (o : obj R).
Hypothesis Hres : @surface_interpolate R NumR tol bu bv us vs x = Ok o.
Local Notation nu := (@b_nfun R bu).
Local Notation nv := (@b_nfun R bv).
Local Notation Nu := (@colloc R NumR tol bu 0 us).
Local Notation Nv := (@colloc R NumR tol bv 0 vs).
Local Notation dim := (length (hd [] x)).
Hypothesis Hu : length us = nu.
Hypothesis Hv : length vs = nv.
Hypothesis Hnu : (0 < nu)%nat.
Hypothesis Hnv : (0 < nv)%nat.
Hypothesis Hx : mat (nu * nv) dim x.

(* the surface's defining double sum at (u_i, v_j) is the grid point x_ij *)
Theorem surface_interp_passes i j c : (i < nu)%nat -> (j < nv)%nat -> (c < dim)%nat ->
  coord c (@teval R NumR dim [nth i Nu []; nth j Nv []] (o_cps o)) = coord c (nth (i * nv + j) x []) /\ o_bases o = [bu; bv].
Proof.
  intros Hi Hj Hc.
  unfold surface_interpolate in Hres.
  destruct (@inverse R NumR Nu) as [Iu|e] eqn:EU; [|discriminate].
  destruct (@inverse R NumR Nv) as [Iv|e] eqn:EV; [|discriminate].
  assert (Ecps : o_cps o = @apply_dir R NumR dim [length us; length vs] 0 Iu (@apply_dir R NumR dim [length us; length vs] 1 Iv x)) by (injection Hres as <-; reflexivity).
  assert (Eb : o_bases o = [bu; bv]) by (injection Hres as <-; reflexivity).
  split; [|exact Eb]. rewrite Ecps. clear Ecps Eb Hres.
  pose proof (colloc_mat tol bu 0 us) as HNu. rewrite Hu in HNu.
  pose proof (colloc_mat tol bv 0 vs) as HNv. rewrite Hv in HNv.
  assert (LU : length Nu = nu) by (destruct HNu; assumption). assert (LV : length Nv = nv) by (destruct HNv; assumption).
  apply inverse_spec in EU. rewrite LU in EU. destruct EU as (EU1 & _ & HIu).
  apply inverse_spec in EV. rewrite LV in EV. destruct EV as (EV1 & _ & HIv).
  rewrite Hu, Hv.
  destruct Hx as [Lx Fx].
  set (x1 := @apply_dir R NumR dim [nu; nv] 1 Iv x).
  assert (Lx1 : length x1 = (nu * nv)%nat).
  { unfold x1. rewrite length_apply_dir; [|cbn; lia|cbn [prodl fold_right]; lia|cbn [prodl fold_right]; nia].
    destruct HIv as [LI _]. rewrite LI. cbn [upd prodl fold_right]. lia. }
  assert (Fx1 : Forall (fun v => length v = dim) x1) by (apply Forall_apply_dir; exact Fx).
  set (x2 := @apply_dir R NumR dim [nu; nv] 0 Iu x1).
  assert (Lx2 : length x2 = (nu * nv)%nat).
  { unfold x2. rewrite length_apply_dir; [|cbn; lia|cbn [prodl fold_right]; lia|cbn [prodl fold_right]; nia].
    destruct HIu as [LI _]. rewrite LI. cbn [upd prodl fold_right]. lia. }
  assert (Fx2 : Forall (fun v => length v = dim) x2) by (apply Forall_apply_dir; exact Fx1).
  assert (RU : length (nth i Nu []) = nu) by (apply (mat_row nu nu); assumption).
  assert (RV : length (nth j Nv []) = nv) by (apply (mat_row nv nv); assumption).
  rewrite teval_tsum; [|exact Hc|split; [exact Fx2|rewrite Lx2; cbn [map prodl fold_right length]; rewrite RU, RV; lia]].
  (* direction 0 *)
  pose proof (tsum_apply_dir dim c Iu [unit_row nu i; nth j Nv []] 0 (nth i Nu []) x1) as T0.
  cbn [map nth upd length] in T0. rewrite unit_row_length, RV in T0.
  fold x2 in T0. rewrite T0; clear T0;
    [|lia|exact Hc|split; [exact Fx1|rewrite Lx1; cbn [map prodl fold_right]; rewrite ?unit_row_length, ?RV; lia]
     |cbn [map prodl fold_right]; rewrite ?unit_row_length, ?RV; nia|apply inverse_row_rel; assumption].
  (* direction 1 *)
  pose proof (tsum_apply_dir dim c Iv [unit_row nu i; unit_row nv j] 1 (nth j Nv []) x) as T1.
  cbn [map nth upd length] in T1. rewrite !unit_row_length in T1.
  fold x1 in T1. rewrite T1; clear T1;
    [|lia|exact Hc|split; [exact Fx|rewrite Lx; cbn [map prodl fold_right]; rewrite ?unit_row_length; lia]
     |cbn [map prodl fold_right]; rewrite ?unit_row_length; nia|apply inverse_row_rel; assumption].
  cbn [tsum map prodl fold_right]. rewrite unit_row_length.
  rewrite lcf_unit by exact Hi. rewrite lcf_unit by exact Hj.
  unfold cnet. rewrite (nth_indep x _ []) by nia. f_equal. f_equal. lia.
Qed.
End SurfaceInterp.
