(* C07 "appending re-joins", end to end on the model's own function [obj_append] (Model/Append.v, transcription of
   Curve.append): two well-formed, non-periodic, clamped CURVES o1 o2 (any dimensions, rational or not, orders p1 p2).
     Part A  helpers: [obj_eval] of a curve is the Cox-de Boor sum at the snapped parameter.
     Part B  (Section Core) the merge step on two curves of the SAME order p >= 2, dimension and rationality:
             [joined d1 d2] is well formed, has the domain [start d1, end d1 + (end d2 - start d2)], evaluates to d1 left of
             the junction and to the shifted d2 right of it (bridge from lists / snap / normalise to Proofs/AppendProofs.v).
     Part C  order elevation of one curve (Proofs/IdenticalEndToEnd.v: raise_step) keeps it clamped.
     Part D  (Section Main) obj_append = obj_compatible, two obj_raise_order, merge: success, well-formedness, domain,
             evaluation = padded evaluation of the operands (pad of Proofs/IdenticalEndToEnd.v).
     Part E  RE-JOIN: obj_split at one interior value x of multiplicity < p, then obj_append of the two pieces succeeds and
             evaluates to the original curve (split_append_rejoin, split_append_roundtrip); the junction hypothesis is
             PROVED there: both end control points are the value at x of the homogeneous curve, which is continuous at x.
     Part F  Examples (two lines of different dimension; a quadratic split at a new knot value and re-joined).
   Main statements: append_ok, append_wf, append_eval_left(_raw), append_eval_right, append_end_to_end (append_spec),
   append_same_order_ok, append_end_to_end_same_order, split_append_rejoin (rejoin_spec), split_append_roundtrip. *)
From Coq Require Import List Arith Reals Lra Lia Bool ZArith Permutation Sorted.
From SplipyModel Require Import Spec.BSpline Spec.Join Model.Num Model.BasisDef Model.BasisEval Model.Tensor Model.Obj Model.KnotInsert
  Model.Tol Model.Knots Model.Reparam Model.Affine Model.Solve Model.Interp Model.Order Model.Split Model.Periodic Model.Identical Model.Append
  Proofs.KnotList Proofs.SpanCorrect Proofs.EvaluateSpec Proofs.EvalConsequences Proofs.SnapSpec Proofs.SnapChar
  Proofs.TensorLemmas Proofs.ObjEval Proofs.InsertMatrix Proofs.TensorApply Proofs.InsertObj Proofs.InsertEndToEnd
  Proofs.InsertListEndToEnd Proofs.ChangeDirEval Proofs.OrderProofs Proofs.OrderRaise Proofs.RaiseAmount Proofs.RaiseEndToEnd
  Proofs.RestrictDirEval Proofs.ReparamEndToEnd Proofs.IdenticalProofs Proofs.SplitProofs Proofs.SplitEndToEnd Proofs.SplitTiling Proofs.SplitCompose
  Proofs.IdenticalEndToEnd Proofs.AppendProofs Proofs.InterpProofs Proofs.SectionProofs Proofs.SectionEndToEnd Proofs.SeamContinuity.
Import ListNotations.
Open Scope R_scope.

(* ================================================================================================ *)
(* Part A: evaluation of a curve *)

(* the last step of obj_eval: projection of a rational point *)
Definition post (o : obj R) (r : list R) : list R := if o_rat o then @project_rat R NumR (o_dim o) r else r.

Lemma ae_Brow_length side k p t : length (Brow side k p t) = (length k - p)%nat.
Proof. unfold Brow. rewrite map_length, seq_length. reflexivity. Qed.
Lemma ae_Brow_nth side (k : list R) p t i : (i < length k - p)%nat -> nth i (Brow side k p t) 0 = B side (@kn R NumR k) (p - 1) i t.
Proof. intros Hi. unfold Brow. rewrite (nth_map_gen _ _ i 0 0%nat) by (rewrite seq_length; lia). rewrite seq_nth by lia. reflexivity. Qed.

(* a curve with basis (p, k), non-periodic: obj_eval at t is the defining sum at the snapped parameter u, taken from the
   left within tol of the end of the domain and from the right otherwise *)
Lemma curve_eval tol (o : obj R) p k t :
  0 < tol -> wf_obj_R tol o -> o_bases o = [mkBasis p k 0] ->
  @kn R NumR k (p - 1) <= @snap1 R NumR k tol t <= @kn R NumR k (length k - p) ->
  @obj_eval R NumR tol o [t] =
  Ok (post o (@teval R NumR (@o_ncomp R o)
     [Brow (if Rltb (Rabs (@snap1 R NumR k tol t - @kn R NumR k (length k - p))) tol then false else true) k p (@snap1 R NumR k tol t)]
     (o_cps o))).
Proof.
  intros Htol Hwf HB Hin.
  destruct (bd_wf tol o Hwf 0%nat ltac:(rewrite HB; cbn; lia)) as (HK & Hp & Hlen & Hn & Hw).
  rewrite HB in HK, Hp, Hlen, Hn, Hw. cbn [nth b_knots b_order] in *. unfold b_start, b_end in Hw. cbn [b_knots b_order] in Hw.
  unfold obj_eval. rewrite HB. cbn [validate hd tl].
  rewrite validate1_ok by (intros _; unfold b_start, b_end; cbn [b_knots b_order]; exact Hin).
  cbn [b_knots]. unfold post, eval_h, rows_at. rewrite HB. cbn [length seq map nth].
  rewrite (basis_row_nonper tol k p _ HK Hp Hlen Htol). rewrite (snap1_idem k HK tol Htol).
  rewrite (normalise_nonper_true k p tol _ Htol Hw Hin). reflexivity.
Qed.

Lemma nth_map_coord c (l : list (list R)) i : nth i (map (coord c) l) 0 = coord c (nth i l []).
Proof.
  assert (E : coord c [] = 0) by (unfold coord; destruct c; reflexivity).
  rewrite <- E at 1. apply map_nth.
Qed.

Lemma teval_Brow nc side (k : list R) p t cps c :
  Forall (fun v => length v = nc) cps -> length cps = (length k - p)%nat -> (c < nc)%nat ->
  coord c (@teval R NumR nc [Brow side k p t] cps)
  = sumf (fun i => nth i (map (coord c) cps) 0 * B side (@kn R NumR k) (p - 1) i t) 0 (length k - p).
Proof.
  intros Hv Hl Hc. rewrite teval_curve; [|exact Hv|rewrite ae_Brow_length; exact Hl|exact Hc].
  rewrite lc_rowsum by (rewrite ae_Brow_length; symmetry; exact Hl). rewrite ae_Brow_length.
  apply sumf_ext. intros i Hi. rewrite ae_Brow_nth by lia. rewrite nth_map_coord. ring.
Qed.

Lemma teval_eq_coord nc (NA NB : list R) cpsA cpsB :
  Forall (fun v => length v = nc) cpsA -> length cpsA = length NA ->
  Forall (fun v => length v = nc) cpsB -> length cpsB = length NB ->
  (forall c, (c < nc)%nat -> coord c (@teval R NumR nc [NA] cpsA) = coord c (@teval R NumR nc [NB] cpsB)) ->
  @teval R NumR nc [NA] cpsA = @teval R NumR nc [NB] cpsB.
Proof.
  intros VA LA VB LB H.
  assert (NA' : net_ok nc [NA] cpsA) by (split; [exact VA|cbn; lia]).
  assert (NB' : net_ok nc [NB] cpsB) by (split; [exact VB|cbn; lia]).
  apply (nth_ext _ _ 0 0); [rewrite (teval_length _ _ _ NA'), (teval_length _ _ _ NB'); reflexivity|].
  intros c Hc. rewrite (teval_length _ _ _ NA') in Hc. apply H. exact Hc.
Qed.

(* what a well-formed non-periodic curve provides *)
Lemma curve_facts tol (o : obj R) p k : wf_obj_R tol o -> o_bases o = [mkBasis p k 0] ->
  sorted (@kn R NumR k) /\ (1 <= p)%nat /\ (2 * p <= length k)%nat /\
  2 * tol <= @kn R NumR k (length k - p) - @kn R NumR k (p - 1) /\
  Forall (fun v => length v = @o_ncomp R o) (o_cps o) /\ length (o_cps o) = (length k - p)%nat.
Proof.
  intros Hwf HB.
  destruct (bd_wf tol o Hwf 0%nat ltac:(rewrite HB; cbn; lia)) as (HK & Hp & Hlen & Hn & Hw).
  rewrite HB in HK, Hp, Hlen, Hn, Hw. cbn [nth b_knots b_order] in *. unfold b_start, b_end in Hw. cbn [b_knots b_order] in Hw.
  destruct Hwf as (_ & HV & HL). unfold o_shape in HL. rewrite HB in HL. unfold b_nfun in HL. cbn [map prodl fold_right b_knots b_order b_per1] in HL.
  repeat split; try assumption. lia.
Qed.

Lemma ae_nth_last_cons {A} (d : A) : forall l a, nth (length l) (a :: l) d = last (a :: l) d.
Proof.
  induction l as [|b l IH]; intros a; [reflexivity|]. cbn [length nth].
  change (last (a :: b :: l) d) with (last (b :: l) d). apply IH.
Qed.
Lemma ae_nth_last {A} (l : list A) d : l <> [] -> nth (length l - 1) l d = last l d.
Proof.
  intros Hne. destruct l as [|a l]; [contradiction|]. replace (length (a :: l) - 1)%nat with (length l) by (cbn [length]; lia). apply ae_nth_last_cons.
Qed.

(* clamped knot lists, in the form Proofs/AppendProofs.v uses *)
Definition clamped_list (k : list R) (p : nat) : Prop :=
  (forall i, (i < p)%nat -> nth i k 0 = hd 0 k) /\ (forall i, (i < p)%nat -> nth (length k - 1 - i) k 0 = last k 0).

Lemma open_knots_clamped (k : list R) p : k <> [] -> open_knots k p -> clamped_list k p.
Proof.
  intros Hne [A B]. split.
  - intros i Hi. rewrite (A i Hi). destruct k; reflexivity.
  - intros i Hi. rewrite (B i Hi). apply nth_last_len. exact Hne.
Qed.

Lemma clamped_ends (k : list R) p : (1 <= p)%nat -> (2 * p <= length k)%nat -> clamped_list k p ->
  hd 0 k = @kn R NumR k (p - 1) /\ last k 0 = @kn R NumR k (length k - p).
Proof.
  intros Hp Hlen [A B]. split.
  - rewrite (kn_in k (p - 1) ltac:(lia) 0). symmetry. apply A. lia.
  - rewrite (kn_in k (length k - p) ltac:(lia) 0). rewrite <- (B (p - 1)%nat ltac:(lia)). f_equal. lia.
Qed.

(* ================================================================================================ *)
(* Part B: the merge step of Curve.append on two curves of the same order *)
Section Core.
Variable tol : R.
Hypothesis Htol : 0 < tol.
Variables d1 d2 : obj R.
Variable p : nat.
Variables k1 k2 : list R.
Hypothesis W1 : wf_obj_R tol d1.
Hypothesis W2 : wf_obj_R tol d2.
Hypothesis HB1 : o_bases d1 = [mkBasis p k1 0].
Hypothesis HB2 : o_bases d2 = [mkBasis p k2 0].
Hypothesis Hp : (2 <= p)%nat.
Hypothesis C1 : clamped_list k1 p.
Hypothesis C2 : clamped_list k2 p.
Hypothesis Hdim : o_dim d2 = o_dim d1.
Hypothesis Hrat : o_rat d2 = o_rat d1.

Local Notation K := (@append_knots R NumR p k1 k2).
Local Notation s1 := (@kn R NumR k1 (p - 1)).
Local Notation e1 := (@kn R NumR k1 (length k1 - p)).
Local Notation s2 := (@kn R NumR k2 (p - 1)).
Local Notation e2 := (@kn R NumR k2 (length k2 - p)).

Definition joined : obj R := mkObj [mkBasis p K 0] (o_cps d1 ++ tl (o_cps d2)) (o_dim d1) (o_rat d1).

Lemma co_f1 : sorted (@kn R NumR k1) /\ (1 <= p)%nat /\ (2 * p <= length k1)%nat /\ 2 * tol <= e1 - s1 /\
  Forall (fun v => length v = @o_ncomp R d1) (o_cps d1) /\ length (o_cps d1) = (length k1 - p)%nat.
Proof. exact (curve_facts tol d1 p k1 W1 HB1). Qed.
Lemma co_f2 : sorted (@kn R NumR k2) /\ (1 <= p)%nat /\ (2 * p <= length k2)%nat /\ 2 * tol <= e2 - s2 /\
  Forall (fun v => length v = @o_ncomp R d2) (o_cps d2) /\ length (o_cps d2) = (length k2 - p)%nat.
Proof. exact (curve_facts tol d2 p k2 W2 HB2). Qed.
Lemma co_nc : @o_ncomp R d2 = @o_ncomp R d1.
Proof. unfold o_ncomp. rewrite Hdim, Hrat. reflexivity. Qed.
Lemma co_ends1 : hd 0 k1 = s1 /\ last k1 0 = e1.
Proof. destruct co_f1 as (_ & A & B & _). apply clamped_ends; assumption. Qed.
Lemma co_ends2 : hd 0 k2 = s2 /\ last k2 0 = e2.
Proof. destruct co_f2 as (_ & A & B & _). apply clamped_ends; assumption. Qed.

Lemma co_Klen : length K = (length k1 - 1 + (length k2 - p))%nat.
Proof. destruct co_f1 as (_ & _ & A & _). destruct co_f2 as (_ & _ & B & _). apply K_length; assumption. Qed.
Lemma co_Ksorted : sorted (@kn R NumR K).
Proof.
  destruct co_f1 as (S1 & _ & A & _). destruct co_f2 as (S2 & _ & B & _). destruct C2 as [C2a _].
  apply K_sorted; assumption.
Qed.
Lemma co_Klow j : (j < length k1 - 1)%nat -> @kn R NumR K j = @kn R NumR k1 j.
Proof.
  intros Hj. destruct co_f1 as (_ & _ & A & _). destruct co_f2 as (_ & _ & B & _).
  rewrite (K_low k1 k2 p Hp A B j Hj). symmetry. apply kn_in. lia.
Qed.
Lemma co_Khigh m : (p <= m < length k2)%nat -> @kn R NumR K (length k1 - 1 + (m - p)) = @kn R NumR k2 m - s2 + e1.
Proof.
  intros Hm. destruct co_f1 as (_ & _ & A & _). destruct co_f2 as (_ & _ & B & _).
  rewrite (K_high k1 k2 p Hp A B m Hm). destruct co_ends1 as [_ ->]. destruct co_ends2 as [-> _].
  rewrite (kn_in k2 m ltac:(lia) 0). reflexivity.
Qed.

(* the domain of the joined curve *)
Theorem joined_start : @b_start R NumR (mkBasis p K 0) = s1.
Proof. destruct co_f1 as (_ & _ & A & _). unfold b_start. cbn [b_knots b_order]. apply co_Klow. lia. Qed.
Theorem joined_end : @b_end R NumR (mkBasis p K 0) = e1 + (e2 - s2).
Proof.
  destruct co_f1 as (_ & _ & A & _). destruct co_f2 as (_ & _ & B & _).
  unfold b_end. cbn [b_knots b_order]. rewrite co_Klen.
  replace (length k1 - 1 + (length k2 - p) - p)%nat with (length k1 - 1 + ((length k2 - p) - p))%nat by lia.
  rewrite co_Khigh by lia. ring.
Qed.

Lemma co_startK : @kn R NumR K (p - 1) = s1.
Proof. exact joined_start. Qed.
Lemma co_endK : @kn R NumR K (length K - p) = e1 + (e2 - s2).
Proof. exact joined_end. Qed.

(* the joined curve is well formed *)
Theorem joined_wf : wf_obj_R tol joined.
Proof.
  destruct co_f1 as (S1 & P1 & A & Wd1 & V1 & L1). destruct co_f2 as (S2 & _ & B & Wd2 & V2 & L2).
  unfold joined. split; [|split]; cbn [o_bases o_cps].
  - constructor; [|constructor]. split; [exact co_Ksorted|]. cbn [b_knots b_order]. split; [exact P1|].
    split; [rewrite co_Klen; lia|]. split; [unfold b_nfun; cbn [b_knots b_order b_per1]; rewrite co_Klen; lia|].
    rewrite joined_start, joined_end. lra.
  - change (@o_ncomp R (mkObj [mkBasis p K 0] (o_cps d1 ++ tl (o_cps d2)) (o_dim d1) (o_rat d1))) with (@o_ncomp R d1).
    apply Forall_app. split; [exact V1|]. rewrite co_nc in V2.
    destruct (o_cps d2) as [|v r]; [constructor|]. cbn [tl]. inversion V2; assumption.
  - unfold o_shape. cbn [o_bases map prodl fold_right]. unfold b_nfun. cbn [b_knots b_order b_per1].
    rewrite app_length, co_Klen, L1. destruct (o_cps d2) as [|v r]; cbn [tl length] in *; lia.
Qed.

(* knot VALUES of the joined knot vector *)
Lemma co_K0 : @kn R NumR K 0 = s1.
Proof.
  destruct co_f1 as (_ & P1 & A & _). rewrite co_Klow by lia. destruct co_ends1 as [E _]. rewrite <- E.
  rewrite (kn_in k1 0 ltac:(lia) 0). destruct k1; reflexivity.
Qed.
Lemma co_k1_range v : In v k1 -> s1 <= v <= e1.
Proof.
  destruct co_f1 as (S1 & P1 & A & _). destruct co_ends1 as [E1 E2]. intros Hv.
  destruct (In_nth k1 v 0 Hv) as (i & Hi & Ei). rewrite <- (kn_in k1 i Hi 0) in Ei. subst v. split.
  - rewrite <- E1. replace (hd 0 k1) with (@kn R NumR k1 0) by (rewrite (kn_in k1 0 ltac:(lia) 0); destruct k1; reflexivity). apply S1. lia.
  - rewrite <- E2. rewrite <- (kn_out k1 (length k1) ltac:(lia)). apply S1. lia.
Qed.
Lemma co_k2_range v : In v k2 -> s2 <= v <= e2.
Proof.
  destruct co_f2 as (S2 & P2 & A & _). destruct co_ends2 as [E1 E2]. intros Hv.
  destruct (In_nth k2 v 0 Hv) as (i & Hi & Ei). rewrite <- (kn_in k2 i Hi 0) in Ei. subst v. split.
  - rewrite <- E1. replace (hd 0 k2) with (@kn R NumR k2 0) by (rewrite (kn_in k2 0 ltac:(lia) 0); destruct k2; reflexivity). apply S2. lia.
  - rewrite <- E2. rewrite <- (kn_out k2 (length k2) ltac:(lia)). apply S2. lia.
Qed.

Lemma co_Kvals v : In v K <-> (In v k1 \/ exists y, In y k2 /\ v = y - s2 + e1).
Proof.
  destruct co_f1 as (S1 & P1 & A & _). destruct co_f2 as (S2 & _ & B & _). split.
  - intros Hv. destruct (In_nth K v 0 Hv) as (j & Hj & Ej). rewrite <- (kn_in K j Hj 0) in Ej. subst v. rewrite co_Klen in Hj.
    destruct (Nat.lt_ge_cases j (length k1 - 1)) as [L|L].
    + left. rewrite co_Klow by exact L. apply kn_In'. lia.
    + right. exists (@kn R NumR k2 (j - (length k1 - 1) + p)). split; [apply kn_In'; lia|].
      replace j with (length k1 - 1 + ((j - (length k1 - 1) + p) - p))%nat at 1 by lia. apply co_Khigh. lia.
  - intros [Hv | (y & Hy & ->)].
    + destruct (In_nth k1 v 0 Hv) as (i & Hi & Ei). rewrite <- (kn_in k1 i Hi 0) in Ei. subst v.
      destruct (Nat.lt_ge_cases i (length k1 - 1)) as [L|L].
      * rewrite <- co_Klow by exact L. apply kn_In'. rewrite co_Klen. lia.
      * assert (Ei : @kn R NumR k1 i = @kn R NumR k1 (length k1 - 2)).
        { destruct C1 as [_ C1b]. rewrite (kn_in k1 i Hi 0), (kn_in k1 (length k1 - 2) ltac:(lia) 0).
          replace i with (length k1 - 1 - 0)%nat by lia. rewrite (C1b 0%nat ltac:(lia)).
          replace (length k1 - 2)%nat with (length k1 - 1 - 1)%nat by lia. rewrite (C1b 1%nat ltac:(lia)). reflexivity. }
        rewrite Ei. rewrite <- co_Klow by lia. apply kn_In'. rewrite co_Klen. lia.
    + destruct (In_nth k2 y 0 Hy) as (i & Hi & Ei). rewrite <- (kn_in k2 i Hi 0) in Ei. subst y.
      destruct (Nat.lt_ge_cases i p) as [L|L].
      * (* one of the first p knots of k2: its image is e1, a knot of k1 *)
        assert (Ei : @kn R NumR k2 i = s2).
        { destruct C2 as [C2a _]. rewrite (kn_in k2 i Hi 0), (kn_in k2 (p - 1) ltac:(lia) 0). rewrite (C2a i L), (C2a (p - 1)%nat ltac:(lia)). reflexivity. }
        rewrite Ei. replace (s2 - s2 + e1) with e1 by ring. rewrite <- co_Klow by lia. apply kn_In'. rewrite co_Klen. lia.
      * rewrite <- (co_Khigh i ltac:(lia)). apply kn_In'. rewrite co_Klen. lia.
Qed.

Lemma co_e1_in_K : In e1 K.
Proof.
  destruct co_f1 as (_ & P1 & A & _). apply co_Kvals. left. apply kn_In'. lia.
Qed.
Lemma co_s1_in_K : In s1 K.
Proof. destruct co_f1 as (_ & P1 & A & _). apply co_Kvals. left. apply kn_In'. lia. Qed.
Lemma co_eJ_in_K : In (e1 + (e2 - s2)) K.
Proof.
  destruct co_f2 as (_ & P2 & B & _). apply co_Kvals. right. exists e2. split; [apply kn_In'; lia|ring].
Qed.

Lemma co_vals_left v : In v k1 <-> (In v K /\ s1 <= v <= e1).
Proof.
  split.
  - intros Hv. split; [apply co_Kvals; left; exact Hv|apply co_k1_range; exact Hv].
  - intros (Hv & Hr). apply co_Kvals in Hv. destruct Hv as [Hv | (y & Hy & ->)]; [exact Hv|].
    pose proof (co_k2_range y Hy) as Hy2. assert (E : y - s2 + e1 = e1) by lra. rewrite E.
    destruct co_f1 as (_ & P1 & A & _). apply kn_In'. lia.
Qed.

Local Notation sh := (aff 1 (e1 - s2)).
Lemma co_vals_right v : In v (map sh k2) <-> (In v K /\ e1 <= v <= e1 + (e2 - s2)).
Proof.
  split.
  - intros Hv. apply in_map_iff in Hv. destruct Hv as (y & <- & Hy). pose proof (co_k2_range y Hy) as Hy2. unfold aff.
    split; [apply co_Kvals; right; exists y; split; [exact Hy|ring]|lra].
  - intros (Hv & Hr). apply co_Kvals in Hv. apply in_map_iff. destruct Hv as [Hv | (y & Hy & ->)].
    + pose proof (co_k1_range v Hv) as Hv2. exists s2. destruct co_f2 as (_ & P2 & B & _). split; [unfold aff; lra|apply kn_In'; lia].
    + exists y. split; [unfold aff; ring|exact Hy].
Qed.

Lemma co_k2_ne : k2 <> [].
Proof. destruct co_f2 as (_ & P2 & B & _). intros E. rewrite E in B. cbn in B. lia. Qed.

(* the control nets, coordinate by coordinate *)
Lemma co_map_app c : map (coord c) (o_cps d1 ++ tl (o_cps d2)) = map (coord c) (o_cps d1) ++ tl (map (coord c) (o_cps d2)).
Proof. rewrite map_app. f_equal. destruct (o_cps d2); reflexivity. Qed.

(* LEFT of the junction: the joined curve is the first curve.  The parameter must, once snapped, stay at distance >= tol
   below the junction e1: within tol of its own end d1 is evaluated from the left, the joined curve (for which e1 is an
   interior point) from the right -- same exclusion as Proofs/SplitEndToEnd.v. *)
Theorem joined_eval_left t : s1 <= t <= e1 -> @snap1 R NumR k1 tol t <= e1 - tol ->
  @obj_eval R NumR tol joined [t] = @obj_eval R NumR tol d1 [t].
Proof.
  intros Ht Hside.
  destruct co_f1 as (S1 & P1 & A & Wd1 & V1 & L1). destruct co_f2 as (S2 & _ & B & Wd2 & V2 & L2).
  destruct co_ends1 as [Eh1 El1]. destruct co_ends2 as [Eh2 El2]. pose proof co_nc as Hnc.
  assert (Hsn : @snap1 R NumR k1 tol t = @snap1 R NumR K tol t).
  { apply (snap1_restrict K k1 s1 e1 tol t co_vals_left co_s1_in_K co_e1_in_K Htol Ht co_Ksorted S1). }
  pose proof (snap1_between K s1 e1 tol t co_s1_in_K co_e1_in_K Htol Ht co_Ksorted) as Hu.
  rewrite <- Hsn in Hu. set (u := @snap1 R NumR k1 tol t) in *.
  rewrite (curve_eval tol joined p K t Htol joined_wf eq_refl)
    by (rewrite co_startK, co_endK, <- Hsn; fold u; lra).
  rewrite (curve_eval tol d1 p k1 t Htol W1 HB1) by (fold u; lra).
  rewrite <- Hsn. fold u. rewrite co_endK.
  destruct (Rltb_spec (Rabs (u - (e1 + (e2 - s2)))) tol) as [Q|_]; [exfalso; rewrite Rabs_left1 in Q by lra; lra|].
  destruct (Rltb_spec (Rabs (u - e1)) tol) as [Q|_]; [exfalso; rewrite Rabs_left1 in Q by lra; lra|].
  unfold post. change (o_rat joined) with (o_rat d1). change (o_dim joined) with (o_dim d1). change (@o_ncomp R joined) with (@o_ncomp R d1).
  assert (V12 : Forall (fun v => length v = @o_ncomp R d1) (o_cps joined)) by (destruct joined_wf as (_ & V & _); exact V).
  assert (L12 : length (o_cps joined) = (length K - p)%nat).
  { unfold joined. cbn [o_cps]. rewrite app_length, co_Klen, L1. destruct (o_cps d2); cbn [tl length] in *; lia. }
  assert (E : @teval R NumR (@o_ncomp R d1) [Brow true K p u] (o_cps joined) = @teval R NumR (@o_ncomp R d1) [Brow true k1 p u] (o_cps d1));
    [|rewrite E; reflexivity].
  apply teval_eq_coord; try assumption; try (rewrite ae_Brow_length; assumption).
  intros c Hc. rewrite (teval_Brow _ true K p u _ c V12 L12 Hc), (teval_Brow _ true k1 p u _ c V1 L1 Hc).
  unfold joined. cbn [o_cps]. rewrite co_map_app, co_Klen.
  replace (length k1 - 1 + (length k2 - p) - p)%nat with (length k1 - p + (length k2 - p) - 1)%nat by lia.
  destruct C1 as [_ C1b]. destruct C2 as [C2a _].
  apply (append_left k1 k2 p Hp S1 S2 A B C1b C2a (map (coord c) (o_cps d1)) (map (coord c) (o_cps d2))).
  - rewrite map_length. exact L1.
  - rewrite map_length. exact L2.
  - cbn [left_of]. rewrite El1. lra.
Qed.

(* RIGHT of the junction: the joined curve is the second curve at the shifted parameter -- on the whole closed interval
   [e1, end], no exclusion.  This needs the junction hypothesis: the last (homogeneous) control point of the first curve
   is the first control point of the second, which the code drops. *)
Hypothesis Hjunction : last (o_cps d1) [] = hd [] (o_cps d2).

Theorem joined_eval_right t : e1 <= t <= e1 + (e2 - s2) ->
  @obj_eval R NumR tol joined [t] = @obj_eval R NumR tol d2 [t - e1 + s2].
Proof.
  intros Ht.
  destruct co_f1 as (S1 & P1 & A & Wd1 & V1 & L1). destruct co_f2 as (S2 & _ & B & Wd2 & V2 & L2).
  destruct co_ends1 as [Eh1 El1]. destruct co_ends2 as [Eh2 El2]. pose proof co_nc as Hnc. pose proof co_k2_ne as Hne2.
  set (t2 := t - e1 + s2).
  assert (HS2' : sorted (@kn R NumR (map sh k2))) by (apply sorted_aff; [lra|exact Hne2|exact S2]).
  assert (Hsn : @snap1 R NumR K tol t = @snap1 R NumR k2 tol t2 - s2 + e1).
  { rewrite <- (snap1_restrict K (map sh k2) e1 (e1 + (e2 - s2)) tol t co_vals_right co_e1_in_K co_eJ_in_K Htol Ht co_Ksorted HS2').
    replace t with (sh t2) at 1 by (unfold aff, t2; ring). rewrite <- (Rmult_1_l tol) at 1.
    rewrite (snap1_affine 1 (e1 - s2) ltac:(lra) k2 tol t2 Hne2). unfold aff. ring. }
  assert (Hu2 : s2 <= @snap1 R NumR k2 tol t2 <= e2).
  { apply (snap1_between k2 s2 e2 tol t2); try assumption; try (apply kn_In'; lia). unfold t2. lra. }
  set (u2 := @snap1 R NumR k2 tol t2) in *.
  rewrite (curve_eval tol joined p K t Htol joined_wf eq_refl) by (rewrite co_startK, co_endK, Hsn; lra).
  rewrite (curve_eval tol d2 p k2 t2 Htol W2 HB2) by (fold u2; lra).
  fold u2. rewrite Hsn, co_endK. replace (u2 - s2 + e1 - (e1 + (e2 - s2))) with (u2 - e2) by ring.
  unfold post. change (o_rat joined) with (o_rat d1). change (o_dim joined) with (o_dim d1). change (@o_ncomp R joined) with (@o_ncomp R d1).
  rewrite Hrat, Hdim, Hnc. rewrite Hnc in V2.
  set (side := if Rltb (Rabs (u2 - e2)) tol then false else true).
  assert (Hright : right_of side e1 (u2 - s2 + e1)).
  { unfold side. destruct (Rltb_spec (Rabs (u2 - e2)) tol) as [Q|Q]; cbn [right_of]; [|lra].
    apply Rabs_def2 in Q. lra. }
  assert (V12 : Forall (fun v => length v = @o_ncomp R d1) (o_cps joined)) by (destruct joined_wf as (_ & V & _); exact V).
  assert (L12 : length (o_cps joined) = (length K - p)%nat).
  { unfold joined. cbn [o_cps]. rewrite app_length, co_Klen, L1. destruct (o_cps d2); cbn [tl length] in *; lia. }
  assert (E : @teval R NumR (@o_ncomp R d1) [Brow side K p (u2 - s2 + e1)] (o_cps joined) = @teval R NumR (@o_ncomp R d1) [Brow side k2 p u2] (o_cps d2));
    [|rewrite E; reflexivity].
  apply teval_eq_coord; try assumption; try (rewrite ae_Brow_length; assumption).
  intros c Hc. rewrite (teval_Brow _ side K p _ _ c V12 L12 Hc), (teval_Brow _ side k2 p u2 _ c V2 L2 Hc).
  unfold joined. cbn [o_cps]. rewrite co_map_app, co_Klen.
  replace (length k1 - 1 + (length k2 - p) - p)%nat with (length k1 - p + (length k2 - p) - 1)%nat by lia.
  destruct C1 as [_ C1b]. destruct C2 as [C2a _].
  rewrite (append_right k1 k2 p Hp S1 S2 A B C1b C2a (map (coord c) (o_cps d1)) (map (coord c) (o_cps d2))
            ltac:(rewrite map_length; exact L1) ltac:(rewrite map_length; exact L2)).
  - rewrite El1, Eh2. apply sumf_ext. intros i Hi. f_equal. f_equal. ring.
  - rewrite !nth_map_coord. f_equal. rewrite <- L1.
    rewrite ae_nth_last by (intros E; rewrite E in L1; cbn in L1; lia). rewrite Hjunction. destruct (o_cps d2); reflexivity.
  - rewrite El1. exact Hright.
Qed.
End Core.

(* ================================================================================================ *)
(* Part C: order elevation of one clamped curve *)

(* a well-formed, non-periodic, clamped curve *)
Definition clamped_curve (tol : R) (o : obj R) : Prop :=
  wf_obj_R tol o /\ length (o_bases o) = 1%nat /\
  b_per1 (nth 0 (o_bases o) dflt_basis) = 0%nat /\
  open_knots (b_knots (nth 0 (o_bases o) dflt_basis)) (b_order (nth 0 (o_bases o) dflt_basis)).

Lemma clamped_curve_bases tol (o : obj R) : clamped_curve tol o ->
  o_bases o = [mkBasis (b_order (nth 0 (o_bases o) dflt_basis)) (b_knots (nth 0 (o_bases o) dflt_basis)) 0].
Proof.
  intros (_ & Hl & Hper & _). destruct (o_bases o) as [|b [|b' r]]; try (cbn in Hl; lia). cbn [nth] in *.
  destruct b as [pp kk per]. cbn [b_per1 b_order b_knots] in *. rewrite Hper. reflexivity.
Qed.

Lemma clamped_of_bounds (L : list R) P : sorted (@kn R NumR L) -> (1 <= P)%nat -> (2 * P <= length L)%nat ->
  clamped L P -> clamped_list L P.
Proof.
  intros HS HP HL Hc.
  assert (Hne : L <> []) by (intros E; rewrite E in HL; cbn in HL; lia).
  assert (H0 : hd 0 L = @kn R NumR L 0) by (rewrite (kn_in L 0 ltac:(lia) 0); destruct L; reflexivity).
  assert (Hlast : last L 0 = @kn R NumR L (length L - 1)) by (rewrite (kn_in L (length L - 1) ltac:(lia) 0); symmetry; apply nth_last_len; exact Hne).
  split; intros i Hi.
  - rewrite H0, <- (kn_in L i ltac:(lia) 0).
    pose proof (HS 0%nat i ltac:(lia)). pose proof (HS i (P - 1)%nat ltac:(lia)).
    pose proof (Hc (@kn R NumR L 0) (kn_In' L 0 ltac:(lia))). lra.
  - rewrite Hlast, <- (kn_in L (length L - 1 - i) ltac:(lia) 0).
    pose proof (HS (length L - 1 - i)%nat (length L - 1)%nat ltac:(lia)). pose proof (HS (length L - P)%nat (length L - 1 - i)%nat ltac:(lia)).
    pose proof (Hc (@kn R NumR L (length L - 1)) (kn_In' L (length L - 1) ltac:(lia))). lra.
Qed.

Lemma raise_zero tol (c : obj R) : @obj_raise_order R NumR tol c [0%nat] = Ok c.
Proof. reflexivity. Qed.

(* Curve.raise_order(a) on a clamped curve: the result (when the interpolation succeeds) is again a clamped curve, on
   the same domain, with the same knot values, and evaluates to the same points *)
Lemma raise_curve tol (c d : obj R) (a : nat) : 0 < tol -> clamped_curve tol c ->
  (a <> 0%nat -> separated tol (b_knots (nth 0 (o_bases c) dflt_basis))) ->
  @obj_raise_order R NumR tol c [a] = Ok d ->
  let b := nth 0 (o_bases c) dflt_basis in
  exists L, wf_obj_R tol d /\ o_bases d = [mkBasis (b_order b + a) L 0] /\ clamped_list L (b_order b + a) /\
    sorted (@kn R NumR L) /\ (forall x, In x (b_knots b) <-> In x L) /\
    @kn R NumR L (b_order b + a - 1) = @b_start R NumR b /\ @kn R NumR L (length L - (b_order b + a)) = @b_end R NumR b /\
    o_dim d = o_dim c /\ o_rat d = o_rat c /\
    (forall t, in_dom tol b t -> @obj_eval R NumR tol d [t] = @obj_eval R NumR tol c [t]).
Proof.
  intros Htol Hc Hsep Hr. cbv zeta. pose proof (clamped_curve_bases tol c Hc) as HB.
  pose proof Hc as (Hwf & Hl & Hper & Hopen).
  set (b := nth 0 (o_bases c) dflt_basis) in *. set (p := b_order b) in *. set (l := b_knots b) in *.
  destruct (curve_facts tol c p l Hwf HB) as (HK & Hp & Hlen & Hw & _).
  assert (Hne : l <> []) by (intros E; rewrite E in Hlen; cbn in Hlen; lia).
  assert (Hls : lsorted l) by (apply lsorted_of_kn; exact HK).
  assert (Hcl : clamped l p) by (apply open_clamped; assumption).
  destruct (Nat.eq_dec a 0) as [->|Ha].
  - rewrite raise_zero in Hr. injection Hr as <-. exists l. rewrite !Nat.add_0_r.
    split; [exact Hwf|]. split; [exact HB|]. split; [apply clamped_of_bounds; assumption|]. split; [exact HK|].
    split; [intros; reflexivity|]. split; [reflexivity|]. split; [reflexivity|]. split; [reflexivity|]. split; [reflexivity|]. intros; reflexivity.
  - assert (Hi : (0 < length (o_bases c))%nat) by lia.
    assert (Gi : good_dir tol b).
    { split; [exact Hper|]. split; [exact Hls|]. split; [exact Hopen|]. split; [apply Hsep; exact Ha|].
      destruct Hopen as [OA OB]. fold p in OA, OB. fold l in OA, OB. change (nth 0 l 0 < nth (length l - 1) l 0).
      rewrite <- (OA (p - 1)%nat ltac:(lia)), <- (OB (p - 1)%nat ltac:(lia)).
      replace (length l - 1 - (p - 1))%nat with (length l - p)%nat by lia.
      rewrite <- (kn_in l (p - 1) ltac:(lia) 0), <- (kn_in l (length l - p) ltac:(lia) 0). lra. }
    assert (Hr' : @obj_raise_order R NumR tol c (unit_vec (length (o_bases c)) 0 a) = Ok d) by (rewrite Hl; exact Hr).
    destruct (raise_step tol Htol c Hwf 0%nat Hi a Gi ltac:(intros _ j Hj Hne'; lia) d Hr')
      as (Wd & Ld & _ & Bd & Dd & Rd & _ & Hvals & Hst & Hen & _ & Hev).
    fold b in Bd, Hvals, Hst, Hen. fold p in Bd, Hvals, Hst, Hen. fold l in Bd, Hvals, Hst, Hen.
    set (L := chain l (@knot_spans R NumR tol (mkBasis p l 0) true) a) in *.
    assert (HBd : o_bases d = [mkBasis (p + a) L 0]).
    { rewrite Hl in Ld. destruct (o_bases d) as [|b0 [|b' r]]; try (cbn in Ld; lia). cbn [nth] in Bd. rewrite Bd. reflexivity. }
    destruct (curve_facts tol d (p + a) L Wd HBd) as (HKL & HpL & HlenL & _).
    exists L. split; [exact Wd|]. split; [exact HBd|]. split.
    { apply clamped_of_bounds; try assumption. intros x Hx. rewrite Hst, Hen. apply Hcl. apply Hvals. exact Hx. }
    split; [exact HKL|]. split; [exact Hvals|]. split; [exact Hst|]. split; [exact Hen|]. split; [exact Dd|]. split; [exact Rd|].
    intros t Ht. apply Hev. intros i Hi'. rewrite Hl in Hi'. assert (i = 0%nat) by lia. subst i. exact Ht.
Qed.

(* ================================================================================================ *)
(* Part D: Curve.append *)

(* what obj_append returns, given the two raised curves *)
Definition append_result (d1 d2 : obj R) (P : nat) : obj R :=
  joined d1 d2 P (b_knots (nth 0 (o_bases d1) dflt_basis)) (b_knots (nth 0 (o_bases d2) dflt_basis)).

Section Main.
Variable tol : R.
Hypothesis Htol : 0 < tol.
Variables o1 o2 : obj R.
Hypothesis H1 : clamped_curve tol o1.
Hypothesis H2 : clamped_curve tol o2.
Local Notation b1 := (nth 0 (o_bases o1) dflt_basis).
Local Notation b2 := (nth 0 (o_bases o2) dflt_basis).
Local Notation p1 := (b_order b1).
Local Notation p2 := (b_order b2).
Local Notation P := (Nat.max p1 p2).
Local Notation c1 := (fst (@obj_compatible R NumR o1 o2)).
Local Notation c2 := (snd (@obj_compatible R NumR o1 o2)).
Local Notation dim' := (Nat.max (o_dim o1) (o_dim o2)).
(* the raised curves *)
Variables d1 d2 : obj R.
Hypothesis Hr1 : @obj_raise_order R NumR tol c1 [(p2 - p1)%nat] = Ok d1.
Hypothesis Hr2 : @obj_raise_order R NumR tol c2 [(p1 - p2)%nat] = Ok d2.

(* 1. success *)
Theorem append_ok : @obj_append R NumR tol o1 o2 = Ok (append_result d1 d2 P).
Proof.
  destruct H1 as (_ & _ & Hper1 & _). destruct H2 as (_ & _ & Hper2 & _).
  destruct (@compatible_spec R NumR o1 o2) as (_ & _ & _ & _ & C5 & C6). cbv zeta in C5, C6.
  unfold obj_append. cbv zeta. change (@mkBasis R 0 [] 0) with dflt_basis. rewrite Hper1, Hper2. cbn [Nat.eqb negb orb].
  revert Hr1 Hr2 C5 C6. destruct (@obj_compatible R NumR o1 o2) as [a b]. cbn [fst snd]. intros Hr1' Hr2' C5 C6.
  rewrite C5, C6, Hr1', Hr2'. reflexivity.
Qed.

Hypothesis HP : (2 <= P)%nat.
Hypothesis Hsep1 : (p1 < p2)%nat -> separated tol (b_knots b1).
Hypothesis Hsep2 : (p2 < p1)%nat -> separated tol (b_knots b2).

Lemma mn_compat :
  (forall ts, @obj_eval R NumR tol c1 ts = res_map (pad (dim' - o_dim o1)) (@obj_eval R NumR tol o1 ts)) /\
  (forall ts, @obj_eval R NumR tol c2 ts = res_map (pad (dim' - o_dim o2)) (@obj_eval R NumR tol o2 ts)) /\
  clamped_curve tol c1 /\ clamped_curve tol c2 /\ o_bases c1 = o_bases o1 /\ o_bases c2 = o_bases o2 /\
  o_dim c1 = dim' /\ o_dim c2 = dim' /\ o_rat c2 = o_rat c1.
Proof.
  pose proof H1 as (W1 & L1 & Q1 & O1). pose proof H2 as (W2 & L2 & Q2 & O2).
  pose proof (fun ts => compatible_eval tol o1 o2 ts Htol W1 W2) as CE. cbv zeta in CE.
  destruct (CE []) as (_ & _ & A3 & A4 & A5 & A6 & A7 & A8 & A9 & A10).
  split; [intros ts; apply (CE ts)|]. split; [intros ts; apply (CE ts)|].
  split; [split; [exact A3|]; rewrite A5; split; [exact L1|split; [exact Q1|exact O1]]|].
  split; [split; [exact A4|]; rewrite A6; split; [exact L2|split; [exact Q2|exact O2]]|].
  split; [exact A5|]. split; [exact A6|]. split; [exact A7|]. split; [exact A8|]. rewrite A9, A10. reflexivity.
Qed.

(* everything about the raised curves *)
Lemma mn_raised : exists L1 L2,
  wf_obj_R tol d1 /\ wf_obj_R tol d2 /\ o_bases d1 = [mkBasis P L1 0] /\ o_bases d2 = [mkBasis P L2 0] /\
  clamped_list L1 P /\ clamped_list L2 P /\ sorted (@kn R NumR L1) /\ sorted (@kn R NumR L2) /\
  (forall x, In x (b_knots b1) <-> In x L1) /\ (forall x, In x (b_knots b2) <-> In x L2) /\
  @kn R NumR L1 (P - 1) = @b_start R NumR b1 /\ @kn R NumR L1 (length L1 - P) = @b_end R NumR b1 /\
  @kn R NumR L2 (P - 1) = @b_start R NumR b2 /\ @kn R NumR L2 (length L2 - P) = @b_end R NumR b2 /\
  o_dim d1 = dim' /\ o_dim d2 = o_dim d1 /\ o_rat d2 = o_rat d1 /\
  (forall t, in_dom tol b1 t -> @obj_eval R NumR tol d1 [t] = res_map (pad (dim' - o_dim o1)) (@obj_eval R NumR tol o1 [t])) /\
  (forall t, in_dom tol b2 t -> @obj_eval R NumR tol d2 [t] = res_map (pad (dim' - o_dim o2)) (@obj_eval R NumR tol o2 [t])).
Proof.
  destruct mn_compat as (E1 & E2 & Cc1 & Cc2 & B1 & B2 & D1 & D2 & Rt).
  destruct (raise_curve tol c1 d1 (p2 - p1)%nat Htol Cc1 ltac:(rewrite B1; intros Hne; apply Hsep1; lia) Hr1)
    as (L1 & Wd1 & Bd1 & Cl1 & S1 & V1 & St1 & En1 & Dd1 & Rd1 & Ev1).
  destruct (raise_curve tol c2 d2 (p1 - p2)%nat Htol Cc2 ltac:(rewrite B2; intros Hne; apply Hsep2; lia) Hr2)
    as (L2 & Wd2 & Bd2 & Cl2 & S2 & V2 & St2 & En2 & Dd2 & Rd2 & Ev2).
  cbv zeta in *. rewrite B1 in *. rewrite B2 in *.
  replace (p1 + (p2 - p1))%nat with P in * by lia. replace (p2 + (p1 - p2))%nat with P in * by lia.
  exists L1, L2. repeat (split; [assumption|]).
  split; [rewrite Dd1; exact D1|]. split; [rewrite Dd1, Dd2, D1, D2; reflexivity|]. split; [rewrite Rd1, Rd2; exact Rt|].
  split; intros t Ht; [rewrite (Ev1 t Ht); apply E1|rewrite (Ev2 t Ht); apply E2].
Qed.

(* 2. the result is a well-formed non-periodic curve of order max p1 p2 on [start o1, end o1 + (end o2 - start o2)] *)
Theorem append_wf :
  let o := append_result d1 d2 P in let b := nth 0 (o_bases o) dflt_basis in
  wf_obj_R tol o /\ length (o_bases o) = 1%nat /\ b_per1 b = 0%nat /\ b_order b = P /\
  @b_start R NumR b = @b_start R NumR b1 /\
  @b_end R NumR b = @b_end R NumR b1 + (@b_end R NumR b2 - @b_start R NumR b2) /\
  o_dim o = dim' /\ o_rat o = (o_rat o1 || o_rat o2)%bool.
Proof.
  destruct mn_raised as (L1 & L2 & Wd1 & Wd2 & Bd1 & Bd2 & Cl1 & Cl2 & S1 & S2 & V1 & V2 & St1 & En1 & St2 & En2 & Dd1 & Dd2 & Rd & Ev1 & Ev2).
  cbv zeta. unfold append_result. rewrite Bd1, Bd2. cbn [nth b_knots].
  split; [apply (joined_wf tol Htol d1 d2 P L1 L2 Wd1 Wd2 Bd1 Bd2 HP Cl1 Cl2 Dd2 Rd)|].
  unfold joined at 1 2 3 4 5 6. cbn [o_bases length nth b_per1 b_order].
  split; [reflexivity|]. split; [reflexivity|]. split; [reflexivity|].
  split; [rewrite (joined_start tol d1 d2 P L1 L2 Wd1 Wd2 Bd1 Bd2 HP Dd2); exact St1|].
  split; [rewrite (joined_end tol d1 d2 P L1 L2 Wd1 Wd2 Bd1 Bd2 HP Cl1 Cl2 Dd2); rewrite En1, En2, St2; reflexivity|].
  unfold joined. cbn [o_dim o_rat]. split; [exact Dd1|].
  destruct mn_compat as (_ & _ & Cc1 & _ & _ & _ & _ & _ & _).
  destruct (raise_curve tol c1 d1 (p2 - p1)%nat Htol Cc1) as (_ & _ & _ & _ & _ & _ & _ & _ & _ & Rd1 & _).
  - destruct (@compatible_spec R NumR o1 o2) as (_ & _ & _ & _ & C5 & _). cbv zeta in C5. rewrite C5. intros Hne. apply Hsep1. lia.
  - exact Hr1.
  - rewrite Rd1. destruct (@compatible_spec R NumR o1 o2) as (_ & _ & _ & C4 & _). exact C4.
Qed.

(* 3a. END TO END, left of the junction.  The snapped parameter must stay at distance >= tol below the junction
   (see joined_eval_left); [append_eval_left_raw] gives the condition on the raw parameter. *)
Theorem append_eval_left t :
  @b_start R NumR b1 <= t <= @b_end R NumR b1 ->
  @snap1 R NumR (b_knots b1) tol t <= @b_end R NumR b1 - tol ->
  @obj_eval R NumR tol (append_result d1 d2 P) [t] = res_map (pad (dim' - o_dim o1)) (@obj_eval R NumR tol o1 [t]).
Proof.
  intros Ht Hside.
  destruct mn_raised as (L1 & L2 & Wd1 & Wd2 & Bd1 & Bd2 & Cl1 & Cl2 & S1 & S2 & V1 & V2 & St1 & En1 & St2 & En2 & Dd1 & Dd2 & Rd & Ev1 & Ev2).
  pose proof H1 as (W1 & _). pose proof (clamped_curve_bases tol o1 H1) as HB1.
  destruct (curve_facts tol o1 _ _ W1 HB1) as (HK1 & Hp1 & Hlen1 & _).
  assert (Hsn : @snap1 R NumR L1 tol t = @snap1 R NumR (b_knots b1) tol t) by (apply snap1_same_values; [exact HK1|exact S1|intros v; symmetry; apply V1]).
  unfold append_result. rewrite Bd1, Bd2. cbn [nth b_knots].
  rewrite (joined_eval_left tol Htol d1 d2 P L1 L2 Wd1 Wd2 Bd1 Bd2 HP Cl1 Cl2 Dd2 Rd t) by (rewrite ?St1, ?En1, ?Hsn; assumption).
  apply Ev1. intros _.
  apply (snap1_between (b_knots b1) (@b_start R NumR b1) (@b_end R NumR b1) tol t); try assumption; apply kn_In'; lia.
Qed.

Corollary append_eval_left_raw t :
  @b_start R NumR b1 <= t <= @b_end R NumR b1 - 2 * tol ->
  @obj_eval R NumR tol (append_result d1 d2 P) [t] = res_map (pad (dim' - o_dim o1)) (@obj_eval R NumR tol o1 [t]).
Proof.
  intros Ht. pose proof H1 as (W1 & _). pose proof (clamped_curve_bases tol o1 H1) as HB1.
  destruct (curve_facts tol o1 _ _ W1 HB1) as (HK1 & _).
  apply append_eval_left; [lra|]. apply snap1_below_2tol; [exact HK1|exact Htol|lra].
Qed.

(* the junction hypothesis, on the nets the merge step actually sees *)
Hypothesis Hjunction : last (o_cps d1) [] = hd [] (o_cps d2).

(* 3b. END TO END, right of the junction: the whole closed interval, no exclusion *)
Theorem append_eval_right t :
  @b_end R NumR b1 <= t <= @b_end R NumR b1 + (@b_end R NumR b2 - @b_start R NumR b2) ->
  @obj_eval R NumR tol (append_result d1 d2 P) [t]
  = res_map (pad (dim' - o_dim o2)) (@obj_eval R NumR tol o2 [t - @b_end R NumR b1 + @b_start R NumR b2]).
Proof.
  intros Ht.
  destruct mn_raised as (L1 & L2 & Wd1 & Wd2 & Bd1 & Bd2 & Cl1 & Cl2 & S1 & S2 & V1 & V2 & St1 & En1 & St2 & En2 & Dd1 & Dd2 & Rd & Ev1 & Ev2).
  pose proof H2 as (W2 & _). pose proof (clamped_curve_bases tol o2 H2) as HB2.
  destruct (curve_facts tol o2 _ _ W2 HB2) as (HK2 & Hp2 & Hlen2 & _).
  unfold append_result. rewrite Bd1, Bd2. cbn [nth b_knots].
  rewrite (joined_eval_right tol Htol d1 d2 P L1 L2 Wd1 Wd2 Bd1 Bd2 HP Cl1 Cl2 Dd2 Rd Hjunction t) by (rewrite ?St2, ?En1, ?En2; assumption).
  rewrite En1, St2. apply Ev2. intros _.
  apply (snap1_between (b_knots b2) (@b_start R NumR b2) (@b_end R NumR b2) tol); try assumption; try (apply kn_In'; lia). lra.
Qed.
End Main.

(* ---- the statements in closed form ---- *)
Definition append_spec (tol : R) (o1 o2 o : obj R) : Prop :=
  let b1 := nth 0 (o_bases o1) dflt_basis in let b2 := nth 0 (o_bases o2) dflt_basis in
  let b := nth 0 (o_bases o) dflt_basis in
  let dim' := Nat.max (o_dim o1) (o_dim o2) in
  (* a well-formed non-periodic curve of order max p1 p2 on [start o1, end o1 + (end o2 - start o2)] *)
  wf_obj_R tol o /\ length (o_bases o) = 1%nat /\ b_per1 b = 0%nat /\ b_order b = Nat.max (b_order b1) (b_order b2) /\
  @b_start R NumR b = @b_start R NumR b1 /\
  @b_end R NumR b = @b_end R NumR b1 + (@b_end R NumR b2 - @b_start R NumR b2) /\
  o_dim o = dim' /\ o_rat o = (o_rat o1 || o_rat o2)%bool /\
  (* left of the junction: the first curve (padded), as long as the snapped parameter is not within tol of the junction *)
  (forall t, @b_start R NumR b1 <= t <= @b_end R NumR b1 -> @snap1 R NumR (b_knots b1) tol t <= @b_end R NumR b1 - tol ->
     @obj_eval R NumR tol o [t] = res_map (pad (dim' - o_dim o1)) (@obj_eval R NumR tol o1 [t])) /\
  (forall t, @b_start R NumR b1 <= t <= @b_end R NumR b1 - 2 * tol ->
     @obj_eval R NumR tol o [t] = res_map (pad (dim' - o_dim o1)) (@obj_eval R NumR tol o1 [t])) /\
  (* right of the junction (closed interval): the second curve (padded) at the shifted parameter *)
  (forall t, @b_end R NumR b1 <= t <= @b_end R NumR b1 + (@b_end R NumR b2 - @b_start R NumR b2) ->
     @obj_eval R NumR tol o [t] = res_map (pad (dim' - o_dim o2)) (@obj_eval R NumR tol o2 [t - @b_end R NumR b1 + @b_start R NumR b2])).

Theorem append_end_to_end tol (o1 o2 d1 d2 : obj R) :
  0 < tol -> clamped_curve tol o1 -> clamped_curve tol o2 ->
  let b1 := nth 0 (o_bases o1) dflt_basis in let b2 := nth 0 (o_bases o2) dflt_basis in
  let p1 := b_order b1 in let p2 := b_order b2 in
  let c := @obj_compatible R NumR o1 o2 in
  (2 <= Nat.max p1 p2)%nat ->
  ((p1 < p2)%nat -> separated tol (b_knots b1)) -> ((p2 < p1)%nat -> separated tol (b_knots b2)) ->
  (* both order elevations succeed *)
  @obj_raise_order R NumR tol (fst c) [(p2 - p1)%nat] = Ok d1 ->
  @obj_raise_order R NumR tol (snd c) [(p1 - p2)%nat] = Ok d2 ->
  (* the junction: end of the first (compatible, raised) net = start of the second *)
  last (o_cps d1) [] = hd [] (o_cps d2) ->
  exists o, @obj_append R NumR tol o1 o2 = Ok o /\ append_spec tol o1 o2 o.
Proof.
  intros Htol H1 H2. cbv zeta. intros HP Hs1 Hs2 Hr1 Hr2 Hj.
  exists (append_result d1 d2 (Nat.max (b_order (nth 0 (o_bases o1) dflt_basis)) (b_order (nth 0 (o_bases o2) dflt_basis)))).
  split; [apply (append_ok tol o1 o2 H1 H2 d1 d2 Hr1 Hr2)|].
  pose proof (append_wf tol Htol o1 o2 H1 H2 d1 d2 Hr1 Hr2 HP Hs1 Hs2) as W. cbv zeta in W.
  destruct W as (A1 & A2 & A3 & A4 & A5 & A6 & A7 & A8).
  unfold append_spec. cbv zeta. repeat (split; [assumption|]).
  split; [intros t Ht Hs; apply (append_eval_left tol Htol o1 o2 H1 H2 d1 d2 Hr1 Hr2 HP Hs1 Hs2 t Ht Hs)|].
  split; [intros t Ht; apply (append_eval_left_raw tol Htol o1 o2 H1 H2 d1 d2 Hr1 Hr2 HP Hs1 Hs2 t Ht)|].
  intros t Ht. apply (append_eval_right tol Htol o1 o2 H1 H2 d1 d2 Hr1 Hr2 HP Hs1 Hs2 Hj t Ht).
Qed.

(* equal orders: no order elevation takes place, obj_append provably succeeds *)
Theorem append_same_order_ok tol (o1 o2 : obj R) :
  clamped_curve tol o1 -> clamped_curve tol o2 ->
  b_order (nth 0 (o_bases o1) dflt_basis) = b_order (nth 0 (o_bases o2) dflt_basis) ->
  let c := @obj_compatible R NumR o1 o2 in
  @obj_append R NumR tol o1 o2 = Ok (append_result (fst c) (snd c) (b_order (nth 0 (o_bases o1) dflt_basis))).
Proof.
  intros H1 H2 Ep. cbv zeta.
  rewrite (append_ok tol o1 o2 H1 H2 (fst (@obj_compatible R NumR o1 o2)) (snd (@obj_compatible R NumR o1 o2))).
  - rewrite <- Ep, Nat.max_id. reflexivity.
  - rewrite Ep, Nat.sub_diag. apply raise_zero.
  - rewrite Ep, Nat.sub_diag. apply raise_zero.
Qed.

Theorem append_end_to_end_same_order tol (o1 o2 : obj R) :
  0 < tol -> clamped_curve tol o1 -> clamped_curve tol o2 ->
  b_order (nth 0 (o_bases o1) dflt_basis) = b_order (nth 0 (o_bases o2) dflt_basis) ->
  (2 <= b_order (nth 0 (o_bases o1) dflt_basis))%nat ->
  let c := @obj_compatible R NumR o1 o2 in
  last (o_cps (fst c)) [] = hd [] (o_cps (snd c)) ->
  exists o, @obj_append R NumR tol o1 o2 = Ok o /\ append_spec tol o1 o2 o.
Proof.
  intros Htol H1 H2 Ep Hp. cbv zeta. intros Hj.
  apply (append_end_to_end tol o1 o2 (fst (@obj_compatible R NumR o1 o2)) (snd (@obj_compatible R NumR o1 o2)) Htol H1 H2); try assumption.
  - rewrite <- Ep, Nat.max_id. exact Hp.
  - intros Hlt. lia.
  - intros Hlt. lia.
  - rewrite Ep, Nat.sub_diag. apply raise_zero.
  - rewrite Ep, Nat.sub_diag. apply raise_zero.
Qed.

(* ================================================================================================ *)
(* Part E: re-join.  obj_split at one interior value x, then obj_append of the two pieces *)

(* a matrix applied to the net of a curve, rows related by row_rel: same homogeneous point *)
Lemma curve_apply_dir_teval nc n (N N' : list R) (M cps : list (list R)) :
  Forall (fun v => length v = nc) cps -> length cps = n -> length N = n -> (0 < n)%nat -> row_rel N N' M ->
  @teval R NumR nc [N'] (@apply_dir R NumR nc [n] 0 M cps) = @teval R NumR nc [N] cps.
Proof.
  intros Hv Hl HN Hn RR. rewrite <- HN in Hl, Hn |- *. clear HN n.
  assert (Hnet : net_ok nc [N] cps) by (split; [exact Hv|cbn; lia]).
  assert (Hpos : (0 < prodl (map (@length R) [N]))%nat) by (cbn; lia).
  assert (Hnet' : net_ok nc [N'] (@apply_dir R NumR nc [length N] 0 M cps)).
  { split; [apply Forall_apply_dir; exact Hv|].
    rewrite length_apply_dir; [|cbn; lia|cbn; lia|cbn; lia]. destruct RR as (HC & _). cbn. lia. }
  apply (nth_ext _ _ 0 0); [rewrite (teval_length _ _ _ Hnet), (teval_length _ _ _ Hnet'); reflexivity|].
  intros c Hc. rewrite (teval_length _ _ _ Hnet') in Hc. change (nth c ?v 0) with (coord c v).
  rewrite (teval_tsum nc c [N'] Hc _ Hnet'), (teval_tsum nc c [N] Hc _ Hnet).
  apply (tsum_apply_dir nc c M [N] 0%nat N' cps ltac:(cbn; lia) Hc Hnet Hpos RR).
Qed.

(* obj_insert_knots on a curve: the homogeneous defining sum is unchanged, for BOTH one-sided families and every t *)
Lemma insert_knots_hrel tol p : 0 < tol -> forall (xs : list R) (oc : obj R) (kc : list R) (o' : obj R),
  wf_obj_R tol oc -> o_bases oc = [mkBasis p kc 0] ->
  (forall y, In y xs -> @kn R NumR kc (p - 1) <= y < @kn R NumR kc (length kc - p)) ->
  @obj_insert_knots R NumR oc 0 xs = Ok o' ->
  exists kf, o_bases o' = [mkBasis p kf 0] /\ wf_obj_R tol o' /\
    @kn R NumR kf (p - 1) = @kn R NumR kc (p - 1) /\ @kn R NumR kf (length kf - p) = @kn R NumR kc (length kc - p) /\
    o_dim o' = o_dim oc /\ o_rat o' = o_rat oc /\
    forall side t, @teval R NumR (@o_ncomp R oc) [Brow side kf p t] (o_cps o') = @teval R NumR (@o_ncomp R oc) [Brow side kc p t] (o_cps oc).
Proof.
  intros Htol. induction xs as [|y ys IH]; intros oc kc o' Hwf HB Hxs Hins.
  - cbn [obj_insert_knots] in Hins. injection Hins as <-. exists kc. repeat (split; [reflexivity || assumption|]). intros; reflexivity.
  - rewrite obj_insert_knots_cons in Hins.
    destruct (curve_facts tol oc p kc Hwf HB) as (HK & Hp & Hlen & Hw & HV & HL).
    destruct oc as [bs cps0 dim0 rat0]. cbn [o_bases o_cps] in *. subst bs.
    pose (oc := mkObj [mkBasis p kc 0] cps0 dim0 rat0).
    assert (Hd : (0 < length (o_bases oc))%nat) by (cbn; lia).
    assert (Hper : b_per1 (nth 0 (o_bases oc) dflt_basis) = 0%nat) by reflexivity.
    assert (Hy : @b_start R NumR (nth 0 (o_bases oc) dflt_basis) <= y < @b_end R NumR (nth 0 (o_bases oc) dflt_basis))
      by (apply Hxs; left; reflexivity).
    change (mkObj [mkBasis p kc 0] cps0 dim0 rat0) with oc in Hins.
    rewrite (insert_ok tol oc Hwf 0%nat Hd Hper y Hy) in Hins.
    pose proof (one_wf tol oc Hwf 0%nat Hd Hper y Hy) as Hwf1.
    pose proof (b'_start tol oc Hwf 0%nat Hd Hper y Hy) as Hs1.
    pose proof (b'_end tol oc Hwf 0%nat Hd Hper y Hy) as He1.
    pose proof (one_rel tol oc Hwf 0%nat Hd Hper y Hy) as Hrel.
    unfold oc in Hins, Hwf1, Hs1, He1, Hrel.
    cbn [o_bases nth b_knots b_order upd o_cps o_dim o_rat] in Hins, Hwf1, Hs1, He1, Hrel.
    set (k1 := insert_at kc (@py_bisect_right R NumR kc y) y) in *.
    set (Cm := @mat_of_writes R NumR _ _ _) in *.
    fold oc in Hins, Hwf1.
    set (o1 := mkObj [mkBasis p k1 0] (@apply_dir R NumR (@o_ncomp R oc) (@o_shape R oc) 0 Cm cps0) dim0 rat0) in *.
    unfold b_start, b_end in Hs1, He1. cbn [b_knots b_order] in Hs1, He1.
    destruct (IH o1 k1 o' Hwf1 eq_refl) as (kf & B' & W' & S' & E' & D' & R' & T').
    + intros z Hz. rewrite Hs1, He1. apply Hxs. right. exact Hz.
    + exact Hins.
    + exists kf. split; [exact B'|]. split; [exact W'|]. split; [rewrite S'; exact Hs1|]. split; [rewrite E'; exact He1|].
      split; [exact D'|]. split; [exact R'|]. intros side t.
      change (@o_ncomp R o1) with (@o_ncomp R oc) in T'. rewrite T'. unfold o1. cbn [o_cps].
      apply (curve_apply_dir_teval (@o_ncomp R oc) (length kc - p - 0) (Brow side kc p t) (Brow side k1 p t) Cm cps0).
      * exact HV.
      * rewrite HL. lia.
      * rewrite ae_Brow_length. lia.
      * lia.
      * apply Hrel.
Qed.

(* split_insert with one split value is one obj_insert_knots call with copies of that value *)
Lemma split_insert_one tol (b0 : basis R) (o so : obj R) x :
  @split_insert R NumR tol b0 o 0 [x] = Ok so -> exists m, @obj_insert_knots R NumR o 0 (repeat x m) = Ok so.
Proof.
  cbn [split_insert]. destruct (@basis_continuity R NumR tol b0 x) as [c|e]; [|discriminate]. cbv zeta.
  destruct (@obj_insert_knots R NumR o 0 (repeat x _)) as [o'|e] eqn:E; [|discriminate].
  intros [= <-]. eexists. exact E.
Qed.

(* both one-sided Cox-de Boor families agree at x: the B-splines on k are continuous at x *)
Definition knot_continuous (k : list R) (p : nat) (x : R) : Prop :=
  forall i, B true (@kn R NumR k) (p - 1) i x = B false (@kn R NumR k) (p - 1) i x.

Lemma B_side_indep (K : nat -> R) t : (forall j, K j <> t) -> forall q i, B true K q i t = B false K q i t.
Proof.
  intros Hne. induction q as [|q IH]; intros i.
  - cbn [B]. unfold B0. pose proof (Hne i). pose proof (Hne (S i)).
    destruct (Rleb_spec (K i) t), (Rltb_spec t (K (S i))), (Rltb_spec (K i) t), (Rleb_spec t (K (S i))); cbn [andb]; try reflexivity; lra.
  - cbn [B]. rewrite !IH. reflexivity.
Qed.

(* a value that is not a knot *)
Lemma knot_continuous_notin (k : list R) p x : k <> [] -> ~ In x k -> knot_continuous k p x.
Proof.
  intros Hne Hx i. apply B_side_indep. intros j E. apply Hx. rewrite <- E.
  destruct (Nat.lt_ge_cases j (length k)) as [L|L]; [apply kn_In'; exact L|].
  rewrite kn_out by exact L. rewrite <- (nth_last_len k 0 Hne). apply nth_In. destruct k; [contradiction|cbn; lia].
Qed.

(* ... or a knot of multiplicity at most p - 1 (Proofs/SeamContinuity.v: B_continuous_at_multiple_knot) *)
Lemma knot_continuous_of_mult (k : list R) p x : sorted (@kn R NumR k) -> (2 <= p)%nat -> (2 * p <= length k)%nat ->
  @kn R NumR k (p - 1) < x < @kn R NumR k (length k - p) -> (mult k x < p)%nat -> knot_continuous k p x.
Proof.
  intros HK Hp Hlen [Hs He] Hm.
  assert (Hne : k <> []) by (intros E; rewrite E in Hlen; cbn in Hlen; lia).
  destruct (Nat.eq_dec (mult k x) 0) as [Z|NZ].
  { apply knot_continuous_notin; [exact Hne|]. intros Hin. apply (count_occ_In Req_EM_T) in Hin. unfold mult in Z. lia. }
  rewrite (count_bisect k x HK) in Hm, NZ.
  pose proof (fun j Hj => bisect_window k x j HK Hj) as W.
  unfold py_bisect_left, py_bisect_right in *.
  destruct (bisect_left_spec (@kn R NumR k) HK x (length k)) as (A1 & A2 & A3).
  destruct (bisect_right_spec (@kn R NumR k) HK x (length k)) as (B1 & B2 & B3). cbv zeta in *.
  set (bl := @bisect_left R NumR (@kn R NumR k) x (length k)) in *.
  set (br := @bisect_right R NumR (@kn R NumR k) x (length k)) in *.
  assert (H1 : (p <= bl)%nat).
  { destruct (Nat.le_gt_cases p bl) as [L|L]; [exact L|]. pose proof (A3 (p - 1)%nat ltac:(lia)). lra. }
  assert (H2 : (br <= length k - p)%nat).
  { destruct (Nat.le_gt_cases br (length k - p)) as [L|L]; [exact L|]. pose proof (B2 (length k - p)%nat L). lra. }
  assert (Ebl : @kn R NumR k (S (bl - 1)) = x) by (apply (W (S (bl - 1)) ltac:(lia)); lia).
  intros i. rewrite <- Ebl.
  apply (B_continuous_at_multiple_knot (@kn R NumR k) HK (bl - 1)%nat (br - bl)%nat); try lia.
  - rewrite Ebl. apply A2. lia.
  - rewrite Ebl. symmetry. apply (W (bl - 1 + (br - bl))%nat ltac:(lia)). lia.
  - replace (@kn R NumR k (bl - 1 + (br - bl))) with x by (symmetry; apply (W (bl - 1 + (br - bl))%nat ltac:(lia)); lia).
    apply B3. lia.
Qed.

Lemma res_map_pad0 (v : res (list R)) : res_map (pad 0) v = v.
Proof. destruct v as [v|e]; [|reflexivity]. cbn [res_map]. unfold pad. cbn [repeat]. rewrite app_nil_r. reflexivity. Qed.

Lemma pt_set_dim_id dim rat (v : list R) : @pt_set_dim R NumR dim dim rat v = v.
Proof. unfold pt_set_dim. cbv zeta. rewrite Nat.leb_refl, Nat.sub_diag. cbn [repeat]. rewrite app_nil_r. apply firstn_skipn. Qed.

(* make_splines_compatible leaves the nets of two curves of equal dimension and rationality alone *)
Lemma compatible_same_cps (a b : obj R) : o_dim a = o_dim b -> o_rat a = o_rat b ->
  o_cps (fst (@obj_compatible R NumR a b)) = o_cps a /\ o_cps (snd (@obj_compatible R NumR a b)) = o_cps b.
Proof.
  intros Hd Hr.
  assert (Hid : forall dimv rat (l : list (list R)), map (@pt_set_dim R NumR dimv dimv rat) l = l).
  { intros dimv rat l. rewrite <- (map_id l) at 2. apply map_ext. intros v. apply pt_set_dim_id. }
  unfold obj_compatible. destruct (o_rat a) eqn:Ra.
  - unfold obj_force_rational. rewrite <- Hr.
    replace (o_dim b <? o_dim a)%nat with false by (symmetry; apply Nat.ltb_ge; lia).
    cbn [fst snd]. unfold obj_set_dimension. cbn [o_cps]. rewrite Hd. split; [apply Hid|reflexivity].
  - rewrite <- Hr.
    replace (o_dim b <? o_dim a)%nat with false by (symmetry; apply Nat.ltb_ge; lia).
    cbn [fst snd]. unfold obj_set_dimension. cbn [o_cps]. rewrite Hd. split; [apply Hid|reflexivity].
Qed.

Lemma clamped_list_open (k : list R) p : k <> [] -> clamped_list k p -> open_knots k p.
Proof.
  intros Hne [A B]. split; intros i Hi.
  - rewrite (A i Hi). destruct k; [contradiction|reflexivity].
  - rewrite (B i Hi). symmetry. apply nth_last_len. exact Hne.
Qed.

(* a slice of a sorted knot list whose first and last p knots coincide is clamped *)
Lemma slice_clamped (kf : list R) p a c : sorted (@kn R NumR kf) -> (1 <= p)%nat -> (a + p <= c)%nat -> (c + p <= length kf)%nat ->
  @kn R NumR kf a = @kn R NumR kf (a + p - 1) -> @kn R NumR kf (c + p - 1) = @kn R NumR kf c ->
  clamped_list (slice_list kf a (c + p)) p.
Proof.
  intros HK Hp Hac Hc E1 E2.
  assert (Hl : length (slice_list kf a (c + p)) = (c + p - a)%nat) by (apply SplitTiling.slice_list_length; exact Hc).
  apply clamped_of_bounds; [apply kn_slice_sorted; [exact HK|lia|exact Hc]|exact Hp|rewrite Hl; lia|].
  intros v Hv. destruct (In_nth _ v 0 Hv) as (i & Hi & Ei). rewrite <- (kn_in _ i Hi 0) in Ei. subst v. rewrite Hl in Hi.
  rewrite Hl. rewrite !kn_slice_lt by lia.
  replace (a + (p - 1))%nat with (a + p - 1)%nat by lia. replace (a + (c + p - a - p))%nat with c by lia.
  rewrite <- E1, <- E2. split; apply HK; lia.
Qed.

(* one piece of the slicing loop, on a curve: its net reproduces the homogeneous defining sum of the object it is cut from,
   at every (side, t) of its own one-sided domain *)
Lemma piece_hrel tol (so : obj R) p (kf : list R) a c : 0 < tol -> wf_obj_R tol so -> o_bases so = [mkBasis p kf 0] ->
  (a <= c)%nat -> (c <= length kf - p)%nat ->
  let kq := slice_list kf a (c + p) in let q := piece so 0 p kf a c in
  o_bases q = [mkBasis p kq 0] /\ o_dim q = o_dim so /\ o_rat q = o_rat so /\
  forall (side : bool) t,
    (if side then @kn R NumR kq (p - 1) <= t < @kn R NumR kq (length kq - p) else @kn R NumR kq (p - 1) < t <= @kn R NumR kq (length kq - p)) ->
    @teval R NumR (@o_ncomp R so) [Brow side kq p t] (o_cps q) = @teval R NumR (@o_ncomp R so) [Brow side kf p t] (o_cps so).
Proof.
  intros Htol Hwf HB Hac Hc. cbv zeta.
  destruct (curve_facts tol so p kf Hwf HB) as (HK & Hp & Hlen & Hw & HV & HL).
  assert (Hb : nth 0 (o_bases so) dflt_basis = mkBasis p kf 0) by (rewrite HB; reflexivity).
  assert (Hd : (0 < length (o_bases so))%nat) by (rewrite HB; cbn; lia).
  assert (Hper : b_per1 (nth 0 (o_bases so) dflt_basis) = 0%nat) by (rewrite Hb; reflexivity).
  unfold piece, obj_along. cbn [o_bases o_cps o_dim o_rat]. rewrite HB. cbn [upd].
  split; [reflexivity|]. split; [reflexivity|]. split; [reflexivity|].
  intros side t Ht.
  assert (Ham : (a + (c - a) <= @b_nfun R (nth 0 (o_bases so) dflt_basis))%nat) by (rewrite Hb; unfold b_nfun; cbn [b_knots b_order b_per1]; lia).
  pose proof (sp_rel tol so Hwf 0%nat Hd Hper a (c - a)%nat Ham side t) as Q.
  rewrite Hb in Q. cbn [b_knots b_order] in Q. unfold b_nfun in Q. cbn [b_knots b_order b_per1] in Q.
  replace (a + (c - a) + p)%nat with (c + p)%nat in Q by lia. rewrite Nat.sub_0_r in Q. specialize (Q Ht).
  unfold o_shape. rewrite HB. cbn [map]. unfold b_nfun. cbn [b_knots b_order b_per1]. rewrite Nat.sub_0_r. unfold n_cp.
  apply (curve_apply_dir_teval (@o_ncomp R so) (length kf - p) (Brow side kf p t) _ _ (o_cps so)); try assumption.
  - apply ae_Brow_length.
  - lia.
Qed.

(* what the re-joined curve r satisfies with respect to the original curve o (order p, knots k) split at x *)
Definition rejoin_spec (tol : R) (o : obj R) (p : nat) (k : list R) (x : R) (r : obj R) : Prop :=
  wf_obj_R tol r /\ length (o_bases r) = 1%nat /\
  (let b := nth 0 (o_bases r) dflt_basis in
   b_per1 b = 0%nat /\ b_order b = p /\ @b_start R NumR b = st p k /\ @b_end R NumR b = en p k) /\
  o_dim r = o_dim o /\ o_rat r = o_rat o /\
  (* left of the split value: up to 2*tol below it (the window the split theorem excludes for the first piece) *)
  (forall t, st p k <= t <= x - 2 * tol -> @obj_eval R NumR tol r [t] = @obj_eval R NumR tol o [t]) /\
  (* from the split value on: everywhere if x was already a knot, otherwise at x itself and from x + tol on
     (the window (x, x+tol) that snap() treats differently once x has become a knot) *)
  (forall t, x <= t <= en p k -> param_ok tol k x t -> @obj_eval R NumR tol r [t] = @obj_eval R NumR tol o [t]).

Section Rejoin.
Variables (tol : R) (o : obj R) (p : nat) (k : list R) (x : R).
Hypothesis H : split_hyps tol o 0 p k [x].
Hypothesis Hcurve : length (o_bases o) = 1%nat.
Hypothesis Hopen : open_knots k p.
Hypothesis Hp2 : (2 <= p)%nat.
(* the B-splines of the ORIGINAL basis are continuous at x (true when x is not a knot: knot_continuous_notin) *)
Hypothesis Hcont : knot_continuous k p x.

Lemma rj_so : exists so kf,
  @split_insert R NumR tol (mkBasis p k 0) o 0 [x] = Ok so /\ wf_obj_R tol so /\ o_bases so = [mkBasis p kf 0] /\
  sorted (@kn R NumR kf) /\ (2 * p <= length kf)%nat /\ st p kf = st p k /\ en p kf = en p k /\
  clamped_list kf p /\ mult_p p kf x /\ o_dim so = o_dim o /\ o_rat so = o_rat o /\
  (forall side t, @teval R NumR (@o_ncomp R o) [Brow side kf p t] (o_cps so) = @teval R NumR (@o_ncomp R o) [Brow side k p t] (o_cps o)).
Proof.
  pose proof (sh_tol _ _ _ _ _ _ H) as Htol. pose proof (sh_wf _ _ _ _ _ _ H) as Hwf. pose proof (sh_basis _ _ _ _ _ _ H) as HB0.
  destruct (sh_basis_facts _ _ _ _ _ _ H) as (HK & Hp & Hlen).
  assert (HB : o_bases o = [mkBasis p k 0]).
  { destruct (o_bases o) as [|b [|b' r]]; try (cbn in Hcurve; lia). cbn [nth] in HB0. rewrite HB0. reflexivity. }
  destruct (split_insert_spec tol o 0 p k [x] H) as (so & kf & Hok & Hwfso & Hl & _ & Hb & HKf & Hs & He & _ & Hvals & _ & _ & Hmp & _).
  exists so, kf.
  assert (HBso : o_bases so = [mkBasis p kf 0]).
  { rewrite Hcurve in Hl. destruct (o_bases so) as [|b [|b' r]]; try (cbn in Hl; lia). cbn [nth] in Hb. rewrite Hb. reflexivity. }
  destruct (curve_facts tol so p kf Hwfso HBso) as (_ & _ & Hlenf & _).
  destruct (split_insert_one tol _ o so x Hok) as (m & Hins).
  pose proof (Forall_inv (sh_inside _ _ _ _ _ _ H)) as Hx. unfold inside, st, en in Hx.
  destruct (insert_knots_hrel tol p Htol (repeat x m) o k so Hwf HB) as (kf' & B' & _ & _ & _ & D' & R' & T').
  { intros y Hy. apply repeat_spec in Hy. subst y. lra. }
  { exact Hins. }
  rewrite HBso in B'. injection B' as E. subst kf'.
  split; [exact Hok|]. split; [exact Hwfso|]. split; [exact HBso|]. split; [exact HKf|]. split; [exact Hlenf|].
  split; [exact Hs|]. split; [exact He|]. split.
  { apply clamped_of_bounds; try assumption.
    pose proof (open_clamped k p (lsorted_of_kn k HK) Hp Hlen Hopen) as Ck.
    intros v Hv. unfold st, en in Hs, He. rewrite Hs, He. apply Hvals in Hv. destruct Hv as [Hv|Hv]; [apply Ck; exact Hv|].
    destruct Hv as [<-|[]]. lra. }
  split; [exact (Forall_inv Hmp)|]. split; [exact D'|]. split; [exact R'|exact T'].
Qed.

Theorem split_append_rejoin_gen fuel pieces :
  @obj_split R NumR fuel tol o 0 [x] = Ok pieces ->
  exists r, @obj_append R NumR tol (nth 0 pieces o) (nth 1 pieces o) = Ok r /\ rejoin_spec tol o p k x r.
Proof.
  intros E.
  pose proof (sh_tol _ _ _ _ _ _ H) as Htol. pose proof (sh_wf _ _ _ _ _ _ H) as Hwf. pose proof (sh_basis _ _ _ _ _ _ H) as HB0.
  destruct (sh_basis_facts _ _ _ _ _ _ H) as (HK & Hp & Hlen).
  pose proof (sh_inside _ _ _ _ _ _ H) as Hin. pose proof (sh_incr _ _ _ _ _ _ H) as Hincr.
  destruct rj_so as (so & kf & Hok & Hwfso & HBso & HKf & Hlenf & Hs & He & Cf & Hmp & Dso & Rso & Trel).
  assert (Hb : nth 0 (o_bases so) dflt_basis = mkBasis p kf 0) by (rewrite HBso; reflexivity).
  assert (Hdso : (0 < length (o_bases so))%nat) by (rewrite HBso; cbn; lia).
  assert (Hinf : Forall (inside p kf) [x]).
  { rewrite Forall_forall in *. intros y Hy. unfold inside. rewrite Hs, He. exact (Hin y Hy). }
  pose proof (obj_split_fuel tol o 0 [x] fuel pieces E) as Hfuel. destruct fuel as [|f]; [lia|].
  destruct (obj_split_nonperiodic tol o 0 p k [x] H (S f) Hfuel) as (pieces' & E' & Lp & T).
  rewrite E in E'. injection E' as <-.
  assert (Hsplit : @obj_split R NumR (S f) tol o 0 [x] = Ok (@split_pieces R NumR so 0 (st p kf) (en p kf) [x] 0 0)).
  { cbn [obj_split]. change (@mkBasis R 0 [] 0) with dflt_basis. rewrite HB0, Hok, Hb. cbn [b_per1 Nat.eqb negb].
    rewrite Hs, He. reflexivity. }
  assert (Epieces : pieces = @split_pieces R NumR so 0 (st p kf) (en p kf) [x] 0 0) by congruence.
  clear Hsplit.
  (* the two pieces *)
  destruct (cut_spec so 0 p kf Hdso HKf Hp Hlenf x (Forall_inv Hinf) Hmp) as (C1 & C2 & C3 & C4 & C5). cbv zeta in *.
  set (b := @py_bisect_left R NumR kf x) in *. unfold n_cp in C2.
  set (n := (length kf - p)%nat) in *.
  assert (Hb1 : (p <= b)%nat) by exact C1. assert (Hb2 : (b + p <= n)%nat) by exact C2.
  assert (Xb : forall j, (b <= j < b + p)%nat -> @kn R NumR kf j = x).
  { intros j Hj. rewrite <- (C4 (j - b)%nat ltac:(lia)). f_equal. lia. }
  assert (Eq0 : nth 0 pieces o = piece so 0 p kf 0 b).
  { rewrite (nth_indep pieces o so) by (rewrite Lp; cbn [length]; lia). rewrite Epieces.
    rewrite (split_pieces_shape so 0 p kf Hdso Hb HKf Hp Hlenf [x] Hinf Hincr 0 ltac:(cbn; lia)). reflexivity. }
  assert (Eq1 : nth 1 pieces o = piece so 0 p kf b n).
  { rewrite (nth_indep pieces o so) by (rewrite Lp; cbn [length]; lia). rewrite Epieces.
    rewrite (split_pieces_shape so 0 p kf Hdso Hb HKf Hp Hlenf [x] Hinf Hincr 1 ltac:(cbn; lia)). reflexivity. }
  destruct (T 0%nat ltac:(cbn; lia)) as (W0 & _ & _ & _ & _ & S0 & E0 & _ & Ev0).
  destruct (T 1%nat ltac:(cbn; lia)) as (W1 & _ & _ & _ & _ & S1 & E1 & _ & Ev1).
  cbv zeta in *. unfold ends in S0, E0, S1, E1. cbn [nth app] in S0, E0, S1, E1.
  rewrite Eq0 in *. rewrite Eq1 in *.
  set (q0 := piece so 0 p kf 0 b) in *. set (q1 := piece so 0 p kf b n) in *.
  set (kq0 := slice_list kf 0 (b + p)). set (kq1 := slice_list kf b (n + p)).
  destruct (piece_hrel tol so p kf 0 b Htol Hwfso HBso ltac:(lia) ltac:(fold n; lia)) as (B0 & D0 & R0 & T0). cbv zeta in B0, D0, R0, T0. fold q0 in B0, D0, R0, T0. fold kq0 in B0, T0.
  destruct (piece_hrel tol so p kf b n Htol Hwfso HBso ltac:(lia) ltac:(fold n; lia)) as (B1 & D1 & R1 & T1). cbv zeta in B1, D1, R1, T1. fold q1 in B1, D1, R1, T1. fold kq1 in B1, T1.
  assert (Lq0 : length kq0 = (b + p)%nat) by (unfold kq0; rewrite SplitTiling.slice_list_length by (fold n in C2; lia); lia).
  assert (Lq1 : length kq1 = (n + p - b)%nat) by (unfold kq1; rewrite SplitTiling.slice_list_length by (unfold n; lia); lia).
  assert (Kq0 : forall i, (i < b + p)%nat -> @kn R NumR kq0 i = @kn R NumR kf i).
  { intros i Hi. unfold kq0. rewrite kn_slice_lt by (fold n in C2; lia). reflexivity. }
  assert (Kq1 : forall i, (i < n + p - b)%nat -> @kn R NumR kq1 i = @kn R NumR kf (b + i)).
  { intros i Hi. unfold kq1. rewrite kn_slice_lt by (unfold n; lia). reflexivity. }
  (* the clamped ends of kf *)
  destruct Cf as [Cfa Cfb].
  assert (Kf0 : @kn R NumR kf 0 = @kn R NumR kf (0 + p - 1)).
  { rewrite (kn_in kf 0 ltac:(lia) 0), (kn_in kf (0 + p - 1) ltac:(lia) 0). rewrite (Cfa 0%nat ltac:(lia)), (Cfa (0 + p - 1)%nat ltac:(lia)). reflexivity. }
  assert (Kfn : @kn R NumR kf (n + p - 1) = @kn R NumR kf n).
  { unfold n. rewrite (kn_in kf (length kf - p + p - 1) ltac:(lia) 0), (kn_in kf (length kf - p) ltac:(lia) 0).
    replace (length kf - p + p - 1)%nat with (length kf - 1 - 0)%nat by lia.
    replace (length kf - p)%nat with (length kf - 1 - (p - 1))%nat by lia.
    rewrite (Cfb 0%nat ltac:(lia)), (Cfb (p - 1)%nat ltac:(lia)). reflexivity. }
  assert (Cq0 : clamped_list kq0 p).
  { apply (slice_clamped kf p 0 b HKf Hp ltac:(lia) ltac:(unfold n in C2; lia) Kf0).
    rewrite !Xb by lia. reflexivity. }
  assert (Cq1 : clamped_list kq1 p).
  { apply (slice_clamped kf p b n HKf Hp ltac:(lia) ltac:(unfold n; lia)); [|exact Kfn].
    rewrite !Xb by lia. reflexivity. }
  assert (CC0 : clamped_curve tol q0).
  { split; [exact W0|]. rewrite B0. cbn [length nth b_per1 b_knots b_order]. split; [reflexivity|]. split; [reflexivity|].
    apply clamped_list_open; [intros Q; rewrite Q in Lq0; cbn [length] in Lq0; lia|exact Cq0]. }
  assert (CC1 : clamped_curve tol q1).
  { split; [exact W1|]. rewrite B1. cbn [length nth b_per1 b_knots b_order]. split; [reflexivity|]. split; [reflexivity|].
    apply clamped_list_open; [intros Q; rewrite Q in Lq1; cbn [length] in Lq1; lia|exact Cq1]. }
  (* the nets of the pieces *)
  destruct (curve_facts tol q0 p kq0 W0 B0) as (SK0 & _ & _ & _ & V0 & L0).
  destruct (curve_facts tol q1 p kq1 W1 B1) as (SK1 & _ & _ & _ & V1 & L1).
  assert (Nc : @o_ncomp R so = @o_ncomp R o) by (unfold o_ncomp; rewrite Dso, Rso; reflexivity).
  assert (Nc0 : @o_ncomp R q0 = @o_ncomp R o) by (unfold o_ncomp; rewrite D0, R0, Dso, Rso; reflexivity).
  assert (Nc1 : @o_ncomp R q1 = @o_ncomp R o) by (unfold o_ncomp; rewrite D1, R1, Dso, Rso; reflexivity).
  rewrite Nc in T0, T1. rewrite Nc0 in V0. rewrite Nc1 in V1. rewrite Lq0 in L0. rewrite Lq1 in L1.
  replace (b + p - p)%nat with b in L0 by lia. replace (n + p - b - p)%nat with (n - b)%nat in L1 by lia.
  unfold st, en in Hs, He. fold n in He.
  pose proof (Forall_inv Hin) as Hx. unfold inside, st, en in Hx.
  (* junction: both end control points are the value of the continuous homogeneous curve at x *)
  assert (J0 : last (o_cps q0) [] = @teval R NumR (@o_ncomp R o) [Brow false kf p x] (o_cps so)).
  { rewrite <- (T0 false x).
    - rewrite (Brow_full_mult_left kq0 p (b - 1) x SK0).
      + rewrite Lq0. replace (b + p - p)%nat with b by lia.
        pose proof (teval_unit_rows (@o_ncomp R o) [b] [(b - 1)%nat] (o_cps q0)) as Q. cbn [unit_rows ravel fold_right] in Q.
        rewrite Q; [|apply Forall2_cons; [lia|apply Forall2_nil]|exact V0|unfold prodl; cbn [fold_right]; lia].
        replace ((b - 1) * 1 + 0)%nat with (length (o_cps q0) - 1)%nat by lia.
        symmetry. apply ae_nth_last. intros Q'. rewrite Q' in L0. cbn [length] in L0. lia.
      + replace (S (b - 1)) with b by lia. rewrite Kq0 by lia. rewrite Xb by lia. reflexivity.
      + replace (S (b - 1)) with b by lia. rewrite !Kq0 by lia. rewrite (Xb b) by lia. exact C3.
      + intros j Hj. rewrite Kq0 by lia. apply Xb. lia.
    - rewrite Lq0. replace (b + p - p)%nat with b by lia. rewrite !Kq0 by lia. rewrite Hs.
      rewrite (Xb b) by lia. lra. }
  assert (J1 : hd [] (o_cps q1) = @teval R NumR (@o_ncomp R o) [Brow true kf p x] (o_cps so)).
  { rewrite <- (T1 true x).
    - rewrite (Brow_full_mult_right kq1 p (p - 1) x SK1 Hp).
      + rewrite Lq1. replace (n + p - b - p)%nat with (n - b)%nat by lia. rewrite Nat.sub_diag.
        pose proof (teval_unit_rows (@o_ncomp R o) [(n - b)%nat] [0%nat] (o_cps q1)) as Q. cbn [unit_rows ravel fold_right] in Q.
        rewrite Q; [|apply Forall2_cons; [lia|apply Forall2_nil]|exact V1|unfold prodl; cbn [fold_right]; lia].
        cbn [Nat.mul Nat.add]. destruct (o_cps q1); reflexivity.
      + replace (S (p - 1)) with p by lia. rewrite !Kq1 by lia. rewrite (Xb (b + (p - 1))%nat) by lia. lra.
      + lia.
      + intros j Hj. rewrite Kq1 by lia. apply Xb. lia.
    - rewrite Lq1. replace (n + p - b - p)%nat with (n - b)%nat by lia. rewrite !Kq1 by lia.
      rewrite (Xb (b + (p - 1))%nat) by lia. replace (b + (n - b))%nat with n by lia. rewrite He. lra. }
  assert (Hjun : last (o_cps q0) [] = hd [] (o_cps q1)).
  { rewrite J0, J1, !Trel. f_equal. f_equal. unfold Brow. apply map_ext. intros i. symmetry. apply Hcont. }
  (* append *)
  assert (Ord0 : b_order (nth 0 (o_bases q0) dflt_basis) = p) by (rewrite B0; reflexivity).
  assert (Ord1 : b_order (nth 0 (o_bases q1) dflt_basis) = p) by (rewrite B1; reflexivity).
  destruct (compatible_same_cps q0 q1 ltac:(rewrite D0, D1; reflexivity) ltac:(rewrite R0, R1; reflexivity)) as (Cc0 & Cc1).
  destruct (append_end_to_end_same_order tol q0 q1 Htol CC0 CC1 ltac:(rewrite Ord0, Ord1; reflexivity) ltac:(rewrite Ord0; exact Hp2))
    as (r & Hr & Sp).
  { cbv zeta. rewrite Cc0, Cc1. exact Hjun. }
  exists r. split; [exact Hr|]. unfold rejoin_spec. unfold append_spec in Sp. cbv zeta in Sp.
  destruct Sp as (A1 & A2 & A3 & A4 & A5 & A6 & A7 & A8 & _ & A10 & A11).
  rewrite Ord0, Ord1, Nat.max_id in A4. rewrite S0 in A5. rewrite E0, E1, S1 in A6.
  rewrite D0, D1, Nat.max_id, Dso in A7. rewrite R0, R1, Rso, orb_diag in A8.
  split; [exact A1|]. split; [exact A2|]. split.
  { cbv zeta. split; [exact A3|]. split; [exact A4|]. split; [exact A5|]. rewrite A6. fold (en p k). ring. }
  split; [exact A7|]. split; [exact A8|]. split.
  - intros t Ht. rewrite (A10 t) by (rewrite S0, E0; exact Ht). rewrite D0, D1, Nat.max_id, Nat.sub_diag, res_map_pad0.
    apply Ev0. split; [intros i Hi Hne; lia|]. unfold ends. cbn [nth app]. split; [lra|]. split; [left; lra|].
    constructor; [|constructor]. right. right. rewrite Rabs_right by lra. lra.
  - intros t Ht Hpar. rewrite (A11 t) by (rewrite E0, E1, S1; fold (en p k); lra).
    rewrite D0, D1, Nat.max_id, Nat.sub_diag, res_map_pad0. rewrite E0, S1. replace (t - x + x) with t by ring.
    apply Ev1. split; [intros i Hi Hne; lia|]. unfold ends. cbn [nth app]. split; [exact Ht|]. split; [right; reflexivity|].
    constructor; [exact Hpar|constructor].
Qed.
End Rejoin.

(* RE-JOIN, final form: a clamped non-periodic curve o of order p >= 2 is split at one interior value x whose multiplicity
   in the knot list is below p (so that the curve is continuous there: 0 = a new knot value), under the hypotheses of
   the split theorem (Proofs/SplitCompose.v: split_hyps); appending the second piece to the first succeeds and gives a
   curve on the original domain that evaluates to the original curve. *)
Theorem split_append_rejoin tol (o : obj R) p (k : list R) x fuel pieces :
  split_hyps tol o 0 p k [x] -> length (o_bases o) = 1%nat -> open_knots k p -> (2 <= p)%nat ->
  (mult k x < p)%nat ->
  @obj_split R NumR fuel tol o 0 [x] = Ok pieces ->
  exists r, @obj_append R NumR tol (nth 0 pieces o) (nth 1 pieces o) = Ok r /\ rejoin_spec tol o p k x r.
Proof.
  intros H Hc Ho Hp Hm E.
  destruct (sh_basis_facts _ _ _ _ _ _ H) as (HK & _ & Hlen).
  pose proof (Forall_inv (sh_inside _ _ _ _ _ _ H)) as Hx. unfold inside, st, en in Hx.
  apply (split_append_rejoin_gen tol o p k x H Hc Ho Hp (knot_continuous_of_mult k p x HK Hp Hlen Hx Hm) fuel pieces E).
Qed.

(* splitting always succeeds under split_hyps (obj_split_ok), hence so does the round trip *)
Corollary split_append_roundtrip tol (o : obj R) p (k : list R) x fuel :
  split_hyps tol o 0 p k [x] -> length (o_bases o) = 1%nat -> open_knots k p -> (2 <= p)%nat -> (mult k x < p)%nat -> (1 <= fuel)%nat ->
  exists pieces r, @obj_split R NumR fuel tol o 0 [x] = Ok pieces /\ length pieces = 2%nat /\
    @obj_append R NumR tol (nth 0 pieces o) (nth 1 pieces o) = Ok r /\ rejoin_spec tol o p k x r.
Proof.
  intros H Hc Ho Hp Hm Hf. destruct (obj_split_ok tol o 0 p k [x] H fuel Hf) as (pieces & E).
  destruct (split_append_rejoin tol o p k x fuel pieces H Hc Ho Hp Hm E) as (r & Hr & Sp).
  exists pieces, r. split; [exact E|]. split; [apply (split_length tol o 0 p k [x] H fuel pieces E)|]. split; assumption.
Qed.

(* ================================================================================================ *)
(* Part F: the hypotheses are satisfiable *)
Section Example.
Let tol := 1/100.
(* a line in the plane on [0,1] from (0,0) to (1,0), and a line in space on [0,2] from (1,0,0) to (1,1,1): equal orders,
   different dimensions (make_splines_compatible pads the first with a zero coordinate) *)
Let o1 := @mkObj R [mkBasis 2 [0;0;1;1] 0] [[0;0];[1;0]] 2 false.
Let o2 := @mkObj R [mkBasis 2 [0;0;2;2] 0] [[1;0;0];[1;1;1]] 3 false.

Lemma ex_sorted4 (a b c d : R) : a <= b -> b <= c -> c <= d -> sorted (@kn R NumR [a;b;c;d]).
Proof.
  intros H1 H2 H3. apply kn_sorted. cbn [sorted_list nleb NumR].
  repeat (match goal with |- context [Rleb ?u ?v] => destruct (Rleb_spec u v); [|lra] end). reflexivity.
Qed.

Lemma ex_curve1 : clamped_curve tol o1.
Proof.
  assert (Es : @b_start R NumR (mkBasis 2 [0;0;1;1] 0) = 0) by reflexivity.
  assert (Ee : @b_end R NumR (mkBasis 2 [0;0;1;1] 0) = 1) by reflexivity.
  split; [|split; [reflexivity|split; [reflexivity|]]].
  - split; [|split].
    + constructor; [|constructor]. split; [apply ex_sorted4; lra|]. cbn [b_order b_knots]. split; [lia|]. split; [cbn; lia|].
      split; [cbn; lia|]. rewrite Es, Ee. unfold tol. lra.
    + repeat constructor.
    + reflexivity.
  - split; intros i Hi; cbn [nth o_bases o1 b_order] in Hi; destruct i as [|[|i]]; try lia; reflexivity.
Qed.
Lemma ex_curve2 : clamped_curve tol o2.
Proof.
  assert (Es : @b_start R NumR (mkBasis 2 [0;0;2;2] 0) = 0) by reflexivity.
  assert (Ee : @b_end R NumR (mkBasis 2 [0;0;2;2] 0) = 2) by reflexivity.
  split; [|split; [reflexivity|split; [reflexivity|]]].
  - split; [|split].
    + constructor; [|constructor]. split; [apply ex_sorted4; lra|]. cbn [b_order b_knots]. split; [lia|]. split; [cbn; lia|].
      split; [cbn; lia|]. rewrite Es, Ee. unfold tol. lra.
    + repeat constructor.
    + reflexivity.
  - split; intros i Hi; cbn [nth o_bases o2 b_order] in Hi; destruct i as [|[|i]]; try lia; reflexivity.
Qed.

(* Curve.append succeeds on the two lines and the result is the polyline on [0,3] *)
Theorem example_append : exists o, @obj_append R NumR tol o1 o2 = Ok o /\ append_spec tol o1 o2 o.
Proof.
  apply (append_end_to_end_same_order tol o1 o2); [unfold tol; lra|exact ex_curve1|exact ex_curve2|reflexivity|cbn; lia|].
  reflexivity.
Qed.

(* consequence: the joined curve at 5/2 is the second line at 3/2, i.e. the point (1, 3/4, 3/4) *)
Example example_append_value o : @obj_append R NumR tol o1 o2 = Ok o ->
  @obj_eval R NumR tol o [5/2] = @obj_eval R NumR tol o2 [3/2].
Proof.
  intros E. destruct example_append as (o' & E' & Sp). rewrite E in E'. injection E' as <-.
  destruct Sp as (_ & _ & _ & _ & _ & _ & _ & _ & _ & _ & R3). cbv zeta in R3.
  assert (Ee : @b_end R NumR (nth 0 (o_bases o1) dflt_basis) = 1) by reflexivity.
  assert (Es2 : @b_start R NumR (nth 0 (o_bases o2) dflt_basis) = 0) by reflexivity.
  assert (Ee2 : @b_end R NumR (nth 0 (o_bases o2) dflt_basis) = 2) by reflexivity.
  rewrite (R3 (5/2)) by (rewrite Ee, Ee2, Es2; lra). rewrite Ee, Es2.
  replace (5 / 2 - 1 + 0) with (3/2) by field. cbn [o_dim o1 o2 Nat.max Nat.sub]. apply res_map_pad0.
Qed.

(* RE-JOIN: the quadratic curve (order 3) on [0,0,0,1,2,2,2] with four control points, split at the NEW value 1/2 and
   re-joined *)
Let k3 := [0;0;0;1;2;2;2].
Let o3 := @mkObj R [mkBasis 3 k3 0] [[0;0];[1;2];[3;2];[4;0]] 2 false.

Lemma ex_k3_sorted : sorted (@kn R NumR k3).
Proof.
  apply kn_sorted. unfold k3. cbn [sorted_list nleb NumR].
  repeat (match goal with |- context [Rleb ?a ?b] => destruct (Rleb_spec a b); [|lra] end). reflexivity.
Qed.

Lemma ex_split_hyps : split_hyps tol o3 0 3 k3 [1/2].
Proof.
  assert (Est : st 3 k3 = 0) by reflexivity. assert (Een : en 3 k3 = 2) by reflexivity.
  constructor.
  - unfold tol. lra.
  - split; [|split].
    + constructor; [|constructor]. split; [exact ex_k3_sorted|]. cbn [b_order b_knots]. split; [lia|]. split; [cbn; lia|].
      split; [cbn; lia|]. change (@b_end R NumR (mkBasis 3 k3 0)) with (en 3 k3). change (@b_start R NumR (mkBasis 3 k3 0)) with (st 3 k3).
      rewrite Est, Een. unfold tol. lra.
    + repeat constructor.
    + reflexivity.
  - cbn. lia.
  - reflexivity.
  - rewrite Est, Een. unfold gap, tol. cbn [app]. repeat constructor; lra.
  - unfold knot_sep, tol, k3. constructor; [|constructor]; intros v Hv; cbn [In] in Hv;
      repeat (destruct Hv as [<-|Hv]; [lra|]); destruct Hv.
  - unfold mult, k3. constructor; [|constructor]; cbn [count_occ];
      repeat (match goal with |- context [Req_EM_T ?a ?b] => destruct (Req_EM_T a b); [try lra|try lra] end); lia.
Qed.

Theorem example_rejoin : exists pieces r, @obj_split R NumR 1 tol o3 0 [1/2] = Ok pieces /\ length pieces = 2%nat /\
  @obj_append R NumR tol (nth 0 pieces o3) (nth 1 pieces o3) = Ok r /\ rejoin_spec tol o3 3 k3 (1/2) r.
Proof.
  apply (split_append_roundtrip tol o3 3 k3 (1/2) 1 ex_split_hyps); try reflexivity; try lia.
  - split; intros i Hi; destruct i as [|[|[|i]]]; try lia; reflexivity.
  - unfold mult, k3. cbn [count_occ].
    repeat (match goal with |- context [Req_EM_T ?a ?b] => destruct (Req_EM_T a b); [try lra|try lra] end); lia.
Qed.
End Example.

Print Assumptions append_end_to_end.
Print Assumptions append_end_to_end_same_order.
Print Assumptions append_same_order_ok.
Print Assumptions split_append_rejoin.
Print Assumptions split_append_roundtrip.
Print Assumptions example_append.
Print Assumptions example_rejoin.
