(* my_bisect_left / my_bisect_right are correct on sorted knot functions, and the
   span index chosen by evaluate() brackets the parameter on the requested side. *)
From Coq Require Import List Arith Reals Lra Lia Bool ZArith.
From SplipyModel Require Import Spec.BSpline Model.Num Model.BasisDef Model.BasisEval.
Import ListNotations.
Open Scope R_scope.

Lemma mid_bounds lo hi : (lo < hi)%nat -> (lo <= (lo + hi) / 2 < hi)%nat.
Proof.
  intros H. split.
  - apply Nat.div_le_lower_bound; lia.
  - apply Nat.div_lt_upper_bound; lia.
Qed.

Section Bisect.
Variable K : nat -> R.
Hypothesis HK : sorted K.
Variable v : R.

Lemma bisect_right_f_spec fuel : forall lo hi, (lo <= hi)%nat -> (hi - lo < fuel)%nat ->
  let r := @bisect_right_f R NumR fuel K v lo hi in
  (lo <= r <= hi)%nat /\ (forall j, (lo <= j < r)%nat -> K j <= v) /\ (forall j, (r <= j < hi)%nat -> v < K j).
Proof.
  induction fuel as [|f IH]; intros lo hi Hle Hf; [lia|].
  cbn [bisect_right_f]. destruct (Nat.ltb_spec lo hi) as [L|L].
  - pose proof (mid_bounds lo hi L) as Hm. cbv zeta. set (mid := ((lo + hi) / 2)%nat) in *.
    cbn [nltb NumR]. destruct (Rltb_spec v (K mid)) as [C|C].
    + destruct (IH lo mid ltac:(lia) ltac:(lia)) as (A1 & A2 & A3). cbv zeta in *.
      split; [lia|]. split; [exact A2|].
      intros j Hj. destruct (Nat.lt_ge_cases j mid); [apply A3; lia|].
      pose proof (HK mid j ltac:(lia)). lra.
    + destruct (IH (S mid) hi ltac:(lia) ltac:(lia)) as (A1 & A2 & A3). cbv zeta in *.
      split; [lia|]. split; [|exact A3].
      intros j Hj. destruct (Nat.lt_ge_cases mid j); [apply A2; lia|].
      pose proof (HK j mid ltac:(lia)). lra.
  - cbv zeta. split; [lia|]. split; intros; lia.
Qed.

Lemma bisect_left_f_spec fuel : forall lo hi, (lo <= hi)%nat -> (hi - lo < fuel)%nat ->
  let r := @bisect_left_f R NumR fuel K v lo hi in
  (lo <= r <= hi)%nat /\ (forall j, (lo <= j < r)%nat -> K j < v) /\ (forall j, (r <= j < hi)%nat -> v <= K j).
Proof.
  induction fuel as [|f IH]; intros lo hi Hle Hf; [lia|].
  cbn [bisect_left_f]. destruct (Nat.ltb_spec lo hi) as [L|L].
  - pose proof (mid_bounds lo hi L) as Hm. cbv zeta. set (mid := ((lo + hi) / 2)%nat) in *.
    cbn [nltb NumR]. destruct (Rltb_spec (K mid) v) as [C|C].
    + destruct (IH (S mid) hi ltac:(lia) ltac:(lia)) as (A1 & A2 & A3). cbv zeta in *.
      split; [lia|]. split; [|exact A3].
      intros j Hj. destruct (Nat.lt_ge_cases mid j); [apply A2; lia|].
      pose proof (HK j mid ltac:(lia)). lra.
    + destruct (IH lo mid ltac:(lia) ltac:(lia)) as (A1 & A2 & A3). cbv zeta in *.
      split; [lia|]. split; [exact A2|].
      intros j Hj. destruct (Nat.lt_ge_cases j mid); [apply A3; lia|].
      pose proof (HK mid j ltac:(lia)). lra.
  - cbv zeta. split; [lia|]. split; intros; lia.
Qed.

Lemma bisect_right_spec hi :
  let r := @bisect_right R NumR K v hi in
  (r <= hi)%nat /\ (forall j, (j < r)%nat -> K j <= v) /\ (forall j, (r <= j < hi)%nat -> v < K j).
Proof.
  unfold bisect_right. destruct (bisect_right_f_spec (S hi) 0 hi ltac:(lia) ltac:(lia)) as (A & B & C).
  cbv zeta in *. split; [lia|]. split; [intros; apply B; lia|exact C].
Qed.
Lemma bisect_left_spec hi :
  let r := @bisect_left R NumR K v hi in
  (r <= hi)%nat /\ (forall j, (j < r)%nat -> K j < v) /\ (forall j, (r <= j < hi)%nat -> v <= K j).
Proof.
  unfold bisect_left. destruct (bisect_left_f_spec (S hi) 0 hi ltac:(lia) ltac:(lia)) as (A & B & C).
  cbv zeta in *. split; [lia|]. split; [intros; apply B; lia|exact C].
Qed.
End Bisect.

(* The span index of evaluate(): for start <= t <= end, t < end on the right side and
   start < t on the left side, mu brackets t on that side and p <= mu <= n_all. *)
Section Span.
Variable k : list R.
Variable p : nat.
Hypothesis HK : sorted (kn k).
Hypothesis Hp : (1 <= p)%nat.
Hypothesis Hlen : (2 * p <= length k)%nat.
Let K := @kn R NumR k.
Let n_all := (length k - p)%nat.

Theorem span_search_correct (side : bool) (t : R) :
  K (p - 1)%nat <= t <= K n_all ->
  (if side then t < K n_all else K (p - 1)%nat < t) ->
  let mu := @span_index R NumR k p side t in
  (p <= mu <= n_all)%nat /\ in_span side (K (mu - 1)%nat) (K mu) t.
Proof.
  intros Ht Hs. unfold span_index. cbv zeta. fold K. fold n_all.
  destruct side.
  - destruct (bisect_right_spec K HK t (n_all + p)) as (A & Bm & Cm). cbv zeta in *.
    set (r := @bisect_right R NumR K t (n_all + p)) in *.
    assert (R1 : (r <= n_all)%nat).
    { destruct (Nat.le_gt_cases r n_all); [assumption|]. pose proof (Bm n_all ltac:(lia)). lra. }
    assert (R2 : (p <= r)%nat).
    { destruct (Nat.le_gt_cases p r); [assumption|]. pose proof (Cm (p-1)%nat ltac:(unfold n_all; lia)). lra. }
    rewrite Nat.min_l by exact R1. split; [lia|]. unfold in_span.
    split; [apply Bm; lia|apply Cm; unfold n_all in *; lia].
  - destruct (bisect_left_spec K HK t (n_all + p)) as (A & Bm & Cm). cbv zeta in *.
    set (r := @bisect_left R NumR K t (n_all + p)) in *.
    assert (R1 : (r <= n_all)%nat).
    { destruct (Nat.le_gt_cases r n_all); [assumption|]. pose proof (Bm n_all ltac:(lia)). lra. }
    assert (R2 : (p <= r)%nat).
    { destruct (Nat.le_gt_cases p r); [assumption|]. pose proof (Cm (p-1)%nat ltac:(unfold n_all; lia)). lra. }
    rewrite Nat.min_l by exact R1. split; [lia|]. unfold in_span.
    split; [apply Bm; lia|apply Cm; unfold n_all in *; lia].
Qed.
End Span.
