(* C14: lofting passes through every input section, in the order given (surface_factory.loft, volume_factory.loft).
   Tools: a row vector times a matrix ([rowmat]) as the "old row" of the lifting lemma tsum_apply_dir, so that a chain
   of apply_dir steps is undone one direction at a time. *)
From Coq Require Import List Arith Reals Lra Lia Bool ZArith.
From SplipyModel Require Import Spec.BSpline Model.Num Model.BasisDef Model.BasisEval Model.Tensor Model.Obj Model.KnotInsert Model.Solve
  Model.Interp Model.Affine Model.Loft
  Proofs.EvalConsequences Proofs.TensorLemmas Proofs.TensorApply Proofs.SnapSpec Proofs.ObjEval Proofs.AffineProofs Proofs.OrderProofs
  Proofs.LinAlg Proofs.InterpProofs.
Import ListNotations.
Open Scope R_scope.

(* ---------- row vector times matrix ---------- *)
Definition rowmat (N : list R) (C : list (list R)) : list R := nth 0 (@matmul R NumR [N] C) [].

Lemma matmul_single N C : @matmul R NumR [N] C = [rowmat N C].
Proof. unfold rowmat, matmul. cbv zeta. cbn [map nth]. reflexivity. Qed.

Lemma mat_single n N : length N = n -> mat 1 n [N].
Proof. intros H. split; [reflexivity|]. constructor; [exact H|constructor]. Qed.

Lemma rowmat_length r n N C : mat r n C -> length N = r -> (0 < r)%nat -> length (rowmat N C) = n.
Proof.
  intros HC HN Hr. pose proof (matmul_mat 1 r n [N] C (mat_single r N HN) HC Hr) as M.
  unfold rowmat. apply (mat_row 1 n _ 0 M). lia.
Qed.

Lemma rowmat_nth r n N C j : mat r n C -> length N = r -> (0 < r)%nat -> (j < n)%nat ->
  nth j (rowmat N C) 0 = sumf (fun l => nth l N 0 * ment C l j) 0 r.
Proof.
  intros HC HN Hr Hj.
  pose proof (matmul_ent 1 r n [N] C 0 j (mat_single r N HN) HC Hr ltac:(lia) Hj) as E.
  unfold ment at 1 in E. fold (rowmat N C) in E. rewrite E. apply sumf_ext. intros l _. unfold ment. cbn [nth]. reflexivity.
Qed.

Lemma rowmat_row_rel r n N' C : mat r n C -> length N' = r -> (0 < r)%nat -> row_rel (rowmat N' C) N' C.
Proof.
  intros HC HN Hr. unfold row_rel. rewrite (rowmat_length r n N' C HC HN Hr). destruct HC as [LC FC].
  split; [lia|]. split; [exact FC|]. intros j Hj. rewrite (rowmat_nth r n) by (try assumption; split; assumption).
  rewrite HN. reflexivity.
Qed.

Lemma rowmat_assoc r n m N A B : length N = r -> mat r n A -> mat n m B -> (0 < r)%nat -> (0 < n)%nat ->
  rowmat (rowmat N A) B = rowmat N (@matmul R NumR A B).
Proof.
  intros HN HA HB Hr Hn.
  pose proof (matmul_assoc 1 r n m [N] A B (mat_single r N HN) HA HB Hr Hn) as E.
  rewrite !matmul_single in E. injection E as E. exact E.
Qed.

Lemma rowmat_ident n N : length N = n -> (0 < n)%nat -> rowmat N (@ident R NumR n) = N.
Proof.
  intros HN Hn. apply (nth_ext _ _ 0 0).
  - rewrite (rowmat_length n n N _ (ident_mat n) HN Hn). lia.
  - intros j Hj. rewrite (rowmat_length n n N _ (ident_mat n) HN Hn) in Hj.
    rewrite (rowmat_nth n n N _ j (ident_mat n) HN Hn Hj).
    rewrite (sumf_ext _ (fun l => (if (l =? j)%nat then 1 else 0) * nth l N 0)).
    + apply (sumf_unit (fun l => nth l N 0) j n Hj).
    + intros l Hl. rewrite ident_ent by lia. ring.
Qed.

Lemma rowmat_lc r n N X c : mat r n X -> length N = r -> (0 < r)%nat -> (c < n)%nat ->
  nth c (rowmat N X) 0 = lc c N X.
Proof.
  intros HX HN Hr Hc. rewrite (rowmat_nth r n N X c HX HN Hr Hc).
  destruct HX as [LX FX]. rewrite lc_rowsum by lia. rewrite HN. reflexivity.
Qed.

(* one step of the chain: the new row N' in direction d against the net transformed by C equals the row N' C against the old net *)
Lemma tsum_step dim c (C : list (list R)) r n (rows : list (list R)) d (cps : list (list R)) :
  (d < length rows)%nat -> (c < dim)%nat -> mat r n C -> (0 < r)%nat -> length (nth d rows []) = r ->
  let old := @upd (list R) rows d (rowmat (nth d rows []) C) in
  net_ok dim old cps -> (0 < prodl (map (@length R) old))%nat ->
  tsum rows (cnet dim c (@apply_dir R NumR dim (map (@length R) old) d C cps)) = tsum old (cnet dim c cps).
Proof.
  intros Hd Hc HC Hr HN old Hnet Hpos.
  assert (Eupd : forall (l : list (list R)) i x, (i < length l)%nat -> @upd (list R) (@upd (list R) l i x) i (nth i l []) = l).
  { induction l as [|a l IH]; intros i x Hi; [cbn in Hi; lia|]. destruct i; cbn [upd nth]; [reflexivity|]. f_equal. apply IH. cbn in Hi. lia. }
  assert (Enth : forall (l : list (list R)) i x, (i < length l)%nat -> nth i (@upd (list R) l i x) [] = x).
  { induction l as [|a l IH]; intros i x Hi; [cbn in Hi; lia|]. destruct i; cbn [upd nth]; [reflexivity|]. apply IH. cbn in Hi. lia. }
  assert (Elen : forall (l : list (list R)) i x, length (@upd (list R) l i x) = length l).
  { induction l as [|a l IH]; intros i x; [reflexivity|]. destruct i; cbn [upd length]; [reflexivity|]. f_equal. apply IH. }
  pose proof (tsum_apply_dir dim c C old d (nth d rows []) cps) as T.
  assert (E : @upd (list R) old d (nth d rows []) = rows) by (unfold old; apply Eupd; exact Hd).
  rewrite E in T. apply T; try assumption.
  - unfold old. rewrite Elen. exact Hd.
  - unfold old. rewrite Enth by exact Hd. apply (rowmat_row_rel r n); assumption.
Qed.

Lemma basis_row_length tol (b : basis R) d t : length (@basis_row R NumR tol b d true t) = @b_nfun R b.
Proof.
  pose proof (colloc_mat tol b d [t]) as M. unfold basis_row. change (@basis_evaluate R NumR (b_knots b) (b_order b) (b_per1 b) tol d true [t]) with (@colloc R NumR tol b d [t]).
  destruct (@colloc R NumR tol b d [t]) as [|r0 rest] eqn:E; [destruct M as [L _]; cbn in L; lia|].
  cbn [hd]. apply (mat_row 1 _ _ 0 M). cbn. lia.
Qed.

(* entries of the stacked sample net *)
Lemma loft_points_length m (X : list (list (list R))) : length (@loft_points R m X) = (m * length X)%nat.
Proof.
  unfold loft_points. rewrite (length_concat_uniform _ (length X)).
  - rewrite map_length, seq_length. reflexivity.
  - apply Forall_forall. intros l Hl. apply in_map_iff in Hl. destruct Hl as (a & <- & _). apply map_length.
Qed.
Lemma loft_points_nth m (X : list (list (list R))) a j d : (a < m)%nat -> (j < length X)%nat ->
  nth (a * length X + j) (@loft_points R m X) d = nth a (nth j X []) [].
Proof.
  intros Ha Hj. unfold loft_points. rewrite (nth_concat_uniform _ (length X) a j).
  - rewrite (nth_map_gen _ (seq 0 m) a [] 0%nat) by (rewrite seq_length; exact Ha). rewrite seq_nth by exact Ha. cbn [Nat.add].
    rewrite (nth_map_gen _ X j d []) by exact Hj. reflexivity.
  - apply Forall_forall. intros l Hl. apply in_map_iff in Hl. destruct Hl as (a' & <- & _). apply map_length.
  - exact Hj.
Qed.
Lemma loft_points_Forall dim m (X : list (list (list R))) : Forall (fun Xi => mat m dim Xi) X ->
  Forall (fun v => length v = dim) (@loft_points R m X).
Proof.
  intros HX. unfold loft_points. apply Forall_concat. apply Forall_forall. intros l Hl. apply in_map_iff in Hl.
  destruct Hl as (a & <- & Ha). apply in_seq in Ha. apply Forall_forall. intros p Hp. apply in_map_iff in Hp.
  destruct Hp as (Xi & <- & HXi). rewrite Forall_forall in HX. apply (mat_row m dim Xi a (HX Xi HXi)). lia.
Qed.

(* ---------- the lofting basis ---------- *)
Lemma loft_basis_nfun n (dist : list R) : length dist = n -> (3 <= n)%nat -> @b_nfun R (@loft_basis R NumR n dist) = n.
Proof.
  intros Hd Hn. unfold loft_basis. destruct (Nat.eqb_spec n 3) as [->|Hne]; [reflexivity|].
  unfold b_nfun, loft_knots. cbn [b_knots b_order b_per1]. rewrite !app_length, !repeat_length, firstn_length, skipn_length. lia.
Qed.
Lemma greville_all_length (b : basis R) : length (@greville_all R NumR b) = @b_nfun R b.
Proof. unfold greville_all. rewrite map_length, seq_length. reflexivity. Qed.
Lemma loft_params_length n (dist : list R) : length dist = n -> (3 <= n)%nat -> length (@loft_params R NumR n dist) = n.
Proof.
  intros Hd Hn. unfold loft_params. destruct (Nat.eqb_spec n 3) as [->|Hne]; [|exact Hd].
  rewrite greville_all_length. reflexivity.
Qed.

Section Loft.
Variables (tol : R) (curves : list (obj R)) (dist : list R) (S : obj R).
Hypothesis Hres : @loft_core R NumR tol curves dist = Ok S.
Variables (b1 : basis R) (rat : bool) (dim : nat).
Local Notation n := (length curves).
Local Notation m := (@b_nfun R b1).
Local Notation nc := (dim + (if rat then 1 else 0))%nat.
(* the sections are identical objects: same basis, same kind, m control points each *)
Hypothesis Hsec : forall c, In c curves -> o_bases c = [b1] /\ o_dim c = dim /\ o_rat c = rat /\ mat m nc (o_cps c).
Hypothesis Hm : (0 < m)%nat.
Hypothesis Hdist : length dist = n.
Local Notation b2 := (@loft_basis R NumR n dist).
Local Notation v := (@loft_params R NumR n dist).
Local Notation Nu := (@colloc R NumR tol b1 0 (@greville_all R NumR b1)).
Local Notation Nv := (@colloc R NumR tol b2 0 v).
Local Notation X := (map (fun c => @matmul R NumR Nu (o_cps c)) curves).

Lemma loft_n3 : (3 <= n)%nat.
Proof. unfold loft_core in Hres. cbv zeta in Hres. destruct (Nat.ltb_spec n 3); [discriminate|lia]. Qed.

Lemma loft_hd : In (hd (@dflt_obj R) curves) curves.
Proof. pose proof loft_n3. destruct curves; [cbn in *; lia|left; reflexivity]. Qed.

Lemma loft_unpack : exists Iu Iv, @inverse R NumR Nu = Ok Iu /\ @inverse R NumR Nv = Ok Iv /\
  S = mkObj [b1; b2] (@apply_dir R NumR nc [m; n] 0 Iu (@apply_dir R NumR nc [m; n] 1 Iv (@loft_points R m X))) dim rat.
Proof.
  pose proof loft_n3 as H3. destruct (Hsec _ loft_hd) as (E1 & E2 & E3 & _).
  unfold loft_core in Hres. cbv zeta in Hres. destruct (Nat.ltb_spec n 3); [lia|].
  unfold o_ncomp in Hres. rewrite E1, E2, E3 in Hres. cbn [hd] in Hres.
  destruct (@inverse R NumR Nu) as [Iu|e]; [|discriminate].
  destruct (@inverse R NumR Nv) as [Iv|e]; [|discriminate].
  exists Iu, Iv. split; [reflexivity|split; [reflexivity|]]. injection Hres as <-. reflexivity.
Qed.
Hypothesis Hsorted : sorted (kn (b_knots b2)).
Hypothesis Htol : 0 < tol.

(* tensor-product structure: for ANY row of u-values, the double sum with the collocation row of section j in the lofting
   direction is the section curve's own sum *)
Lemma loft_core_rows Ru j c : length Ru = m -> (j < n)%nat -> (c < nc)%nat ->
  coord c (@teval R NumR nc [Ru; nth j Nv []] (o_cps S)) = coord c (@teval R NumR nc [Ru] (o_cps (nth j curves (@dflt_obj R)))).
Proof.
  intros HRu Hj Hc. pose proof loft_n3 as H3.
  destruct loft_unpack as (Iu & Iv & EU & EV & ->). cbn [o_cps].
  assert (Lv : length v = n) by (apply loft_params_length; assumption).
  assert (Nf2 : @b_nfun R b2 = n) by (apply loft_basis_nfun; assumption).
  pose proof (colloc_mat tol b1 0 (@greville_all R NumR b1)) as HNu. rewrite greville_all_length in HNu.
  pose proof (colloc_mat tol b2 0 v) as HNv. rewrite Lv, Nf2 in HNv.
  assert (LU : length Nu = m) by (destruct HNu; assumption). assert (LV : length Nv = n) by (destruct HNv; assumption).
  apply inverse_spec in EU. rewrite LU in EU. destruct EU as (_ & EU2 & HIu).
  apply inverse_spec in EV. rewrite LV in EV. destruct EV as (EV1 & _ & HIv).
  set (cj := nth j curves (@dflt_obj R)).
  assert (Hcj : In cj curves) by (apply nth_In; exact Hj).
  destruct (Hsec _ Hcj) as (_ & _ & _ & Hcps).
  assert (HX : Forall (fun Xi => mat m nc Xi) X).
  { apply Forall_forall. intros Xi HXi. apply in_map_iff in HXi. destruct HXi as (c' & <- & Hc').
    destruct (Hsec _ Hc') as (_ & _ & _ & Hc'cps). apply (matmul_mat m m nc); assumption. }
  assert (LXs : length X = n) by apply map_length.
  set (x := @loft_points R m X).
  assert (Lx : length x = (m * n)%nat) by (unfold x; rewrite loft_points_length, LXs; reflexivity).
  assert (Fx : Forall (fun p => length p = nc) x) by (apply (loft_points_Forall nc m X HX)).
  set (x1 := @apply_dir R NumR nc [m; n] 1 Iv x).
  assert (Lx1 : length x1 = (m * n)%nat).
  { unfold x1. rewrite length_apply_dir; [|cbn; lia|cbn [prodl fold_right]; lia|cbn [prodl fold_right]; nia].
    destruct HIv as [LI _]. rewrite LI. cbn [upd prodl fold_right]. lia. }
  assert (Fx1 : Forall (fun p => length p = nc) x1) by (apply Forall_apply_dir; exact Fx).
  set (x2 := @apply_dir R NumR nc [m; n] 0 Iu x1).
  assert (Lx2 : length x2 = (m * n)%nat).
  { unfold x2. rewrite length_apply_dir; [|cbn; lia|cbn [prodl fold_right]; lia|cbn [prodl fold_right]; nia].
    destruct HIu as [LI _]. rewrite LI. cbn [upd prodl fold_right]. lia. }
  assert (Fx2 : Forall (fun p => length p = nc) x2) by (apply Forall_apply_dir; exact Fx1).
  assert (RV : length (nth j Nv []) = n) by (apply (mat_row n n); assumption).
  set (N0 := rowmat Ru Iu).
  assert (LN0 : length N0 = m) by (apply (rowmat_length m m); assumption).
  rewrite teval_tsum; [|exact Hc|split; [exact Fx2|rewrite Lx2; cbn [map prodl fold_right length]; rewrite HRu, RV; lia]].
  (* direction 0: Ru against Iu x1  =  (Ru Iu) against x1 *)
  pose proof (tsum_step nc c Iu m m [Ru; nth j Nv []] 0 x1) as T0.
  cbn [map nth upd length] in T0. fold N0 in T0. rewrite LN0, RV in T0. fold x2 in T0.
  rewrite T0; clear T0; [|lia|exact Hc|exact HIu|exact Hm|exact HRu
     |split; [exact Fx1|rewrite Lx1; cbn [map prodl fold_right length]; rewrite ?LN0, ?RV; lia]
     |cbn [map prodl fold_right length]; rewrite ?LN0, ?RV; nia].
  (* direction 1: the collocation row j against Iv x = the unit row j against x *)
  pose proof (tsum_apply_dir nc c Iv [N0; unit_row n j] 1 (nth j Nv []) x) as T1.
  cbn [map nth upd length] in T1. rewrite unit_row_length, LN0 in T1. fold x1 in T1.
  rewrite T1; clear T1; [|lia|exact Hc|split; [exact Fx|rewrite Lx; cbn [map prodl fold_right length]; rewrite ?unit_row_length, ?LN0; lia]
     |cbn [map prodl fold_right length]; rewrite ?unit_row_length, ?LN0; nia|apply inverse_row_rel; try assumption; lia].
  cbn [tsum map prodl fold_right]. rewrite unit_row_length.
  rewrite (lcf_ext N0 _ (fun a => ment (@matmul R NumR Nu (o_cps cj)) a c)).
  2:{ intros a Ha. rewrite LN0 in Ha. rewrite lcf_unit by exact Hj. unfold cnet, x.
      replace (a * (n * 1) + (j * 1 + 0))%nat with (a * length X + j)%nat by (rewrite LXs; lia).
      rewrite loft_points_nth by (rewrite ?LXs; assumption).
      rewrite (nth_map_gen _ curves j [] (@dflt_obj R)) by exact Hj. reflexivity. }
  (* matrix algebra: (Ru Iu) (Nu cps_j) = Ru cps_j *)
  assert (HM : mat m nc (@matmul R NumR Nu (o_cps cj))) by (apply (matmul_mat m m nc); assumption).
  unfold lcf. rewrite LN0. rewrite <- (rowmat_nth m nc N0 _ c HM LN0 Hm Hc).
  unfold N0. rewrite (rowmat_assoc m m nc Ru Iu _ HRu HIu HM Hm Hm).
  rewrite <- (matmul_assoc m m m nc Iu Nu (o_cps cj) HIu HNu Hcps Hm Hm). rewrite EU2.
  rewrite (matmul_ident_l m nc _ Hcps Hm).
  rewrite (rowmat_lc m nc Ru _ c Hcps HRu Hm Hc).
  destruct Hcps as [Lc Fc]. rewrite teval_curve; [reflexivity|exact Fc|lia|exact Hc].
Qed.
Lemma loft_net : Forall (fun p => length p = nc) (o_cps S) /\ length (o_cps S) = (m * n)%nat.
Proof.
  pose proof loft_n3 as H3.
  destruct loft_unpack as (Iu & Iv & EU & EV & ->). cbn [o_cps].
  assert (Lv : length v = n) by (apply loft_params_length; assumption).
  assert (Nf2 : @b_nfun R b2 = n) by (apply loft_basis_nfun; assumption).
  pose proof (colloc_mat tol b1 0 (@greville_all R NumR b1)) as HNu. rewrite greville_all_length in HNu.
  pose proof (colloc_mat tol b2 0 v) as HNv. rewrite Lv, Nf2 in HNv.
  assert (LU : length Nu = m) by (destruct HNu; assumption). assert (LV : length Nv = n) by (destruct HNv; assumption).
  apply inverse_spec in EU. rewrite LU in EU. destruct EU as (_ & _ & HIu).
  apply inverse_spec in EV. rewrite LV in EV. destruct EV as (_ & _ & HIv).
  assert (HX : Forall (fun Xi => mat m nc Xi) X).
  { apply Forall_forall. intros Xi HXi. apply in_map_iff in HXi. destruct HXi as (c' & <- & Hc').
    destruct (Hsec _ Hc') as (_ & _ & _ & Hc'cps). apply (matmul_mat m m nc); assumption. }
  assert (LXs : length X = n) by apply map_length.
  set (x := @loft_points R m X).
  assert (Lx : length x = (m * n)%nat) by (unfold x; rewrite loft_points_length, LXs; reflexivity).
  assert (Fx : Forall (fun p => length p = nc) x) by (apply (loft_points_Forall nc m X HX)).
  set (x1 := @apply_dir R NumR nc [m; n] 1 Iv x).
  assert (Lx1 : length x1 = (m * n)%nat).
  { unfold x1. rewrite length_apply_dir; [|cbn; lia|cbn [prodl fold_right]; lia|cbn [prodl fold_right]; nia].
    destruct HIv as [LI _]. rewrite LI. cbn [upd prodl fold_right]. lia. }
  split; [apply Forall_apply_dir, Forall_apply_dir; exact Fx|].
  rewrite length_apply_dir; [|cbn; lia|cbn [prodl fold_right]; lia|cbn [prodl fold_right]; nia].
  destruct HIu as [LI _]. rewrite LI. cbn [upd prodl fold_right]. lia.
Qed.

(* (1) the lofted surface evaluated at (u, v_j) IS section j evaluated at u: every u, every section, in the order given
   (for rational sections the homogeneous sums agree component by component, hence the projected points) *)
Theorem loft_passes_through_sections j u vS : (j < n)%nat ->
  @obj_eval R NumR tol S [u; nth j v 0] = Ok vS -> @obj_eval R NumR tol (nth j curves (@dflt_obj R)) [u] = Ok vS.
Proof.
  intros Hj Hev. pose proof loft_n3 as H3. destruct loft_net as [FS LS].
  destruct loft_unpack as (Iu & Iv & _ & _ & ES).
  assert (EB : o_bases S = [b1; b2]) by (rewrite ES; reflexivity).
  assert (ER : o_rat S = rat) by (rewrite ES; reflexivity).
  assert (ED : o_dim S = dim) by (rewrite ES; reflexivity).
  clear ES Iu Iv.
  assert (Lv : length v = n) by (apply loft_params_length; assumption).
  set (cj := nth j curves (@dflt_obj R)).
  assert (Hcj : In cj curves) by (apply nth_In; exact Hj).
  destruct (Hsec _ Hcj) as (Eb & Ed & Er & Hcps).
  unfold obj_eval in Hev |- *. rewrite EB in Hev. rewrite Eb. cbn [validate hd tl] in Hev |- *.
  destruct (@validate1 R NumR tol b1 u) as [t1|e]; [|discriminate].
  destruct (@validate1 R NumR tol b2 (nth j v 0)) as [t2|e] eqn:EV2; [|discriminate].
  assert (Et2 : t2 = @snap1 R NumR (b_knots b2) tol (nth j v 0)).
  { unfold validate1 in EV2. cbv zeta in EV2. destruct (_ && _); [discriminate|]. injection EV2 as <-. reflexivity. }
  injection Hev as <-. f_equal. rewrite ER, ED, Er, Ed.
  assert (Emain : @eval_h R NumR tol cj [] [] [t1] = @eval_h R NumR tol S [] [] [t1; t2]).
  { unfold eval_h, rows_at, o_ncomp. rewrite EB, Eb, ER, ED, Er, Ed. cbn [length seq map nth].
    set (Ru := @basis_row R NumR tol b1 0 true t1).
    assert (HRu : length Ru = m) by apply basis_row_length.
    rewrite Et2. rewrite <- (colloc_row tol b2 0 v j Hsorted Htol) by lia.
    assert (Nf2 : @b_nfun R b2 = n) by (apply loft_basis_nfun; assumption).
    pose proof (colloc_mat tol b2 0 v) as HNv. rewrite Lv, Nf2 in HNv.
    assert (RV : length (nth j Nv []) = n) by (apply (mat_row n n); assumption).
    destruct Hcps as [Lc Fc].
    assert (OK1 : net_ok nc [Ru] (o_cps cj)) by (split; [exact Fc|cbn [map prodl fold_right length]; lia]).
    assert (OK2 : net_ok nc [Ru; nth j Nv []] (o_cps S)) by (split; [exact FS|cbn [map prodl fold_right length]; rewrite HRu, RV; lia]).
    apply (nth_ext _ _ 0 0).
    - rewrite !teval_length by assumption. reflexivity.
    - intros c Hc. rewrite teval_length in Hc by assumption.
      symmetry. apply loft_core_rows; assumption. }
  rewrite Emain. reflexivity.
Qed.
End Loft.

(* surface_factory.loft itself: the sections are first padded / cut to three physical coordinates (set_dimension(3)) *)
Lemma pt_set_dim_length dim newdim rat w (p : list R) : length p = (dim + w)%nat ->
  length (@pt_set_dim R NumR dim newdim rat p) = (newdim + w)%nat.
Proof.
  intros Hp. unfold pt_set_dim. cbv zeta. destruct (Nat.leb_spec dim newdim).
  - rewrite !app_length, firstn_length, repeat_length, skipn_length. lia.
  - rewrite !app_length, !firstn_length, skipn_length. lia.
Qed.

Theorem loft_set_dimension_passes_through_sections tol (curves : list (obj R)) dist S (b1 : basis R) rat dim j u vS :
  @loft R NumR tol curves dist = Ok S ->
  (forall c, In c curves -> o_bases c = [b1] /\ o_dim c = dim /\ o_rat c = rat /\
                            mat (@b_nfun R b1) (dim + (if rat then 1 else 0)) (o_cps c)) ->
  (0 < @b_nfun R b1)%nat -> length dist = length curves ->
  sorted (kn (b_knots (@loft_basis R NumR (length curves) dist))) -> 0 < tol -> (j < length curves)%nat ->
  @obj_eval R NumR tol S [u; nth j (@loft_params R NumR (length curves) dist) 0] = Ok vS ->
  @obj_eval R NumR tol (@obj_set_dimension R NumR (nth j curves (@dflt_obj R)) 3) [u] = Ok vS.
Proof.
  intros Hres Hsec Hm Hd Hs Htol Hj Hev. unfold loft in Hres.
  set (cs := map (fun c => @obj_set_dimension R NumR c 3) curves) in *.
  assert (Lcs : length cs = length curves) by apply map_length.
  assert (Hsec' : forall c, In c cs -> o_bases c = [b1] /\ o_dim c = 3%nat /\ o_rat c = rat /\
                                       mat (@b_nfun R b1) (3 + (if rat then 1 else 0)) (o_cps c)).
  { intros c' Hc'. apply in_map_iff in Hc'. destruct Hc' as (c & <- & Hc). destruct (Hsec c Hc) as (E1 & E2 & E3 & [L Fo]).
    unfold obj_set_dimension. cbn [o_bases o_dim o_rat o_cps]. repeat split; try assumption.
    - rewrite map_length. exact L.
    - apply Forall_forall. intros p Hp. apply in_map_iff in Hp. destruct Hp as (p0 & <- & Hp0).
      rewrite Forall_forall in Fo. rewrite E2. apply pt_set_dim_length. apply Fo. exact Hp0. }
  rewrite <- Lcs in Hd, Hs, Hj, Hev.
  pose proof (loft_passes_through_sections tol cs dist S Hres b1 rat 3%nat Hsec' Hm Hd Hs Htol j u vS Hj Hev) as P.
  unfold cs in P at 1. rewrite (nth_map_gen _ curves j (@dflt_obj R) (@dflt_obj R)) in P by lia. exact P.
Qed.

(* ---------- a trailing unit row selects a slice of the net ---------- *)
Lemma prodl_app a b : prodl (a ++ b) = (prodl a * prodl b)%nat.
Proof.
  induction a as [|x a IH]; [cbn [app]; change (prodl []) with 1%nat; lia|].
  cbn [app]. change (prodl (x :: a ++ b)) with (x * prodl (a ++ b))%nat. change (prodl (x :: a)) with (x * prodl a)%nat. rewrite IH. ring.
Qed.

Lemma tsum_unit_last rows n j : (j < n)%nat -> forall f,
  tsum (rows ++ [unit_row n j]) f = tsum rows (fun p => f (p * n + j)%nat).
Proof.
  intros Hj. induction rows as [|N rest IH]; intros f.
  - cbn [app tsum map prodl fold_right]. rewrite lcf_unit by exact Hj. f_equal. lia.
  - cbn [app tsum]. cbv zeta. apply lcf_ext. intros i _. rewrite IH. apply tsum_ext. intros s _.
    f_equal. rewrite map_app, prodl_app. cbn [map prodl fold_right]. rewrite unit_row_length. ring.
Qed.

Lemma upd_nth_id (l : list nat) d : @upd nat l d (nth d l 0%nat) = l.
Proof. revert d; induction l as [|a l IH]; intros d; [reflexivity|]. destruct d; cbn [upd nth]; [reflexivity|]. f_equal. apply IH. Qed.

(* a square matrix keeps the shape of the net *)
Lemma apply_dir_sq dim (C : list (list R)) shape d cps : (d < length shape)%nat -> (0 < prodl shape)%nat ->
  mat (nth d shape 0%nat) (nth d shape 0%nat) C ->
  Forall (fun p => length p = dim) cps /\ length cps = prodl shape ->
  Forall (fun p => length p = dim) (@apply_dir R NumR dim shape d C cps) /\ length (@apply_dir R NumR dim shape d C cps) = prodl shape.
Proof.
  intros Hd Hpos [LC _] [Fc Lc]. split; [apply Forall_apply_dir; exact Fc|].
  rewrite length_apply_dir by assumption. rewrite LC, upd_nth_id. reflexivity.
Qed.

(* ---------- volume_factory.loft ---------- *)
Section VLoft.
Variables (tol : R) (surfs : list (obj R)) (dist : list R) (S : obj R).
Hypothesis Hres : @vloft_core R NumR tol surfs dist = Ok S.
Variables (b1 b2 : basis R) (rat : bool) (dim : nat).
Local Notation n := (length surfs).
Local Notation m1 := (@b_nfun R b1).
Local Notation m2 := (@b_nfun R b2).
Local Notation nc := (dim + (if rat then 1 else 0))%nat.
Hypothesis Hsec : forall s, In s surfs -> o_bases s = [b1; b2] /\ o_dim s = dim /\ o_rat s = rat /\ mat (m1 * m2) nc (o_cps s).
Hypothesis Hm1 : (0 < m1)%nat.
Hypothesis Hm2 : (0 < m2)%nat.
Hypothesis Hdist : length dist = n.
Local Notation b3 := (@loft_basis R NumR n dist).
Local Notation w := (@loft_params R NumR n dist).
Local Notation Nu := (@colloc R NumR tol b1 0 (@greville_all R NumR b1)).
Local Notation Nv := (@colloc R NumR tol b2 0 (@greville_all R NumR b2)).
Local Notation Nw := (@colloc R NumR tol b3 0 w).
Local Notation smp := (fun s : obj R => @apply_dir R NumR nc [m1; m2] 0 Nu (@apply_dir R NumR nc [m1; m2] 1 Nv (o_cps s))).
Local Notation X := (map smp surfs).

Lemma vloft_n3 : (3 <= n)%nat.
Proof. unfold vloft_core in Hres. cbv zeta in Hres. destruct (Nat.ltb_spec n 3); [discriminate|lia]. Qed.

Lemma vloft_hd : In (hd (@dflt_obj R) surfs) surfs.
Proof. pose proof vloft_n3. destruct surfs; [cbn in *; lia|left; reflexivity]. Qed.

Lemma vloft_unpack : exists Iu Iv Iw, @inverse R NumR Nu = Ok Iu /\ @inverse R NumR Nv = Ok Iv /\ @inverse R NumR Nw = Ok Iw /\
  S = mkObj [b1; b2; b3] (@apply_dir R NumR nc [m1; m2; n] 0 Iu (@apply_dir R NumR nc [m1; m2; n] 1 Iv
        (@apply_dir R NumR nc [m1; m2; n] 2 Iw (@loft_points R (m1 * m2) X)))) dim rat.
Proof.
  pose proof vloft_n3 as H3. destruct (Hsec _ vloft_hd) as (E1 & E2 & E3 & _).
  unfold vloft_core in Hres. cbv zeta in Hres. destruct (Nat.ltb_spec n 3); [lia|].
  unfold o_ncomp in Hres. rewrite E1, E2, E3 in Hres. cbn [nth] in Hres.
  destruct (@inverse R NumR Nu) as [Iu|e]; [|discriminate].
  destruct (@inverse R NumR Nv) as [Iv|e]; [|discriminate].
  destruct (@inverse R NumR Nw) as [Iw|e]; [|discriminate].
  exists Iu, Iv, Iw. repeat (split; [reflexivity|]). injection Hres as <-. reflexivity.
Qed.
Hypothesis Hsorted : sorted (kn (b_knots b3)).
Hypothesis Htol : 0 < tol.

Lemma vloft_facts : exists Iu Iv Iw,
  S = mkObj [b1; b2; b3] (@apply_dir R NumR nc [m1; m2; n] 0 Iu (@apply_dir R NumR nc [m1; m2; n] 1 Iv
        (@apply_dir R NumR nc [m1; m2; n] 2 Iw (@loft_points R (m1 * m2) X)))) dim rat /\
  mat m1 m1 Nu /\ mat m2 m2 Nv /\ mat n n Nw /\ mat m1 m1 Iu /\ mat m2 m2 Iv /\ mat n n Iw /\
  @matmul R NumR Iu Nu = @ident R NumR m1 /\ @matmul R NumR Iv Nv = @ident R NumR m2 /\ @matmul R NumR Nw Iw = @ident R NumR n.
Proof.
  pose proof vloft_n3 as H3.
  destruct vloft_unpack as (Iu & Iv & Iw & EU & EV & EW & ES). exists Iu, Iv, Iw. split; [exact ES|].
  assert (Lw : length w = n) by (apply loft_params_length; assumption).
  assert (Nf3 : @b_nfun R b3 = n) by (apply loft_basis_nfun; assumption).
  pose proof (colloc_mat tol b1 0 (@greville_all R NumR b1)) as HNu. rewrite greville_all_length in HNu.
  pose proof (colloc_mat tol b2 0 (@greville_all R NumR b2)) as HNv. rewrite greville_all_length in HNv.
  pose proof (colloc_mat tol b3 0 w) as HNw. rewrite Lw, Nf3 in HNw.
  assert (LU : length Nu = m1) by (destruct HNu; assumption). assert (LV : length Nv = m2) by (destruct HNv; assumption).
  assert (LW : length Nw = n) by (destruct HNw; assumption).
  apply inverse_spec in EU. rewrite LU in EU. destruct EU as (_ & EU2 & HIu).
  apply inverse_spec in EV. rewrite LV in EV. destruct EV as (_ & EV2 & HIv).
  apply inverse_spec in EW. rewrite LW in EW. destruct EW as (EW1 & _ & HIw).
  repeat (split; [assumption|]). assumption.
Qed.

(* the sampled section: a well-formed net *)
Lemma vloft_sample_ok s : In s surfs -> mat m1 m1 Nu -> mat m2 m2 Nv ->
  Forall (fun p => length p = nc) (smp s) /\ length (smp s) = (m1 * m2)%nat.
Proof.
  intros Hs HNu HNv. destruct (Hsec _ Hs) as (_ & _ & _ & [Lc Fc]).
  assert (P : prodl [m1; m2] = (m1 * m2)%nat) by (cbn [prodl fold_right]; lia).
  rewrite <- P. apply apply_dir_sq; [cbn; lia|rewrite P; nia|exact HNu|].
  apply apply_dir_sq; [cbn; lia|rewrite P; nia|exact HNv|]. split; [exact Fc|rewrite P; exact Lc].
Qed.

Lemma vloft_net : Forall (fun p => length p = nc) (o_cps S) /\ length (o_cps S) = (m1 * m2 * n)%nat.
Proof.
  pose proof vloft_n3 as H3.
  destruct vloft_facts as (Iu & Iv & Iw & -> & HNu & HNv & HNw & HIu & HIv & HIw & _). cbn [o_cps].
  assert (P : prodl [m1; m2; n] = (m1 * m2 * n)%nat) by (cbn [prodl fold_right]; lia).
  rewrite <- P.
  apply apply_dir_sq; [cbn; lia|rewrite P; nia|exact HIu|].
  apply apply_dir_sq; [cbn; lia|rewrite P; nia|exact HIv|].
  apply apply_dir_sq; [cbn; lia|rewrite P; nia|exact HIw|].
  split.
  - apply (loft_points_Forall nc (m1 * m2)). apply Forall_forall. intros Xi HXi. apply in_map_iff in HXi.
    destruct HXi as (s & <- & Hs). destruct (vloft_sample_ok s Hs HNu HNv) as [Fs Ls]. split; assumption.
  - rewrite loft_points_length, map_length, P. reflexivity.
Qed.

Lemma vloft_core_rows Ru Rv j c : length Ru = m1 -> length Rv = m2 -> (j < n)%nat -> (c < nc)%nat ->
  coord c (@teval R NumR nc [Ru; Rv; nth j Nw []] (o_cps S)) = coord c (@teval R NumR nc [Ru; Rv] (o_cps (nth j surfs (@dflt_obj R)))).
Proof.
  intros HRu HRv Hj Hc. pose proof vloft_n3 as H3. destruct vloft_net as [FS LS].
  destruct vloft_facts as (Iu & Iv & Iw & ES & HNu & HNv & HNw & HIu & HIv & HIw & EU2 & EV2 & EW1).
  rewrite ES in FS, LS |- *. cbn [o_cps] in *.
  set (sj := nth j surfs (@dflt_obj R)).
  assert (Hsj : In sj surfs) by (apply nth_In; exact Hj).
  destruct (Hsec _ Hsj) as (_ & _ & _ & [Lc Fc]).
  assert (P3 : prodl [m1; m2; n] = (m1 * m2 * n)%nat) by (cbn [prodl fold_right]; lia).
  assert (P2 : prodl [m1; m2] = (m1 * m2)%nat) by (cbn [prodl fold_right]; lia).
  assert (RW : length (nth j Nw []) = n) by (apply (mat_row n n); assumption).
  set (x := @loft_points R (m1 * m2) X) in *.
  assert (Okx : Forall (fun p => length p = nc) x /\ length x = prodl [m1; m2; n]).
  { split.
    - apply (loft_points_Forall nc (m1 * m2)). apply Forall_forall. intros Xi HXi. apply in_map_iff in HXi.
      destruct HXi as (s & <- & Hs). destruct (vloft_sample_ok s Hs HNu HNv) as [Fs Ls]. split; assumption.
    - unfold x. rewrite loft_points_length, map_length, P3. reflexivity. }
  set (y2 := @apply_dir R NumR nc [m1; m2; n] 2 Iw x) in *.
  assert (Oky2 : Forall (fun p => length p = nc) y2 /\ length y2 = prodl [m1; m2; n])
    by (apply apply_dir_sq; [cbn; lia|rewrite P3; nia|exact HIw|exact Okx]).
  set (y1 := @apply_dir R NumR nc [m1; m2; n] 1 Iv y2) in *.
  assert (Oky1 : Forall (fun p => length p = nc) y1 /\ length y1 = prodl [m1; m2; n])
    by (apply apply_dir_sq; [cbn; lia|rewrite P3; nia|exact HIv|exact Oky2]).
  set (y0 := @apply_dir R NumR nc [m1; m2; n] 0 Iu y1) in *.
  set (A := rowmat Ru Iu). set (B := rowmat Rv Iv).
  assert (LA : length A = m1) by (apply (rowmat_length m1 m1); assumption).
  assert (LB : length B = m2) by (apply (rowmat_length m2 m2); assumption).
  rewrite teval_tsum; [|exact Hc|split; [exact FS|rewrite LS; cbn [map prodl fold_right length]; rewrite HRu, HRv, RW; lia]].
  (* direction 0 *)
  pose proof (tsum_step nc c Iu m1 m1 [Ru; Rv; nth j Nw []] 0 y1) as T0.
  cbn [map nth upd length] in T0. fold A in T0. rewrite LA, HRv, RW in T0. fold y0 in T0.
  rewrite T0; clear T0; [|lia|exact Hc|exact HIu|exact Hm1|exact HRu
     |split; [apply Oky1|cbn [map length]; rewrite ?LA, ?HRv, ?RW; apply Oky1]
     |cbn [map length]; rewrite ?LA, ?HRv, ?RW, P3; nia].
  (* direction 1 *)
  pose proof (tsum_step nc c Iv m2 m2 [A; Rv; nth j Nw []] 1 y2) as T1.
  cbn [map nth upd length] in T1. fold B in T1. rewrite LA, LB, RW in T1. fold y1 in T1.
  rewrite T1; clear T1; [|lia|exact Hc|exact HIv|exact Hm2|exact HRv
     |split; [apply Oky2|cbn [map length]; rewrite ?LA, ?LB, ?RW; apply Oky2]
     |cbn [map length]; rewrite ?LA, ?LB, ?RW, P3; nia].
  (* direction 2: collocation row j against Iw x = unit row j against x *)
  pose proof (tsum_apply_dir nc c Iw [A; B; unit_row n j] 2 (nth j Nw []) x) as T2.
  cbn [map nth upd length] in T2. rewrite unit_row_length, LA, LB in T2. fold y2 in T2.
  rewrite T2; clear T2; [|lia|exact Hc|split; [apply Okx|cbn [map length]; rewrite ?unit_row_length, ?LA, ?LB; apply Okx]
     |cbn [map length]; rewrite ?unit_row_length, ?LA, ?LB, P3; nia|apply inverse_row_rel; try assumption; lia].
  (* the unit row selects the sampled section j *)
  change [A; B; unit_row n j] with ([A; B] ++ [unit_row n j]). rewrite (tsum_unit_last [A; B] n j Hj).
  rewrite (tsum_ext [A; B] _ (cnet nc c (smp sj))).
  2:{ intros p Hp. cbn [map prodl fold_right length] in Hp. rewrite LA, LB in Hp. unfold cnet, x.
      replace (p * n + j)%nat with (p * length X + j)%nat by (rewrite map_length; reflexivity).
      rewrite loft_points_nth by (rewrite ?map_length; try assumption; lia).
      rewrite (nth_map_gen _ surfs j [] (@dflt_obj R)) by exact Hj. fold sj.
      destruct (vloft_sample_ok sj Hsj HNu HNv) as [_ Ls]. apply f_equal. apply nth_indep. rewrite Ls. lia. }
  (* undo the sampling: (Ru Iu) Nu = Ru, (Rv Iv) Nv = Rv *)
  set (z1 := @apply_dir R NumR nc [m1; m2] 1 Nv (o_cps sj)).
  assert (Okc : Forall (fun p => length p = nc) (o_cps sj) /\ length (o_cps sj) = prodl [m1; m2]) by (split; [exact Fc|rewrite P2; exact Lc]).
  assert (Okz1 : Forall (fun p => length p = nc) z1 /\ length z1 = prodl [m1; m2])
    by (apply apply_dir_sq; [cbn; lia|rewrite P2; nia|exact HNv|exact Okc]).
  assert (EA : rowmat A Nu = Ru).
  { unfold A. rewrite (rowmat_assoc m1 m1 m1 Ru Iu Nu HRu HIu HNu Hm1 Hm1), EU2. apply rowmat_ident; assumption. }
  assert (EB : rowmat B Nv = Rv).
  { unfold B. rewrite (rowmat_assoc m2 m2 m2 Rv Iv Nv HRv HIv HNv Hm2 Hm2), EV2. apply rowmat_ident; assumption. }
  pose proof (tsum_step nc c Nu m1 m1 [A; B] 0 z1) as S0.
  cbn [map nth upd length] in S0. rewrite EA, HRu, LB in S0. fold (smp sj) in S0.
  rewrite S0; clear S0; [|lia|exact Hc|exact HNu|exact Hm1|exact LA
     |split; [apply Okz1|cbn [map length]; rewrite ?HRu, ?LB; apply Okz1]
     |cbn [map length]; rewrite ?HRu, ?LB, P2; nia].
  pose proof (tsum_step nc c Nv m2 m2 [Ru; B] 1 (o_cps sj)) as S1.
  cbn [map nth upd length] in S1. rewrite EB, HRu, HRv in S1. fold z1 in S1.
  rewrite S1; clear S1; [|lia|exact Hc|exact HNv|exact Hm2|exact LB
     |split; [apply Okc|cbn [map length]; rewrite ?HRu, ?HRv; apply Okc]
     |cbn [map length]; rewrite ?HRu, ?HRv, P2; nia].
  symmetry. apply teval_tsum; [exact Hc|]. split; [exact Fc|cbn [map length]; rewrite HRu, HRv, Lc, P2; reflexivity].
Qed.
(* the lofted volume evaluated at (u, v, w_j) IS section surface j evaluated at (u, v) *)
Theorem vloft_passes_through_sections j u v vS : (j < n)%nat ->
  @obj_eval R NumR tol S [u; v; nth j w 0] = Ok vS -> @obj_eval R NumR tol (nth j surfs (@dflt_obj R)) [u; v] = Ok vS.
Proof.
  intros Hj Hev. pose proof vloft_n3 as H3. destruct vloft_net as [FS LS].
  destruct vloft_facts as (Iu & Iv & Iw & ES & _ & _ & HNw & _).
  assert (EB : o_bases S = [b1; b2; b3]) by (rewrite ES; reflexivity).
  assert (ER : o_rat S = rat) by (rewrite ES; reflexivity).
  assert (ED : o_dim S = dim) by (rewrite ES; reflexivity).
  clear ES Iu Iv Iw.
  assert (Lw : length w = n) by (apply loft_params_length; assumption).
  set (sj := nth j surfs (@dflt_obj R)).
  assert (Hsj : In sj surfs) by (apply nth_In; exact Hj).
  destruct (Hsec _ Hsj) as (Eb & Ed & Er & [Lc Fc]).
  unfold obj_eval in Hev |- *. rewrite EB in Hev. rewrite Eb. cbn [validate hd tl] in Hev |- *.
  destruct (@validate1 R NumR tol b1 u) as [t1|e]; [|discriminate].
  destruct (@validate1 R NumR tol b2 v) as [t2|e]; [|discriminate].
  destruct (@validate1 R NumR tol b3 (nth j w 0)) as [t3|e] eqn:EV3; [|discriminate].
  assert (Et3 : t3 = @snap1 R NumR (b_knots b3) tol (nth j w 0)).
  { unfold validate1 in EV3. cbv zeta in EV3. destruct (_ && _); [discriminate|]. injection EV3 as <-. reflexivity. }
  injection Hev as <-. f_equal. rewrite ER, ED, Er, Ed.
  assert (Emain : @eval_h R NumR tol sj [] [] [t1; t2] = @eval_h R NumR tol S [] [] [t1; t2; t3]).
  { unfold eval_h, rows_at, o_ncomp. rewrite EB, Eb, ER, ED, Er, Ed. cbn [length seq map nth].
    set (Ru := @basis_row R NumR tol b1 0 true t1). set (Rv := @basis_row R NumR tol b2 0 true t2).
    assert (HRu : length Ru = m1) by apply basis_row_length.
    assert (HRv : length Rv = m2) by apply basis_row_length.
    rewrite Et3. rewrite <- (colloc_row tol b3 0 w j Hsorted Htol) by lia.
    assert (RW : length (nth j Nw []) = n) by (apply (mat_row n n); assumption).
    assert (OK1 : net_ok nc [Ru; Rv] (o_cps sj)) by (split; [exact Fc|cbn [map prodl fold_right length]; rewrite HRu, HRv; lia]).
    assert (OK2 : net_ok nc [Ru; Rv; nth j Nw []] (o_cps S)) by (split; [exact FS|cbn [map prodl fold_right length]; rewrite HRu, HRv, RW; lia]).
    apply (nth_ext _ _ 0 0).
    - rewrite !teval_length by assumption. reflexivity.
    - intros c Hc. rewrite teval_length in Hc by assumption.
      symmetry. apply vloft_core_rows; assumption. }
  rewrite Emain. reflexivity.
Qed.
End VLoft.

(* ---------- non-vacuity (exact rationals; the same numbers as the real code, see the report) ---------- *)
From Coq Require Import QArith.
Definition ex_b : basis Q := (@mkBasis Q) 3 [0; 0; 0; 1#2; 1; 1; 1]%Q 0.
Definition ex_curve (s z : Q) : obj Q := (@mkObj Q) [ex_b] [[0; 0; z]; [1; 2*s; z]; [3; -(2)*s; z]; [4; 0; z]]%Q 3 false.
Definition ex_curves : list (obj Q) := [ex_curve 1 0; ex_curve (3#2) 1; ex_curve 1 3; ex_curve 2 4; ex_curve (1#2) 6]%Q.
(* five sections, dist = [0,1,3,4,6]: the lofted surface at (1/3, dist_1) is section 1 at 1/3; some control points of the
   result (compare surface_factory.loft: 4.782051282051 = 373/78, -2.910256410256 = -227/78, 9.038461538462 = 235/26) *)
Example loft_example :
  match @loft Q NumQ (1#100000000000) ex_curves [0; 1; 3; 4; 6]%Q with
  | Ok o => map b_knots (o_bases o) = [[0; 0; 0; 1#2; 1; 1; 1]; [0; 0; 0; 0; 3; 6; 6; 6; 6]]%Q /\
            map (map Qred) (firstn 5 (skipn 5 (o_cps o))) = [[1; 2; 0]; [1; 373#78; 1]; [1; -227#78; 3]; [1; 235#26; 5]; [1; 1; 6]]%Q /\
            (match (@obj_eval Q NumQ) (1#100000000000) o [1#3; 1]%Q, (@obj_eval Q NumQ) (1#100000000000) (nth 1 ex_curves (@dflt_obj Q)) [(1#3)%Q] with
             | Ok a, Ok b => map Qred a = map Qred b /\ map Qred a = [4#3; 4#3; 1]%Q | _, _ => False end)
  | Err _ => False
  end.
Proof. vm_compute. repeat split; reflexivity. Qed.
(* three sections: quadratic, parameters = Greville points [0, 1/2, 1] whatever dist is *)
Example loft_example3 :
  match @loft Q NumQ (1#100000000000) (firstn 3 ex_curves) [0; 1; 3]%Q with
  | Ok o => map b_knots (o_bases o) = [[0; 0; 0; 1#2; 1; 1; 1]; [0; 0; 0; 1; 1; 1]]%Q /\
            map (map Qred) (firstn 6 (o_cps o)) = [[0; 0; 0]; [0; 0; 1#2]; [0; 0; 3]; [1; 2; 0]; [1; 4; 1#2]; [1; 2; 3]]%Q /\
            map Qred (@loft_params Q NumQ 3 [0; 1; 3]%Q) = [0; 1#2; 1]%Q
  | Err _ => False
  end.
Proof. vm_compute. repeat split; reflexivity. Qed.
(* volume loft: four bilinear-by-quadratic sections *)
Definition ex_bv : basis Q := (@mkBasis Q) 2 [0; 0; 1; 1]%Q 0.
Definition ex_surf (s z : Q) : obj Q :=
  (@mkObj Q) [ex_b; ex_bv] [[0; -(3)*s; z]; [0; 3*s; z]; [1; 2*s-3*s; z]; [1; 2*s+3*s; z]; [3; -(2)*s-3*s; z]; [3; -(2)*s+3*s; z]; [4; -(3)*s; z]; [4; 3*s; z]]%Q 3 false.
Definition ex_surfs : list (obj Q) := [ex_surf 1 0; ex_surf (3#2) 1; ex_surf 1 3; ex_surf 2 4]%Q.
Example vloft_example :
  match @vloft Q NumQ (1#100000000000) ex_surfs [0; 1; 3; 4]%Q with
  | Ok o => map (map Qred) (firstn 4 (skipn 12 (o_cps o))) = [[1; 5; 0]; [1; 40#3; 4#3]; [1; -25#9; 8#3]; [1; 10; 4]]%Q /\
            (match (@obj_eval Q NumQ) (1#100000000000) o [1#3; 1#4; 1]%Q, (@obj_eval Q NumQ) (1#100000000000) (nth 1 ex_surfs (@dflt_obj Q)) [1#3; 1#4]%Q with
             | Ok a, Ok b => map Qred a = map Qred b /\ map Qred a = [4#3; -11#12; 1]%Q | _, _ => False end)
  | Err _ => False
  end.
Proof. vm_compute. repeat split; reflexivity. Qed.

