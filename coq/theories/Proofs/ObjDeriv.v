(* Facts about the derivative dispatch models (Model/Obj.v obj_deriv, Model/Deriv.v). *)
From Coq Require Import List Arith Reals Lra Lia Bool ZArith.
From SplipyModel Require Import Spec.BSpline Model.Num Model.BasisDef Model.BasisEval Model.Tensor Model.Obj Model.Deriv
  Gen.RatDerivGeneric Proofs.RatDeriv.
Import ListNotations.
Open Scope R_scope.

(* the generic first-order quotient rule satisfies the product rule  nd = Wd * (n/W) + W * result  *)
Lemma first_order_leibniz nd nn Wd W : W <> 0 ->
  nd = Wd * (nn / W) + W * @quot1 R NumR nd nn Wd W.
Proof. intros HW. unfold quot1. cbn [nadd nsub nmul ndiv NumR]. field. exact HW. Qed.

Section Gen.
Context {F : Type} `{Num F}.

(* orders the API does not implement raise RuntimeError whenever the parameters are valid *)
Lemma obj_deriv_unsupported tol (o : obj F) ds ab ts ts' :
  o_rat o = true -> (1 < fold_right Nat.add 0%nat ds)%nat ->
  validate tol (o_bases o) ts = Ok ts' ->
  obj_deriv tol o ds ab ts = Err RuntimeError.
Proof.
  intros Hr Hs Hv. unfold obj_deriv. rewrite Hv, Hr.
  destruct (Nat.ltb_spec 1 (fold_right Nat.add 0%nat ds)); [reflexivity|lia].
Qed.

Lemma obj_deriv_invalid tol (o : obj F) ds ab ts e :
  validate tol (o_bases o) ts = Err e -> obj_deriv tol o ds ab ts = Err e.
Proof. intros Hv. unfold obj_deriv. rewrite Hv. reflexivity. Qed.

Lemma curve_deriv_unsupported tol (o : obj F) d ab t ts' :
  o_rat o = true -> (3 < d)%nat -> validate tol (o_bases o) [t] = Ok ts' ->
  curve_deriv tol o d ab t = Err RuntimeError.
Proof.
  intros Hr Hd Hv. unfold curve_deriv.
  destruct (Nat.ltb_spec 3 d); [|lia]. rewrite orb_true_r.
  apply (obj_deriv_unsupported tol o [d] [ab] [t] ts' Hr); [cbn; lia|exact Hv].
Qed.

Lemma surface_deriv_unsupported tol (o : obj F) d1 d2 ab ts ts' :
  o_rat o = true -> (3 < d1 + d2)%nat -> validate tol (o_bases o) ts = Ok ts' ->
  surface_deriv tol o d1 d2 ab ts = Err RuntimeError.
Proof.
  intros Hr Hd Hv. unfold surface_deriv. cbv zeta.
  destruct (Nat.ltb_spec 3 (d1 + d2)); [|lia]. rewrite orb_true_r.
  apply (obj_deriv_unsupported tol o [d1; d2] ab ts ts' Hr); [cbn; lia|exact Hv].
Qed.

(* non-rational: the derivative is the tensor-product sum with differentiated rows *)
Lemma obj_deriv_nonrational tol (o : obj F) ds ab ts ts' :
  o_rat o = false -> validate tol (o_bases o) ts = Ok ts' ->
  obj_deriv tol o ds ab ts = Ok (teval (o_ncomp o) (rows_at tol (o_bases o) ds ab ts') (o_cps o)).
Proof. intros Hr Hv. unfold obj_deriv. rewrite Hv, Hr. reflexivity. Qed.

(* rational, order zero: the evaluated point *)
Lemma obj_deriv_order0 tol (o : obj F) ts :
  o_rat o = true -> obj_deriv tol o [] [] ts = obj_eval tol o ts.
Proof.
  intros Hr. unfold obj_deriv, obj_eval. destruct (validate tol (o_bases o) ts); [|reflexivity].
  rewrite Hr. cbn [fold_right Nat.ltb Nat.leb Nat.eqb].
  reflexivity.
Qed.
End Gen.
