(* Property C15, edge_curves with four curves: the abstract loop search of Model/EdgeLoop.v IS the search on curve
   objects, and the surface blended from the arranged curves has those curves as its boundary.

   1. BRIDGE.  On a non-periodic curve object (pardim 1) the control net of  obj_reverse o 0  -- the anti-diagonal
      0/1 matrix rev_matrix applied by apply_dir -- is the reversed list of control points:
         apply_rev_curve, obj_reverse_cps :  o_cps (obj_reverse o 0) = rev (o_cps o)
      hence first and last control point swap, and with
         ec_of_obj o = mkEC (hd [] (o_cps o)) (last (o_cps o) []) o
         ec_of_obj_reverse :  ec_of_obj (obj_reverse o 0) = ec_rev (fun o => obj_reverse o 0) (ec_of_obj o)
      so the record  ecurve  with  A := obj R  and  rd := fun o => obj_reverse o 0  is the curve object itself.
      open_curve (well-formed, non-periodic, clamped at both ends) is preserved by the reversal (open_curve_reverse),
      and an open curve evaluates at the two ends of its domain to its first / last control point (curve_eval_start,
      curve_eval_end).
   2. The repaired search on lists of curve objects: curve_loop_sound, curve_loop_complete (arrangement of the same
      curves, each possibly reversed, all four junctions within tolerance); mrevo_eval (a reversed curve evaluates
      as the curve at a+b-t).
   3. END TO END at the level the existing Coons theorem (Proofs/SectionProofs.v coons_boundary = C15_coons_boundary)
      works at: coordinate FUNCTIONS R -> R on [0,1]^2, NOT control nets.  coons_of_edge_curves,
      coons_of_edge_curves_orig, coons_of_edge_curves_homog (homogeneous coordinates, for rational curves),
      edge_curves_coons_e2e (search, then blend).
   3b. Control-net level, proved here directly (coons_boundary has no net-level form): surface_boundary_curves (a
      surface whose boundary rows / columns are given lists has the curve objects with those nets as edges),
      coons_net_bottom / top / left / right (the bilinearly blended net has the four nets as boundary),
      coons_surface_edges, coons_surface_of_loop (needs EQUAL BASES of opposite curves).
   Non-vacuity on R: unit_square_witness.   4. Examples on Q. *)
From Coq Require Import List Arith Reals Lra Lia Bool ZArith QArith Permutation.
From SplipyModel Require Import Spec.BSpline Model.Num Model.BasisDef Model.BasisEval Model.Tensor Model.Obj Model.KnotInsert Model.Section Model.Reparam Model.EdgeLoop
  Proofs.EvaluateSpec Proofs.EvalConsequences Proofs.TensorLemmas Proofs.ObjEval Proofs.TensorApply Proofs.InsertEndToEnd Proofs.ChangeDirEval Proofs.ReparamObj
  Proofs.ReverseEndToEnd Proofs.SectionProofs Proofs.SectionEndToEnd Proofs.EdgeLoopProofs Proofs.AppendProofs Extract.Exec.
Import ListNotations.
Open Scope R_scope.

(* ------------------------------------------------------------------------------------------------------- *)
(* 1. BRIDGE                                                                                               *)
(* ------------------------------------------------------------------------------------------------------- *)
Lemma sumf_mirror0 f m : sumf f 0 m = sumf (fun i => f (m - 1 - i)%nat) 0 m.
Proof.
  induction m as [|m IH]; [reflexivity|].
  rewrite sumf_snoc, sumf_S. cbn [Nat.add].
  replace (S m - 1 - 0)%nat with m by lia. rewrite Rplus_comm. f_equal.
  rewrite <- sumf_shift. rewrite IH. apply sumf_ext. intros i Hi. f_equal. lia.
Qed.

Lemma hd_rev {A} (l : list A) d : hd d (rev l) = last l d.
Proof. rewrite <- (rev_involutive l) at 2. rewrite last_rev. reflexivity. Qed.

(* the reversal matrix applied along the only direction of a curve net reverses the list of control points *)
Theorem apply_rev_curve dim n (cps : list (list R)) :
  Forall (fun v => length v = dim) cps -> length cps = n -> (0 < n)%nat ->
  @apply_dir R NumR dim [n] 0 (@rev_matrix R NumR n 0) cps = rev cps.
Proof.
  intros HV HL Hn.
  set (M := @rev_matrix R NumR n 0). set (cps' := @apply_dir R NumR dim [n] 0 M cps).
  assert (Hpos : (0 < prodl [n])%nat) by (cbn; lia).
  assert (HLp : length cps = prodl [n]) by (cbn; lia).
  assert (HV' : Forall (fun v => length v = dim) cps') by (apply Forall_apply_dir; exact HV).
  assert (HL' : length cps' = n).
  { unfold cps'. rewrite length_apply_dir; [|cbn; lia|exact HLp|exact Hpos].
    unfold M. rewrite rev_matrix_len. cbn. lia. }
  assert (HVr : Forall (fun v => length v = dim) (rev cps)).
  { apply Forall_forall. intros v Hv. apply in_rev in Hv. rewrite Forall_forall in HV. apply HV, Hv. }
  assert (Key : forall c, (c < dim)%nat -> forall idx, (idx < prodl [n])%nat ->
                 cnet dim c cps' idx = cnet dim c (rev cps) idx).
  { intros c Hc. apply tsum_sep. intros rows Hsh.
    destruct rows as [|N [|N2 rows]]; try discriminate. cbn [map] in Hsh. injection Hsh as HN.
    assert (Hnet : net_ok dim [rev N] cps).
    { split; [exact HV|]. cbn [map]. rewrite rev_length, HN. exact HLp. }
    pose proof (tsum_apply_dir dim c M [rev N] 0 N cps ltac:(cbn; lia) Hc Hnet
                  ltac:(cbn [map]; rewrite rev_length, HN; exact Hpos)) as E.
    cbn [nth map upd] in E. rewrite rev_length, HN in E. fold cps' in E.
    rewrite E.
    2:{ unfold M. rewrite <- HN. apply (proj2 (rev_rev_row N)). }
    cbn [tsum map prodl fold_right]. cbv zeta. unfold lcf. rewrite rev_length.
    rewrite (sumf_mirror0 _ (length N)). apply sumf_ext. intros i Hi.
    rewrite rev_nth by lia. replace (length N - S (length N - 1 - i))%nat with i by lia. f_equal.
    unfold cnet. f_equal. rewrite !Nat.mul_1_r, !Nat.add_0_r.
    rewrite rev_nth by lia. rewrite HL, <- HN. f_equal. lia. }
  apply (nth_ext _ _ (@vzero R NumR dim) (@vzero R NumR dim)); [fold cps'; rewrite HL', rev_length; symmetry; exact HL|].
  intros idx Hidx. fold cps' in Hidx |- *. rewrite HL' in Hidx.
  assert (L2 : length (nth idx cps' (@vzero R NumR dim)) = dim).
  { rewrite Forall_forall in HV'. apply HV', nth_In. lia. }
  assert (L0 : length (nth idx (rev cps) (@vzero R NumR dim)) = dim).
  { rewrite Forall_forall in HVr. apply HVr, nth_In. rewrite rev_length. lia. }
  apply (nth_ext _ _ 0 0); [lia|]. intros c Hc. rewrite L2 in Hc.
  apply (Key c Hc idx). cbn. lia.
Qed.

(* Curve.reverse() on a curve object *)
Definition rvo (o : obj R) : obj R := @obj_reverse R NumR o 0.

(* the record of Model/EdgeLoop.v read off a curve object: crv[0], crv[-1] (stored rows of the control net) and
   the object itself as payload *)
Definition ec_of_obj {F : Type} (o : obj F) : ecurve (list F) (obj F) :=
  mkEC (hd [] (o_cps o)) (last (o_cps o) []) o.

Lemma curve_wf_parts tol (o : obj R) b : wf_obj_R tol o -> o_bases o = [b] ->
  wf_basis_R tol b /\ Forall (fun v => length v = @o_ncomp R o) (o_cps o) /\ length (o_cps o) = @b_nfun R b.
Proof.
  intros (HB & HV & HL) Hb. rewrite Hb in HB. apply Forall_inv in HB. split; [exact HB|]. split; [exact HV|].
  rewrite HL. unfold o_shape. rewrite Hb. cbn. lia.
Qed.

(* BRIDGE: the control net of the reversed curve is the reversed list of control points *)
Theorem obj_reverse_cps tol (o : obj R) b : wf_obj_R tol o -> o_bases o = [b] -> b_per1 b = 0%nat ->
  o_cps (rvo o) = rev (o_cps o).
Proof.
  intros Hwf Hb Hper. destruct (curve_wf_parts tol o b Hwf Hb) as ((_ & _ & _ & Hn & _) & HV & HL).
  unfold rvo, obj_reverse. cbv zeta. cbn [o_cps]. unfold o_shape. rewrite Hb. cbn [nth map]. rewrite Hper.
  apply apply_rev_curve; assumption.
Qed.

Corollary obj_reverse_ends tol (o : obj R) b : wf_obj_R tol o -> o_bases o = [b] -> b_per1 b = 0%nat ->
  hd [] (o_cps (rvo o)) = last (o_cps o) [] /\ last (o_cps (rvo o)) [] = hd [] (o_cps o).
Proof.
  intros Hwf Hb Hper. rewrite (obj_reverse_cps tol o b Hwf Hb Hper). split; [apply hd_rev|apply last_rev].
Qed.

(* ... so the abstract reversal of the record is the reversal of the curve object *)
Theorem ec_of_obj_reverse tol (o : obj R) b : wf_obj_R tol o -> o_bases o = [b] -> b_per1 b = 0%nat ->
  ec_of_obj (rvo o) = ec_rev rvo (ec_of_obj o).
Proof.
  intros Hwf Hb Hper. destruct (obj_reverse_ends tol o b Hwf Hb Hper) as [E1 E2].
  unfold ec_of_obj, ec_rev. cbn [e_first e_last e_data]. rewrite E1, E2. reflexivity.
Qed.

Lemma rvo_kind (o : obj R) : o_rat (rvo o) = o_rat o /\ o_dim (rvo o) = o_dim o.
Proof. split; reflexivity. Qed.

(* an open curve: well-formed, one non-periodic direction, knot vector clamped at both ends *)
Definition open_curve (tol : R) (o : obj R) : Prop :=
  wf_obj_R tol o /\ exists b, o_bases o = [b] /\ b_per1 b = 0%nat /\ clamped_start b /\ clamped_end b.

(* reversal keeps an open curve open, with the same domain *)
Theorem open_curve_reverse_basis tol (o : obj R) b :
  0 < tol -> wf_obj_R tol o -> o_bases o = [b] -> b_per1 b = 0%nat -> clamped_start b -> clamped_end b ->
  wf_obj_R tol (rvo o) /\
  exists b', o_bases (rvo o) = [b'] /\ b_per1 b' = 0%nat /\ clamped_start b' /\ clamped_end b' /\
             @b_start R NumR b' = @b_start R NumR b /\ @b_end R NumR b' = @b_end R NumR b.
Proof.
  intros Htol Hwf Hb Hper Hcs Hce.
  destruct (curve_wf_parts tol o b Hwf Hb) as ((HK & Hp & Hlen & Hn & Hw) & _ & _).
  destruct o as [bs cps dim rat]. cbn [o_bases] in Hb. subst bs.
  assert (Hd : (0 < length (o_bases (mkObj [b] cps dim rat)))%nat) by (cbn; lia).
  split; [exact (reverse_wf tol Htol _ Hwf 0%nat Hd Hper)|].
  pose proof (rv_obj tol Htol _ Hwf 0%nat Hd Hper) as E. cbn [o_bases nth upd] in E.
  set (a := @b_start R NumR b) in *. set (e := @b_end R NumR b) in *.
  assert (Hne : b_knots b <> []) by (intros Q; rewrite Q in Hlen; cbn in Hlen; lia).
  set (b' := mkBasis (b_order b) (rknots a e (b_knots b)) 0) in *.
  assert (Ea : @b_start R NumR b' = a).
  { unfold b_start at 1. cbn [b_knots b_order b']. rewrite rknots_kn by exact Hne.
    replace (length (b_knots b) - 1 - (b_order b - 1))%nat with (length (b_knots b) - b_order b)%nat by lia.
    fold (@b_end R NumR b). fold e. ring. }
  assert (Ee : @b_end R NumR b' = e).
  { unfold b_end at 1. cbn [b_knots b_order b']. rewrite rknots_length, rknots_kn by exact Hne.
    replace (length (b_knots b) - 1 - (length (b_knots b) - b_order b))%nat with (b_order b - 1)%nat by lia.
    fold (@b_start R NumR b). fold a. ring. }
  destruct Hcs as [Hcs1 Hcs2]. destruct Hce as [Hce1 Hce2]. cbv zeta in Hce1, Hce2.
  fold a in Hcs1, Hcs2. fold e in Hce1, Hce2.
  exists b'. split; [unfold rvo; rewrite E; reflexivity|]. split; [reflexivity|].
  split; [|split; [|split; [exact Ea|exact Ee]]].
  - split.
    + intros j Hj. rewrite Ea. cbn [b_knots b_order b'] in Hj |- *. rewrite rknots_kn by exact Hne.
      rewrite (Hce1 (length (b_knots b) - 1 - j)%nat) by lia. ring.
    + rewrite Ea. cbn [b_knots b_order b']. rewrite rknots_kn by exact Hne.
      replace (length (b_knots b) - 1 - b_order b)%nat with (length (b_knots b) - b_order b - 1)%nat by lia.
      lra.
  - unfold clamped_end. cbv zeta. cbn [b_knots b_order b']. rewrite rknots_length, Ee. split.
    + intros j Hj. rewrite rknots_kn by exact Hne.
      rewrite (Hcs1 (length (b_knots b) - 1 - j)%nat) by lia. ring.
    + rewrite rknots_kn by exact Hne.
      replace (length (b_knots b) - 1 - (length (b_knots b) - b_order b - 1))%nat with (b_order b) by lia.
      lra.
Qed.

Corollary open_curve_reverse tol (o : obj R) : 0 < tol -> open_curve tol o -> open_curve tol (rvo o).
Proof.
  intros Htol (Hwf & b & Hb & Hper & Hcs & Hce).
  destruct (open_curve_reverse_basis tol o b Htol Hwf Hb Hper Hcs Hce) as (Hwf' & b' & Hb' & Hper' & Hcs' & Hce' & _).
  split; [exact Hwf'|]. exists b'. auto.
Qed.

(* the point returned by evaluate() for a stored control-net row: divided by the weight if rational *)
Definition cpoint (o : obj R) (P : list R) : list R :=
  if o_rat o then @project_rat R NumR (o_dim o) P else P.

Lemma nth_pred_last {A} (l : list A) d : nth (length l - 1) l d = last l d.
Proof.
  induction l as [|x l IH]; [reflexivity|]. destruct l as [|y l]; [reflexivity|].
  change (last (x :: y :: l) d) with (last (y :: l) d). rewrite <- IH. cbn [length].
  replace (S (S (length l)) - 1)%nat with (S (length l)) by lia.
  replace (S (length l) - 1)%nat with (length l) by lia. reflexivity.
Qed.

(* an open curve evaluates at the two ends of its domain to its first / last control point *)
Theorem curve_eval_start tol (o : obj R) b :
  0 < tol -> wf_obj_R tol o -> o_bases o = [b] -> b_per1 b = 0%nat -> clamped_start b ->
  @obj_eval R NumR tol o [@b_start R NumR b] = Ok (cpoint o (hd [] (o_cps o))).
Proof.
  intros Htol Hwf Hb Hper Hcs.
  assert (Hs : Forall2 sec_ok [0%nat] (o_bases o)) by (rewrite Hb; constructor; [split; assumption|constructor]).
  assert (Hp : all_pinned [0%nat]) by (constructor; [left; reflexivity|constructor]).
  pose proof (section_corner tol o [0%nat] Htol Hwf Hs Hp) as E. cbv zeta in E.
  unfold o_shape in E. rewrite Hb in E. cbn [sec_fill Nat.eqb map corner_flat] in E.
  rewrite E. unfold cpoint. replace (0 * prodl [] + 0)%nat with 0%nat by (cbn; lia).
  destruct (o_cps o); reflexivity.
Qed.

Theorem curve_eval_end tol (o : obj R) b :
  0 < tol -> wf_obj_R tol o -> o_bases o = [b] -> b_per1 b = 0%nat -> clamped_end b ->
  @obj_eval R NumR tol o [@b_end R NumR b] = Ok (cpoint o (last (o_cps o) [])).
Proof.
  intros Htol Hwf Hb Hper Hce.
  destruct (curve_wf_parts tol o b Hwf Hb) as (_ & _ & HL).
  assert (Hs : Forall2 sec_ok [1%nat] (o_bases o)) by (rewrite Hb; constructor; [split; assumption|constructor]).
  assert (Hp : all_pinned [1%nat]) by (constructor; [right; reflexivity|constructor]).
  pose proof (section_corner tol o [1%nat] Htol Hwf Hs Hp) as E. cbv zeta in E.
  unfold o_shape in E. rewrite Hb in E. cbn [sec_fill Nat.eqb map corner_flat] in E.
  rewrite E. unfold cpoint.
  replace ((@b_nfun R b - 1) * prodl [] + 0)%nat with (length (o_cps o) - 1)%nat by (rewrite HL; cbn; lia).
  rewrite nth_pred_last. reflexivity.
Qed.

(* ------------------------------------------------------------------------------------------------------- *)
(* 2. The repaired search on lists of curve objects                                                         *)
(* ------------------------------------------------------------------------------------------------------- *)
(* ci.reverse() if f else ci *)
Definition mrevo (fl : bool) (o : obj R) : obj R := if fl then rvo o else o.

(* allclose(a[-1], b[0]) on curve objects *)
Definition ojunction (rtol atol : R) (a b : obj R) : Prop :=
  closeR rtol atol (last (o_cps a) []) (hd [] (o_cps b)).
Definition oclosed_loop (rtol atol : R) (c0 c1 c2 c3 : obj R) : Prop :=
  ojunction rtol atol c0 c1 /\ ojunction rtol atol c1 c2 /\ ojunction rtol atol c2 c3 /\ ojunction rtol atol c3 c0.

Lemma oclosed_loop_ec rtol atol c0 c1 c2 c3 :
  closed_loop rtol atol (map ec_of_obj [c0; c1; c2; c3]) <-> oclosed_loop rtol atol c0 c1 c2 c3.
Proof. reflexivity. Qed.

Lemma ec_of_obj_mrevo tol fl (o : obj R) : open_curve tol o -> ec_of_obj (mrevo fl o) = mrev rvo fl (ec_of_obj o).
Proof.
  intros (Hwf & b & Hb & Hper & _). destruct fl; [|reflexivity]. cbn [mrevo mrev].
  exact (ec_of_obj_reverse tol o b Hwf Hb Hper).
Qed.

Lemma open_curve_mrevo tol fl (o : obj R) : 0 < tol -> open_curve tol o -> open_curve tol (mrevo fl o).
Proof. intros Htol Ho. destruct fl; [apply open_curve_reverse; assumption|exact Ho]. Qed.

(* a curve in the output is the input curve itself or its reversal, which evaluates to the input curve at a+b-t
   (ReverseEndToEnd.reverse_eval_upd; rev_ok: t is not within tol of a knot of multiplicity = order, see there) *)
Theorem mrevo_eval tol fl (o : obj R) b t :
  0 < tol -> wf_obj_R tol o -> o_bases o = [b] -> b_per1 b = 0%nat ->
  in_dom tol b t -> rev_ok (b_knots b) (b_order b) tol t ->
  @obj_eval R NumR tol (mrevo fl o) [if fl then @b_start R NumR b + @b_end R NumR b - t else t]
  = @obj_eval R NumR tol o [t].
Proof.
  intros Htol Hwf Hb Hper Hdom Hrev. destruct fl; [|reflexivity]. cbn [mrevo]. unfold rvo.
  destruct o as [bs cps dim rat]. cbn [o_bases] in Hb. subst bs.
  assert (Hd : (0 < length (o_bases (mkObj [b] cps dim rat)))%nat) by (cbn; lia).
  pose proof (reverse_eval_upd tol _ 0%nat [t] Htol Hwf Hd ltac:(cbn; lia) Hper) as E.
  cbv zeta in E. cbn [o_bases nth upd] in E. apply E; [|exact Hrev].
  intros i Hi. cbn [length] in Hi. assert (i = 0)%nat by lia. subst i. exact Hdom.
Qed.

(* C15 / SOUNDNESS on curve objects.  If the repaired search accepts four open curves, its output is
   [c0; x1; x2; x3] (as records of curve objects) where c0 is the first input curve, x_i = u_i or its reversal for a
   re-ordering [u1;u2;u3] of the other three input curves, all four are open curves again, and the end control point
   of each is within tolerance of the first control point of the next, cyclically. *)
Theorem curve_loop_sound tol rtol atol (curves : list (obj R)) out :
  0 < tol -> Forall (open_curve tol) curves ->
  @loop_order2 R NumR (obj R) rtol atol rvo (map ec_of_obj curves) = Ok out ->
  exists c0 c1 c2 c3 u1 u2 u3 b1 b2 b3,
    curves = [c0; c1; c2; c3] /\ Permutation [c1; c2; c3] [u1; u2; u3] /\
    let x1 := mrevo b1 u1 in let x2 := mrevo b2 u2 in let x3 := mrevo b3 u3 in
    out = map ec_of_obj [c0; x1; x2; x3] /\
    Forall (open_curve tol) [c0; x1; x2; x3] /\
    oclosed_loop rtol atol c0 x1 x2 x3.
Proof.
  intros Htol Hall E.
  destruct (loop_order2_sound rvo rtol atol _ _ E)
    as (e0 & e1 & e2 & e3 & used & b1 & b2 & b3 & y1 & y2 & y3 & Hcs & Hp & Hy & -> & Hc).
  destruct curves as [|c0 [|c1 [|c2 [|c3 [|c4 l]]]]]; try discriminate.
  cbn [map] in Hcs. injection Hcs as <- <- <- <-.
  destruct (Permutation_map_inv ec_of_obj [c1; c2; c3] (Permutation_sym Hp)) as (us & -> & Hpu).
  pose proof (Permutation_length Hpu) as Hlu.
  destruct us as [|u1 [|u2 [|u3 [|u4 us]]]]; try discriminate.
  inversion Hall as [|? ? H0 Hall1]; subst.
  assert (Hus : Forall (open_curve tol) [u1; u2; u3]) by (eapply Permutation_Forall; [exact Hpu|exact Hall1]).
  inversion Hus as [|? ? Hu1 Hus2]; subst. inversion Hus2 as [|? ? Hu2 Hus3]; subst.
  inversion Hus3 as [|? ? Hu3 _]; subst.
  cbn in Hy. injection Hy as -> -> ->.
  rewrite <- (ec_of_obj_mrevo tol b1 u1 Hu1), <- (ec_of_obj_mrevo tol b2 u2 Hu2), <- (ec_of_obj_mrevo tol b3 u3 Hu3) in Hc |- *.
  exists c0, c1, c2, c3, u1, u2, u3, b1, b2, b3.
  split; [reflexivity|]. split; [exact Hpu|]. cbv zeta. split; [reflexivity|]. split.
  - constructor; [exact H0|]. constructor; [apply open_curve_mrevo; assumption|].
    constructor; [apply open_curve_mrevo; assumption|]. constructor; [apply open_curve_mrevo; assumption|constructor].
  - exact Hc.
Qed.

(* C15 / COMPLETENESS on curve objects, no separation hypothesis: if SOME order [u1;u2;u3] of the last three curves
   and SOME directions close up within tolerance, the search succeeds, and (by soundness) returns an arrangement
   of the same curves that closes up *)
Theorem curve_loop_complete tol rtol atol (c0 c1 c2 c3 u1 u2 u3 : obj R) b1 b2 b3 :
  0 < tol -> Forall (open_curve tol) [c0; c1; c2; c3] ->
  Permutation [c1; c2; c3] [u1; u2; u3] ->
  oclosed_loop rtol atol c0 (mrevo b1 u1) (mrevo b2 u2) (mrevo b3 u3) ->
  exists v1 v2 v3 d1 d2 d3,
    Permutation [c1; c2; c3] [v1; v2; v3] /\
    let x1 := mrevo d1 v1 in let x2 := mrevo d2 v2 in let x3 := mrevo d3 v3 in
    @loop_order2 R NumR (obj R) rtol atol rvo (map ec_of_obj [c0; c1; c2; c3]) = Ok (map ec_of_obj [c0; x1; x2; x3]) /\
    Forall (open_curve tol) [c0; x1; x2; x3] /\
    oclosed_loop rtol atol c0 x1 x2 x3.
Proof.
  intros Htol Hall Hp Hc.
  inversion Hall as [|? ? H0 Hall1]; subst.
  assert (Hus : Forall (open_curve tol) [u1; u2; u3]) by (eapply Permutation_Forall; [exact Hp|exact Hall1]).
  inversion Hus as [|? ? Hu1 Hus2]; subst. inversion Hus2 as [|? ? Hu2 Hus3]; subst.
  inversion Hus3 as [|? ? Hu3 _]; subst.
  assert (Hc' : closed_loop rtol atol [ec_of_obj c0; mrev rvo b1 (ec_of_obj u1); mrev rvo b2 (ec_of_obj u2);
                                        mrev rvo b3 (ec_of_obj u3)]).
  { rewrite <- (ec_of_obj_mrevo tol b1 u1 Hu1), <- (ec_of_obj_mrevo tol b2 u2 Hu2), <- (ec_of_obj_mrevo tol b3 u3 Hu3).
    exact Hc. }
  destruct (loop_order2_complete rvo rtol atol (ec_of_obj c0) (ec_of_obj c1) (ec_of_obj c2) (ec_of_obj c3)
              (ec_of_obj u1) (ec_of_obj u2) (ec_of_obj u3) b1 b2 b3
              (Permutation_map ec_of_obj Hp) Hc') as (y1 & y2 & y3 & E & _).
  change [ec_of_obj c0; ec_of_obj c1; ec_of_obj c2; ec_of_obj c3] with (map ec_of_obj [c0; c1; c2; c3]) in E.
  destruct (curve_loop_sound tol rtol atol _ _ Htol Hall E)
    as (d0 & e1 & e2 & e3 & v1 & v2 & v3 & f1 & f2 & f3 & Hcs & Hpv & Hout & Hop & Hcl).
  injection Hcs as <- <- <- <-. cbv zeta in Hout, Hop, Hcl.
  exists v1, v2, v3, f1, f2, f3. split; [exact Hpv|]. cbv zeta.
  split; [rewrite E, Hout; reflexivity|]. split; assumption.
Qed.

(* reversing twice gives back the curve object (ReverseEndToEnd.reverse_involution) *)
Lemma rvo_involutive tol (o : obj R) : 0 < tol -> open_curve tol o -> rvo (rvo o) = o.
Proof.
  intros Htol (Hwf & b & Hb & Hper & _). unfold rvo.
  apply (reverse_involution tol o 0%nat Htol Hwf); rewrite Hb; [cbn; lia|exact Hper].
Qed.

(* ------------------------------------------------------------------------------------------------------- *)
(* 3. END TO END, at the level of the existing Coons theorem                                               *)
(* ------------------------------------------------------------------------------------------------------- *)
(* SectionProofs.coons_boundary (= Properties/C15.v C15_coons_boundary) is a statement on coordinate FUNCTIONS
   bottom, top, left, right : R -> R  over [0,1]:  coons b t l r u v = (1-v) b(u) + v t(u) + (1-u) l(v) + u r(v)
   - bilinear corner term; it has  b, t, l, r  as its boundary as soon as the four corners agree.  It is NOT a
   statement on control nets, so nothing is claimed here on the net arithmetic of coons_patch (s1 + s2 - s3 after
   make_splines_identical); what is proved is that the hypotheses of the function-level theorem are met by the
   curve objects the search hands to coons_patch, with the functions read off obj_eval. *)

(* coordinate c of the curve object evaluated at t (0 outside the domain; ev_ok: inside the domain it is the value
   returned by obj_eval) *)
Definition ev (tol : R) (o : obj R) (c : nat) (t : R) : R :=
  match @obj_eval R NumR tol o [t] with Ok v => coord c v | Err _ => 0 end.

Lemma ev_ok tol (o : obj R) b c t : o_bases o = [b] -> in_dom tol b t ->
  exists P, @obj_eval R NumR tol o [t] = Ok P /\ ev tol o c t = coord c P.
Proof.
  intros Hb Hdom. unfold ev, obj_eval. destruct (validate_spec tol (o_bases o) [t]) as [V _]. rewrite V.
  - eexists. split; reflexivity.
  - intros i Hi. rewrite Hb in Hi |- *. cbn [length] in Hi. assert (i = 0)%nat by lia. subst i. exact Hdom.
Qed.

(* an open curve parametrised over [0,1] *)
Definition unit_curve (tol : R) (o : obj R) : Prop :=
  wf_obj_R tol o /\ exists b, o_bases o = [b] /\ b_per1 b = 0%nat /\ clamped_start b /\ clamped_end b /\
                              @b_start R NumR b = 0 /\ @b_end R NumR b = 1.

Lemma unit_curve_open tol o : unit_curve tol o -> open_curve tol o.
Proof. intros (Hwf & b & Hb & Hper & Hcs & Hce & _). split; [exact Hwf|]. exists b. auto. Qed.

Lemma unit_curve_reverse tol o : 0 < tol -> unit_curve tol o -> unit_curve tol (rvo o).
Proof.
  intros Htol (Hwf & b & Hb & Hper & Hcs & Hce & H0 & H1).
  destruct (open_curve_reverse_basis tol o b Htol Hwf Hb Hper Hcs Hce) as (Hwf' & b' & Hb' & Hper' & Hcs' & Hce' & E0 & E1).
  split; [exact Hwf'|]. exists b'. rewrite E0, E1. auto 10.
Qed.

Lemma unit_curve_mrevo tol fl o : 0 < tol -> unit_curve tol o -> unit_curve tol (mrevo fl o).
Proof. intros Htol Ho. destruct fl; [apply unit_curve_reverse; assumption|exact Ho]. Qed.

Lemma ev_start tol o c : 0 < tol -> unit_curve tol o -> ev tol o c 0 = coord c (cpoint o (hd [] (o_cps o))).
Proof.
  intros Htol (Hwf & b & Hb & Hper & Hcs & Hce & H0 & H1).
  pose proof (curve_eval_start tol o b Htol Hwf Hb Hper Hcs) as E. rewrite H0 in E.
  unfold ev. rewrite E. reflexivity.
Qed.
Lemma ev_end tol o c : 0 < tol -> unit_curve tol o -> ev tol o c 1 = coord c (cpoint o (last (o_cps o) [])).
Proof.
  intros Htol (Hwf & b & Hb & Hper & Hcs & Hce & H0 & H1).
  pose proof (curve_eval_end tol o b Htol Hwf Hb Hper Hce) as E. rewrite H1 in E.
  unfold ev. rewrite E. reflexivity.
Qed.

(* same number of stored components: both rational or both not, same dimension (Curve.make_splines_compatible) *)
Definition same_kind (a b : obj R) : Prop := o_rat a = o_rat b /\ o_dim a = o_dim b.
Lemma cpoint_kind a b P : same_kind a b -> cpoint a P = cpoint b P.
Proof. intros [E1 E2]. unfold cpoint. rewrite E1, E2. reflexivity. Qed.
Lemma cpoint_rvo o P : cpoint (rvo o) P = cpoint o P.
Proof. reflexivity. Qed.
Lemma same_kind_mrevo a fl b : same_kind a b -> same_kind a (mrevo fl b).
Proof. destruct fl; intros H; exact H. Qed.

(* the reversed curve traverses the curve backwards: value at 1 - t = value of the curve at t *)
Lemma ev_reverse_unit tol o b c t :
  0 < tol -> unit_curve tol o -> o_bases o = [b] -> in_dom tol b t -> rev_ok (b_knots b) (b_order b) tol t ->
  ev tol (rvo o) c (1 - t) = ev tol o c t.
Proof.
  intros Htol (Hwf & b0 & Hb0 & Hper & _ & _ & H0 & H1) Hb Hdom Hrev.
  assert (b0 = b) by congruence. subst b0.
  pose proof (mrevo_eval tol true o b t Htol Hwf Hb Hper Hdom Hrev) as E. cbn [mrevo] in E.
  rewrite H0, H1 in E. replace (0 + 1 - t) with (1 - t) in E by ring.
  unfold ev. rewrite E. reflexivity.
Qed.

(* C15 / COONS on curve objects.  coons_patch(bottom, right, top, left) receives a directed loop and reverses top and
   left.  Hypotheses added to those of coons_boundary:
     - the four curves are open (clamped, non-periodic) and parametrised over [0,1]          (unit_curve)
     - they store the same kind of control points                                           (same_kind)
     - the loop closes EXACTLY: last control point of each = first control point of the next (closed_exact)
   No hypothesis relates the bases of opposite curves: at the level of evaluated functions it is not needed (it is
   needed to ADD control nets, which this theorem does not speak about).
   Conclusion: the four corner conditions of coons_boundary hold for the coordinate functions of
   (bottom, reversed top, reversed left, right), hence the blended function S has these as its boundary. *)
Theorem coons_of_edge_curves tol (bottom right top left : obj R) :
  0 < tol -> unit_curve tol bottom -> unit_curve tol right -> unit_curve tol top -> unit_curve tol left ->
  same_kind bottom right -> same_kind bottom top -> same_kind bottom left ->
  closed_exact (map ec_of_obj [bottom; right; top; left]) ->
  forall c,
  let S := coons (ev tol bottom c) (ev tol (rvo top) c) (ev tol (rvo left) c) (ev tol right c) in
  forall u v, S u 0 = ev tol bottom c u /\ S u 1 = ev tol (rvo top) c u /\
              S 0 v = ev tol (rvo left) c v /\ S 1 v = ev tol right c v.
Proof.
  intros Htol Ub Ur Ut Ul Kr Kt Kl (L1 & L2 & L3 & L4) c S u v.
  cbn [ec_of_obj e_first e_last] in L1, L2, L3, L4.
  pose proof (unit_curve_reverse tol top Htol Ut) as Ut'. pose proof (unit_curve_reverse tol left Htol Ul) as Ul'.
  destruct Ut as (Wt & bt & Hbt & Hpt & _). destruct Ul as (Wl & bl & Hbl & Hpl & _).
  destruct (obj_reverse_ends tol top bt Wt Hbt Hpt) as [Th Tl].
  destruct (obj_reverse_ends tol left bl Wl Hbl Hpl) as [Lh Ll].
  apply coons_boundary.
  - rewrite (ev_start tol (rvo left) c Htol Ul'), (ev_start tol bottom c Htol Ub).
    rewrite cpoint_rvo, Lh, L4. rewrite (cpoint_kind bottom left _ Kl). reflexivity.
  - rewrite (ev_start tol right c Htol Ur), (ev_end tol bottom c Htol Ub).
    rewrite L1. rewrite (cpoint_kind bottom right _ Kr). reflexivity.
  - rewrite (ev_end tol (rvo left) c Htol Ul'), (ev_start tol (rvo top) c Htol Ut').
    rewrite !cpoint_rvo, Ll, Th, L3.
    rewrite <- (cpoint_kind bottom left _ Kl), <- (cpoint_kind bottom top _ Kt). reflexivity.
  - rewrite (ev_end tol right c Htol Ur), (ev_end tol (rvo top) c Htol Ut').
    rewrite cpoint_rvo, Tl, L2.
    rewrite <- (cpoint_kind bottom right _ Kr), <- (cpoint_kind bottom top _ Kt). reflexivity.
Qed.

(* ... in terms of the curves as they were handed over: the edge v = 1 is top traversed backwards and the edge u = 0
   is left traversed backwards *)
Corollary coons_of_edge_curves_orig tol (bottom right top left : obj R) :
  0 < tol -> unit_curve tol bottom -> unit_curve tol right -> unit_curve tol top -> unit_curve tol left ->
  same_kind bottom right -> same_kind bottom top -> same_kind bottom left ->
  closed_exact (map ec_of_obj [bottom; right; top; left]) ->
  forall c,
  let S := coons (ev tol bottom c) (ev tol (rvo top) c) (ev tol (rvo left) c) (ev tol right c) in
  (forall u, S u 0 = ev tol bottom c u) /\ (forall v, S 1 v = ev tol right c v) /\
  (forall bt t, o_bases top = [bt] -> in_dom tol bt t -> rev_ok (b_knots bt) (b_order bt) tol t ->
     S (1 - t) 1 = ev tol top c t) /\
  (forall bl t, o_bases left = [bl] -> in_dom tol bl t -> rev_ok (b_knots bl) (b_order bl) tol t ->
     S 0 (1 - t) = ev tol left c t).
Proof.
  intros Htol Ub Ur Ut Ul Kr Kt Kl HL c S.
  pose proof (coons_of_edge_curves tol bottom right top left Htol Ub Ur Ut Ul Kr Kt Kl HL c) as H.
  cbv zeta in H. fold S in H.
  split; [intros u; apply (H u 0)|]. split; [intros v; apply (H 0 v)|]. split.
  - intros bt t Hb Hd Hr. destruct (H (1 - t) 0) as (_ & E & _). rewrite E.
    apply (ev_reverse_unit tol top bt c t Htol Ut Hb Hd Hr).
  - intros bl t Hb Hd Hr. destruct (H 0 (1 - t)) as (_ & _ & E & _). rewrite E.
    apply (ev_reverse_unit tol left bl c t Htol Ul Hb Hd Hr).
Qed.

(* C15 / END TO END: search, then blend.  Four open unit curves of the same kind, given in any order and direction;
   if the repaired search accepts them and the arrangement it returns closes exactly, then the blended function of
   the arrangement (bottom, right, top, left) = (c0, x1, x2, x3) has the arranged curves as its boundary: c0 and x1
   as they are, x2 and x3 traversed backwards; each x_i is an input curve or its reversal (mrevo_eval). *)
Theorem edge_curves_coons_e2e tol rtol atol (curves : list (obj R)) out :
  0 < tol -> Forall (unit_curve tol) curves ->
  (forall a b, In a curves -> In b curves -> same_kind a b) ->
  @loop_order2 R NumR (obj R) rtol atol rvo (map ec_of_obj curves) = Ok out ->
  closed_exact out ->
  exists c0 c1 c2 c3 u1 u2 u3 b1 b2 b3,
    curves = [c0; c1; c2; c3] /\ Permutation [c1; c2; c3] [u1; u2; u3] /\
    let x1 := mrevo b1 u1 in let x2 := mrevo b2 u2 in let x3 := mrevo b3 u3 in
    out = map ec_of_obj [c0; x1; x2; x3] /\
    Forall (unit_curve tol) [c0; x1; x2; x3] /\
    forall c,
    let S := coons (ev tol c0 c) (ev tol (rvo x2) c) (ev tol (rvo x3) c) (ev tol x1 c) in
    forall u v, S u 0 = ev tol c0 c u /\ S u 1 = ev tol (rvo x2) c u /\
                S 0 v = ev tol (rvo x3) c v /\ S 1 v = ev tol x1 c v.
Proof.
  intros Htol Hall Hk E Hex.
  assert (Hop : Forall (open_curve tol) curves).
  { apply Forall_forall. intros o Ho. rewrite Forall_forall in Hall. apply unit_curve_open, Hall, Ho. }
  destruct (curve_loop_sound tol rtol atol curves out Htol Hop E)
    as (c0 & c1 & c2 & c3 & u1 & u2 & u3 & b1 & b2 & b3 & -> & Hp & Hout & _ & _).
  cbv zeta in Hout. exists c0, c1, c2, c3, u1, u2, u3, b1, b2, b3.
  split; [reflexivity|]. split; [exact Hp|]. cbv zeta. split; [exact Hout|].
  inversion Hall as [|? ? U0 Hall1]; subst.
  assert (Hus : Forall (unit_curve tol) [u1; u2; u3]) by (eapply Permutation_Forall; [exact Hp|exact Hall1]).
  inversion Hus as [|? ? Hu1 Hus2]; subst. inversion Hus2 as [|? ? Hu2 Hus3]; subst.
  inversion Hus3 as [|? ? Hu3 _]; subst.
  assert (Hin : forall u, In u [u1; u2; u3] -> In u [c0; c1; c2; c3]).
  { intros u Hu. right. eapply Permutation_in; [apply Permutation_sym; exact Hp|exact Hu]. }
  assert (K : forall u, In u [u1; u2; u3] -> same_kind c0 u).
  { intros u Hu. apply Hk; [left; reflexivity|apply Hin, Hu]. }
  pose proof (unit_curve_mrevo tol b1 u1 Htol Hu1) as X1. pose proof (unit_curve_mrevo tol b2 u2 Htol Hu2) as X2.
  pose proof (unit_curve_mrevo tol b3 u3 Htol Hu3) as X3.
  split; [repeat (constructor; [assumption|]); constructor|].
  apply (coons_of_edge_curves tol c0 (mrevo b1 u1) (mrevo b2 u2) (mrevo b3 u3) Htol U0 X1 X2 X3); [| | |exact Hex];
    apply same_kind_mrevo, K; cbn; tauto.
Qed.

(* rational curves: coons_patch blends the STORED rows (homogeneous coordinates).  The theorems above speak about
   obj_eval (projected); applied to  homog o  (the same net read as a non-rational object with one more component,
   whose obj_eval is the homogeneous evaluation eval_h of o) they give the statement on homogeneous coordinates. *)
Definition homog (o : obj R) : obj R := mkObj (o_bases o) (o_cps o) (@o_ncomp R o) false.

Lemma homog_ncomp o : @o_ncomp R (homog o) = @o_ncomp R o.
Proof. destruct o as [bs cps dim rat]. unfold o_ncomp, homog. cbn. lia. Qed.

Lemma homog_eval tol o ts :
  @obj_eval R NumR tol (homog o) ts =
  match @validate R NumR tol (o_bases o) ts with Err e => Err e | Ok ts' => Ok (@eval_h R NumR tol o [] [] ts') end.
Proof.
  unfold obj_eval. cbn [homog o_bases o_rat]. destruct (validate tol (o_bases o) ts); [|reflexivity].
  unfold eval_h. rewrite homog_ncomp. reflexivity.
Qed.

Lemma unit_curve_homog tol o : unit_curve tol o -> unit_curve tol (homog o).
Proof.
  intros ((HB & HV & HL) & b & Hb & Hrest). split; [|exists b; exact (conj Hb Hrest)].
  split; [exact HB|]. split; [rewrite homog_ncomp; exact HV|exact HL].
Qed.

Lemma homog_rvo o : homog (rvo o) = rvo (homog o).
Proof.
  destruct o as [bs cps dim rat]. unfold homog, rvo, obj_reverse, o_ncomp, o_shape. cbv zeta.
  cbn [o_bases o_cps o_dim o_rat]. rewrite Nat.add_0_r. reflexivity.
Qed.

Lemma ec_of_obj_homog_ends o : e_first (ec_of_obj (homog o)) = e_first (ec_of_obj o) /\ e_last (ec_of_obj (homog o)) = e_last (ec_of_obj o).
Proof. split; reflexivity. Qed.

Definition evh (tol : R) (o : obj R) (c : nat) (t : R) : R := ev tol (homog o) c t.

Corollary coons_of_edge_curves_homog tol (bottom right top left : obj R) :
  0 < tol -> unit_curve tol bottom -> unit_curve tol right -> unit_curve tol top -> unit_curve tol left ->
  same_kind bottom right -> same_kind bottom top -> same_kind bottom left ->
  closed_exact (map ec_of_obj [bottom; right; top; left]) ->
  forall c,
  let S := coons (evh tol bottom c) (evh tol (rvo top) c) (evh tol (rvo left) c) (evh tol right c) in
  forall u v, S u 0 = evh tol bottom c u /\ S u 1 = evh tol (rvo top) c u /\
              S 0 v = evh tol (rvo left) c v /\ S 1 v = evh tol right c v.
Proof.
  intros Htol Ub Ur Ut Ul Kr Kt Kl HL c. unfold evh. rewrite !homog_rvo.
  assert (HK : forall a b, same_kind a b -> same_kind (homog a) (homog b)).
  { intros a b [E1 E2]. split; [reflexivity|]. unfold homog, o_ncomp. cbn [o_dim]. rewrite E1, E2. reflexivity. }
  apply (coons_of_edge_curves tol (homog bottom) (homog right) (homog top) (homog left) Htol);
    try (apply unit_curve_homog; assumption); try (apply HK; assumption).
  exact HL.
Qed.

(* ------------------------------------------------------------------------------------------------------- *)
(* 3b. Control-net level (NOT derived from coons_boundary, which has no net-level form)                     *)
(* ------------------------------------------------------------------------------------------------------- *)
(* (i)  A surface object whose four boundary rows / columns of control points are given lists has, as its four
        edges, the curve objects over the corresponding basis with those lists as control nets (sections:
        SectionEndToEnd.section_eval, section_cps_slice).
   (ii) The bilinearly blended net  P[i][j] = (1-g_j) B_i + g_j T_i + (1-h_i) L_j + h_i R_j - corner term  with
        blending abscissae g (direction v) and h (direction u) that are 0 at the first and 1 at the last index has
        B, T, L, R as its boundary rows / columns.  With g, h the Greville abscissae of two clamped bases over
        [0,1] this is the net coons_patch produces when bottom / reversed top share a basis and reversed left /
        right share a basis (checked numerically against /repo on an example, not proved: it rests on
        make_splines_identical and the linear precision of B-splines).
   (iii) Together: the surface object over (bu, bv) with that net has the four curve objects as its edges. *)
Lemma obj_eta (e : obj R) bs cps dim rat :
  o_bases e = bs -> o_cps e = cps -> o_dim e = dim -> o_rat e = rat -> e = mkObj bs cps dim rat.
Proof. destruct e; cbn; intros; subst; reflexivity. Qed.

Lemma section_is_curve tol (o : obj R) sels bc cc :
  0 < tol -> wf_obj_R tol o -> Forall2 sec_ok sels (o_bases o) ->
  o_bases (@obj_section R NumR o sels) = [bc] -> length cc = @b_nfun R bc ->
  (forall i, (i < @b_nfun R bc)%nat ->
     nth i cc [] = nth (ravel (@o_shape R o) (sec_idx sels (@o_shape R o) [i])) (o_cps o) []) ->
  @obj_section R NumR o sels = mkObj [bc] cc (o_dim o) (o_rat o).
Proof.
  intros Htol Hwf Hs Hb Hlen Hent.
  pose proof (section_wf tol Htol o Hwf sels Hs) as (_ & _ & HL).
  apply obj_eta; [exact Hb| |reflexivity|reflexivity].
  unfold o_shape in HL at 1. rewrite Hb in HL. cbn [map prodl fold_right] in HL.
  apply (nth_ext _ _ [] []); [lia|]. intros i Hi. rewrite HL in Hi.
  rewrite Hent by lia.
  rewrite <- (section_cps_slice tol o sels [i] Hwf (Forall2_length' _ _ _ Hs)).
  - unfold o_shape at 1. rewrite Hb. cbn [map ravel fold_right]. f_equal. lia.
  - unfold o_shape. rewrite Hb. cbn [map]. constructor; [lia|constructor].
Qed.

Theorem surface_boundary_curves tol (o : obj R) bu bv (B T L Rr : list (list R)) :
  0 < tol -> wf_obj_R tol o -> o_bases o = [bu; bv] -> open_dir bu -> open_dir bv ->
  length B = @b_nfun R bu -> length T = @b_nfun R bu -> length L = @b_nfun R bv -> length Rr = @b_nfun R bv ->
  (forall i, (i < @b_nfun R bu)%nat -> nth i B [] = nth (i * @b_nfun R bv) (o_cps o) []) ->
  (forall i, (i < @b_nfun R bu)%nat -> nth i T [] = nth (i * @b_nfun R bv + (@b_nfun R bv - 1)) (o_cps o) []) ->
  (forall j, (j < @b_nfun R bv)%nat -> nth j L [] = nth j (o_cps o) []) ->
  (forall j, (j < @b_nfun R bv)%nat -> nth j Rr [] = nth ((@b_nfun R bu - 1) * @b_nfun R bv + j) (o_cps o) []) ->
  (forall u, @obj_eval R NumR tol o [u; @b_start R NumR bv] = @obj_eval R NumR tol (mkObj [bu] B (o_dim o) (o_rat o)) [u]) /\
  (forall u, @obj_eval R NumR tol o [u; @b_end R NumR bv] = @obj_eval R NumR tol (mkObj [bu] T (o_dim o) (o_rat o)) [u]) /\
  (forall v, @obj_eval R NumR tol o [@b_start R NumR bu; v] = @obj_eval R NumR tol (mkObj [bv] L (o_dim o) (o_rat o)) [v]) /\
  (forall v, @obj_eval R NumR tol o [@b_end R NumR bu; v] = @obj_eval R NumR tol (mkObj [bv] Rr (o_dim o) (o_rat o)) [v]).
Proof.
  intros Htol Hwf Hb (Pu & Su & Eu) (Pv & Sv & Ev) LB LT LL LR HB HT HL HR.
  assert (S20 : Forall2 sec_ok [2; 0]%nat (o_bases o)) by (rewrite Hb; constructor; [exact I|constructor; [split; assumption|constructor]]).
  assert (S21 : Forall2 sec_ok [2; 1]%nat (o_bases o)) by (rewrite Hb; constructor; [exact I|constructor; [split; assumption|constructor]]).
  assert (S02 : Forall2 sec_ok [0; 2]%nat (o_bases o)) by (rewrite Hb; constructor; [split; assumption|constructor; [exact I|constructor]]).
  assert (S12 : Forall2 sec_ok [1; 2]%nat (o_bases o)) by (rewrite Hb; constructor; [split; assumption|constructor; [exact I|constructor]]).
  split; [|split; [|split]]; intros t.
  - rewrite <- (section_is_curve tol o [2; 0]%nat bu B Htol Hwf S20).
    + rewrite (section_eval tol Htol o Hwf _ S20). rewrite Hb. reflexivity.
    + unfold obj_section. cbn [o_bases]. rewrite Hb. reflexivity.
    + exact LB.
    + intros i Hi. rewrite (HB i Hi). unfold o_shape. rewrite Hb.
      cbn [map sec_idx Nat.eqb hd tl ravel fold_right]. f_equal. lia.
  - rewrite <- (section_is_curve tol o [2; 1]%nat bu T Htol Hwf S21).
    + rewrite (section_eval tol Htol o Hwf _ S21). rewrite Hb. reflexivity.
    + unfold obj_section. cbn [o_bases]. rewrite Hb. reflexivity.
    + exact LT.
    + intros i Hi. rewrite (HT i Hi). unfold o_shape. rewrite Hb.
      cbn [map sec_idx Nat.eqb hd tl ravel fold_right]. f_equal. lia.
  - rewrite <- (section_is_curve tol o [0; 2]%nat bv L Htol Hwf S02).
    + rewrite (section_eval tol Htol o Hwf _ S02). rewrite Hb. reflexivity.
    + unfold obj_section. cbn [o_bases]. rewrite Hb. reflexivity.
    + exact LL.
    + intros j Hj. rewrite (HL j Hj). unfold o_shape. rewrite Hb.
      cbn [map sec_idx Nat.eqb hd tl ravel fold_right]. f_equal. lia.
  - rewrite <- (section_is_curve tol o [1; 2]%nat bv Rr Htol Hwf S12).
    + rewrite (section_eval tol Htol o Hwf _ S12). rewrite Hb. reflexivity.
    + unfold obj_section. cbn [o_bases]. rewrite Hb. reflexivity.
    + exact LR.
    + intros j Hj. rewrite (HR j Hj). unfold o_shape. rewrite Hb.
      cbn [map sec_idx Nat.eqb hd tl ravel fold_right]. f_equal. lia.
Qed.

Section CoonsNet.
Variables (ncomp n m : nat).
Variables (g h : nat -> R).                 (* blending abscissae: g j along v (m of them), h i along u (n of them) *)
Variables (B T L Rr : list (list R)).       (* bottom, top: n points (increasing u); left, right: m points (increasing v) *)

Definition cpt (P : list (list R)) (i c : nat) : R := coord c (nth i P []).
Definition coons_entry (i j c : nat) : R :=
  ((1 - g j) * cpt B i c + g j * cpt T i c) + ((1 - h i) * cpt L j c + h i * cpt Rr j c)
  - ((1 - h i) * (1 - g j) * cpt B 0 c + h i * (1 - g j) * cpt B (n - 1) c
     + (1 - h i) * g j * cpt T 0 c + h i * g j * cpt T (n - 1) c).
(* flat net in C order: index i*m + j *)
Definition coons_net : list (list R) :=
  map (fun f => map (coons_entry (f / m) (f mod m)) (seq 0 ncomp)) (seq 0 (n * m)).

Lemma coons_net_length : length coons_net = (n * m)%nat.
Proof. unfold coons_net. rewrite map_length, seq_length. reflexivity. Qed.
Lemma coons_net_vec : Forall (fun v => length v = ncomp) coons_net.
Proof.
  apply Forall_forall. intros v Hv. unfold coons_net in Hv. apply in_map_iff in Hv. destruct Hv as (f & <- & _).
  rewrite map_length, seq_length. reflexivity.
Qed.
Lemma coons_net_nth i j : (i < n)%nat -> (j < m)%nat ->
  nth (i * m + j) coons_net [] = map (coons_entry i j) (seq 0 ncomp).
Proof.
  intros Hi Hj. unfold coons_net.
  rewrite (nth_map_gen _ _ (i * m + j) [] 0%nat) by (rewrite seq_length; nia).
  rewrite seq_nth by nia. cbn [Nat.add].
  rewrite Nat.div_add_l by lia. rewrite Nat.div_small by exact Hj. rewrite Nat.add_0_r.
  rewrite Nat.add_comm, Nat.mod_add by lia. rewrite Nat.mod_small by exact Hj. reflexivity.
Qed.

Lemma vec_eta (v : list R) : length v = ncomp -> v = map (fun c => coord c v) (seq 0 ncomp).
Proof.
  intros Hl. apply (nth_ext _ _ 0 0); [rewrite map_length, seq_length; exact Hl|].
  intros c Hc. rewrite (nth_map_gen _ _ c 0 0%nat) by (rewrite seq_length; lia). rewrite seq_nth by lia. reflexivity.
Qed.

Hypothesis Hn : (0 < n)%nat.
Hypothesis Hm : (0 < m)%nat.
Hypothesis VB : Forall (fun v => length v = ncomp) B.
Hypothesis VT : Forall (fun v => length v = ncomp) T.
Hypothesis VL : Forall (fun v => length v = ncomp) L.
Hypothesis VR : Forall (fun v => length v = ncomp) Rr.
Hypothesis LB : length B = n.
Hypothesis LT : length T = n.
Hypothesis LL : length L = m.
Hypothesis LR : length Rr = m.
Hypothesis Hg0 : g 0%nat = 0.
Hypothesis Hg1 : g (m - 1)%nat = 1.
Hypothesis Hh0 : h 0%nat = 0.
Hypothesis Hh1 : h (n - 1)%nat = 1.
(* corners: left starts where bottom starts, right starts where bottom ends, left ends where top starts, right ends
   where top ends *)
Hypothesis C00 : nth 0 L [] = nth 0 B [].
Hypothesis C10 : nth 0 Rr [] = nth (n - 1) B [].
Hypothesis C01 : nth (m - 1) L [] = nth 0 T [].
Hypothesis C11 : nth (m - 1) Rr [] = nth (n - 1) T [].

Lemma vec_len (P : list (list R)) i : Forall (fun v => length v = ncomp) P -> (i < length P)%nat -> length (nth i P []) = ncomp.
Proof. intros HV Hi. rewrite Forall_forall in HV. apply HV, nth_In, Hi. Qed.

(* column j = 0 is the bottom net, column j = m-1 the top net (these two need the corner conditions) *)
Theorem coons_net_bottom i : (i < n)%nat -> nth (i * m) coons_net [] = nth i B [].
Proof.
  intros Hi. rewrite <- (Nat.add_0_r (i * m)). rewrite coons_net_nth by lia.
  rewrite (vec_eta (nth i B [])) by (apply vec_len; [exact VB|lia]).
  apply map_ext. intros c. unfold coons_entry, cpt. rewrite Hg0, C00, C10. ring.
Qed.
Theorem coons_net_top i : (i < n)%nat -> nth (i * m + (m - 1)) coons_net [] = nth i T [].
Proof.
  intros Hi. rewrite coons_net_nth by lia.
  rewrite (vec_eta (nth i T [])) by (apply vec_len; [exact VT|lia]).
  apply map_ext. intros c. unfold coons_entry, cpt. rewrite Hg1, C01, C11. ring.
Qed.
(* row i = 0 is the left net, row i = n-1 the right net *)
Theorem coons_net_left j : (j < m)%nat -> nth j coons_net [] = nth j L [].
Proof.
  intros Hj. change j with (0 * m + j)%nat at 1. rewrite coons_net_nth by lia.
  rewrite (vec_eta (nth j L [])) by (apply vec_len; [exact VL|lia]).
  apply map_ext. intros c. unfold coons_entry, cpt. rewrite Hh0. ring.
Qed.
Theorem coons_net_right j : (j < m)%nat -> nth ((n - 1) * m + j) coons_net [] = nth j Rr [].
Proof.
  intros Hj. rewrite coons_net_nth by lia.
  rewrite (vec_eta (nth j Rr [])) by (apply vec_len; [exact VR|lia]).
  apply map_ext. intros c. unfold coons_entry, cpt. rewrite Hh1. ring.
Qed.
End CoonsNet.

(* (iii) the surface object over (bu, bv) with the blended net *)
Definition coons_obj (bu bv : basis R) (dim : nat) (rat : bool) (g h : nat -> R) (B T L Rr : list (list R)) : obj R :=
  mkObj [bu; bv]
        (coons_net (dim + (if rat then 1 else 0)) (@b_nfun R bu) (@b_nfun R bv) g h B T L Rr) dim rat.

Lemma hd_nth0 {A} (l : list A) d : nth 0 l d = hd d l.
Proof. destruct l; reflexivity. Qed.

(* cb, ct : bottom and top over the SAME basis bu, both in the direction of increasing u;
   cl, cr : left and right over the SAME basis bv, both in the direction of increasing v *)
Theorem coons_surface_edges tol (cb ct cl cr : obj R) bu bv (g h : nat -> R) :
  0 < tol ->
  wf_obj_R tol cb -> wf_obj_R tol ct -> wf_obj_R tol cl -> wf_obj_R tol cr ->
  o_bases cb = [bu] -> o_bases ct = [bu] -> o_bases cl = [bv] -> o_bases cr = [bv] ->
  open_dir bu -> open_dir bv ->
  same_kind cb ct -> same_kind cb cl -> same_kind cb cr ->
  g 0%nat = 0 -> g (@b_nfun R bv - 1)%nat = 1 -> h 0%nat = 0 -> h (@b_nfun R bu - 1)%nat = 1 ->
  hd [] (o_cps cl) = hd [] (o_cps cb) -> hd [] (o_cps cr) = last (o_cps cb) [] ->
  last (o_cps cl) [] = hd [] (o_cps ct) -> last (o_cps cr) [] = last (o_cps ct) [] ->
  let S := coons_obj bu bv (o_dim cb) (o_rat cb) g h (o_cps cb) (o_cps ct) (o_cps cl) (o_cps cr) in
  wf_obj_R tol S /\
  (forall u, @obj_eval R NumR tol S [u; @b_start R NumR bv] = @obj_eval R NumR tol cb [u]) /\
  (forall u, @obj_eval R NumR tol S [u; @b_end R NumR bv] = @obj_eval R NumR tol ct [u]) /\
  (forall v, @obj_eval R NumR tol S [@b_start R NumR bu; v] = @obj_eval R NumR tol cl [v]) /\
  (forall v, @obj_eval R NumR tol S [@b_end R NumR bu; v] = @obj_eval R NumR tol cr [v]).
Proof.
  intros Htol Wb Wt Wl Wr Bb Bt Bl Br Ou Ov [Kt1 Kt2] [Kl1 Kl2] [Kr1 Kr2] Hg0 Hg1 Hh0 Hh1 C00 C10 C01 C11 S.
  destruct (curve_wf_parts tol cb bu Wb Bb) as (WBu & VB & LB).
  destruct (curve_wf_parts tol ct bu Wt Bt) as (_ & VT & LT).
  destruct (curve_wf_parts tol cl bv Wl Bl) as (WBv & VL & LL).
  destruct (curve_wf_parts tol cr bv Wr Br) as (_ & VR & LR).
  set (nc := (o_dim cb + (if o_rat cb then 1 else 0))%nat).
  assert (Nb : @o_ncomp R cb = nc) by reflexivity.
  assert (Nt : @o_ncomp R ct = nc) by (unfold o_ncomp, nc; rewrite <- Kt1, <- Kt2; reflexivity).
  assert (Nl : @o_ncomp R cl = nc) by (unfold o_ncomp, nc; rewrite <- Kl1, <- Kl2; reflexivity).
  assert (Nr : @o_ncomp R cr = nc) by (unfold o_ncomp, nc; rewrite <- Kr1, <- Kr2; reflexivity).
  rewrite Nb in VB. rewrite Nt in VT. rewrite Nl in VL. rewrite Nr in VR.
  pose proof WBu as (_ & _ & _ & Hn & _). pose proof WBv as (_ & _ & _ & Hm & _).
  set (n := @b_nfun R bu) in *. set (m := @b_nfun R bv) in *.
  assert (D00 : nth 0 (o_cps cl) [] = nth 0 (o_cps cb) []) by (rewrite !hd_nth0; exact C00).
  assert (D10 : nth 0 (o_cps cr) [] = nth (n - 1) (o_cps cb) []) by (rewrite hd_nth0, <- LB, nth_pred_last; exact C10).
  assert (D01 : nth (m - 1) (o_cps cl) [] = nth 0 (o_cps ct) []) by (rewrite hd_nth0, <- LL, nth_pred_last; exact C01).
  assert (D11 : nth (m - 1) (o_cps cr) [] = nth (n - 1) (o_cps ct) []) by (rewrite <- LR, <- LT, !nth_pred_last; exact C11).
  assert (WS : wf_obj_R tol S).
  { split; [|split].
    - constructor; [exact WBu|constructor; [exact WBv|constructor]].
    - apply coons_net_vec.
    - unfold S, coons_obj. cbn [o_cps]. rewrite coons_net_length. unfold o_shape. cbn. fold n m. lia. }
  split; [exact WS|].
  assert (Eb : mkObj [bu] (o_cps cb) (o_dim S) (o_rat S) = cb) by (symmetry; apply obj_eta; auto).
  assert (Et : mkObj [bu] (o_cps ct) (o_dim S) (o_rat S) = ct) by (symmetry; apply obj_eta; auto).
  assert (El : mkObj [bv] (o_cps cl) (o_dim S) (o_rat S) = cl) by (symmetry; apply obj_eta; auto).
  assert (Er : mkObj [bv] (o_cps cr) (o_dim S) (o_rat S) = cr) by (symmetry; apply obj_eta; auto).
  assert (HB : forall i, (i < n)%nat -> nth i (o_cps cb) [] = nth (i * m) (o_cps S) []).
  { intros i Hi. symmetry. apply (coons_net_bottom nc n m g h); assumption. }
  assert (HT : forall i, (i < n)%nat -> nth i (o_cps ct) [] = nth (i * m + (m - 1)) (o_cps S) []).
  { intros i Hi. symmetry. apply (coons_net_top nc n m g h); assumption. }
  assert (HL : forall j, (j < m)%nat -> nth j (o_cps cl) [] = nth j (o_cps S) []).
  { intros j Hj. symmetry. apply (coons_net_left nc n m g h); assumption. }
  assert (HR : forall j, (j < m)%nat -> nth j (o_cps cr) [] = nth ((n - 1) * m + j) (o_cps S) []).
  { intros j Hj. symmetry. apply (coons_net_right nc n m g h); assumption. }
  pose proof (surface_boundary_curves tol S bu bv (o_cps cb) (o_cps ct) (o_cps cl) (o_cps cr) Htol WS eq_refl Ou Ov
                LB LT LL LR HB HT HL HR) as H.
  rewrite Eb, Et, El, Er in H. exact H.
Qed.

(* C15 / END TO END at control-net level: the arranged loop (bottom, right, top, left) handed to coons_patch, top and
   left reversed there.  Hypotheses beyond open curves of the same kind and an exactly closed loop:
     EQUAL BASES of opposite curves after the reversal (what Curve.make_splines_identical establishes in
     edge_curves(bottom, top) and edge_curves(left, right)):  bottom and reversed top over bu, reversed left and
     right over bv;  blending abscissae g, h that are 0 / 1 at the first / last index.
   Conclusion: the surface object over (bu, bv) with the blended net is well formed and its four edges evaluate, at
   every parameter, as bottom, reversed top, reversed left, right (reversed top / left evaluate as top / left at
   a+b-t: mrevo_eval). *)
Theorem coons_surface_of_loop tol (bottom right top left : obj R) bu bv (g h : nat -> R) :
  0 < tol ->
  open_curve tol bottom -> open_curve tol right -> open_curve tol top -> open_curve tol left ->
  o_bases bottom = [bu] -> o_bases (rvo top) = [bu] -> o_bases (rvo left) = [bv] -> o_bases right = [bv] ->
  same_kind bottom right -> same_kind bottom top -> same_kind bottom left ->
  g 0%nat = 0 -> g (@b_nfun R bv - 1)%nat = 1 -> h 0%nat = 0 -> h (@b_nfun R bu - 1)%nat = 1 ->
  closed_exact (map ec_of_obj [bottom; right; top; left]) ->
  let S := coons_obj bu bv (o_dim bottom) (o_rat bottom) g h
             (o_cps bottom) (rev (o_cps top)) (rev (o_cps left)) (o_cps right) in
  wf_obj_R tol S /\
  (forall u, @obj_eval R NumR tol S [u; @b_start R NumR bv] = @obj_eval R NumR tol bottom [u]) /\
  (forall u, @obj_eval R NumR tol S [u; @b_end R NumR bv] = @obj_eval R NumR tol (rvo top) [u]) /\
  (forall v, @obj_eval R NumR tol S [@b_start R NumR bu; v] = @obj_eval R NumR tol (rvo left) [v]) /\
  (forall v, @obj_eval R NumR tol S [@b_end R NumR bu; v] = @obj_eval R NumR tol right [v]).
Proof.
  intros Htol Ob Or Ot Ol Bb Bt Bl Br Kr Kt Kl Hg0 Hg1 Hh0 Hh1 (L1 & L2 & L3 & L4).
  cbn [ec_of_obj e_first e_last] in L1, L2, L3, L4.
  pose proof (open_curve_reverse tol top Htol Ot) as Ot'. pose proof (open_curve_reverse tol left Htol Ol) as Ol'.
  destruct Ot as (Wt & bt & Hbt & Hpt & _). destruct Ol as (Wl & bl & Hbl & Hpl & _).
  destruct (obj_reverse_ends tol top bt Wt Hbt Hpt) as [Th Tl].
  destruct (obj_reverse_ends tol left bl Wl Hbl Hpl) as [Lh Ll].
  rewrite <- (obj_reverse_cps tol top bt Wt Hbt Hpt), <- (obj_reverse_cps tol left bl Wl Hbl Hpl).
  destruct Ob as (Wb & b0 & Hb0 & Pb & Sb & Eb). assert (b0 = bu) by congruence. subst b0.
  destruct Or as (Wr & b1 & Hb1 & Pr & Sr & Er). assert (b1 = bv) by congruence. subst b1.
  destruct Ot' as (Wt' & _). destruct Ol' as (Wl' & _).
  apply (coons_surface_edges tol bottom (rvo top) (rvo left) right bu bv g h Htol Wb Wt' Wl' Wr Bb Bt Bl Br
           (conj Pb (conj Sb Eb)) (conj Pr (conj Sr Er)) Kt Kl Kr Hg0 Hg1 Hh0 Hh1).
  - rewrite Lh. exact L4.
  - symmetry. exact L1.
  - rewrite Ll, Th. symmetry. exact L3.
  - rewrite Tl. exact L2.
Qed.

(* ------------------------------------------------------------------------------------------------------- *)
(* Non-vacuity on R: the four sides of the unit square satisfy all hypotheses of sections 2, 3 and 3b       *)
(* ------------------------------------------------------------------------------------------------------- *)
Definition lin01 : basis R := mkBasis 2 [0; 0; 1; 1] 0.
Definition segR (P0 P1 : list R) : obj R := mkObj [lin01] [P0; P1] 2 false.

Lemma segR_unit_curve P0 P1 : length P0 = 2%nat -> length P1 = 2%nat -> unit_curve (1/4) (segR P0 P1).
Proof.
  intros H0 H1. split.
  - split; [|split].
    + constructor; [|constructor]. unfold wf_basis_R, lin01, b_start, b_end, b_nfun. cbn [b_knots b_order b_per1 length].
      split; [|split; [lia|split; [lia|split; [lia|]]]].
      * apply sorted_kn_of_nth. intros i j Hij. cbn [length] in Hij.
        do 4 (destruct i as [|i]; [do 4 (destruct j as [|j]; [cbn; first [lra|lia]|]); lia|]). lia.
      * unfold kn. cbn. lra.
    + constructor; [exact H0|constructor; [exact H1|constructor]].
    + reflexivity.
  - exists lin01. split; [reflexivity|]. split; [reflexivity|].
    unfold clamped_start, clamped_end, lin01, b_start, b_end, kn. cbn [b_knots b_order length Nat.sub nth last].
    split; [|split; [|split; [reflexivity|reflexivity]]].
    + split; [|lra]. intros j Hj. do 2 (destruct j as [|j]; [reflexivity|]). lia.
    + split; [|lra]. intros j Hj. do 2 (destruct j as [|j]; [lia|]). do 2 (destruct j as [|j]; [reflexivity|]). lia.
Qed.

Lemma segR_reverse_basis P0 P1 : o_bases (rvo (segR P0 P1)) = [lin01].
Proof.
  unfold rvo, obj_reverse, segR. cbv zeta. cbn [o_bases nth upd]. unfold basis_reverse, lin01, b_start, b_end, kn.
  cbn [b_knots b_order b_per1 length Nat.sub nth last rev app map]. f_equal. f_equal.
  cbn [nadd nmul ndiv nsub NumR]. repeat (apply (f_equal2 (@cons R)); [field|]). reflexivity.
Qed.

Theorem unit_square_witness :
  let tol := 1/4 in
  let bottom := segR [0; 0] [1; 0] in let right := segR [1; 0] [1; 1] in
  let top := segR [1; 1] [0; 1] in let left := segR [0; 1] [0; 0] in
  (forall c,
     let S := coons (ev tol bottom c) (ev tol (rvo top) c) (ev tol (rvo left) c) (ev tol right c) in
     forall u v, S u 0 = ev tol bottom c u /\ S u 1 = ev tol (rvo top) c u /\
                 S 0 v = ev tol (rvo left) c v /\ S 1 v = ev tol right c v) /\
  (let S := coons_obj lin01 lin01 2 false INR INR (o_cps bottom) (rev (o_cps top)) (rev (o_cps left)) (o_cps right) in
   wf_obj_R tol S /\
   (forall u, @obj_eval R NumR tol S [u; 0] = @obj_eval R NumR tol bottom [u]) /\
   (forall u, @obj_eval R NumR tol S [u; 1] = @obj_eval R NumR tol (rvo top) [u]) /\
   (forall v, @obj_eval R NumR tol S [0; v] = @obj_eval R NumR tol (rvo left) [v]) /\
   (forall v, @obj_eval R NumR tol S [1; v] = @obj_eval R NumR tol right [v])).
Proof.
  intros tol bottom right top left.
  assert (Htol : 0 < tol) by (unfold tol; lra).
  assert (Ub : unit_curve tol bottom) by (apply segR_unit_curve; reflexivity).
  assert (Ur : unit_curve tol right) by (apply segR_unit_curve; reflexivity).
  assert (Ut : unit_curve tol top) by (apply segR_unit_curve; reflexivity).
  assert (Ul : unit_curve tol left) by (apply segR_unit_curve; reflexivity).
  assert (HL : closed_exact (map ec_of_obj [bottom; right; top; left])) by (cbn; repeat split; reflexivity).
  split.
  - apply (coons_of_edge_curves tol bottom right top left Htol Ub Ur Ut Ul); try (split; reflexivity). exact HL.
  - apply (coons_surface_of_loop tol bottom right top left lin01 lin01 INR INR Htol
             (unit_curve_open _ _ Ub) (unit_curve_open _ _ Ur) (unit_curve_open _ _ Ut) (unit_curve_open _ _ Ul)
             eq_refl (segR_reverse_basis _ _) (segR_reverse_basis _ _) eq_refl);
      try (split; reflexivity); try reflexivity. exact HL.
Qed.

(* ------------------------------------------------------------------------------------------------------- *)
(* 4. Executed on Q                                                                                        *)
(* ------------------------------------------------------------------------------------------------------- *)
Section ExamplesQ.
  Open Scope Q_scope.
  Let bq : basis Q := q_mkBasis 2 [0; 0; 1; 1] 0.
  (* the straight segment P0 -> P1 as an order-2 curve object *)
  Let seg (P0 P1 : list Q) : obj Q := q_mkObj [bq] [P0; P1] 2 false.
  Let pA : list Q := [0; 0].
  Let pB : list Q := [1; 0].
  Let pC : list Q := [1; 1].
  Let pD : list Q := [0; 1].
  Let rq (o : obj Q) : obj Q := q_obj_reverse o 0.
  Let run (l : list (obj Q)) := @loop_order2 Q NumQ (obj Q) 0 (1 # 100000000) rq (map ec_of_obj l).

  (* the four sides of the unit square, scrambled (bottom, left, right, top), left given A->D and right given C->B:
     the search on curve OBJECTS returns bottom, reversed right, top, reversed left, and the reversed objects are
     the segments B->C and D->A *)
  Example unit_square_objects_scrambled :
    run [seg pA pB; seg pA pD; seg pC pB; seg pC pD]
    = Ok (map ec_of_obj [seg pA pB; rq (seg pC pB); seg pC pD; rq (seg pA pD)]) /\
    rq (seg pC pB) = seg pB pC /\ rq (seg pA pD) = seg pD pA.
  Proof. vm_compute. repeat split; reflexivity. Qed.

  (* already a directed loop: returned unchanged *)
  Example unit_square_objects_in_order :
    run [seg pA pB; seg pB pC; seg pC pD; seg pD pA] = Ok (map ec_of_obj [seg pA pB; seg pB pC; seg pC pD; seg pD pA]).
  Proof. vm_compute. reflexivity. Qed.

  (* an open chain is rejected (fourth junction) *)
  Example open_chain_objects_rejected :
    run [seg pA pB; seg pB pC; seg pC pD; seg pD [-1; 2]] = Err RuntimeError.
  Proof. vm_compute. reflexivity. Qed.

  (* the bridge, executed on a rational quadratic with a non-uniform knot vector: reversed control net, swapped
     end points, mirrored knots *)
  Let o3 : obj Q := q_mkObj [q_mkBasis 3 [0; 0; 0; 1 # 3; 1; 1; 1] 0] [[0; 0; 1]; [1; 2; 2]; [3; 1; 1]; [4; 0; 3]] 2 true.
  Example bridge_executed :
    o_cps (rq o3) = rev (o_cps o3) /\ ec_of_obj (rq o3) = ec_rev rq (ec_of_obj o3) /\
    map b_knots (o_bases (rq o3)) = [[0; 0; 0; 2 # 3; 1; 1; 1]].
  Proof. vm_compute. repeat split; reflexivity. Qed.
End ExamplesQ.

Print Assumptions apply_rev_curve.
Print Assumptions obj_reverse_cps.
Print Assumptions ec_of_obj_reverse.
Print Assumptions open_curve_reverse_basis.
Print Assumptions curve_eval_start.
Print Assumptions curve_eval_end.
Print Assumptions mrevo_eval.
Print Assumptions curve_loop_sound.
Print Assumptions curve_loop_complete.
Print Assumptions coons_of_edge_curves.
Print Assumptions coons_of_edge_curves_orig.
Print Assumptions coons_of_edge_curves_homog.
Print Assumptions edge_curves_coons_e2e.
Print Assumptions surface_boundary_curves.
Print Assumptions coons_surface_edges.
Print Assumptions coons_surface_of_loop.
Print Assumptions unit_square_witness.
Print Assumptions unit_square_objects_scrambled.
