(* A curve on a non-periodic basis whose control points are the Greville abscissae is
   the identity map of its domain (Marsden's first-moment identity, via Spec.BSpline). *)
From Coq Require Import List Arith Reals Lra Lia Bool ZArith.
From SplipyModel Require Import Spec.BSpline Spec.Deriv Model.Num Model.BasisDef Model.BasisEval
  Proofs.Bridge Proofs.EvalConsequences.
Import ListNotations.
Open Scope R_scope.

Lemma sumn_R f a n : @sumn R NumR f a n = sumf f a n.
Proof. revert a; induction n as [|n IH]; intros a; cbn [sumn sumf]; [reflexivity|]. rewrite IH. reflexivity. Qed.

Lemma greville_R (k : list R) p i : @greville R NumR k p i = xi (@kn R NumR k) (p - 1) i.
Proof. unfold greville, xi, ksum. rewrite sumn_R, nofnat_R. reflexivity. Qed.

Section G.
Variable k : list R.
Variable p : nat.
Hypothesis HK : sorted (kn k).
Hypothesis Hp : (2 <= p)%nat.
Local Notation K := (@kn R NumR k).
Local Notation n_all := (length k - p)%nat.

Theorem greville_row_identity side t mu : (0 < n_all)%nat -> (p <= mu <= n_all)%nat ->
  in_span side (K (mu - 1)%nat) (K mu) t ->
  sumf (fun c => @greville R NumR k p c * nth c (@ref_row R NumR side k p 0 0 t) 0) 0 n_all = t.
Proof.
  intros Hn Hmu Hspan.
  rewrite (sumf_ext _ (fun c => xi K (p - 1) c * B side K (p - 1) c t)).
  2:{ intros c Hc. rewrite greville_R.
      pose proof (ref_row_entry k p 0 side 0 t c) as RE. rewrite Nat.sub_0_r in RE. rewrite RE by lia.
      f_equal.
      rewrite (sumf_ext _ (fun i => if (c =? i)%nat then B side K (p - 1) c t else 0)).
      - apply sumf_indicator. lia.
      - intros i Hi. rewrite Nat.mod_small by lia. rewrite Nat.eqb_sym.
        destruct (Nat.eqb_spec c i) as [->|]; reflexivity. }
  replace n_all with ((mu - p) + (p + (n_all - mu)))%nat by lia.
  rewrite !sumf_app.
  rewrite (sumf_zero _ 0 (mu - p)).
  2:{ intros i Hi. rewrite (B_support side K HK); [ring|]. replace (i + (p-1) + 1)%nat with (i + p)%nat by lia.
      pose proof (HK (i + p)%nat (mu - 1)%nat ltac:(lia)).
      unfold in_span, outside in *. destruct side; right; lra. }
  rewrite (sumf_zero _ (0 + (mu - p) + p)).
  2:{ intros i Hi. rewrite (B_support side K HK); [ring|].
      pose proof (HK mu i ltac:(lia)).
      unfold in_span, outside in *. destruct side; left; lra. }
  cbn [Nat.add]. rewrite Rplus_0_l, Rplus_0_r.
  pose proof (greville_identity side K HK (p - 2) (mu - 1) t ltac:(lia)) as GI.
  replace (S (mu - 1)) with mu in GI by lia.
  replace (S (p - 2)) with (p - 1)%nat in GI by lia.
  replace (mu - 1 - (p - 1))%nat with (mu - p)%nat in GI by lia.
  replace (S (p - 1)) with p in GI by lia.
  apply GI. exact Hspan.
Qed.
End G.
