(* Generic end-to-end lemma for operations that replace the basis of ONE non-periodic direction d of an object by
   another non-periodic basis with the same domain and apply a matrix M to the control net along d:
   if, for every parameter and both sides, the old row of basis values is the new row times M (row_rel), and the
   parameter snaps the same way on both knot vectors, then [obj_eval] of the new object equals [obj_eval] of the
   old one; and the new object is again well formed.  Knot insertion (C04) and order elevation (C05) are instances. *)
From Coq Require Import List Arith Reals Lra Lia Bool ZArith.
From SplipyModel Require Import Spec.BSpline Model.Num Model.BasisDef Model.BasisEval Model.Tensor Model.Obj Model.KnotInsert Model.Interp
  Proofs.KnotList Proofs.SpanCorrect Proofs.EvaluateSpec Proofs.EvalConsequences Proofs.SnapSpec Proofs.TensorLemmas Proofs.ObjEval
  Proofs.InsertMatrix Proofs.TensorApply Proofs.OrderRaise Proofs.InsertEndToEnd.
Import ListNotations.
Open Scope R_scope.

Section ChangeDir.
Variable tol : R.
Hypothesis Htol : 0 < tol.
Variable o : obj R.
Hypothesis Hwf : wf_obj_R tol o.
Variable d : nat.
Hypothesis Hd : (d < length (o_bases o))%nat.
Local Notation bd := (nth d (o_bases o) dflt_basis).
Hypothesis Hper : b_per1 bd = 0%nat.
Local Notation k := (b_knots bd).
Local Notation p := (b_order bd).
Variable k' : list R.
Variable p' : nat.
Variable M : list (list R).
Hypothesis HK' : sorted (@kn R NumR k').
Hypothesis Hp' : (1 <= p')%nat.
Hypothesis Hlen' : (2 * p' <= length k')%nat.
Hypothesis Hn' : (0 < length k' - p')%nat.
Hypothesis Hstart : @kn R NumR k' (p' - 1) = @kn R NumR k (p - 1).
Hypothesis Hend : @kn R NumR k' (length k' - p') = @kn R NumR k (length k - p).
Hypothesis Hrel : forall side t, row_rel (Brow side k p t) (Brow side k' p' t) M.
Local Notation b' := (@mkBasis R p' k' 0).
Local Notation o' := (mkObj (upd (o_bases o) d b') (@apply_dir R NumR (@o_ncomp R o) (@o_shape R o) d M (o_cps o)) (o_dim o) (o_rat o)).

Lemma cd_bd_wf : sorted (@kn R NumR k) /\ (1 <= p)%nat /\ (2 * p <= length k)%nat /\ (0 < @b_nfun R bd)%nat /\ 2 * tol <= @b_end R NumR bd - @b_start R NumR bd.
Proof. exact (bd_wf tol o Hwf d Hd). Qed.
Lemma cd_bd_eq : bd = mkBasis p k 0.
Proof. destruct bd as [pp kk per] eqn:E. cbn [b_per1 b_order b_knots] in *. rewrite Hper. reflexivity. Qed.
Lemma cd_start : @b_start R NumR b' = @b_start R NumR bd.
Proof. exact Hstart. Qed.
Lemma cd_end : @b_end R NumR b' = @b_end R NumR bd.
Proof. exact Hend. Qed.

Lemma cd_nth_bases i : nth i (upd (o_bases o) d b') dflt_basis = if Nat.eq_dec i d then b' else nth i (o_bases o) dflt_basis.
Proof. destruct (Nat.eq_dec i d) as [->|Hne]; [apply upd_nth_same; exact Hd|apply upd_nth_other; exact Hne]. Qed.

Local Notation rowsf := (fun tsv => @rows_at R NumR tol (o_bases o) [] [] tsv).

(* shapes *)
Lemma cd_row_len tsv i : (i < length (o_bases o))%nat -> length (nth i (rowsf tsv) []) = @b_nfun R (nth i (o_bases o) dflt_basis).
Proof.
  intros Hi. rewrite rows_at_nth by exact Hi. unfold basis_row, basis_evaluate. cbv zeta. unfold b_nfun.
  destruct (_ <=? _)%nat; cbn [map hd]; [apply repeat_length|].
  unfold dense_row. destruct (@eval_point R NumR _ _ _ _ _ _ _) as [[m MM]|]; [rewrite map_length, seq_length; reflexivity|apply repeat_length].
Qed.
Lemma cd_shape_rows tsv : map (@length R) (rowsf tsv) = @o_shape R o.
Proof.
  apply (nth_ext _ _ 0%nat 0%nat).
  - unfold o_shape. rewrite !map_length. apply rows_at_length.
  - intros i Hi. rewrite map_length, rows_at_length in Hi.
    rewrite (nth_map_gen _ _ i 0%nat []) by (rewrite rows_at_length; exact Hi). rewrite cd_row_len by exact Hi.
    unfold o_shape. rewrite (nth_map_gen _ _ i 0%nat dflt_basis) by exact Hi. reflexivity.
Qed.
Lemma cd_pos : (0 < prodl (@o_shape R o))%nat.
Proof.
  destruct Hwf as (HB & _). unfold o_shape, prodl. clear - HB. induction (o_bases o) as [|b bs IH]; cbn [map fold_right]; [lia|].
  inversion HB as [|? ? Hb Hbs]; subst. destruct Hb as (_ & _ & _ & Hnf & _). specialize (IH Hbs). nia.
Qed.

(* the new object is well formed *)
Lemma upd_map_length (rows : list (list R)) (N' : list R) dd : map (@length R) (upd rows dd N') = upd (map (@length R) rows) dd (length N').
Proof. revert dd. induction rows as [|a rows IH]; intros dd; [destruct dd; reflexivity|]. destruct dd; cbn [upd map]; [reflexivity|]. f_equal. apply IH. Qed.

Theorem change_dir_wf : wf_obj_R tol o'.
Proof.
  destruct Hwf as (HB & HV & HL). destruct cd_bd_wf as (HK & Hp & Hlen & Hn & Hw).
  split; [|split]; cbn [o_bases o_cps].
  - apply Forall_forall. intros b Hb. destruct (In_nth _ _ dflt_basis Hb) as (i & Hi & <-). rewrite upd_length in Hi.
    rewrite cd_nth_bases. destruct (Nat.eq_dec i d) as [->|_].
    + split; [exact HK'|]. split; [exact Hp'|]. split; [exact Hlen'|]. split; [unfold b_nfun; cbn [b_knots b_order b_per1]; lia|].
      rewrite cd_start, cd_end. exact Hw.
    + rewrite Forall_forall in HB. apply HB, nth_In, Hi.
  - change (@o_ncomp R o') with (@o_ncomp R o). apply Forall_apply_dir. exact HV.
  - pose proof (Hrel true 0) as (HC1 & _).
    rewrite length_apply_dir; [|unfold o_shape; rewrite map_length; exact Hd|exact HL|exact cd_pos].
    unfold o_shape. cbn [o_bases]. f_equal. rewrite HC1. unfold Brow. rewrite map_length, seq_length.
    clear. generalize (o_bases o) as bs. intros bs. revert d. induction bs as [|a bs IH]; intros dd; [destruct dd; reflexivity|].
    destruct dd; cbn [upd map]; [unfold b_nfun; cbn [b_knots b_order b_per1]; f_equal; lia|]. f_equal. apply IH.
Qed.

(* the parameter tuple *)
Variable ts : list R.
Hypothesis Hdom : forall i, (i < length (o_bases o))%nat -> in_dom tol (nth i (o_bases o) dflt_basis) (nth i ts 0).
Local Notation td := (nth d ts 0).
Hypothesis Hsnap1 : @snap1 R NumR k' tol td = @snap1 R NumR k tol td.
Hypothesis Hsnap2 : @snap1 R NumR k' tol (@snap1 R NumR k tol td) = @snap1 R NumR k tol (@snap1 R NumR k tol td).

Lemma cd_validate_same : @validate R NumR tol (upd (o_bases o) d b') ts = @validate R NumR tol (o_bases o) ts.
Proof.
  destruct (validate_spec tol (o_bases o) ts) as [V1 _]. rewrite (V1 Hdom).
  destruct (validate_spec tol (upd (o_bases o) d b') ts) as [V2 _]. rewrite V2.
  - rewrite upd_length. f_equal. apply map_ext_in. intros i Hi. apply in_seq in Hi. rewrite cd_nth_bases.
    destruct (Nat.eq_dec i d) as [->|_]; [cbn [b_knots]; exact Hsnap1|reflexivity].
  - rewrite upd_length. intros i Hi. rewrite cd_nth_bases. destruct (Nat.eq_dec i d) as [->|_]; [|apply Hdom; exact Hi].
    unfold in_dom. intros _. rewrite cd_start, cd_end. cbn [b_knots]. rewrite Hsnap1. apply (Hdom d Hd). exact Hper.
Qed.

Local Notation ts' := (map (fun i => @snap1 R NumR (b_knots (nth i (o_bases o) dflt_basis)) tol (nth i ts 0)) (seq 0 (length (o_bases o)))).
Local Notation rows := (@rows_at R NumR tol (o_bases o) [] [] ts').
Local Notation rows' := (@rows_at R NumR tol (upd (o_bases o) d b') [] [] ts').

Lemma cd_ts'_nth i : (i < length (o_bases o))%nat -> nth i ts' 0 = @snap1 R NumR (b_knots (nth i (o_bases o) dflt_basis)) tol (nth i ts 0).
Proof. intros Hi. rewrite (nth_map_gen _ _ i 0 0%nat) by (rewrite seq_length; exact Hi). rewrite seq_nth by exact Hi. reflexivity. Qed.

Lemma cd_norm : exists t' side,
  @normalise R NumR k p 0 tol true (@snap1 R NumR k tol (@snap1 R NumR k tol td)) = Some (t', side) /\
  @normalise R NumR k' p' 0 tol true (@snap1 R NumR k' tol (@snap1 R NumR k tol td)) = Some (t', side).
Proof.
  destruct cd_bd_wf as (HK & Hp & Hlen & Hn & Hw).
  pose proof (snap1_idem k HK tol Htol td) as Hid.
  pose proof (Hdom d Hd Hper) as Hin.
  destruct (normalise_some k p 0 tol Htol Hw (@snap1 R NumR k tol (@snap1 R NumR k tol td))) as (t' & side & E).
  { intros _. rewrite Hid. exact Hin. }
  exists t', side. split; [exact E|]. rewrite Hsnap2.
  unfold normalise in *. cbv zeta in *. rewrite Hstart, Hend. exact E.
Qed.

Lemma cd_rows' : exists t' side, nth d rows [] = Brow side k p t' /\ rows' = upd rows d (Brow side k' p' t').
Proof.
  destruct cd_bd_wf as (HK & Hp & Hlen & Hn & Hw).
  destruct cd_norm as (t' & side & E1 & E2). exists t', side.
  assert (Hrow_d : nth d rows [] = Brow side k p t').
  { rewrite rows_at_nth by exact Hd. rewrite !nth_nil_any. rewrite cd_ts'_nth by exact Hd. rewrite cd_bd_eq at 1.
    rewrite (basis_row_nonper tol k p _ HK Hp Hlen Htol). rewrite E1. reflexivity. }
  split; [exact Hrow_d|].
  apply (nth_ext _ _ [] []).
  - rewrite upd_length, !rows_at_length, upd_length. reflexivity.
  - intros i Hi. rewrite rows_at_length, upd_length in Hi.
    rewrite rows_at_nth by (rewrite upd_length; exact Hi). rewrite cd_nth_bases. rewrite !nth_nil_any.
    destruct (Nat.eq_dec i d) as [->|Hne].
    + rewrite upd_nth_same by (rewrite rows_at_length; exact Hd). rewrite cd_ts'_nth by exact Hd.
      rewrite (basis_row_nonper tol k' p' _ HK' Hp' Hlen' Htol). rewrite E2. reflexivity.
    + rewrite upd_nth_other by exact Hne. rewrite rows_at_nth by exact Hi. rewrite !nth_nil_any. reflexivity.
Qed.

Theorem change_dir_eval : @obj_eval R NumR tol o' ts = @obj_eval R NumR tol o ts.
Proof.
  unfold obj_eval. cbn [o_bases o_rat o_dim]. rewrite cd_validate_same.
  destruct (validate_spec tol (o_bases o) ts) as [V1 _]. rewrite (V1 Hdom).
  assert (EH : @eval_h R NumR tol o' [] [] ts' = @eval_h R NumR tol o [] [] ts').
  { unfold eval_h. cbn [o_bases o_cps]. change (@o_ncomp R o') with (@o_ncomp R o).
    destruct cd_rows' as (t' & side & Hrow & Hrows'). rewrite Hrows'.
    destruct Hwf as (HB & HV & HL).
    assert (Hnet : net_ok (@o_ncomp R o) rows (o_cps o)) by (split; [exact HV|rewrite cd_shape_rows; exact HL]).
    assert (Hpos : (0 < prodl (map (@length R) rows))%nat) by (rewrite cd_shape_rows; exact cd_pos).
    assert (Hdr : (d < length rows)%nat) by (rewrite rows_at_length; exact Hd).
    rewrite <- (cd_shape_rows ts').
    assert (RR : row_rel (nth d rows []) (Brow side k' p' t') M) by (rewrite Hrow; apply Hrel).
    assert (Hnet' : net_ok (@o_ncomp R o) (upd rows d (Brow side k' p' t'))
                      (@apply_dir R NumR (@o_ncomp R o) (map (@length R) rows) d M (o_cps o))).
    { destruct Hnet as [Hv Hl]. split; [apply Forall_apply_dir; exact Hv|].
      rewrite length_apply_dir; [| rewrite map_length; exact Hdr | exact Hl | exact Hpos ].
      f_equal. destruct RR as (HC1 & _). rewrite HC1. rewrite upd_map_length. reflexivity. }
    apply (nth_ext _ _ 0 0).
    - rewrite (teval_length _ _ _ Hnet'), (teval_length _ _ _ Hnet). reflexivity.
    - intros c Hc. rewrite (teval_length _ _ _ Hnet') in Hc.
      change (nth c ?v 0) with (coord c v).
      rewrite (teval_tsum (@o_ncomp R o) c rows Hc (o_cps o) Hnet).
      rewrite <- (tsum_apply_dir (@o_ncomp R o) c M rows d (Brow side k' p' t') (o_cps o) Hdr Hc Hnet Hpos RR).
      apply teval_tsum; [exact Hc|exact Hnet']. }
  rewrite EH. reflexivity.
Qed.
End ChangeDir.
