(* The (n+1) x n matrix written by BSplineBasis.insert_knot (non-periodic) has exactly Boehm's
   entries:  C[j][j] = alpha(j),  C[j+1][j] = 1 - alpha(j+1),  0 elsewhere. *)
From Coq Require Import List Arith Reals Lra Lia Bool ZArith.
From SplipyModel Require Import Spec.BSpline Spec.Boehm Model.Num Model.BasisDef Model.BasisEval Model.Tensor Model.Obj Model.KnotInsert Proofs.SpanCorrect.
Import ListNotations.
Open Scope R_scope.

Definition lookup_from (z : R) (asg : list (nat * nat * R)) (r c : nat) : R :=
  fold_left (fun acc a => if (fst (fst a) =? r)%nat && (snd (fst a) =? c)%nat then snd a else acc) asg z.

Lemma lookup_last_from asg r c : @lookup_last R NumR asg r c = lookup_from 0 asg r c.
Proof. reflexivity. Qed.
Lemma lookup_from_app z A B r c : lookup_from z (A ++ B) r c = lookup_from (lookup_from z A r c) B r c.
Proof. unfold lookup_from. apply fold_left_app. Qed.
Lemma lookup_from_nomatch z A r c :
  (forall a, In a A -> ~ (fst (fst a) = r /\ snd (fst a) = c)) -> lookup_from z A r c = z.
Proof.
  revert z; induction A as [|a A IH]; intros z H; [reflexivity|]. cbn [lookup_from fold_left].
  destruct (Nat.eqb_spec (fst (fst a)) r) as [E1|E1]; destruct (Nat.eqb_spec (snd (fst a)) c) as [E2|E2]; cbn [andb];
  try (apply IH; intros; apply H; right; assumption).
  exfalso. apply (H a); [left; reflexivity|split; assumption].
Qed.

(* writes (g i) for i in a list without duplicates where at most the element i0 matches (r,c) *)
Lemma lookup_from_single z (l : list nat) (g : nat -> nat * nat * R) r c i0 :
  NoDup l -> In i0 l -> fst (fst (g i0)) = r -> snd (fst (g i0)) = c ->
  (forall i, In i l -> i <> i0 -> ~ (fst (fst (g i)) = r /\ snd (fst (g i)) = c)) ->
  lookup_from z (map g l) r c = snd (g i0).
Proof.
  revert z; induction l as [|a l IH]; intros z ND Hin Hr Hc Hoth; [contradiction|].
  apply NoDup_cons_iff in ND. destruct ND as [Hna ND']. cbn [map lookup_from fold_left].
  destruct Hin as [->|Hin].
  - rewrite Hr, Hc, !Nat.eqb_refl. cbn [andb]. fold (lookup_from (snd (g i0)) (map g l) r c).
    apply lookup_from_nomatch. intros x Hx. apply in_map_iff in Hx. destruct Hx as (i & <- & Hi).
    apply Hoth; [right; exact Hi|]. intros ->. contradiction.
  - match goal with |- fold_left _ _ ?z' = _ => fold (lookup_from z' (map g l) r c) end.
    apply IH; auto. intros i Hi Hne. apply Hoth; [right; exact Hi|exact Hne].
Qed.

Section M.
Variable k : list R.
Variables (p mu : nat) (x : R).
Local Notation K := (@kn R NumR k).
Local Notation n := (length k - p)%nat.          (* non-periodic: n = n_all *)
Hypothesis Hp : (1 <= p)%nat.
Hypothesis Hmu : (p <= mu <= n)%nat.
Hypothesis Hx : K (mu - 1)%nat <= x < K mu.

Definition a_entry (i : nat) : R :=
  if Rleb (K (i + p - 1)%nat) x && Rleb x (K (i + p)%nat) then 1 else (x - K i) / (K (i + p - 1)%nat - K i).
Definition b_entry (i : nat) : R :=
  if Rleb (K i) x && Rleb x (K (i + 1)%nat) then 1 else (K (i + p)%nat - x) / (K (i + p)%nat - K (i + 1)%nat).

(* the entries of the matrix, cell by cell *)
Theorem insert_matrix_entries r c : (r <= n)%nat -> (c < n)%nat ->
  @lookup_last R NumR (@insert_writes R NumR k p n mu x) r c =
    if (c <? mu - p)%nat then (if (r =? c)%nat then 1 else 0)
    else if (c <? mu)%nat then (if (r =? c)%nat then a_entry c else if (r =? c + 1)%nat then b_entry c else 0)
    else (if (r =? c + 1)%nat then 1 else 0).
Proof.
  intros Hr Hc. rewrite lookup_last_from. unfold insert_writes. cbv zeta.
  rewrite !lookup_from_app.
  set (W1 := map _ (seq 0 (mu - p))).
  set (W2 := flat_map _ (seq (mu - p) p)).
  set (W3 := map _ (seq mu (n + 1 - mu))).
  (* loop 1 *)
  assert (L1 : lookup_from 0 W1 r c = if (c <? mu - p)%nat && (r =? c)%nat then 1 else 0).
  { destruct (Nat.ltb_spec c (mu - p)) as [A|A]; cbn [andb].
    - destruct (Nat.eqb_spec r c) as [->|N].
      + unfold W1. rewrite (lookup_from_single 0 (seq 0 (mu - p)) _ c c c); [reflexivity|apply seq_NoDup|apply in_seq; lia| | |].
        * cbn [fst]. apply Nat.mod_small. lia.
        * cbn [fst snd]. apply Nat.mod_small. lia.
        * intros i Hi Hne [E1 _]. apply in_seq in Hi. cbn [fst] in E1. rewrite Nat.mod_small in E1 by lia. lia.
      + apply lookup_from_nomatch. intros a Ha. apply in_map_iff in Ha. destruct Ha as (i & <- & Hi). apply in_seq in Hi.
        cbn [fst snd]. rewrite !Nat.mod_small by lia. lia.
    - apply lookup_from_nomatch. intros a Ha. apply in_map_iff in Ha. destruct Ha as (i & <- & Hi). apply in_seq in Hi.
      cbn [fst snd]. rewrite !Nat.mod_small by lia. lia. }
  rewrite L1. clear L1.
  (* loop 2: two writes per i *)
  assert (L2 : forall z, lookup_from z W2 r c =
     if (mu - p <=? c)%nat && (c <? mu)%nat then (if (r =? c)%nat then a_entry c else if (r =? c + 1)%nat then b_entry c else z) else z).
  { intros z. unfold W2.
    assert (G : forall len a0 z, (a0 + len <= mu)%nat ->
       lookup_from z (flat_map (fun i =>
         [ ((i mod (n + 1))%nat, (i mod n)%nat,
            if @nleb R NumR (K (i + p - 1)%nat) x && @nleb R NumR x (K (i + p)%nat) then @n1 R NumR
            else @ndiv R NumR (@nsub R NumR x (K i)) (@nsub R NumR (K (i + p - 1)%nat) (K i)));
           (((i + 1) mod (n + 1))%nat, (i mod n)%nat,
            if @nleb R NumR (K i) x && @nleb R NumR x (K (i + 1)%nat) then @n1 R NumR
            else @ndiv R NumR (@nsub R NumR (K (i + p)%nat) x) (@nsub R NumR (K (i + p)%nat) (K (i + 1)%nat))) ])
         (seq a0 len)) r c =
       if (a0 <=? c)%nat && (c <? a0 + len)%nat then (if (r =? c)%nat then a_entry c else if (r =? c + 1)%nat then b_entry c else z) else z).
    { induction len as [|len IH]; intros a0 z0 Hb.
      - cbn [seq flat_map lookup_from fold_left]. destruct (Nat.leb_spec a0 c); destruct (Nat.ltb_spec c (a0 + 0)); cbn [andb]; try reflexivity; lia.
      - cbn [seq flat_map]. rewrite lookup_from_app. cbn [lookup_from fold_left fst snd].
        rewrite !(Nat.mod_small a0) by lia. rewrite (Nat.mod_small (a0 + 1)) by lia.
        rewrite IH by lia.
        destruct (Nat.eqb_spec a0 c) as [->|Nc].
        + (* this iteration writes column c *)
          destruct (Nat.leb_spec (S c) c); [lia|]. cbn [andb].
          destruct (Nat.leb_spec c c); [|lia]. destruct (Nat.ltb_spec c (c + S len)); [|lia]. cbn [andb].
          destruct (Nat.eqb_spec c r) as [->|Nr].
          * rewrite Nat.eqb_refl. cbn [andb]. destruct (Nat.eqb_spec (r + 1) r); [lia|]. cbn [andb]. reflexivity.
          * cbn [andb]. destruct (Nat.eqb_spec r c); [lia|].
            destruct (Nat.eqb_spec (c + 1) r) as [E|E]; cbn [andb].
            -- destruct (Nat.eqb_spec r (c + 1)); [reflexivity|lia].
            -- destruct (Nat.eqb_spec r (c + 1)); [lia|reflexivity].
        + rewrite !andb_false_r.
          destruct (Nat.leb_spec (S a0) c) as [A|A]; destruct (Nat.leb_spec a0 c) as [B|B]; try lia;
          destruct (Nat.ltb_spec c (S a0 + len)) as [C|C]; destruct (Nat.ltb_spec c (a0 + S len)) as [D|D]; try lia; cbn [andb]; reflexivity. }
    rewrite (G p (mu - p)%nat z ltac:(lia)). replace (mu - p + p)%nat with mu by lia. reflexivity. }
  rewrite L2. clear L2.
  (* loop 3 *)
  assert (L3 : forall z, lookup_from z W3 r c = if (mu <=? r)%nat && (r =? c + 1)%nat then 1 else z).
  { intros z. destruct (Nat.leb_spec mu r) as [A|A]; cbn [andb].
    - destruct (Nat.eqb_spec r (c + 1)) as [E|E].
      + unfold W3. rewrite (lookup_from_single z (seq mu (n + 1 - mu)) _ r c r); [reflexivity|apply seq_NoDup|apply in_seq; lia| | |].
        * cbn [fst]. apply Nat.mod_small. lia.
        * cbn [fst snd]. rewrite Nat.mod_small by lia. lia.
        * intros i Hi Hne [E1 _]. apply in_seq in Hi. cbn [fst] in E1. rewrite Nat.mod_small in E1 by lia. lia.
      + apply lookup_from_nomatch. intros a Ha. apply in_map_iff in Ha. destruct Ha as (i & <- & Hi). apply in_seq in Hi.
        cbn [fst snd]. rewrite (Nat.mod_small i) by lia. rewrite (Nat.mod_small (i - 1)) by lia. lia.
    - apply lookup_from_nomatch. intros a Ha. apply in_map_iff in Ha. destruct Ha as (i & <- & Hi). apply in_seq in Hi.
      cbn [fst snd]. rewrite (Nat.mod_small i) by lia. lia. }
  rewrite L3. clear L3.
  destruct (Nat.ltb_spec c (mu - p)) as [A|A]; cbn [andb].
  - destruct (Nat.leb_spec (mu - p) c); [lia|]. cbn [andb].
    destruct (Nat.eqb_spec r c) as [->|N].
    + destruct (Nat.leb_spec mu c); [lia|]. reflexivity.
    + destruct (Nat.leb_spec mu r) as [B|B]; cbn [andb]; [|reflexivity].
      destruct (Nat.eqb_spec r (c + 1)); [lia|reflexivity].
  - destruct (Nat.leb_spec (mu - p) c); [|lia]. cbn [andb].
    destruct (Nat.ltb_spec c mu) as [B|B].
    + destruct (Nat.eqb_spec r c) as [->|N].
      * destruct (Nat.leb_spec mu c); [lia|]. reflexivity.
      * destruct (Nat.eqb_spec r (c + 1)) as [E|E].
        -- destruct (Nat.leb_spec mu r) as [D|D]; cbn [andb]; [|reflexivity].
           (* r = c + 1 >= mu means c = mu - 1: loop 3 overwrites with 1; b_entry (mu-1) is 1 as well *)
           assert (Ec : c = (mu - 1)%nat) by lia. subst c. unfold b_entry.
           replace (mu - 1 + 1)%nat with mu by lia.
           destruct (Rleb_spec (K (mu - 1)%nat) x); [|lra]. destruct (Rleb_spec x (K mu)); [|lra]. reflexivity.
        -- destruct (Nat.leb_spec mu r); cbn [andb]; reflexivity.
    + destruct (Nat.leb_spec mu r) as [D|D]; cbn [andb]; [reflexivity|].
      destruct (Nat.eqb_spec r (c + 1)); [lia|reflexivity].
Qed.
End M.

(* B depends on the knot function only through the indices i .. i+q+1 *)
Lemma B_ext side (k1 k2 : nat -> R) q : forall i t,
  (forall j, (i <= j <= i + q + 1)%nat -> k1 j = k2 j) -> B side k1 q i t = B side k2 q i t.
Proof.
  induction q as [|q IH]; intros i t H; cbn [B].
  - rewrite (H i), (H (S i)) by lia. reflexivity.
  - rewrite (IH i), (IH (i+1)%nat) by (intros; apply H; lia).
    rewrite (H i), (H (i + q + 1)%nat), (H (i + 1)%nat), (H (i + q + 2)%nat) by lia. reflexivity.
Qed.

Lemma nth_firstn_lt {A} (l : list A) m j d : (j < m)%nat -> nth j (firstn m l) d = nth j l d.
Proof.
  revert m j; induction l as [|a l IH]; intros m j H.
  - rewrite firstn_nil. reflexivity.
  - destruct m as [|m]; [lia|]. destruct j as [|j]; [reflexivity|]. cbn [firstn nth]. apply IH. lia.
Qed.
Lemma nth_skipn_add {A} (l : list A) m j d : nth j (skipn m l) d = nth (m + j) l d.
Proof.
  revert l; induction m as [|m IH]; intros l; [reflexivity|]. destruct l as [|a l]; cbn [skipn Nat.add nth].
  - destruct j; reflexivity.
  - apply IH.
Qed.

Section Boehm.
Variable k : list R.
Variables (p mu : nat) (x : R).
Local Notation K := (@kn R NumR k).
Local Notation n := (length k - p)%nat.
Hypothesis HK : sorted K.
Hypothesis Hp : (1 <= p)%nat.
Hypothesis Hmu : (p <= mu <= n)%nat.
Hypothesis Hx : K (mu - 1)%nat <= x < K mu.
Local Notation q := (p - 1)%nat.

Lemma a_entry_alpha c : (mu - p <= c < mu)%nat -> a_entry k p x c = alpha K mu x q c.
Proof.
  intros Hc. unfold a_entry. replace (c + p - 1)%nat with (c + q)%nat by lia.
  destruct (Rleb_spec (K (c + q)%nat) x) as [A|A]; cbn [andb].
  - assert (c + q < mu)%nat.
    { destruct (Nat.lt_ge_cases (c + q) mu); [assumption|]. pose proof (HK mu (c + q)%nat ltac:(lia)). lra. }
    rewrite alpha_one by lia.
    destruct (Rleb_spec x (K (c + p)%nat)) as [B|B]; [reflexivity|].
    exfalso. apply B. pose proof (HK mu (c + p)%nat ltac:(lia)). lra.
  - assert (mu <= c + q)%nat.
    { destruct (Nat.lt_ge_cases (c + q) mu) as [L|L]; [|assumption]. exfalso. apply A.
      pose proof (HK (c + q)%nat (mu - 1)%nat ltac:(lia)). lra. }
    rewrite alpha_mid by lia. reflexivity.
Qed.

Lemma b_entry_alpha c : (mu - p <= c < mu)%nat -> b_entry k p x c = 1 - alpha K mu x q (c + 1).
Proof.
  intros Hc. unfold b_entry.
  destruct (Nat.eq_dec c (mu - 1)) as [->|Nc].
  - replace (mu - 1 + 1)%nat with mu by lia. rewrite alpha_zero by lia.
    destruct (Rleb_spec (K (mu - 1)%nat) x); [|lra]. destruct (Rleb_spec x (K mu)); [|lra]. cbn [andb]. ring.
  - assert (Hc1 : (c + 1 < mu <= c + 1 + q)%nat) by lia.
    rewrite alpha_mid by lia. replace (c + 1 + q)%nat with (c + p)%nat by lia.
    pose proof (HK (c + 1)%nat (mu - 1)%nat ltac:(lia)) as L1.
    pose proof (HK mu (c + p)%nat ltac:(lia)) as L2.
    destruct (Rleb_spec (K c) x) as [A|A]; cbn [andb].
    + destruct (Rleb_spec x (K (c + 1)%nat)) as [B|B].
      * assert (E : x = K (c + 1)%nat) by lra. rewrite E. unfold Rdiv. ring.
      * field. lra.
    + field. lra.
Qed.

(* the knot function after the insertion *)
Lemma kn_insert_at j : (mu <= length k)%nat -> (j <= length k)%nat ->
  @kn R NumR (insert_at k mu x) j = k' K mu x j.
Proof.
  intros Hm Hj. unfold k', insert_at.
  assert (Hl : length (firstn mu k) = mu) by (apply firstn_length_le; lia).
  unfold kn at 1.
  destruct (Nat.ltb_spec j mu) as [A|A].
  - rewrite app_nth1 by lia. rewrite nth_firstn_lt by lia.
    unfold kn. apply nth_indep. lia.
  - rewrite app_nth2 by lia. rewrite Hl.
    destruct (Nat.eqb_spec j mu) as [->|N].
    + rewrite Nat.sub_diag. reflexivity.
    + replace (j - mu)%nat with (S (j - mu - 1)) by lia. cbn [nth].
      rewrite nth_skipn_add. replace (mu + (j - mu - 1))%nat with (j - 1)%nat by lia.
      unfold kn. apply nth_indep. lia.
Qed.
End Boehm.

Lemma sumf_two (f : nat -> R) c n0 : (c + 1 < n0)%nat ->
  (forall r, (r < n0)%nat -> r <> c -> r <> (c + 1)%nat -> f r = 0) ->
  sumf f 0 n0 = f c + f (c + 1)%nat.
Proof.
  intros Hc Hz.
  replace n0 with (c + (2 + (n0 - c - 2)))%nat by lia.
  rewrite !sumf_app. rewrite (sumf_zero f 0 c) by (intros; apply Hz; lia).
  rewrite (sumf_zero f (0 + c + 2)) by (intros; apply Hz; lia).
  cbn [sumf Nat.add]. replace (S c) with (c + 1)%nat by lia. ring.
Qed.

(* C04.1+2: with the matrix the code builds, every old basis function is the combination of the
   new ones:  N_old[c](t) = sum_r N_new[r](t) * C[r][c]   (both one-sided variants, every t) *)
Section RowIdentity.
Variable k : list R.
Variables (p : nat) (x : R).
Local Notation K := (@kn R NumR k).
Local Notation n := (length k - p)%nat.
Hypothesis HK : sorted K.
Hypothesis Hp : (1 <= p)%nat.
Hypothesis Hlen : (2 * p <= length k)%nat.
Hypothesis Hx : K (p - 1)%nat <= x < K n.
Local Notation mu := (@py_bisect_right R NumR k x).
Local Notation q := (p - 1)%nat.

Lemma mu_bracket : (p <= mu <= n)%nat /\ K (mu - 1)%nat <= x < K mu.
Proof.
  unfold py_bisect_right.
  destruct (bisect_right_spec K HK x (length k)) as (A & Bm & Cm). cbv zeta in *.
  set (r := @bisect_right R NumR K x (length k)) in *.
  assert (R1 : (r <= n)%nat).
  { destruct (Nat.le_gt_cases r n); [assumption|]. pose proof (Bm n ltac:(lia)). lra. }
  assert (R2 : (p <= r)%nat).
  { destruct (Nat.le_gt_cases p r); [assumption|]. pose proof (Cm (p - 1)%nat ltac:(lia)). lra. }
  split; [lia|]. split; [apply Bm; lia|apply Cm; lia].
Qed.

Ltac ringc :=
  repeat match goal with |- context[B ?s ?kk ?qq ?ii ?tt] => generalize (B s kk qq ii tt) end;
  repeat match goal with |- context[alpha ?a ?b ?cc ?d ?e] => generalize (alpha a b cc d e) end;
  intros; clear; ring.

Theorem insert_row_identity side c t : (c < n)%nat ->
  sumf (fun r => B side (k' K mu x) q r t * @lookup_last R NumR (@insert_writes R NumR k p n mu x) r c) 0 (S n)
  = B side K q c t.
Proof.
  intros Hc. destruct mu_bracket as [Hmu Hbr].
  rewrite (sumf_two _ c); [|lia|].
  2:{ intros r Hr N1 N2. rewrite (insert_matrix_entries k p mu x Hp Hmu Hbr r c ltac:(lia) Hc).
      destruct (Nat.ltb_spec c (mu - p)); [destruct (Nat.eqb_spec r c); [lia|ring]|].
      destruct (Nat.ltb_spec c mu).
      - destruct (Nat.eqb_spec r c); [lia|]. destruct (Nat.eqb_spec r (c + 1)); [lia|ring].
      - destruct (Nat.eqb_spec r (c + 1)); [lia|ring]. }
  rewrite !(insert_matrix_entries k p mu x Hp Hmu Hbr) by lia.
  rewrite Nat.eqb_refl.
  destruct (Nat.eqb_spec (c + 1) c) as [Ecc|Ncc]; [lia|]. rewrite Nat.eqb_refl.
  rewrite (boehm side K HK mu x ltac:(lia) (proj1 Hbr) (proj2 Hbr) q c t).
  destruct (Nat.ltb_spec c (mu - p)) as [A|A].
  - rewrite (alpha_one K mu x ltac:(lia) q c) by lia. rewrite (alpha_one K mu x ltac:(lia) q (c + 1)) by lia. ringc.
  - destruct (Nat.ltb_spec c mu) as [Bc|Bc].
    + rewrite (a_entry_alpha k p mu x HK Hp Hmu Hbr c) by lia.
      rewrite (b_entry_alpha k p mu x HK Hp Hmu Hbr c) by lia. ringc.
    + rewrite (alpha_zero K mu x ltac:(lia) q c) by lia. rewrite (alpha_zero K mu x ltac:(lia) q (c + 1)) by lia.
      destruct (Nat.eqb_spec c (c + 1)); [lia|]. ringc.
Qed.
End RowIdentity.
