(* C07, end to end, non-periodic direction: SplineObject.split = split_insert (raise every split value to
   multiplicity p on the object) followed by split_pieces (the slicing loop).  Composition of
     Proofs/InsertEndToEnd.v     (one knot insertion on the object, obj_eval unchanged),
     Proofs/TolProofs.v          (continuity_window: which knots BSplineBasis.continuity counts),
     Proofs/SplitTiling.v        (shape and domains of the pieces, given multiplicity p),
     Proofs/SplitEndToEnd.v      (a piece evaluates to the object it was cut from).
   Multiplicities are count_occ on the knot LIST; the bridge to the index windows of bisect is count_bisect. *)
From Coq Require Import List Arith Reals Lra Lia Bool ZArith Sorted Permutation.
From SplipyModel Require Import Spec.BSpline Spec.Boehm Model.Num Model.BasisDef Model.BasisEval Model.Tensor Model.Obj
  Model.KnotInsert Model.Tol Model.Split Model.Knots
  Proofs.KnotList Proofs.SpanCorrect Proofs.EvaluateSpec Proofs.EvalConsequences Proofs.SnapSpec Proofs.SnapChar
  Proofs.TensorLemmas Proofs.ObjEval Proofs.InsertMatrix Proofs.InsertObj Proofs.InsertEndToEnd Proofs.InsertListEndToEnd
  Proofs.TolProofs Proofs.RestrictDirEval Proofs.SplitEndToEnd Proofs.SplitTiling.
Import ListNotations.
Open Scope R_scope.

(* ---------- multiplicity of a value in a knot list ---------- *)
Definition mult (k : list R) (x : R) : nat := count_occ Req_EM_T k x.

Lemma count_all_eq (l : list R) x : (forall y, In y l -> y = x) -> count_occ Req_EM_T l x = length l.
Proof.
  induction l as [|a l IH]; intros H; [reflexivity|].
  rewrite (H a (or_introl eq_refl)). rewrite count_occ_cons_eq by reflexivity. cbn [length]. f_equal.
  apply IH. intros y Hy. apply H. right. exact Hy.
Qed.

Lemma bisect_lr_le (k : list R) x : sorted (@kn R NumR k) -> (@py_bisect_left R NumR k x <= @py_bisect_right R NumR k x)%nat.
Proof.
  intros HK. unfold py_bisect_left, py_bisect_right.
  destruct (bisect_left_spec (@kn R NumR k) HK x (length k)) as (A1 & A2 & A3).
  destruct (bisect_right_spec (@kn R NumR k) HK x (length k)) as (B1 & B2 & B3). cbv zeta in *.
  set (lo := @bisect_left R NumR (@kn R NumR k) x (length k)) in *.
  set (hi := @bisect_right R NumR (@kn R NumR k) x (length k)) in *.
  destruct (Nat.le_gt_cases lo hi) as [L|L]; [exact L|].
  pose proof (A2 hi L). pose proof (B3 hi ltac:(lia)). lra.
Qed.

(* the copies of x in a sorted list are exactly the entries bisect_left .. bisect_right - 1 *)
Lemma bisect_window (k : list R) x j : sorted (@kn R NumR k) -> (j < length k)%nat ->
  ((@py_bisect_left R NumR k x <= j < @py_bisect_right R NumR k x)%nat <-> @kn R NumR k j = x).
Proof.
  intros HK Hj. unfold py_bisect_left, py_bisect_right.
  destruct (bisect_left_spec (@kn R NumR k) HK x (length k)) as (A1 & A2 & A3).
  destruct (bisect_right_spec (@kn R NumR k) HK x (length k)) as (B1 & B2 & B3). cbv zeta in *.
  set (lo := @bisect_left R NumR (@kn R NumR k) x (length k)) in *.
  set (hi := @bisect_right R NumR (@kn R NumR k) x (length k)) in *.
  split.
  - intros [L1 L2]. pose proof (A3 j ltac:(lia)). pose proof (B2 j L2). lra.
  - intros E. split.
    + destruct (Nat.le_gt_cases lo j) as [L|L]; [exact L|]. pose proof (A2 j L). lra.
    + destruct (Nat.lt_ge_cases j hi) as [L|L]; [exact L|]. pose proof (B3 j ltac:(lia)). lra.
Qed.

Lemma count_bisect (k : list R) x : sorted (@kn R NumR k) ->
  mult k x = (@py_bisect_right R NumR k x - @py_bisect_left R NumR k x)%nat.
Proof.
  intros HK. pose proof (bisect_lr_le k x HK) as Hle.
  assert (Hhi : (@py_bisect_right R NumR k x <= length k)%nat).
  { unfold py_bisect_right. destruct (bisect_right_spec (@kn R NumR k) HK x (length k)) as (B1 & _). exact B1. }
  pose proof (fun j Hj => bisect_window k x j HK Hj) as W.
  set (lo := @py_bisect_left R NumR k x) in *. set (hi := @py_bisect_right R NumR k x) in *.
  unfold mult.
  rewrite <- (firstn_skipn lo k) at 1. rewrite <- (firstn_skipn (hi - lo) (skipn lo k)) at 1.
  rewrite !count_occ_app.
  assert (E1 : count_occ Req_EM_T (firstn lo k) x = 0%nat).
  { apply count_occ_not_In. intros Hin. destruct (In_nth _ _ 0 Hin) as (j & Hj & Ej).
    rewrite firstn_length in Hj. rewrite nth_firstn_lt in Ej by lia.
    rewrite <- (kn_in k j ltac:(lia) 0) in Ej. apply (W j ltac:(lia)) in Ej. lia. }
  assert (E3 : count_occ Req_EM_T (skipn (hi - lo) (skipn lo k)) x = 0%nat).
  { apply count_occ_not_In. intros Hin. destruct (In_nth _ _ 0 Hin) as (j & Hj & Ej).
    rewrite !skipn_length in Hj. rewrite !nth_skipn_add in Ej.
    rewrite <- (kn_in k (lo + (hi - lo + j)) ltac:(lia) 0) in Ej. apply (W (lo + (hi - lo + j))%nat ltac:(lia)) in Ej. lia. }
  assert (E2 : count_occ Req_EM_T (firstn (hi - lo) (skipn lo k)) x = (hi - lo)%nat).
  { rewrite count_all_eq.
    - rewrite firstn_length, skipn_length. lia.
    - intros y Hin. destruct (In_nth _ _ 0 Hin) as (j & Hj & Ej).
      rewrite firstn_length, skipn_length in Hj. rewrite nth_firstn_lt in Ej by lia. rewrite nth_skipn_add in Ej.
      rewrite <- (kn_in k (lo + j) ltac:(lia) 0) in Ej. rewrite <- Ej. apply (W (lo + j)%nat ltac:(lia)). lia. }
  rewrite E1, E2, E3. lia.
Qed.

(* ---------- what BSplineBasis.continuity returns when the tolerance window [x - tol, x + tol) holds no other knot ---------- *)
Definition knot_sep (tol : R) (k : list R) (x : R) : Prop :=
  forall v, In v k -> v = x \/ v < x - tol \/ x + tol <= v.

Lemma continuity_exact (tol : R) (k : list R) (p : nat) (x : R) :
  sorted (@kn R NumR k) -> 0 < tol -> knot_sep tol k x ->
  @kn R NumR k (p - 1) <= x <= @kn R NumR k (length k - p) ->
  exists c, @basis_continuity R NumR tol (mkBasis p k 0) x = Ok c /\
    Z.to_nat ((match c with None => (Z.of_nat p - 1)%Z | Some z => z end) + 1) = (p - mult k x)%nat.
Proof.
  intros HK Htol Hsep Hx.
  unfold basis_continuity, b_start, b_end. cbn [b_per1 b_order b_knots Nat.eqb negb andb].
  cbn [nltb nadd nsub NumR].
  destruct (Rltb_spec x (@kn R NumR k (p - 1))) as [A|A]; [lra|].
  destruct (Rltb_spec (@kn R NumR k (length k - p)) x) as [B|B]; [lra|]. cbn [orb].
  destruct (continuity_window k x tol HK Htol) as (W1 & W2). cbv zeta in *.
  set (hi := @py_bisect_left R NumR k (x + tol)) in *. set (lo := @py_bisect_left R NumR k (x - tol)) in *.
  pose proof (bisect_lr_le k x HK) as Hle.
  assert (Hbr : (@py_bisect_right R NumR k x <= length k)%nat).
  { unfold py_bisect_right. destruct (bisect_right_spec (@kn R NumR k) HK x (length k)) as (B1 & _). exact B1. }
  pose proof (fun j Hj => bisect_window k x j HK Hj) as W.
  rewrite (count_bisect k x HK).
  set (bl := @py_bisect_left R NumR k x) in *. set (br := @py_bisect_right R NumR k x) in *.
  assert (Same : forall j, (j < length k)%nat -> ((lo <= j < hi)%nat <-> (bl <= j < br)%nat)).
  { intros j Hj. rewrite (W2 j Hj), (W j Hj). split.
    - intros Hw. destruct (Hsep _ (kn_In' k j Hj)) as [E|[E|E]]; [exact E|lra|lra].
    - intros E. rewrite E. lra. }
  assert (Hdiff : (hi - lo = br - bl)%nat).
  { destruct (Nat.lt_ge_cases lo hi) as [L|L].
    - pose proof (proj1 (Same lo ltac:(lia)) ltac:(lia)). pose proof (proj1 (Same (hi - 1)%nat ltac:(lia)) ltac:(lia)).
      pose proof (proj2 (Same bl ltac:(lia)) ltac:(lia)). pose proof (proj2 (Same (br - 1)%nat ltac:(lia)) ltac:(lia)). lia.
    - destruct (Nat.lt_ge_cases bl br) as [L2|L2]; [|lia].
      pose proof (proj2 (Same bl ltac:(lia)) ltac:(lia)). lia. }
  destruct (Nat.eqb_spec hi lo) as [E|E].
  - eexists. split; [reflexivity|]. lia.
  - eexists. split; [reflexivity|]. lia.
Qed.

(* ---------- snap and knot VALUES ---------- *)
Lemma snap_case_ext (k k2 : list R) tol t r : (forall v, In v k2 <-> In v k) -> snap_case k tol t r -> snap_case k2 tol t r.
Proof.
  intros Hv.
  assert (U : forall a b y, (forall v, In v a <-> In v b) -> IsUp a t y -> IsUp b t y).
  { intros a b y H (I & G & M). split; [apply H; exact I|]. split; [exact G|]. intros v Hv' Hge. apply M; [apply H; exact Hv'|exact Hge]. }
  assert (D : forall a b z, (forall v, In v a <-> In v b) -> IsDn a t z -> IsDn b t z).
  { intros a b z H (I & G & M). split; [apply H; exact I|]. split; [exact G|]. intros v Hv' Hlt. apply M; [apply H; exact Hv'|exact Hlt]. }
  assert (Hv' : forall v, In v k <-> In v k2) by (intros v; symmetry; apply Hv).
  intros [(y & Uy & N & E1) | [(NU & z & Dz & N & E1) | (NU & ND & E1)]]; subst r.
  - left. exists y. split; [apply (U k k2 y Hv' Uy)|]. split; [exact N|reflexivity].
  - right. left. split; [intros y Uy; apply NU, (U k2 k y Hv Uy)|]. exists z. split; [apply (D k k2 z Hv' Dz)|]. split; [exact N|reflexivity].
  - right. right. split; [intros y Uy; apply NU, (U k2 k y Hv Uy)|]. split; [intros z Dz; apply ND, (D k2 k z Hv Dz)|reflexivity].
Qed.

Lemma snap1_same_values (k k2 : list R) tol t : sorted (@kn R NumR k) -> sorted (@kn R NumR k2) ->
  (forall v, In v k2 <-> In v k) -> @snap1 R NumR k2 tol t = @snap1 R NumR k tol t.
Proof.
  intros S1 S2 Hv. apply (snap_case_unique k2 tol t); [apply snap1_case; exact S2|].
  apply (snap_case_ext k k2 tol t _ Hv). apply snap1_case. exact S1.
Qed.

Lemma snap1_far_all (k : list R) tol t : sorted (@kn R NumR k) -> 0 < tol ->
  (forall v, In v k -> tol <= Rabs (v - t)) -> @snap1 R NumR k tol t = t.
Proof.
  intros HK Htol Hfar. destruct (snap1_spec k HK tol Htol t) as [(i & Hi & E & N)|[E _]]; cbv zeta in *; [|exact E].
  pose proof (Hfar _ (kn_In' k i Hi)). lra.
Qed.

Lemma snap1_member (k : list R) tol x : sorted (@kn R NumR k) -> 0 < tol -> In x k -> @snap1 R NumR k tol x = x.
Proof.
  intros HK Htol Hin. destruct (In_nth k x 0 Hin) as (j & Hj & Ej). rewrite <- (kn_in k j Hj 0) in Ej.
  rewrite <- Ej. apply snap1_knot; assumption.
Qed.

(* the parameter t may be evaluated before and after the insertion of the value x into the knot list k:
   either x is already a knot value (the set of knot values does not change), or x is at distance >= tol from every
   knot and t is x itself or at distance >= tol from x.  (A parameter strictly within tol of a NEW knot value is
   moved onto it by snap() after the insertion, and not before.) *)
Definition ins_ok (tol : R) (k : list R) (x t : R) : Prop :=
  In x k \/ ((forall v, In v k -> tol <= Rabs (v - x)) /\ (t = x \/ tol <= Rabs (x - t))).

Lemma snap_pair (k k2 : list R) tol x t : sorted (@kn R NumR k) -> sorted (@kn R NumR k2) -> 0 < tol ->
  (forall v, In v k2 <-> (In v k \/ v = x)) -> ins_ok tol k x t ->
  @snap1 R NumR k2 tol t = @snap1 R NumR k tol t /\
  @snap1 R NumR k2 tol (@snap1 R NumR k tol t) = @snap1 R NumR k tol (@snap1 R NumR k tol t).
Proof.
  intros S1 S2 Htol Hv [Hin|[Hfar Ht]].
  - assert (Hv' : forall v, In v k2 <-> In v k).
    { intros v. rewrite Hv. split; [intros [H| ->]; assumption|intros H; left; exact H]. }
    split; apply snap1_same_values; assumption.
  - destruct Ht as [->|Ht].
    + assert (E1 : @snap1 R NumR k tol x = x) by (apply snap1_far_all; assumption).
      assert (E2 : @snap1 R NumR k2 tol x = x) by (apply snap1_member; [assumption|assumption|apply Hv; right; reflexivity]).
      rewrite E1, E2, E1. split; reflexivity.
    + split; [apply (snap1_insert_far k k2 x tol t S1 S2 Hv Htol Ht)|].
      apply (snap1_insert_far k k2 x tol _ S1 S2 Hv Htol).
      destruct (snap1_spec k S1 tol Htol t) as [(i & Hi & E & N)|[E _]]; cbv zeta in *; rewrite E; [|exact Ht].
      pose proof (Hfar _ (kn_In' k i Hi)) as H. rewrite <- Rabs_Ropp. replace (- (x - @kn R NumR k i)) with (@kn R NumR k i - x) by ring. exact H.
Qed.

(* the user-facing form: under knot_sep (x is a knot value or at distance >= tol from every knot) only the position of
   t relative to x matters *)
Definition param_ok (tol : R) (k : list R) (x t : R) : Prop := In x k \/ t = x \/ tol <= Rabs (x - t).

Lemma ins_ok_of_sep tol k x t : knot_sep tol k x -> param_ok tol k x t -> ins_ok tol k x t.
Proof.
  intros Hsep Hp. destruct (In_dec Req_EM_T x k) as [Ik|Nk]; [left; exact Ik|right]. split.
  - intros v Hv. destruct (Hsep v Hv) as [E|[L|L]]; [subst v; contradiction| |]; unfold Rabs; destruct (Rcase_abs (v - x)); lra.
  - destruct Hp as [A|A]; [contradiction|exact A].
Qed.

(* ---------- insertion of knots on the object, with the knot list made explicit ---------- *)
Lemma obj_insert_knots_cons (o : obj R) d x xs :
  @obj_insert_knots R NumR o d (x :: xs)
  = match @obj_insert_knots R NumR o d [x] with Ok o1 => @obj_insert_knots R NumR o1 d xs | Err e => Err e end.
Proof. cbn [obj_insert_knots]. destruct (@basis_insert_knot R NumR _ x) as [[b' C]|e]; reflexivity. Qed.

Section Insert.
Variable tol : R.
Hypothesis Htol : 0 < tol.
Variable d : nat.

(* what is kept from one object to the next during the insertions *)
Definition same_frame (p : nat) (oc : obj R) (kc : list R) (o1 : obj R) (k1 : list R) : Prop :=
  wf_obj_R tol o1 /\ length (o_bases o1) = length (o_bases oc) /\
  (forall i, i <> d -> nth i (o_bases o1) dflt_basis = nth i (o_bases oc) dflt_basis) /\
  nth d (o_bases o1) dflt_basis = mkBasis p k1 0 /\
  @kn R NumR k1 (p - 1) = @kn R NumR kc (p - 1) /\ @kn R NumR k1 (length k1 - p) = @kn R NumR kc (length kc - p).

Definition dom_all (o : obj R) (ts : list R) : Prop :=
  forall i, (i < length (o_bases o))%nat -> in_dom tol (nth i (o_bases o) dflt_basis) (nth i ts 0).

Lemma dom_transfer p oc kc o1 k1 ts : (d < length (o_bases oc))%nat -> nth d (o_bases oc) dflt_basis = mkBasis p kc 0 ->
  same_frame p oc kc o1 k1 -> @snap1 R NumR k1 tol (nth d ts 0) = @snap1 R NumR kc tol (nth d ts 0) ->
  dom_all oc ts -> dom_all o1 ts.
Proof.
  intros Hd Hb (_ & Hl & Hoth & Hb1 & Hs & He) Hsn Hdom i Hi. rewrite Hl in Hi.
  destruct (Nat.eq_dec i d) as [->|Hne].
  - rewrite Hb1. unfold in_dom, b_start, b_end. cbn [b_per1 b_knots b_order]. intros _. rewrite Hs, He, Hsn.
    pose proof (Hdom d Hd) as H. rewrite Hb in H. apply H. reflexivity.
  - rewrite (Hoth i Hne). apply Hdom. exact Hi.
Qed.

Lemma insert_one (oc : obj R) p kc x :
  wf_obj_R tol oc -> (d < length (o_bases oc))%nat -> nth d (o_bases oc) dflt_basis = mkBasis p kc 0 ->
  @kn R NumR kc (p - 1) <= x < @kn R NumR kc (length kc - p) ->
  exists o1 k1, @obj_insert_knots R NumR oc d [x] = Ok o1 /\ same_frame p oc kc o1 k1 /\ Permutation k1 (x :: kc) /\
    forall ts, dom_all oc ts -> ins_ok tol kc x (nth d ts 0) ->
      @obj_eval R NumR tol o1 ts = @obj_eval R NumR tol oc ts /\
      @snap1 R NumR k1 tol (nth d ts 0) = @snap1 R NumR kc tol (nth d ts 0).
Proof.
  intros Hwf Hd Hb Hx.
  assert (Hper : b_per1 (nth d (o_bases oc) dflt_basis) = 0%nat) by (rewrite Hb; reflexivity).
  assert (Hx' : @b_start R NumR (nth d (o_bases oc) dflt_basis) <= x < @b_end R NumR (nth d (o_bases oc) dflt_basis)) by (rewrite Hb; exact Hx).
  pose proof (insert_ok tol oc Hwf d Hd Hper x Hx') as Hok.
  pose proof (one_wf tol oc Hwf d Hd Hper x Hx') as Hwf1.
  pose proof (b'_start tol oc Hwf d Hd Hper x Hx') as Hs1.
  pose proof (b'_end tol oc Hwf d Hd Hper x Hx') as He1.
  pose proof (one_values oc d x) as Hv.
  pose proof (fun ts Hdom => insert_knot_eval tol Htol oc Hwf d Hd Hper x Hx' ts Hdom) as Hev.
  destruct (one_facts tol oc Hwf d Hd x Hx') as (HK & Hp & Hlen & _).
  pose proof (insert_knots_sorted _ _ x HK Hp Hlen Hx') as HK1.
  rewrite Hb in Hok, Hwf1, Hs1, He1, Hv, Hev, HK, HK1, Hp, Hlen. cbn [b_knots b_order] in *.
  set (k1 := insert_at kc (@py_bisect_right R NumR kc x) x) in *.
  eexists. exists k1. split; [exact Hok|]. split.
  - split; [exact Hwf1|]. cbn [o_bases]. split; [apply upd_length|]. split; [intros i Hi; apply upd_nth_other; exact Hi|].
    split; [apply upd_nth_same; exact Hd|]. split; [exact Hs1|exact He1].
  - split; [apply insert_at_perm|]. intros ts Hdom Hins.
    destruct (snap_pair kc k1 tol x (nth d ts 0) HK HK1 Htol Hv Hins) as (E1 & E2).
    split; [apply (Hev ts Hdom E1 E2)|exact E1].
Qed.

Lemma same_frame_trans p o0 k0 o1 k1 o2 k2 : same_frame p o0 k0 o1 k1 -> same_frame p o1 k1 o2 k2 -> same_frame p o0 k0 o2 k2.
Proof.
  intros (_ & L1 & O1 & B1 & S1 & E1) (W2 & L2 & O2 & B2 & S2 & E2).
  split; [exact W2|]. split; [lia|]. split; [intros i Hi; rewrite (O2 i Hi); apply O1; exact Hi|].
  split; [exact B2|]. split; [rewrite S2; exact S1|rewrite E2; exact E1].
Qed.

(* c copies of x *)
Lemma insert_copies x p : forall (c : nat) (oc : obj R) kc,
  wf_obj_R tol oc -> (d < length (o_bases oc))%nat -> nth d (o_bases oc) dflt_basis = mkBasis p kc 0 ->
  @kn R NumR kc (p - 1) <= x < @kn R NumR kc (length kc - p) ->
  exists o1 k1, @obj_insert_knots R NumR oc d (repeat x c) = Ok o1 /\ same_frame p oc kc o1 k1 /\
    Permutation k1 (repeat x c ++ kc) /\
    forall ts, dom_all oc ts -> (c = 0%nat \/ ins_ok tol kc x (nth d ts 0)) ->
      @obj_eval R NumR tol o1 ts = @obj_eval R NumR tol oc ts /\
      @snap1 R NumR k1 tol (nth d ts 0) = @snap1 R NumR kc tol (nth d ts 0).
Proof.
  induction c as [|c IH]; intros oc kc Hwf Hd Hb Hx.
  - exists oc, kc. cbn [repeat obj_insert_knots app]. split; [reflexivity|]. split.
    + split; [exact Hwf|]. split; [reflexivity|]. split; [intros; reflexivity|]. split; [exact Hb|]. split; reflexivity.
    + split; [apply Permutation_refl|]. intros ts _ _. split; reflexivity.
  - destruct (insert_one oc p kc x Hwf Hd Hb Hx) as (o1 & k1 & Hok1 & Hf1 & Hp1 & Hev1).
    pose proof Hf1 as (Hwf1 & Hl1 & Hoth1 & Hb1 & Hs1 & He1).
    destruct (IH o1 k1 Hwf1 ltac:(lia) Hb1 ltac:(rewrite Hs1, He1; exact Hx)) as (o2 & k2 & Hok2 & Hf2 & Hp2 & Hev2).
    exists o2, k2. split.
    + cbn [repeat]. rewrite obj_insert_knots_cons, Hok1. exact Hok2.
    + split; [apply (same_frame_trans p oc kc o1 k1 o2 k2 Hf1 Hf2)|]. split.
      * cbn [repeat]. rewrite Hp2. rewrite Hp1. cbn [app]. symmetry. apply Permutation_middle.
      * intros ts Hdom [Hc|Hins]; [lia|].
        destruct (Hev1 ts Hdom Hins) as (A1 & A2).
        destruct (Hev2 ts (dom_transfer p oc kc o1 k1 ts Hd Hb Hf1 A2 Hdom)) as (B1 & B2).
        { right. left. apply (Permutation_in _ (Permutation_sym Hp1)). left. reflexivity. }
        split; [rewrite B1; exact A1|rewrite B2; exact A2].
Qed.
End Insert.

(* ---------- split_insert: every split value is raised to multiplicity p ---------- *)
Section SplitInsert.
Variable tol : R.
Hypothesis Htol : 0 < tol.
Variable d : nat.
Variable p : nat.
Variable k : list R.
Hypothesis HK : sorted (@kn R NumR k).
Local Notation b0 := (@mkBasis R p k 0).
Local Notation s0 := (@kn R NumR k (p - 1)).
Local Notation e0 := (@kn R NumR k (length k - p)).

(* the knots split_insert adds: p - (multiplicity in the ORIGINAL knot list) copies of every split value *)
Definition ins_list (ks : list R) : list R := flat_map (fun x => repeat x (p - mult k x)) ks.

Lemma split_insert_gen : forall (rest : list R) (oc : obj R) (kc : list R),
  wf_obj_R tol oc -> (d < length (o_bases oc))%nat -> nth d (o_bases oc) dflt_basis = mkBasis p kc 0 ->
  @kn R NumR kc (p - 1) = s0 -> @kn R NumR kc (length kc - p) = e0 ->
  Forall (fun x => s0 <= x < e0) rest ->
  Forall (knot_sep tol k) rest ->
  StronglySorted (fun a b => a + tol <= b) rest ->
  exists so kf, @split_insert R NumR tol b0 oc d rest = Ok so /\ same_frame tol d p oc kc so kf /\
    Permutation kf (ins_list rest ++ kc) /\
    forall ts, dom_all tol oc ts -> Forall (fun x => ins_ok tol kc x (nth d ts 0)) rest ->
      @obj_eval R NumR tol so ts = @obj_eval R NumR tol oc ts /\
      @snap1 R NumR kf tol (nth d ts 0) = @snap1 R NumR kc tol (nth d ts 0).
Proof.
  induction rest as [|x rest IH]; intros oc kc Hwf Hd Hb Hs He Hin Hsep Hsp.
  - exists oc, kc. split; [reflexivity|]. split.
    + split; [exact Hwf|]. split; [reflexivity|]. split; [intros; reflexivity|]. split; [exact Hb|]. split; reflexivity.
    + split; [apply Permutation_refl|]. intros ts _ _. split; reflexivity.
  - pose proof (Forall_inv Hin) as Hx. pose proof (Forall_inv_tail Hin) as Hin'. cbv beta in Hx.
    pose proof (Forall_inv Hsep) as Hsx. pose proof (Forall_inv_tail Hsep) as Hsep'.
    destruct (StronglySorted_inv Hsp) as [Hsp' Hgap].
    destruct (continuity_exact tol k p x HK Htol Hsx ltac:(lra)) as (c & Hc & Hn).
    destruct (insert_copies tol Htol d x p (p - mult k x)%nat oc kc Hwf Hd Hb ltac:(rewrite Hs, He; exact Hx))
      as (o1 & k1 & Hok1 & Hf1 & Hp1 & Hev1).
    pose proof Hf1 as (Hwf1 & Hl1 & Hoth1 & Hb1 & Hs1 & He1).
    destruct (IH o1 k1 Hwf1 ltac:(lia) Hb1 ltac:(rewrite Hs1; exact Hs) ltac:(rewrite He1; exact He) Hin' Hsep' Hsp')
      as (so & kf & Hok2 & Hf2 & Hp2 & Hev2).
    exists so, kf. split.
    + cbn [split_insert]. rewrite Hc. cbn [b_order]. rewrite Hn, Hok1. exact Hok2.
    + split; [apply (same_frame_trans tol d p oc kc o1 k1 so kf Hf1 Hf2)|]. split.
      * rewrite Hp2, Hp1. unfold ins_list. cbn [flat_map]. rewrite <- !app_assoc.
        rewrite (app_assoc (flat_map _ rest)), (app_assoc (repeat x _)). apply Permutation_app_tail. apply Permutation_app_comm.
      * intros ts Hdom Hins. pose proof (Forall_inv Hins) as Hix. pose proof (Forall_inv_tail Hins) as Hins'. cbv beta in Hix.
        destruct (Hev1 ts Hdom (or_intror Hix)) as (A1 & A2).
        destruct (Hev2 ts (dom_transfer tol d p oc kc o1 k1 ts Hd Hb Hf1 A2 Hdom)) as (B1 & B2).
        { rewrite Forall_forall in *. intros y Hy. pose proof (Hgap y Hy) as Hxy.
          destruct (Hins' y Hy) as [Iy|[Hfar Ht]].
          - left. apply (Permutation_in _ (Permutation_sym Hp1)). apply in_or_app. right. exact Iy.
          - right. split; [|exact Ht]. intros v Hv. apply (Permutation_in _ Hp1) in Hv. apply in_app_or in Hv.
            destruct Hv as [Hv|Hv]; [|apply Hfar; exact Hv].
            apply repeat_spec in Hv. subst v. rewrite Rabs_left1 by lra. lra. }
        split; [rewrite B1; exact A1|rewrite B2; exact A2].
Qed.
End SplitInsert.

(* ---------- sorted-list helpers ---------- *)
Lemma ssorted_impl {A} (P Q : A -> A -> Prop) l : (forall a b, P a b -> Q a b) -> StronglySorted P l -> StronglySorted Q l.
Proof.
  intros H. induction 1 as [|a l Hs IH Hf]; constructor; [exact IH|].
  rewrite Forall_forall in *. intros y Hy. apply H, Hf, Hy.
Qed.

Lemma ssorted_app {A} (P : A -> A -> Prop) l1 l2 : StronglySorted P (l1 ++ l2) ->
  StronglySorted P l1 /\ StronglySorted P l2 /\ forall x y, In x l1 -> In y l2 -> P x y.
Proof.
  induction l1 as [|a l1 IH]; cbn [app]; intros H.
  - split; [constructor|]. split; [exact H|]. intros x y [].
  - destruct (StronglySorted_inv H) as [H1 H2]. destruct (IH H1) as (I1 & I2 & I3).
    rewrite Forall_forall in H2. split.
    + constructor; [exact I1|]. apply Forall_forall. intros y Hy. apply H2. apply in_or_app. left. exact Hy.
    + split; [exact I2|]. intros x y [<-|Hx] Hy; [apply H2; apply in_or_app; right; exact Hy|apply I3; assumption].
Qed.

Lemma ssorted_nth {A} (P : A -> A -> Prop) l dflt : StronglySorted P l ->
  forall i j, (i < j < length l)%nat -> P (nth i l dflt) (nth j l dflt).
Proof.
  induction 1 as [|a l Hs IH Hf]; intros i j Hij; [cbn in Hij; lia|].
  destruct j as [|j]; [lia|]. destruct i as [|i]; cbn [nth].
  - rewrite Forall_forall in Hf. apply Hf. apply nth_In. cbn [length] in Hij. lia.
  - apply IH. cbn [length] in Hij. lia.
Qed.

(* ---------- from the count to the index window of SplitTiling.mult_p ---------- *)
Lemma count_to_mult_p p (kf : list R) x : sorted (@kn R NumR kf) -> (1 <= p)%nat -> (2 * p <= length kf)%nat ->
  mult kf x = p -> st p kf < x < en p kf -> mult_p p kf x.
Proof.
  intros HK Hp Hlen Hm [Hs He]. unfold st in Hs. unfold en in He.
  rewrite (count_bisect kf x HK) in Hm. pose proof (bisect_lr_le kf x HK) as Hle.
  pose proof (fun j Hj => bisect_window kf x j HK Hj) as W.
  unfold py_bisect_left, py_bisect_right in *.
  destruct (bisect_left_spec (@kn R NumR kf) HK x (length kf)) as (A1 & A2 & A3).
  destruct (bisect_right_spec (@kn R NumR kf) HK x (length kf)) as (B1 & B2 & B3). cbv zeta in *.
  set (bl := @bisect_left R NumR (@kn R NumR kf) x (length kf)) in *.
  set (br := @bisect_right R NumR (@kn R NumR kf) x (length kf)) in *.
  assert (H1 : (p <= bl)%nat).
  { destruct (Nat.le_gt_cases p bl) as [L|L]; [exact L|]. pose proof (A3 (p - 1)%nat ltac:(lia)). lra. }
  assert (H2 : (br <= length kf - p)%nat).
  { destruct (Nat.le_gt_cases br (length kf - p)) as [L|L]; [exact L|]. pose proof (B2 (length kf - p)%nat L). lra. }
  exists bl. split; [exact H1|]. split; [lia|]. split; [apply A2; lia|]. split.
  - intros i Hi. apply (W (bl + i)%nat ltac:(lia)). lia.
  - replace (bl + p)%nat with br by lia. apply B3. lia.
Qed.

(* ---------- multiplicities in the list of inserted knots ---------- *)
Lemma count_ins_notin p k ks v : ~ In v ks -> count_occ Req_EM_T (ins_list p k ks) v = 0%nat.
Proof.
  intros Hn. apply count_occ_not_In. intros Hin. unfold ins_list in Hin. apply in_flat_map in Hin.
  destruct Hin as (x & Hx & Hr). apply repeat_spec in Hr. subst v. contradiction.
Qed.
Lemma count_ins_in p k ks v : StronglySorted Rlt ks -> In v ks -> count_occ Req_EM_T (ins_list p k ks) v = (p - mult k v)%nat.
Proof.
  induction 1 as [|a l Hs IH Hf]; intros Hin; [destruct Hin|].
  unfold ins_list. cbn [flat_map]. rewrite count_occ_app. fold (ins_list p k l).
  destruct (Req_EM_T v a) as [->|Hne].
  - rewrite count_occ_repeat_eq by reflexivity. rewrite count_ins_notin; [lia|].
    intros Ha. rewrite Forall_forall in Hf. pose proof (Hf a Ha). lra.
  - rewrite count_occ_repeat_neq by exact Hne. destruct Hin as [E|Hin]; [congruence|]. rewrite IH by exact Hin. lia.
Qed.

(* ---------- the hypotheses of the end-to-end theorems ---------- *)
Definition gap (tol a b : R) : Prop := a + 2 * tol <= b.

Record split_hyps (tol : R) (o : obj R) (d p : nat) (k ks : list R) : Prop := {
  sh_tol : 0 < tol;
  sh_wf : wf_obj_R tol o;
  sh_dir : (d < length (o_bases o))%nat;
  (* direction d is non-periodic, of order p, with knot list k *)
  sh_basis : nth d (o_bases o) dflt_basis = mkBasis p k 0;
  (* start of the domain, split values, end of the domain: increasing, consecutive ones at least 2*tol apart *)
  sh_spaced : Sorted (gap tol) (st p k :: ks ++ [en p k]);
  (* no knot other than x itself in the window [x - tol, x + tol) that continuity() counts *)
  sh_sep : Forall (knot_sep tol k) ks;
  (* a split value is not already a knot of multiplicity > p *)
  sh_mult : Forall (fun x => (mult k x <= p)%nat) ks
}.

Section Derived.
Variables (tol : R) (o : obj R) (d p : nat) (k ks : list R).
Hypothesis H : split_hyps tol o d p k ks.

Lemma sh_basis_facts : sorted (@kn R NumR k) /\ (1 <= p)%nat /\ (2 * p <= length k)%nat.
Proof.
  destruct (bd_wf tol o (sh_wf _ _ _ _ _ _ H) d (sh_dir _ _ _ _ _ _ H)) as (A & B & C & _).
  rewrite (sh_basis _ _ _ _ _ _ H) in A, B, C. cbn [b_knots b_order] in *. repeat split; assumption.
Qed.

Lemma sh_ssorted : StronglySorted (gap tol) (st p k :: ks ++ [en p k]).
Proof.
  apply Sorted_StronglySorted; [|exact (sh_spaced _ _ _ _ _ _ H)].
  intros a b c Hab Hbc. unfold gap in *. pose proof (sh_tol _ _ _ _ _ _ H). lra.
Qed.

Lemma sh_inside : Forall (inside p k) ks.
Proof.
  pose proof (sh_tol _ _ _ _ _ _ H) as Htol.
  destruct (StronglySorted_inv sh_ssorted) as [S1 S2]. destruct (ssorted_app _ _ _ S1) as (_ & _ & S3).
  rewrite Forall_forall in *. intros x Hx. unfold inside.
  pose proof (S2 x ltac:(apply in_or_app; left; exact Hx)) as G1.
  pose proof (S3 x (en p k) Hx ltac:(left; reflexivity)) as G2. unfold gap in *. lra.
Qed.

Lemma sh_gaps : StronglySorted (gap tol) ks.
Proof. destruct (StronglySorted_inv sh_ssorted) as [S1 _]. destruct (ssorted_app _ _ _ S1) as (S & _). exact S. Qed.

Lemma sh_incr : StronglySorted Rlt ks.
Proof. apply (ssorted_impl (gap tol)); [|exact sh_gaps]. intros a b G. unfold gap in G. pose proof (sh_tol _ _ _ _ _ _ H). lra. Qed.

Lemma sh_se : st p k + 2 * tol <= en p k.
Proof.
  destruct (StronglySorted_inv sh_ssorted) as [_ S2]. rewrite Forall_forall in S2.
  apply (S2 (en p k)). apply in_or_app. right. left. reflexivity.
Qed.
End Derived.

(* ---------- 1. split_insert ---------- *)
Theorem split_insert_spec tol (o : obj R) d p k ks : split_hyps tol o d p k ks ->
  exists so kf,
    @split_insert R NumR tol (mkBasis p k 0) o d ks = Ok so /\
    wf_obj_R tol so /\ length (o_bases so) = length (o_bases o) /\
    (forall i, i <> d -> nth i (o_bases so) dflt_basis = nth i (o_bases o) dflt_basis) /\
    nth d (o_bases so) dflt_basis = mkBasis p kf 0 /\
    sorted (@kn R NumR kf) /\ st p kf = st p k /\ en p kf = en p k /\
    Permutation kf (ins_list p k ks ++ k) /\
    (forall v, In v kf <-> (In v k \/ In v ks)) /\
    (forall v, ~ In v ks -> mult kf v = mult k v) /\
    Forall (fun x => mult kf x = p) ks /\
    Forall (mult_p p kf) ks /\
    forall ts, dom_all tol o ts -> Forall (fun x => param_ok tol k x (nth d ts 0)) ks ->
      @obj_eval R NumR tol so ts = @obj_eval R NumR tol o ts.
Proof.
  intros H. pose proof (sh_tol _ _ _ _ _ _ H) as Htol.
  destruct (sh_basis_facts _ _ _ _ _ _ H) as (HK & Hp & Hlen).
  pose proof (sh_inside _ _ _ _ _ _ H) as Hin. pose proof (sh_incr _ _ _ _ _ _ H) as Hincr.
  destruct (split_insert_gen tol Htol d p k HK ks o k (sh_wf _ _ _ _ _ _ H) (sh_dir _ _ _ _ _ _ H) (sh_basis _ _ _ _ _ _ H) eq_refl eq_refl)
    as (so & kf & Hok & (Hwf & Hl & Hoth & Hb & Hs & He) & Hperm & Hev).
  { rewrite Forall_forall in *. intros x Hx. destruct (Hin x Hx) as [A B]. unfold st, en in *. lra. }
  { exact (sh_sep _ _ _ _ _ _ H). }
  { apply (ssorted_impl (gap tol)); [|exact (sh_gaps _ _ _ _ _ _ H)]. intros a b G. unfold gap in G. lra. }
  assert (HKf : sorted (@kn R NumR kf)).
  { destruct (bd_wf tol so Hwf d ltac:(rewrite Hl; exact (sh_dir _ _ _ _ _ _ H))) as (A & _). rewrite Hb in A. exact A. }
  assert (Hlenf : (2 * p <= length kf)%nat).
  { destruct (bd_wf tol so Hwf d ltac:(rewrite Hl; exact (sh_dir _ _ _ _ _ _ H))) as (_ & _ & A & _). rewrite Hb in A. exact A. }
  assert (Hcnt : forall v, mult kf v = (count_occ Req_EM_T (ins_list p k ks) v + mult k v)%nat).
  { intros v. unfold mult. rewrite (proj1 (Permutation_count_occ Req_EM_T _ _) Hperm v). apply count_occ_app. }
  assert (Hcp : Forall (fun x => mult kf x = p) ks).
  { pose proof (sh_mult _ _ _ _ _ _ H) as Hm. rewrite Forall_forall in *. intros x Hx.
    rewrite Hcnt, (count_ins_in p k ks x Hincr Hx). pose proof (Hm x Hx). lia. }
  exists so, kf. split; [exact Hok|]. split; [exact Hwf|]. split; [exact Hl|]. split; [exact Hoth|]. split; [exact Hb|].
  split; [exact HKf|]. split; [exact Hs|]. split; [exact He|]. split; [exact Hperm|]. split.
  { intros v. split.
    - intros Hv. apply (Permutation_in _ Hperm) in Hv. apply in_app_or in Hv. destruct Hv as [Hv|Hv]; [right|left; exact Hv].
      unfold ins_list in Hv. apply in_flat_map in Hv. destruct Hv as (x & Hx & Hr). apply repeat_spec in Hr. subst v. exact Hx.
    - intros [Hv|Hv].
      + apply (Permutation_in _ (Permutation_sym Hperm)). apply in_or_app. right. exact Hv.
      + rewrite Forall_forall in Hcp. apply (count_occ_In Req_EM_T). fold (mult kf v). rewrite (Hcp v Hv). lia. }
  split; [intros v Hv; rewrite Hcnt, count_ins_notin by exact Hv; reflexivity|].
  split; [exact Hcp|]. split.
  { rewrite Forall_forall in *. intros x Hx. apply count_to_mult_p; try assumption; [apply Hcp; exact Hx|].
    unfold st, en in *. rewrite Hs, He. exact (Hin x Hx). }
  intros ts Hdom Hins. apply (Hev ts Hdom).
  pose proof (sh_sep _ _ _ _ _ _ H) as Hsep. rewrite Forall_forall in *. intros x Hx.
  apply ins_ok_of_sep; [apply Hsep; exact Hx|apply Hins; exact Hx].
Qed.

(* ---------- the cut indices of SplitTiling against the interval end points ---------- *)
Section CutIndices.
Variables (so : obj R) (d p : nat) (kf ks : list R).
Hypothesis Hd : (d < length (o_bases so))%nat.
Hypothesis HKf : sorted (@kn R NumR kf).
Hypothesis Hp : (1 <= p)%nat.
Hypothesis Hlenf : (2 * p <= length kf)%nat.
Hypothesis Hin : Forall (inside p kf) ks.
Hypothesis Hmp : Forall (mult_p p kf) ks.
Local Notation A := (0%nat :: cuts kf ks ++ [n_cp p kf]).
Local Notation X := (st p kf :: ks ++ [en p kf]).

Lemma cuts_length : length (cuts kf ks) = length ks.
Proof. unfold cuts. apply map_length. Qed.

Lemma cut_at i : (i < length ks)%nat ->
  let mu := nth i (cuts kf ks) 0%nat in
  (mu + p <= n_cp p kf)%nat /\ (forall r, (r < p)%nat -> @kn R NumR kf (mu + r) = nth i ks 0).
Proof.
  intros Hi. cbv zeta. unfold cuts. rewrite (nth_map_gen _ _ i 0%nat 0) by exact Hi.
  rewrite Forall_forall in Hin, Hmp. pose proof (nth_In ks 0 Hi) as Hx.
  destruct (cut_spec so d p kf Hd HKf Hp Hlenf _ (Hin _ Hx) (Hmp _ Hx)) as (_ & C2 & _ & C4 & _). cbv zeta in *.
  split; [exact C2|exact C4].
Qed.

Lemma cut_indices j : (j <= length ks)%nat ->
  let a := nth j A 0%nat in let b := nth (S j) A 0%nat in
  @kn R NumR kf (a + p - 1) = nth j X 0 /\ @kn R NumR kf b = nth (S j) X 0 /\ (b <= n_cp p kf)%nat.
Proof.
  intros Hj. cbv zeta. split.
  - destruct j as [|j]; cbn [nth].
    + unfold st. reflexivity.
    + rewrite app_nth1 by (rewrite cuts_length; lia). rewrite app_nth1 by lia.
      destruct (cut_at j ltac:(lia)) as (_ & C). cbv zeta in C. rewrite <- (C (p - 1)%nat ltac:(lia)). f_equal. lia.
  - change (nth (S j) A 0%nat) with (nth j (cuts kf ks ++ [n_cp p kf]) 0%nat).
    change (nth (S j) X 0) with (nth j (ks ++ [en p kf]) 0).
    destruct (Nat.lt_ge_cases j (length ks)) as [L|L].
    + rewrite app_nth1 by (rewrite cuts_length; lia). rewrite app_nth1 by lia.
      destruct (cut_at j L) as (C1 & C). cbv zeta in *. split; [|lia].
      rewrite <- (C 0%nat ltac:(lia)). f_equal. lia.
    + assert (j = length ks) by lia. subst j.
      rewrite app_nth2 by (rewrite cuts_length; lia). rewrite cuts_length, Nat.sub_diag.
      rewrite app_nth2 by lia. rewrite Nat.sub_diag. cbn [nth]. split; [reflexivity|lia].
Qed.
End CutIndices.

(* ---------- 2. obj_split in a non-periodic direction ---------- *)
Section Split.
Variables (tol : R) (o : obj R) (d p : nat) (k ks : list R).
Hypothesis H : split_hyps tol o d p k ks.
(* the end points of the pieces: x_{-1} = start, the split values, x_last = end *)
Definition ends : list R := st p k :: ks ++ [en p k].

Lemma ends_bounds j : (j <= length ks)%nat ->
  st p k <= nth j ends 0 /\ nth (S j) ends 0 <= en p k /\ nth j ends 0 + 2 * tol <= nth (S j) ends 0.
Proof.
  intros Hj. pose proof (sh_ssorted _ _ _ _ _ _ H) as SS. pose proof (sh_tol _ _ _ _ _ _ H) as Htol. fold ends in SS.
  assert (Hl : length ends = S (S (length ks))) by (unfold ends; cbn [length]; rewrite app_length; cbn [length]; lia).
  split; [|split].
  - destruct j as [|j]; [cbn [nth ends]; lra|].
    pose proof (ssorted_nth _ _ 0 SS 0%nat (S j) ltac:(lia)) as G. unfold gap in G. change (nth 0 ends 0) with (st p k) in G. lra.
  - destruct (Nat.lt_ge_cases j (length ks)) as [L|L].
    + pose proof (ssorted_nth _ _ 0 SS (S j) (S (length ks)) ltac:(lia)) as G. unfold gap in G.
      replace (nth (S (length ks)) ends 0) with (en p k) in G; [lra|].
      unfold ends. cbn [nth]. rewrite app_nth2 by lia. rewrite Nat.sub_diag. reflexivity.
    + assert (j = length ks) by lia. subst j. unfold ends. cbn [nth]. rewrite app_nth2 by lia. rewrite Nat.sub_diag. cbn [nth]. lra.
  - apply (ssorted_nth _ _ 0 SS j (S j)). lia.
Qed.

(* the condition on the parameter tuple ts for piece j *)
Definition piece_param (j : nat) (ts : list R) : Prop :=
  (* inside the domain of o in the other directions *)
  (forall i, (i < length (o_bases o))%nat -> i <> d -> in_dom tol (nth i (o_bases o) dflt_basis) (nth i ts 0)) /\
  (* the d-th parameter lies in the interval of piece j ... *)
  nth j ends 0 <= nth d ts 0 <= nth (S j) ends 0 /\
  (* ... at least 2*tol below its end, unless the piece is the last one *)
  (nth d ts 0 <= nth (S j) ends 0 - 2 * tol \/ j = length ks) /\
  (* ... and is not strictly within tol of a split value that is a NEW knot value, except on it *)
  Forall (fun x => param_ok tol k x (nth d ts 0)) ks.

Theorem obj_split_nonperiodic fuel : (1 <= fuel)%nat ->
  exists pieces, @obj_split R NumR fuel tol o d ks = Ok pieces /\ length pieces = S (length ks) /\
    forall j, (j <= length ks)%nat ->
      let pj := nth j pieces o in let bj := nth d (o_bases pj) dflt_basis in
      wf_obj_R tol pj /\ length (o_bases pj) = length (o_bases o) /\
      (forall i, i <> d -> nth i (o_bases pj) dflt_basis = nth i (o_bases o) dflt_basis) /\
      b_order bj = p /\ b_per1 bj = 0%nat /\
      @b_start R NumR bj = nth j ends 0 /\ @b_end R NumR bj = nth (S j) ends 0 /\
      nth j ends 0 + 2 * tol <= nth (S j) ends 0 /\
      forall ts, piece_param j ts -> @obj_eval R NumR tol pj ts = @obj_eval R NumR tol o ts.
Proof.
  intros Hfuel. destruct fuel as [|f]; [lia|].
  pose proof (sh_tol _ _ _ _ _ _ H) as Htol. pose proof (sh_dir _ _ _ _ _ _ H) as Hd. pose proof (sh_basis _ _ _ _ _ _ H) as Hb0.
  destruct (sh_basis_facts _ _ _ _ _ _ H) as (HK & Hp & Hlen).
  pose proof (sh_inside _ _ _ _ _ _ H) as Hin. pose proof (sh_incr _ _ _ _ _ _ H) as Hincr.
  destruct (split_insert_spec tol o d p k ks H)
    as (so & kf & Hok & Hwf & Hl & Hoth & Hb & HKf & Hs & He & _ & Hvals & _ & _ & Hmp & Hev).
  assert (Hdso : (d < length (o_bases so))%nat) by (rewrite Hl; exact Hd).
  assert (Hlenf : (2 * p <= length kf)%nat).
  { destruct (bd_wf tol so Hwf d Hdso) as (_ & _ & A & _). rewrite Hb in A. exact A. }
  assert (Hinf : Forall (inside p kf) ks).
  { rewrite Forall_forall in *. intros x Hx. unfold inside. rewrite Hs, He. exact (Hin x Hx). }
  assert (Hsplit : @obj_split R NumR (S f) tol o d ks = Ok (@split_pieces R NumR so d (st p kf) (en p kf) ks 0 0)).
  { cbn [obj_split]. change (@mkBasis R 0 [] 0) with dflt_basis. rewrite Hb0, Hok, Hb. cbn [b_per1 Nat.eqb negb].
    rewrite Hs, He. reflexivity. }
  set (pieces := @split_pieces R NumR so d (st p kf) (en p kf) ks 0 0) in *.
  assert (Hlp : length pieces = S (length ks)) by (apply (split_pieces_length so d p kf Hb ks Hinf)).
  exists pieces. split; [exact Hsplit|]. split; [exact Hlp|].
  intros j Hj. cbv zeta. rewrite (nth_indep pieces o so) by lia.
  destruct (ends_bounds j Hj) as (G1 & G2 & G3).
  assert (Hse : st p kf < en p kf) by (rewrite Hs, He; pose proof (sh_se _ _ _ _ _ _ H); lra).
  destruct (split_pieces_tiling so d p kf Hdso Hb HKf Hp Hlenf Hse ks Hinf Hmp Hincr j Hj) as (T1 & T2 & _ & _ & T5 & T6 & _).
  cbv zeta in T1, T2, T5, T6. fold pieces in T1, T2, T5, T6. rewrite Hs, He in T5, T6. fold ends in T5, T6.
  pose proof (split_pieces_shape so d p kf Hdso Hb HKf Hp Hlenf ks Hinf Hincr j Hj) as Hshape. fold pieces in Hshape.
  destruct (cut_indices so d p kf ks Hdso HKf Hp Hlenf Hinf Hmp j Hj) as (I1 & I2 & I3). cbv zeta in I1, I2, I3.
  rewrite Hs, He in I1, I2. fold ends in I1, I2.
  set (a := nth j (0%nat :: cuts kf ks ++ [n_cp p kf]) 0%nat) in *.
  set (b := nth (S j) (0%nat :: cuts kf ks ++ [n_cp p kf]) 0%nat) in *.
  assert (Hab : (a + p <= b)%nat).
  { assert (L : @kn R NumR kf (a + p - 1) < @kn R NumR kf b) by (rewrite I1, I2; lra).
    apply sorted_lt_idx in L; [lia|exact HKf]. }
  (* the piece, in the form of Proofs/SplitEndToEnd.v *)
  assert (Hper : b_per1 (nth d (o_bases so) dflt_basis) = 0%nat) by (rewrite Hb; reflexivity).
  assert (Hnf : @b_nfun R (nth d (o_bases so) dflt_basis) = n_cp p kf).
  { rewrite Hb. unfold b_nfun, n_cp. cbn [b_knots b_order b_per1]. lia. }
  assert (Hform : nth j pieces so =
    @obj_along R NumR so d (mkBasis (b_order (nth d (o_bases so) dflt_basis))
        (slice_list (b_knots (nth d (o_bases so) dflt_basis)) a (a + (b - a) + b_order (nth d (o_bases so) dflt_basis))) 0)
      (@slice_matrix R NumR (@b_nfun R (nth d (o_bases so) dflt_basis)) a (b - a))).
  { rewrite Hshape, Hnf, Hb. cbn [b_knots b_order]. unfold piece. replace (a + (b - a))%nat with b by lia. reflexivity. }
  assert (Ham : (a + (b - a) <= @b_nfun R (nth d (o_bases so) dflt_basis))%nat) by (rewrite Hnf; lia).
  assert (Hnd : 2 * tol <= @kn R NumR (b_knots (nth d (o_bases so) dflt_basis)) (a + (b - a))
                           - @kn R NumR (b_knots (nth d (o_bases so) dflt_basis)) (a + b_order (nth d (o_bases so) dflt_basis) - 1)).
  { rewrite Hb. cbn [b_knots b_order]. replace (a + (b - a))%nat with b by lia. rewrite I1, I2. lra. }
  split; [rewrite Hform; apply (split_piece_wf tol Htol so Hwf d Hdso Hper a (b - a)%nat Ham Hnd)|].
  split; [rewrite Hform; unfold obj_along; cbn [o_bases]; rewrite upd_length; exact Hl|].
  split; [intros i Hi; rewrite Hform; unfold obj_along; cbn [o_bases]; rewrite upd_nth_other by exact Hi; apply Hoth; exact Hi|].
  split; [exact T1|]. split; [exact T2|]. split; [exact T5|]. split; [exact T6|]. split; [exact G3|].
  intros ts (Hdom & Ht & Hside & Hins).
  (* ts is in the domain of o in every direction *)
  assert (Hdall : dom_all tol o ts).
  { intros i Hi. destruct (Nat.eq_dec i d) as [->|Hne]; [|apply Hdom; assumption].
    rewrite Hb0. unfold in_dom, b_start, b_end. cbn [b_per1 b_knots b_order]. intros _.
    apply (snap1_between k (@kn R NumR k (p - 1)) (@kn R NumR k (length k - p)) tol (nth d ts 0)).
    - apply kn_In'. lia.
    - apply kn_In'. lia.
    - exact Htol.
    - unfold st, en in G1, G2. lra.
    - exact HK. }
  rewrite <- (Hev ts Hdall Hins). rewrite Hform.
  apply (split_piece_eval_raw tol so d a (b - a)%nat ts Htol Hwf Hdso Hper Ham Hnd).
  - intros i Hi Hne. rewrite (Hoth i Hne). apply Hdom; [rewrite <- Hl; exact Hi|exact Hne].
  - rewrite Hb. cbn [b_knots b_order]. replace (a + (b - a))%nat with b by lia. rewrite I1, I2. exact Ht.
  - rewrite Hb. cbn [b_knots b_order]. replace (a + (b - a))%nat with b by lia. rewrite I2.
    destruct Hside as [L|E]; [left; exact L|right].
    subst j. unfold ends. cbn [nth]. rewrite app_nth2 by lia. rewrite Nat.sub_diag. cbn [nth]. rewrite <- He. reflexivity.
Qed.
End Split.

(* ---------- the statements in the form "whatever obj_split returns" ---------- *)
Section Main.
Variables (tol : R) (o : obj R) (d p : nat) (k ks : list R).
Hypothesis H : split_hyps tol o d p k ks.

Theorem obj_split_ok fuel : (1 <= fuel)%nat -> exists pieces, @obj_split R NumR fuel tol o d ks = Ok pieces.
Proof. intros Hf. destruct (obj_split_nonperiodic tol o d p k ks H fuel Hf) as (pieces & E & _). exists pieces. exact E. Qed.

Lemma obj_split_fuel fuel pieces : @obj_split R NumR fuel tol o d ks = Ok pieces -> (1 <= fuel)%nat.
Proof. destruct fuel; [discriminate|intros; lia]. Qed.

(* number of pieces *)
Theorem split_length fuel pieces : @obj_split R NumR fuel tol o d ks = Ok pieces -> length pieces = S (length ks).
Proof.
  intros E. destruct (obj_split_nonperiodic tol o d p k ks H fuel (obj_split_fuel fuel pieces E)) as (pieces' & E' & L & _).
  rewrite E in E'. injection E' as <-. exact L.
Qed.

(* tiling: piece j is a well-formed object whose direction d is non-periodic of order p on [x_{j-1}, x_j], non-degenerate,
   the other directions are those of o *)
Theorem split_tiling fuel pieces : @obj_split R NumR fuel tol o d ks = Ok pieces ->
  forall j, (j <= length ks)%nat ->
    let pj := nth j pieces o in let bj := nth d (o_bases pj) dflt_basis in
    wf_obj_R tol pj /\ length (o_bases pj) = length (o_bases o) /\
    (forall i, i <> d -> nth i (o_bases pj) dflt_basis = nth i (o_bases o) dflt_basis) /\
    b_order bj = p /\ b_per1 bj = 0%nat /\
    @b_start R NumR bj = nth j (ends p k ks) 0 /\ @b_end R NumR bj = nth (S j) (ends p k ks) 0 /\
    nth j (ends p k ks) 0 + 2 * tol <= nth (S j) (ends p k ks) 0.
Proof.
  intros E j Hj. destruct (obj_split_nonperiodic tol o d p k ks H fuel (obj_split_fuel fuel pieces E)) as (pieces' & E' & _ & T).
  rewrite E in E'. injection E' as <-. destruct (T j Hj) as (T1 & T2 & T3 & T4 & T5 & T6 & T7 & T8 & _). cbv zeta in *.
  split; [exact T1|]. split; [exact T2|]. split; [exact T3|]. split; [exact T4|]. split; [exact T5|].
  split; [exact T6|]. split; [exact T7|exact T8].
Qed.

(* C07: split, then evaluate a piece = evaluate the original *)
Theorem split_then_evaluate fuel pieces : @obj_split R NumR fuel tol o d ks = Ok pieces ->
  forall j ts, (j <= length ks)%nat -> piece_param tol o d p k ks j ts ->
  @obj_eval R NumR tol (nth j pieces o) ts = @obj_eval R NumR tol o ts.
Proof.
  intros E j ts Hj Hts. destruct (obj_split_nonperiodic tol o d p k ks H fuel (obj_split_fuel fuel pieces E)) as (pieces' & E' & _ & T).
  rewrite E in E'. injection E' as <-. destruct (T j Hj) as (_ & _ & _ & _ & _ & _ & _ & _ & T9). apply T9. exact Hts.
Qed.

(* piece_param from conditions on the interval of piece j alone: given the spacing of the split values, the only
   split value the d-th parameter can come close to (other than the piece's end) is the START x_{j-1} of the piece;
   when that is a new knot value (not in k), the parameter must be x_{j-1} itself or at least tol above it *)
Lemma piece_param_intro j ts : (j <= length ks)%nat ->
  (forall i, (i < length (o_bases o))%nat -> i <> d -> in_dom tol (nth i (o_bases o) dflt_basis) (nth i ts 0)) ->
  nth j (ends p k ks) 0 <= nth d ts 0 <= nth (S j) (ends p k ks) 0 ->
  (nth d ts 0 <= nth (S j) (ends p k ks) 0 - 2 * tol \/ j = length ks) ->
  (j = 0%nat \/ In (nth j (ends p k ks) 0) k \/ nth d ts 0 = nth j (ends p k ks) 0 \/ nth j (ends p k ks) 0 + tol <= nth d ts 0) ->
  piece_param tol o d p k ks j ts.
Proof.
  intros Hj Hdom Ht Hside Hstart. split; [exact Hdom|]. split; [exact Ht|]. split; [exact Hside|].
  pose proof (sh_tol _ _ _ _ _ _ H) as Htol. pose proof (sh_ssorted _ _ _ _ _ _ H) as SS. fold (ends p k ks) in SS.
  assert (Hl : length (ends p k ks) = S (S (length ks))) by (unfold ends; cbn [length]; rewrite app_length; cbn [length]; lia).
  set (td := nth d ts 0) in *. set (X := ends p k ks) in *.
  rewrite Forall_forall in *. intros x Hx. destruct (In_nth ks x 0 Hx) as (i & Hi & Ei).
  assert (EX : x = nth (S i) X 0) by (unfold X, ends; cbn [nth]; rewrite app_nth1 by exact Hi; symmetry; exact Ei).
  unfold param_ok. destruct (In_dec Req_EM_T x k) as [Ik|Nk]; [left; exact Ik|right].
  destruct (lt_eq_lt_dec (S i) j) as [[L|E]|L].
  - right. pose proof (ssorted_nth _ _ 0 SS (S i) j ltac:(lia)) as G. unfold gap in G. rewrite <- EX in G.
    rewrite Rabs_left1 by lra. lra.
  - rewrite <- E, <- EX in Hstart, Ht. destruct Hstart as [A|[A|[A|A]]]; [lia|contradiction|left; exact A|right].
    rewrite Rabs_left1 by lra. lra.
  - right. destruct (Nat.eq_dec i j) as [Eij|Nij].
    + subst i. destruct Hside as [A|A]; [|lia]. rewrite <- EX in A. rewrite Rabs_right by lra. lra.
    + pose proof (ssorted_nth _ _ 0 SS (S j) (S i) ltac:(lia)) as G. unfold gap in G. rewrite <- EX in G.
      rewrite Rabs_right by lra. lra.
Qed.
End Main.

(* ---------- the hypotheses are satisfiable: quadratic curve (order 3) on the knots [0,0,0,1,2,3,3,3] with five
   control points, split at [1, 3/2] with tol = 1/100: 1 is a simple knot (two copies are added), 3/2 is new (three) ---------- *)
Section Example.
Let k := [0;0;0;1;2;3;3;3].
Let o := @mkObj R [mkBasis 3 k 0] [[0];[1];[3];[2];[5]] 1 false.
Let tol := 1/100.

Lemma ex_k_sorted : sorted (@kn R NumR k).
Proof.
  apply kn_sorted. unfold k. cbn [sorted_list nleb NumR].
  repeat (match goal with |- context [Rleb ?a ?b] => destruct (Rleb_spec a b); [|lra] end). reflexivity.
Qed.

Lemma ex_hyps : split_hyps tol o 0 3 k [1; 3/2].
Proof.
  assert (Est : st 3 k = 0) by reflexivity. assert (Een : en 3 k = 3) by reflexivity.
  constructor.
  - unfold tol. lra.
  - split; [|split].
    + constructor; [|constructor]. split; [exact ex_k_sorted|]. cbn [b_order b_knots]. split; [lia|]. split; [cbn; lia|].
      split; [cbn; lia|]. change (@b_end R NumR (mkBasis 3 k 0)) with (en 3 k). change (@b_start R NumR (mkBasis 3 k 0)) with (st 3 k).
      rewrite Est, Een. unfold tol. lra.
    + repeat constructor.
    + reflexivity.
  - cbn. lia.
  - reflexivity.
  - rewrite Est, Een. unfold gap, tol. cbn [app]. repeat constructor; lra.
  - unfold knot_sep, tol, k. constructor; [|constructor; [|constructor]]; intros v Hv; cbn [In] in Hv;
      repeat (destruct Hv as [<-|Hv]; [lra|]); destruct Hv.
  - unfold mult, k. constructor; [|constructor; [|constructor]]; cbn [count_occ];
      repeat (match goal with |- context [Req_EM_T ?a ?b] => destruct (Req_EM_T a b); [try lra|try lra] end); lia.
Qed.

(* split succeeds and returns three pieces *)
Theorem example_split : exists pieces, @obj_split R NumR 1 tol o 0 [1; 3/2] = Ok pieces /\ length pieces = 3%nat.
Proof.
  destruct (obj_split_ok tol o 0 3 k [1; 3/2] ex_hyps 1 ltac:(lia)) as (pieces & E). exists pieces. split; [exact E|].
  apply (split_length tol o 0 3 k [1; 3/2] ex_hyps 1 pieces E).
Qed.

(* the last piece, evaluated at its start 3/2 (a NEW knot value), and the middle piece anywhere in [1, 3/2 - 2 tol] *)
Theorem example_eval pieces : @obj_split R NumR 1 tol o 0 [1; 3/2] = Ok pieces ->
  @obj_eval R NumR tol (nth 2 pieces o) [3/2] = @obj_eval R NumR tol o [3/2] /\
  forall t, 1 <= t <= 3/2 - 2 * tol ->
    @obj_eval R NumR tol (nth 1 pieces o) [t] = @obj_eval R NumR tol o [t].
Proof.
  intros E.
  assert (Een : en 3 k = 3) by reflexivity.
  split.
  - apply (split_then_evaluate tol o 0 3 k [1; 3/2] ex_hyps 1 pieces E 2 [3/2] ltac:(cbn; lia)).
    apply (piece_param_intro tol o 0 3 k [1; 3/2] ex_hyps 2 [3/2] ltac:(cbn; lia)).
    + intros i Hi Hne. cbn in Hi. lia.
    + unfold ends. rewrite Een. cbn [nth app]. lra.
    + right. reflexivity.
    + right. right. left. reflexivity.
  - intros t Ht.
    apply (split_then_evaluate tol o 0 3 k [1; 3/2] ex_hyps 1 pieces E 1 [t] ltac:(cbn; lia)).
    apply (piece_param_intro tol o 0 3 k [1; 3/2] ex_hyps 1 [t] ltac:(cbn; lia)).
    + intros i Hi Hne. cbn in Hi. lia.
    + unfold ends. cbn [nth app]. unfold tol in Ht. lra.
    + left. unfold ends. cbn [nth app]. exact (proj2 Ht).
    + right. left. unfold ends, k. cbn [nth app In]. right. right. right. left. reflexivity.
Qed.
End Example.

