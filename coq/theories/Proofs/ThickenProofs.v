(* C15, thicken(curve, amount) for 2-D curves (Model/Thicken.v): shape of the result, the two boundary lines v = 0 / v = 1
   interpolate the offset points, the mid-line v = 1/2 IS the input curve (non-rational input; at the Greville points in
   general), examples on Q compared with the Python implementation, and the zero-start-velocity defect. *)
From Coq Require Import List Arith Reals Lra Lia Bool ZArith QArith.
From SplipyModel Require Import Spec.BSpline Model.Num Model.BasisDef Model.BasisEval Model.Tensor Model.Obj Model.KnotInsert Model.Solve Model.Interp
  Model.Loft Model.Reparam Model.Thicken
  Proofs.EvalConsequences Proofs.TensorLemmas Proofs.TensorApply Proofs.SnapSpec Proofs.ObjEval Proofs.LinAlg Proofs.InsertEndToEnd
  Proofs.InterpProofs Proofs.LoftProofs Proofs.RestrictDirEval Proofs.DefaultObjProofs Proofs.ReparamEndToEnd Proofs.AppendProofs.
Import ListNotations.
Open Scope R_scope.

(* ---------- the interleaved net ---------- *)
Lemma pairs_nth (f g : nat -> list R) m : forall a j, (j < m)%nat ->
  nth (2 * j) (concat (map (fun i => [f i; g i]) (seq a m))) [] = f (a + j)%nat /\
  nth (2 * j + 1) (concat (map (fun i => [f i; g i]) (seq a m))) [] = g (a + j)%nat.
Proof.
  induction m as [|m IH]; intros a j Hj; [lia|]. cbn [seq map concat app].
  destruct j as [|j].
  - cbn [Nat.mul Nat.add nth]. rewrite Nat.add_0_r. split; reflexivity.
  - replace (2 * S j)%nat with (S (S (2 * j))) by lia. replace (S (S (2 * j)) + 1)%nat with (S (S (2 * j + 1))) by lia.
    cbn [nth]. replace (a + S j)%nat with (S a + j)%nat by lia. apply IH. lia.
Qed.
Lemma pairs_length (f g : nat -> list R) m : forall a, length (concat (map (fun i => [f i; g i]) (seq a m))) = (2 * m)%nat.
Proof. induction m as [|m IH]; intros a; [reflexivity|]. cbn [seq map concat app length]. rewrite IH. lia. Qed.
Lemma pairs_Forall (P : list R -> Prop) (f g : nat -> list R) m : forall a,
  (forall i, (a <= i < a + m)%nat -> P (f i) /\ P (g i)) -> Forall P (concat (map (fun i => [f i; g i]) (seq a m))).
Proof.
  induction m as [|m IH]; intros a Hp; [constructor|]. cbn [seq map concat app].
  destruct (Hp a ltac:(lia)) as [P1 P2]. constructor; [exact P1|]. constructor; [exact P2|]. apply IH. intros i Hi. apply Hp. lia.
Qed.

Lemma interleave_length (A B : list (list R)) : length (@interleave R A B) = (2 * length A)%nat.
Proof. unfold interleave. apply pairs_length. Qed.
Lemma interleave_nth (A B : list (list R)) j : (j < length A)%nat ->
  nth (2 * j) (@interleave R A B) [] = nth j A [] /\ nth (2 * j + 1) (@interleave R A B) [] = nth j B [].
Proof. intros Hj. unfold interleave. apply (pairs_nth (fun i => nth i A []) (fun i => nth i B []) (length A) 0 j Hj). Qed.
Lemma interleave_Forall dim (A B : list (list R)) : length B = length A ->
  Forall (fun v => length v = dim) A -> Forall (fun v => length v = dim) B -> Forall (fun v => length v = dim) (@interleave R A B).
Proof.
  intros HL FA FB. unfold interleave. apply pairs_Forall. intros i Hi. rewrite Forall_forall in FA, FB.
  split; [apply FA|apply FB]; apply nth_In; lia.
Qed.

(* a two-direction contraction whose second row has two entries *)
Lemma teval_ruled dim c (Ru : list R) a0 a1 (A B : list (list R)) :
  (c < dim)%nat -> length A = length Ru -> length B = length Ru ->
  Forall (fun v => length v = dim) A -> Forall (fun v => length v = dim) B ->
  coord c (@teval R NumR dim [Ru; [a0; a1]] (@interleave R A B)) = a0 * lc c Ru A + a1 * lc c Ru B.
Proof.
  intros Hc LA LB FA FB.
  rewrite teval_tsum; [|exact Hc|split; [apply interleave_Forall; [lia|exact FA|exact FB]|rewrite interleave_length; cbn [map prodl fold_right length]; lia]].
  cbn [tsum map prodl fold_right length]. cbv zeta. unfold lcf at 1.
  rewrite !lc_rowsum by lia.
  rewrite <- !sumf_scal, <- sumf_plus. apply sumf_ext. intros i Hi.
  unfold lcf. cbn [length sumf nth]. unfold cnet.
  replace (i * (2 * 1) + (0 * 1 + 0))%nat with (2 * i)%nat by lia. replace (i * (2 * 1) + (1 * 1 + 0))%nat with (2 * i + 1)%nat by lia.
  destruct (interleave_nth A B i ltac:(lia)) as [E0 E1].
  rewrite (nth_indep _ _ []) by (rewrite interleave_length; lia). rewrite E0.
  rewrite (nth_indep _ (@vzero R NumR dim) []) by (rewrite interleave_length; lia). rewrite E1. ring.
Qed.

(* ---------- the linear basis BSplineBasis(2) ---------- *)
Definition k01 : list R := [0; 0; 1; 1].
Lemma k01_sorted : sorted (@kn R NumR k01).
Proof.
  apply sorted_kn_of_nth. intros i j Hij. cbn [length k01] in Hij.
  do 4 (destruct i as [|i]; [do 4 (destruct j as [|j]; [cbn; first [lra|lia]|]); lia|]). lia.
Qed.
Lemma linear01_R : @linear01 R NumR = mkBasis 2 k01 0. Proof. reflexivity. Qed.

(* the row of the linear basis at a validated parameter w (0 <= w <= 1, already snapped) *)
Lemma lin_row tol w : 0 < tol -> 2 * tol <= 1 -> 0 <= w <= 1 -> @snap1 R NumR k01 tol w = w ->
  @basis_row R NumR tol (@linear01 R NumR) 0 true w = [1 - w; w].
Proof.
  intros Htol Ht2 Hw Hs. rewrite linear01_R.
  rewrite (basis_row_nonper tol k01 2 w k01_sorted ltac:(lia) ltac:(cbn; lia) Htol). rewrite Hs.
  assert (K1 : @kn R NumR k01 (length k01 - 2) = 1) by reflexivity.
  assert (K0 : @kn R NumR k01 (2 - 1) = 0) by reflexivity.
  pose proof (normalise_nonper_true k01 2 tol w Htol ltac:(rewrite K1, K0; lra) ltac:(rewrite K1, K0; lra)) as EN.
  rewrite EN.
  destruct (dir_facts k01 2 tol w w _ k01_sorted ltac:(lia) ltac:(cbn; lia) Htol ltac:(cbn; lia) EN) as (_ & S1 & G).
  specialize (G ltac:(lia)).
  set (sd := if Rltb _ _ then false else true) in *.
  unfold OrderRaise.Brow in *. cbn [length k01 Nat.sub seq map] in *.
  set (B0 := B sd _ _ 0%nat w) in *. set (B1 := B sd _ _ 1%nat w) in *.
  unfold lcf in G. cbn [length sumf nth rsum fold_right] in *.
  assert (G0 : @greville R NumR k01 2 0 = 0) by (unfold greville, sumn, kn, nofnat; cbn; field).
  assert (G1 : @greville R NumR k01 2 1 = 1) by (unfold greville, sumn, kn, nofnat; cbn; field).
  rewrite G0, G1 in G.
  f_equal; [lra|]. f_equal. lra.
Qed.

(* the interpolation points of one side *)
Definition thk_pts (dist : list R -> R -> R) (ts : list R) (n : nat) (x nv : list (list R)) (side : list R -> list R -> R -> list R) : list (list R) :=
  map (fun i => side (nth i x []) (nth i nv []) (dist (nth i x []) (nth i ts 0))) (seq 0 n).
Lemma thk_pts_mat dist ts n x nv side : (forall a b d, length (side a b d) = 2%nat) -> mat n 2 (thk_pts dist ts n x nv side).
Proof.
  intros Hs. split; [unfold thk_pts; rewrite map_length, seq_length; reflexivity|].
  apply Forall_forall. intros r Hr. apply in_map_iff in Hr. destruct Hr as (i & <- & _). apply Hs.
Qed.
Lemma thk_pts_nth dist ts n x nv side i : (i < n)%nat ->
  nth i (thk_pts dist ts n x nv side) [] = side (nth i x []) (nth i nv []) (dist (nth i x []) (nth i ts 0)).
Proof. intros Hi. unfold thk_pts. rewrite (nth_map_gen _ _ i [] 0%nat) by (rewrite seq_length; exact Hi). rewrite seq_nth by exact Hi. reflexivity. Qed.

Lemma res_map_nth {A B} (f : A -> res B) : forall l r, @res_map A B f l = Ok r ->
  length r = length l /\ forall i d d', (i < length l)%nat -> f (nth i l d) = Ok (nth i r d').
Proof.
  induction l as [|a l IH]; intros r E; cbn [res_map] in E.
  - injection E as <-. split; [reflexivity|]. intros i d d' Hi. cbn in Hi. lia.
  - destruct (f a) as [y|] eqn:Ea; [|discriminate]. destruct (res_map f l) as [r'|] eqn:Er; [|discriminate]. injection E as <-.
    destruct (IH r' eq_refl) as [L Hn]. split; [cbn; lia|]. intros i d d' Hi. destruct i as [|i]; [exact Ea|]. cbn [nth]. apply Hn. cbn in Hi. lia.
Qed.

(* ================================================================================================ *)
Section Thicken.
Variable sqrtR : R -> R.        (* ANY function in the place of np.sqrt: nothing below depends on what it computes *)
Variables (tol eps : R) (curve : obj R) (dist : list R -> R -> R) (S : obj R).
Hypothesis Hres : @thicken_gen R NumR sqrtR (@edge_curves2 R NumR) tol eps curve dist = Ok S.
Local Notation b := (hd (@dflt_bas R) (o_bases curve)).
Local Notation ts := (@greville_all R NumR b).
Local Notation n := (@b_nfun R b).
Local Notation N := (@colloc R NumR tol b 0 ts).
(* H_len: len(curve) is the number of basis functions (true of every Curve object) *)
Hypothesis Hlen : length (o_cps curve) = n.
Hypothesis Hn : (0 < n)%nat.

Lemma thicken_unpack : exists x v nv Ni b',
  o_dim curve = 2%nat /\
  @thk_eval R NumR tol curve ts = Ok x /\ @thk_deriv R NumR tol curve ts = Ok v /\ @thk_normals R NumR sqrtR eps n v = Ok nv /\
  @inverse R NumR N = Ok Ni /\ @basis_reparam R NumR b 0 1 = Ok b' /\
  S = mkObj [b'; @linear01 R NumR]
        (@interleave R (@matmul R NumR Ni (thk_pts dist ts n x nv (@thk_right R NumR)))
                       (@matmul R NumR Ni (thk_pts dist ts n x nv (@thk_left R NumR)))) 2 false.
Proof.
  unfold thicken_gen in Hres. rewrite Hlen in Hres.
  destruct (Nat.eqb_spec (o_dim curve) 2) as [Ed|Ed]; cbn [negb] in Hres; [|discriminate]. cbv zeta in Hres.
  destruct (@thk_eval R NumR tol curve ts) as [x|] eqn:Ex; [|discriminate].
  destruct (@thk_deriv R NumR tol curve ts) as [v|] eqn:Ev; [|discriminate].
  destruct (@thk_normals R NumR sqrtR eps n v) as [nv|] eqn:Env; [|discriminate].
  unfold curve_interpolate in Hres.
  destruct (@inverse R NumR N) as [Ni|] eqn:EI; [|discriminate].
  unfold edge_curves2, obj_reparam_dir in Hres. cbn [o_bases nth o_cps o_dim o_rat] in Hres.
  destruct (@basis_reparam R NumR b (@n0 R NumR) (@n1 R NumR)) as [b'|] eqn:Eb; [|discriminate].
  exists x, v, nv, Ni, b'. repeat (split; [first [assumption|reflexivity]|]).
  injection Hres as <-. unfold ruled. cbn [o_bases o_cps o_dim o_rat upd hd].
  fold (thk_pts dist ts n x nv (@thk_right R NumR)). fold (thk_pts dist ts n x nv (@thk_left R NumR)).
  assert (E2 : length (hd [] (thk_pts dist ts n x nv (@thk_right R NumR))) = 2%nat).
  { unfold thk_pts. destruct n; [lia|]. reflexivity. }
  rewrite E2. reflexivity.
Qed.

Lemma N_mat : mat n n N.
Proof. pose proof (colloc_mat tol b 0 ts) as HN. rewrite greville_all_length in HN. exact HN. Qed.

(* ---------- (1) shape and bases of the result ---------- *)
(* pardim 2; first basis = the curve's basis REPARAMETRISED to [0,1] (make_splines_identical inside edge_curves), second
   basis = BSplineBasis(2) = order 2 on the knots [0,0,1,1]; dimension 2, non-rational, n x 2 control points *)
Theorem thicken_shape : exists b',
  @basis_reparam R NumR b 0 1 = Ok b' /\ o_bases S = [b'; @linear01 R NumR] /\ @o_pardim R S = 2%nat /\
  o_dim S = 2%nat /\ o_rat S = false /\ length (o_cps S) = (n * 2)%nat /\ Forall (fun p => length p = 2%nat) (o_cps S).
Proof.
  destruct thicken_unpack as (x & v & nv & Ni & b' & Ed & Ex & Ev & Env & EI & Eb & ->).
  exists b'. split; [exact Eb|]. cbn [o_bases o_dim o_rat o_cps]. unfold o_pardim. cbn [o_bases length].
  do 4 (split; [reflexivity|]).
  pose proof N_mat as HN. assert (LN : length N = n) by (destruct HN; assumption).
  apply inverse_spec in EI. rewrite LN in EI. destruct EI as (_ & _ & HNi).
  pose proof (matmul_mat n n 2 Ni _ HNi (thk_pts_mat dist ts n x nv (@thk_right R NumR) ltac:(reflexivity)) Hn) as [LR FR].
  pose proof (matmul_mat n n 2 Ni _ HNi (thk_pts_mat dist ts n x nv (@thk_left R NumR) ltac:(reflexivity)) Hn) as [LL FL].
  split; [rewrite interleave_length, LR; lia|]. apply interleave_Forall; [lia|exact FR|exact FL].
Qed.

(* on a well-formed basis the reparametrised basis is the affine image of the knots: domain [0,1], same order *)
Theorem thicken_shape_wf : 0 < tol -> wf_basis_R tol b ->
  o_bases S = [rp_basis b 0 1; @linear01 R NumR] /\ @b_start R NumR (rp_basis b 0 1) = 0 /\ @b_end R NumR (rp_basis b 0 1) = 1 /\
  b_order (rp_basis b 0 1) = b_order b /\ @b_nfun R (rp_basis b 0 1) = n /\
  (b_knots (rp_basis b 0 1) = b_knots b <-> (forall x, In x (b_knots b) -> rp_map b 0 1 x = x)).
Proof.
  intros Htol Hwf. destruct thicken_shape as (b' & Eb & EB & _).
  pose proof (dir_ne tol b Hwf) as Hne. pose proof (dir_dom tol Htol b Hwf) as Hdm.
  rewrite (basis_reparam_ok b Hne Hdm 0 1 ltac:(lra)) in Eb. injection Eb as <-.
  split; [exact EB|]. split; [apply rp_start; exact Hne|]. split; [apply rp_end; assumption|]. split; [reflexivity|].
  split; [unfold b_nfun, rp_basis; cbn [b_knots b_order b_per1]; rewrite map_length; reflexivity|].
  cbn [rp_basis b_knots]. split.
  - intros E x Hx. apply (In_nth _ _ 0) in Hx. destruct Hx as (i & Hi & <-).
    rewrite <- E at 2. rewrite (nth_map_gen _ _ i 0 0) by exact Hi. reflexivity.
  - intros H. rewrite <- (map_id (b_knots b)) at 2. apply map_ext_in. exact H.
Qed.

(* ---------- (2) the two interpolants: the collocation systems hold ---------- *)
(* the result net is the interleaving of two nets Rn (v = 0) and Ln (v = 1) with  N Rn = right points, N Ln = left points,
   right_i = x_i + d_i * (-v_i1, v_i0),  left_i = x_i - d_i * (-v_i1, v_i0)  (x, v, d as computed by the code) *)
Theorem thicken_nets : exists x v nv Rn Ln,
  @thk_eval R NumR tol curve ts = Ok x /\ @thk_deriv R NumR tol curve ts = Ok v /\ @thk_normals R NumR sqrtR eps n v = Ok nv /\
  o_cps S = @interleave R Rn Ln /\ mat n 2 Rn /\ mat n 2 Ln /\
  @matmul R NumR N Rn = thk_pts dist ts n x nv (@thk_right R NumR) /\
  @matmul R NumR N Ln = thk_pts dist ts n x nv (@thk_left R NumR) /\
  (exists Ni, @matmul R NumR Ni N = @ident R NumR n /\ mat n n Ni /\
     Rn = @matmul R NumR Ni (thk_pts dist ts n x nv (@thk_right R NumR)) /\
     Ln = @matmul R NumR Ni (thk_pts dist ts n x nv (@thk_left R NumR))).
Proof.
  destruct thicken_unpack as (x & v & nv & Ni & b' & Ed & Ex & Ev & Env & EI & Eb & ->).
  pose proof N_mat as HN. assert (LN : length N = n) by (destruct HN; assumption).
  apply inverse_spec in EI. rewrite LN in EI. destruct EI as (E1 & E2 & HNi).
  pose proof (thk_pts_mat dist ts n x nv (@thk_right R NumR) ltac:(reflexivity)) as HPr.
  pose proof (thk_pts_mat dist ts n x nv (@thk_left R NumR) ltac:(reflexivity)) as HPl.
  exists x, v, nv, (@matmul R NumR Ni (thk_pts dist ts n x nv (@thk_right R NumR))), (@matmul R NumR Ni (thk_pts dist ts n x nv (@thk_left R NumR))).
  do 3 (split; [assumption|]). split; [reflexivity|].
  split; [apply (matmul_mat n n 2); assumption|]. split; [apply (matmul_mat n n 2); assumption|].
  split; [rewrite <- (matmul_assoc n n n 2) by assumption; rewrite E1; apply (matmul_ident_l n 2); assumption|].
  split; [rewrite <- (matmul_assoc n n n 2) by assumption; rewrite E1; apply (matmul_ident_l n 2); assumption|].
  exists Ni. repeat split; try assumption; destruct HNi; assumption.
Qed.
(* ---------- evaluate() on the result ---------- *)
Hypothesis Htol : 0 < tol.
Hypothesis Htol2 : 2 * tol <= 1.                 (* the linear direction [0,1] is at least two tolerances wide *)
Hypothesis Hwf : wf_basis_R tol b.
Local Notation b1 := (rp_basis b 0 1).
Local Notation um := (rp_map b 0 1).             (* t |-> (t - start) / (end - start) *)

(* evaluate(u, w) on the result: ValueError or the ruled combination with weights (1 - w', w'), w' the snapped w *)
Lemma thicken_eval_unfold u w p : @obj_eval R NumR tol S [u; w] = Ok p ->
  let w' := @snap1 R NumR k01 tol w in
  0 <= w' <= 1 /\
  p = @teval R NumR 2 [@basis_row R NumR tol b1 0 true (@snap1 R NumR (b_knots b1) tol u); [1 - w'; w']] (o_cps S).
Proof.
  intros Hev. cbv zeta. destruct (thicken_shape_wf Htol Hwf) as (EB & _). destruct thicken_shape as (b' & _ & _ & _ & Ed & Er & _).
  unfold obj_eval in Hev. rewrite EB in Hev. cbn [validate hd tl] in Hev.
  destruct (@validate1 R NumR tol b1 u) as [u'|] eqn:EU; [|discriminate].
  destruct (@validate1 R NumR tol (@linear01 R NumR) w) as [w'|] eqn:EW; [|discriminate].
  rewrite Er in Hev. injection Hev as <-.
  assert (Eu' : u' = @snap1 R NumR (b_knots b1) tol u).
  { unfold validate1 in EU. cbv zeta in EU. destruct (_ && _); [discriminate|]. injection EU as <-. reflexivity. }
  assert (Ew' : w' = @snap1 R NumR k01 tol w /\ 0 <= w' <= 1).
  { unfold validate1 in EW. cbv zeta in EW. rewrite linear01_R in EW. cbn [b_per1 b_knots Nat.eqb andb] in EW.
    change (@b_start R NumR (mkBasis 2 k01 0)) with 0 in EW. change (@b_end R NumR (mkBasis 2 k01 0)) with 1 in EW.
    cbn [nltb NumR] in EW.
    destruct (Rltb_spec (@snap1 R NumR k01 tol w) 0) as [A|A]; [discriminate|].
    destruct (Rltb_spec 1 (@snap1 R NumR k01 tol w)) as [B|B]; [discriminate|]. cbn [orb] in EW. injection EW as <-. split; [reflexivity|lra]. }
  destruct Ew' as [Ew' Hw']. rewrite <- Ew'. split; [exact Hw'|].
  unfold eval_h, rows_at, o_ncomp. rewrite EB, Er, Ed. cbn [length seq map nth Nat.add].
  rewrite (lin_row tol w' Htol Htol2 Hw') by (rewrite Ew'; apply (snap1_idem k01 k01_sorted tol Htol)).
  rewrite Eu'. reflexivity.
Qed.

(* H_clear: every Greville point of the curve's basis is clear of the knots (equal to a knot, or at distance at least
   max(tol, tol*(end-start)) from it), so that snapping agrees before and after the reparametrisation to [0,1];
   H_per: on a periodic basis the Greville points used lie in the base period *)
Hypothesis Hclear : forall i, (i < n)%nat -> knot_clear (b_knots b) (Rmax tol (tol / rp_al b 0 1)) (nth i ts 0).
Hypothesis Hper : forall i, (i < n)%nat -> b_per1 b <> 0%nat -> @b_start R NumR b <= nth i ts 0 <= @b_end R NumR b.

(* (2)+(3) at every Greville point t_i (parameter um t_i of the result) and EVERY w: the point of the surface is the
   combination of the two offset points with the linear weights *)
Theorem thicken_eval_greville x v nv i w p :
  @thk_eval R NumR tol curve ts = Ok x -> @thk_deriv R NumR tol curve ts = Ok v -> @thk_normals R NumR sqrtR eps n v = Ok nv ->
  (i < n)%nat -> @obj_eval R NumR tol S [um (nth i ts 0); w] = Ok p ->
  let w' := @snap1 R NumR k01 tol w in
  let xi := nth i x [] in let ni := nth i nv [] in let d := dist xi (nth i ts 0) in
  0 <= w' <= 1 /\
  forall c, (c < 2)%nat -> coord c p = (1 - w') * coord c (@thk_right R NumR xi ni d) + w' * coord c (@thk_left R NumR xi ni d).
Proof.
  intros Ex Ev Env Hi Hev. cbv zeta.
  destruct (thicken_eval_unfold _ _ _ Hev) as [Hw' ->]. cbv zeta in Hw'. split; [exact Hw'|]. intros c Hc.
  destruct thicken_nets as (x0 & v0 & nv0 & Rn & Ln & Ex0 & Ev0 & Env0 & -> & HR & HL & ER & EL & _).
  rewrite Ex in Ex0. injection Ex0 as <-. rewrite Ev in Ev0. injection Ev0 as <-. rewrite Env in Env0. injection Env0 as <-.
  destruct (dir_same tol Htol b Hwf 0 1 ltac:(lra) (nth i ts 0) (Hclear i Hi) (Hper i Hi)) as [_ Erow].
  rewrite Erow. destruct Hwf as (HK & _).
  rewrite <- (InterpProofs.colloc_row tol b 0 ts i HK Htol) by (rewrite greville_all_length; exact Hi).
  pose proof N_mat as HN. pose proof (mat_row n n N i HN Hi) as LRow.
  destruct HR as [LR FR]. destruct HL as [LL FL].
  rewrite teval_ruled; [|exact Hc|lia|lia|exact FR|exact FL].
  rewrite (matmul_row_lc n n 2 N Rn i c HN (conj LR FR) Hn Hi Hc), ER.
  rewrite (matmul_row_lc n n 2 N Ln i c HN (conj LL FL) Hn Hi Hc), EL.
  unfold ment. rewrite !thk_pts_nth by exact Hi. reflexivity.
Qed.

(* (2) the line v = 0 passes through  x(t_i) + d_i * (-n_i1, n_i0)  (n_i the normalised velocity: +amount is on the LEFT of the
   direction of travel, the code's "right_points"), the line v = 1 through  x(t_i) - d_i * (-n_i1, n_i0) *)
Theorem thicken_boundary_v0 x v nv i p :
  @thk_eval R NumR tol curve ts = Ok x -> @thk_deriv R NumR tol curve ts = Ok v -> @thk_normals R NumR sqrtR eps n v = Ok nv ->
  (i < n)%nat -> @obj_eval R NumR tol S [um (nth i ts 0); 0] = Ok p ->
  let xi := nth i x [] in let ni := nth i nv [] in let d := dist xi (nth i ts 0) in
  coord 0 p = nth 0 xi 0 - nth 1 ni 0 * d /\ coord 1 p = nth 1 xi 0 + nth 0 ni 0 * d.
Proof.
  intros Ex Ev Env Hi Hev. cbv zeta.
  destruct (thicken_eval_greville x v nv i 0 p Ex Ev Env Hi Hev) as [_ H]. cbv zeta in H.
  assert (E0 : @snap1 R NumR k01 tol 0 = 0) by exact (snap1_knot k01 k01_sorted tol Htol 0 ltac:(cbn; lia)).
  rewrite E0 in H. split; [rewrite (H 0%nat ltac:(lia))|rewrite (H 1%nat ltac:(lia))]; unfold thk_right, thk_left, coord; cbn [nth nadd nsub nmul n0 NumR]; ring.
Qed.
Theorem thicken_boundary_v1 x v nv i p :
  @thk_eval R NumR tol curve ts = Ok x -> @thk_deriv R NumR tol curve ts = Ok v -> @thk_normals R NumR sqrtR eps n v = Ok nv ->
  (i < n)%nat -> @obj_eval R NumR tol S [um (nth i ts 0); 1] = Ok p ->
  let xi := nth i x [] in let ni := nth i nv [] in let d := dist xi (nth i ts 0) in
  coord 0 p = nth 0 xi 0 + nth 1 ni 0 * d /\ coord 1 p = nth 1 xi 0 - nth 0 ni 0 * d.
Proof.
  intros Ex Ev Env Hi Hev. cbv zeta.
  destruct (thicken_eval_greville x v nv i 1 p Ex Ev Env Hi Hev) as [_ H]. cbv zeta in H.
  assert (E1 : @snap1 R NumR k01 tol 1 = 1) by exact (snap1_knot k01 k01_sorted tol Htol 3 ltac:(cbn; lia)).
  rewrite E1 in H. split; [rewrite (H 0%nat ltac:(lia))|rewrite (H 1%nat ltac:(lia))]; unfold thk_right, thk_left, coord; cbn [nth nadd nsub nmul n0 NumR]; ring.
Qed.

Lemma snap_half : @snap1 R NumR k01 tol (1/2) = 1/2.
Proof.
  apply (snap1_clear k01 tol (1/2) k01_sorted Htol). intros z Hz. right.
  cbn [k01 In] in Hz. destruct Hz as [<-|[<-|[<-|[<-|[]]]]].
  - rewrite Rabs_left by lra. lra.
  - rewrite Rabs_left by lra. lra.
  - rewrite Rabs_right by lra. lra.
  - rewrite Rabs_right by lra. lra.
Qed.

(* (3a) the mid-line v = 1/2 passes through x(t_i) = curve.evaluate(t_i) at every Greville point -- whatever the normals, the
   amount, the sqrt; rational input included *)
Theorem thicken_midline_greville x v nv i p :
  @thk_eval R NumR tol curve ts = Ok x -> @thk_deriv R NumR tol curve ts = Ok v -> @thk_normals R NumR sqrtR eps n v = Ok nv ->
  (i < n)%nat -> @obj_eval R NumR tol S [um (nth i ts 0); 1/2] = Ok p ->
  coord 0 p = nth 0 (nth i x []) 0 /\ coord 1 p = nth 1 (nth i x []) 0.
Proof.
  intros Ex Ev Env Hi Hev.
  destruct (thicken_eval_greville x v nv i (1/2) p Ex Ev Env Hi Hev) as [_ H]. cbv zeta in H.
  rewrite snap_half in H. split; [rewrite (H 0%nat ltac:(lia))|rewrite (H 1%nat ltac:(lia))]; unfold thk_right, thk_left, coord; cbn [nth nadd nsub nmul n0 NumR]; field.
Qed.
(* ---------- (3b) non-rational input: the mid-line IS the input curve ---------- *)
(* H_curve: the input is a non-rational curve object: one basis, n control points with two components *)
Hypothesis Hb1 : length (o_bases curve) = 1%nat.
Hypothesis Hnr : o_rat curve = false.
Hypothesis Hcp : Forall (fun q => length q = 2%nat) (o_cps curve).
Local Notation C := (o_cps curve).

Lemma curve_bases : o_bases curve = [b].
Proof. destruct (o_bases curve) as [|b0 [|? ?]]; try discriminate. reflexivity. Qed.

(* the sampled points are N C *)
Lemma thicken_x_colloc x i c : @thk_eval R NumR tol curve ts = Ok x -> (i < n)%nat -> (c < 2)%nat ->
  nth c (nth i x []) 0 = ment (@matmul R NumR N C) i c.
Proof.
  intros Ex Hi Hc. unfold thk_eval in Ex. destruct (res_map_nth _ _ _ Ex) as [_ Hx].
  specialize (Hx i 0 [] ltac:(rewrite greville_all_length; exact Hi)). cbv beta in Hx.
  destruct thicken_unpack as (_ & _ & _ & _ & _ & Ed & _).
  unfold obj_eval in Hx. rewrite curve_bases in Hx. cbn [validate hd tl] in Hx.
  destruct (@validate1 R NumR tol b (nth i ts 0)) as [t'|] eqn:EV; [|discriminate].
  assert (Et' : t' = @snap1 R NumR (b_knots b) tol (nth i ts 0)).
  { unfold validate1 in EV. cbv zeta in EV. destruct (_ && _); [discriminate|]. injection EV as <-. reflexivity. }
  rewrite Hnr in Hx. injection Hx as Hx. rewrite <- Hx.
  unfold eval_h, rows_at, o_ncomp. rewrite curve_bases, Hnr, Ed. cbn [length seq map nth Nat.add].
  destruct Hwf as (HK & _).
  rewrite Et', <- (InterpProofs.colloc_row tol b 0 ts i HK Htol) by (rewrite greville_all_length; exact Hi).
  pose proof N_mat as HN.
  fold (coord c (@teval R NumR 2 [nth i N []] C)).
  rewrite teval_curve; [|exact Hcp|rewrite (mat_row n n N i HN Hi); exact Hlen|exact Hc].
  apply (matmul_row_lc n n 2 N C i c HN (conj Hlen Hcp) Hn Hi Hc).
Qed.

(* net level: control point (i, 0) + control point (i, 1) = 2 * control point i of the input, for ANY normals and amounts *)
Theorem thicken_midline_net i c : (i < n)%nat -> (c < 2)%nat ->
  coord c (nth (2 * i) (o_cps S) []) + coord c (nth (2 * i + 1) (o_cps S) []) = 2 * coord c (nth i C []).
Proof.
  intros Hi Hc.
  destruct thicken_nets as (x & v & nv & Rn & Ln & Ex & Ev & Env & -> & HR & HL & _ & _ & Ni & E2 & HNi & -> & ->).
  pose proof N_mat as HN.
  pose proof (thk_pts_mat dist ts n x nv (@thk_right R NumR) ltac:(reflexivity)) as HPr.
  pose proof (thk_pts_mat dist ts n x nv (@thk_left R NumR) ltac:(reflexivity)) as HPl.
  destruct (interleave_nth (@matmul R NumR Ni (thk_pts dist ts n x nv (@thk_right R NumR)))
                           (@matmul R NumR Ni (thk_pts dist ts n x nv (@thk_left R NumR))) i ltac:(destruct HR as [LR _]; lia)) as [-> ->].
  change (ment (@matmul R NumR Ni (thk_pts dist ts n x nv (@thk_right R NumR))) i c
          + ment (@matmul R NumR Ni (thk_pts dist ts n x nv (@thk_left R NumR))) i c = 2 * ment C i c).
  rewrite !(matmul_ent n n 2) by assumption.
  rewrite <- sumf_plus.
  rewrite (sumf_ext _ (fun l => 2 * (ment Ni i l * ment (@matmul R NumR N C) l c))).
  2:{ intros l Hl. unfold ment at 2 4. rewrite !thk_pts_nth by lia.
      pose proof (thicken_x_colloc x l 0 Ex ltac:(lia) ltac:(lia)) as X0.
      pose proof (thicken_x_colloc x l 1 Ex ltac:(lia) ltac:(lia)) as X1.
      destruct c as [|[|c]]; [| |lia]; unfold thk_right, thk_left; cbn [nth nadd nsub nmul n0 NumR] in *; [rewrite <- X0|rewrite <- X1]; ring. }
  rewrite sumf_scal. f_equal.
  assert (HC : mat n 2 C) by (split; assumption).
  rewrite <- (matmul_ent n n 2 Ni (@matmul R NumR N C) i c HNi (matmul_mat n n 2 N C HN HC Hn) Hn Hi Hc).
  rewrite <- (matmul_assoc n n n 2 Ni N C HNi HN HC Hn Hn), E2, (matmul_ident_l n 2 C HC Hn). reflexivity.
Qed.

Lemma basis_row_len (bb : basis R) t : length (@basis_row R NumR tol bb 0 true t) = @b_nfun R bb.
Proof.
  unfold basis_row. pose proof (colloc_mat tol bb 0 [t]) as [L Fo]. unfold colloc in *.
  destruct (@basis_evaluate R NumR (b_knots bb) (b_order bb) (b_per1 bb) tol 0 true [t]) as [|r rs]; [cbn in L; lia|].
  cbn [hd]. inversion Fo; assumption.
Qed.

(* evaluate level, EVERY parameter u: the mid-line of the result is the input curve reparametrised to [0,1] *)
Theorem thicken_midline_is_curve curve' u p q :
  @obj_reparam_dir R NumR curve 0 0 1 = Ok curve' ->
  @obj_eval R NumR tol S [u; 1/2] = Ok p -> @obj_eval R NumR tol curve' [u] = Ok q ->
  forall c, (c < 2)%nat -> coord c p = coord c q.
Proof.
  intros Erp Hp Hq c Hc.
  destruct (thicken_eval_unfold _ _ _ Hp) as [_ ->]. rewrite snap_half.
  destruct thicken_unpack as (_ & _ & _ & _ & _ & Ed & _).
  pose proof (dir_ne tol b Hwf) as Hne. pose proof (dir_dom tol Htol b Hwf) as Hdm.
  unfold obj_reparam_dir in Erp. rewrite curve_bases in Erp. cbn [nth upd] in Erp.
  rewrite (basis_reparam_ok b Hne Hdm 0 1 ltac:(lra)) in Erp. injection Erp as <-.
  unfold obj_eval in Hq. cbn [o_bases o_rat validate hd tl] in Hq.
  destruct (@validate1 R NumR tol b1 u) as [u'|] eqn:EU; [|discriminate].
  assert (Eu' : u' = @snap1 R NumR (b_knots b1) tol u).
  { unfold validate1 in EU. cbv zeta in EU. destruct (_ && _); [discriminate|]. injection EU as <-. reflexivity. }
  rewrite Hnr in Hq. injection Hq as <-.
  unfold eval_h, rows_at, o_ncomp. cbn [o_bases o_rat o_dim o_cps]. rewrite Ed. cbn [length seq map nth Nat.add].
  rewrite Eu'. set (Ru := @basis_row R NumR tol b1 0 true _).
  assert (LRu : length Ru = n).
  { unfold Ru. rewrite basis_row_len. unfold b_nfun, rp_basis. cbn [b_knots b_order b_per1]. rewrite map_length. reflexivity. }
  rewrite teval_curve; [|exact Hcp|lia|exact Hc].
  destruct thicken_nets as (x & v & nv & Rn & Ln & _ & _ & _ & EC & [LR FR] & [LL FL] & _).
  rewrite EC. rewrite teval_ruled; [|exact Hc|lia|lia|exact FR|exact FL].
  rewrite !lc_rowsum by lia. rewrite LRu.
  rewrite <- !sumf_scal, <- sumf_plus. apply sumf_ext. intros i Hi.
  pose proof (thicken_midline_net i c ltac:(lia) Hc) as M. rewrite EC in M.
  destruct (interleave_nth Rn Ln i ltac:(lia)) as [E0 E1]. rewrite E0, E1 in M. nra.
Qed.
End Thicken.

(* ---------- the normalisation loop ---------- *)
(* regular case (no velocity shorter than eps): every velocity is divided by the length of the RAW velocity *)
Lemma thk_norm_fold (sqrtR : R -> R) eps (l : list R) : forall m a (v : list (list R)),
  (forall i, (a <= i < a + m)%nat -> Rltb (nth i l 0) eps = false) ->
  exists nv, fold_left (@thk_norm_step R NumR eps l) (seq a m) (Ok v) = Ok nv /\ length nv = length v /\
    (forall i, (a <= i < a + m)%nat -> (i < length v)%nat -> nth i nv [] = map (fun c => c / nth i l 0) (nth i v [])) /\
    (forall i, ~ (a <= i < a + m)%nat -> nth i nv [] = nth i v []).
Proof.
  induction m as [|m IH]; intros a v Hreg.
  - exists v. cbn [seq fold_left]. split; [reflexivity|]. split; [reflexivity|]. split; [intros i Hi; lia|reflexivity].
  - cbn [seq fold_left]. unfold thk_norm_step at 2. cbn [nltb n0 ndiv NumR]. rewrite (Hreg a ltac:(lia)).
    set (v1 := upd v a _).
    destruct (IH (S a) v1 ltac:(intros i Hi; apply Hreg; lia)) as (nv & E & L & Hin & Hout).
    assert (L1 : length v1 = length v) by apply upd_length.
    exists nv. split; [exact E|]. split; [lia|]. split.
    + intros i Hi Hlt. destruct (Nat.eq_dec i a) as [->|Hne].
      * rewrite Hout by lia. unfold v1. rewrite upd_nth_same by exact Hlt. reflexivity.
      * rewrite Hin by lia. unfold v1. rewrite upd_nth_other by exact Hne. reflexivity.
    + intros i Hi. rewrite Hout by lia. unfold v1. apply upd_nth_other. lia.
Qed.

Theorem thk_normals_regular (sqrtR : R -> R) eps n (v : list (list R)) : length v = n ->
  (forall i, (i < n)%nat -> ~ @thk_len R NumR sqrtR (nth i v []) < eps) ->
  exists nv, @thk_normals R NumR sqrtR eps n v = Ok nv /\ length nv = n /\
    forall i, (i < n)%nat -> nth i nv [] = map (fun c => c / @thk_len R NumR sqrtR (nth i v [])) (nth i v []).
Proof.
  intros Lv Hreg. unfold thk_normals.
  assert (El : forall i, (i < n)%nat -> nth i (map (@thk_len R NumR sqrtR) v) 0 = @thk_len R NumR sqrtR (nth i v [])).
  { intros i Hi. rewrite (nth_map_gen _ _ i 0 []) by lia. reflexivity. }
  destruct (thk_norm_fold sqrtR eps (map (@thk_len R NumR sqrtR) v) n 0 v) as (nv & E & L & Hin & _).
  { intros i Hi. rewrite El by lia. destruct (Rltb_spec (@thk_len R NumR sqrtR (nth i v [])) eps) as [A|A]; [|reflexivity].
    exfalso. apply (Hreg i ltac:(lia)). exact A. }
  exists nv. split; [exact E|]. split; [lia|]. intros i Hi. rewrite Hin by lia. rewrite El by exact Hi. reflexivity.
Qed.

(* with the real square root the regular normals are unit vectors *)
Lemma thk_unit (a c : R) : 0 < sqrt (a * a + c * c) ->
  let l := sqrt (a * a + c * c) in (a / l) * (a / l) + (c / l) * (c / l) = 1.
Proof.
  intros Hl. cbv zeta. set (l := sqrt (a * a + c * c)) in *.
  assert (E : l * l = a * a + c * c) by (apply sqrt_sqrt; nra).
  field_simplify_eq; [|lra]. nra.
Qed.

(* ================================================================================================ *)
(* (4) Executed on Q and compared with the Python implementation.  Non-vacuity of the hypotheses above: the model returns Ok
   on these inputs, the bases are well formed, evaluation at the Greville parameters succeeds.

   PYTHONPATH=/repo /venv/bin/python:
     from splipy import *; import splipy.surface_factory as sf
     c = Curve(BSplineBasis(3,[1,1,1,2,4,4,4]), [[0,0],[3,4],[9,12],[12,16]]);  s = sf.thicken(c, 0.5)
     s.bases[0].knots -> [0,0,0,1/3,1,1,1]   s.bases[1].knots -> [0,0,1,1]   s.shape -> (4,2)
     s.controlpoints  -> [[-.4,.3],[.4,-.3]], [[2.6,4.3],[3.4,3.7]], [[8.6,12.3],[9.4,11.7]], [[11.6,16.3],[12.4,15.7]]
     c.bases[0].greville() -> [1, 1.5, 3, 4];  at u = (1.5-1)/3 = 1/6:
     s(1/6,0) -> (47/20, 119/30)  s(1/6,.5) -> (11/4, 11/3) = c(1.5)  s(1/6,1) -> (63/20, 101/30);   s(.3,.5) = c(1.9) = (4.59, 6.12)
     c2 = Curve(BSplineBasis(2,[0,0,1,2,2]), [[0,0],[3,4],[7,1]]);  sf.thicken(c2, 1.0).controlpoints ->
        [[-.8,.6],[.8,-.6]], [[3.6,4.8],[2.4,3.2]], [[7.6,1.8],[6.4,.2]]       (corner: velocity from above)
     sf.thicken(c2, lambda x,t: 1+t/2+x/7).controlpoints ->
        [[-.8,.6],[.8,-.6]], [[291/70,194/35],[129/70,86/35]], [[8.8,3.4],[5.2,-1.4]]
     c3 = Curve(BSplineBasis(3), [[0,0],[0,0],[4,0]]);  s3 = sf.thicken(c3, 0.5)
     s3.controlpoints -> [[0,2],[0,-2]], [[0,-.25],[0,.25]], [[4,.5],[4,-.5]];   s3(0,0) -> (0, 2)   c3(0) -> (0, 0)          *)
Open Scope Q_scope.
(* exact on perfect squares, which is all these examples need *)
Definition qsqrt (q : Q) : Q := Qmake (Z.sqrt (Qnum q * Zpos (Qden q))) (Qden q).
Definition qtol : Q := 1 # 1000000000000.
Definition qeps : Q := 1 # 10000000000000.
Definition exq_c1 : obj Q := @mkObj Q [@mkBasis Q 3 [1; 1; 1; 2; 4; 4; 4] 0] [[0; 0]; [3; 4]; [9; 12]; [12; 16]] 2 false.
Definition exq_c2 : obj Q := @mkObj Q [@mkBasis Q 2 [0; 0; 1; 2; 2] 0] [[0; 0]; [3; 4]; [7; 1]] 2 false.
Definition exq_c3 : obj Q := @mkObj Q [@mkBasis Q 3 [0; 0; 0; 1; 1; 1] 0] [[0; 0]; [0; 0]; [4; 0]] 2 false.
Definition qshow (o : obj Q) := (map (fun bb => map Qred (b_knots bb)) (o_bases o), map (map Qred) (o_cps o), o_dim o, o_rat o).
Definition qev (o : obj Q) (ts : list Q) : list Q := match @obj_eval Q NumQ qtol o ts with Ok p => map Qred p | Err _ => [] end.

(* straight line, quadratic, domain [1,4]: the result lives on [0,1] x [0,1]; v = 0 is the side x + amount * (-t1, t0);
   the mid-line is the input curve at the Greville parameters AND in between (u = 3/10 <-> t = 19/10) *)
Example thicken_line_example :
  match @thicken Q NumQ qsqrt qtol qeps exq_c1 (1#2) with
  | Ok s =>
    qshow s = ([[0; 0; 0; 1#3; 1; 1; 1]; [0; 0; 1; 1]],
               [[-2#5; 3#10]; [2#5; -3#10]; [13#5; 43#10]; [17#5; 37#10]; [43#5; 123#10]; [47#5; 117#10]; [58#5; 163#10]; [62#5; 157#10]],
               2%nat, false) /\
    map Qred (@greville_all Q NumQ (hd (@dflt_bas Q) (o_bases exq_c1))) = [1; 3#2; 3; 4] /\
    qev s [1#6; 0] = [47#20; 119#30] /\ qev s [1#6; 1#2] = [11#4; 11#3] /\ qev s [1#6; 1] = [63#20; 101#30] /\
    qev exq_c1 [3#2] = [11#4; 11#3] /\
    qev s [3#10; 1#2] = [459#100; 153#25] /\ qev exq_c1 [19#10] = [459#100; 153#25]
  | Err _ => False
  end.
Proof. vm_compute. repeat split; reflexivity. Qed.

(* the shortcut edge_curves2 (reparam only) and the full make_splines_identical model give the same surface *)
Example thicken_full_agrees :
  match @thicken Q NumQ qsqrt qtol qeps exq_c1 (1#2), @thicken_full Q NumQ qsqrt qtol qeps exq_c1 (1#2),
        @thicken Q NumQ qsqrt qtol qeps exq_c2 1, @thicken_full Q NumQ qsqrt qtol qeps exq_c2 1 with
  | Ok a, Ok a', Ok c, Ok c' => qshow a = qshow a' /\ qshow c = qshow c'
  | _, _, _, _ => False
  end.
Proof. vm_compute. repeat split; reflexivity. Qed.

(* polyline with a corner at the Greville point t = 1: the velocity there is the one from above, (4,-3)/5 *)
Example thicken_polyline_example :
  match @thicken Q NumQ qsqrt qtol qeps exq_c2 1 with
  | Ok s =>
    qshow s = ([[0; 0; 1#2; 1; 1]; [0; 0; 1; 1]],
               [[-4#5; 3#5]; [4#5; -3#5]; [18#5; 24#5]; [12#5; 16#5]; [38#5; 9#5]; [32#5; 1#5]], 2%nat, false) /\
    qev s [1#2; 0] = [18#5; 24#5] /\ qev s [1#2; 1#2] = [3; 4] /\ qev s [1#2; 1] = [12#5; 16#5] /\
    qev s [3#10; 1#2] = [9#5; 12#5] /\ qev exq_c2 [3#5] = [9#5; 12#5]
  | Err _ => False
  end.
Proof. vm_compute. repeat split; reflexivity. Qed.

(* amount given as a function of (x, y, t) *)
Example thicken_function_example :
  match @thicken_fun Q NumQ qsqrt qtol qeps exq_c2 (fun x y t => 1 + t / 2 + x / 7) with
  | Ok s => map (map Qred) (o_cps s) = [[-4#5; 3#5]; [4#5; -3#5]; [291#70; 194#35]; [129#70; 86#35]; [44#5; 17#5]; [26#5; -7#5]] /\
            qev s [1#2; 1#2] = [3; 4]
  | Err _ => False
  end.
Proof. vm_compute. repeat split; reflexivity. Qed.

(* FINDING (zero velocity at the first Greville point): the loop copies v[1] BEFORE it has been normalised, so the "normal"
   at i = 0 has the length of the raw neighbouring velocity (here 4) and the offset there is 4 * amount = 2 instead of 1/2;
   the same degeneracy at the LAST point copies the already normalised neighbour and gives the expected 1/2.
   Both reproduced on the Python implementation (numbers above and in the report). *)
Example thicken_zero_start_velocity_defect :
  (match @thk_deriv Q NumQ qtol exq_c3 [0; 1#2; 1] with
   | Ok v => match @thk_normals Q NumQ qsqrt qeps 3 v with Ok nv => map (map Qred) nv = [[4; 0]; [1; 0]; [1; 0]] | Err _ => False end
   | Err _ => False end) /\
  match @thicken Q NumQ qsqrt qtol qeps exq_c3 (1#2) with
  | Ok s => map (map Qred) (o_cps s) = [[0; 2]; [0; -2]; [0; -1#4]; [0; 1#4]; [4; 1#2]; [4; -1#2]] /\
            qev s [0; 0] = [0; 2] /\ qev exq_c3 [0] = [0; 0] /\ qev s [1; 0] = [4; 1#2]
  | Err _ => False
  end.
Proof. vm_compute. repeat split; reflexivity. Qed.
Close Scope Q_scope.

Print Assumptions thicken_shape.
Print Assumptions thicken_shape_wf.
Print Assumptions thicken_nets.
Print Assumptions thicken_eval_greville.
Print Assumptions thicken_boundary_v0.
Print Assumptions thicken_boundary_v1.
Print Assumptions thicken_midline_greville.
Print Assumptions thicken_midline_net.
Print Assumptions thicken_midline_is_curve.
Print Assumptions thk_normals_regular.
Print Assumptions thicken_line_example.
Print Assumptions thicken_zero_start_velocity_defect.
