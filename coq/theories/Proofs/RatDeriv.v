(* The rational-derivative closed forms of Curve.derivative, Surface.derivative and the
   generic first-order quotient rule (regenerated from the Python sources into Gen/) satisfy
   the Leibniz product identities  n^(a) = sum_i C(a,i) W^(i) Q^(a-i)  (and its bivariate form),
   i.e. they are the Taylor jet of the quotient n/W, for every total order the API implements. *)
From Coq Require Import List Arith Reals Lra Lia ZArith.
From SplipyModel Require Import Spec.BSpline Model.Num Gen.RatDerivGeneric Gen.RatDerivCurve Gen.RatDerivSurface.
Open Scope R_scope.

Fixpoint binomN (n k : nat) : nat :=
  match n, k with
  | _, O => 1
  | O, S _ => 0
  | S n', S k' => binomN n' k' + binomN n' k
  end.

(* sum over i in [0, n] *)
Definition sum0 (f : nat -> R) (n : nat) : R := sumf f 0 (S n).

Section Curve.
Variables n W : nat -> R.
Hypothesis Wnz : W 0%nat <> 0.

(* what the API returns for derivative order a of a rational curve *)
Definition Qc (a : nat) : R :=
  match a with
  | 0%nat => n 0%nat / W 0%nat
  | 1%nat => @quot1 R NumR (n 1%nat) (n 0%nat) (W 1%nat) (W 0%nat)
  | 2%nat => @curve_d2 R NumR n W
  | 3%nat => @curve_d3 R NumR n W
  | _ => 0
  end.

Theorem curve_leibniz a : (a <= 3)%nat ->
  n a = sum0 (fun i => INR (binomN a i) * W i * Qc (a - i)) a.
Proof.
  intros Ha.
  destruct a as [|[|[|[|a]]]]; [| | | |lia];
  unfold sum0; cbn [sumf binomN Nat.add Nat.sub Qc]; unfold quot1, curve_d2, curve_d3;
  cbn [nadd nsub nmul ndiv nofZ n0 NumR]; simpl INR; field; exact Wnz.
Qed.
End Curve.

Section Surface.
Variables n W : nat -> nat -> R.
Hypothesis Wnz : W 0%nat 0%nat <> 0.

Definition Qs (a b : nat) : R :=
  match a, b with
  | 0%nat, 0%nat => n 0%nat 0%nat / W 0%nat 0%nat
  | 1%nat, 0%nat => @quot1 R NumR (n 1%nat 0%nat) (n 0%nat 0%nat) (W 1%nat 0%nat) (W 0%nat 0%nat)
  | 0%nat, 1%nat => @quot1 R NumR (n 0%nat 1%nat) (n 0%nat 0%nat) (W 0%nat 1%nat) (W 0%nat 0%nat)
  | 1%nat, 1%nat => @surf_d11 R NumR n W
  | 2%nat, 0%nat => @surf_d20 R NumR n W
  | 0%nat, 2%nat => @surf_d02 R NumR n W
  | 3%nat, 0%nat => @surf_d30 R NumR n W
  | 0%nat, 3%nat => @surf_d03 R NumR n W
  | 2%nat, 1%nat => @surf_d21 R NumR n W
  | 1%nat, 2%nat => @surf_d12 R NumR n W
  | _, _ => 0
  end.

Ltac leib := unfold sum0; cbn [sumf binomN Nat.add Nat.sub Qs];
  unfold quot1, surf_d11, surf_d20, surf_d02, surf_d30, surf_d03, surf_d21, surf_d12;
  cbn [nadd nsub nmul ndiv nofZ n0 NumR]; simpl INR; field; exact Wnz.

Theorem surface_leibniz a b : (a + b <= 3)%nat ->
  n a b = sum0 (fun i => sum0 (fun j => INR (binomN a i) * INR (binomN b j) * W i j * Qs (a - i) (b - j)) b) a.
Proof.
  intros Hab.
  destruct a as [|[|[|[|a]]]]; destruct b as [|[|[|[|b]]]]; try lia; leib.
Qed.

(* the first-order branches of Surface.derivative (unreachable through the dispatch, still checked) *)
Lemma surf_first_order :
  @surf_d10 R NumR n W = Qs 1 0 /\ @surf_d01 R NumR n W = Qs 0 1.
Proof.
  split; unfold Qs, quot1, surf_d10, surf_d01; cbn [nadd nsub nmul ndiv nofZ n0 NumR]; field; exact Wnz.
Qed.
End Surface.
